package props

import (
	"bufio"
	"bytes"
	"context"
	"encoding/json"
	"errors"
	"fmt"
	"io"
	"net"
	"os"
	"sync"
	"time"

	apicommon "github.com/enfein/mieru/v3/apis/common"
	"github.com/enfein/mieru/v3/apis/trafficpattern"
	"github.com/enfein/mieru/v3/pkg/cipher"
	"github.com/enfein/mieru/v3/pkg/common"
	"github.com/enfein/mieru/v3/pkg/protocol"
	"github.com/enfein/mieru/v3/pkg/socks5"
	"verifharness/sim"
	"verifharness/simnet"
	"verifharness/wire"
)

// The endpoint under test runs in a CHILD process (`vh c10-child`, re-exec of the harness binary):
// a panic of the real code is then an observable outcome (the child dies, its stderr carries the
// trace) and not the death of the check. The parent (c10.go) generates the cases, asks the Lean
// model for its prediction, sends each case to a child and compares.
//
// Protocol: one JSON object per line on stdin / stdout.

func init() {
	if len(os.Args) >= 2 && os.Args[1] == "c10-child" {
		c10ChildMain()
		os.Exit(0)
	}
}

type c10Case struct {
	Role  string   `json:"role"` // "server": real server, wire-level attacker client | "client": real client, wire-level hostile server
	UDP   bool     `json:"udp"`
	Seed  int64    `json:"seed"`
	Setup int      `json:"setup"` // server role: own sessions opened before the steps (0, 1 or 2); client role: always 2 application sessions
	Own1  uint32   `json:"own1"`
	Own2  uint32   `json:"own2"`
	Steps []c10Seg `json:"steps"`
}

type c10Obs struct {
	Sid        uint32 `json:"sid"`         // resolved session id of the step
	Created    bool   `json:"created"`     // server role: the application accepted a new session with this id
	TargetGone bool   `json:"target_gone"` // the target session was closed (application level)
	ReplyClose bool   `json:"reply_close"` // the endpoint answered with a closeSessionRequest for this id
	AppGot     bool   `json:"app_got"`     // the hostile payload reached the application
	Target     string `json:"target"`      // probe of the target own session afterwards: echo | closed | silent | none
	Bystander  string `json:"bystander"`   // probe of the other own session on the same underlay
	Underlay   string `json:"underlay"`    // up | closed
	Victim     string `json:"victim"`      // another user's session (server role) / a session on another underlay (client role)
	Skipped    bool   `json:"skipped"`     // not executed (the underlay was already closed)
}

type c10Reply struct {
	Error      string        `json:"error,omitempty"`
	SetupOK    bool          `json:"setup_ok"`
	Obs        []c10Obs      `json:"obs"`
	Accepts    int           `json:"accepts"`    // server role: sessions the application accepted during the case
	VictimSid  uint32        `json:"victim_sid"` // real id behind the "victim" selector
	Own        []uint32      `json:"own"`        // real ids behind own1 / own2 (client role)
	ElapsedMs  int64         `json:"elapsed_ms"`
	SameUnder  bool          `json:"same_underlay"` // client role: own1 and own2 share an underlay
	VictimLeft string        `json:"victim_final"`
	Burst      *c10BurstObs  `json:"burst,omitempty"`
	Window     *c10WindowObs `json:"window,omitempty"`
}

type c10Cmd struct {
	Op   string   `json:"op"` // start | case | quit
	Role string   `json:"role"`
	UDP  bool     `json:"udp"`
	Seed int64    `json:"seed"`
	Case *c10Case `json:"case"`
	// r4 stages (c10_burst.go, c10_window.go)
	Burst  *c10BurstSpec  `json:"burst,omitempty"`
	Window *c10WindowSpec `json:"window,omitempty"`
}

var c10Users = []sim.User{{Name: "alice", Password: "alice-secret"}, {Name: "bob", Password: "bob-secret"}, {Name: "carol", Password: "carol-secret"}}

const c10ProbeTimeout = 8 * time.Second

// ------------------------------------------------------------------------------------------------

// appSess is what the application side of the real endpoint knows about one session.
type c10AppSess struct {
	id     uint32
	conn   net.Conn
	mu     sync.Mutex
	got    []byte
	closed bool
	errs   string
}

func (a *c10AppSess) snapshot() (got []byte, closed bool) {
	a.mu.Lock()
	defer a.mu.Unlock()
	return append([]byte(nil), a.got...), a.closed
}

type c10Child struct {
	role string
	udp  bool
	seed int64
	net  *simnet.Net
	w    *sim.World // server role
	cl   *protocol.Mux

	mu    sync.Mutex
	cond  *sync.Cond
	apps  map[uint32]*c10AppSess // server role: accepted sessions by id
	mute  map[uint32]bool        // server role: sessions the application accepts and then never reads (window stage)
	order []uint32

	victim    net.Conn // server role: alice's real session
	victimRd  *c10AppSess
	victimSeq int

	// client role
	fakeLn    net.Listener
	fakePC    *simnet.PacketConn
	peers     []*c10Peer // one per underlay the real client opened
	clientApp []*c10AppSess
	markerSeq int
}

func (c *c10Child) broadcast() {
	c.mu.Lock()
	c.cond.Broadcast()
	c.mu.Unlock()
}

func (c *c10Child) waitFor(timeout time.Duration, pred func() bool) bool {
	deadline := time.Now().Add(timeout)
	t := time.AfterFunc(timeout+5*time.Millisecond, c.broadcast)
	defer t.Stop()
	c.mu.Lock()
	defer c.mu.Unlock()
	for !pred() {
		if time.Now().After(deadline) {
			return false
		}
		c.cond.Wait()
	}
	return true
}

// pump reads everything an application connection delivers.
func (c *c10Child) pump(a *c10AppSess, echo bool) {
	buf := make([]byte, 65536)
	for {
		n, err := a.conn.Read(buf)
		if n > 0 {
			a.mu.Lock()
			a.got = append(a.got, buf[:n]...)
			a.mu.Unlock()
			if echo {
				a.conn.Write(buf[:n])
			}
		}
		if err != nil {
			a.mu.Lock()
			a.closed = true
			a.errs = err.Error()
			a.mu.Unlock()
			c.broadcast()
			return
		}
		c.broadcast()
	}
}

func (c *c10Child) startServer() error {
	w, err := sim.NewWorld(sim.Config{UDP: c.udp, Users: c10Users, ClientUser: 0, Seed: c.seed})
	if err != nil {
		return err
	}
	c.w, c.net = w, w.Net
	go func() {
		for {
			conn, err := w.Server.Accept()
			if err != nil {
				return
			}
			id, _ := protocol.VerifSessionID(conn)
			a := &c10AppSess{id: id, conn: conn}
			c.mu.Lock()
			c.apps[id] = a
			c.order = append(c.order, id)
			muted := c.mute[id]
			c.cond.Broadcast()
			c.mu.Unlock()
			if muted {
				continue // an application that does not read: the receive queue of this session fills up
			}
			go c.pump(a, true)
		}
	}()
	return c.dialVictim()
}

func (c *c10Child) dialVictim() error {
	ctx, cancel := context.WithTimeout(context.Background(), 10*time.Second)
	defer cancel()
	conn, err := c.w.Client.DialContext(ctx)
	if err != nil {
		return fmt.Errorf("victim dial: %w", err)
	}
	c.victim = conn
	c.victimRd = &c10AppSess{conn: conn}
	if id, ok := protocol.VerifSessionID(conn); ok {
		c.victimRd.id = id
	}
	go c.pump(c.victimRd, false)
	if r := c.probeApp(c.victimRd, c10ProbeTimeout); r != "echo" {
		return fmt.Errorf("victim session does not echo at start: %s", r)
	}
	return nil
}

// probeApp writes a marker into an application connection of the real endpoint and waits until it
// comes back.
func (c *c10Child) probeApp(a *c10AppSess, timeout time.Duration) string {
	c.markerSeq++
	m := c10Marker("app", c.markerSeq)
	if _, closed := a.snapshot(); closed {
		return "closed"
	}
	done := make(chan error, 1)
	go func() { _, err := a.conn.Write(m); done <- err }()
	ok := c.waitFor(timeout, func() bool {
		got, closed := a.snapshot()
		return closed || bytes.Contains(got, m)
	})
	got, closed := a.snapshot()
	if bytes.Contains(got, m) {
		return "echo"
	}
	if closed {
		return "closed"
	}
	select {
	case err := <-done:
		if err != nil {
			return "closed"
		}
	default:
	}
	_ = ok
	return "silent"
}

func c10Keys(now time.Time) map[string][]byte {
	ks := map[string][]byte{}
	for _, u := range c10Users {
		ks[u.Name] = wire.KeyForSlot(wire.HashedPassword(u.Name, u.Password), wire.RoundTo2Min(now.Unix()))
	}
	return ks
}

// c10AvoidSlotBoundary waits if the 2-minute key slot is about to change, so that one case uses
// one key per user and the ciphers of the sessions it creates stay valid for its datagrams.
func c10AvoidSlotBoundary() {
	for {
		s := time.Now().Unix() % 120
		if s >= 54 && s < 61 {
			time.Sleep(time.Second)
			continue
		}
		// also stay clear of a minute boundary: metadata timestamps are minutes
		if m := time.Now().Unix() % 60; m >= 58 {
			time.Sleep(time.Second)
			continue
		}
		return
	}
}

func (c *c10Child) serverAddrUDP() *net.UDPAddr {
	return &net.UDPAddr{IP: net.IPv4(10, 8, 0, 1), Port: 8964}
}

// newAttacker creates a wire-level client towards the real server.
func (c *c10Child) newAttacker(user string, keys map[string][]byte, seed int64) (*c10Peer, error) {
	p := newC10Peer(false, c.udp, user, keys, seed)
	if c.udp {
		pc, err := c.net.ListenPacket(context.Background(), "udp", "", "")
		if err != nil {
			return nil, err
		}
		p.pc = pc.(*simnet.PacketConn)
		p.remote = c.serverAddrUDP()
		go p.runUDP()
		return p, nil
	}
	conn, err := c.net.DialContext(context.Background(), "tcp", "10.8.0.1:8964")
	if err != nil {
		return nil, err
	}
	p.conn = conn
	p.enc = &wire.StreamEncoder{Key: keys[user], Nonce: p.nonce(user)}
	p.dec = &wire.StreamDecoder{Keys: [][]byte{keys[user]}}
	go p.runTCP()
	return p, nil
}

func (c *c10Child) appSess(id uint32) *c10AppSess {
	c.mu.Lock()
	defer c.mu.Unlock()
	return c.apps[id]
}

// runServerCase executes one case against the real server.
func (c *c10Child) runServerCase(k *c10Case) c10Reply {
	var rep c10Reply
	c10AvoidSlotBoundary()
	start := time.Now()
	keys := c10Keys(start)
	// a previous case may have broken the other user's session (that was reported there): start from a
	// working one
	if c.probeApp(c.victimRd, c10ProbeTimeout) != "echo" {
		go c.victim.Close()
		if err := c.dialVictim(); err != nil {
			rep.Error = "setup: " + err.Error()
			return rep
		}
	}
	c.mu.Lock()
	accepts0 := len(c.order)
	c.mu.Unlock()
	rep.VictimSid = c.victimRd.id
	home, err := c.newAttacker("bob", keys, k.Seed)
	if err != nil {
		rep.Error = "attacker: " + err.Error()
		return rep
	}
	defer home.close()
	var fresh *c10Peer
	if c.udp {
		fresh, err = c.newAttacker("bob", keys, k.Seed+1)
		if err != nil {
			rep.Error = "attacker: " + err.Error()
			return rep
		}
		defer fresh.close()
	}
	own := []uint32{k.Own1, k.Own2}[:k.Setup]
	rep.SetupOK = true
	for _, id := range own {
		if !home.open(id, c10ProbeTimeout) {
			rep.SetupOK = false
		}
		if !c.waitFor(c10ProbeTimeout, func() bool { return c.apps[id] != nil }) {
			rep.SetupOK = false
		}
	}
	if !rep.SetupOK {
		rep.Error = "setup: own sessions did not open"
		return rep
	}
	content := make([]byte, 70000)
	underlayClosed := false
	gone := map[uint32]bool{}    // sessions already seen closed by an earlier step
	created := map[uint32]bool{} // sessions an earlier step created
	var prevRaw []byte
	var prevFrom *c10Peer
	for i := range k.Steps {
		s := &k.Steps[i]
		o := c10Obs{Target: "none", Bystander: "none", Underlay: "up"}
		if underlayClosed {
			o.Skipped = true
			o.Underlay = "closed"
			rep.Obs = append(rep.Obs, o)
			continue
		}
		sid := s.Sid
		switch s.SidSel {
		case "zero":
			sid = 0
		case "own1":
			sid = k.Own1
		case "own2":
			sid = k.Own2
		case "victim":
			sid = c.victimRd.id
		}
		o.Sid = sid
		fmt.Fprintf(os.Stderr, "c10-step %d\n", i) // lets the parent name the arrival a crash belongs to
		from := home
		if c.udp && (s.From == "fresh" || s.From == "port0") {
			from = fresh
		}
		// hostile payloads consist of bytes >= 0x80; everything else the applications exchange is ASCII
		c10HostileContent(content, k.Seed, i)
		hi0 := 0
		if a := c.appSess(sid); a != nil {
			got, _ := a.snapshot()
			hi0 = c10HighBytes(got)
		}
		if !created[sid] {
			isOwnSid := false
			for _, id := range own {
				isOwnSid = isOwnSid || id == sid
			}
			if !isOwnSid {
				hi0 = 0 // a session this step may create starts empty
			}
		}
		var raw []byte
		home.mu.Lock()
		closeReqs0 := home.closeReqs[sid]
		if fresh != nil {
			fresh.mu.Lock()
			closeReqs0 += fresh.closeReqs[sid]
			fresh.mu.Unlock()
		}
		switch s.Kind {
		case "garbage":
			raw = make([]byte, s.Len)
			from.rng.Read(raw)
		case "replay":
			raw = prevRaw
			if c.udp && prevFrom != nil {
				from = prevFrom
			}
		default:
			seq := s.Seq
			if s.SeqSel == "next" {
				if ps := home.sess[sid]; ps != nil {
					seq = ps.nextSend
					if ps.peerUnAck > seq {
						seq = ps.peerUnAck
					}
				}
			}
			if s.SeqSel == "next" && s.Expect == "deliver" && c10ConsumesSeq(s.Proto) {
				if ps := home.sess[sid]; ps != nil && seq >= ps.nextSend {
					ps.nextSend = seq + 1 // the endpoint will consume this number
				}
			}
			key := keys[s.KeyUser]
			if c.udp {
				nonce := from.nonce(s.KeyUser)
				meta, tail := s.build(key, nonce, sid, seq, time.Now(), content)
				raw = wire.SealUDPRaw(key, nonce, meta, tail)
			} else {
				// the nonce sequence is the connection's; only the key changes when another credential is used
				enc := home.enc
				saved := enc.Key
				enc.Key = key
				l := s.layout()
				meta, tail := s.build(key, enc.PayloadNonce(), sid, seq, time.Now(), content)
				raw = enc.SealRawStream(meta, tail, l.declPay > 0 && l.auth)
				enc.Key = saved
			}
		}
		home.mu.Unlock()
		prevRaw, prevFrom = raw, from
		from.mu.Lock()
		if c.udp && s.From == "port0" {
			// the datagram arrives from an address the server's socket cannot send to: source port 0 (the kernel
			// delivers such datagrams and answers EINVAL to sendto; simnet does the same)
			if ep := c.net.Endpoint(c.serverAddrUDP().Port); ep != nil {
				ep.InjectFrom(raw, &net.UDPAddr{IP: net.IPv4(10, 9, 9, 9), Port: 0})
			}
		} else if len(raw) > 0 || c.udp {
			from.sendRawLocked(raw)
		}
		from.mu.Unlock()
		forceRead := !c.udp && (s.Kind != "seg" || !s.layout().framed)
		if forceRead {
			// the stream is desynchronised or carries garbage: give the reader enough bytes to finish
			// whatever read it is blocked in (and the drain that follows a crypto error)
			home.mu.Lock()
			home.sendRawLocked(make([]byte, 40000))
			home.mu.Unlock()
		}

		// ---- observe ----
		otherOwn := uint32(0)
		for _, id := range own {
			if id != sid {
				otherOwn = id
			}
		}
		probeOwn := func(id uint32) string {
			c.markerSeq++
			return home.probe(id, c10Marker("probe", c.markerSeq), c10ProbeTimeout)
		}
		ownAlive := func(id uint32) bool {
			a := c.appSess(id)
			if a == nil {
				return false
			}
			_, closed := a.snapshot()
			home.mu.Lock()
			defer home.mu.Unlock()
			ps := home.sess[id]
			return !closed && ps != nil && !ps.closeSeen && !gone[id]
		}
		if !c.udp {
			// first learn whether the connection survived: an echo is a positive sign of life, EOF a positive
			// sign of death; a reader stuck in the post-error drain needs more bytes before it closes
			life := otherOwn
			if life == 0 || !ownAlive(life) {
				life = 0
				for _, id := range own {
					if id != otherOwn && ownAlive(id) && s.Expect != "closeSession" {
						life = id
					}
				}
			}
			if life != 0 && !forceRead {
				to := c10ProbeTimeout
				if s.Expect == "closeUnderlay" {
					to = 300 * time.Millisecond
				}
				c.markerSeq++
				r := home.probe(life, c10Marker("probe", c.markerSeq), to)
				if life == otherOwn {
					o.Bystander = r
				} else if r != "echo" {
					o.Bystander = r
				}
				if r == "echo" {
					life = 0xffffffff // alive
				}
			}
			if life != 0xffffffff && (s.Expect == "closeUnderlay" || forceRead || o.Bystander == "closed" || o.Bystander == "silent") {
				if !home.wait(300*time.Millisecond, func() bool { return home.eof }) {
					home.mu.Lock()
					home.sendRawLocked(make([]byte, 40000))
					home.mu.Unlock()
				}
				home.wait(12*time.Second, func() bool { return home.eof })
			}
			home.mu.Lock()
			if home.eof {
				o.Underlay = "closed"
				underlayClosed = true
			}
			home.mu.Unlock()
		} else if otherOwn != 0 && ownAlive(otherOwn) {
			o.Bystander = probeOwn(otherOwn)
		}
		// the other user's session
		o.Victim = c.probeApp(c.victimRd, c10ProbeTimeout)
		if !underlayClosed {
			// wait for what the model announced, then take the snapshot
			isOwn := false
			for _, id := range own {
				if id == sid {
					isOwn = true
				}
			}
			// sessions of EARLIER cases may have had the same id (the other user's id is the same in every
			// case of this child): only what this case opened or created counts
			acceptedNow := func() bool {
				for _, id := range c.order[accepts0:] {
					if id == sid {
						return true
					}
				}
				return false
			}
			switch s.Expect {
			case "createSession", "createSession+closed":
				c.waitFor(c10ProbeTimeout, acceptedNow)
				if s.Expect == "createSession+closed" {
					// the session is handed to Accept() and then fails on its first segment: let that happen
					// now, so that the closure is not attributed to the next step
					if a := c.appSess(sid); a != nil {
						c.waitFor(c10ProbeTimeout, func() bool { _, cl := a.snapshot(); return cl })
					}
				}
			case "closeSession":
				if isOwn || created[sid] {
					if a := c.appSess(sid); a != nil {
						c.waitFor(c10ProbeTimeout, func() bool { _, cl := a.snapshot(); return cl })
					}
				}
			default:
				time.Sleep(20 * time.Millisecond)
			}
			c.mu.Lock()
			if acceptedNow() && !isOwn && !created[sid] {
				o.Created = true
			}
			a := c.apps[sid]
			c.mu.Unlock()
			if o.Created {
				created[sid] = true
			}
			if a != nil && (isOwn || created[sid]) {
				if s.PayloadN > 0 && (o.Created || (s.Expect == "deliver" && s.SeqSel == "next" && c10IsData(s.Proto))) {
					// the payload follows the accept / the segment through two goroutines: let it arrive now, so
					// that it is attributed to this step and not to the next one
					c.waitFor(2*time.Second, func() bool { got, cl := a.snapshot(); return cl || c10HighBytes(got) > hi0 })
				}
				got, closed := a.snapshot()
				o.TargetGone = closed && !gone[sid]
				if closed {
					gone[sid] = true
				}
				o.AppGot = c10HighBytes(got) > hi0
			}
			if isOwn {
				if gone[sid] && !o.TargetGone {
					o.Target = "none" // closed by an earlier step
				} else if gone[sid] {
					o.Target = "closed"
				} else {
					o.Target = probeOwn(sid)
					if o.Target == "closed" {
						o.TargetGone = true
						gone[sid] = true
					}
				}
			}
			if s.Expect == "drop+reply" {
				home.wait(c10ProbeTimeout, func() bool { return home.closeReqs[sid] > closeReqs0 })
			}
			home.mu.Lock()
			n := home.closeReqs[sid]
			home.mu.Unlock()
			if fresh != nil {
				fresh.mu.Lock()
				n += fresh.closeReqs[sid]
				fresh.mu.Unlock()
			}
			o.ReplyClose = n > closeReqs0 && !isOwn
		} else {
			// everything on the connection went down with it
			for _, id := range own {
				if a := c.appSess(id); a != nil {
					c.waitFor(c10ProbeTimeout, func() bool { _, cl := a.snapshot(); return cl })
				}
			}
		}
		rep.Obs = append(rep.Obs, o)
	}
	c.mu.Lock()
	rep.Accepts = len(c.order) - accepts0
	c.mu.Unlock()
	rep.VictimLeft = c.probeApp(c.victimRd, c10ProbeTimeout)
	// tidy up: close what the case opened so the server does not accumulate sessions
	c.mu.Lock()
	ids := append([]uint32(nil), c.order[accepts0:]...)
	c.mu.Unlock()
	for _, id := range ids {
		if a := c.appSess(id); a != nil {
			go a.conn.Close()
		}
	}
	rep.ElapsedMs = time.Since(start).Milliseconds()
	return rep
}

// ------------------------------------------------------------------------------------------------
// client role: a real client Mux towards a wire-level hostile server

func (c *c10Child) startClient() error {
	c.net = simnet.New(c.seed)
	if err := c.newClientMux(); err != nil {
		return err
	}
	if c.udp {
		pc, err := c.net.ListenPacket(context.Background(), "udp", "10.8.0.1:8964", "")
		if err != nil {
			return err
		}
		c.fakePC = pc.(*simnet.PacketConn)
		go c.fakeServeUDP()
	} else {
		ln, err := c.net.Listen(context.Background(), "tcp", "10.8.0.1:8964")
		if err != nil {
			return err
		}
		c.fakeLn = ln
		go c.fakeServeTCP()
	}
	return nil
}

// newClientMux gives every case a fresh real client: an underlay that a previous case ruined keeps
// accepting new sessions for seconds while it closes its old ones one by one, which would make the
// next case's set-up fail for reasons that have nothing to do with it.
func (c *c10Child) newClientMux() error {
	if old := c.cl; old != nil {
		go old.Close()
	}
	cl := protocol.NewMux(true)
	cl.SetDialer(c.net)
	cl.SetPacketDialer(c.net)
	cl.SetResolver(apicommon.NilDNSResolver{})
	tp, err := trafficpattern.NewConfig(nil)
	if err != nil {
		return err
	}
	cl.SetTrafficPattern(tp)
	u := c10Users[0]
	cl.SetClientUserNamePassword(u.Name, cipher.HashPassword([]byte(u.Password), []byte(u.Name)))
	cl.SetClientMultiplexFactor(3)
	tr := protocol.NewUnderlayProperties(1400, c10Transport(c.udp), nil, c10ServerAddr(c.udp))
	cl.SetEndpoints([]protocol.UnderlayProperties{tr})
	c.cl = cl
	return nil
}

// fakeServeTCP accepts the real client's connections; each one gets its own wire-level peer.
func (c *c10Child) fakeServeTCP() {
	for {
		conn, err := c.fakeLn.Accept()
		if err != nil {
			return
		}
		keys := c10Keys(time.Now())
		p := newC10Peer(true, false, "alice", keys, c.seed+int64(len(c.peers)))
		p.echo = true
		p.conn = conn
		p.enc = &wire.StreamEncoder{Key: keys["alice"], Nonce: p.nonce("alice")}
		// the client may have derived its key in a neighbouring slot
		hp := wire.HashedPassword("alice", "alice-secret")
		p.dec = &wire.StreamDecoder{Keys: wire.KeysAt(hp, time.Now())}
		c.mu.Lock()
		c.peers = append(c.peers, p)
		c.cond.Broadcast()
		c.mu.Unlock()
		go func() {
			p.runTCP()
			c.broadcast()
		}()
	}
}

// fakeServeUDP demultiplexes datagrams by source address: one wire-level peer per client underlay.
func (c *c10Child) fakeServeUDP() {
	buf := make([]byte, 2048)
	byAddr := map[string]*c10Peer{}
	hp := wire.HashedPassword("alice", "alice-secret")
	for {
		n, from, err := c.fakePC.ReadFrom(buf)
		if err != nil {
			return
		}
		p := byAddr[from.String()]
		if p == nil {
			keys := c10Keys(time.Now())
			p = newC10Peer(true, true, "alice", keys, c.seed+int64(len(byAddr)))
			p.echo = true
			p.pc = c.fakePC
			p.remote = from
			byAddr[from.String()] = p
			c.mu.Lock()
			c.peers = append(c.peers, p)
			c.mu.Unlock()
		}
		g, derr := wire.OpenUDP(buf[:n], wire.KeysAt(hp, time.Now()))
		p.mu.Lock()
		if derr != nil {
			p.undecodable++
		} else {
			p.onSegmentLocked(g)
		}
		p.cond.Broadcast()
		p.mu.Unlock()
		c.broadcast()
	}
}

func c10Transport(udp bool) common.TransportProtocol {
	if udp {
		return common.PacketTransport
	}
	return common.StreamTransport
}

func c10ServerAddr(udp bool) net.Addr {
	if udp {
		return &net.UDPAddr{IP: net.IPv4(10, 8, 0, 1), Port: 8964}
	}
	return &net.TCPAddr{IP: net.IPv4(10, 8, 0, 1), Port: 8964}
}

func (c *c10Child) peerOf(sid uint32) *c10Peer {
	c.mu.Lock()
	ps := append([]*c10Peer(nil), c.peers...)
	c.mu.Unlock()
	for _, p := range ps {
		p.mu.Lock()
		_, ok := p.sess[sid]
		p.mu.Unlock()
		if ok {
			return p
		}
	}
	return nil
}

// dialApp opens one application session on the real client and waits until it echoes.
func (c *c10Child) dialApp() (*c10AppSess, error) {
	ctx, cancel := context.WithTimeout(context.Background(), 10*time.Second)
	defer cancel()
	conn, err := c.cl.DialContext(ctx)
	if err != nil {
		return nil, err
	}
	a := &c10AppSess{conn: conn}
	a.id, _ = protocol.VerifSessionID(conn)
	go c.pump(a, false)
	if r := c.probeApp(a, c10ProbeTimeout); r != "echo" {
		a.mu.Lock()
		why := a.errs
		a.mu.Unlock()
		return a, fmt.Errorf("application session %d does not echo: %s (%s)", a.id, r, why)
	}
	return a, nil
}

func (c *c10Child) runClientCase(k *c10Case) c10Reply {
	var rep c10Reply
	c10AvoidSlotBoundary()
	start := time.Now()
	if err := c.newClientMux(); err != nil {
		rep.Error = "setup: " + err.Error()
		return rep
	}
	c.mu.Lock()
	c.peers = nil
	c.mu.Unlock()
	// two application sessions that share an underlay if the scheduler allows, one on any other
	var apps []*c10AppSess
	var s1, s2, other *c10AppSess
	failures := 0
	for i := 0; i < 12 && (s2 == nil || other == nil); i++ {
		a, err := c.dialApp()
		if err != nil {
			// an underlay that a previous case ruined may still be around for a moment
			if a != nil {
				go a.conn.Close()
			}
			failures++
			if failures > 6 {
				rep.Error = "setup: " + err.Error()
				return rep
			}
			time.Sleep(50 * time.Millisecond)
			continue
		}
		apps = append(apps, a)
		if s1 == nil {
			s1 = a
			continue
		}
		if c.peerOf(a.id) == c.peerOf(s1.id) {
			if s2 == nil {
				s2 = a
			}
		} else if other == nil {
			other = a
		}
	}
	defer func() {
		for _, a := range apps {
			go a.conn.Close()
		}
	}()
	if s1 == nil {
		rep.Error = "setup: no application session could be opened"
		return rep
	}
	if s2 == nil {
		// the scheduler never put a second session on the first one's underlay: the model's table (two
		// sessions on the attacked underlay) would not describe this run
		rep.Error = "setup: no second session on the attacked underlay"
		return rep
	}
	rep.SetupOK = true
	rep.SameUnder = s2 != nil
	rep.Own = []uint32{s1.id, 0}
	if s2 != nil {
		rep.Own[1] = s2.id
	}
	peer := c.peerOf(s1.id)
	if peer == nil {
		rep.Error = "setup: the hostile server never saw the session"
		rep.SetupOK = false
		return rep
	}
	keys := c10Keys(start)
	content := make([]byte, 70000)
	underlayClosed := false
	goneApp := map[*c10AppSess]bool{}
	var prevRaw []byte
	// a legitimate ack re-opens the window a hostile segment may have closed (window = 0 stalls the
	// session it is sent to, which is the sender's own business, not a crash)
	refresh := func(a *c10AppSess) {
		if a == nil || !c.udp {
			return
		}
		peer.mu.Lock()
		if ps := peer.sess[a.id]; ps != nil {
			peer.ackLocked(ps)
		}
		peer.mu.Unlock()
	}
	for i := range k.Steps {
		s := &k.Steps[i]
		o := c10Obs{Target: "none", Bystander: "none", Underlay: "up"}
		if underlayClosed {
			o.Skipped = true
			o.Underlay = "closed"
			rep.Obs = append(rep.Obs, o)
			continue
		}
		sid := s.Sid
		var target *c10AppSess
		switch s.SidSel {
		case "zero":
			sid = 0
		case "own1":
			sid, target = s1.id, s1
		case "own2":
			if s2 != nil {
				sid, target = s2.id, s2
			}
		case "victim":
			if other != nil {
				sid = other.id // a session of this client that lives on ANOTHER underlay
			}
		}
		o.Sid = sid
		fmt.Fprintf(os.Stderr, "c10-step %d\n", i)
		c10HostileContent(content, k.Seed, i)
		hi0 := 0
		if target != nil {
			got, _ := target.snapshot()
			hi0 = c10HighBytes(got)
		}
		var raw []byte
		peer.mu.Lock()
		closeReqs0 := peer.closeReqs[sid]
		switch s.Kind {
		case "garbage":
			raw = make([]byte, s.Len)
			peer.rng.Read(raw)
		case "replay":
			raw = prevRaw
		default:
			seq := s.Seq
			if s.SeqSel == "next" {
				if ps := peer.sess[sid]; ps != nil {
					seq = ps.nextSend
					if c.udp && ps.peerUnAck > seq {
						seq = ps.peerUnAck
					}
					if s.Expect == "deliver" && c10ConsumesSeq(s.Proto) {
						ps.nextSend = seq + 1
					}
				}
			}
			key := keys[s.KeyUser]
			if c.udp {
				nonce := peer.nonce(s.KeyUser)
				meta, tail := s.build(key, nonce, sid, seq, time.Now(), content)
				raw = wire.SealUDPRaw(key, nonce, meta, tail)
			} else {
				enc := peer.enc
				saved := enc.Key
				enc.Key = key
				l := s.layout()
				meta, tail := s.build(key, enc.PayloadNonce(), sid, seq, time.Now(), content)
				raw = enc.SealRawStream(meta, tail, l.declPay > 0 && l.auth)
				enc.Key = saved
			}
		}
		prevRaw = raw
		if len(raw) > 0 || c.udp {
			peer.sendRawLocked(raw)
		}
		forceRead := !c.udp && (s.Kind != "seg" || !s.layout().framed)
		if forceRead {
			peer.sendRawLocked(make([]byte, 40000))
		}
		peer.mu.Unlock()

		// ---- observe: the application side of the real client ----
		by := s2
		if target == s2 {
			by = s1
		}
		if by != nil && goneApp[by] {
			by = nil
		}
		if by != nil && !forceRead {
			refresh(by)
			to := c10ProbeTimeout
			if s.Expect == "closeUnderlay" {
				to = 300 * time.Millisecond
			}
			o.Bystander = c.probeApp(by, to)
		}
		if !c.udp {
			alive := o.Bystander == "echo"
			if !alive && by == nil && target != nil && !goneApp[target] && !forceRead && s.Expect != "closeSession" && s.Expect != "closeUnderlay" {
				// no second session on this underlay: the target itself is the sign of life
				alive = c.probeApp(target, c10ProbeTimeout) == "echo"
			}
			if !alive && (s.Expect == "closeUnderlay" || forceRead || o.Bystander == "closed" || o.Bystander == "silent") {
				if !peer.wait(300*time.Millisecond, func() bool { return peer.eof }) {
					peer.mu.Lock()
					peer.sendRawLocked(make([]byte, 40000))
					peer.mu.Unlock()
				}
				peer.wait(12*time.Second, func() bool { return peer.eof })
			}
			peer.mu.Lock()
			if peer.eof {
				o.Underlay = "closed"
				underlayClosed = true
			}
			peer.mu.Unlock()
		}
		if other != nil {
			o.Victim = c.probeApp(other, c10ProbeTimeout)
		} else {
			o.Victim = "none"
		}
		if !underlayClosed && target != nil {
			if s.Expect == "closeSession" {
				c.waitFor(c10ProbeTimeout, func() bool { _, cl := target.snapshot(); return cl })
			} else {
				time.Sleep(20 * time.Millisecond)
			}
			if s.PayloadN > 0 && s.Expect == "deliver" && s.SeqSel == "next" && c10IsData(s.Proto) {
				c.waitFor(2*time.Second, func() bool { got, cl := target.snapshot(); return cl || c10HighBytes(got) > hi0 })
			}
			got, closed := target.snapshot()
			o.AppGot = c10HighBytes(got) > hi0
			if goneApp[target] {
				o.Target = "none" // closed by an earlier step
			} else if closed {
				o.TargetGone, o.Target = true, "closed"
				goneApp[target] = true
			} else {
				refresh(target)
				o.Target = c.probeApp(target, c10ProbeTimeout)
				if o.Target == "closed" {
					o.TargetGone = true
					goneApp[target] = true
				}
			}
		}
		if !underlayClosed {
			if s.Expect == "drop+reply" {
				peer.wait(c10ProbeTimeout, func() bool { return peer.closeReqs[sid] > closeReqs0 })
			}
			peer.mu.Lock()
			o.ReplyClose = peer.closeReqs[sid] > closeReqs0 && target == nil
			peer.mu.Unlock()
		}
		rep.Obs = append(rep.Obs, o)
	}
	if other != nil {
		rep.VictimLeft = c.probeApp(other, c10ProbeTimeout)
	} else {
		rep.VictimLeft = "none"
	}
	rep.ElapsedMs = time.Since(start).Milliseconds()
	return rep
}

// ------------------------------------------------------------------------------------------------

// c10MixedConn is a tunnel transport whose two directions fail with errors of different concrete
// types, as a TCP or TLS connection does (*net.OpError on Write, io.EOF on Read).
type c10MixedConn struct {
	release chan struct{}
	writes  chan struct{}
}

func (c *c10MixedConn) Read(p []byte) (int, error) { <-c.release; return 0, io.EOF }
func (c *c10MixedConn) Write(p []byte) (int, error) {
	select {
	case c.writes <- struct{}{}:
	default:
	}
	return 0, &net.OpError{Op: "write", Net: "tcp", Err: errors.New("broken pipe")}
}
func (c *c10MixedConn) Close() error        { return nil }
func (c *c10MixedConn) LocalAddr() net.Addr { return &net.TCPAddr{IP: net.IPv4(127, 0, 0, 1), Port: 1} }
func (c *c10MixedConn) RemoteAddr() net.Addr {
	return &net.TCPAddr{IP: net.IPv4(127, 0, 0, 1), Port: 2}
}
func (c *c10MixedConn) SetDeadline(t time.Time) error      { return nil }
func (c *c10MixedConn) SetReadDeadline(t time.Time) error  { return nil }
func (c *c10MixedConn) SetWriteDeadline(t time.Time) error { return nil }

// c10AssocTypes drives socks5.RunUDPAssociateLoop over such a transport: a reply datagram arrives while
// the tunnel's write side is broken (the relay goroutine records a *net.OpError), then the tunnel's
// read side ends (the other goroutine records io.EOF). The loop must return an error, not crash.
func c10AssocTypes() c10Reply {
	udpConn, err := net.ListenUDP("udp4", &net.UDPAddr{IP: net.IPv4(127, 0, 0, 1)})
	if err != nil {
		return c10Reply{Error: "listen: " + err.Error()}
	}
	dest, err := net.ListenUDP("udp4", &net.UDPAddr{IP: net.IPv4(127, 0, 0, 1)})
	if err != nil {
		return c10Reply{Error: "listen: " + err.Error()}
	}
	defer dest.Close()
	mc := &c10MixedConn{release: make(chan struct{}), writes: make(chan struct{}, 1)}
	done := make(chan error, 1)
	go func() {
		done <- socks5.RunUDPAssociateLoop(udpConn, apicommon.NewPacketOverStreamTunnel(mc), apicommon.NilDNSResolver{})
	}()
	dest.WriteToUDP([]byte("reply from a destination"), udpConn.LocalAddr().(*net.UDPAddr))
	select {
	case <-mc.writes:
	case <-time.After(5 * time.Second):
		return c10Reply{Error: "the relay never wrote the reply to the tunnel"}
	}
	time.Sleep(50 * time.Millisecond) // let the relay goroutine record its error and return
	close(mc.release)
	select {
	case err := <-done:
		return c10Reply{SetupOK: true, VictimLeft: fmt.Sprint(err)}
	case <-time.After(5 * time.Second):
		return c10Reply{Error: "RunUDPAssociateLoop did not return"}
	}
}

// c10ConsumesSeq: segments `Session.input` hands to inputData take the next sequence number of their
// session when they are accepted (open request / response and data of either kind).
func c10ConsumesSeq(p int) bool { return p == 2 || p == 3 || c10IsData(p) }

// c10HostileContent fills b with bytes >= 0x80 that depend on the case and the step.
func c10HostileContent(b []byte, seed int64, step int) {
	for j := range b {
		b[j] = 0x80 | byte((int(seed&0x7f)+step*7+j*13)&0x7f)
	}
}

func c10HighBytes(b []byte) int {
	n := 0
	for _, x := range b {
		if x >= 0x80 {
			n++
		}
	}
	return n
}

func c10ChildMain() {
	in := bufio.NewReaderSize(os.Stdin, 1<<20)
	out := bufio.NewWriter(os.Stdout)
	reply := func(v interface{}) {
		b, _ := json.Marshal(v)
		out.Write(b)
		out.WriteByte('\n')
		out.Flush()
	}
	var c *c10Child
	for {
		line, err := in.ReadBytes('\n')
		if len(line) > 0 {
			var cmd c10Cmd
			if json.Unmarshal(line, &cmd) != nil {
				reply(c10Reply{Error: "bad command"})
				continue
			}
			switch cmd.Op {
			case "start":
				c = &c10Child{role: cmd.Role, udp: cmd.UDP, seed: cmd.Seed, apps: map[uint32]*c10AppSess{}, mute: map[uint32]bool{}}
				c.cond = sync.NewCond(&c.mu)
				var e error
				if cmd.Role == "server" {
					e = c.startServer()
				} else {
					e = c.startClient()
				}
				if e != nil {
					reply(c10Reply{Error: "start: " + e.Error()})
				} else {
					reply(c10Reply{SetupOK: true})
				}
			case "case":
				if c == nil || cmd.Case == nil {
					reply(c10Reply{Error: "not started"})
					continue
				}
				if c.role == "server" {
					reply(c.runServerCase(cmd.Case))
				} else {
					reply(c.runClientCase(cmd.Case))
				}
			case "assoc-types":
				reply(c10AssocTypes())
			case "burst":
				if c == nil || cmd.Burst == nil {
					reply(c10Reply{Error: "not started"})
					continue
				}
				reply(c.runBurst(cmd.Burst))
			case "window":
				if c == nil || cmd.Window == nil {
					reply(c10Reply{Error: "not started"})
					continue
				}
				reply(c.runWindow(cmd.Window))
			case "quit":
				return
			}
		}
		if err != nil {
			if err != io.EOF {
				fmt.Fprintln(os.Stderr, "c10-child:", err)
			}
			return
		}
	}
}
