package props

import (
	"encoding/base64"
	"fmt"
	"net"
	"sort"
	"strings"
	"time"

	"github.com/enfein/mieru/v3/apis/trafficpattern"
	"github.com/enfein/mieru/v3/pkg/appctl"
	"github.com/enfein/mieru/v3/pkg/appctl/appctlcommon"
	pb "github.com/enfein/mieru/v3/pkg/appctl/appctlpb"
	"google.golang.org/protobuf/proto"
	"verifharness/core"
)

// Round 4: the validators (FlatPortBindings, ValidateServerConfigSingleUser, ValidateClientConfigSingleProfile,
// ValidateServerConfigPatch, ValidateFullServerConfig, ValidateClientConfigPatch, ValidateFullClientConfig) against
// Mieru.Validate (ops val-flat / val-range / val-user / val-profile / val-server / val-client). The comparison is the
// accept/reject decision AND which check rejected (the real error message is classified by its text, the model
// returns the first failing check in the code's order); for FlatPortBindings also the resulting port sets.
// Library outcomes (net.ParseIP, net.ParseCIDR, time.ParseDuration, trafficpattern.Validate, TransformDNSHosts,
// proto.Equal with the empty message) are computed here with the same calls and handed to the model.

// c20ValClass maps a validator's error to the model's constructor name.
var c20ValTable = []struct{ frag, name string }{
	{"protocol is not set", "protoUnset"}, // also prefix of "egress proxy protocol is not set": handled by order below
	{"unknown protocol", "protoUnknown"},
	{"unable to parse port range", "rangeUnparsable"},
	{"begin of port range", "rangeBeginGtEnd"},
	{"user name is not set", "userNameEmpty"},
	{"user password is not set", "userPasswordUnset"},
	{"user name exceeds", "userNameTooLong"},
	{"user password exceeds", "userPasswordTooLong"},
	{"quota: number of days", "quotaDays"},
	{"quota: traffic volume", "quotaMegabytes"},
	{"profile name is not set", "profileNameEmpty"},
	{"user quota is not supported", "quotaUnsupported"},
	{"servers are not set", "serversEmpty"},
	{"neither server IP address nor domain name", "serverNoHost"},
	{"failed to parse IP address", "serverBadIP"},
	{"MTU value", "mtuOutOfRange"},
	{"invalid traffic pattern", "trafficPattern"},
	{"client profile dialer protocol", "dialerProtocol"},
	{"client profile dialer host", "dialerHost"},
	{"client profile dialer port", "dialerPort"},
	{"client profile dialer socks5 authentication user", "dialerAuthUser"},
	{"client profile dialer socks5 authentication password", "dialerAuthPassword"},
	{"egress proxy name is empty", "proxyNameEmpty"},
	{"found duplicate egress proxy name", "proxyNameDup"},
	{"egress proxy host is not set", "proxyHostEmpty"},
	{"egress proxy port number", "proxyPort"},
	{"egress proxy socks5 authentication user", "proxyAuthUser"},
	{"egress proxy socks5 authentication password", "proxyAuthPassword"},
	{"egress rule: invalid IP CIDR", "ruleCIDR"},
	{"egress rule: domain name is empty", "ruleDomainEmpty"},
	{"must not begin with a dot", "ruleDomainLeadingDot"},
	{"must not end with a dot", "ruleDomainTrailingDot"},
	{"proxy name list is empty for PROXY", "ruleProxyListEmpty"},
	{"is referenced but not defined", "ruleProxyUndefined"},
	{"proxy name list is not empty for non-PROXY", "ruleProxyListNotEmpty"},
	{"invalid DNS configuration", "dns"},
	{"is less than 1 second", "intervalTooShort"},
	{"metrics logging interval", "intervalInvalid"},
	{"server config is empty", "serverConfigEmpty"},
	{"server port binding is not set", "serverNoPortBinding"},
	{"socks5 authentication user is not set", "authUserEmpty"},
	{"socks5 authentication password is not set", "authPasswordEmpty"},
	{"profiles are not set", "profilesEmpty"},
	{"active profile is not set", "activeUnset"},
	{"active profile is not found", "activeNotFound"},
	{"is the same as socks5 port number", "?sameSocks5"},
	{"is the same as RPC port number", "httpEqRpc"},
	{"RPC port number", "rpcPort"},
	{"socks5 port number", "socks5Port"},
	{"HTTP proxy port number", "httpPort"},
}

func c20ValClass(err error) string {
	if err == nil {
		return "ok"
	}
	m := err.Error()
	switch {
	case strings.HasPrefix(m, "invalid DNS configuration"):
		return "err dns"
	case strings.HasPrefix(m, "invalid traffic pattern"):
		return "err trafficPattern"
	case strings.HasPrefix(m, "egress proxy protocol is not set"):
		return "err proxyProtoUnset"
	case strings.HasPrefix(m, "RPC port number") && strings.Contains(m, "is the same as socks5"):
		return "err rpcEqSocks5"
	case strings.HasPrefix(m, "HTTP proxy port number") && strings.Contains(m, "is the same as socks5"):
		return "err httpEqSocks5"
	case strings.HasPrefix(m, "unable to parse int from"):
		return "err rangeNotInt" // begin / end told apart by the caller
	case strings.HasPrefix(m, "port number ") && strings.HasSuffix(m, " is invalid"):
		return "err portNumberInvalid" // port / range begin / range end told apart by the caller
	}
	for _, e := range c20ValTable {
		if strings.Contains(m, e.frag) {
			return "err " + e.name
		}
	}
	return "err ?unclassified(" + m + ")"
}

// c20ValSame: does the model's verdict m agree with the classified real error?  FlatPortBindings uses one
// message for three checks ("port number %d is invalid") and one for two ("unable to parse int from"): the model
// must then name one of the checks that print it.
func c20ValSame(m, got string) bool {
	switch got {
	case "err portNumberInvalid":
		return m == "err portInvalid" || m == "err rangeBeginInvalid" || m == "err rangeEndInvalid"
	case "err rangeNotInt":
		return m == "err rangeBeginNotInt" || m == "err rangeEndNotInt"
	case "err serverNoPortBinding": // the same text for a profile's server and for the full server configuration
		return m == "err serverNoPortBinding" || m == "err serverNoBindings"
	}
	return m == got
}

func c20tokI32p(v *int32) string { return c20tokOptI32(v) }

func c20ValBindingsTok(bs []*pb.PortBinding) string {
	if len(bs) == 0 {
		return "-"
	}
	var bl []string
	for _, b := range bs {
		var pr *int32
		if b.Protocol != nil {
			pr = proto.Int32(int32(*b.Protocol))
		}
		bl = append(bl, fmt.Sprintf("%s:%s:%s", c20tokOptI32(b.Port), c20tokOptStr(b.PortRange), c20tokOptI32(pr)))
	}
	return strings.Join(bl, ",")
}

func c20ValUserTok(u *pb.User) string {
	q := "-"
	if len(u.GetQuotas()) > 0 {
		var l []string
		for _, x := range u.GetQuotas() {
			l = append(l, fmt.Sprintf("%d|%d", x.GetDays(), x.GetMegabytes()))
		}
		q = strings.Join(l, ",")
	}
	if u == nil {
		return "-:-:-:-"
	}
	return fmt.Sprintf("%s:%s:%s:%s", c20tokOptStr(u.Name), c20tokOptStr(u.Password), c20tokOptStr(u.HashedPassword), q)
}

func c20ValBool(b bool) string {
	if b {
		return "1"
	}
	return "0"
}

func c20ValProfileTok(p *pb.ClientProfile) string {
	f := strings.Split(c20ProfileTokens(p), " ")
	d := "-"
	if p.GetDialer() != nil {
		dl := p.GetDialer()
		a := dl.GetSocks5Authentication()
		d = fmt.Sprintf("%d|%s|%d|%s|%s|%s", int32(dl.GetProtocol()), c20tokBytes([]byte(dl.GetHost())), dl.GetPort(), c20ValBool(a != nil),
			c20tokBytes([]byte(a.GetUser())), c20tokBytes([]byte(a.GetPassword())))
	}
	var hp *string
	if p.User != nil {
		hp = p.User.HashedPassword
	}
	f = append(f, c20tokOptStr(hp), fmt.Sprint(len(p.GetUser().GetQuotas())), d, c20ValBool(trafficpattern.Validate(p.TrafficPattern) == nil))
	return strings.Join(f, "!")
}

func c20ValIPs(ps []*pb.ClientProfile) string {
	seen := map[string]bool{}
	var l []string
	for _, p := range ps {
		for _, s := range p.GetServers() {
			ip := s.GetIpAddress()
			if ip != "" && !seen[ip] && net.ParseIP(ip) != nil {
				seen[ip] = true
				l = append(l, c20tokBytes([]byte(ip)))
			}
		}
	}
	if len(l) == 0 {
		return "-"
	}
	return strings.Join(l, ",")
}

func c20ValList(l []string) string {
	if len(l) == 0 {
		return "-"
	}
	var o []string
	for _, s := range l {
		o = append(o, c20tokBytes([]byte(s)))
	}
	return strings.Join(o, ",")
}

func c20ValInterval(s string) (string, string) {
	ns := "-"
	if d, err := time.ParseDuration(s); err == nil {
		ns = fmt.Sprint(int64(d))
	}
	return c20tokBytes([]byte(s)), ns
}

func c20ValServerTok(cfg *pb.ServerConfig) string {
	us := "-"
	if len(cfg.GetUsers()) > 0 {
		var l []string
		for _, u := range cfg.GetUsers() {
			l = append(l, c20ValUserTok(u))
		}
		us = strings.Join(l, ";")
	}
	px := "-"
	if ps := cfg.GetEgress().GetProxies(); len(ps) > 0 {
		var l []string
		for _, p := range ps {
			l = append(l, fmt.Sprintf("%s:%d:%s:%d:%s:%s", c20tokBytes([]byte(p.GetName())), int32(p.GetProtocol()), c20tokBytes([]byte(p.GetHost())), p.GetPort(),
				c20tokBytes([]byte(p.GetSocks5Authentication().GetUser())), c20tokBytes([]byte(p.GetSocks5Authentication().GetPassword()))))
		}
		px = strings.Join(l, ";")
	}
	rl := "-"
	if rs := cfg.GetEgress().GetRules(); len(rs) > 0 {
		var l []string
		for _, r := range rs {
			ir := "-"
			if len(r.GetIpRanges()) > 0 {
				var x []string
				for _, t := range r.GetIpRanges() {
					_, _, err := net.ParseCIDR(t)
					x = append(x, c20tokBytes([]byte(t))+"|"+c20ValBool(err == nil))
				}
				ir = strings.Join(x, ",")
			}
			l = append(l, fmt.Sprintf("%s:%s:%d:%s", ir, c20ValList(r.GetDomainNames()), int32(r.GetAction()), c20ValList(r.GetProxyNames())))
		}
		rl = strings.Join(l, ";")
	}
	_, derr := appctlcommon.TransformDNSHosts(cfg.GetDns())
	iv, ns := c20ValInterval(cfg.GetAdvancedSettings().GetMetricsLoggingInterval())
	return strings.Join([]string{c20ValBindingsTok(cfg.GetPortBindings()), us, fmt.Sprint(cfg.GetMtu()), px, rl, c20ValBool(derr == nil), iv, ns,
		c20ValBool(trafficpattern.Validate(cfg.GetTrafficPattern()) == nil), c20ValBool(proto.Equal(cfg, &pb.ServerConfig{}))}, " ")
}

func c20ValClientTok(cfg *pb.ClientConfig) string {
	ps := "-"
	if len(cfg.GetProfiles()) > 0 {
		var l []string
		for _, p := range cfg.GetProfiles() {
			l = append(l, c20ValProfileTok(p))
		}
		ps = strings.Join(l, "+")
	}
	au := "-"
	if len(cfg.GetSocks5Authentication()) > 0 {
		var l []string
		for _, a := range cfg.GetSocks5Authentication() {
			l = append(l, c20tokBytes([]byte(a.GetUser()))+"|"+c20tokBytes([]byte(a.GetPassword())))
		}
		au = strings.Join(l, ",")
	}
	iv, ns := c20ValInterval(cfg.GetAdvancedSettings().GetMetricsLoggingInterval())
	return strings.Join([]string{c20ValIPs(cfg.GetProfiles()), ps, au, iv, ns, c20tokBytes([]byte(cfg.GetActiveProfile())), fmt.Sprint(cfg.GetRpcPort()),
		fmt.Sprint(cfg.GetSocks5Port()), c20tokOptI32(cfg.HttpProxyPort)}, " ")
}

// c20ValRuns renders a sorted port list as maximal runs `a-b,c-d`.
func c20ValRuns(l []int32) string {
	if len(l) == 0 {
		return "-"
	}
	var o []string
	a, b := l[0], l[0]
	for _, p := range l[1:] {
		if p == b+1 {
			b = p
			continue
		}
		o = append(o, fmt.Sprintf("%d-%d", a, b))
		a, b = p, p
	}
	o = append(o, fmt.Sprintf("%d-%d", a, b))
	return strings.Join(o, ",")
}

func c20ValReport(c *core.Ctx, k c20Case, op, m string, err error) {
	got := c20ValClass(err)
	c.Compared()
	c.Hist("validate_"+k.Kind, strings.SplitN(got, "(", 2)[0])
	if strings.Contains(got, "?unclassified") {
		c.Disagree("C20/corr/"+op, "validator returned an error the harness cannot classify: "+got, k)
		return
	}
	if !c20ValSame(m, got) {
		c.Disagree("C20/corr/"+op, fmt.Sprintf("model %.120s impl %.160s", m, got), k)
	}
}

// c20ValRun evaluates one validator case; kinds val-flat, val-user, val-profile, val-server[-full], val-client[-full].
func c20ValRun(c *core.Ctx, k c20Case) {
	raw, _ := base64.StdEncoding.DecodeString(k.PB)
	switch k.Kind {
	case "val-flat":
		sc := &pb.ServerConfig{} // the bindings travel in a ServerConfig
		if proto.Unmarshal(raw, sc) != nil {
			return
		}
		var res []*pb.PortBinding
		var err error
		if c20Guard(c, k, "FlatPortBindings", func() { res, err = appctlcommon.FlatPortBindings(sc.GetPortBindings()) }) {
			return
		}
		c.Eval(c20Key(k), err == nil)
		m := c.Model.Ask("val-flat %s", c20ValBindingsTok(sc.GetPortBindings()))
		if err != nil {
			c20ValReport(c, k, "val-flat", m, err)
			return
		}
		// direct oracle: TCP entries first, then UDP, each strictly ascending, every port in [1, 65535], port set only
		var tcp, udp []int32
		for _, b := range res {
			if b.GetPort() < 1 || b.GetPort() > 65535 || b.PortRange != nil {
				c.Violate("C20/validate/flat-port-out-of-range", fmt.Sprintf("FlatPortBindings returned %v", b), k)
			}
			switch b.GetProtocol() {
			case pb.TransportProtocol_TCP:
				if len(udp) > 0 {
					c.Violate("C20/validate/flat-order", "a TCP entry follows a UDP entry", k)
				}
				tcp = append(tcp, b.GetPort())
			case pb.TransportProtocol_UDP:
				udp = append(udp, b.GetPort())
			default:
				c.Violate("C20/validate/flat-protocol", fmt.Sprintf("FlatPortBindings returned %v", b), k)
			}
		}
		if !sort.SliceIsSorted(tcp, func(i, j int) bool { return tcp[i] < tcp[j] }) || !sort.SliceIsSorted(udp, func(i, j int) bool { return udp[i] < udp[j] }) {
			c.Violate("C20/validate/flat-order", "ports not ascending", k)
		}
		c.Compared()
		c.Hist("validate_val-flat", "ok")
		if got := "ok " + c20ValRuns(tcp) + " " + c20ValRuns(udp); got != m {
			c.Disagree("C20/corr/val-flat", fmt.Sprintf("model %.160s impl %.160s", m, got), k)
		}
	case "val-user":
		u := &pb.User{}
		if proto.Unmarshal(raw, u) != nil {
			return
		}
		var err error
		if c20Guard(c, k, "ValidateServerConfigSingleUser", func() { err = appctlcommon.ValidateServerConfigSingleUser(u) }) {
			return
		}
		c.Eval(c20Key(k), err == nil)
		c20ValReport(c, k, "val-user", c.Model.Ask("val-user %s", c20ValUserTok(u)), err)
	case "val-profile":
		p := &pb.ClientProfile{}
		if proto.Unmarshal(raw, p) != nil {
			return
		}
		var err error
		if c20Guard(c, k, "ValidateClientConfigSingleProfile", func() { err = appctlcommon.ValidateClientConfigSingleProfile(p) }) {
			return
		}
		c.Eval(c20Key(k), err == nil)
		c20ValReport(c, k, "val-profile", c.Model.Ask("val-profile %s %s", c20ValIPs([]*pb.ClientProfile{p}), c20ValProfileTok(p)), err)
	case "val-server", "val-server-full":
		sc := &pb.ServerConfig{}
		if proto.Unmarshal(raw, sc) != nil {
			return
		}
		full := k.Kind == "val-server-full"
		var err error
		if c20Guard(c, k, "ValidateServerConfig", func() {
			if full {
				err = appctl.ValidateFullServerConfig(sc)
			} else {
				err = appctl.ValidateServerConfigPatch(sc)
			}
		}) {
			return
		}
		c.Eval(c20Key(k), err == nil)
		c20ValReport(c, k, "val-server", c.Model.Ask("val-server %s %s", c20ValBool(full), c20ValServerTok(sc)), err)
		// direct oracle: the full validation accepts only what the patch validation accepts, and needs a port binding
		if full && err == nil && (appctl.ValidateServerConfigPatch(sc) != nil || len(sc.GetPortBindings()) == 0) {
			c.Violate("C20/validate/full-server-weaker-than-patch", "ValidateFullServerConfig accepted a configuration the patch validation rejects or one without a port binding", k)
		}
	case "val-client", "val-client-full":
		cc := &pb.ClientConfig{}
		if proto.Unmarshal(raw, cc) != nil {
			return
		}
		full := k.Kind == "val-client-full"
		var err error
		if c20Guard(c, k, "ValidateClientConfig", func() {
			if full {
				err = appctl.ValidateFullClientConfig(cc)
			} else {
				err = appctl.ValidateClientConfigPatch(cc)
			}
		}) {
			return
		}
		c.Eval(c20Key(k), err == nil)
		c20ValReport(c, k, "val-client", c.Model.Ask("val-client %s %s", c20ValBool(full), c20ValClientTok(cc)), err)
		if full && err == nil && appctl.ValidateClientConfigPatch(cc) != nil {
			c.Violate("C20/validate/full-client-weaker-than-patch", "ValidateFullClientConfig accepted a configuration the patch validation rejects", k)
		}
	}
}

// ---- generators ------------------------------------------------------------------------------------

var c20ValRangeTexts = []string{"", "1-1", "65535-65535", "1-65535", "0-5", "5-0", "1-65536", "65536-65537", "5-4", "8443-8443", "100-200", "0080-0090", "00001-1",
	"1-2-3", "-1-2", "1--2", "1-", "-", "-5", "a-b", "1-b", "a-1", " 1-2", "1-2 ", "1-2\n", "1 -2", "+1-2", "1-+2", "１-２", "٣-٤",
	"99999999999999999999-1", "1-99999999999999999999", "9223372036854775807-9223372036854775807", "9223372036854775808-1", "1-9223372036854775808",
	"18446744073709551617-18446744073709551618", "4294967297-4294967298", "1\x00-2", "1-2\xff", "\xff"}

func c20ValB(port *int32, rng *string, pr int32) *pb.PortBinding {
	b := &pb.PortBinding{Port: port, PortRange: rng}
	if pr >= 0 {
		b.Protocol = pb.TransportProtocol(pr).Enum()
	}
	return b
}

func c20ValFlatCase(bs ...*pb.PortBinding) c20Case {
	return c20Case{Kind: "val-flat", PB: c20PB(&pb.ServerConfig{PortBindings: bs})}
}

// c20ValBoundaries: every boundary of every field the validators look at, on every run.
func c20ValBoundaries(c *core.Ctx) {
	// --- FlatPortBindings
	c20Run(c, c20ValFlatCase())
	for _, pr := range []int32{-1, 0, 1, 2, 3, 7} {
		for _, p := range []int32{-1, 0, 1, 2, 65534, 65535, 65536, 1 << 30, -1 << 31} {
			c.Hist("val_boundary", "port")
			c20Run(c, c20ValFlatCase(c20ValB(proto.Int32(p), nil, pr)))
			c20Run(c, c20ValFlatCase(c20ValB(proto.Int32(p), proto.String("10-20"), pr))) // both set: the port wins
			c20Run(c, c20ValFlatCase(c20ValB(proto.Int32(p), proto.String("junk"), pr)))
		}
		for _, r := range c20ValRangeTexts {
			c.Hist("val_boundary", "range")
			c20Run(c, c20ValFlatCase(c20ValB(nil, proto.String(r), pr)))
		}
		c20Run(c, c20ValFlatCase(c20ValB(nil, nil, pr)))
	}
	// several bindings: overlap, repetition, both protocols, an error after valid ones, order of errors
	tcp, udp := int32(2), int32(1)
	multi := [][]*pb.PortBinding{
		{c20ValB(proto.Int32(80), nil, tcp), c20ValB(proto.Int32(80), nil, tcp)},
		{c20ValB(proto.Int32(80), nil, tcp), c20ValB(proto.Int32(80), nil, udp)},
		{c20ValB(nil, proto.String("10-20"), tcp), c20ValB(nil, proto.String("15-25"), tcp), c20ValB(proto.Int32(26), nil, tcp), c20ValB(proto.Int32(28), nil, tcp)},
		{c20ValB(nil, proto.String("10-20"), udp), c20ValB(nil, proto.String("21-30"), udp), c20ValB(nil, proto.String("1-9"), udp)},
		{c20ValB(nil, proto.String("1-65535"), tcp), c20ValB(nil, proto.String("1-65535"), udp)},
		{c20ValB(proto.Int32(443), nil, tcp), c20ValB(proto.Int32(0), nil, tcp)},
		{c20ValB(proto.Int32(443), nil, tcp), c20ValB(proto.Int32(70000), nil, 0)},
		{c20ValB(proto.Int32(70000), nil, tcp), c20ValB(proto.Int32(443), nil, 0)},
		{c20ValB(nil, proto.String("5-4"), tcp), c20ValB(nil, proto.String("x"), tcp)},
		{c20ValB(nil, proto.String("x"), tcp), c20ValB(nil, proto.String("5-4"), tcp)},
		{c20ValB(proto.Int32(65535), nil, udp), c20ValB(proto.Int32(1), nil, udp), c20ValB(nil, proto.String("65534-65535"), udp)},
	}
	for _, bs := range multi {
		c.Hist("val_boundary", "multi-binding")
		c20Run(c, c20ValFlatCase(bs...))
	}
	// --- users
	str := func(n int) *string { return proto.String(strings.Repeat("x", n)) }
	for _, nl := range []int{-1, 0, 1, 63, 64, 65, 200} {
		for _, pl := range []int{-1, 0, 1, 64, 65} {
			for _, hl := range []int{-1, 0, 64} {
				u := &pb.User{}
				if nl >= 0 {
					u.Name = str(nl)
				}
				if pl >= 0 {
					u.Password = str(pl)
				}
				if hl >= 0 {
					u.HashedPassword = str(hl)
				}
				c.Hist("val_boundary", "user-lengths")
				c20Run(c, c20Case{Kind: "val-user", PB: c20PB(u)})
				p := c20ValGoodProfile()
				p.User = u
				c20Run(c, c20Case{Kind: "val-profile", PB: c20PB(p)})
			}
		}
	}
	for _, d := range []int32{-1 << 31, -1, 0, 1, 1<<31 - 1} {
		for _, mb := range []int32{-1, 0, 1, 1<<31 - 1} {
			u := &pb.User{Name: proto.String("u"), Password: proto.String("p"), Quotas: []*pb.Quota{{Days: proto.Int32(1), Megabytes: proto.Int32(1)}, {Days: proto.Int32(d), Megabytes: proto.Int32(mb)}}}
			c.Hist("val_boundary", "quota")
			c20Run(c, c20Case{Kind: "val-user", PB: c20PB(u)})
			p := c20ValGoodProfile()
			p.User = u
			c20Run(c, c20Case{Kind: "val-profile", PB: c20PB(p)})
		}
	}
	c20Run(c, c20Case{Kind: "val-user", PB: c20PB(&pb.User{Name: proto.String("u"), Password: proto.String("p"), Quotas: []*pb.Quota{{}}})})
	// --- profiles: one damage per check, in the validator's order
	for i := 0; ; i++ {
		p := c20ValGoodProfile()
		if !c20ValDamageProfile(p, i) {
			break
		}
		c.Hist("val_boundary", "profile-damage")
		c20Run(c, c20Case{Kind: "val-profile", PB: c20PB(p)})
		cc := c20ValGoodClient()
		cc.Profiles = append(cc.Profiles, p)
		c20Run(c, c20Case{Kind: "val-client", PB: c20PB(cc)})
		c20Run(c, c20Case{Kind: "val-client-full", PB: c20PB(cc)})
	}
	for _, m := range []int32{-1 << 31, -1, 0, 1, 1279, 1280, 1281, 1499, 1500, 1501, 65535, 1<<31 - 1} {
		p := c20ValGoodProfile()
		p.Mtu = proto.Int32(m)
		c.Hist("val_boundary", "mtu")
		c20Run(c, c20Case{Kind: "val-profile", PB: c20PB(p)})
		sc := c20ValGoodServer()
		sc.Mtu = proto.Int32(m)
		c20Run(c, c20Case{Kind: "val-server", PB: c20PB(sc)})
	}
	// --- server configurations: one damage per check
	c20Run(c, c20Case{Kind: "val-server", PB: c20PB(&pb.ServerConfig{})})
	c20Run(c, c20Case{Kind: "val-server-full", PB: c20PB(&pb.ServerConfig{})})
	for i := 0; ; i++ {
		sc := c20ValGoodServer()
		if !c20ValDamageServer(sc, i) {
			break
		}
		c.Hist("val_boundary", "server-damage")
		c20Run(c, c20Case{Kind: "val-server", PB: c20PB(sc)})
		c20Run(c, c20Case{Kind: "val-server-full", PB: c20PB(sc)})
	}
	// --- client configurations: ports at their limits and equal to each other
	c20Run(c, c20Case{Kind: "val-client", PB: c20PB(&pb.ClientConfig{})})
	c20Run(c, c20Case{Kind: "val-client-full", PB: c20PB(&pb.ClientConfig{})})
	ports := []*int32{nil, proto.Int32(-1), proto.Int32(0), proto.Int32(1), proto.Int32(1080), proto.Int32(65535), proto.Int32(65536)}
	for _, rpc := range ports {
		for _, socks := range ports {
			for _, http := range ports {
				cc := c20ValGoodClient()
				cc.RpcPort, cc.Socks5Port, cc.HttpProxyPort = rpc, socks, http
				c.Hist("val_boundary", "client-ports")
				c20Run(c, c20Case{Kind: "val-client-full", PB: c20PB(cc)})
			}
		}
	}
	for i := 0; ; i++ {
		cc := c20ValGoodClient()
		if !c20ValDamageClient(cc, i) {
			break
		}
		c.Hist("val_boundary", "client-damage")
		c20Run(c, c20Case{Kind: "val-client", PB: c20PB(cc)})
		c20Run(c, c20Case{Kind: "val-client-full", PB: c20PB(cc)})
	}
}

func c20ValGoodProfile() *pb.ClientProfile {
	return &pb.ClientProfile{ProfileName: proto.String("default"), User: &pb.User{Name: proto.String("u"), Password: proto.String("pw")},
		Servers: []*pb.ServerEndpoint{
			{IpAddress: proto.String("1.2.3.4"), PortBindings: []*pb.PortBinding{c20ValB(proto.Int32(443), nil, 2), c20ValB(nil, proto.String("2000-2010"), 1)}},
			{DomainName: proto.String("example.com"), PortBindings: []*pb.PortBinding{c20ValB(proto.Int32(8443), nil, 2)}}},
		Mtu: proto.Int32(1400)}
}

func c20ValDamageProfile(p *pb.ClientProfile, i int) bool {
	goodDialer := func() *pb.ClientDialer {
		return &pb.ClientDialer{Protocol: pb.ProxyProtocol_SOCKS5_PROXY_PROTOCOL.Enum(), Host: proto.String("127.0.0.1"), Port: proto.Int32(1080)}
	}
	switch i {
	case 0:
		p.ProfileName = nil
	case 1:
		p.ProfileName = proto.String("")
	case 2:
		p.User = nil
	case 3:
		p.User.Quotas = []*pb.Quota{{Days: proto.Int32(1), Megabytes: proto.Int32(1)}}
	case 4:
		p.Servers = nil
	case 5:
		p.Servers[1].DomainName = nil
	case 6:
		p.Servers[1].DomainName = proto.String("")
		p.Servers[1].IpAddress = proto.String("")
	case 7:
		p.Servers[0].IpAddress = proto.String("1.2.3.256")
	case 8:
		p.Servers[0].IpAddress = proto.String("fe80::1%eth0")
	case 9: // a bad IP address next to a domain name is still rejected
		p.Servers[1].IpAddress = proto.String("not-an-ip")
	case 10:
		p.Servers[1].PortBindings = nil
	case 11:
		p.Servers[1].PortBindings = []*pb.PortBinding{c20ValB(proto.Int32(0), nil, 2)}
	case 12:
		p.Servers[0].PortBindings[1].PortRange = proto.String("2010-2000")
	case 13: // the first server's error wins over the second's
		p.Servers[0].PortBindings = nil
		p.Servers[1].DomainName = nil
	case 14:
		p.TrafficPattern = &pb.TrafficPattern{TcpFragment: &pb.TCPFragment{MaxSleepMs: proto.Int32(1 << 20)}}
	case 15:
		p.TrafficPattern = &pb.TrafficPattern{}
	case 16:
		p.Dialer = goodDialer()
	case 17:
		p.Dialer = &pb.ClientDialer{}
	case 18:
		p.Dialer = goodDialer()
		p.Dialer.Host = proto.String("")
	case 19:
		p.Dialer = goodDialer()
		p.Dialer.Port = proto.Int32(0)
	case 20:
		p.Dialer = goodDialer()
		p.Dialer.Port = proto.Int32(65536)
	case 21:
		p.Dialer = goodDialer()
		p.Dialer.Port = proto.Int32(65535)
		p.Dialer.Socks5Authentication = &pb.Auth{}
	case 22:
		p.Dialer = goodDialer()
		p.Dialer.Socks5Authentication = &pb.Auth{User: proto.String("a")}
	case 23:
		p.Dialer = goodDialer()
		p.Dialer.Socks5Authentication = &pb.Auth{User: proto.String("a"), Password: proto.String("b")}
	case 24: // hashed password only
		p.User = &pb.User{Name: proto.String("u"), HashedPassword: proto.String(strings.Repeat("ab", 32))}
	case 25: // MTU and a later error: the MTU error comes first
		p.Mtu = proto.Int32(9000)
		p.Dialer = &pb.ClientDialer{}
	case 26:
		p.Mtu = nil
	case 27:
		p.Multiplexing = &pb.MultiplexingConfig{Level: pb.MultiplexingLevel(9).Enum()}
		p.HandshakeMode = pb.HandshakeMode(7).Enum()
	default:
		return false
	}
	return true
}

func c20ValGoodServer() *pb.ServerConfig {
	return &pb.ServerConfig{
		PortBindings: []*pb.PortBinding{c20ValB(proto.Int32(443), nil, 2), c20ValB(nil, proto.String("2000-2010"), 1)},
		Users:        []*pb.User{{Name: proto.String("a"), Password: proto.String("pa")}, {Name: proto.String("b"), HashedPassword: proto.String("00"), Quotas: []*pb.Quota{{Days: proto.Int32(1), Megabytes: proto.Int32(1)}}}},
		Mtu:          proto.Int32(1400),
		Egress: &pb.Egress{
			Proxies: []*pb.EgressProxy{{Name: proto.String("p1"), Protocol: pb.ProxyProtocol_SOCKS5_PROXY_PROTOCOL.Enum(), Host: proto.String("127.0.0.1"), Port: proto.Int32(1080)},
				{Name: proto.String("p2"), Protocol: pb.ProxyProtocol_SOCKS5_PROXY_PROTOCOL.Enum(), Host: proto.String("h"), Port: proto.Int32(65535), Socks5Authentication: &pb.Auth{User: proto.String("u"), Password: proto.String("p")}}},
			Rules: []*pb.EgressRule{{IpRanges: []string{"*", "10.0.0.0/8", "::/0"}, DomainNames: []string{"*", "a.b"}, Action: pb.EgressAction_PROXY.Enum(), ProxyNames: []string{"p2", "p1"}},
				{IpRanges: []string{"*"}, Action: pb.EgressAction_DIRECT.Enum()}}},
		Dns:              &pb.DNS{Hosts: map[string]string{"a.example": "1.2.3.4"}},
		AdvancedSettings: &pb.ServerAdvancedSettings{MetricsLoggingInterval: proto.String("1s")},
	}
}

func c20ValDamageServer(sc *pb.ServerConfig, i int) bool {
	px, rl := sc.Egress.Proxies, sc.Egress.Rules
	switch i {
	case 0: // untouched
	case 1:
		sc.PortBindings = nil
	case 2:
		sc.PortBindings[1].PortRange = proto.String("2010-2000")
	case 3:
		sc.PortBindings[0].Protocol = nil
	case 4:
		sc.Users[1].Name = nil
	case 5:
		sc.Users[0].Password = nil
	case 6:
		sc.Users[1].Quotas[0].Days = proto.Int32(0)
	case 7:
		sc.Users[1].Quotas[0].Megabytes = proto.Int32(0)
	case 8: // users are validated before the MTU
		sc.Users[0].Name = proto.String(strings.Repeat("n", 65))
		sc.Mtu = proto.Int32(1)
	case 9:
		px[0].Name = nil
	case 10:
		px[1].Name = proto.String("p1")
	case 11:
		px[0].Protocol = nil
	case 12:
		px[0].Host = nil
	case 13:
		px[0].Port = proto.Int32(0)
	case 14:
		px[0].Port = proto.Int32(65536)
	case 15:
		px[1].Socks5Authentication.User = nil
	case 16:
		px[1].Socks5Authentication.Password = nil
	case 17:
		px[1].Socks5Authentication = &pb.Auth{}
	case 18:
		rl[0].IpRanges = []string{"*", "10.0.0.0/33"}
	case 19:
		rl[0].IpRanges = []string{"**"}
	case 20:
		rl[0].IpRanges = []string{""}
	case 21:
		rl[0].DomainNames = []string{""}
	case 22:
		rl[0].DomainNames = []string{"ok", ".x"}
	case 23:
		rl[0].DomainNames = []string{"x."}
	case 24:
		rl[0].DomainNames = []string{"."}
	case 25:
		rl[0].ProxyNames = nil
	case 26:
		rl[0].ProxyNames = []string{"p1", "p3"}
	case 27:
		rl[1].ProxyNames = []string{"p1"}
	case 28:
		rl[1].Action = pb.EgressAction_REJECT.Enum()
		rl[1].ProxyNames = []string{"nope"}
	case 29:
		rl[0].Action = nil // the default action is PROXY (0)
	case 30: // a rule may name a proxy defined AFTER a duplicate … first error wins: the duplicate
		px[1].Name = proto.String("p1")
		rl[0].ProxyNames = []string{"p2"}
	case 31:
		sc.Dns.Hosts = map[string]string{".a": "1.2.3.4"}
	case 32:
		sc.Dns.Hosts = map[string]string{"a": "1.2.3"}
	case 33:
		sc.Dns.Hosts = map[string]string{"A.example": "1.2.3.4", "a.example": "1.2.3.5"}
	case 34:
		sc.AdvancedSettings.MetricsLoggingInterval = proto.String("999ms")
	case 35:
		sc.AdvancedSettings.MetricsLoggingInterval = proto.String("1000ms")
	case 36:
		sc.AdvancedSettings.MetricsLoggingInterval = proto.String("soon")
	case 37:
		sc.AdvancedSettings.MetricsLoggingInterval = proto.String("-5s")
	case 38:
		sc.AdvancedSettings.MetricsLoggingInterval = proto.String("")
	case 39:
		sc.AdvancedSettings.MetricsLoggingInterval = proto.String("0")
	case 40:
		sc.TrafficPattern = &pb.TrafficPattern{TcpFragment: &pb.TCPFragment{MaxSleepMs: proto.Int32(1 << 20)}}
	case 41: // DNS error before interval error before traffic pattern error
		sc.Dns.Hosts = map[string]string{"a": "x"}
		sc.AdvancedSettings.MetricsLoggingInterval = proto.String("1ms")
		sc.TrafficPattern = &pb.TrafficPattern{TcpFragment: &pb.TCPFragment{MaxSleepMs: proto.Int32(1 << 20)}}
	case 42:
		sc.Egress = nil
	case 43: // only a logging level: not empty, but no port binding
		*sc = pb.ServerConfig{LoggingLevel: pb.LoggingLevel_DEBUG.Enum()}
	case 44:
		*sc = pb.ServerConfig{Users: []*pb.User{}}
	default:
		return false
	}
	return true
}

func c20ValGoodClient() *pb.ClientConfig {
	p := c20ValGoodProfile()
	return &pb.ClientConfig{Profiles: []*pb.ClientProfile{p}, ActiveProfile: proto.String("default"), RpcPort: proto.Int32(8964), Socks5Port: proto.Int32(1080),
		Socks5Authentication: []*pb.Auth{{User: proto.String("a"), Password: proto.String("b")}},
		AdvancedSettings:     &pb.ClientAdvancedSettings{MetricsLoggingInterval: proto.String("2m")}}
}

func c20ValDamageClient(cc *pb.ClientConfig, i int) bool {
	switch i {
	case 0:
	case 1:
		cc.Profiles = nil
	case 2:
		cc.ActiveProfile = nil
	case 3:
		cc.ActiveProfile = proto.String("other")
	case 4:
		q := c20ValGoodProfile()
		q.ProfileName = proto.String("other")
		cc.Profiles = append(cc.Profiles, q)
		cc.ActiveProfile = proto.String("other")
	case 5:
		cc.Socks5Authentication[0].User = nil
	case 6:
		cc.Socks5Authentication[0].Password = proto.String("")
	case 7:
		cc.Socks5Authentication = append(cc.Socks5Authentication, &pb.Auth{})
	case 8:
		cc.AdvancedSettings.MetricsLoggingInterval = proto.String("999999us")
	case 9:
		cc.AdvancedSettings.MetricsLoggingInterval = proto.String("1h1x")
	case 10:
		cc.AdvancedSettings = nil
	case 11: // profile error before authentication error before interval error
		cc.Profiles[0].Mtu = proto.Int32(1)
		cc.Socks5Authentication[0].User = nil
		cc.AdvancedSettings.MetricsLoggingInterval = proto.String("x")
	case 12:
		cc.Socks5Port = nil
	case 13:
		cc.RpcPort = nil
	case 14:
		cc.HttpProxyPort = proto.Int32(1080)
	case 15:
		cc.HttpProxyPort = proto.Int32(8964)
	case 16:
		cc.HttpProxyPort = proto.Int32(8080)
	default:
		return false
	}
	return true
}

// c20ValRandom: the generated configurations of the other stages (valid ones and damaged ones) through the validators.
func c20ValRandom(c *core.Ctx) {
	n := c.N(120, 1500)
	for i := 0; i < n; i++ {
		// bindings: random mixtures incl. invalid ones
		var bs []*pb.PortBinding
		for j := c.Rand.Intn(4); j >= 0; j-- {
			b := c20Binding(c)
			switch c.Rand.Intn(12) {
			case 0:
				b.PortRange = proto.String(c20ValRangeTexts[c.Rand.Intn(len(c20ValRangeTexts))])
				b.Port = nil
			case 1:
				b.Port = proto.Int32([]int32{0, -1, 65536, 1, 65535}[c.Rand.Intn(5)])
			case 2:
				b.Protocol = pb.TransportProtocol(c.Rand.Intn(4)).Enum()
			case 3:
				b.PortRange = proto.String(fmt.Sprintf("%d-%d", c.Rand.Intn(70000), c.Rand.Intn(70000)))
				b.Port = nil
			case 4:
				b.Port, b.PortRange = proto.Int32(int32(1+c.Rand.Intn(65535))), proto.String(fmt.Sprintf("%d-%d", 1+c.Rand.Intn(100), 100+c.Rand.Intn(100)))
			}
			bs = append(bs, b)
		}
		c20Run(c, c20ValFlatCase(bs...))
		sc := c20ServerConfig(c, 0.6, i%2 == 0)
		if i%3 == 0 {
			g := c20ValGoodServer()
			c20ValDamageServer(g, c.Rand.Intn(45))
			if c.Rand.Intn(2) == 0 {
				sc.Egress = g.Egress
			}
			if c.Rand.Intn(3) == 0 {
				sc.Dns = g.Dns
			}
			if c.Rand.Intn(3) == 0 {
				sc.PortBindings = append(sc.PortBindings, bs...)
			}
		}
		for _, u := range sc.GetUsers() {
			c20Run(c, c20Case{Kind: "val-user", PB: c20PB(u)})
		}
		c20Run(c, c20Case{Kind: "val-server", PB: c20PB(sc)})
		c20Run(c, c20Case{Kind: "val-server-full", PB: c20PB(sc)})
		cc := c20ClientConfig(c, 0.6, i%2 == 0)
		if i%3 == 1 && len(cc.Profiles) > 0 { // one profile replaced by the reference profile with one check failing
			j := c.Rand.Intn(len(cc.Profiles))
			g := c20ValGoodProfile()
			c20ValDamageProfile(g, c.Rand.Intn(28))
			if g.ProfileName != nil && g.GetProfileName() != "" {
				g.ProfileName = cc.Profiles[j].ProfileName
			}
			cc.Profiles[j] = g
		}
		if i%5 == 2 && len(cc.Profiles) > 0 {
			c20Damage(c, cc.Profiles[0])
		}
		if i%7 == 3 && len(cc.Profiles) > 0 && len(cc.Profiles[0].Servers) > 0 {
			cc.Profiles[0].Servers[0].PortBindings = append(cc.Profiles[0].Servers[0].PortBindings, bs...)
		}
		for _, p := range cc.GetProfiles() {
			c20Run(c, c20Case{Kind: "val-profile", PB: c20PB(p)})
		}
		c20Run(c, c20Case{Kind: "val-client", PB: c20PB(cc)})
		c20Run(c, c20Case{Kind: "val-client-full", PB: c20PB(cc)})
	}
}
