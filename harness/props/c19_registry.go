package props

import (
	"encoding/json"
	"fmt"
	"runtime"
	"sync"
	"sync/atomic"
	"time"

	"github.com/enfein/mieru/v3/pkg/appctl/appctlpb"
	"github.com/enfein/mieru/v3/pkg/metrics"
	"github.com/enfein/mieru/v3/pkg/protocol"
	"google.golang.org/protobuf/proto"
	"verifharness/core"
)

// C19, "sessions opened concurrently with accounting": the FIRST sessions of a user whose counters do
// not exist yet register them at the same moment on different goroutines (Session.input calls
// metrics.RegisterMetric and keeps the returned pointer; Read/Write add to that pointer). Whatever the
// interleaving, every caller must get the ONE counter the registry publishes — otherwise the traffic
// of the losing session is counted against nobody (missing from the metrics, the dump and checkQuota).
//
// Stage 1 (registry): for fresh names, N goroutines behind a spin barrier call RegisterMetric and Add(k):
//   all returned pointers identical, registry-visible value = N·k, last-day window = N·k.
// Stage 2 (sessions): N real server sessions of a NEW user (one underlay each) get their open request
//   at the same moment, read its payload and write a reply: UploadBytes / DownloadBytes of the user =
//   bytes the applications read / wrote.
// Lean side: Mieru.Registry (interleaved load / allocate / publish steps) and the regenerated shape of
// RegisterMetric (Mieru.Gen.FactsC19).

type c19RegCase struct {
	Kind       string `json:"kind"` // "registry" | "first-sessions"
	Goroutines int    `json:"goroutines"`
	Trials     int    `json:"trials"`
	CapMs      int    `json:"cap_ms"`
}

var c19RegID atomic.Int64

// barrier: every goroutine announces itself and spins until the start flag is raised
type c19Barrier struct {
	ready atomic.Int32
	start atomic.Bool
}

func (b *c19Barrier) wait() {
	b.ready.Add(1)
	for !b.start.Load() {
	}
}

func (b *c19Barrier) release(n int) {
	for int(b.ready.Load()) != n {
		runtime.Gosched()
	}
	b.start.Store(true)
}

func c19RegistryStress(c *core.Ctx, k c19RegCase) {
	if runtime.GOMAXPROCS(0) < 2 {
		prev := runtime.GOMAXPROCS(4)
		defer runtime.GOMAXPROCS(prev)
	}
	deadline := time.Now().Add(time.Duration(k.CapMs) * time.Millisecond)
	id := c19RegID.Add(1)
	const delta = int64(3 << 20)
	trials := 0
	for t := 0; t < k.Trials && time.Now().Before(deadline); t++ {
		trials++
		group := fmt.Sprintf(metrics.UserMetricGroupFormat, fmt.Sprintf("reg%d-%d-%d", c.Seed, id, t))
		var b c19Barrier
		var wg sync.WaitGroup
		got := make([][2]metrics.Metric, k.Goroutines)
		for g := 0; g < k.Goroutines; g++ {
			wg.Add(1)
			go func(g int) {
				defer wg.Done()
				b.wait()
				up := metrics.RegisterMetric(group, metrics.UserMetricUploadBytes, metrics.COUNTER_TIME_SERIES)
				down := metrics.RegisterMetric(group, metrics.UserMetricDownloadBytes, metrics.COUNTER_TIME_SERIES)
				up.Add(delta)
				down.Add(delta)
				got[g] = [2]metrics.Metric{up, down}
			}(g)
		}
		b.release(k.Goroutines)
		wg.Wait()
		c.Compared()
		mg := metrics.GetMetricGroupByName(group)
		if mg == nil {
			c.Violate("C19/registry/group-missing", fmt.Sprintf("trial %d: group %q is not registered after %d concurrent registrations", t, group, k.Goroutines), k)
			return
		}
		want := int64(k.Goroutines) * delta
		for side, name := range []string{metrics.UserMetricUploadBytes, metrics.UserMetricDownloadBytes} {
			m, ok := mg.GetMetric(name)
			if !ok {
				c.Violate("C19/registry/metric-missing", fmt.Sprintf("trial %d: %s of %q is not registered", t, name, group), k)
				return
			}
			for g := range got {
				if got[g][side] != m {
					c.Violate("C19/registry/concurrent-registration-returns-unpublished-counter", fmt.Sprintf("trial %d: goroutine %d of %d registering %s of %q at the same moment got a counter that is not the one the registry holds: what it adds is counted against nobody", t, g, k.Goroutines, name, group), k)
					return
				}
			}
			v := m.Load()
			w := m.(*metrics.Counter).DeltaBetween(time.Now().Add(-24*time.Hour), time.Now().Add(time.Minute))
			if v != want || w != want {
				c.Violate("C19/registry/concurrent-registration-loses-traffic", fmt.Sprintf("trial %d: %d goroutines added %d bytes each to %s of %q right after registering it; the registry reports total %d, last-day window %d, want %d", t, k.Goroutines, delta, name, group, v, w, want), k)
				return
			}
		}
	}
	c.Hist("registry_trials", fmt.Sprintf("goroutines=%d", k.Goroutines))
	c.Eval(fmt.Sprintf("registry/%d/%d", k.Goroutines, trials), true)
	c.Note("registry stage: %d trials with %d goroutines", trials, k.Goroutines)
}

// several first sessions of a NEW user, opened at the same moment
func c19FirstSessions(c *core.Ctx, k c19RegCase) {
	deadline := time.Now().Add(time.Duration(k.CapMs) * time.Millisecond)
	id := c19RegID.Add(1)
	trials := 0
	const payloadLen, replyLen = 1000, 700
	for t := 0; t < k.Trials && time.Now().Before(deadline); t++ {
		trials++
		user := fmt.Sprintf("first%d-%d-%d", c.Seed, id, t)
		users := map[string]*appctlpb.User{user: {Name: proto.String(user), Password: proto.String("pw")}}
		type one struct {
			s    *protocol.Session
			srv  *protocol.VerifAcctServer
			sink *c19Sink
			read int
			wr   int
			err  error
		}
		ss := make([]*one, k.Goroutines)
		for g := range ss {
			sink := &c19Sink{closed: make(chan struct{})}
			srv, err := protocol.VerifAcctNewServer(sink, []byte("pw-under"), 1400, users)
			if err != nil {
				c.Violate("C19/acct/setup", err.Error(), k)
				return
			}
			s, err := srv.NewSession(uint32(5000 + g))
			if err != nil {
				c.Violate("C19/acct/setup", err.Error(), k)
				return
			}
			s.SetReadDeadline(time.Now().Add(10 * time.Second))
			ss[g] = &one{s: s, srv: srv, sink: sink}
		}
		var b c19Barrier
		var wg sync.WaitGroup
		for g := range ss {
			wg.Add(1)
			go func(x *one) {
				defer wg.Done()
				block, err := protocol.VerifAcctBlock([]byte("pw"), user)
				if err != nil {
					x.err = err
					return
				}
				payload := make([]byte, payloadLen)
				b.wait()
				if _, err := protocol.VerifAcctDeliver(x.s, block, true, 0, payload); err != nil {
					x.err = err
					return
				}
				buf := make([]byte, 4096)
				n, _ := x.s.Read(buf)
				x.read = n
				w, _ := x.s.Write(make([]byte, replyLen))
				x.wr = w
			}(ss[g])
		}
		b.release(k.Goroutines)
		wg.Wait()
		var read, wrote int64
		for _, x := range ss {
			if x.err != nil {
				c.Violate("C19/acct/setup", x.err.Error(), k)
				return
			}
			read += int64(x.read)
			wrote += int64(x.wr)
			x := x
			bgClose.Go(func() { x.srv.Close(); x.sink.Close() })
		}
		c.Compared()
		_, up, down, reg := c19AcctMetrics(user)
		if !reg || up != read || down != wrote {
			c.Violate("C19/accounting/concurrent-first-sessions-lose-bytes", fmt.Sprintf("trial %d: %d first sessions of new user %q opened at the same moment; their applications read %d and wrote %d bytes, the user's counters report upload %d download %d (registered: %v)", t, k.Goroutines, user, read, wrote, up, down, reg), k)
			return
		}
		if read != int64(k.Goroutines*payloadLen) || wrote != int64(k.Goroutines*replyLen) {
			c.Violate("C19/acct/first-sessions-transfer", fmt.Sprintf("trial %d: applications read %d of %d and wrote %d of %d bytes", t, read, k.Goroutines*payloadLen, wrote, k.Goroutines*replyLen), k)
			return
		}
	}
	c.Hist("first_sessions_trials", fmt.Sprintf("sessions=%d", k.Goroutines))
	c.Eval(fmt.Sprintf("first-sessions/%d/%d", k.Goroutines, trials), true)
	c.Note("first-sessions stage: %d trials with %d sessions", trials, k.Goroutines)
}

func init() {
	core.RegisterReplay("C19", func(c *core.Ctx, raw json.RawMessage) bool {
		var k c19RegCase
		if json.Unmarshal(raw, &k) != nil || (k.Kind != "registry" && k.Kind != "first-sessions") {
			return false
		}
		if k.Kind == "registry" {
			c19RegistryStress(c, k)
		} else {
			c19FirstSessions(c, k)
			bgClose.Wait(30 * time.Second)
		}
		return true
	})
	core.RegisterExtra("C19", func(c *core.Ctx) {
		c.Correspondence("registry: concurrent RegisterMetric + Add on fresh names (all callers get the published counter; value = Σ); concurrent first sessions of a new user (counters = application bytes)")
		trials, capMs := 300, 2500
		if c.Thorough() {
			trials, capMs = 4000, 20000
		}
		c19RegistryStress(c, c19RegCase{Kind: "registry", Goroutines: 4, Trials: trials, CapMs: capMs})
		c19RegistryStress(c, c19RegCase{Kind: "registry", Goroutines: 8, Trials: trials, CapMs: capMs})
		c19FirstSessions(c, c19RegCase{Kind: "first-sessions", Goroutines: 4, Trials: trials / 2, CapMs: capMs})
		bgClose.Wait(60 * time.Second)
	})
}
