package props

import (
	"bytes"
	"crypto/sha256"
	"encoding/binary"
	"encoding/json"
	"fmt"
	"strings"
	"time"

	"github.com/enfein/mieru/v3/pkg/cipher"
	"github.com/enfein/mieru/v3/pkg/mathext"
	"github.com/enfein/mieru/v3/pkg/protocol"
	"verifharness/core"
)

// C08 — clocks within one minute agree on keys; stale segments are refused; cached key material
// is never used for another slot.
//
// Correspondence (real code vs Mieru.Model.Time / Mieru.Model.KeyCache through the c08-* ops):
//   slot     cipherKeyEpoch / saltFromTime for instants on and around every boundary
//   skew     a segment sealed with the sender's current key at t, tryDecryptAt(…, t+d)
//   ts       metadata stamped k minutes away (and absolute stamps near the uint32 wrap) through the
//            real sessionStruct/dataAckStruct.Unmarshal; the minute counter Marshal stamps
//   mid      mathext.Mid / WithinRange at uint32 (with wrap) and int64
//   history  random non-monotonic histories of getCachedCiphers / tryDecryptAt on the process-wide
//            cache, state compared after every operation (any jitter in [0,5 s) is accepted)
// Direct oracles: |d| <= 60 s => decrypts and timestamp accepted; |d| >= 240 s => never decrypts;
// stamp >= 2 minutes away => rejected; every entry the cache hands out carries exactly the keys
// derived for the slot of the instant it was asked for.

type c08Op struct {
	Kind       string `json:"kind"` // lookup | try
	NowNs      int64  `json:"now_ns"`
	SenderSlot int    `json:"sender_slot,omitempty"` // try: slot of the sealing key, relative to the slot of NowNs
}

type c08Case struct {
	Kind   string  `json:"kind"`
	TNs    int64   `json:"t_ns,omitempty"`
	DNs    int64   `json:"d_ns,omitempty"`
	Pass   string  `json:"pass,omitempty"`
	K      int     `json:"k,omitempty"`
	Ts     uint32  `json:"ts,omitempty"`
	Layout string  `json:"layout,omitempty"`
	A      int64   `json:"a,omitempty"`
	B      int64   `json:"b,omitempty"`
	C      int64   `json:"c,omitempty"`
	U32    bool    `json:"u32,omitempty"`
	Ops    []c08Op `json:"ops,omitempty"`
}

func c08Abs(x int64) int64 {
	if x < 0 {
		return -x
	}
	return x
}

func c08Slot(c *core.Ctx, k c08Case) {
	t := time.Unix(0, k.TNs)
	ep := cipher.VerifCipherKeyEpoch(t)
	salts := cipher.VerifSaltFromTime(t)
	c.Eval(fmt.Sprintf("slot/%d", k.TNs), true)
	m := c.Model.Ask("c08-slot %d", k.TNs)
	c.Compared()
	f := strings.Fields(m)
	if len(f) != 5 || f[1] != fmt.Sprint(ep) {
		c.Disagree("C08/corr/slot", fmt.Sprintf("t=%dns: model %s, cipherKeyEpoch %d", k.TNs, m, ep), k)
		return
	}
	for i := 0; i < 3; i++ {
		var st int64
		fmt.Sscan(f[2+i], &st)
		var b [8]byte
		binary.BigEndian.PutUint64(b[:], uint64(st))
		h := sha256.Sum256(b[:])
		if !bytes.Equal(h[:], salts[i]) {
			c.Disagree("C08/corr/salt-times", fmt.Sprintf("t=%dns: salt %d is not SHA256(be64(%d))", k.TNs, i, st), k)
			return
		}
	}
}

func c08Seal(key []byte, plaintext []byte) ([]byte, error) {
	b, err := cipher.VerifNewXChaCha20Poly1305(key)
	if err != nil {
		return nil, err
	}
	dst := make([]byte, 0, len(plaintext)+cipher.DefaultNonceSize+cipher.DefaultOverhead)
	if err := b.Encrypt(dst, plaintext); err != nil {
		return nil, err
	}
	return dst[:len(plaintext)+cipher.DefaultNonceSize+cipher.DefaultOverhead], nil
}

func c08Skew(c *core.Ctx, k c08Case) {
	hp := core.UnHex(k.Pass)
	t, rt := time.Unix(0, k.TNs), time.Unix(0, k.TNs+k.DNs)
	skeys, err := cipher.VerifKeysAt(hp, t)
	if err != nil {
		c.Violate("C08/keys/derivation-error", err.Error(), k)
		return
	}
	pt := []byte("metadata-sized plaintext 32bytes")
	ct, err := c08Seal(skeys[1], pt) // the sender uses the key of its current slot (cipherList[1])
	if err != nil {
		c.Violate("C08/keys/seal-error", err.Error(), k)
		return
	}
	cipher.VerifResetCipherCache()
	d, _ := cipher.VerifNewStatelessDecryptor(hp)
	key, got, held, derr := d.VerifTryDecryptAt(ct, rt)
	ok := derr == nil && bytes.Equal(got, pt)
	c.Eval(fmt.Sprintf("skew/%d/%d", k.TNs, k.DNs), ok)
	switch {
	case c08Abs(k.DNs) <= 60e9:
		c.Hist("skew", "<=60s")
	case c08Abs(k.DNs) < 240e9:
		c.Hist("skew", "60s..240s")
	default:
		c.Hist("skew", ">=240s")
	}
	idx := "none"
	if ok && held != nil {
		for i, kk := range held.Keys {
			if bytes.Equal(kk, key) {
				idx = fmt.Sprint(i)
			}
		}
	}
	// model: fresh state, the segment was sealed with the key of epoch(t)
	se := strings.Fields(c.Model.Ask("c08-slot %d", k.TNs))
	h := strings.TrimPrefix(c.Model.Ask("c08-kc-new %d", cipher.VerifConsts()["cacheValidIntervalNs"]), "ok ")
	m := c.Model.Ask("c08-kc-try %s %d 0 %s", h, k.TNs+k.DNs, se[1])
	c.Compared()
	if !strings.HasPrefix(m, "ok key="+idx+" ") {
		c.Disagree("C08/corr/skew-decrypt", fmt.Sprintf("t=%dns d=%dns: model %s, code key index %s (err=%v)", k.TNs, k.DNs, m, idx, derr), k)
	}
	if c08Abs(k.DNs) <= 60e9 && !ok {
		c.Violate("C08/skew/within-60s-no-common-key", fmt.Sprintf("sender at %dns, receiver %dns later: tryDecryptAt fails (%v)", k.TNs, k.DNs, derr), k)
	}
	if c08Abs(k.DNs) >= 240e9 && ok {
		c.Violate("C08/skew/4min-accepted", fmt.Sprintf("sender at %dns, receiver %dns later: segment decrypts", k.TNs, k.DNs), k)
	}
}

func c08MetaBytes(layout string, ts uint32) []byte {
	b := make([]byte, 32)
	b[0] = 2
	if layout == "d" {
		b[0] = 6
	}
	binary.BigEndian.PutUint32(b[2:], ts)
	return b
}

func c08Unmarshal(layout string, b []byte) error {
	if layout == "d" {
		_, err := protocol.VerifUnmarshalDataAck(b)
		return err
	}
	_, err := protocol.VerifUnmarshalSession(b)
	return err
}

func c08Ts(c *core.Ctx, k c08Case) {
	now, stable := nowMinute()
	if !stable {
		c.Res.Discarded++
		return
	}
	ts := k.Ts
	if k.Kind == "ts" {
		ts = uint32(int64(now) + int64(k.K))
	}
	err := c08Unmarshal(k.Layout, c08MetaBytes(k.Layout, ts))
	c.Eval(fmt.Sprintf("ts/%s/%s/%d/%d", k.Kind, k.Layout, k.K, k.Ts), true)
	dist := int64(now) - int64(ts)
	if dist < 0 {
		dist = -dist
	}
	c.Hist("ts_distance_minutes", map[bool]string{true: "<=1", false: ">=2"}[dist <= 1])
	m := c.Model.Ask("c08-ts-ok %d %d", now, ts)
	c.Compared()
	if m != fmt.Sprintf("ok %v", err == nil) {
		c.Disagree("C08/corr/ts-ok", fmt.Sprintf("now=%d stamp=%d: model %s, Unmarshal err=%v", now, ts, m, err), k)
	}
	if dist <= 1 && err != nil {
		c.Violate("C08/timestamp/within-1min-rejected", fmt.Sprintf("receiver minute %d, stamp %d: Unmarshal rejects (%v)", now, ts, err), k)
	}
	if dist >= 2 && err == nil {
		key := "C08/timestamp/stale-accepted"
		if ts == 0 || ts == 0xffffffff {
			key = fmt.Sprintf("C08/timestamp/wrap-accepted/%s/ts=%d", k.Layout, ts)
		}
		c.Violate(key, fmt.Sprintf("receiver minute %d, stamp %d (%d minutes away): %s Unmarshal accepts it", now, ts, dist, map[string]string{"s": "sessionStruct", "d": "dataAckStruct"}[k.Layout]), k)
	}
}

func c08Minute(c *core.Ctx, k c08Case) {
	if _, stable := nowMinute(); !stable {
		c.Res.Discarded++
		return
	}
	t0 := time.Now()
	_, stamp := protocol.VerifMarshalSession(protocol.VerifSession{Protocol: 2})
	_, stamp2 := protocol.VerifMarshalDataAck(protocol.VerifDataAck{Protocol: 6})
	c.Eval("minute", true)
	m := c.Model.Ask("c08-minute %d", t0.UnixNano())
	c.Compared()
	if m != fmt.Sprintf("ok %d", stamp) || stamp != stamp2 {
		c.Disagree("C08/corr/minute", fmt.Sprintf("model %s, Marshal stamped %d / %d at %d ns", m, stamp, stamp2, t0.UnixNano()), k)
	}
}

func c08Mid(c *core.Ctx, k c08Case) {
	c.Eval(fmt.Sprintf("mid/%v/%d/%d/%d", k.U32, k.A, k.B, k.C), true)
	c.Compared()
	if k.U32 {
		a, b, cc := uint32(k.A), uint32(k.B), uint32(k.C)
		if m := c.Model.Ask("c08-mid %d %d %d", a, b, cc); m != fmt.Sprintf("ok %d", mathext.Mid(a, b, cc)) {
			c.Disagree("C08/corr/mid", fmt.Sprintf("Mid(%d,%d,%d): model %s, code %d", a, b, cc, m, mathext.Mid(a, b, cc)), k)
		}
		if m := c.Model.Ask("c08-within-u32 %d %d %d", a, b, cc); m != fmt.Sprintf("ok %v", mathext.WithinRange(a, b, cc)) {
			c.Disagree("C08/corr/within-u32", fmt.Sprintf("WithinRange[uint32](%d,%d,%d): model %s, code %v", a, b, cc, m, mathext.WithinRange(a, b, cc)), k)
		}
		return
	}
	if m := c.Model.Ask("c08-mid %d %d %d", k.A, k.B, k.C); m != fmt.Sprintf("ok %d", mathext.Mid(k.A, k.B, k.C)) {
		c.Disagree("C08/corr/mid", fmt.Sprintf("Mid(%d,%d,%d): model %s, code %d", k.A, k.B, k.C, m, mathext.Mid(k.A, k.B, k.C)), k)
	}
	if m := c.Model.Ask("c08-within %d %d %d", k.A, k.B, k.C); m != fmt.Sprintf("ok %v", mathext.WithinRange(k.A, k.B, k.C)) {
		c.Disagree("C08/corr/within", fmt.Sprintf("WithinRange[int64](%d,%d,%d): model %s, code %v", k.A, k.B, k.C, m, mathext.WithinRange(k.A, k.B, k.C)), k)
	}
}

func c08ShowEntry(e *cipher.VerifCacheEntry) string {
	if e == nil {
		return "none"
	}
	return fmt.Sprintf("%d/%d", e.Epoch, e.CreateTime.UnixNano())
}

func c08History(c *core.Ctx, k c08Case) {
	hp := core.UnHex(k.Pass)
	cipher.VerifResetCipherCache()
	d, _ := cipher.VerifNewStatelessDecryptor(hp)
	h := strings.TrimPrefix(c.Model.Ask("c08-kc-new %d", cipher.VerifConsts()["cacheValidIntervalNs"]), "ok ")
	keysAt := map[int64][][]byte{}
	keysFor := func(epoch int64) [][]byte {
		if v, ok := keysAt[epoch]; ok {
			return v
		}
		v, _ := cipher.VerifKeysAt(hp, time.Unix(epoch, 0))
		keysAt[epoch] = v
		return v
	}
	sealed := map[int64][]byte{}
	c.Eval(fmt.Sprintf("history/%s/%v", k.Pass, k.Ops), true)
	c.Res.TracesValidated++
	for i, op := range k.Ops {
		now := time.Unix(0, op.NowNs)
		nowEpoch := cipher.VerifCipherKeyEpoch(now)
		var used *cipher.VerifCacheEntry
		var real, ask string
		c.Hist("history_op", op.Kind)
		if op.Kind == "lookup" {
			e, err := cipher.VerifGetCachedCiphers(string(hp), now)
			if err != nil {
				c.Violate("C08/cache/lookup-error", err.Error(), k)
				return
			}
			used = &e
			real = "ok"
			ask = fmt.Sprintf("lookup %s %d", h, op.NowNs)
		} else {
			se := nowEpoch + int64(op.SenderSlot)*120
			ct, ok := sealed[se]
			if !ok {
				var err error
				ct, err = c08Seal(keysFor(se)[1], []byte("metadata-sized plaintext 32bytes"))
				if err != nil {
					c.Violate("C08/keys/seal-error", err.Error(), k)
					return
				}
				sealed[se] = ct
			}
			key, _, held, derr := d.VerifTryDecryptAt(ct, now)
			used = held
			idx := "none"
			if derr == nil && held != nil {
				for j, kk := range held.Keys {
					if bytes.Equal(kk, key) {
						idx = fmt.Sprint(j)
					}
				}
			}
			c.Hist("history_try", "key="+idx)
			real = "ok key=" + idx
			ask = fmt.Sprintf("try %s %d", h, op.NowNs)
			// direct: |slot distance| <= 1 decrypts, >= 2 does not
			if (op.SenderSlot >= -1 && op.SenderSlot <= 1) != (derr == nil) {
				c.Violate("C08/cache/try-decrypt-slot-set", fmt.Sprintf("op %d: sender slot %+d relative to the receiver's: err=%v", i, op.SenderSlot, derr), k)
			}
		}
		real += fmt.Sprintf(" used=%s cache=%s", c08ShowEntry(used), c08ShowEntry(cipher.VerifPeekCipherCache(string(hp))))
		if op.Kind == "try" {
			real += " held=" + c08ShowEntry(used) // after a try the decryptor holds the entry it used
		}
		// direct oracle: the entry handed out is the one derived for slot(now)
		if used == nil || used.Epoch != nowEpoch {
			c.Violate("C08/cache/crosses-slots/epoch", fmt.Sprintf("op %d (%s at %dns): entry of epoch %s used at epoch %d", i, op.Kind, op.NowNs, c08ShowEntry(used), nowEpoch), k)
			return
		}
		want := keysFor(nowEpoch)
		for j := range want {
			if !bytes.Equal(want[j], used.Keys[j]) {
				c.Violate("C08/cache/crosses-slots/keys", fmt.Sprintf("op %d (%s at %dns): key %d of the entry is not the key derived for epoch %d", i, op.Kind, op.NowNs, j, nowEpoch), k)
				return
			}
		}
		// model: any jitter the code can draw is allowed; 0 and cacheValidMaxJitterMs-1 are the two extreme behaviours
		suffix := ""
		if op.Kind == "try" {
			suffix = fmt.Sprintf(" %d", nowEpoch+int64(op.SenderSlot)*120)
		}
		parts := strings.SplitN(ask, " ", 2)
		matched := false
		var seen []string
		for _, j := range []int64{0, cipher.VerifConsts()["cacheValidMaxJitterMs"] - 1} {
			m := c.Model.Ask("c08-kc-peek-%s %s %d%s", parts[0], parts[1], j, suffix)
			seen = append(seen, m)
			// what the decryptor holds is not observable after a direct cache lookup
			mm := m
			if i := strings.Index(mm, " held="); i >= 0 && op.Kind == "lookup" {
				mm = mm[:i]
			}
			if mm == real {
				c.Model.Ask("c08-kc-%s %s %d%s", parts[0], parts[1], j, suffix)
				if j != 0 {
					c.Hist("history_jitter_zone", "fresh-inside-jitter-zone")
				}
				matched = true
				break
			}
		}
		c.Compared()
		if !matched {
			c.Disagree("C08/corr/cache-history", fmt.Sprintf("op %d (%s at %dns): code %s; model with minimal / maximal jitter: %s", i, op.Kind, op.NowNs, real, strings.Join(seen, " | ")), k)
			return
		}
	}
}

func c08Live(c *core.Ctx) {
	// exported API on the real clock: the stateless cipher handed out now is the current slot's
	hp := sha256.Sum256([]byte("c08-live"))
	t0 := time.Now()
	b, err := cipher.BlockCipherFromPassword(hp[:], true)
	t1 := time.Now()
	if err != nil || cipher.VerifCipherKeyEpoch(t0) != cipher.VerifCipherKeyEpoch(t1) {
		c.Res.Discarded++
		return
	}
	c.Eval("live", true)
	want, _ := cipher.VerifKeysAt(hp[:], t0)
	if !bytes.Equal(cipher.VerifKeyOf(b), want[1]) {
		c.Violate("C08/cache/live-key-not-current-slot", "BlockCipherFromPassword returned a key other than the current slot's", c08Case{Kind: "live"})
	}
}

func c08Run(c *core.Ctx, k c08Case) {
	switch k.Kind {
	case "slot":
		c08Slot(c, k)
	case "skew":
		c08Skew(c, k)
	case "ts", "ts-abs":
		c08Ts(c, k)
	case "minute":
		c08Minute(c, k)
	case "mid":
		c08Mid(c, k)
	case "history":
		c08History(c, k)
	case "live":
		c08Live(c)
	}
}

var c08Offsets = []int64{0, 1, -1, 1e9, -1e9, 59e9, -59e9, 60e9, -60e9, 61e9, -61e9}

// number of fixed boundary instants at the head of c08Instants' result
const c08FixedInstants = 8 * 11

func c08Instants(c *core.Ctx, n int) []int64 {
	var r []int64
	// every kind of boundary: multiples of 60 s and 120 s (odd and even minutes), ± offsets
	bases := []int64{1_700_000_040, 1_700_000_100, 1_700_000_160, 0, 120, 60, 4_102_444_800, 9_000_000_000}
	for _, b := range bases {
		for _, o := range c08Offsets {
			r = append(r, b*1e9+o)
		}
	}
	for i := 0; i < n; i++ {
		b := (c.Rand.Int63n(4_000_000_000) / 60) * 60
		switch c.Rand.Intn(3) {
		case 0:
			r = append(r, b*1e9+c08Offsets[c.Rand.Intn(len(c08Offsets))])
		case 1:
			r = append(r, b*1e9+c.Rand.Int63n(120e9))
		default:
			r = append(r, b*1e9+60e9+c.Rand.Int63n(2001)-1000) // within a microsecond of the tie
		}
	}
	return r
}

func init() {
	// the key-schedule and cache constants go into lean/Mieru/Gen/Consts.lean (tie T): the theorems
	// `consts_tie` (C08) and `spec_consts_match_code` (C09) are about these regenerated values
	core.AddConsts(cipher.VerifConsts)
	core.Register("C08", &core.Scenario{
		Run: func(c *core.Ctx) {
			c.Res.Rule = "instants = multiples of 60 s and 120 s (1970, 2023, 2100, 2255) ± {0,1ns,1s,59s,60s,61s} plus random instants incl. within 1 µs of the rounding tie; skews d = ±{0,1ns,1s,59s,60s-1ns,60s,60s+1ns,61s,119s,120s,121s,179s,180s,239s,240s-1ns,240s,241s,300s,1h}; stamps k = -3..3 minutes and absolute stamps at the uint32 wrap for both metadata kinds; Mid/WithinRange on random and wrap-adjacent triples; histories of 20-60 getCachedCiphers/tryDecryptAt calls with non-monotonic instants walking across slot boundaries and the 25-30 s validity zone. Distinct = distinct canonical case; non-trivial = a decrypt succeeded / a history ran."
			c.Correspondence("c08-slot: pkg/cipher cipherKeyEpoch, saltFromTime vs Mieru.Time.epoch/saltTimes")
			c.Correspondence("c08-kc-try (fresh state): StatelessDecryptor.tryDecryptAt under skew vs Mieru.KeyCache.tryEntry + slotKeys")
			c.Correspondence("c08-ts-ok, c08-minute: sessionStruct/dataAckStruct Unmarshal timestamp check and Marshal stamp vs Mieru.Time.tsAccept/minuteU32")
			c.Correspondence("c08-mid, c08-within, c08-within-u32: pkg/mathext Mid/WithinRange vs Mieru.Time.mid/withinRange/withinRangeU32")
			c.Correspondence("c08-kc-lookup/try histories: getCachedCiphers + tryDecryptAt on the process-wide cache vs Mieru.KeyCache.step")
			runCorpus(c, func(raw json.RawMessage) {
				var k c08Case
				if json.Unmarshal(raw, &k) == nil {
					c08Run(c, k)
				}
			})
			hp := func() string { b := make([]byte, 32); c.Rand.Read(b); return core.Hex(b) }
			inst := c08Instants(c, c.N(150, 3000))
			for i, t := range inst {
				k := c08Case{Kind: "slot", TNs: t}
				if i == 5 {
					c.Sample(k)
				}
				c08Run(c, k)
			}
			// skews
			skews := []int64{0, 1, 1e9, 59e9, 60e9 - 1, 60e9, 60e9 + 1, 61e9, 119e9, 120e9, 121e9, 179e9, 180e9, 239e9, 240e9 - 1, 240e9, 241e9, 300e9, 3600e9}
			pw := hp()
			nsk := 0
			for ti, t := range inst {
				for _, d := range skews {
					// every fixed boundary instant x every skew in both tiers; for the random instants all
					// skews in thorough and a seeded sample in quick
					if ti >= c08FixedInstants && !c.Thorough() && c.Rand.Intn(12) != 0 {
						continue
					}
					for _, sgn := range []int64{1, -1} {
						if d == 0 && sgn < 0 {
							continue
						}
						k := c08Case{Kind: "skew", TNs: t, DNs: sgn * d, Pass: pw}
						if nsk == 3 {
							c.Sample(k)
						}
						nsk++
						c08Run(c, k)
					}
				}
			}
			for i := 0; i < c.N(200, 3000); i++ {
				t := inst[c.Rand.Intn(len(inst))]
				var d int64
				switch c.Rand.Intn(3) {
				case 0:
					d = c.Rand.Int63n(120e9+1) - 60e9 // inside the guaranteed band
				case 1:
					d = c.Rand.Int63n(600e9+1) - 300e9
				default:
					d = (240e9 + c.Rand.Int63n(3600e9)) * []int64{1, -1}[c.Rand.Intn(2)]
				}
				c08Run(c, c08Case{Kind: "skew", TNs: t, DNs: d, Pass: hp()})
			}
			// timestamps
			for rep := 0; rep < c.N(3, 20); rep++ {
				for _, layout := range []string{"s", "d"} {
					for kk := -3; kk <= 3; kk++ {
						c08Run(c, c08Case{Kind: "ts", Layout: layout, K: kk})
					}
					for _, ts := range []uint32{0, 1, 2, 0xffffffff, 0xfffffffe, 0x7fffffff, 0x80000000, c.Rand.Uint32()} {
						c08Run(c, c08Case{Kind: "ts-abs", Layout: layout, Ts: ts})
					}
					c08Run(c, c08Case{Kind: "ts", Layout: layout, K: c.Rand.Intn(2000) - 1000})
				}
				c08Run(c, c08Case{Kind: "minute"})
				c08Run(c, c08Case{Kind: "live"})
			}
			// Mid / WithinRange
			edge := []int64{0, 1, 2, 3, 0xffffffff, 0xfffffffe, 0xfffffffd, 0x7fffffff, 0x80000000}
			for i := 0; i < c.N(400, 6000); i++ {
				pick := func() int64 {
					if c.Rand.Intn(2) == 0 {
						return edge[c.Rand.Intn(len(edge))]
					}
					return int64(c.Rand.Uint32())
				}
				a, b, m := pick(), pick(), []int64{0, 1, 1, 1, 2, pick()}[c.Rand.Intn(6)]
				if c.Rand.Intn(3) == 0 {
					a = b + int64(c.Rand.Intn(7)) - 3 // v close to target
					if a < 0 || a > 0xffffffff {
						a = b
					}
				}
				c08Run(c, c08Case{Kind: "mid", U32: true, A: a, B: b, C: m})
				c08Run(c, c08Case{Kind: "mid", A: a - int64(c.Rand.Intn(3)), B: b, C: m})
			}
			// cache histories
			for i := 0; i < c.N(40, 600); i++ {
				base := (1_600_000_000 + c.Rand.Int63n(400_000_000)) / 120 * 120 * 1e9
				cur := base + []int64{0, 60e9, -60e9, 30e9}[c.Rand.Intn(4)]
				var ops []c08Op
				for j := 0; j < 20+c.Rand.Intn(41); j++ {
					switch c.Rand.Intn(10) {
					case 0:
						cur += c.Rand.Int63n(2e6) - 1e6 // ± 1 ms
					case 1, 2:
						cur += c.Rand.Int63n(10e9)
					case 3:
						cur -= c.Rand.Int63n(10e9) // clock steps back
					case 4:
						cur += 24e9 + c.Rand.Int63n(7e9) // into the 25..30 s validity zone
					case 5:
						cur += 60e9
					case 6:
						cur = (cur/60e9)*60e9 + []int64{0, 1, -1}[c.Rand.Intn(3)] // onto a boundary
					case 7:
						cur += c.Rand.Int63n(240e9) - 120e9
					case 8:
						cur += 29e9 + c.Rand.Int63n(2e9)
					}
					op := c08Op{Kind: "lookup", NowNs: cur}
					if c.Rand.Intn(2) == 0 {
						op = c08Op{Kind: "try", NowNs: cur, SenderSlot: []int{0, 0, 1, -1, 2, -2}[c.Rand.Intn(6)]}
					}
					ops = append(ops, op)
				}
				k := c08Case{Kind: "history", Pass: hp(), Ops: ops}
				if i == 0 {
					c.Sample(c08Case{Kind: "history", Pass: k.Pass, Ops: ops[:4]})
				}
				c08Run(c, k)
			}
			cipher.VerifResetCipherCache()
		},
		Replay: func(c *core.Ctx, raw json.RawMessage) {
			var k c08Case
			if json.Unmarshal(raw, &k) == nil {
				c08Run(c, k)
			}
		},
	})
}
