package props

import (
	"bytes"
	"crypto/sha256"
	"encoding/binary"
	"encoding/json"
	"fmt"
	"strings"
	"sync"
	"time"
	"unsafe"

	"github.com/enfein/mieru/v3/pkg/cipher"
	"github.com/enfein/mieru/v3/pkg/mathext"
	"github.com/enfein/mieru/v3/pkg/protocol"
	"verifharness/core"
)

// C08 — clocks within one minute agree on keys; stale segments are refused; cached key material
// is never used for another slot.
//
// Correspondence (real code vs Mieru.Model.Time / Mieru.Model.KeyCache through the c08-* ops):
//   slot     cipherKeyEpoch / saltFromTime for instants on and around every boundary
//   skew     a segment sealed with the sender's current key at t, tryDecryptAt(…, t+d)
//   ts       metadata stamped k minutes away (and absolute stamps near the uint32 wrap) through the
//            real sessionStruct/dataAckStruct.Unmarshal; the minute counter Marshal stamps
//   mid      mathext.Mid / WithinRange at uint32 (with wrap) and int64
//   history  random non-monotonic histories of getCachedCiphers / tryDecryptAt (two decryptors sharing the
//            password) on the process-wide cache, state compared after every operation (any jitter in
//            [0,5 s) is accepted); instants with and without a monotonic reading, also monotonic readings
//            that disagree with the wall clock (as after a clock step)
//   hs       the first TCP segment / UDP datagram with its three instants: key derived for tk, stamped at ts,
//            received at tr = the real clock: real key selection (tryDecryptAt at tr) + real Unmarshal vs
//            Mieru.Handshake.recvFirstTcp / recvFirstUdp (executable AEAD, PBKDF2 keys)
//   est      an established session: a stateful cipher pair keeps accepting its ORIGINAL key at an instant
//            hours later, while a first contact with that key is refused (documented scope of the 4-minute
//            clause; not a finding)
//   gen      the definitions regenerated from the source (Mieru.Gen.FactsC08 through mieru-gen) against the
//            real cipherKeyEpoch / saltFromTime / Mid / WithinRange / Marshal stamp / Unmarshal test
// Direct oracles: |d| <= 60 s => decrypts and timestamp accepted; |d| >= 240 s => never decrypts;
// stamp >= 2 minutes away => rejected; every entry the cache hands out carries exactly the keys
// derived for the slot of the instant it was asked for.

type c08Op struct {
	Kind       string `json:"kind"` // lookup | try
	NowNs      int64  `json:"now_ns"`
	SenderSlot int    `json:"sender_slot,omitempty"` // try: slot of the sealing key, relative to the slot of NowNs
	Dec        int    `json:"dec,omitempty"`         // try: which of the decryptors sharing the password
	HasMono    bool   `json:"has_mono,omitempty"`    // the instant carries a monotonic reading …
	MonoNs     int64  `json:"mono_ns,omitempty"`     // … of this many ns (relative to an arbitrary origin)
}

type c08Case struct {
	Kind   string  `json:"kind"`
	TNs    int64   `json:"t_ns,omitempty"`
	DNs    int64   `json:"d_ns,omitempty"`
	Pass   string  `json:"pass,omitempty"`
	K      int     `json:"k,omitempty"`
	Ts     uint32  `json:"ts,omitempty"`
	Layout string  `json:"layout,omitempty"`
	A      int64   `json:"a,omitempty"`
	B      int64   `json:"b,omitempty"`
	C      int64   `json:"c,omitempty"`
	U32    bool    `json:"u32,omitempty"`
	Ops    []c08Op `json:"ops,omitempty"`
	Note   string  `json:"note,omitempty"`
}

func c08Abs(x int64) int64 {
	if x < 0 {
		return -x
	}
	return x
}

func c08Slot(c *core.Ctx, k c08Case) {
	t := time.Unix(0, k.TNs)
	ep := cipher.VerifCipherKeyEpoch(t)
	salts := cipher.VerifSaltFromTime(t)
	c.Eval(fmt.Sprintf("slot/%d", k.TNs), true)
	m := c.Model.Ask("c08-slot %d", k.TNs)
	c.Compared()
	f := strings.Fields(m)
	if len(f) != 5 || f[1] != fmt.Sprint(ep) {
		c.Disagree("C08/corr/slot", fmt.Sprintf("t=%dns: model %s, cipherKeyEpoch %d", k.TNs, m, ep), k)
		return
	}
	for i := 0; i < 3; i++ {
		var st int64
		fmt.Sscan(f[2+i], &st)
		var b [8]byte
		binary.BigEndian.PutUint64(b[:], uint64(st))
		h := sha256.Sum256(b[:])
		if !bytes.Equal(h[:], salts[i]) {
			c.Disagree("C08/corr/salt-times", fmt.Sprintf("t=%dns: salt %d is not SHA256(be64(%d))", k.TNs, i, st), k)
			return
		}
	}
	// the regenerated definitions (translator output) against the real functions
	if c.Gen != nil {
		c.Compared()
		if g := c.Gen.Ask("c08gen-epoch %d", k.TNs); g != fmt.Sprintf("ok %d", ep) {
			c.Disagree("C08/gen/epoch", fmt.Sprintf("t=%dns: regenerated cipherKeyEpoch %s, real %d", k.TNs, g, ep), k)
		}
		gs := strings.Fields(c.Gen.Ask("c08gen-salt-times %d", k.TNs))
		okg := len(gs) == 1+len(salts)
		for i := 0; okg && i < len(salts); i++ {
			var st int64
			fmt.Sscan(gs[1+i], &st)
			var b [8]byte
			binary.BigEndian.PutUint64(b[:], uint64(st))
			h := sha256.Sum256(b[:])
			okg = bytes.Equal(h[:], salts[i])
		}
		if !okg {
			c.Disagree("C08/gen/salt-times", fmt.Sprintf("t=%dns: regenerated saltFromTime times %v do not hash to the %d real salts", k.TNs, gs, len(salts)), k)
		}
	}
}

func c08Seal(key []byte, plaintext []byte) ([]byte, error) {
	b, err := cipher.VerifNewXChaCha20Poly1305(key)
	if err != nil {
		return nil, err
	}
	dst := make([]byte, 0, len(plaintext)+cipher.DefaultNonceSize+cipher.DefaultOverhead)
	if err := b.Encrypt(dst, plaintext); err != nil {
		return nil, err
	}
	return dst[:len(plaintext)+cipher.DefaultNonceSize+cipher.DefaultOverhead], nil
}

func c08Skew(c *core.Ctx, k c08Case) {
	hp := core.UnHex(k.Pass)
	t, rt := time.Unix(0, k.TNs), time.Unix(0, k.TNs+k.DNs)
	skeys, err := cipher.VerifKeysAt(hp, t)
	if err != nil {
		c.Violate("C08/keys/derivation-error", err.Error(), k)
		return
	}
	pt := []byte("metadata-sized plaintext 32bytes")
	ct, err := c08Seal(skeys[1], pt) // the sender uses the key of its current slot (cipherList[1])
	if err != nil {
		c.Violate("C08/keys/seal-error", err.Error(), k)
		return
	}
	cipher.VerifResetCipherCache()
	d, _ := cipher.VerifNewStatelessDecryptor(hp)
	key, got, held, derr := d.VerifTryDecryptAt(ct, rt)
	ok := derr == nil && bytes.Equal(got, pt)
	c.Eval(fmt.Sprintf("skew/%d/%d", k.TNs, k.DNs), ok)
	switch {
	case c08Abs(k.DNs) <= 60e9:
		c.Hist("skew", "<=60s")
	case c08Abs(k.DNs) <= 120e9:
		c.Hist("skew", "60s..120s")
	case c08Abs(k.DNs) < 240e9:
		c.Hist("skew", "120s..240s")
	default:
		c.Hist("skew", ">=240s")
	}
	if k.Note != "" { // deterministic boundary skews, printed one by one
		c.Hist("skew_boundary", fmt.Sprintf("d=%s: decrypts=%v", k.Note, ok))
	}
	idx := "none"
	if ok && held != nil {
		for i, kk := range held.Keys {
			if bytes.Equal(kk, key) {
				idx = fmt.Sprint(i)
			}
		}
	}
	// model: fresh state, the segment was sealed with the key of epoch(t)
	se := strings.Fields(c.Model.Ask("c08-slot %d", k.TNs))
	h := strings.TrimPrefix(c.Model.Ask("c08-kc-new %d", cipher.VerifConsts()["cacheValidIntervalNs"]), "ok ")
	m := c.Model.Ask("c08-kc-try %s %d 0 %s", h, k.TNs+k.DNs, se[1])
	c.Compared()
	if !strings.HasPrefix(m, "ok key="+idx+" ") {
		c.Disagree("C08/corr/skew-decrypt", fmt.Sprintf("t=%dns d=%dns: model %s, code key index %s (err=%v)", k.TNs, k.DNs, m, idx, derr), k)
	}
	if c08Abs(k.DNs) <= 60e9 && !ok {
		c.Violate("C08/skew/within-60s-no-common-key", fmt.Sprintf("sender at %dns, receiver %dns later: tryDecryptAt fails (%v)", k.TNs, k.DNs, derr), k)
	}
	// (60 s, 120 s]: the proved key bound slot_agreement_120 — covered by the comparison with the model above
	if c08Abs(k.DNs) >= 240e9 && ok {
		c.Violate("C08/skew/4min-accepted", fmt.Sprintf("sender at %dns, receiver %dns later: segment decrypts", k.TNs, k.DNs), k)
	}
}

func c08MetaBytes(layout string, ts uint32) []byte {
	b := make([]byte, 32)
	b[0] = 2
	if layout == "d" {
		b[0] = 6
	}
	binary.BigEndian.PutUint32(b[2:], ts)
	return b
}

func c08Unmarshal(layout string, b []byte) error {
	if layout == "d" {
		_, err := protocol.VerifUnmarshalDataAck(b)
		return err
	}
	_, err := protocol.VerifUnmarshalSession(b)
	return err
}

func c08Ts(c *core.Ctx, k c08Case) {
	now, stable := nowMinute()
	if !stable {
		c.Res.Discarded++
		return
	}
	ts := k.Ts
	if k.Kind == "ts" {
		ts = uint32(int64(now) + int64(k.K))
	}
	var trNs int64
	if k.Kind == "ts-skew" {
		// the sender stamped at ts = tr + d, tr = the receiver's (real) clock; the stamp is computed by the
		// expression Marshal uses (regenerated and proved equal to the model's minuteU32: minuteU32_eq_gen)
		trNs = time.Now().UnixNano()
		ts = uint32(time.Unix(0, trNs+k.DNs).Unix() / 60)
	}
	err := c08Unmarshal(k.Layout, c08MetaBytes(k.Layout, ts))
	c.Eval(fmt.Sprintf("ts/%s/%s/%d/%d/%d", k.Kind, k.Layout, k.K, k.Ts, k.DNs), true)
	dist := int64(now) - int64(ts)
	if dist < 0 {
		dist = -dist
	}
	c.Hist("ts_distance_minutes", map[bool]string{true: "<=1", false: ">=2"}[dist <= 1])
	if k.Kind == "ts-abs" && k.Note != "" { // the deterministic stamps, printed one by one
		c.Hist("ts_absolute_stamp", fmt.Sprintf("stamp=%s: accepted=%v", k.Note, err == nil))
	}
	m := c.Model.Ask("c08-ts-ok %d %d", now, ts)
	c.Compared()
	if m != fmt.Sprintf("ok %v", err == nil) {
		c.Disagree("C08/corr/ts-ok", fmt.Sprintf("now=%d stamp=%d: model %s, Unmarshal err=%v", now, ts, m, err), k)
	}
	if k.Kind == "ts-skew" {
		c.Hist("ts_skew_boundary", fmt.Sprintf("d=%s: accepted=%v", k.Note, err == nil))
		m2 := c.Model.Ask("c08-ts-skew %d %d", trNs, trNs+k.DNs)
		c.Compared()
		if m2 != fmt.Sprintf("ok %v %d %d", err == nil, now, ts) {
			c.Disagree("C08/corr/ts-skew", fmt.Sprintf("receiver at %dns (minute %d), stamped at %+dns (minute %d): model %s, Unmarshal err=%v", trNs, now, k.DNs, ts, m2, err), k)
		}
		if c08Abs(k.DNs) <= 60e9 && err != nil {
			c.Violate("C08/timestamp/within-60s-rejected", fmt.Sprintf("receiver at %dns, segment stamped %dns away (stamp %d, receiver minute %d): Unmarshal rejects (%v)", trNs, k.DNs, ts, now, err), k)
		}
		if c08Abs(k.DNs) >= 120e9 && err == nil {
			c.Violate("C08/timestamp/2min-accepted", fmt.Sprintf("receiver at %dns, segment stamped %dns away (stamp %d, receiver minute %d): Unmarshal accepts", trNs, k.DNs, ts, now), k)
		}
	}
	if c.Gen != nil {
		c.Compared()
		g := strings.Fields(c.Gen.Ask("c08gen-ts-reject %d %d", now, ts))
		col := map[string]int{"s": 1, "d": 2}[k.Layout]
		if len(g) != 3 || g[col] != fmt.Sprint(err != nil) {
			c.Disagree("C08/gen/ts-reject", fmt.Sprintf("now=%d stamp=%d: regenerated timestamp tests (session, dataAck) %v, %s Unmarshal err=%v", now, ts, g, k.Layout, err), k)
		}
	}
	if dist <= 1 && err != nil {
		c.Violate("C08/timestamp/within-1min-rejected", fmt.Sprintf("receiver minute %d, stamp %d: Unmarshal rejects (%v)", now, ts, err), k)
	}
	if dist >= 2 && err == nil {
		key := "C08/timestamp/stale-accepted"
		if ts == 0 || ts == 0xffffffff {
			key = fmt.Sprintf("C08/timestamp/wrap-accepted/%s/ts=%d", k.Layout, ts)
		}
		c.Violate(key, fmt.Sprintf("receiver minute %d, stamp %d (%d minutes away): %s Unmarshal accepts it", now, ts, dist, map[string]string{"s": "sessionStruct", "d": "dataAckStruct"}[k.Layout]), k)
	}
}

func c08Minute(c *core.Ctx, k c08Case) {
	if _, stable := nowMinute(); !stable {
		c.Res.Discarded++
		return
	}
	if c.Search {
		// a proof obligation or a tie broke: also look at the second half of the minute, where a stamp that is rounded
		// instead of truncated differs (waits at most half a minute)
		for i := 0; i < 320 && time.Now().Unix()%60 < 31; i++ {
			time.Sleep(100 * time.Millisecond)
		}
	}
	t0 := time.Now()
	_, stamp := protocol.VerifMarshalSession(protocol.VerifSession{Protocol: 2})
	_, stamp2 := protocol.VerifMarshalDataAck(protocol.VerifDataAck{Protocol: 6})
	c.Eval("minute", true)
	// direct oracle: receivers whose clocks are 60 s behind / ahead compute these minute counters (the expression of
	// Unmarshal, minuteU32_eq_gen) and must accept the stamp Marshal wrote just now
	if t1 := time.Now(); t0.Unix()/60 == t1.Unix()/60 {
		for _, d := range []int64{-60e9, 60e9} {
			cur := uint32(time.Unix(0, t0.UnixNano()+d).Unix() / 60)
			for i, st := range []uint32{stamp, stamp2} {
				if !mathext.WithinRange(int64(cur), int64(st), 1) {
					c.Violate("C08/timestamp/marshal-stamp-outside-60s-window", fmt.Sprintf("%s Marshal at %dns stamped %d; a receiver whose clock is %+d s away counts minute %d and refuses it", []string{"sessionStruct", "dataAckStruct"}[i], t0.UnixNano(), st, d/1e9, cur), k)
				}
			}
		}
	}
	m := c.Model.Ask("c08-minute %d", t0.UnixNano())
	c.Compared()
	if m != fmt.Sprintf("ok %d", stamp) || stamp != stamp2 {
		c.Disagree("C08/corr/minute", fmt.Sprintf("model %s, Marshal stamped %d / %d at %d ns", m, stamp, stamp2, t0.UnixNano()), k)
	}
	if c.Gen != nil {
		c.Compared()
		if g := c.Gen.Ask("c08gen-minute %d", t0.UnixNano()); g != fmt.Sprintf("ok %d %d %d %d", stamp, stamp, stamp, stamp2) {
			c.Disagree("C08/gen/minute", fmt.Sprintf("regenerated minute counters (Unmarshal s, d, Marshal s, d) %s, Marshal stamped %d / %d at %d ns", g, stamp, stamp2, t0.UnixNano()), k)
		}
	}
}

func c08Mid(c *core.Ctx, k c08Case) {
	c.Eval(fmt.Sprintf("mid/%v/%d/%d/%d", k.U32, k.A, k.B, k.C), true)
	c.Compared()
	if k.U32 {
		a, b, cc := uint32(k.A), uint32(k.B), uint32(k.C)
		if m := c.Model.Ask("c08-mid %d %d %d", a, b, cc); m != fmt.Sprintf("ok %d", mathext.Mid(a, b, cc)) {
			c.Disagree("C08/corr/mid", fmt.Sprintf("Mid(%d,%d,%d): model %s, code %d", a, b, cc, m, mathext.Mid(a, b, cc)), k)
		}
		if m := c.Model.Ask("c08-within-u32 %d %d %d", a, b, cc); m != fmt.Sprintf("ok %v", mathext.WithinRange(a, b, cc)) {
			c.Disagree("C08/corr/within-u32", fmt.Sprintf("WithinRange[uint32](%d,%d,%d): model %s, code %v", a, b, cc, m, mathext.WithinRange(a, b, cc)), k)
		}
		return
	}
	if m := c.Model.Ask("c08-mid %d %d %d", k.A, k.B, k.C); m != fmt.Sprintf("ok %d", mathext.Mid(k.A, k.B, k.C)) {
		c.Disagree("C08/corr/mid", fmt.Sprintf("Mid(%d,%d,%d): model %s, code %d", k.A, k.B, k.C, m, mathext.Mid(k.A, k.B, k.C)), k)
	}
	if m := c.Model.Ask("c08-within %d %d %d", k.A, k.B, k.C); m != fmt.Sprintf("ok %v", mathext.WithinRange(k.A, k.B, k.C)) {
		c.Disagree("C08/corr/within", fmt.Sprintf("WithinRange[int64](%d,%d,%d): model %s, code %v", k.A, k.B, k.C, m, mathext.WithinRange(k.A, k.B, k.C)), k)
	}
	if c.Gen != nil {
		c.Compared()
		if g := c.Gen.Ask("c08gen-mid %d %d %d", k.A, k.B, k.C); g != fmt.Sprintf("ok %d", mathext.Mid(k.A, k.B, k.C)) {
			c.Disagree("C08/gen/mid", fmt.Sprintf("Mid(%d,%d,%d): regenerated %s, code %d", k.A, k.B, k.C, g, mathext.Mid(k.A, k.B, k.C)), k)
		}
		if g := c.Gen.Ask("c08gen-within %d %d %d", k.A, k.B, k.C); g != fmt.Sprintf("ok %v", mathext.WithinRange(k.A, k.B, k.C)) {
			c.Disagree("C08/gen/within", fmt.Sprintf("WithinRange[int64](%d,%d,%d): regenerated %s, code %v", k.A, k.B, k.C, g, mathext.WithinRange(k.A, k.B, k.C)), k)
		}
	}
}

func c08ShowEntry(e *cipher.VerifCacheEntry) string {
	if e == nil {
		return "none"
	}
	if e.CreateTime.Round(0) != e.CreateTime && c08ForgeOK {
		// the creation instant carries a monotonic reading (a forged instant of a history): show it relative to the
		// origin all forged instants share (Sub uses the monotonic readings)
		return fmt.Sprintf("%d/%d/%d", e.Epoch, e.CreateTime.UnixNano(), int64(e.CreateTime.Sub(c08ForgeBase)))
	}
	return fmt.Sprintf("%d/%d", e.Epoch, e.CreateTime.UnixNano())
}

// goTimeLayout mirrors time.Time (wall, ext, loc): with the top bit of wall set, ext is the monotonic
// reading.  Used only to build a time.Time whose monotonic reading DISAGREES with its wall reading — what
// time.Now() returns after the wall clock was stepped — which the public API cannot construct.
type goTimeLayout struct {
	wall uint64
	ext  int64
	loc  *time.Location
}

var (
	c08ForgeOnce sync.Once
	c08ForgeBase time.Time
	c08ForgeOK   bool
)

// c08Forge returns a time.Time with wall reading wallNs (Unix ns) and a monotonic reading of monoNs
// relative to a fixed origin (the same for every forged value of the process).
func c08Forge(wallNs, monoNs int64) time.Time {
	base := c08ForgeBase
	shift := wallNs - base.UnixNano()
	t := base.Add(time.Duration(shift)) // wall = wallNs; the monotonic reading moved by the same amount
	p := (*goTimeLayout)(unsafe.Pointer(&t))
	if p.wall>>63 == 1 {
		p.ext += monoNs - shift // monotonic reading = base's + monoNs
	}
	return t
}

// c08ForgeCheck validates the forging against the public API of package time (once per process).
func c08ForgeCheck() bool {
	c08ForgeOnce.Do(func() {
		c08ForgeBase = time.Now()
		if unsafe.Sizeof(time.Time{}) != unsafe.Sizeof(goTimeLayout{}) {
			return
		}
		w := int64(1_700_000_000_123_456_789)
		a, b := c08Forge(w, 5e9), c08Forge(w-100e9, 47e9)
		// wall readings as asked; Sub/Before use the monotonic readings (b is 42 s LATER monotonically, 100 s EARLIER on the wall);
		// Round strips the monotonic reading and uses the wall
		c08ForgeOK = a.UnixNano() == w && b.UnixNano() == w-100e9 && b.Sub(a) == 42*time.Second && a.Before(b) &&
			!b.Round(0).Before(a.Round(0).Add(-100*time.Second)) && b.Round(0).Before(a.Round(0)) &&
			a.Add(43*time.Second).After(b) && !a.Add(41*time.Second).After(b) &&
			cipher.VerifCipherKeyEpoch(a) == cipher.VerifCipherKeyEpoch(time.Unix(0, w))
	})
	return c08ForgeOK
}

func c08OpInstant(op c08Op) (time.Time, string) {
	if op.HasMono {
		return c08Forge(op.NowNs, op.MonoNs), fmt.Sprintf("%d/%d", op.NowNs, op.MonoNs)
	}
	return time.Unix(0, op.NowNs), fmt.Sprint(op.NowNs)
}

func c08History(c *core.Ctx, k c08Case) {
	hp := core.UnHex(k.Pass)
	for _, op := range k.Ops {
		if op.HasMono && !c08ForgeCheck() {
			c.Note("C08: time.Time layout check failed; histories with monotonic readings are skipped")
			c.Res.Discarded++
			return
		}
	}
	cipher.VerifResetCipherCache()
	// several decryptors share the password (the server has one per user and configuration generation)
	var decs []*cipher.StatelessDecryptor
	decOf := func(i int) *cipher.StatelessDecryptor {
		for len(decs) <= i {
			d, _ := cipher.VerifNewStatelessDecryptor(hp)
			decs = append(decs, d)
		}
		return decs[i]
	}
	h := strings.TrimPrefix(c.Model.Ask("c08-kc-new %d", cipher.VerifConsts()["cacheValidIntervalNs"]), "ok ")
	keysAt := map[int64][][]byte{}
	keysFor := func(epoch int64) [][]byte {
		if v, ok := keysAt[epoch]; ok {
			return v
		}
		v, _ := cipher.VerifKeysAt(hp, time.Unix(epoch, 0))
		keysAt[epoch] = v
		return v
	}
	sealed := map[int64][]byte{}
	c.Eval(fmt.Sprintf("history/%s/%v", k.Pass, k.Ops), true)
	c.Res.TracesValidated++
	var prevID interface{}
	for i, op := range k.Ops {
		now, nowTok := c08OpInstant(op)
		nowEpoch := cipher.VerifCipherKeyEpoch(now)
		var used *cipher.VerifCacheEntry
		var real, ask string
		c.Hist("history_op", op.Kind)
		c.Hist("history_instant", map[bool]string{true: "monotonic+wall", false: "wall only"}[op.HasMono])
		if op.Kind == "lookup" {
			e, err := cipher.VerifGetCachedCiphers(string(hp), now)
			if err != nil {
				c.Violate("C08/cache/lookup-error", err.Error(), k)
				return
			}
			used = &e
			real = "ok"
			ask = fmt.Sprintf("lookup %s %s", h, nowTok)
		} else {
			c.Hist("history_decryptor", fmt.Sprint(op.Dec))
			se := nowEpoch + int64(op.SenderSlot)*120
			ct, ok := sealed[se]
			if !ok {
				var err error
				ct, err = c08Seal(keysFor(se)[1], []byte("metadata-sized plaintext 32bytes"))
				if err != nil {
					c.Violate("C08/keys/seal-error", err.Error(), k)
					return
				}
				sealed[se] = ct
			}
			key, _, held, derr := decOf(op.Dec).VerifTryDecryptAt(ct, now)
			used = held
			idx := "none"
			if derr == nil && held != nil {
				for j, kk := range held.Keys {
					if bytes.Equal(kk, key) {
						idx = fmt.Sprint(j)
					}
				}
			}
			c.Hist("history_try", "key="+idx)
			real = "ok key=" + idx
			ask = fmt.Sprintf("try %s %s", h, nowTok)
			// direct: |slot distance| <= 1 decrypts, >= 2 does not
			if (op.SenderSlot >= -1 && op.SenderSlot <= 1) != (derr == nil) {
				c.Violate("C08/cache/try-decrypt-slot-set", fmt.Sprintf("op %d: sender slot %+d relative to the receiver's: err=%v", i, op.SenderSlot, derr), k)
			}
		}
		real += fmt.Sprintf(" used=%s cache=%s", c08ShowEntry(used), c08ShowEntry(cipher.VerifPeekCipherCache(string(hp))))
		if op.Kind == "try" {
			real += " held=" + c08ShowEntry(used) // after a try the decryptor holds the entry it used
		}
		// direct oracle: the entry handed out is the one derived for slot(now)
		if used == nil || used.Epoch != nowEpoch {
			c.Violate("C08/cache/crosses-slots/epoch", fmt.Sprintf("op %d (%s at %sns): entry of epoch %s used at epoch %d", i, op.Kind, nowTok, c08ShowEntry(used), nowEpoch), k)
			return
		}
		want := keysFor(nowEpoch)
		for j := range want {
			if !bytes.Equal(want[j], used.Keys[j]) {
				c.Violate("C08/cache/crosses-slots/keys", fmt.Sprintf("op %d (%s at %sns): key %d of the entry is not the key derived for epoch %d", i, op.Kind, nowTok, j, nowEpoch), k)
				return
			}
		}
		// model: any jitter the code can draw is allowed; 0 and cacheValidMaxJitterMs-1 are the two extreme behaviours
		suffix := ""
		if op.Kind == "try" {
			suffix = fmt.Sprintf(" %d %d", nowEpoch+int64(op.SenderSlot)*120, op.Dec)
		}
		parts := strings.SplitN(ask, " ", 2)
		matched := false
		var seen []string
		for _, j := range []int64{0, cipher.VerifConsts()["cacheValidMaxJitterMs"] - 1} {
			m := c.Model.Ask("c08-kc-peek-%s %s %d%s", parts[0], parts[1], j, suffix)
			seen = append(seen, m)
			if m == real {
				c.Model.Ask("c08-kc-%s %s %d%s", parts[0], parts[1], j, suffix)
				if j != 0 {
					c.Hist("history_jitter_zone", "fresh-inside-jitter-zone")
				}
				matched = true
				break
			}
		}
		c.Compared()
		if k.Note != "" && i > 0 { // deterministic cache-age boundaries, printed one by one
			c.Hist("cache_age_boundary", fmt.Sprintf("%s, op %d (%s): %s", k.Note, i, op.Kind, map[bool]string{true: "same entry as the previous op", false: "another entry"}[used.ID == prevID]))
		}
		prevID = used.ID
		if !matched {
			c.Disagree("C08/corr/cache-history", fmt.Sprintf("op %d (%s at %sns): code %s; model with minimal / maximal jitter: %s", i, op.Kind, nowTok, real, strings.Join(seen, " | ")), k)
			return
		}
	}
}

// c08Handshake: the first TCP segment / UDP datagram with its three instants.  tr is the REAL clock (Unmarshal
// reads time.Now() itself and cannot be given an instant without changing the code); the key is derived for
// tk = tr + DNs and the segment is stamped for ts = tr + A.
func c08Handshake(c *core.Ctx, k c08Case) {
	nowMin, stable := nowMinute()
	if !stable {
		c.Res.Discarded++
		return
	}
	hp := core.UnHex(k.Pass)
	trNs := time.Now().UnixNano()
	tr := time.Unix(0, trNs)
	stamp := uint32(time.Unix(0, trNs+k.A).Unix() / 60)
	skeys, err := cipher.VerifKeysAt(hp, time.Unix(0, trNs+k.DNs))
	if err != nil {
		c.Violate("C08/keys/derivation-error", err.Error(), k)
		return
	}
	// metadata bytes from the real Marshal (session: open request; data: client-to-server data without payload),
	// stamp field overwritten with the sender's minute
	var md []byte
	if k.Layout == "d" {
		md, _ = protocol.VerifMarshalDataAck(protocol.VerifDataAck{Protocol: 6, SessionID: 7, Seq: 1, WindowSize: 256})
	} else {
		md, _ = protocol.VerifMarshalSession(protocol.VerifSession{Protocol: 2, SessionID: 7})
	}
	binary.BigEndian.PutUint32(md[2:], stamp)
	first, err := c08Seal(skeys[1], md) // nonce ‖ sealed metadata: the head of a TCP stream and a whole UDP datagram
	if err != nil {
		c.Violate("C08/keys/seal-error", err.Error(), k)
		return
	}
	cipher.VerifResetCipherCache()
	d, _ := cipher.VerifNewStatelessDecryptor(hp)
	key, pt, held, derr := d.VerifTryDecryptAt(first, tr)
	idx := "none"
	if derr == nil && held != nil {
		for i, kk := range held.Keys {
			if bytes.Equal(kk, key) {
				idx = fmt.Sprint(i)
			}
		}
	}
	var uerr error
	if derr == nil {
		uerr = c08Unmarshal(k.Layout, pt)
	}
	accepted := derr == nil && uerr == nil
	c.Eval(fmt.Sprintf("hs/%s/%d/%d", k.Layout, k.DNs, k.A), accepted)
	c.Hist("handshake", fmt.Sprintf("key %s, stamp %s: accepted=%v", c08Band(k.DNs, 120e9, 240e9), c08Band(k.A, 60e9, 120e9), accepted))
	realS := "none"
	if accepted {
		realS = fmt.Sprintf("ok key=%s stamp=%d", idx, stamp)
	}
	for _, opn := range []string{"tcp", "udp"} {
		m := c.Model.Ask("c08-recv-first-%s %s %d %s", opn, k.Pass, trNs, core.Hex(first))
		c.Compared()
		mm := m
		if strings.HasPrefix(m, "ok ") {
			f := strings.Fields(m)
			mm = strings.Join(f[:3], " ")
		} else if strings.HasPrefix(m, "none") {
			mm = "none"
		}
		if mm != realS {
			c.Disagree("C08/corr/first-contact-"+opn, fmt.Sprintf("receiver at %dns (minute %d), key derived %+dns away, stamped %+dns away (%d): model %s; code tryDecryptAt key=%s err=%v, Unmarshal err=%v", trNs, nowMin, k.DNs, k.A, stamp, m, idx, derr, uerr), k)
		}
	}
	dist := int64(nowMin) - int64(stamp)
	if dist < 0 {
		dist = -dist
	}
	if c08Abs(k.DNs) <= 120e9 && c08Abs(k.A) <= 60e9 && !accepted {
		key := "C08/handshake/three-instants-refused"
		if c08Abs(k.DNs) <= 60e9 {
			key = "C08/handshake/within-60s-refused"
		}
		c.Violate(key, fmt.Sprintf("receiver at %dns, key derived %+dns away, segment stamped %+dns away: decrypt err=%v, Unmarshal err=%v", trNs, k.DNs, k.A, derr, uerr), k)
	}
	if c08Abs(k.DNs) >= 240e9 && accepted {
		c.Violate("C08/handshake/stale-key-accepted", fmt.Sprintf("receiver at %dns accepts a first segment whose key was derived %+dns away", trNs, k.DNs), k)
	}
	if dist >= 2 && accepted {
		c.Violate("C08/handshake/stale-stamp-accepted", fmt.Sprintf("receiver at minute %d accepts a first segment stamped %d", nowMin, stamp), k)
	}
}

func c08Band(d int64, a, b int64) string {
	switch {
	case c08Abs(d) <= a:
		return fmt.Sprintf("<=%ds", a/1e9)
	case c08Abs(d) < b:
		return fmt.Sprintf("%ds..%ds", a/1e9, b/1e9)
	}
	return fmt.Sprintf(">=%ds", b/1e9)
}

// c08Established: documented behaviour, NOT a finding.  The four-minute clause of C08 is about key selection for
// a connection that has no key yet.  A stateful cipher pair (what a TCP connection / UDP session keeps after the
// first segment) never consults the clock: it keeps accepting segments under its original key at an instant
// DNs later (hours), while at that instant a first contact under the same key is refused and the cache holds
// other keys.  Model: established_session_ignores_candidates / established_session_accepts_original_key.
func c08Established(c *core.Ctx, k c08Case) {
	hp := core.UnHex(k.Pass)
	t0 := time.Unix(0, k.TNs)
	t1 := time.Unix(0, k.TNs+k.DNs)
	snd, err := cipher.VerifBlockCipherListAt(hp, t0, false)
	if err != nil {
		c.Violate("C08/keys/derivation-error", err.Error(), k)
		return
	}
	send := snd[1] // what BlockCipherFromPassword hands a client at t0
	// the server's first contact at t0: stateless key selection, then a stateful receive cipher with that key
	cipher.VerifResetCipherCache()
	d, _ := cipher.VerifNewStatelessDecryptor(hp)
	m1 := []byte("first  metadata plaintext 32 B..")
	first := make([]byte, 0, 128)
	if err := send.Encrypt(first, m1); err != nil {
		c.Violate("C08/keys/seal-error", err.Error(), k)
		return
	}
	first = first[:len(m1)+cipher.DefaultNonceSize+cipher.DefaultOverhead]
	key0, pt0, _, derr := d.VerifTryDecryptAt(first, t0)
	if derr != nil || !bytes.Equal(pt0, m1) {
		c.Disagree("C08/corr/established-first", fmt.Sprintf("first contact at the key instant %dns fails: %v", k.TNs, derr), k)
		return
	}
	recvList, _ := cipher.VerifBlockCipherListAt(hp, t0, false)
	recv := recvList[1]
	if !bytes.Equal(cipher.VerifKeyOf(recv), key0) {
		c.Disagree("C08/corr/established-first", "the key selected at first contact is not the sender's", k)
		return
	}
	if _, err := recv.Decrypt(first); err != nil { // brings the receive cipher to the sender's nonce sequence
		c.Disagree("C08/corr/established-first", "stateful receive cipher does not open the first segment: "+err.Error(), k)
		return
	}
	// … DNs later
	m2 := []byte("later  metadata plaintext 32 B..")
	later := make([]byte, 0, 128)
	if err := send.Encrypt(later, m2); err != nil {
		c.Violate("C08/keys/seal-error", err.Error(), k)
		return
	}
	later = later[:len(m2)+cipher.DefaultOverhead]
	got, lerr := recv.Decrypt(later)
	establishedOK := lerr == nil && bytes.Equal(got, m2)
	// a NEW first contact under the old key at t1, and what the cache holds at t1
	again := make([]byte, 0, 128)
	fresh, _ := cipher.VerifBlockCipherListAt(hp, t0, false)
	fresh[1].Encrypt(again, m1)
	again = again[:len(m1)+cipher.DefaultNonceSize+cipher.DefaultOverhead]
	_, _, held, ferr := d.VerifTryDecryptAt(again, t1)
	inWindow := false
	if held != nil {
		for _, kk := range held.Keys {
			if bytes.Equal(kk, key0) {
				inWindow = true
			}
		}
	}
	c.Eval(fmt.Sprintf("est/%d/%d", k.TNs, k.DNs), establishedOK)
	c.Hist("established_session", fmt.Sprintf("%+d s later: established cipher accepts its original key=%v, first contact under that key accepted=%v, key among the receiver's three=%v", k.DNs/1e9, establishedOK, ferr == nil, inWindow))
	c.Compared()
	if !establishedOK {
		// the model (Spec.parseOne with Rx.key = some k) accepts: established_session_accepts_original_key
		c.Disagree("C08/corr/established-session-key", fmt.Sprintf("a stateful cipher pair keyed at %dns does not open the sender's next segment %dns later: %v", k.TNs, k.DNs, lerr), k)
	}
	if c08Abs(k.DNs) >= 240e9 && (ferr == nil || inWindow) {
		c.Violate("C08/skew/4min-accepted", fmt.Sprintf("first contact at %dns under a key derived %dns earlier is accepted", k.TNs+k.DNs, k.DNs), k)
	}
}

// c08Concurrent: goroutines share the process-wide cache and two decryptors and call getCachedCiphers /
// tryDecryptAt at instants on both sides of a slot boundary.  No schedule is comparable with a sequential
// model run; what cache_never_crosses_slots_concurrent says of EVERY interleaving is checked on each result:
// the entry used was derived for the slot of the caller's own instant.
func c08Concurrent(c *core.Ctx, k c08Case) {
	hp := core.UnHex(k.Pass)
	cipher.VerifResetCipherCache()
	decs := make([]*cipher.StatelessDecryptor, 2)
	for i := range decs {
		decs[i], _ = cipher.VerifNewStatelessDecryptor(hp)
	}
	boundary := k.TNs // a rounding tie: instants below it belong to slot A, the others to slot B = A + 120 s
	slotA, slotB := cipher.VerifCipherKeyEpoch(time.Unix(0, boundary-1)), cipher.VerifCipherKeyEpoch(time.Unix(0, boundary))
	want := map[int64][][]byte{}
	// what tryDecryptAt is given: at an instant of slot A a segment sealed for slot A-120 s, at an instant of slot B one
	// sealed for slot B+120 s — each opens under the entry of the caller's own slot and NOT under the other slot's
	// entry (A's keys are A-120, A, B; B's are A, B, B+120), so success identifies the entry the call used
	probe := map[int64][]byte{}
	for _, e := range []int64{slotA, slotB} {
		want[e], _ = cipher.VerifKeysAt(hp, time.Unix(e, 0))
	}
	probe[slotA], _ = c08Seal(want[slotA][0], []byte("metadata-sized plaintext 32bytes"))
	probe[slotB], _ = c08Seal(want[slotB][2], []byte("metadata-sized plaintext 32bytes"))
	const workers, per = 8, 150
	type job struct {
		lookup bool
		dec    int
		now    int64
	}
	jobs := make([][]job, workers)
	for w := range jobs {
		for i := 0; i < per; i++ {
			off := c.Rand.Int63n(20e9) - 10e9
			if c.Rand.Intn(3) == 0 {
				off = c.Rand.Int63n(5) - 2
			}
			jobs[w] = append(jobs[w], job{c.Rand.Intn(2) == 0, c.Rand.Intn(2), boundary + off})
		}
	}
	var mu sync.Mutex
	var bads []string
	n := 0
	var wg sync.WaitGroup
	for w := 0; w < workers; w++ {
		wg.Add(1)
		go func(w int) {
			defer wg.Done()
			for _, j := range jobs[w] {
				now := time.Unix(0, j.now)
				ep := cipher.VerifCipherKeyEpoch(now)
				okE, what := false, ""
				if j.lookup {
					e, err := cipher.VerifGetCachedCiphers(string(hp), now)
					okE = err == nil && e.Epoch == ep && len(e.Keys) == 3
					for i := 0; okE && i < 3; i++ {
						okE = bytes.Equal(e.Keys[i], want[ep][i])
					}
					what = fmt.Sprintf("getCachedCiphers at %dns (slot %d) returned the entry %s", j.now, ep, c08ShowEntry(&e))
				} else {
					_, _, _, derr := decs[j.dec].VerifTryDecryptAt(probe[ep], now)
					okE = derr == nil
					what = fmt.Sprintf("tryDecryptAt (decryptor %d) at %dns (slot %d) did not use the entry of its slot: %v", j.dec, j.now, ep, derr)
				}
				mu.Lock()
				n++
				if !okE {
					bads = append(bads, what)
				}
				mu.Unlock()
			}
		}(w)
	}
	wg.Wait()
	c.Eval(fmt.Sprintf("conc/%s/%d", k.Pass, k.TNs), true)
	c.Hist("concurrent_ops", fmt.Sprintf("%d goroutines x %d ops around a slot boundary", workers, per))
	if len(bads) > 0 {
		c.Violate("C08/cache/crosses-slots/concurrent", fmt.Sprintf("%d of %d concurrent operations used key material of another slot, e.g. %s", len(bads), n, bads[0]), k)
	}
}

func c08Live(c *core.Ctx) {
	// exported API on the real clock: the stateless cipher handed out now is the current slot's
	hp := sha256.Sum256([]byte("c08-live"))
	t0 := time.Now()
	b, err := cipher.BlockCipherFromPassword(hp[:], true)
	t1 := time.Now()
	if err != nil || cipher.VerifCipherKeyEpoch(t0) != cipher.VerifCipherKeyEpoch(t1) {
		c.Res.Discarded++
		return
	}
	c.Eval("live", true)
	want, _ := cipher.VerifKeysAt(hp[:], t0)
	if !bytes.Equal(cipher.VerifKeyOf(b), want[1]) {
		c.Violate("C08/cache/live-key-not-current-slot", "BlockCipherFromPassword returned a key other than the current slot's", c08Case{Kind: "live"})
	}
}

func c08Run(c *core.Ctx, k c08Case) {
	switch k.Kind {
	case "slot":
		c08Slot(c, k)
	case "skew":
		c08Skew(c, k)
	case "ts", "ts-abs", "ts-skew":
		c08Ts(c, k)
	case "hs":
		c08Handshake(c, k)
	case "est":
		c08Established(c, k)
	case "conc":
		c08Concurrent(c, k)
	case "minute":
		c08Minute(c, k)
	case "mid":
		c08Mid(c, k)
	case "history":
		c08History(c, k)
	case "live":
		c08Live(c)
	}
}

// offsets around every boundary instant (both signs): the values named in the property's quantifier and the
// proved bounds (60 s for stamps, 120 s for keys), each with its ±1 ns neighbours
var c08Offsets = []int64{0, 1, -1, 1e9, -1e9, 59e9, -59e9, 60e9, -60e9, 60e9 + 1, -60e9 - 1, 61e9, -61e9,
	120e9 - 1, -120e9 + 1, 120e9, -120e9, 120e9 + 1, -120e9 - 1}

type c08Named struct {
	d    int64
	name string
}

func c08Dur(d int64) string {
	sign := "+"
	if d < 0 {
		sign, d = "-", -d
	}
	s, ns := d/1e9, d%1e9
	switch {
	case ns == 0:
		return fmt.Sprintf("%s%ds", sign, s)
	case ns == 1 && s == 0:
		return sign + "1ns"
	case ns == 1:
		return fmt.Sprintf("%s(%ds+1ns)", sign, s)
	case ns == 1e9-1:
		return fmt.Sprintf("%s(%ds-1ns)", sign, s+1)
	}
	return fmt.Sprintf("%s%d.%09ds", sign, s, ns)
}

// deterministic skews (both signs): 0, ±1 ns, around 60 s (stamp bound), 120 s (key bound), 180 s, 240 s (rejection bound)
func c08Skews() []c08Named {
	abs := []int64{0, 1, 1e9, 59e9, 60e9 - 1, 60e9, 60e9 + 1, 61e9, 119e9, 120e9 - 1, 120e9, 120e9 + 1, 121e9, 179e9,
		180e9 - 1, 180e9, 180e9 + 1, 239e9, 240e9 - 1, 240e9, 240e9 + 1, 241e9, 300e9, 3600e9}
	var r []c08Named
	for _, d := range abs {
		r = append(r, c08Named{d, c08Dur(d)})
		if d != 0 {
			r = append(r, c08Named{-d, c08Dur(-d)})
		}
	}
	return r
}

// fixed boundary instants at the head of c08Instants' result
func c08FixedInstantList() []int64 {
	var r []int64
	seen := map[int64]bool{}
	// every kind of boundary: multiples of 60 s and 120 s (odd and even minutes; 1970, 2023, 2100, 2255), ± offsets
	bases := []int64{1_700_000_040, 1_700_000_100, 1_700_000_160, 0, 120, 60, 4_102_444_800, 9_000_000_000}
	for _, b := range bases {
		for _, o := range c08Offsets {
			if t := b*1e9 + o; !seen[t] {
				seen[t] = true
				r = append(r, t)
			}
		}
	}
	return r
}

func c08Instants(c *core.Ctx, n int) []int64 {
	r := c08FixedInstantList()
	for i := 0; i < n; i++ {
		b := (c.Rand.Int63n(4_000_000_000) / 60) * 60
		switch c.Rand.Intn(3) {
		case 0:
			r = append(r, b*1e9+c08Offsets[c.Rand.Intn(len(c08Offsets))])
		case 1:
			r = append(r, b*1e9+c.Rand.Int63n(120e9))
		default:
			r = append(r, b*1e9+60e9+c.Rand.Int63n(2001)-1000) // within a microsecond of the tie
		}
	}
	return r
}

// c08AgeHistories: deterministic cache-age / jitter boundaries.  An entry is created at T (mid-slot) and looked up
// again at T + age for age in {0, valid-maxJitter, valid-maxJitter+1ns, valid-1ns, valid, valid+1ns}: below
// valid-maxJitter+1ns every draw of the jitter keeps the entry, above valid every draw refreshes it, in between
// the outcome depends on the draw (the model is asked with the minimal and the maximal draw).  The same with
// instants that carry a monotonic reading, agreeing with the wall clock and disagreeing with it (wall clock
// stepped: the age must be taken from the monotonic readings, the slot from the wall clock).
func c08AgeHistories(pass func() string) []c08Case {
	valid := cipher.VerifConsts()["cacheValidIntervalNs"]
	maxJ := cipher.VerifConsts()["cacheValidMaxJitterMs"] * 1e6
	T := int64(1_700_000_160)*1e9 - 50e9 // slot 1700000160 spans [-60 s, +60 s) around it
	type age struct {
		d    int64
		name string
	}
	ages := []age{{0, "0"}, {valid - maxJ, "valid-maxJitter"}, {valid - maxJ + 1, "valid-maxJitter+1ns"}, {valid - 1, "valid-1ns"}, {valid, "valid"}, {valid + 1, "valid+1ns"}}
	var r []c08Case
	for _, a := range ages {
		if a.d < 0 || a.d > 100e9 {
			continue
		}
		r = append(r, c08Case{Kind: "history", Pass: pass(), Note: "age=" + a.name + " (wall only)",
			Ops: []c08Op{{Kind: "lookup", NowNs: T}, {Kind: "lookup", NowNs: T + a.d}}})
		r = append(r, c08Case{Kind: "history", Pass: pass(), Note: "age=" + a.name + " (monotonic = wall)",
			Ops: []c08Op{{Kind: "lookup", NowNs: T, HasMono: true, MonoNs: 7e9}, {Kind: "lookup", NowNs: T + a.d, HasMono: true, MonoNs: 7e9 + a.d}}})
		// wall clock stepped back to 1 s after T while `age` passed monotonically
		r = append(r, c08Case{Kind: "history", Pass: pass(), Note: "age=" + a.name + " monotonic, wall +1s",
			Ops: []c08Op{{Kind: "lookup", NowNs: T, HasMono: true, MonoNs: 7e9}, {Kind: "lookup", NowNs: T + 1e9, HasMono: true, MonoNs: 7e9 + a.d}}})
		// wall clock stepped forward by `age` (same slot) while 1 s passed monotonically
		r = append(r, c08Case{Kind: "history", Pass: pass(), Note: "age=" + a.name + " on the wall, monotonic +1s",
			Ops: []c08Op{{Kind: "lookup", NowNs: T, HasMono: true, MonoNs: 7e9}, {Kind: "lookup", NowNs: T + a.d, HasMono: true, MonoNs: 8e9}}})
	}
	// wall clock stepped across slot boundaries while almost no monotonic time passed: the slot test alone must refresh
	r = append(r, c08Case{Kind: "history", Pass: pass(), Note: "wall stepped +120s, monotonic +1ms",
		Ops: []c08Op{{Kind: "lookup", NowNs: T, HasMono: true, MonoNs: 7e9}, {Kind: "lookup", NowNs: T + 120e9, HasMono: true, MonoNs: 7e9 + 1e6},
			{Kind: "try", NowNs: T + 120e9 + 1, HasMono: true, MonoNs: 7e9 + 2e6}, {Kind: "try", NowNs: T - 120e9, HasMono: true, MonoNs: 7e9 + 3e6, SenderSlot: 2},
			{Kind: "lookup", NowNs: T - 120e9 + 5, HasMono: true, MonoNs: 7e9 + 4e6}}})
	// two (three) decryptors sharing one password around a slot change
	r = append(r, c08Case{Kind: "history", Pass: pass(), Note: "three decryptors, one password",
		Ops: []c08Op{{Kind: "try", NowNs: T, Dec: 0}, {Kind: "try", NowNs: T + 1e9, Dec: 1}, {Kind: "try", NowNs: T + 111e9, Dec: 1, SenderSlot: -1},
			{Kind: "try", NowNs: T + 112e9, Dec: 0, SenderSlot: -2}, {Kind: "try", NowNs: T + 109e9, Dec: 2}, {Kind: "try", NowNs: T + 113e9, Dec: 2, SenderSlot: 1},
			{Kind: "lookup", NowNs: T + 2e9}, {Kind: "try", NowNs: T + 3e9, Dec: 1, SenderSlot: 2}, {Kind: "try", NowNs: T + 114e9, Dec: 0}}})
	return r
}

// the real minute tick straddled by the real Marshal (just before the tick) and the real Unmarshal (just after),
// run in the background of the thorough tier (waits for the next tick of the wall clock, up to a minute)
type c08Tick struct {
	m0, m1, u0, u1 int64
	stampS, stampD uint32
	errS, errD     error
}

func c08TickStraddle() chan c08Tick {
	ch := make(chan c08Tick, 1)
	go func() {
		next := time.Now().Truncate(time.Minute).Add(time.Minute)
		if time.Until(next) < time.Second {
			next = next.Add(time.Minute)
		}
		time.Sleep(time.Until(next.Add(-400 * time.Millisecond)))
		var r c08Tick
		r.m0 = time.Now().UnixNano()
		bs, ss := protocol.VerifMarshalSession(protocol.VerifSession{Protocol: 2, SessionID: 7})
		bd, sd := protocol.VerifMarshalDataAck(protocol.VerifDataAck{Protocol: 6, SessionID: 7, Seq: 1})
		r.m1 = time.Now().UnixNano()
		r.stampS, r.stampD = ss, sd
		time.Sleep(time.Until(next.Add(150 * time.Millisecond)))
		r.u0 = time.Now().UnixNano()
		_, r.errS = protocol.VerifUnmarshalSession(bs)
		_, r.errD = protocol.VerifUnmarshalDataAck(bd)
		r.u1 = time.Now().UnixNano()
		ch <- r
	}()
	return ch
}

func c08TickEval(c *core.Ctx, r c08Tick) {
	min := func(ns int64) int64 { return ns / 1e9 / 60 }
	if min(r.m0) != min(r.m1) || min(r.u0) != min(r.u1) || min(r.u0) != min(r.m0)+1 {
		c.Res.Discarded++ // scheduling delays: the two calls did not straddle exactly one tick
		c.Hist("real_tick_straddle", "discarded (no clean straddle)")
		return
	}
	c.Eval("tick-straddle", true)
	m := c.Model.Ask("c08-ts-skew %d %d", r.u0, r.m0)
	c.Compared()
	c.Hist("real_tick_straddle", fmt.Sprintf("Marshal %d ms before the tick, Unmarshal %d ms after: accepted=%v", (r.u0/60e9*60e9-r.m1)/1e6, (r.u0-r.u0/60e9*60e9)/1e6, r.errS == nil && r.errD == nil))
	if m != fmt.Sprintf("ok true %d %d", r.stampS+1, r.stampS) || r.stampS != r.stampD {
		c.Disagree("C08/corr/tick-straddle", fmt.Sprintf("Marshal at %dns stamped %d/%d, Unmarshal at %dns: model %s", r.m0, r.stampS, r.stampD, r.u0, m), c08Case{Kind: "tick"})
	}
	if r.errS != nil || r.errD != nil {
		c.Violate("C08/timestamp/tick-straddle-rejected", fmt.Sprintf("segment marshalled at %dns (stamp %d), unmarshalled %d ms later, right after the minute tick: session err=%v, dataAck err=%v", r.m0, r.stampS, (r.u0-r.m0)/1e6, r.errS, r.errD), c08Case{Kind: "tick"})
	}
}

func init() {
	// the key-schedule and cache constants go into lean/Mieru/Gen/Consts.lean (tie T): the theorems
	// `consts_tie` (C08) and `spec_consts_match_code` (C09) are about these regenerated values
	core.AddConsts(cipher.VerifConsts)
	core.Register("C08", &core.Scenario{
		Run: func(c *core.Ctx) {
			c.Res.Rule = "EVERY run, before the random stream: instants = multiples of 60 s and 120 s (1970, 2023, 2100, 2255) ± {0,1ns,1s,59s,60s,60s+1ns,61s,120s-1ns,120s,120s+1ns} x skews d = ±{0,1ns,1s,59s,60s-1ns,60s,60s+1ns,61s,119s,120s-1ns,120s,120s+1ns,121s,179s,180s-1ns,180s,180s+1ns,239s,240s-1ns,240s,240s+1ns,241s,300s,1h}; first contact at the real clock with key instant and stamp instant each over the same skews; stamps k = -3..3 minutes, stamps of senders at the same skews, absolute stamps 0,1,2,2^31-1,2^31,2^31+1,2^32-2,2^32-1 for both metadata kinds; cache ages {0, valid-maxJitter, +1ns, valid-1ns, valid, valid+1ns} with and without (dis)agreeing monotonic readings; three decryptors on one password; an established cipher pair hours later. Then random instants incl. within 1 µs of the rounding tie, random skews, Mid/WithinRange on random and wrap-adjacent triples, histories of 20-60 getCachedCiphers/tryDecryptAt calls (3 decryptors) with non-monotonic wall instants walking across slot boundaries and the validity zone, with monotonic readings that follow or leave the wall clock. Distinct = distinct canonical case; non-trivial = a decrypt succeeded / a history ran."
			c.Correspondence("c08-slot: pkg/cipher cipherKeyEpoch, saltFromTime vs Mieru.Time.epoch/saltTimes")
			c.Correspondence("c08-kc-try (fresh state): StatelessDecryptor.tryDecryptAt under skew vs Mieru.KeyCache.tryEntry + slotKeys")
			c.Correspondence("c08-ts-ok, c08-ts-skew, c08-minute: sessionStruct/dataAckStruct Unmarshal timestamp check and Marshal stamp vs Mieru.Time.tsAccept/minuteU32")
			c.Correspondence("c08-mid, c08-within, c08-within-u32: pkg/mathext Mid/WithinRange vs Mieru.Time.mid/withinRange/withinRangeU32")
			c.Correspondence("c08-kc-lookup/try histories: getCachedCiphers + tryDecryptAt (several decryptors, monotonic readings) on the process-wide cache vs Mieru.KeyCache.step")
			c.Correspondence("c08-recv-first-tcp/udp: real key selection at tr + real Unmarshal of a first segment keyed for tk and stamped for ts vs Mieru.Handshake.recvFirstTcp/recvFirstUdp")
			c.Correspondence("c08gen-*: definitions regenerated from the source (Mieru.Gen.FactsC08) vs the real cipherKeyEpoch, saltFromTime, Mid, WithinRange, Marshal stamp, Unmarshal timestamp test")
			if c.Gen == nil {
				c.Note("C08: mieru-gen is not available; the regenerated definitions are not compared with the real functions in this run")
			}
			var tick chan c08Tick
			if c.Thorough() {
				tick = c08TickStraddle()
			}
			runCorpus(c, func(raw json.RawMessage) {
				var k c08Case
				if json.Unmarshal(raw, &k) == nil {
					c08Run(c, k)
				}
			})
			hp := func() string { b := make([]byte, 32); c.Rand.Read(b); return core.Hex(b) }
			nFixed := len(c08FixedInstantList())
			inst := c08Instants(c, c.N(150, 3000))
			for i, t := range inst {
				k := c08Case{Kind: "slot", TNs: t}
				if i == 5 {
					c.Sample(k)
				}
				if i < nFixed {
					c.Hist("instants", "fixed boundary instant")
				} else {
					c.Hist("instants", "random instant")
				}
				c08Run(c, k)
			}
			// skews
			skews := c08Skews()
			pw := hp()
			nsk := 0
			for ti, t := range inst {
				for _, d := range skews {
					// every fixed boundary instant x every skew in both tiers; for the random instants all
					// skews in thorough and a seeded sample in quick
					if ti >= nFixed && !c.Thorough() && c.Rand.Intn(24) != 0 {
						continue
					}
					k := c08Case{Kind: "skew", TNs: t, DNs: d.d, Pass: pw}
					if ti < nFixed {
						k.Note = d.name
					}
					if nsk == 3 {
						c.Sample(k)
					}
					nsk++
					c08Run(c, k)
				}
			}
			// first contact with its three instants (receiver = the real clock), timestamps of skewed senders
			for li, d := range skews {
				layout := []string{"s", "d"}[li%2]
				c08Run(c, c08Case{Kind: "hs", Layout: layout, DNs: d.d, A: 0, Pass: pw})
				if c08Abs(d.d) <= 300e9 {
					c08Run(c, c08Case{Kind: "hs", Layout: layout, DNs: 0, A: d.d, Pass: pw})
					for _, l := range []string{"s", "d"} {
						c08Run(c, c08Case{Kind: "ts-skew", Layout: l, DNs: d.d, Note: d.name})
					}
				}
			}
			for _, dk := range []int64{120e9, -120e9} {
				for _, ds := range []int64{60e9, -60e9} {
					c08Run(c, c08Case{Kind: "hs", Layout: "s", DNs: dk, A: ds, Pass: pw})
				}
			}
			// an established cipher pair keeps its key (documented scope of the four-minute clause)
			for _, t0 := range []int64{1_700_000_100*1e9 - 1, 1_700_000_040 * 1e9} {
				for _, d := range []int64{241e9, 600e9, 36000e9, -3600e9} {
					c08Run(c, c08Case{Kind: "est", TNs: t0, DNs: d, Pass: pw})
				}
			}
			// goroutines sharing the cache and two decryptors around a rounding tie
			for i := 0; i < c.N(2, 20); i++ {
				c08Run(c, c08Case{Kind: "conc", TNs: (1_700_000_100 + 120*int64(i)) * 1e9, Pass: hp()})
			}
			// deterministic cache-age / jitter / monotonic / several-decryptor histories
			for _, k := range c08AgeHistories(hp) {
				c08Run(c, k)
			}
			for i := 0; i < c.N(200, 3000); i++ {
				t := inst[c.Rand.Intn(len(inst))]
				var d int64
				switch c.Rand.Intn(3) {
				case 0:
					d = c.Rand.Int63n(120e9+1) - 60e9 // inside the guaranteed band
				case 1:
					d = c.Rand.Int63n(600e9+1) - 300e9
				default:
					d = (240e9 + c.Rand.Int63n(3600e9)) * []int64{1, -1}[c.Rand.Intn(2)]
				}
				c08Run(c, c08Case{Kind: "skew", TNs: t, DNs: d, Pass: hp()})
			}
			for i := 0; i < c.N(10, 200); i++ {
				dk := c.Rand.Int63n(600e9+1) - 300e9
				ds := c.Rand.Int63n(300e9+1) - 150e9
				c08Run(c, c08Case{Kind: "hs", Layout: []string{"s", "d"}[i%2], DNs: dk, A: ds, Pass: hp()})
			}
			// timestamps
			for rep := 0; rep < c.N(3, 20); rep++ {
				for _, layout := range []string{"s", "d"} {
					for kk := -3; kk <= 3; kk++ {
						c08Run(c, c08Case{Kind: "ts", Layout: layout, K: kk})
					}
					for _, ts := range []uint32{0, 1, 2, 0xffffffff, 0xfffffffe, 0x7fffffff, 0x80000000, 0x80000001} {
						c08Run(c, c08Case{Kind: "ts-abs", Layout: layout, Ts: ts, Note: fmt.Sprint(ts)})
					}
					c08Run(c, c08Case{Kind: "ts-abs", Layout: layout, Ts: c.Rand.Uint32()})
					c08Run(c, c08Case{Kind: "ts", Layout: layout, K: c.Rand.Intn(2000) - 1000})
				}
				c08Run(c, c08Case{Kind: "minute"})
				c08Run(c, c08Case{Kind: "live"})
			}
			// Mid / WithinRange
			edge := []int64{0, 1, 2, 3, 0xffffffff, 0xfffffffe, 0xfffffffd, 0x7fffffff, 0x80000000}
			for i := 0; i < c.N(400, 6000); i++ {
				pick := func() int64 {
					if c.Rand.Intn(2) == 0 {
						return edge[c.Rand.Intn(len(edge))]
					}
					return int64(c.Rand.Uint32())
				}
				a, b, m := pick(), pick(), []int64{0, 1, 1, 1, 2, pick()}[c.Rand.Intn(6)]
				if c.Rand.Intn(3) == 0 {
					a = b + int64(c.Rand.Intn(7)) - 3 // v close to target
					if a < 0 || a > 0xffffffff {
						a = b
					}
				}
				c08Run(c, c08Case{Kind: "mid", U32: true, A: a, B: b, C: m})
				c08Run(c, c08Case{Kind: "mid", A: a - int64(c.Rand.Intn(3)), B: b, C: m})
			}
			// cache histories
			for i := 0; i < c.N(40, 600); i++ {
				base := (1_600_000_000 + c.Rand.Int63n(400_000_000)) / 120 * 120 * 1e9
				cur := base + []int64{0, 60e9, -60e9, 30e9}[c.Rand.Intn(4)]
				// 0: wall-only instants; 1: monotonic readings that follow the wall clock; 2: monotonic readings that only
				// move forward while the wall clock walks (steps back, jumps); 3: a mixture of both kinds of instants
				monoMode := i % 4
				mono := int64(5e9)
				var ops []c08Op
				for j := 0; j < 20+c.Rand.Intn(41); j++ {
					prev := cur
					switch c.Rand.Intn(10) {
					case 0:
						cur += c.Rand.Int63n(2e6) - 1e6 // ± 1 ms
					case 1, 2:
						cur += c.Rand.Int63n(10e9)
					case 3:
						cur -= c.Rand.Int63n(10e9) // clock steps back
					case 4:
						cur += 24e9 + c.Rand.Int63n(7e9) // into the 25..30 s validity zone
					case 5:
						cur += 60e9
					case 6:
						cur = (cur/60e9)*60e9 + []int64{0, 1, -1}[c.Rand.Intn(3)] // onto a boundary
					case 7:
						cur += c.Rand.Int63n(240e9) - 120e9
					case 8:
						cur += 29e9 + c.Rand.Int63n(2e9)
					}
					op := c08Op{Kind: "lookup", NowNs: cur}
					if c.Rand.Intn(2) == 0 {
						op = c08Op{Kind: "try", NowNs: cur, SenderSlot: []int{0, 0, 1, -1, 2, -2}[c.Rand.Intn(6)], Dec: []int{0, 0, 1, 2}[c.Rand.Intn(4)]}
					}
					switch monoMode {
					case 1:
						mono += cur - prev
						op.HasMono, op.MonoNs = true, mono
					case 2, 3:
						// monotonic time advances by the size of the wall step, or by an amount of its own near the validity bounds
						switch c.Rand.Intn(4) {
						case 0:
							mono += c08Abs(cur - prev)
						case 1:
							mono += c.Rand.Int63n(2e9)
						case 2:
							mono += 24e9 + c.Rand.Int63n(7e9)
						default:
							mono += c.Rand.Int63n(40e9)
						}
						if monoMode == 2 || c.Rand.Intn(2) == 0 {
							op.HasMono, op.MonoNs = true, mono
						}
					}
					ops = append(ops, op)
				}
				k := c08Case{Kind: "history", Pass: hp(), Ops: ops}
				if i == 0 {
					c.Sample(c08Case{Kind: "history", Pass: k.Pass, Ops: ops[:4]})
				}
				c08Run(c, k)
			}
			cipher.VerifResetCipherCache()
			if tick != nil {
				select {
				case r := <-tick:
					c08TickEval(c, r)
				case <-time.After(130 * time.Second):
					c.Res.Discarded++
					c.Hist("real_tick_straddle", "discarded (timed out)")
				}
			}
		},
		Replay: func(c *core.Ctx, raw json.RawMessage) {
			var k c08Case
			if json.Unmarshal(raw, &k) == nil {
				c08Run(c, k)
			}
		},
	})
}
