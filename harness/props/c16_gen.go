package props

import (
	"bytes"
	"encoding/hex"
	"encoding/json"
	"fmt"
	"math"
	"sort"
	"strconv"
	"strings"

	"github.com/enfein/mieru/v3/apis/trafficpattern"
	"github.com/enfein/mieru/v3/pkg/appctl/appctlpb"
	"github.com/enfein/mieru/v3/pkg/cipher"
	"github.com/enfein/mieru/v3/pkg/common"
	"github.com/enfein/mieru/v3/pkg/protocol"
	"github.com/enfein/mieru/v3/pkg/rng"
	"verifharness/core"
)

// C16, tie stage (round 3): every definition the C16 theorems are about is evaluated next to the real
// function on the same inputs —
//
//	rng.FixedInt                     vs Mieru.FixedInt.fixedIntBytes (SHA-256 model)            pat-fixedint
//	aeadBlockCipher.nonceRewriteLen  vs Gen.PatternGen.nonceRewriteLen + Pattern.nonceRewriteRange (hook, both clamp branches)
//	aeadBlockCipher.newNonceTo       vs Gen.PatternGen.newNonceTo + Pattern.newNonceStep            (hook)
//	Validate (tcp / padding / nonce integers) vs Gen.PatternGen.validate*                           (exported API)
//	common.ToCommon64Set / ToPrintableChar    vs PatternWire.toCommon64 / toPrintable              (exported API)
//	Encrypt on one cipher object / several objects / Clone vs PatternWire.encryptN / wireFlags      (exported API)
//	writeWithPossibleFragment        vs PatternWire.writeSizesOK + Gen.PatternGen.fragmentLen/Disabled (hook)
//	newPadding                       direct oracle len ≤ maxLen                                      (hook)
//
// All inputs are deterministic boundary grids plus a seeded random part.

type c16Tie struct {
	Stage string `json:"stage"` // "c16tie"
	Kind  string `json:"kind"`
	What  string `json:"what,omitempty"`
}

func c16tie(kind, what string) c16Tie { return c16Tie{Stage: "c16tie", Kind: kind, What: what} }

func c16GenAsk(c *core.Ctx, format string, a ...interface{}) (string, bool) {
	if c.Gen == nil {
		return "", false
	}
	return c.Gen.Ask(format, a...), true
}

// ---- rng.FixedInt ------------------------------------------------------------------------------

func c16TieFixedInt(c *core.Ctx) {
	ns := []int{-5, 0, 1, 2, 3, 7, 13, 31, 100, 256, 1<<31 - 1, 1 << 31, 1 << 40}
	var hints [][]byte
	for _, l := range []int{0, 1, 55, 56, 63, 64, 65, 119, 120} { // SHA-256 padding boundaries
		h := make([]byte, l)
		c.Rand.Read(h)
		hints = append(hints, h)
		hints = append(hints, bytes.Repeat([]byte{0xff}, l), bytes.Repeat([]byte{0x00}, l))
	}
	seeds := []int{0, -1, 1, math.MaxInt32, math.MinInt32, rng.FixedIntVH(math.MaxInt32)}
	for i := 0; i < c.N(24, 400); i++ {
		seeds = append(seeds, int(int32(c.Rand.Uint32())))
	}
	for _, s := range seeds {
		for _, n := range c16HintNames {
			hints = append(hints, []byte(fmt.Sprintf("%d:%s", s, n)))
		}
	}
	for _, h := range hints {
		c.Hist("fixedint_hint_len", core.SizeBucket(len(h)))
		for _, n := range ns {
			got := rng.FixedInt(n, string(h))
			m := c.Model.Ask("pat-fixedint %d %s", n, core.Hex(h))
			c.Compared()
			c.Eval(fmt.Sprintf("fixedint/%d/%x", n, h), true)
			if m != fmt.Sprintf("ok %d", got) {
				c.Disagree("C16/corr/fixedint", fmt.Sprintf("FixedInt(%d, %x): model %q impl %d", n, h, m, got), c16tie("fixedint", fmt.Sprintf("n=%d hint=%x", n, h)))
			}
			if n <= 0 && got != 0 || n > 0 && (got < 0 || got >= n) || got != rng.FixedInt(n, string(h)) {
				c.Violate("C16/fixedint/out-of-range-or-unstable", fmt.Sprintf("FixedInt(%d, %x) = %d", n, h, got), c16tie("fixedint", ""))
			}
		}
	}
	for _, n := range ns {
		c.Hist("fixedint_n", fmt.Sprint(n))
	}
}

// ---- nonceRewriteLen (hook): the regenerated function and the model's range vs real draws --------

func c16TieRewriteLen(c *core.Ctx) {
	vals := []int32{-3, 0, 1, 5, 6, 11, 12, 13, 23, 24, 25, 30, 40}
	const draws = 3000
	for _, mn := range vals {
		for _, mx := range vals {
			np := &appctlpb.NoncePattern{MinLen: c16p32(mn), MaxLen: c16p32(mx)}
			lens, size, err := cipher.VerifNonceRewriteLens(np, draws)
			if err != nil {
				c.Violate("C16/nonce/cipher-error", err.Error(), c16tie("rewritelen", ""))
				return
			}
			branch := "in-range"
			if int(mx) > size {
				branch = "maxLen>NonceSize"
			}
			if mn > mx || int(mn) > size {
				branch += "+minLen>maxLen"
			}
			c.Hist("rewrite_len_branch", branch)
			seen := map[int]bool{}
			lo, hi := math.MaxInt32, math.MinInt32
			for _, l := range lens {
				seen[l] = true
				if l < lo {
					lo = l
				}
				if l > hi {
					hi = l
				}
			}
			what := fmt.Sprintf("minLen=%d maxLen=%d nonceSize=%d", mn, mx, size)
			c.Eval("rewritelen/"+what, true)
			// model: the clamped range
			m := c.Model.Ask("pat-rewrite-range %d %d %d", mn, mx, size)
			c.Compared()
			if m != fmt.Sprintf("ok %d %d", lo, hi) {
				c.Disagree("C16/corr/nonce-range", fmt.Sprintf("%s: model range %q, %d real draws span %d..%d", what, m, draws, lo, hi), c16tie("rewritelen", what))
			}
			// regenerated function: its image over all draws is exactly the set of lengths the real function returns
			if c.Gen != nil {
				img := map[int]bool{}
				for d := 0; d <= 64; d++ {
					g := c.Gen.Ask("pg-nonceRewriteLen %d %d %d %d", mn, mx, size, d)
					var v int
					if _, err := fmt.Sscanf(g, "ok %d", &v); err != nil {
						c.Disagree("C16/corr/gen-nonceRewriteLen", fmt.Sprintf("%s draw %d: reply %q", what, d, g), c16tie("rewritelen", what))
						break
					}
					img[v] = true
				}
				c.Compared()
				if fmt.Sprint(c16Keys(img)) != fmt.Sprint(c16Keys(seen)) {
					c.Disagree("C16/corr/gen-nonceRewriteLen", fmt.Sprintf("%s: regenerated image %v, real lengths %v", what, c16Keys(img), c16Keys(seen)), c16tie("rewritelen", what))
				}
			}
			// direct oracle for patterns Validate accepts: the length is in [minLen, maxLen] and every length occurs
			if mn >= 0 && mn <= mx && mx <= 12 {
				if lo < int(mn) || hi > int(mx) {
					c.Violate("C16/nonce/rewrite-len-outside-range", fmt.Sprintf("%s: real rewrite lengths span %d..%d", what, lo, hi), c16tie("rewritelen", what))
				}
				if len(seen) != int(mx-mn)+1 {
					c.Violate("C16/nonce/rewrite-len-not-all-used", fmt.Sprintf("%s: only %v of the range are ever used over %d draws", what, c16Keys(seen), draws), c16tie("rewritelen", what))
				}
			}
		}
	}
}

func c16Keys(m map[int]bool) []int {
	var r []int
	for k := range m {
		r = append(r, k)
	}
	sort.Ints(r)
	return r
}

// ---- newNonceTo (hook): decision function ------------------------------------------------------

var c16FixedPrefix = []byte{0x16, 0x03, 0x01, 0xfe, 0xed, 0xfa, 0xce, 0xca, 0xfe, 0xbe, 0xef, 0x99}

func c16TieNewNonce(c *core.Ctx) {
	for _, patNil := range []bool{true, false} {
		for _, implicit := range []bool{false, true} {
			for _, applied := range []bool{false, true} {
				for _, all := range []bool{false, true} {
					for _, ty := range []int32{0, 1, 2, 3, 4, -1} {
						var np *appctlpb.NoncePattern
						pat := "-"
						if !patNil {
							np = &appctlpb.NoncePattern{Type: appctlpb.NonceType(ty).Enum(), ApplyToAllUDPPacket: c16pb(all), MinLen: c16p32(12), MaxLen: c16p32(12),
								CustomHexStrings: []string{hex.EncodeToString(c16FixedPrefix)}}
							pat = fmt.Sprintf("%d:%s", ty, c16b01(all))
						} else if all || ty != 0 {
							continue
						}
						nonce, after, err := cipher.VerifNewNonceTo(np, implicit, applied)
						what := fmt.Sprintf("pattern=%s implicit=%v applied=%v", pat, implicit, applied)
						c.Eval("newnonce/"+what, true)
						if err != nil {
							c.Violate("C16/nonce/newNonceTo-error", what+": "+err.Error(), c16tie("newnonce", what))
							continue
						}
						m := c.Model.Ask("pw-nonce-step %s %s %s", pat, c16b01(!implicit), c16b01(applied))
						c.Compared()
						var reached, mApplied int
						var action string
						if _, err := fmt.Sscanf(m, "ok %d %s %d", &reached, &action, &mApplied); err != nil {
							c.Disagree("C16/corr/nonce-step", what+": model reply "+m, c16tie("newnonce", what))
							continue
						}
						c.Hist("nonce_step", fmt.Sprintf("reached=%d action=%s", reached, action))
						if (mApplied == 1) != after {
							c.Disagree("C16/corr/nonce-step", fmt.Sprintf("%s: noncePatternApplied afterwards: model %d impl %v", what, mApplied, after), c16tie("newnonce", what))
						}
						if g, ok := c16GenAsk(c, "pg-newNonceTo %s %s %s %s %d", c16b01(patNil), c16b01(implicit), c16b01(applied), c16b01(all), ty); ok {
							c.Compared()
							f := strings.Fields(g)
							if len(f) != 3 || f[0] != "ok" || (f[1] == "1") != after {
								c.Disagree("C16/corr/gen-newNonceTo", fmt.Sprintf("%s: regenerated %q, impl applied=%v", what, g, after), c16tie("newnonce", what))
							}
						}
						// what the nonce looks like: the model's action is a promise about the first 12 bytes
						switch action {
						case "printable":
							if c16ClassPrefixLen(1, nonce) < 12 {
								c.Violate("C16/nonce/prefix-not-in-class/type=1", fmt.Sprintf("%s: nonce %x", what, nonce), c16tie("newnonce", what))
							}
						case "subset":
							if c16ClassPrefixLen(2, nonce) < 12 {
								c.Violate("C16/nonce/prefix-not-in-class/type=2", fmt.Sprintf("%s: nonce %x", what, nonce), c16tie("newnonce", what))
							}
						case "fixed":
							if !bytes.HasPrefix(nonce, c16FixedPrefix) {
								c.Violate("C16/nonce/fixed-prefix-missing", fmt.Sprintf("%s: nonce %x", what, nonce), c16tie("newnonce", what))
							}
						case "none":
							// a 12-byte fixed prefix on an untouched random nonce has probability 2^-96
							if !patNil && ty == 3 && bytes.HasPrefix(nonce, c16FixedPrefix) {
								c.Violate("C16/nonce/applied-to-later-udp-packets", fmt.Sprintf("%s: the pattern was applied although the model says it is skipped (nonce %x)", what, nonce), c16tie("newnonce", what))
							}
						}
						if patNil && after != applied {
							c.Violate("C16/nonce/nil-pattern-changes-flag", what, c16tie("newnonce", what))
						}
					}
				}
			}
		}
	}
}

// ---- Validate: the regenerated validators vs the real error ------------------------------------

func c16ErrOrdinal(enum string, table map[string]int) string {
	if enum == "ok" {
		return "ok nil"
	}
	if k, ok := table[enum]; ok {
		return fmt.Sprintf("ok err%d", k)
	}
	return "unexpected " + enum
}

func c16TieValidate(c *core.Ctx) {
	if c.Gen == nil {
		c.Note("mieru-gen not available: the regenerated validators were not compared")
		return
	}
	opt := []*int32{nil, c16p32(math.MinInt32), c16p32(-1), c16p32(0), c16p32(1), c16p32(11), c16p32(12), c16p32(13), c16p32(100), c16p32(101), c16p32(254), c16p32(255), c16p32(256), c16p32(math.MaxInt32)}
	// tcp
	for _, nilMsg := range []bool{true, false} {
		for _, v := range opt {
			tp := &appctlpb.TrafficPattern{}
			if !nilMsg {
				tp.TcpFragment = &appctlpb.TCPFragment{MaxSleepMs: v}
			} else if v != nil {
				continue
			}
			want := c16ErrOrdinal(c16ErrEnum(trafficpattern.Validate(tp)), map[string]int{"tcp-sleep-negative": 0, "tcp-sleep-too-big": 1})
			g := c.Gen.Ask("pg-validateTcp %s %s", c16b01(nilMsg), c16oi(v))
			c.Compared()
			c.Eval(fmt.Sprintf("validate/tcp/%v/%s", nilMsg, c16oi(v)), true)
			if g != want {
				c.Disagree("C16/corr/gen-validateTCPFragment", fmt.Sprintf("nil=%v maxSleepMs=%s: regenerated %q impl %q", nilMsg, c16oi(v), g, want), c16tie("validate", ""))
			}
		}
	}
	// padding
	for _, nilMsg := range []bool{true, false} {
		for _, a := range opt {
			for _, b := range opt {
				tp := &appctlpb.TrafficPattern{}
				if !nilMsg {
					tp.Padding = &appctlpb.PaddingPattern{MaxMiddlePaddingLen: a, MaxEndPaddingLen: b}
				} else if a != nil || b != nil {
					continue
				}
				want := c16ErrOrdinal(c16ErrEnum(trafficpattern.Validate(tp)), map[string]int{"pad-middle-negative": 0, "pad-middle-too-big": 1, "pad-end-negative": 2, "pad-end-too-big": 3})
				g := c.Gen.Ask("pg-validatePadding %s %s %s", c16b01(nilMsg), c16oi(a), c16oi(b))
				c.Compared()
				c.Eval(fmt.Sprintf("validate/pad/%v/%s/%s", nilMsg, c16oi(a), c16oi(b)), true)
				if g != want {
					c.Disagree("C16/corr/gen-validatePaddingPattern", fmt.Sprintf("nil=%v mid=%s end=%s: regenerated %q impl %q", nilMsg, c16oi(a), c16oi(b), g, want), c16tie("validate", ""))
				}
			}
		}
	}
	// nonce integers (no hex strings: the integer part is the whole function then)
	for _, nilMsg := range []bool{true, false} {
		for _, a := range opt {
			for _, b := range opt {
				tp := &appctlpb.TrafficPattern{}
				if !nilMsg {
					tp.Nonce = &appctlpb.NoncePattern{MinLen: a, MaxLen: b}
				} else if a != nil || b != nil {
					continue
				}
				want := c16ErrOrdinal(c16ErrEnum(trafficpattern.Validate(tp)), map[string]int{"nonce-min-negative": 0, "nonce-min-too-big": 1, "nonce-max-negative": 2, "nonce-max-too-big": 3, "nonce-min-gt-max": 4})
				g := c.Gen.Ask("pg-validateNonceInts %s %s %s", c16b01(nilMsg), c16oi(a), c16oi(b))
				c.Compared()
				c.Eval(fmt.Sprintf("validate/nonce/%v/%s/%s", nilMsg, c16oi(a), c16oi(b)), true)
				if g != want {
					c.Disagree("C16/corr/gen-validateNoncePattern", fmt.Sprintf("nil=%v minLen=%s maxLen=%s: regenerated %q impl %q", nilMsg, c16oi(a), c16oi(b), g, want), c16tie("validate", ""))
				}
			}
		}
	}
	// constants and hints the facts mention
	set := make([]string, len(common.Common64Set))
	for i := range set {
		set[i] = fmt.Sprint(common.Common64Set[i])
	}
	if g := c.Gen.Ask("pg-ascii"); g != fmt.Sprintf("ok %d %d %s", common.PrintableCharSub, common.PrintableCharSup, strings.Join(set, ",")) {
		c.Disagree("C16/corr/gen-ascii", "regenerated "+g, c16tie("validate", ""))
	}
	c.Compared()
	g := c.Gen.Ask("pg-hints")
	seenHint := map[string]bool{}
	for _, h := range strings.Split(strings.TrimPrefix(g, "ok "), ",") {
		seenHint[strings.TrimPrefix(h, "%d:")] = true
	}
	for _, n := range c16HintNames {
		if !seenHint[n] {
			c.Disagree("C16/corr/gen-hints", fmt.Sprintf("hint %q is not among the regenerated call sites %q", n, g), c16tie("validate", ""))
		}
	}
	if len(seenHint) != len(c16HintNames) {
		c.Disagree("C16/corr/gen-hints", fmt.Sprintf("regenerated call sites use %d hint names, the model %d", len(seenHint), len(c16HintNames)), c16tie("validate", ""))
	}
	c.Compared()
	if pr := c.Model.Ask("pw-protocols"); c.Gen != nil {
		want := fmt.Sprintf("ok %s %s %s %s", c16GenInt(c, "pg-dataProtocol 1 0"), c16GenInt(c, "pg-dataProtocol 0 0"), c16GenInt(c, "pg-dataProtocol 1 1"), c16GenInt(c, "pg-dataProtocol 0 1"))
		consts := protocol.VerifConsts()
		real := fmt.Sprintf("ok %d %d %d %d", consts["dataClientToServer"], consts["dataServerToClient"], consts["dataClientToServerLowEntropy"], consts["dataServerToClientLowEntropy"])
		c.Compared()
		if pr != want || pr != real {
			c.Disagree("C16/corr/data-protocol-numbers", fmt.Sprintf("model %q regenerated %q compiled constants %q", pr, want, real), c16tie("validate", ""))
		}
	}
}

func c16GenInt(c *core.Ctx, req string) string {
	return strings.TrimPrefix(c.Gen.Ask("%s", req), "ok ")
}

// ---- byte classes ---------------------------------------------------------------------------

func c16TieClasses(c *core.Ctx) {
	all := make([]byte, 256)
	for i := range all {
		all[i] = byte(i)
	}
	vectors := [][]byte{all, {}, {0x00}, {0x7f}, {0x80}, {0xff}, {0x1f, 0x20, 0x7e, 0x7f, 0x9f, 0xa0, 0xfe, 0xff}}
	for i := 0; i < c.N(40, 400); i++ {
		v := make([]byte, 1+c.Rand.Intn(48))
		c.Rand.Read(v)
		vectors = append(vectors, v)
	}
	for _, v := range vectors {
		c.Eval(fmt.Sprintf("class/%x", v), true)
		// ToCommon64Set
		got := append([]byte{}, v...)
		common.ToCommon64Set(got, 0, len(got))
		m := c.Model.Ask("pw-common64 %s", core.Hex(v))
		c.Compared()
		if m != "ok "+core.Hex(got) {
			c.Disagree("C16/corr/common64", fmt.Sprintf("ToCommon64Set(%x): model %q impl %x", v, m, got), c16tie("classes", ""))
		}
		for _, b := range got {
			if strings.IndexByte(common.Common64Set, b) < 0 {
				c.Violate("C16/nonce/prefix-not-in-class/type=2", fmt.Sprintf("ToCommon64Set(%x) produced byte %#x outside Common64Set", v, b), c16tie("classes", ""))
			}
		}
		// ToPrintableChar: the deterministic positions exactly, the drawn ones in class
		got = append([]byte{}, v...)
		common.ToPrintableChar(got, 0, len(got))
		m = c.Model.Ask("pw-printable %s -", core.Hex(v))
		c.Compared()
		f := strings.Fields(m)
		if len(f) != 3 || f[0] != "ok" {
			c.Disagree("C16/corr/printable", "model reply "+m, c16tie("classes", ""))
			continue
		}
		mb := core.UnHex(f[1])
		mask := f[2]
		if len(v) == 0 {
			mask = ""
		}
		if len(mb) != len(got) || len(mask) != len(got) {
			c.Disagree("C16/corr/printable", fmt.Sprintf("ToPrintableChar(%x): model %q impl %x", v, m, got), c16tie("classes", ""))
			continue
		}
		for i := range got {
			if got[i] < common.PrintableCharSub || got[i] > common.PrintableCharSup {
				c.Violate("C16/nonce/prefix-not-in-class/type=1", fmt.Sprintf("ToPrintableChar(%x) left byte %d = %#x", v, i, got[i]), c16tie("classes", ""))
			}
			if mask[i] == '0' && mb[i] != got[i] {
				c.Disagree("C16/corr/printable", fmt.Sprintf("ToPrintableChar(%x): byte %d is %#x, the model's deterministic value is %#x", v, i, got[i], mb[i]), c16tie("classes", ""))
			}
		}
		// partial ranges: bytes outside [0,n) are untouched (model: rewriteNonce)
		if len(v) >= 2 {
			n := c.Rand.Intn(len(v) + 1)
			got = append([]byte{}, v...)
			common.ToCommon64Set(got, 0, n)
			m = c.Model.Ask("pw-rewrite subset %s %d nil", core.Hex(v), n)
			c.Compared()
			if m != "ok "+core.Hex(got) {
				c.Disagree("C16/corr/rewrite-subset", fmt.Sprintf("ToCommon64Set(%x,0,%d): model %q impl %x", v, n, m, got), c16tie("classes", ""))
			}
			got = append([]byte{}, v...)
			common.ToPrintableChar(got, 0, n)
			if !bytes.Equal(got[n:], v[n:]) {
				c.Violate("C16/nonce/rewrite-touches-bytes-beyond-length", fmt.Sprintf("ToPrintableChar(%x,0,%d) = %x", v, n, got), c16tie("classes", ""))
			}
		}
	}
	// FIXED: the copy of min(len(prefix), NonceSize) bytes — observed through the hook, restated by the model
	for _, pre := range [][]byte{{}, {0xaa}, c16FixedPrefix[:4], c16FixedPrefix, bytes.Repeat([]byte{0x5a}, 24), bytes.Repeat([]byte{0xa5}, 30)} {
		np := &appctlpb.NoncePattern{Type: appctlpb.NonceType_NONCE_TYPE_FIXED.Enum(), CustomHexStrings: []string{hex.EncodeToString(pre)}}
		nonce, _, err := cipher.VerifNewNonceTo(np, false, false)
		if err != nil {
			c.Violate("C16/nonce/newNonceTo-error", err.Error(), c16tie("classes", ""))
			continue
		}
		c.Hist("fixed_prefix_len", fmt.Sprint(len(pre)))
		m := c.Model.Ask("pw-rewrite fixed %s 0 %s", core.Hex(nonce), core.Hex(pre))
		c.Compared()
		if m != "ok "+core.Hex(nonce) { // applying the copy to the result must change nothing
			c.Disagree("C16/corr/rewrite-fixed", fmt.Sprintf("prefix %x: real nonce %x, the model's copy gives %q", pre, nonce, m), c16tie("classes", ""))
		}
		k := len(pre)
		if k > len(nonce) {
			k = len(nonce)
		}
		if len(nonce) != 24 || !bytes.Equal(nonce[:k], pre[:k]) {
			c.Violate("C16/nonce/fixed-prefix-missing", fmt.Sprintf("prefix %x: nonce %x", pre, nonce), c16tie("classes", ""))
		}
	}
}

// ---- Encrypt on cipher objects ---------------------------------------------------------------

// c16Enc runs one Encrypt and reports whether a nonce was sent and whether it carries the fixed prefix.
func c16Enc(block cipher.BlockCipher) (sent, patterned bool, err error) {
	pt := []byte("c16")
	dst := make([]byte, 0, 24+len(pt)+16)
	if err := block.Encrypt(dst, pt); err != nil {
		return false, false, err
	}
	// Encrypt appends to dst; its length is not visible, the capacity is: look for the nonce by size
	full := dst[:cap(dst)]
	// with a nonce the output is 24+3+16 bytes, without 3+16 (the remaining bytes stay zero)
	sent = !bytes.Equal(full[3+16:], make([]byte, 24))
	patterned = sent && bytes.HasPrefix(full, c16FixedPrefix)
	return sent, patterned, nil
}

func c16Bits(b []bool) string {
	if len(b) == 0 {
		return "-"
	}
	var sb strings.Builder
	for _, x := range b {
		sb.WriteString(c16b01(x))
	}
	return sb.String()
}

func c16TieEncrypt(c *core.Ctx) {
	fixed := func(all bool) *appctlpb.NoncePattern {
		return &appctlpb.NoncePattern{Type: appctlpb.NonceType_NONCE_TYPE_FIXED.Enum(), ApplyToAllUDPPacket: c16pb(all), CustomHexStrings: []string{hex.EncodeToString(c16FixedPrefix)}}
	}
	type pc struct {
		name string
		np   *appctlpb.NoncePattern
	}
	pats := []pc{{"-", nil}, {"3:0", fixed(false)}, {"3:1", fixed(true)}}
	newBlock := func(stateless bool, np *appctlpb.NoncePattern) cipher.BlockCipher {
		b, err := cipher.BlockCipherFromPassword(c16Password, stateless)
		if err != nil {
			panic(err)
		}
		if np != nil {
			b.SetNoncePattern(np)
		}
		return b
	}
	for _, p := range pats {
		for _, stateless := range []bool{true, false} {
			for _, n := range []int{0, 1, 2, 7} {
				b := newBlock(stateless, p.np)
				var sent, pat []bool
				for i := 0; i < n; i++ {
					s, q, err := c16Enc(b)
					if err != nil {
						c.Violate("C16/nonce/encrypt-error", err.Error(), c16tie("encrypt", ""))
						return
					}
					sent, pat = append(sent, s), append(pat, q)
				}
				m := c.Model.Ask("pw-enc-trace %s %s %d", p.name, c16b01(!stateless), n)
				c.Compared()
				c.Eval(fmt.Sprintf("enc/%s/%v/%d", p.name, stateless, n), true)
				if got := fmt.Sprintf("ok %s %s", c16Bits(sent), c16Bits(pat)); m != got {
					c.Disagree("C16/corr/encrypt-trace", fmt.Sprintf("pattern %s stateless=%v n=%d: model %q impl %q", p.name, stateless, n, m, got), c16tie("encrypt", ""))
				}
				// direct oracle: UDP once-only / every packet; TCP only the first nonce on the wire
				for i := range pat {
					want := p.np != nil && (i == 0 || stateless && p.np.GetApplyToAllUDPPacket())
					if stateless && pat[i] != want {
						key := "C16/nonce/applied-to-later-udp-packets"
						if want {
							key = "C16/nonce/fixed-prefix-missing"
						}
						c.Violate(key, fmt.Sprintf("pattern %s, UDP cipher object, Encrypt #%d: pattern applied=%v, want %v", p.name, i, pat[i], want), c16tie("encrypt", ""))
					}
					if !stateless && (sent[i] != (i == 0) || pat[i] != want) {
						c.Violate("C16/nonce/tcp-nonce-emission", fmt.Sprintf("pattern %s, TCP cipher object, Encrypt #%d: nonce sent=%v patterned=%v", p.name, i, sent[i], pat[i]), c16tie("encrypt", ""))
					}
				}
			}
		}
		// several stateless cipher objects on one socket, clones included (Clone does not copy noncePatternApplied)
		for round := 0; round < c.N(6, 60); round++ {
			blocks := map[int]cipher.BlockCipher{}
			var ids []int
			var flags []bool
			next := 3
			for i := 0; i < 14; i++ {
				id := c.Rand.Intn(3)
				if i > 4 && c.Rand.Intn(4) == 0 && len(ids) > 0 { // a clone of an object already used is a NEW object
					src := ids[c.Rand.Intn(len(ids))]
					blocks[next] = blocks[src].Clone()
					id = next
					next++
				}
				if blocks[id] == nil {
					blocks[id] = newBlock(true, p.np)
				}
				_, q, err := c16Enc(blocks[id])
				if err != nil {
					c.Violate("C16/nonce/encrypt-error", err.Error(), c16tie("encrypt", ""))
					return
				}
				ids, flags = append(ids, id), append(flags, q)
			}
			idS := make([]string, len(ids))
			for i, id := range ids {
				idS[i] = fmt.Sprint(id)
			}
			m := c.Model.Ask("pw-wire-flags %s %s", p.name, strings.Join(idS, ","))
			c.Compared()
			c.Eval(fmt.Sprintf("wireflags/%s/%v", p.name, ids), true)
			if m != "ok "+c16Bits(flags) {
				c.Disagree("C16/corr/wire-flags", fmt.Sprintf("pattern %s objects %v: model %q impl %q", p.name, ids, m, c16Bits(flags)), c16tie("encrypt", ""))
			}
		}
	}
	if m := c.Model.Ask("pw-clone-applied 1"); m != "ok 0" {
		c.Disagree("C16/corr/clone", "model: a clone keeps noncePatternApplied: "+m, c16tie("encrypt", ""))
	}
}

// ---- TCP fragmentation ---------------------------------------------------------------------

func c16TieFragment(c *core.Ctx) {
	sizes := []int{0, 1, 2, 3, 4, 5, 8, 9, 15, 16, 17, 24, 25, 99, 100, 101, 1500, 4096, 40000}
	type cfg struct {
		name            string
		tp              *appctlpb.TrafficPattern
		tpNil, fragNil  bool
		enable, disable bool
	}
	cfgs := []cfg{
		{"nil-pattern", nil, true, true, false, true},
		{"nil-tcpFragment", &appctlpb.TrafficPattern{}, false, true, false, true},
		{"enable-unset", &appctlpb.TrafficPattern{TcpFragment: &appctlpb.TCPFragment{}}, false, false, false, true},
		{"enable-false", &appctlpb.TrafficPattern{TcpFragment: &appctlpb.TCPFragment{Enable: c16pb(false), MaxSleepMs: c16p32(100)}}, false, false, false, true},
		{"enable-true", &appctlpb.TrafficPattern{TcpFragment: &appctlpb.TCPFragment{Enable: c16pb(true), MaxSleepMs: c16p32(0)}}, false, false, true, false},
	}
	for _, k := range cfgs {
		if g, ok := c16GenAsk(c, "pg-fragmentDisabled %s %s %s", c16b01(k.tpNil), c16b01(k.fragNil), c16b01(k.enable)); ok {
			c.Compared()
			if g != "ok "+c16b01(k.disable) {
				c.Disagree("C16/corr/gen-fragmentDisabled", fmt.Sprintf("%s: regenerated %q, expected disabled=%v", k.name, g, k.disable), c16tie("fragment", k.name))
			}
		}
		for _, size := range sizes {
			reps := 1
			if !k.disable {
				reps = c.N(4, 40)
			}
			for r := 0; r < reps; r++ {
				data := make([]byte, size)
				c.Rand.Read(data)
				rec := &c16RecConn{}
				if err := protocol.VerifWriteWithPossibleFragment(rec, k.tp, data); err != nil {
					c.Violate("C16/tcp-fragment/write-failed", err.Error(), c16tie("fragment", k.name))
					continue
				}
				var all []byte
				ws := make([]string, len(rec.writes))
				for i, w := range rec.writes {
					all = append(all, w...)
					ws[i] = fmt.Sprint(len(w))
				}
				wss := strings.Join(ws, ",")
				if wss == "" {
					wss = "-"
				}
				c.Eval(fmt.Sprintf("frag/%s/%d/%s", k.name, size, wss), true)
				c.Hist("tcp_fragment_tie", fmt.Sprintf("%s size=%s", k.name, core.SizeBucket(size)))
				if !bytes.Equal(all, data) {
					c.Violate("C16/tcp-fragment/content-changed", fmt.Sprintf("%s size %d: writes %s", k.name, size, wss), c16tie("fragment", k.name))
				}
				m := c.Model.Ask("pw-frag-ok %s %d %s", c16b01(k.disable), size, wss)
				c.Compared()
				if m != "ok true" {
					c.Disagree("C16/corr/fragment-writes", fmt.Sprintf("%s size %d: the model cannot produce the write sizes %s (%s)", k.name, size, wss, m), c16tie("fragment", k.name))
				}
				if k.disable && len(rec.writes) != 1 {
					c.Violate("C16/tcp-fragment/fragmented-when-disabled", fmt.Sprintf("%s size %d: %d writes", k.name, size, len(rec.writes)), c16tie("fragment", k.name))
				}
				// the regenerated arithmetic: each write lies between the lengths of the extreme draws
				if c.Gen != nil && !k.disable {
					sq := int(math.Sqrt(float64(size)))
					rem := size
					for _, w := range rec.writes {
						span := sq + 1
						if size/2 > span {
							span = size / 2
						}
						span -= sq + 1
						lo, _ := strconv.Atoi(c16GenInt(c, fmt.Sprintf("pg-fragmentLen %d %d %d 0", size, rem, sq)))
						hi, _ := strconv.Atoi(c16GenInt(c, fmt.Sprintf("pg-fragmentLen %d %d %d %d", size, rem, sq, span)))
						ml := c.Model.Ask("pw-frag-len %d %d %d %d", size, rem, sq, span)
						c.Compared()
						if len(w) < lo || len(w) > hi || ml != fmt.Sprintf("ok %d", hi) {
							c.Disagree("C16/corr/gen-fragmentLen", fmt.Sprintf("size %d remaining %d: write of %d bytes, regenerated range %d..%d, model max %s", size, rem, len(w), lo, hi, ml), c16tie("fragment", k.name))
						}
						rem -= len(w)
					}
				}
			}
		}
	}
}

// ---- emitted padding (observed only) ---------------------------------------------------------

func c16TiePadding(c *core.Ctx) {
	existing := make([]byte, 64)
	for _, maxLen := range []int{0, 1, 2, 7, 23, 24, 40, 41, 100, 254, 255} {
		for r := 0; r < c.N(8, 80); r++ {
			c.Rand.Read(existing)
			var outs [][]byte
			var kinds []string
			outs, kinds = append(outs, protocol.VerifNewPadding(maxLen, 0, 0, nil, 0)), append(kinds, "ascii/min=0") // data segments
			if maxLen >= 1 {
				outs, kinds = append(outs, protocol.VerifNewPadding(maxLen, 0, maxLen/2, nil, 0)), append(kinds, "ascii/min=half")
			}
			outs, kinds = append(outs, protocol.VerifNewPadding(maxLen, 1, 0, existing, 0.325)), append(kinds, "entropy")
			outs, kinds = append(outs, protocol.VerifRecommendedPadding(maxLen, 88+r, fmt.Sprintf("user-%d", r)), protocol.VerifRecommendedPadding(maxLen, 88+r, fmt.Sprintf("u%d", r*7))), append(kinds, "recommended", "recommended")
			for i, p := range outs {
				c.Eval(fmt.Sprintf("padding/%d/%s/%d", maxLen, kinds[i], len(p)), true)
				c.Hist("emitted_padding", fmt.Sprintf("maxLen=%d", maxLen))
				if len(p) > maxLen {
					c.Violate("C16/padding-emitted-above-budget", fmt.Sprintf("newPadding(%s, maxLen=%d) returned %d bytes", kinds[i], maxLen, len(p)), c16tie("padding", ""))
				}
			}
		}
	}
}

func c16RunTie(c *core.Ctx, kind string) {
	defer func() {
		if r := recover(); r != nil {
			c.Violate("C16/tie-stage-panic/"+kind, fmt.Sprintf("the real code panicked in the %s comparison: %v", kind, r), c16tie(kind, ""))
		}
	}()
	switch kind {
	case "fixedint":
		c16TieFixedInt(c)
	case "rewritelen":
		c16TieRewriteLen(c)
	case "newnonce":
		c16TieNewNonce(c)
	case "validate":
		c16TieValidate(c)
	case "classes":
		c16TieClasses(c)
	case "encrypt":
		c16TieEncrypt(c)
	case "fragment":
		c16TieFragment(c)
	case "padding":
		c16TiePadding(c)
	}
}

var c16TieKinds = []string{"fixedint", "rewritelen", "newnonce", "validate", "classes", "encrypt", "fragment", "padding"}

func init() {
	core.RegisterExtra("C16", func(c *core.Ctx) {
		c.Correspondence("pat-fixedint: pkg/rng FixedInt vs Mieru.FixedInt (SHA-256 model), n incl. ≤ 0 and 2^31, 2^40, hint lengths at the SHA padding boundaries, the ten real hints for many seeds")
		c.Correspondence("pg-nonceRewriteLen / pat-rewrite-range: aeadBlockCipher.nonceRewriteLen (hook, 3000 draws per pattern, both clamp branches) vs the regenerated function's image and the model's range")
		c.Correspondence("pg-newNonceTo / pw-nonce-step: aeadBlockCipher.newNonceTo (hook) flag and rewrite class vs the regenerated decision function and Pattern.newNonceStep, nil pattern included")
		c.Correspondence("pg-validate*: apis/trafficpattern Validate error sites vs the regenerated validators")
		c.Correspondence("pw-common64 / pw-printable / pw-rewrite: pkg/common ToCommon64Set, ToPrintableChar and the FIXED copy vs Mieru.PatternWire byte functions")
		c.Correspondence("pw-enc-trace / pw-wire-flags: Encrypt on one and on several cipher objects (Clone included) vs PatternWire.encryptN / wireFlags")
		c.Correspondence("pw-frag-ok / pg-fragmentLen / pg-fragmentDisabled: StreamUnderlay.writeWithPossibleFragment write sizes (hook) vs the model's acceptor and the regenerated arithmetic")
		if c.Gen == nil {
			c.Note("mieru-gen is not available: regenerated definitions were not evaluated")
		}
		for _, k := range c16TieKinds {
			c16RunTie(c, k)
		}
	})
	core.RegisterReplay("C16", func(c *core.Ctx, raw json.RawMessage) bool {
		var t c16Tie
		if json.Unmarshal(raw, &t) != nil || t.Stage != "c16tie" {
			return false
		}
		c16RunTie(c, t.Kind)
		return true
	})
}
