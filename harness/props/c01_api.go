package props

import (
	"encoding/json"
	"fmt"
	"math/rand"
	"strings"
	"time"

	"verifharness/core"
	"verifharness/sim"
)

// API stage of C01 / C02: the same delivery oracle observed at the points the properties name —
// the net.Conn returned by apis/client Client.DialContext and by apis/server Server.Accept — in both
// handshake modes (HANDSHAKE_STANDARD: DialContext performs the SOCKS5 exchange; HANDSHAKE_NO_WAIT:
// 0-RTT, the client writes first). The harness plays the proxy application on the server side.

type apiCase struct {
	Seed          int64           `json:"seed"`
	UDP           bool            `json:"udp"`
	NoWait        bool            `json:"no_wait"`
	MTU           int             `json:"mtu"`
	ClientPattern json.RawMessage `json:"client_pattern"`
	ServerPattern json.RawMessage `json:"server_pattern"`
	Multiplex     int             `json:"multiplex"`
	MaxChunk      int             `json:"max_chunk"`
	Scripts       []sim.Script    `json:"scripts"`
	Faults        sim.FaultSpec   `json:"faults"`
	API           bool            `json:"api"`
}

func genAPICase(r *rand.Rand, udp bool) apiCase {
	k := apiCase{API: true, Seed: r.Int63(), UDP: udp, NoWait: r.Intn(2) == 0, MTU: 1400, Multiplex: r.Intn(4), MaxChunk: []int{0, 7, 97, 1400}[r.Intn(4)]}
	k.ClientPattern = patJSON(sim.RandomPattern(r, !udp))
	k.ServerPattern = patJSON(sim.RandomPattern(r, !udp))
	if udp {
		k.MTU = udpMTUs[r.Intn(len(udpMTUs))]
		k.Faults = sim.FaultSpec{Seed: r.Int63(), Loss: []float64{0, 0.02, 0.08}[r.Intn(3)], Reorder: 0.05, DelayMs: 20}
	}
	ns := 1 + r.Intn(4)
	for i := 0; i < ns; i++ {
		s := sim.Script{MaxRead: []int{13, 1500, 65536}[r.Intn(3)]}
		s.ClientWrites = sim.RandomWrites(r, 5, 120000/ns)
		s.ServerWrites = sim.RandomWrites(r, 5, 120000/ns)
		if k.NoWait && (len(s.ClientWrites) == 0 || s.ClientWrites[0] == 0) {
			// 0-RTT mode is documented to require the client to write first
			s.ClientWrites = append([]int{1 + r.Intn(2000)}, s.ClientWrites...)
		}
		k.Scripts = append(k.Scripts, s)
	}
	return k
}

func apiRun(c *core.Ctx, k apiCase, prop string) {
	key, _ := json.Marshal(k)
	cfg := sim.Config{UDP: k.UDP, MTU: k.MTU, Seed: k.Seed, Multiplex: k.Multiplex, MaxChunk: k.MaxChunk,
		ClientPattern: patFromJSON(k.ClientPattern), ServerPattern: patFromJSON(k.ServerPattern)}
	w, err := sim.NewAPIWorld(cfg, k.NoWait)
	if err != nil {
		c.Eval(string(key), false)
		c.Violate(prop+"/api/setup", "valid configuration rejected by the client/server API: "+err.Error(), k)
		return
	}
	defer bgClose.Go(w.Close)
	if k.UDP {
		w.Net.Plan = k.Faults.Plan("10.8.0.1:8964")
	}
	t0 := time.Now().Add(-time.Second)
	tr := sim.RunTransfer(w, k.Scripts, k.Seed, 120*time.Second)
	if tr.Stalled {
		w2, err := sim.NewAPIWorld(cfg, k.NoWait)
		if err == nil {
			if k.UDP {
				w2.Net.Plan = k.Faults.Plan("10.8.0.1:8964")
			}
			tr2 := sim.RunTransfer(w2, k.Scripts, k.Seed, 120*time.Second)
			bgClose.Go(w2.Close)
			if !tr2.Stalled {
				c.Note("API case stalled once and completed on re-run (not reported): seed %d", k.Seed)
				tr = tr2
			}
		}
	}
	c.Eval(string(key), true)
	c.Res.TracesValidated++
	mode := "standard"
	if k.NoWait {
		mode = "no-wait"
	}
	c.Hist("api_stage", fmt.Sprintf("%s/%s", map[bool]string{true: "udp", false: "tcp"}[k.UDP], mode))
	if prop != "C13" {
		for _, f := range tr.Check(k.Scripts) {
			kind := "delivery"
			if tr.Stalled {
				kind = "stall"
			}
			c.Violate(fmt.Sprintf("%s/api/%s/%s", prop, mode, kind), f, k)
		}
	}
	if k.UDP {
		// wire audit of the API-level run (the server application speaks right after Accept here)
		view := &sim.World{Cfg: w.Cfg, Net: w.Net, Start: t0}
		a := view.AuditUDP()
		if prop == "C13" {
			for _, x := range a.AckAhead {
				c.Violate("C13/ack-ahead-of-receipt", x, k)
			}
			for _, x := range a.ContentDrift {
				c.Violate("C13/retransmission-changed-content", x, k)
			}
			for _, x := range a.SeqGaps {
				c.Violate("C13/sequence-numbers-not-consecutive", x, k)
			}
		}
		for name, h := range a.Histories {
			c.Compared()
			if reply := c.Model.Ask("arq-run %s", strings.Join(h, " ")); !strings.HasPrefix(reply, "ok ") {
				c.Disagree(prop+"/corr/arq-acceptor", fmt.Sprintf("history of %s (API stage) rejected by the model: %s", name, reply), k)
			}
		}
	}
}

func init() {
	reg := func(prop string, udp bool) {
		core.RegisterExtra(prop, func(c *core.Ctx) {
			if !stageOn("api") { // development switch (VH_ONLY), see c02_flow.go
				return
			}
			c.Correspondence("API stage: delivery oracle at apis/client DialContext / apis/server Accept conns in HANDSHAKE_STANDARD and HANDSHAKE_NO_WAIT")
			n := c.N(10, 120)
			cases := make([]apiCase, n)
			for i := range cases {
				cases[i] = genAPICase(c.Rand, udp)
			}
			if prop == "C13" {
				// many short sessions whose server application speaks the instant Accept returns
				// (the SOCKS5 reply): the open response and the first data segment are numbered
				// concurrently
				k := genAPICase(c.Rand, true)
				k.NoWait, k.Faults, k.Multiplex = false, sim.FaultSpec{Seed: 1}, 3
				k.Scripts = nil
				for j := 0; j < 60; j++ {
					k.Scripts = append(k.Scripts, sim.Script{ClientWrites: []int{10}, ServerWrites: []int{200, 10}, MaxRead: 1500})
				}
				cases = append(cases, k)
				n = len(cases)
			}
			core.Parallel(n, 8, func(i int) { apiRun(c, cases[i], prop) })
			bgClose.Wait(30 * time.Second)
		})
		core.RegisterReplay(prop, func(c *core.Ctx, raw json.RawMessage) bool {
			var k apiCase
			if json.Unmarshal(raw, &k) != nil || !k.API {
				return false
			}
			apiRun(c, k, prop)
			bgClose.Wait(30 * time.Second)
			return true
		})
	}
	reg("C01", false)
	reg("C02", true)
	reg("C13", true)
}
