package props

import (
	"bytes"
	"encoding/base64"
	"encoding/hex"
	"encoding/json"
	"fmt"
	"os"
	"path/filepath"
	"sort"
	"strings"

	"github.com/enfein/mieru/v3/pkg/appctl"
	"github.com/enfein/mieru/v3/pkg/appctl/appctlcommon"
	pb "github.com/enfein/mieru/v3/pkg/appctl/appctlpb"
	"github.com/enfein/mieru/v3/pkg/cipher"
	"github.com/enfein/mieru/v3/pkg/common"
	"google.golang.org/protobuf/proto"
	"verifharness/core"
)

// Config files live under the check's work directory; appctl is pointed at them through the
// environment variables its own path functions honour (MITA_CONFIG_FILE / MITA_CONFIG_JSON_FILE,
// MIERU_CONFIG_FILE / MIERU_CONFIG_JSON_FILE).

func c20Dir(c *core.Ctx) string {
	d := filepath.Join(c.WorkDir, "c20")
	if c.WorkDir == "" {
		d = filepath.Join(".", "c20-work")
	}
	os.MkdirAll(d, 0o755)
	return d
}

func c20ServerPath(c *core.Ctx, jsonFile bool) string {
	os.Unsetenv("MITA_CONFIG_FILE")
	os.Unsetenv("MITA_CONFIG_JSON_FILE")
	if jsonFile {
		p := filepath.Join(c20Dir(c), "server.conf.json")
		os.Setenv("MITA_CONFIG_JSON_FILE", p)
		return p
	}
	p := filepath.Join(c20Dir(c), "server.conf.pb")
	os.Setenv("MITA_CONFIG_FILE", p)
	return p
}

func c20ClientPath(c *core.Ctx, jsonFile bool) string {
	os.Unsetenv(appctl.EnvMieruConfigFile)
	os.Unsetenv(appctl.EnvMieruConfigJSONFile)
	if jsonFile {
		p := filepath.Join(c20Dir(c), "client.conf.json")
		os.Setenv(appctl.EnvMieruConfigJSONFile, p)
		return p
	}
	p := filepath.Join(c20Dir(c), "client.conf.pb")
	os.Setenv(appctl.EnvMieruConfigFile, p)
	return p
}

func c20HashHex(pw, name string) string {
	return hex.EncodeToString(cipher.HashPassword([]byte(pw), []byte(name)))
}

// c20ExpectStoredUser is the direct statement of what storing does to a user.
func c20ExpectStoredUser(u *pb.User, keepPlaintext bool) *pb.User {
	if u == nil {
		return nil
	}
	e := proto.Clone(u).(*pb.User)
	if e.GetPassword() != "" {
		e.HashedPassword = proto.String(c20HashHex(e.GetPassword(), e.GetName()))
		if !keepPlaintext {
			e.Password = proto.String("")
		}
	}
	return e
}

// c20JSONStrings returns every string of a JSON text with the escapes undone (so an escaped password is
// still found), or nil if the text is not JSON.
func c20JSONStrings(raw []byte) []byte {
	var decoded []byte
	var v interface{}
	if json.Unmarshal(raw, &v) != nil {
		return nil
	}
	var walk func(x interface{})
	walk = func(x interface{}) {
		switch t := x.(type) {
		case string:
			decoded = append(decoded, 0)
			decoded = append(decoded, t...)
		case []interface{}:
			for _, e := range t {
				walk(e)
			}
		case map[string]interface{}:
			for kk, e := range t {
				decoded = append(decoded, 0)
				decoded = append(decoded, kk...)
				walk(e)
			}
		}
	}
	walk(v)
	return decoded
}

// c20ScanPlaintext looks for the users' plaintext passwords in the bytes of the stored server file.
// A password that legitimately occurs elsewhere in the configuration (it equals a name, a proxy
// credential, …: it is found in the serialisation of the configuration WITHOUT the passwords) says nothing.
func c20ScanPlaintext(c *core.Ctx, k c20Case, raw []byte, orig *pb.ServerConfig, ref *pb.ServerConfig, jsonFile bool) {
	clean := proto.Clone(ref).(*pb.ServerConfig)
	for _, u := range clean.Users {
		if u.GetPassword() != "" {
			u.HashedPassword = proto.String(c20HashHex(u.GetPassword(), u.GetName()))
		}
		u.Password = nil
	}
	var legit []byte
	if jsonFile {
		j, _ := common.MarshalJSON(clean)
		legit = append(j, c20JSONStrings(j)...)
	} else {
		legit = c20Det(clean)
	}
	decoded := c20JSONStrings(raw)
	for _, u := range orig.GetUsers() {
		pw := u.GetPassword()
		if pw == "" {
			continue
		}
		if bytes.Contains(legit, []byte(pw)) {
			c.Hist("plaintext_scan", "uninformative(password occurs elsewhere)")
			continue
		}
		c.Hist("plaintext_scan", "scanned")
		if bytes.Contains(raw, []byte(pw)) || bytes.Contains(decoded, []byte(pw)) {
			c.Violate("C20/server-file-contains-plaintext-password", fmt.Sprintf("the stored server configuration contains the plaintext password of user %q", u.GetName()), k)
		}
	}
}

func c20CheckStoredServerUsers(c *core.Ctx, k c20Case, loaded *pb.ServerConfig) {
	for _, u := range loaded.GetUsers() {
		if u.GetPassword() != "" {
			c.Violate("C20/server-store-keeps-plaintext", fmt.Sprintf("stored user %q still has a plaintext password", u.GetName()), k)
		}
	}
}

func c20ServerStore(c *core.Ctx, k c20Case) {
	raw, _ := base64.StdEncoding.DecodeString(k.PB)
	cfg := &pb.ServerConfig{}
	if proto.Unmarshal(raw, cfg) != nil {
		return
	}
	orig := proto.Clone(cfg).(*pb.ServerConfig)
	path := c20ServerPath(c, k.JSON)
	os.Remove(path)
	var err error
	if c20Guard(c, k, "StoreServerConfig", func() { err = appctl.StoreServerConfig(cfg) }) {
		return
	}
	c.Eval(c20Key(k), err == nil)
	c.Hist("file", fmt.Sprintf("server-store json=%v ok=%v", k.JSON, err == nil))
	if err != nil {
		return
	}
	fileBytes, _ := os.ReadFile(path)
	c20ScanPlaintext(c, k, fileBytes, orig, orig, k.JSON)
	var loaded *pb.ServerConfig
	if c20Guard(c, k, "LoadServerConfig", func() { loaded, err = appctl.LoadServerConfig() }) {
		return
	}
	if err != nil {
		c.Violate("C20/server-store-load/load-fails", fmt.Sprintf("a stored configuration does not load: %v", err), k)
		return
	}
	c20CheckStoredServerUsers(c, k, loaded)
	want := proto.Clone(orig).(*pb.ServerConfig)
	for i, u := range want.Users {
		want.Users[i] = c20ExpectStoredUser(u, false)
	}
	if !proto.Equal(want, loaded) {
		c.Violate("C20/server-store-load/differs", "load(store(cfg)) differs from cfg with the passwords hashed", k)
	}
	m := c.Model.Ask("cfg-store-server %s", c20ServerTokens(orig, true))
	c.Compared()
	if got := "ok " + c20ServerTokens(loaded, false); m != got {
		c.Disagree("C20/corr/store-server", fmt.Sprintf("model %.200s impl %.200s", m, got), k)
	}
	// hashing is idempotent: storing what was loaded changes nothing
	if err := appctl.StoreServerConfig(proto.Clone(loaded).(*pb.ServerConfig)); err == nil {
		if again, err := appctl.LoadServerConfig(); err != nil || !proto.Equal(again, loaded) {
			c.Violate("C20/server-store-not-idempotent", fmt.Sprintf("store(load(store(cfg))) differs (err=%v)", err), k)
		}
	}
}

// c20LastByName mirrors "map from name, later wins".
func c20LastUsers(lists ...[]*pb.User) map[string]*pb.User {
	m := map[string]*pb.User{}
	for _, l := range lists {
		for _, u := range l {
			m[u.GetName()] = u
		}
	}
	return m
}

func c20ServerApply(c *core.Ctx, k c20Case) {
	rawD, _ := base64.StdEncoding.DecodeString(k.PB)
	dst := &pb.ServerConfig{}
	if proto.Unmarshal(rawD, dst) != nil {
		return
	}
	var patchText []byte
	patch := &pb.ServerConfig{}
	if k.Kind == "server-json" {
		patchText = k.text()
	} else {
		rawP, _ := base64.StdEncoding.DecodeString(k.PB2)
		if proto.Unmarshal(rawP, patch) != nil {
			return
		}
		var err error
		if patchText, err = common.MarshalJSON(patch); err != nil {
			return
		}
	}
	path := c20ServerPath(c, k.JSON)
	os.Remove(path)
	if err := appctl.StoreServerConfig(proto.Clone(dst).(*pb.ServerConfig)); err != nil {
		return
	}
	base, err := appctl.LoadServerConfig()
	if err != nil {
		return
	}
	patchFile := filepath.Join(c20Dir(c), "server.patch.json")
	os.WriteFile(patchFile, patchText, 0o644)
	var aerr error
	if c20Guard(c, k, "ApplyJSONServerConfig", func() { aerr = appctl.ApplyJSONServerConfig(patchFile) }) {
		return
	}
	c.Eval(c20Key(k), aerr == nil)
	c.Hist("file", fmt.Sprintf("%s json=%v ok=%v", k.Kind, k.JSON, aerr == nil))
	fileBytes, _ := os.ReadFile(path)
	var after *pb.ServerConfig
	if c20Guard(c, k, "LoadServerConfig", func() { after, err = appctl.LoadServerConfig() }) {
		return
	}
	if err != nil {
		c.Violate("C20/server-apply/config-unloadable", fmt.Sprintf("after ApplyJSONServerConfig (err=%v) the stored configuration does not load: %v", aerr, err), k)
		return
	}
	if aerr != nil {
		if !proto.Equal(after, base) {
			c.Violate("C20/server-apply/rejected-patch-changed-config", fmt.Sprintf("ApplyJSONServerConfig failed (%v) but the stored configuration changed", aerr), k)
		}
		return
	}
	if k.Kind == "server-json" {
		// a mutated text that still parses: recover the patch it denotes
		if common.UnmarshalJSON(patchText, patch) != nil {
			c.Violate("C20/server-apply/accepts-unparsable-json", "ApplyJSONServerConfig accepted a text UnmarshalJSON rejects", k)
			return
		}
	}
	c20CheckStoredServerUsers(c, k, after)
	ref := proto.Clone(after).(*pb.ServerConfig)
	ref.Users = append(append([]*pb.User{}, base.Users...), patch.Users...)
	c20ScanPlaintext(c, k, fileBytes, patch, ref, k.JSON)
	// ---- direct oracle: only what the patch sets changes
	bad := func(field string) {
		key := field
		if i := strings.Index(key, "["); i >= 0 {
			key = key[:i] // the entry's name belongs in the message, not in the finding key
		}
		c.Violate("C20/server-apply/"+key, "after applying the patch, "+field+" is neither the patch's value (if set) nor the previous one", k)
	}
	if len(patch.PortBindings) > 0 {
		if !proto.Equal(&pb.ServerConfig{PortBindings: patch.PortBindings}, &pb.ServerConfig{PortBindings: after.PortBindings}) {
			bad("portBindings")
		}
	} else if !proto.Equal(&pb.ServerConfig{PortBindings: base.PortBindings}, &pb.ServerConfig{PortBindings: after.PortBindings}) {
		bad("portBindings")
	}
	pick := func(p, b proto.Message, pset bool) proto.Message {
		if pset {
			return p
		}
		return b
	}
	if !proto.Equal(pick(patch.AdvancedSettings, base.AdvancedSettings, patch.AdvancedSettings != nil), after.AdvancedSettings) {
		bad("advancedSettings")
	}
	if !proto.Equal(pick(patch.Egress, base.Egress, patch.Egress != nil), after.Egress) {
		bad("egress")
	}
	if !proto.Equal(pick(patch.Dns, base.Dns, patch.Dns != nil), after.Dns) {
		bad("dns")
	}
	if !proto.Equal(pick(patch.TrafficPattern, base.TrafficPattern, patch.TrafficPattern != nil), after.TrafficPattern) {
		bad("trafficPattern")
	}
	if (patch.LoggingLevel != nil && after.GetLoggingLevel() != patch.GetLoggingLevel()) || (patch.LoggingLevel == nil && after.GetLoggingLevel() != base.GetLoggingLevel()) {
		bad("loggingLevel")
	}
	if (patch.Mtu != nil && after.GetMtu() != patch.GetMtu()) || (patch.Mtu == nil && after.GetMtu() != base.GetMtu()) {
		bad("mtu")
	}
	want := c20LastUsers(base.Users, patch.Users)
	names := []string{}
	for _, u := range after.Users {
		names = append(names, u.GetName())
		w, ok := want[u.GetName()]
		if !ok || !proto.Equal(c20ExpectStoredUser(w, false), u) {
			bad("users[" + u.GetName() + "]")
		}
	}
	if len(names) != len(want) || !sort.StringsAreSorted(names) {
		bad("users(set-or-order)")
	}
	// ---- correspondence: merge, then store
	m := c.Model.Ask("cfg-merge-server %s %s", c20ServerTokens(base, false), c20ServerTokens(patch, false))
	c.Compared()
	if !strings.HasPrefix(m, "ok ") {
		c.Disagree("C20/corr/merge-server", "model reply "+m, k)
		return
	}
	// the merged users need their hashes for the store step: rebuild the message the model produced
	merged := proto.Clone(after).(*pb.ServerConfig)
	merged.Users = nil
	for _, n := range names {
		if w, ok := want[n]; ok {
			merged.Users = append(merged.Users, proto.Clone(w).(*pb.User))
		}
	}
	if exp := "ok " + c20ServerTokens(merged, false); m != exp {
		c.Disagree("C20/corr/merge-server", fmt.Sprintf("model %.240s impl-derived %.240s", m, exp), k)
	}
	m2 := c.Model.Ask("cfg-store-server %s", c20ServerTokens(merged, true))
	c.Compared()
	if got := "ok " + c20ServerTokens(after, false); m2 != got {
		c.Disagree("C20/corr/apply-server", fmt.Sprintf("model %.240s impl %.240s", m2, got), k)
	}
}

// ---- client ------------------------------------------------------------------------------------

func c20ClientStore(c *core.Ctx, k c20Case) {
	raw, _ := base64.StdEncoding.DecodeString(k.PB)
	cfg := &pb.ClientConfig{}
	if proto.Unmarshal(raw, cfg) != nil {
		return
	}
	orig := proto.Clone(cfg).(*pb.ClientConfig)
	path := c20ClientPath(c, k.JSON)
	os.Remove(path)
	var err error
	if c20Guard(c, k, "StoreClientConfig", func() { err = appctl.StoreClientConfig(cfg) }) {
		return
	}
	c.Eval(c20Key(k), err == nil)
	c.Hist("file", fmt.Sprintf("client-store json=%v ok=%v", k.JSON, err == nil))
	if err != nil {
		return
	}
	var loaded *pb.ClientConfig
	if c20Guard(c, k, "LoadClientConfig", func() { loaded, err = appctl.LoadClientConfig() }) {
		return
	}
	if err != nil {
		c.Violate("C20/client-store-load/load-fails", fmt.Sprintf("a stored configuration does not load: %v", err), k)
		return
	}
	want := proto.Clone(orig).(*pb.ClientConfig)
	for _, p := range want.Profiles {
		p.User = c20ExpectStoredUser(p.User, true)
	}
	if !proto.Equal(want, loaded) {
		c.Violate("C20/client-store-load/differs", "load(store(cfg)) differs from cfg (plus hashed passwords)", k)
	}
	m := c.Model.Ask("cfg-store-client %s", c20ClientTokens(orig, true))
	c.Compared()
	if got := "ok " + c20ClientTokens(loaded, false); m != got {
		c.Disagree("C20/corr/store-client", fmt.Sprintf("model %.200s impl %.200s", m, got), k)
	}
	// a valid configuration can be turned into a running mux description without a crash
	if appctl.ValidateFullClientConfig(loaded) == nil {
		if act, e := appctl.GetActiveProfileFromConfig(loaded, loaded.GetActiveProfile()); e == nil {
			c20Guard(c, k, "NewClientMuxFromProfile", func() {
				if _, e := appctlcommon.NewClientMuxFromProfile(act, nil, nil, nil, nil); e != nil {
					c.Violate("C20/valid-config-does-not-start", fmt.Sprintf("a validated client profile cannot be started: %v", e), k)
				}
			})
		}
	}
}

func c20ClientApply(c *core.Ctx, k c20Case) {
	rawD, _ := base64.StdEncoding.DecodeString(k.PB)
	dst := &pb.ClientConfig{}
	if proto.Unmarshal(rawD, dst) != nil {
		return
	}
	patch := &pb.ClientConfig{}
	var patchText []byte
	viaURL := k.Kind == "client-apply-url"
	if k.Kind == "client-json" {
		patchText = k.text()
	} else {
		rawP, _ := base64.StdEncoding.DecodeString(k.PB2)
		if proto.Unmarshal(rawP, patch) != nil {
			return
		}
		var err error
		if patchText, err = common.MarshalJSON(patch); err != nil {
			return
		}
	}
	path := c20ClientPath(c, k.JSON)
	os.Remove(path)
	if err := appctl.StoreClientConfig(proto.Clone(dst).(*pb.ClientConfig)); err != nil {
		return
	}
	base, err := appctl.LoadClientConfig()
	if err != nil {
		return
	}
	var aerr error
	if viaURL {
		link, e := appctl.ClientConfigToURL(patch)
		if e != nil {
			return
		}
		if c20Guard(c, k, "ApplyURLClientConfig", func() { aerr = appctl.ApplyURLClientConfig(link) }) {
			return
		}
	} else {
		patchFile := filepath.Join(c20Dir(c), "client.patch.json")
		os.WriteFile(patchFile, patchText, 0o644)
		if c20Guard(c, k, "ApplyJSONClientConfig", func() { aerr = appctl.ApplyJSONClientConfig(patchFile) }) {
			return
		}
	}
	c.Eval(c20Key(k), aerr == nil)
	c.Hist("file", fmt.Sprintf("%s json=%v ok=%v", k.Kind, k.JSON, aerr == nil))
	var after *pb.ClientConfig
	if c20Guard(c, k, "LoadClientConfig", func() { after, err = appctl.LoadClientConfig() }) {
		return
	}
	if err != nil {
		c.Violate("C20/client-apply/config-unloadable", fmt.Sprintf("after apply (err=%v) the stored configuration does not load: %v", aerr, err), k)
		return
	}
	if aerr != nil {
		if !proto.Equal(after, base) {
			c.Violate("C20/client-apply/rejected-patch-changed-config", fmt.Sprintf("apply failed (%v) but the stored configuration changed", aerr), k)
		}
		return
	}
	if k.Kind == "client-json" && common.UnmarshalJSON(patchText, patch) != nil {
		c.Violate("C20/client-apply/accepts-unparsable-json", "ApplyJSONClientConfig accepted a text UnmarshalJSON rejects", k)
		return
	}
	bad := func(field string) {
		key := field
		if i := strings.Index(key, "["); i >= 0 {
			key = key[:i]
		}
		c.Violate("C20/client-apply/"+key, "after applying the patch, "+field+" is neither the patch's value (if set) nor the previous one", k)
	}
	str := func(p, b *string) string {
		if p != nil {
			return *p
		}
		if b != nil {
			return *b
		}
		return ""
	}
	i32 := func(p, b *int32) int32 {
		if p != nil {
			return *p
		}
		if b != nil {
			return *b
		}
		return 0
	}
	if after.GetActiveProfile() != str(patch.ActiveProfile, base.ActiveProfile) {
		bad("activeProfile")
	}
	if after.GetSocks5Port() != i32(patch.Socks5Port, base.Socks5Port) {
		bad("socks5Port")
	}
	if (patch.LoggingLevel != nil && after.GetLoggingLevel() != patch.GetLoggingLevel()) || (patch.LoggingLevel == nil && after.GetLoggingLevel() != base.GetLoggingLevel()) {
		bad("loggingLevel")
	}
	optI := func(name string, p, b, a *int32) {
		w := b
		if p != nil {
			w = p
		}
		if (w == nil) != (a == nil) || (w != nil && *w != *a) {
			bad(name)
		}
	}
	optB := func(name string, p, b, a *bool) {
		w := b
		if p != nil {
			w = p
		}
		if (w == nil) != (a == nil) || (w != nil && *w != *a) {
			bad(name)
		}
	}
	optI("rpcPort", patch.RpcPort, base.RpcPort, after.RpcPort)
	optI("httpProxyPort", patch.HttpProxyPort, base.HttpProxyPort, after.HttpProxyPort)
	optB("socks5ListenLAN", patch.Socks5ListenLAN, base.Socks5ListenLAN, after.Socks5ListenLAN)
	optB("httpProxyListenLAN", patch.HttpProxyListenLAN, base.HttpProxyListenLAN, after.HttpProxyListenLAN)
	if patch.AdvancedSettings != nil {
		if !proto.Equal(patch.AdvancedSettings, after.AdvancedSettings) {
			bad("advancedSettings")
		}
	} else if !proto.Equal(base.AdvancedSettings, after.AdvancedSettings) {
		bad("advancedSettings")
	}
	wa := base.Socks5Authentication
	if len(patch.Socks5Authentication) > 0 {
		wa = patch.Socks5Authentication
	}
	if !proto.Equal(&pb.ClientConfig{Socks5Authentication: wa}, &pb.ClientConfig{Socks5Authentication: after.Socks5Authentication}) {
		bad("socks5Authentication")
	}
	want := map[string]*pb.ClientProfile{}
	for _, p := range base.Profiles {
		want[p.GetProfileName()] = p
	}
	for _, p := range patch.Profiles {
		want[p.GetProfileName()] = p
	}
	names := []string{}
	for _, p := range after.Profiles {
		names = append(names, p.GetProfileName())
		w, ok := want[p.GetProfileName()]
		if !ok {
			bad("profiles[" + p.GetProfileName() + "]")
			continue
		}
		e := proto.Clone(w).(*pb.ClientProfile)
		e.User = c20ExpectStoredUser(e.User, true)
		if !proto.Equal(e, p) {
			bad("profiles[" + p.GetProfileName() + "]")
		}
	}
	if len(names) != len(want) || !sort.StringsAreSorted(names) {
		bad("profiles(set-or-order)")
	}
	// ---- correspondence
	m := c.Model.Ask("cfg-merge-client %s %s", c20ClientTokens(base, false), c20ClientTokens(patch, false))
	c.Compared()
	if !strings.HasPrefix(m, "ok ") {
		c.Disagree("C20/corr/merge-client", "model reply "+m, k)
		return
	}
	merged := proto.Clone(after).(*pb.ClientConfig)
	merged.Profiles = nil
	for _, n := range names {
		if w, ok := want[n]; ok {
			merged.Profiles = append(merged.Profiles, proto.Clone(w).(*pb.ClientProfile))
		}
	}
	if exp := "ok " + c20ClientTokens(merged, false); m != exp {
		c.Disagree("C20/corr/merge-client", fmt.Sprintf("model %.240s impl-derived %.240s", m, exp), k)
	}
	m2 := c.Model.Ask("cfg-store-client %s", c20ClientTokens(merged, true))
	c.Compared()
	if got := "ok " + c20ClientTokens(after, false); m2 != got {
		c.Disagree("C20/corr/apply-client", fmt.Sprintf("model %.240s impl %.240s", m2, got), k)
	}
}

// c20ClientLink offers an arbitrary text to ApplyURLClientConfig on top of a stored valid configuration:
// it is either rejected (file untouched) or what is stored afterwards is a valid configuration.
func c20ClientLink(c *core.Ctx, k c20Case) {
	rawD, _ := base64.StdEncoding.DecodeString(k.PB)
	dst := &pb.ClientConfig{}
	if proto.Unmarshal(rawD, dst) != nil {
		return
	}
	path := c20ClientPath(c, k.JSON)
	os.Remove(path)
	if err := appctl.StoreClientConfig(proto.Clone(dst).(*pb.ClientConfig)); err != nil {
		return
	}
	base, err := appctl.LoadClientConfig()
	if err != nil {
		return
	}
	var aerr error
	if c20Guard(c, k, "ApplyURLClientConfig", func() { aerr = appctl.ApplyURLClientConfig(string(k.text())) }) {
		return
	}
	c.Eval(c20Key(k), aerr == nil)
	c.Hist("file", fmt.Sprintf("client-link ok=%v", aerr == nil))
	after, err := appctl.LoadClientConfig()
	if err != nil {
		c.Violate("C20/client-apply/config-unloadable", fmt.Sprintf("after ApplyURLClientConfig (err=%v) the stored configuration does not load: %v", aerr, err), k)
		return
	}
	if aerr != nil {
		if !proto.Equal(after, base) {
			c.Violate("C20/client-apply/rejected-patch-changed-config", fmt.Sprintf("ApplyURLClientConfig failed (%v) but the stored configuration changed", aerr), k)
		}
		return
	}
	if verr := appctl.ValidateFullClientConfig(after); verr != nil {
		c.Violate("C20/client-apply/accepted-link-stores-invalid-config", fmt.Sprintf("ApplyURLClientConfig accepted the text but the stored configuration is invalid: %v", verr), k)
	}
}
