package props

import (
	"fmt"
	"strings"

	"verifharness/core"
	"verifharness/sim"
	"verifharness/wire"
)

// Wire audit of one program case (see c01_programs.go). Sessions are identified by their session
// id (bare Mux worlds); in API worlds the stream carries the SOCKS5 exchange first and the audit is
// limited to "every byte decodes".

func c01pWire(c *core.Ctx, k c01pCase, res []c01pResult, view *sim.World) {
	if view == nil {
		return
	}
	streams := view.DecodeStreams()
	bySid := map[uint32]map[bool][]*wire.Segment{}
	for _, ds := range streams {
		c.Compared()
		if ds.Err != nil {
			c.Disagree("C01/program/wire-undecodable", fmt.Sprintf("%s: reference codec cannot decode conn %d dir c2s=%v: %v", k.Name, ds.ConnID, ds.ClientToServer, ds.Err), k)
			return
		}
		if ds.Pending != 0 {
			c.Disagree("C01/program/wire-trailing-bytes", fmt.Sprintf("%s: %d undecoded trailing bytes on conn %d", k.Name, ds.Pending, ds.ConnID), k)
		}
		for _, s := range ds.Segs {
			if bySid[s.SessionID] == nil {
				bySid[s.SessionID] = map[bool][]*wire.Segment{}
			}
			bySid[s.SessionID][ds.ClientToServer] = append(bySid[s.SessionID][ds.ClientToServer], s)
			c.Hist("program_segment_type", fmt.Sprint(s.Proto))
			if s.IsLE() {
				c.Hist("program_le_mode", fmt.Sprint(s.Byte1))
			}
			if s.IsData() || s.IsAck() {
				c.Hist("program_padding1", padBucket(len(s.Pad1)))
			}
			c.Hist("program_padding2", padBucket(len(s.Pad2)))
		}
	}
	if !strings.HasSuffix(k.Name, "-pad0") { // every mode has a pad255 twin; halves the volume pushed through the Lean receiver
		c01pLeanDecodeAll(c, k, view, streams)
	}
	if k.API {
		c01EarlyWire(c, k, bySid)
		return
	}
	for i, r := range res {
		if !r.HaveSID {
			continue
		}
		sc := k.Sess[i]
		for _, c2s := range []bool{true, false} {
			segs := bySid[r.SID][c2s]
			writes, closed, dirNo, written := sc.ClientWrites, sc.ClientClose != "", 0, r.C.Written
			// the reading side closed without reading to the end: what the writer still had queued
			// is rightly dropped, and its later Write calls fail
			readerLeft := sc.ServerClose == "after-writes"
			if !c2s {
				writes, closed, dirNo, written = sc.ServerWrites, sc.ServerClose != "", 1, r.S.Written
				readerLeft = sc.ClientClose == "after-writes"
			}
			if c2s && len(writes) == 0 {
				writes = []int{0}
			}
			data := c01pCheckDir(c, k, i, c2s, dirNo, segs, writes, written, closed, readerLeft)
			if data != nil {
				rd, nm := r.S.Read, "client→server"
				if !c2s {
					rd, nm = r.C.Read, "server→client"
				}
				c01pModelReads(c, k, i, nm, data, rd)
			}
		}
	}
}

func padBucket(n int) string {
	switch {
	case n == 0:
		return "0"
	case n == 255:
		return "255"
	case n < 16:
		return "1-15"
	default:
		return "16-254"
	}
}

// c01pCheckDir: the segments of one session travelling in one direction against the list of Write
// calls of that side.
func c01pCheckDir(c *core.Ctx, k c01pCase, sess int, c2s bool, dirNo int, segs []*wire.Segment, writes []int, written int, closed bool, readerLeft bool) []*wire.Segment {
	name := "server→client"
	if c2s {
		name = "client→server"
	}
	total := sumInts(writes)
	_ = written
	var data []*wire.Segment
	var payload []byte
	closeAt := -1
	for j, s := range segs {
		if s.Proto == wire.CloseSessionRequest && closeAt < 0 {
			closeAt = j
		}
		if s.IsData() || s.Proto == wire.OpenSessionRequest || s.Proto == wire.OpenSessionResponse {
			if closeAt >= 0 && s.Proto == wire.OpenSessionResponse && len(s.Payload) == 0 {
				// The server application wrote and closed before the session's input loop got to the
				// open request (starved at load 75, seed 2 of round 4: data 0..2, close request 3,
				// open response 4). The response is empty and goes to a session its own close request
				// closes; the reader had everything. The model's `acceptOpen` on a closed session emits
				// nothing — recorded as a model gap in docs/notes/C01.md, not compared.
				c.Hist("program_open_response_after_close", name)
				continue
			}
			if closeAt >= 0 && readerLeft {
				// The READER of this direction closed without reading to the end: its close request
				// makes this side's input loop answer (close response, own close request) while the
				// application may still be inside Write, past the state check; that Write is then
				// numbered behind the close request. The peer is gone, nothing of this is owed to
				// anybody (seen once in a thorough run at load 75: open response 0, close response 1,
				// close request 2, data 3). Not part of the writer's program: not compared.
				c.Hist("program_write_raced_peer_close", name)
				continue
			}
			if closeAt >= 0 {
				c.Violate("C01/program/wire/data-after-close-request", fmt.Sprintf("%s session %d %s: a data segment follows the close request", k.Name, sess, name), k)
			}
			if int(s.Seq) != len(data) {
				c.Violate("C01/program/wire/seq-not-consecutive", fmt.Sprintf("%s session %d %s: segment %d carries sequence number %d", k.Name, sess, name, len(data), s.Seq), k)
			}
			data = append(data, s)
			payload = append(payload, s.Payload...)
		}
	}
	exp := make([]byte, len(payload))
	sim.FillStream(exp, k.Seed, sess, dirNo, 0)
	if string(exp) != string(payload) || len(payload) > total {
		c.Violate("C01/program/wire/content-differs", fmt.Sprintf("%s session %d %s: the bytes on the wire are not a prefix of what was written", k.Name, sess, name), k)
		return nil
	}
	if readerLeft {
		return data
	}
	if len(payload) < total {
		what := "no close"
		if closed {
			what = "closed after its last Write"
		}
		c.Violate("C01/program/wire/bytes-never-sent", fmt.Sprintf("%s session %d %s: %d of %d written bytes are on the wire (%s; close request on the wire: %v)", k.Name, sess, name, len(payload), total, what, closeAt >= 0), k)
		return nil
	}
	c01pModelSegs(c, k, sess, c2s, name, data, writes, closeAt >= 0)
	return data
}
