package props

import (
	"sort"
	"sync"
)

// c16Order gives the two directions of a simulated TCP connection ONE global order. simnet captures each
// direction separately; this recorder is installed as the network's StreamFilter (called inside Conn.Write,
// before the bytes become readable by the peer) and stamps every Write with a global sequence number. If
// write A happened before the peer read its bytes and then issued write B, A's number is smaller than B's —
// which is all the "server only after client" rule needs. The filter does not change the bytes.
type c16Order struct {
	mu   sync.Mutex
	next int64
	recs map[c16DirKey][]c16WriteRec
}

type c16DirKey struct {
	conn int
	c2s  bool
}

type c16WriteRec struct {
	off int64 // stream offset of the first byte of the Write
	n   int
	seq int64
}

func newC16Order() *c16Order { return &c16Order{recs: map[c16DirKey][]c16WriteRec{}} }

func (o *c16Order) filter(connID int, clientToServer bool, offset int64, b []byte) []byte {
	o.mu.Lock()
	o.next++
	k := c16DirKey{connID, clientToServer}
	o.recs[k] = append(o.recs[k], c16WriteRec{offset, len(b), o.next})
	o.mu.Unlock()
	return b
}

// seqAt returns the global number of the Write that carried stream byte `offset` of the direction
// (0 if unknown).
func (o *c16Order) seqAt(connID int, clientToServer bool, offset int64) int64 {
	o.mu.Lock()
	defer o.mu.Unlock()
	rs := o.recs[c16DirKey{connID, clientToServer}]
	i := sort.Search(len(rs), func(i int) bool { return rs[i].off+int64(rs[i].n) > offset })
	if i < len(rs) && rs[i].off <= offset {
		return rs[i].seq
	}
	return 0
}

// writesWithin returns the sizes of the Writes that make up stream bytes [from, to) of the direction, and
// whether Write boundaries coincide with both ends.
func (o *c16Order) writesWithin(connID int, clientToServer bool, from, to int64) (sizes []int, aligned bool) {
	o.mu.Lock()
	defer o.mu.Unlock()
	startOK, endOK := false, false
	for _, r := range o.recs[c16DirKey{connID, clientToServer}] {
		if r.off == from {
			startOK = true
		}
		if r.off+int64(r.n) == to {
			endOK = true
		}
		if r.off >= from && r.off+int64(r.n) <= to && r.n > 0 {
			sizes = append(sizes, r.n)
		}
	}
	return sizes, startOK && endOK
}
