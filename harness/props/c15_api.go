package props

import (
	"context"
	"fmt"
	"io"
	"net"
	"strings"
	"sync"
	"time"

	apiclient "github.com/enfein/mieru/v3/apis/client"
	apicommon "github.com/enfein/mieru/v3/apis/common"
	"github.com/enfein/mieru/v3/apis/model"
	apiserver "github.com/enfein/mieru/v3/apis/server"
	"github.com/enfein/mieru/v3/pkg/appctl/appctlpb"
	"github.com/enfein/mieru/v3/pkg/cipher"
	"github.com/enfein/mieru/v3/pkg/common"
	"github.com/enfein/mieru/v3/pkg/protocol"
	"google.golang.org/protobuf/proto"
	"verifharness/core"
	"verifharness/simnet"
)

// C15 through the public API (apis/client, apis/server): Stop of either side returns promptly and
// releases the parked calls of the other side; Server.Accept, which sets a 10 s read deadline and
// then parses the SOCKS5 request with several Reads, is bounded by that deadline even when the client
// sends only the first byte of the request.

const c15APIPort = 8964

type c15API struct {
	net *simnet.Net
	srv apiserver.Server
	cl  apiclient.Client
	udp bool
}

// c15PacketListener binds the server's UDP socket to the address the clients dial instead of the
// wildcard address the API asks for: the in-memory network stamps datagrams with the bound address,
// where an operating system would put the address the datagram actually leaves from.
type c15PacketListener struct{ n *simnet.Net }

func (l c15PacketListener) ListenPacket(ctx context.Context, network, address string) (net.PacketConn, error) {
	_, port, err := net.SplitHostPort(address)
	if err != nil {
		return nil, err
	}
	return simnet.PacketListener{N: l.n}.ListenPacket(ctx, network, net.JoinHostPort("10.8.0.1", port))
}

func c15NewAPI(k c15Case) (*c15API, error) {
	a := &c15API{net: simnet.New(k.Seed), udp: k.UDP}
	tp := appctlpb.TransportProtocol_TCP
	if k.UDP {
		tp = appctlpb.TransportProtocol_UDP
	}
	a.srv = apiserver.NewServer()
	if err := a.srv.Store(&apiserver.ServerConfig{
		Config: &appctlpb.ServerConfig{
			PortBindings: []*appctlpb.PortBinding{{Port: proto.Int32(c15APIPort), Protocol: tp.Enum()}},
			Users:        []*appctlpb.User{{Name: proto.String("alice"), Password: proto.String("alice-secret")}},
		},
		StreamListenerFactory: a.net,
		PacketListenerFactory: c15PacketListener{a.net},
	}); err != nil {
		return nil, fmt.Errorf("server Store: %w", err)
	}
	if err := a.srv.Start(); err != nil {
		return nil, fmt.Errorf("server Start: %w", err)
	}
	mode := appctlpb.HandshakeMode_HANDSHAKE_STANDARD
	if k.Multiplex%2 == 1 {
		mode = appctlpb.HandshakeMode_HANDSHAKE_NO_WAIT
	}
	a.cl = apiclient.NewClient()
	if err := a.cl.Store(&apiclient.ClientConfig{
		Profile: &appctlpb.ClientProfile{
			ProfileName: proto.String("default"),
			User:        &appctlpb.User{Name: proto.String("alice"), Password: proto.String("alice-secret")},
			Servers: []*appctlpb.ServerEndpoint{{
				IpAddress:    proto.String("10.8.0.1"),
				PortBindings: []*appctlpb.PortBinding{{Port: proto.Int32(c15APIPort), Protocol: tp.Enum()}},
			}},
			HandshakeMode: mode.Enum(),
		},
		Dialer:       a.net,
		PacketDialer: a.net,
	}); err != nil {
		a.srv.Stop()
		return nil, fmt.Errorf("client Store: %w", err)
	}
	if err := a.cl.Start(); err != nil {
		a.srv.Stop()
		return nil, fmt.Errorf("client Start: %w", err)
	}
	return a, nil
}

// rawClient is a bare protocol.Mux client of the same user (plays the misbehaving peer).
func (a *c15API) rawClient() *protocol.Mux {
	cl := protocol.NewMux(true)
	cl.SetDialer(a.net)
	cl.SetPacketDialer(a.net)
	cl.SetResolver(apicommon.NilDNSResolver{})
	cl.SetClientUserNamePassword("alice", cipher.HashPassword([]byte("alice-secret"), []byte("alice")))
	var addr net.Addr = &net.TCPAddr{IP: net.IPv4(10, 8, 0, 1), Port: c15APIPort}
	if a.udp {
		addr = &net.UDPAddr{IP: net.IPv4(10, 8, 0, 1), Port: c15APIPort}
	}
	tp := common.StreamTransport
	if a.udp {
		tp = common.PacketTransport
	}
	cl.SetEndpoints([]protocol.UnderlayProperties{protocol.NewUnderlayProperties(1400, tp, nil, addr)})
	return cl
}

func c15RunAPI(c *core.Ctx, k c15Case) *c15Out {
	o := &c15Out{hist: map[string]string{}}
	a, err := c15NewAPI(k)
	if err != nil {
		o.setupErr = err
		return o
	}
	tr := c15Transport(k.UDP)
	r := newC15Rec()
	type accepted struct {
		start, ret int64
		err        error
	}
	var mu sync.Mutex
	var accepts []accepted
	acceptDone := make(chan struct{})
	go func() {
		defer close(acceptDone)
		for {
			t0 := r.now()
			conn, _, err := a.srv.Accept()
			mu.Lock()
			accepts = append(accepts, accepted{t0, r.now(), err})
			mu.Unlock()
			if err != nil {
				if !a.srv.IsRunning() {
					return
				}
				if strings.Contains(err.Error(), "closed") || err == io.EOF || err == io.ErrClosedPipe {
					return
				}
				continue
			}
			go func(conn net.Conn) {
				// the proxy application: SOCKS5 "succeeded", then echo
				conn.Write([]byte{5, 0, 0, 1, 0, 0, 0, 0, 0, 0})
				buf := make([]byte, 4096)
				for {
					p := r.begin("R", "s", 0)
					n, err := conn.Read(buf)
					r.end(p, c15Kind(err, true), n)
					if err != nil {
						return
					}
					conn.Write(buf[:n])
				}
			}(conn)
		}
	}()
	dial := func() (net.Conn, error) {
		ctx, cancel := context.WithTimeout(context.Background(), 30*time.Second)
		defer cancel()
		return a.cl.DialContext(ctx, model.NetAddrSpec{AddrSpec: model.AddrSpec{IP: net.IPv4(192, 0, 2, 1), Port: 80}, Net: "tcp"})
	}
	// one healthy connection: echo round trip
	conn, err := dial()
	if err != nil {
		o.setupErr = fmt.Errorf("DialContext: %w", err)
		a.cl.Stop()
		a.srv.Stop()
		return o
	}
	conn.Write([]byte("ping"))
	conn.SetReadDeadline(time.Now().Add(20 * time.Second))
	got := make([]byte, 4)
	if _, err := io.ReadFull(conn, got); err != nil || string(got) != "ping" {
		o.setupErr = fmt.Errorf("echo through the API: %q %v", got, err)
		a.cl.Stop()
		a.srv.Stop()
		return o
	}
	conn.SetReadDeadline(time.Time{})
	var raw *protocol.Mux
	if k.Ender == "slowloris" {
		// a client of the same user opens a connection and sends only the first byte of its SOCKS5
		// request; Accept has set a 10 s read deadline, so it must give up on it by then
		raw = a.rawClient()
		ctx, cancel := context.WithTimeout(context.Background(), 20*time.Second)
		sc, err := raw.DialContext(ctx)
		cancel()
		if err != nil {
			o.setupErr = fmt.Errorf("raw dial: %w", err)
		} else {
			t0 := r.now()
			sc.Write([]byte{5})
			deadline := time.After(time.Duration(10000+c15SlackMs+1500) * time.Millisecond)
			released := false
			for !released {
				mu.Lock()
				for _, x := range accepts {
					if x.start <= t0+1000 && x.ret >= t0 && x.err != nil {
						released = true
					}
				}
				mu.Unlock()
				if released {
					break
				}
				select {
				case <-deadline:
					o.violate("C15/deadline/api-server-accept-not-bounded", "Server.Accept set a 10 s read deadline and was still reading the SOCKS5 request %d ms after a client sent its first byte and went silent (%s); every later client waits behind it", r.now()-t0, tr)
					released = true
				case <-time.After(100 * time.Millisecond):
				}
			}
		}
	}
	// a parked client read, then Stop of one side, then of the other
	parked := make(chan struct{})
	go func() {
		defer close(parked)
		p := r.begin("R", "c", 0)
		n, err := conn.Read(make([]byte, 16))
		r.end(p, c15Kind(err, true), n)
	}()
	time.Sleep(time.Duration(mathMax(50, k.TrafficMs)) * time.Millisecond)
	stop := func(name string, f func() error) {
		done := make(chan struct{})
		side := map[string]string{"client": "c", "server": "s"}[name]
		p := r.begin("M", side, 0)
		go func() { f(); r.end(p, "ok", 0); close(done) }()
		select {
		case <-done:
		case <-time.After(c15BoundMs * time.Millisecond):
			o.violate("C15/close-does-not-return/api-"+name+"-stop-"+tr, "%s Stop() had not returned after %d ms", name, c15BoundMs)
		}
	}
	first, second := "client", "server"
	if k.ServerFirst {
		first, second = "server", "client"
	}
	stops := map[string]func() error{"client": a.cl.Stop, "server": a.srv.Stop}
	stop(first, stops[first])
	select {
	case <-parked:
	case <-time.After((c15BoundMs + c15PropMs) * time.Millisecond):
		o.violate(fmt.Sprintf("C15/hang/read-client-after-api-%s-stop-%s", first, tr), "a Read parked on a connection from Client.DialContext had not returned %d ms after %s Stop()", c15BoundMs+c15PropMs, first)
	}
	stop(second, stops[second])
	if raw != nil {
		raw.Close()
	}
	select {
	case <-acceptDone:
	case <-time.After(c15BoundMs * time.Millisecond):
		o.violate("C15/hang/api-accept-after-stop-"+tr, "Server.Accept had not returned %d ms after Server.Stop()", c15BoundMs)
	}
	select {
	case <-parked:
	case <-time.After(c15BoundMs * time.Millisecond):
		o.violate("C15/hang/read-client-after-api-shutdown-"+tr, "a Read parked on a connection from Client.DialContext had not returned %d ms after both sides were stopped", c15BoundMs)
	}
	calls, dls := r.snapshot()
	c15AskHist(c, o, k, calls, dls, -1)
	o.calls = len(calls)
	return o
}
