package props

import (
	"encoding/hex"
	"fmt"
	"strconv"
	"strings"

	pb "github.com/enfein/mieru/v3/pkg/appctl/appctlpb"
	"github.com/enfein/mieru/v3/pkg/cipher"
	"google.golang.org/protobuf/proto"
)

// ---- token helpers shared by the C20 scenarios (driver protocol of Mieru.Driver.Url / Config) ----

func c20Det(m proto.Message) []byte {
	b, err := proto.MarshalOptions{Deterministic: true}.Marshal(m)
	if err != nil {
		return []byte("marshal-error:" + err.Error())
	}
	return b
}

func c20tokBytes(b []byte) string {
	if len(b) == 0 {
		return "e"
	}
	return hex.EncodeToString(b)
}

func c20tokOptStr(s *string) string {
	if s == nil {
		return "-"
	}
	return c20tokBytes([]byte(*s))
}

func c20tokOptI32(v *int32) string {
	if v == nil {
		return "-"
	}
	return strconv.Itoa(int(*v))
}

func c20tokOptBool(v *bool) string {
	if v == nil {
		return "-"
	}
	if *v {
		return "1"
	}
	return "0"
}

func c20tokOptMsg(present bool, m proto.Message) string {
	if !present {
		return "-"
	}
	return c20tokBytes(c20Det(m))
}

func c20untokBytes(s string) ([]byte, bool) {
	if s == "e" {
		return []byte{}, true
	}
	b, err := hex.DecodeString(s)
	return b, err == nil
}

func c20untokOptStr(s string) (*string, bool) {
	if s == "-" {
		return nil, true
	}
	b, ok := c20untokBytes(s)
	if !ok {
		return nil, false
	}
	return proto.String(string(b)), true
}

func c20untokOptI32(s string) (*int32, bool) {
	if s == "-" {
		return nil, true
	}
	v, err := strconv.ParseInt(s, 10, 64)
	if err != nil || v < -1<<31 || v > 1<<31-1 {
		return nil, false
	}
	return proto.Int32(int32(v)), true
}

// c20UserTok renders a user; withHash appends HashPassword(password,name) as the hex TEXT the code stores.
func c20UserTok(u *pb.User, withHash bool) string {
	rest := proto.Clone(u).(*pb.User)
	rest.Name, rest.Password, rest.HashedPassword = nil, nil, nil
	t := fmt.Sprintf("%s:%s:%s:%s", c20tokOptStr(u.Name), c20tokOptStr(u.Password), c20tokOptStr(u.HashedPassword), c20tokBytes(c20Det(rest)))
	if withHash {
		h := "e"
		if u.GetPassword() != "" {
			h = c20tokBytes([]byte(hex.EncodeToString(cipher.HashPassword([]byte(u.GetPassword()), []byte(u.GetName())))))
		}
		t += ":" + h
	}
	return t
}

func c20ServerTokens(c *pb.ServerConfig, withHash bool) string {
	pbs := "-"
	if len(c.PortBindings) > 0 {
		var l []string
		for _, b := range c.PortBindings {
			l = append(l, c20tokBytes(c20Det(b)))
		}
		pbs = strings.Join(l, ",")
	}
	us := "-"
	if len(c.Users) > 0 {
		var l []string
		for _, u := range c.Users {
			l = append(l, c20UserTok(u, withHash))
		}
		us = strings.Join(l, ";")
	}
	var ll *int32
	if c.LoggingLevel != nil {
		ll = proto.Int32(int32(*c.LoggingLevel))
	}
	return strings.Join([]string{pbs, us, c20tokOptMsg(c.AdvancedSettings != nil, c.AdvancedSettings), c20tokOptI32(ll), c20tokOptI32(c.Mtu),
		c20tokOptMsg(c.Egress != nil, c.Egress), c20tokOptMsg(c.Dns != nil, c.Dns), c20tokOptMsg(c.TrafficPattern != nil, c.TrafficPattern)}, " ")
}

func c20ClientTokens(c *pb.ClientConfig, withHash bool) string {
	ps := "-"
	if len(c.Profiles) > 0 {
		var l []string
		for _, p := range c.Profiles {
			rest := proto.Clone(p).(*pb.ClientProfile)
			rest.ProfileName, rest.User = nil, nil
			u := "-"
			if p.User != nil {
				u = c20UserTok(p.User, withHash)
			}
			l = append(l, fmt.Sprintf("%s/%s/%s", c20tokOptStr(p.ProfileName), u, c20tokBytes(c20Det(rest))))
		}
		ps = strings.Join(l, ";")
	}
	var ll *int32
	if c.LoggingLevel != nil {
		ll = proto.Int32(int32(*c.LoggingLevel))
	}
	auth := "-"
	if len(c.Socks5Authentication) > 0 {
		var l []string
		for _, a := range c.Socks5Authentication {
			l = append(l, c20tokBytes(c20Det(a)))
		}
		auth = strings.Join(l, ",")
	}
	return strings.Join([]string{ps, c20tokOptStr(c.ActiveProfile), c20tokOptI32(c.RpcPort), c20tokOptI32(c.Socks5Port),
		c20tokOptMsg(c.AdvancedSettings != nil, c.AdvancedSettings), c20tokOptI32(ll), c20tokOptBool(c.Socks5ListenLAN),
		c20tokOptI32(c.HttpProxyPort), c20tokOptBool(c.HttpProxyListenLAN), auth}, " ")
}

// ---- link profiles ------------------------------------------------------------------------------

// c20ProfileTokens renders the part of a ClientProfile a mierus:// link carries (8 tokens).
func c20ProfileTokens(p *pb.ClientProfile) string {
	var un, pw *string
	if p.User != nil {
		un, pw = p.User.Name, p.User.Password
	}
	mux := "-"
	if p.Multiplexing != nil {
		mux = "P"
		if p.Multiplexing.Level != nil {
			mux = strconv.Itoa(int(*p.Multiplexing.Level))
		}
	}
	var hs *int32
	if p.HandshakeMode != nil {
		hs = proto.Int32(int32(*p.HandshakeMode))
	}
	tp := "-"
	if p.TrafficPattern != nil {
		b, _ := proto.Marshal(p.TrafficPattern)
		tp = c20tokBytes(b)
	}
	ss := "-"
	if len(p.Servers) > 0 {
		var l []string
		for _, s := range p.Servers {
			bs := "-"
			if len(s.PortBindings) > 0 {
				var bl []string
				for _, b := range s.PortBindings {
					var pr *int32
					if b.Protocol != nil {
						pr = proto.Int32(int32(*b.Protocol))
					}
					bl = append(bl, fmt.Sprintf("%s:%s:%s", c20tokOptI32(b.Port), c20tokOptStr(b.PortRange), c20tokOptI32(pr)))
				}
				bs = strings.Join(bl, ",")
			}
			l = append(l, fmt.Sprintf("%s/%s/%s", c20tokOptStr(s.IpAddress), c20tokOptStr(s.DomainName), bs))
		}
		ss = strings.Join(l, ";")
	}
	return strings.Join([]string{c20tokOptStr(p.ProfileName), c20tokOptStr(un), c20tokOptStr(pw), c20tokOptI32(p.Mtu), mux, c20tokOptI32(hs), tp, ss}, " ")
}

// c20ProfileFromTokens rebuilds a ClientProfile from the model's reply (8 tokens); the traffic
// pattern bytes are unmarshalled with the real library.
func c20ProfileFromTokens(toks []string) (*pb.ClientProfile, bool) {
	if len(toks) != 8 {
		return nil, false
	}
	p := &pb.ClientProfile{}
	var ok bool
	if p.ProfileName, ok = c20untokOptStr(toks[0]); !ok {
		return nil, false
	}
	un, ok1 := c20untokOptStr(toks[1])
	pw, ok2 := c20untokOptStr(toks[2])
	if !ok1 || !ok2 {
		return nil, false
	}
	p.User = &pb.User{Name: un, Password: pw}
	if p.Mtu, ok = c20untokOptI32(toks[3]); !ok {
		return nil, false
	}
	switch toks[4] {
	case "-":
	case "P":
		p.Multiplexing = &pb.MultiplexingConfig{}
	default:
		v, ok := c20untokOptI32(toks[4])
		if !ok {
			return nil, false
		}
		l := pb.MultiplexingLevel(*v)
		p.Multiplexing = &pb.MultiplexingConfig{Level: &l}
	}
	if toks[5] != "-" {
		v, ok := c20untokOptI32(toks[5])
		if !ok {
			return nil, false
		}
		m := pb.HandshakeMode(*v)
		p.HandshakeMode = &m
	}
	if toks[6] != "-" {
		b, ok := c20untokBytes(toks[6])
		if !ok {
			return nil, false
		}
		tp := &pb.TrafficPattern{}
		if proto.Unmarshal(b, tp) != nil {
			return nil, false
		}
		p.TrafficPattern = tp
	}
	if toks[7] != "-" {
		for _, st := range strings.Split(toks[7], ";") {
			f := strings.Split(st, "/")
			if len(f) != 3 {
				return nil, false
			}
			s := &pb.ServerEndpoint{}
			if s.IpAddress, ok = c20untokOptStr(f[0]); !ok {
				return nil, false
			}
			if s.DomainName, ok = c20untokOptStr(f[1]); !ok {
				return nil, false
			}
			if f[2] != "-" {
				for _, bt := range strings.Split(f[2], ",") {
					g := strings.Split(bt, ":")
					if len(g) != 3 {
						return nil, false
					}
					b := &pb.PortBinding{}
					if b.Port, ok = c20untokOptI32(g[0]); !ok {
						return nil, false
					}
					if b.PortRange, ok = c20untokOptStr(g[1]); !ok {
						return nil, false
					}
					if g[2] != "-" {
						v, ok := c20untokOptI32(g[2])
						if !ok {
							return nil, false
						}
						b.Protocol = pb.TransportProtocol(*v).Enum()
					}
					s.PortBindings = append(s.PortBindings, b)
				}
			}
			p.Servers = append(p.Servers, s)
		}
	}
	return p, true
}

// ---- error canonicalisation ---------------------------------------------------------------------

func c20LinkErrEnum(err error) string {
	if err == nil {
		return "ok"
	}
	s := err.Error()
	table := []struct{ sub, enum string }{
		{"url.Parse() failed", "url-parse"},
		{"unrecognized URL scheme", "scheme"},
		{"URL is opaque", "opaque"},
		{"does not begin with", "no-prefix"},
		{"base64.StdEncoding.DecodeString() failed to decode traffic pattern", "tp-base64"},
		{"base64.StdEncoding.DecodeString() failed", "base64"},
		{"proto.Unmarshal() failed to unmarshal traffic pattern", "tp-unmarshal"},
		{"proto.Unmarshal() failed", "pb-unmarshal"},
		{"URL has no user info", "no-userinfo"},
		{"URL has no user name", "no-username"},
		{"URL has no password", "no-password"},
		{"URL has no host", "no-host"},
		{"url.ParseQuery() failed", "query"},
		{"URL has no profile name", "no-profile"},
		{"URL has invalid MTU", "bad-mtu"},
		{"mismatched number of port", "port-protocol-mismatch"},
		{"invalid port or port range", "bad-port"},
		{"invalid begin of port range", "bad-range-begin"},
		{"invalid end of port range", "bad-range-end"},
		{"invalid begin port number", "bad-begin-port"},
		{"invalid end port number", "bad-end-port"},
		{"is greater than end port number", "begin-gt-end"},
		{"URL has invalid port number", "bad-port-number"},
		{"profile name is empty", "name-empty"},
		{"user name in profile", "user-empty"},
		{"password in profile", "password-empty"},
		{"has no server", "no-servers"},
		{"with no domain name or IP address", "server-no-host"},
		{"with no port bindings", "server-no-bindings"},
	}
	for _, t := range table {
		if strings.Contains(s, t.sub) {
			return t.enum
		}
	}
	return "unrecognised(" + s + ")"
}
