package props

import (
	"encoding/base64"
	"encoding/hex"
	"fmt"
	"net"
	"net/url"
	"reflect"
	"sort"
	"strconv"
	"strings"

	"github.com/enfein/mieru/v3/pkg/appctl"
	"github.com/enfein/mieru/v3/pkg/appctl/appctlcommon"
	pb "github.com/enfein/mieru/v3/pkg/appctl/appctlpb"
	"google.golang.org/protobuf/proto"
	"verifharness/core"
)

type c20Case struct {
	Kind string `json:"kind"`
	Text string `json:"text_hex,omitempty"` // hex of the bytes offered (link text, JSON text, string to escape …)
	Mode string `json:"mode,omitempty"`     // q | u
	Int  int64  `json:"int,omitempty"`
	PB   string `json:"pb,omitempty"`  // base64 of a marshalled message (profile / config / base config)
	PB2  string `json:"pb2,omitempty"` // base64 of the patch
	JSON bool   `json:"json_file,omitempty"`
}

func (k c20Case) text() []byte { b, _ := hex.DecodeString(k.Text); return b }

func c20Key(k c20Case) string {
	return fmt.Sprintf("%s/%s/%s/%d/%s/%s/%v", k.Kind, k.Text, k.Mode, k.Int, k.PB, k.PB2, k.JSON)
}

// c20Guard runs f and reports a panic as a violation of the totality part of the property.
func c20Guard(c *core.Ctx, k c20Case, entry string, f func()) (panicked bool) {
	defer func() {
		if r := recover(); r != nil {
			panicked = true
			c.Violate("C20/panic/"+entry, fmt.Sprintf("%s panicked: %v", entry, r), k)
		}
	}()
	f()
	return false
}

// ---- library-level models: escaping, decimal integers, base64, query strings -----------------

func c20Esc(c *core.Ctx, k c20Case) {
	s := string(k.text())
	c.Eval(c20Key(k), true)
	c.Hist("pure", k.Kind+"/"+k.Mode)
	switch k.Kind {
	case "esc":
		var got string
		if k.Mode == "q" {
			got = url.QueryEscape(s)
			if back, err := url.QueryUnescape(got); err != nil || back != s {
				c.Violate("C20/escape-roundtrip/query", "QueryUnescape(QueryEscape(s)) != s", k)
			}
		} else {
			// userinfo escaping is only reachable through URL.String(): "user:password"
			ui := url.UserPassword(s, "x").String()
			got = strings.TrimSuffix(ui, ":x")
			u, err := url.Parse("mierus://" + ui + "@h")
			if err != nil || u.User == nil || u.User.Username() != s {
				c.Violate("C20/escape-roundtrip/userinfo", fmt.Sprintf("Parse(String(userinfo)) does not give the user name back (err=%v)", err), k)
			}
		}
		m := c.Model.Ask("url-esc %s %s", k.Mode, c20tokBytes([]byte(s)))
		c.Compared()
		if m != "ok "+c20tokBytes([]byte(got)) {
			c.Disagree("C20/corr/escape-"+k.Mode, fmt.Sprintf("model %.120s impl %.120s", m, c20tokBytes([]byte(got))), k)
		}
	case "unesc":
		m := c.Model.Ask("url-unesc %s %s", k.Mode, c20tokBytes([]byte(s)))
		c.Compared()
		var got string
		if k.Mode == "q" {
			r, err := url.QueryUnescape(s)
			got = "err escape"
			if err == nil {
				got = "ok " + c20tokBytes([]byte(r))
			}
		} else {
			// only comparable when url.Parse accepts the userinfo characters
			if strings.ContainsAny(s, ":@/?#") {
				return
			}
			u, err := url.Parse("mierus://" + s + "@h")
			if err != nil || u.User == nil {
				if err != nil && strings.Contains(err.Error(), "invalid URL escape") && m != "err escape" {
					c.Disagree("C20/corr/unescape-u", fmt.Sprintf("model %.120s impl %v", m, err), k)
				}
				return
			}
			got = "ok " + c20tokBytes([]byte(u.User.Username()))
		}
		if m != got {
			c.Disagree("C20/corr/unescape-"+k.Mode, fmt.Sprintf("model %.120s impl %.120s", m, got), k)
		}
	}
}

func c20Atoi(c *core.Ctx, k c20Case) {
	c.Eval(c20Key(k), true)
	c.Hist("pure", k.Kind)
	if k.Kind == "itoa" {
		got := strconv.Itoa(int(k.Int))
		m := c.Model.Ask("url-itoa %d", k.Int)
		c.Compared()
		if m != "ok "+c20tokBytes([]byte(got)) {
			c.Disagree("C20/corr/itoa", fmt.Sprintf("model %s impl %s", m, got), k)
		}
		return
	}
	s := string(k.text())
	v, err := strconv.Atoi(s)
	got := "err syntax"
	if err == nil {
		got = fmt.Sprintf("ok %d", v)
	}
	m := c.Model.Ask("url-atoi %s", c20tokBytes([]byte(s)))
	c.Compared()
	if m != got {
		c.Disagree("C20/corr/atoi", fmt.Sprintf("input %q: model %s impl %s", s, m, got), k)
	}
}

func c20B64(c *core.Ctx, k c20Case) {
	c.Eval(c20Key(k), true)
	c.Hist("pure", k.Kind)
	b := k.text()
	if k.Kind == "b64enc" {
		got := base64.StdEncoding.EncodeToString(b)
		m := c.Model.Ask("b64-enc %s", core.Hex(b))
		c.Compared()
		if m != "ok "+core.Hex([]byte(got)) {
			c.Disagree("C20/corr/b64-enc", fmt.Sprintf("model %.100s impl %.100s", m, got), k)
		}
		if back, err := base64.StdEncoding.DecodeString(got); err != nil || string(back) != string(b) {
			c.Violate("C20/base64-roundtrip", "DecodeString(EncodeToString(b)) != b", k)
		}
		return
	}
	dec, err := base64.StdEncoding.DecodeString(string(b))
	got := "err corrupt"
	if err == nil {
		got = "ok " + core.Hex(dec)
	}
	m := c.Model.Ask("b64-dec %s", core.Hex(b))
	c.Compared()
	if m != got {
		c.Disagree("C20/corr/b64-dec", fmt.Sprintf("text %q: model %.100s impl %.100s", b, m, got), k)
	}
}

func c20Query(c *core.Ctx, k c20Case) {
	c.Eval(c20Key(k), true)
	c.Hist("pure", "query")
	s := string(k.text())
	vals, err := url.ParseQuery(s)
	m := c.Model.Ask("url-parsequery %s", c20tokBytes([]byte(s)))
	c.Compared()
	if err != nil {
		if m != "err query" {
			c.Disagree("C20/corr/parsequery", fmt.Sprintf("query %q: model %.100s impl error %v", s, m, err), k)
		}
		return
	}
	// model pairs → map
	mm := url.Values{}
	var flat []string
	if !strings.HasPrefix(m, "ok ") {
		c.Disagree("C20/corr/parsequery", fmt.Sprintf("query %q: model %.100s impl accepts", s, m), k)
		return
	}
	if m != "ok -" {
		for _, kv := range strings.Split(m[3:], ",") {
			f := strings.Split(kv, "=")
			if len(f) != 2 {
				c.Disagree("C20/corr/parsequery", "unparsable model reply "+m, k)
				return
			}
			kb, _ := c20untokBytes(f[0])
			vb, _ := c20untokBytes(f[1])
			mm[string(kb)] = append(mm[string(kb)], string(vb))
		}
	}
	if !reflect.DeepEqual(map[string][]string(mm), map[string][]string(vals)) {
		c.Disagree("C20/corr/parsequery", fmt.Sprintf("query %q: model %v impl %v", s, mm, vals), k)
		return
	}
	// Values.Encode vs encodePairs on the key-sorted pairs
	keys := make([]string, 0, len(vals))
	for kk := range vals {
		keys = append(keys, kk)
	}
	sort.Strings(keys)
	for _, kk := range keys {
		for _, v := range vals[kk] {
			flat = append(flat, c20tokBytes([]byte(kk))+"="+c20tokBytes([]byte(v)))
		}
	}
	arg := "-"
	if len(flat) > 0 {
		arg = strings.Join(flat, ",")
	}
	enc := vals.Encode()
	m2 := c.Model.Ask("url-encodequery %s", arg)
	c.Compared()
	if m2 != "ok "+c20tokBytes([]byte(enc)) {
		c.Disagree("C20/corr/encodequery", fmt.Sprintf("values %v: model %.120s impl %q", vals, m2, enc), k)
	}
	if back, err := url.ParseQuery(enc); err != nil || !reflect.DeepEqual(back, vals) {
		c.Violate("C20/query-roundtrip", "ParseQuery(Encode(values)) != values", k)
	}
}

// ---- link entry points on arbitrary text ---------------------------------------------------------

func c20Link(c *core.Ctx, k c20Case) {
	s := string(k.text())
	c.Eval(c20Key(k), true)
	u, perr := url.Parse(s)
	// --- URLToClientConfig
	var cfg *pb.ClientConfig
	var err error
	if !c20Guard(c, k, "URLToClientConfig", func() { cfg, err = appctl.URLToClientConfig(s) }) {
		want := "err url-parse"
		if perr == nil {
			pbOK := 1
			if len(s) >= 8 {
				if b, e := base64.StdEncoding.DecodeString(s[8:]); e == nil && proto.Unmarshal(b, &pb.ClientConfig{}) != nil {
					pbOK = 0
				}
			}
			want = c.Model.Ask("url-config %s %s %s %d", c20tokBytes([]byte(u.Scheme)), c20tokBytes([]byte(u.Opaque)), c20tokBytes([]byte(s)), pbOK)
		}
		c.Compared()
		c.Hist("link_config", strings.SplitN(c20LinkErrEnum(err), "(", 2)[0])
		if err != nil {
			if got := "err " + c20LinkErrEnum(err); got != want {
				c.Disagree("C20/corr/url-config", fmt.Sprintf("text %.80q: model %.100s impl %.100s", s, want, got), k)
			}
		} else {
			ok := false
			if strings.HasPrefix(want, "ok ") {
				if b, good := c20untokBytes(want[3:]); good {
					mc := &pb.ClientConfig{}
					ok = proto.Unmarshal(b, mc) == nil && proto.Equal(mc, cfg)
				}
			}
			if !ok {
				c.Disagree("C20/corr/url-config", fmt.Sprintf("text %.80q: model %.100s impl accepts", s, want), k)
			}
			// direct oracle: an accepted mieru:// link re-exports to a link that imports to the same config
			if back, e2 := appctl.ClientConfigToURL(cfg); e2 == nil {
				if c2, e3 := appctl.URLToClientConfig(back); e3 != nil || !proto.Equal(c2, cfg) {
					c.Violate("C20/mieru-link/reexport-differs", fmt.Sprintf("import(export(import(text))) differs from import(text) (err=%v)", e3), k)
				}
			}
		}
	}
	// --- URLToClientProfile
	var prof *pb.ClientProfile
	if !c20Guard(c, k, "URLToClientProfile", func() { prof, err = appctl.URLToClientProfile(s) }) {
		want := "err url-parse"
		if perr == nil {
			hasUser, un, pw := 0, "", ""
			if u.User != nil {
				hasUser, un = 1, u.User.Username()
				pw, _ = u.User.Password()
			}
			isIP, tpOK := 0, 1
			if net.ParseIP(u.Hostname()) != nil {
				isIP = 1
			}
			if q, e := url.ParseQuery(u.RawQuery); e == nil && q.Get("traffic-pattern") != "" {
				if b, e := base64.StdEncoding.DecodeString(q.Get("traffic-pattern")); e == nil && proto.Unmarshal(b, &pb.TrafficPattern{}) != nil {
					tpOK = 0
				}
			}
			want = c.Model.Ask("url-profile %s %s %d %s %s %s %s %d %d", c20tokBytes([]byte(u.Scheme)), c20tokBytes([]byte(u.Opaque)), hasUser,
				c20tokBytes([]byte(un)), c20tokBytes([]byte(pw)), c20tokBytes([]byte(u.Hostname())), c20tokBytes([]byte(u.RawQuery)), isIP, tpOK)
		}
		c.Compared()
		c.Hist("link_profile", strings.SplitN(c20LinkErrEnum(err), "(", 2)[0])
		if err != nil {
			if got := "err " + c20LinkErrEnum(err); got != want {
				c.Disagree("C20/corr/url-profile", fmt.Sprintf("text %.80q: model %.100s impl %.100s", s, want, got), k)
			}
		} else {
			ok := false
			if strings.HasPrefix(want, "ok ") {
				if mp, good := c20ProfileFromTokens(strings.Fields(want[3:])); good {
					ok = proto.Equal(mp, prof)
				}
			}
			if !ok {
				c.Disagree("C20/corr/url-profile", fmt.Sprintf("text %.80q: model %.160s impl %v", s, want, prof), k)
			}
		}
	}
	// --- the dispatching entry point
	c20Guard(c, k, "ParseURLClientConfig", func() {
		pc, e := appctl.ParseURLClientConfig(s)
		if e == nil && pc == nil {
			c.Violate("C20/parse-url/nil-without-error", "ParseURLClientConfig returned neither a config nor an error", k)
		}
	})
}

// ---- export of a profile: ClientProfileToMultiURLs ---------------------------------------------

func c20IsASCII(s string) bool {
	for i := 0; i < len(s); i++ {
		if s[i] >= 0x80 {
			return false
		}
	}
	return true
}

func c20Flat(bs []*pb.PortBinding) string {
	f, err := appctlcommon.FlatPortBindings(bs)
	if err != nil {
		return "err"
	}
	var l []string
	for _, b := range f {
		l = append(l, fmt.Sprintf("%d/%d", b.GetPort(), b.GetProtocol()))
	}
	return strings.Join(l, ",")
}

func c20Export(c *core.Ctx, k c20Case) {
	raw, _ := base64.StdEncoding.DecodeString(k.PB)
	p := &pb.ClientProfile{}
	if proto.Unmarshal(raw, p) != nil {
		return
	}
	var urls []string
	var err error
	if c20Guard(c, k, "ClientProfileToMultiURLs", func() { urls, err = appctl.ClientProfileToMultiURLs(p) }) {
		return
	}
	c.Eval(c20Key(k), err == nil)
	m := c.Model.Ask("url-export %s", c20ProfileTokens(p))
	c.Compared()
	c.Hist("export", strings.SplitN(c20LinkErrEnum(err), "(", 2)[0])
	if err != nil {
		if got := "err " + c20LinkErrEnum(err); got != m {
			c.Disagree("C20/corr/url-export", fmt.Sprintf("model %.100s impl %.100s", m, got), k)
		}
		return
	}
	parts := []string{}
	if strings.HasPrefix(m, "ok ") {
		parts = strings.Split(m[3:], ";")
	}
	if len(parts) != len(urls) {
		c.Disagree("C20/corr/url-export", fmt.Sprintf("model %.100s impl %d urls", m, len(urls)), k)
		return
	}
	valid := appctlcommon.ValidateClientConfigSingleProfile(p) == nil
	for i, us := range urls {
		f := strings.Split(parts[i], "/")
		if len(f) != 3 {
			c.Disagree("C20/corr/url-export", "unparsable model reply "+m, k)
			return
		}
		ui, _ := c20untokBytes(f[0])
		rq, _ := c20untokBytes(f[2])
		if !strings.HasPrefix(us, "mierus://"+string(ui)+"@") || !strings.HasSuffix(us, "?"+string(rq)) {
			c.Disagree("C20/corr/url-export", fmt.Sprintf("server %d: impl %.200q, model userinfo %q query %q", i, us, ui, rq), k)
		}
		// ---- direct oracle: import(export(p)) ≈ p, per server
		var q *pb.ClientProfile
		var ierr error
		if c20Guard(c, k, "URLToClientProfile", func() { q, ierr = appctl.URLToClientProfile(us) }) {
			continue
		}
		srv := p.Servers[i]
		host := srv.GetDomainName()
		if host == "" {
			host = srv.GetIpAddress()
		}
		if !valid {
			c.Hist("roundtrip", "skipped:profile-not-valid")
			continue
		}
		// finding keys say WHY a validated profile does not survive: the host is not a host name / carries a
		// port, or a binding sets both port and portRange
		hostClass := ""
		if net.ParseIP(host) == nil {
			switch {
			case strings.Trim(host, "abcdefghijklmnopqrstuvwxyzABCDEFGHIJKLMNOPQRSTUVWXYZ0123456789.-_~") == "" || !c20IsASCII(host) && !strings.ContainsAny(host, " :/?#@[]<>\"%\\^`{|}"):
			case strings.Contains(host, ":"):
				hostClass = "/host-has-colon"
			default:
				hostClass = "/host-not-a-hostname"
			}
		}
		if ierr != nil {
			c.Violate("C20/mierus-roundtrip/import-fails"+hostClass, fmt.Sprintf("the exported link %.200q is rejected: %v", us, ierr), k)
			continue
		}
		c.Hist("roundtrip", "checked")
		qs := &pb.ServerEndpoint{}
		if len(q.Servers) == 1 {
			qs = q.Servers[0]
		}
		qhost := qs.GetDomainName()
		if qhost == "" {
			qhost = qs.GetIpAddress()
		}
		diff := ""
		switch {
		case q.GetProfileName() != p.GetProfileName():
			diff = "profileName"
		case q.GetUser().GetName() != p.GetUser().GetName():
			diff = "user.name"
		case q.GetUser().GetPassword() != p.GetUser().GetPassword():
			diff = "user.password"
		case q.GetMtu() != p.GetMtu():
			diff = "mtu"
		case q.GetMultiplexing().GetLevel() != p.GetMultiplexing().GetLevel():
			diff = "multiplexing.level"
		case q.GetHandshakeMode() != p.GetHandshakeMode():
			diff = "handshakeMode"
		case !proto.Equal(q.GetTrafficPattern(), p.GetTrafficPattern()) && !(proto.Size(p.GetTrafficPattern()) == 0 && q.TrafficPattern == nil):
			diff = "trafficPattern"
		case qhost != host:
			diff = "server.host" + hostClass
		case c20Flat(qs.GetPortBindings()) != c20Flat(srv.GetPortBindings()):
			diff = "server.portBindings"
			for _, b := range srv.GetPortBindings() {
				if b.GetPort() != 0 && b.GetPortRange() != "" {
					diff = "server.portBindings/port-and-range-both-set"
				}
			}
		}
		if diff != "" {
			c.Violate("C20/mierus-roundtrip/"+diff, fmt.Sprintf("import(export(profile)) differs in %s (link %.200q)", diff, us), k)
		}
	}
}

// ---- mieru:// : whole client config ------------------------------------------------------------

func c20ConfigURL(c *core.Ctx, k c20Case) {
	raw, _ := base64.StdEncoding.DecodeString(k.PB)
	cfg := &pb.ClientConfig{}
	if proto.Unmarshal(raw, cfg) != nil {
		return
	}
	c.Eval(c20Key(k), true)
	var link string
	var err error
	if c20Guard(c, k, "ClientConfigToURL", func() { link, err = appctl.ClientConfigToURL(cfg) }) || err != nil {
		return
	}
	var back *pb.ClientConfig
	if c20Guard(c, k, "URLToClientConfig", func() { back, err = appctl.URLToClientConfig(link) }) {
		return
	}
	if err != nil || !proto.Equal(back, cfg) {
		c.Violate("C20/mieru-roundtrip", fmt.Sprintf("URLToClientConfig(ClientConfigToURL(cfg)) differs (err=%v)", err), k)
	}
	// the link text itself goes through the model too
	c20Link(c, c20Case{Kind: "link", Text: hex.EncodeToString([]byte(link))})
}
