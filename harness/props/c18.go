package props

import (
	"bytes"
	"context"
	"encoding/json"
	"errors"
	"fmt"
	"io"
	"net"
	"os"
	"path/filepath"
	"sort"
	"strings"
	"sync"
	"time"

	apicommon "github.com/enfein/mieru/v3/apis/common"
	"github.com/enfein/mieru/v3/apis/model"
	"github.com/enfein/mieru/v3/pkg/socks5"
	"github.com/enfein/mieru/v3/pkg/stderror"
	"verifharness/core"
)

// C18 — UDP-associate tunnelling preserves datagram boundaries, contents and addressing.
//
// Correspondence: the real PacketOverStreamTunnel (over an in-memory re-chunking conn),
// UDPAssociateWrapper, parseSocks5UDPDatagram / udpAddrToHeader / resolveSocks5UDPAddr (hooks) and
// the relays RunUDPAssociateLoop / BidiCopyUDP (real loopback sockets, c18_net.go) against
// Mieru.Model.PoS and Mieru.Model.SocksMsg. Direct oracles: what was written is what is read, same
// boundaries, same order; malformed frames end the read loop with an error and deliver nothing
// further; headers split exactly into header ++ payload; every datagram reaches the sink its header
// names and every reply carries the replying host's header.

type c18Mut struct {
	Kind  string `json:"kind"`            // bad-prefix | bad-suffix | truncate | oversize | none
	Frame int    `json:"frame,omitempty"` // index of the frame that is damaged
	Pos   int    `json:"pos,omitempty"`   // truncate: bytes of that frame that are kept
	Byte  int    `json:"byte,omitempty"`  // replacement marker byte
}

type c18Case struct {
	Kind string `json:"kind"`
	// pos-rt / pos-mut / pos-raw
	Cap       int      `json:"cap,omitempty"`
	Datagrams []string `json:"datagrams,omitempty"` // hex
	Cuts      []int    `json:"cuts,omitempty"`      // sizes the carrying conn hands out, cyclically
	Mut       *c18Mut  `json:"mut,omitempty"`
	Stream    string   `json:"stream,omitempty"` // pos-raw: arbitrary bytes
	// wrap / wrap-raw / hdr / hdr-build / hdr-addr
	IP      string `json:"ip,omitempty"` // hex, 4 or 16 bytes
	Port    int    `json:"port,omitempty"`
	Payload string `json:"payload,omitempty"`
	Pkt     string `json:"pkt,omitempty"`
	AKind   string `json:"akind,omitempty"` // ip4 | ip6 | domain
	Addr    string `json:"addr,omitempty"`  // hex
	// assoc / bidi (c18_net.go)
	Net *c18NetCase `json:"net,omitempty"`
}

// ------------------------------------------------------------------------------------------
// in-memory re-chunking conn

type c18Half struct {
	mu     sync.Mutex
	cond   *sync.Cond
	buf    []byte
	closed bool
	cuts   []int
	idx    int
	served [][]byte // chunks handed out (only recorded when record is set)
	record bool
	reads  int
}

func newC18Half(cuts []int) *c18Half {
	h := &c18Half{cuts: cuts}
	h.cond = sync.NewCond(&h.mu)
	return h
}

func (h *c18Half) write(p []byte) (int, error) {
	h.mu.Lock()
	defer h.mu.Unlock()
	if h.closed {
		return 0, io.ErrClosedPipe
	}
	h.buf = append(h.buf, p...)
	h.cond.Broadcast()
	return len(p), nil
}

func (h *c18Half) read(p []byte) (int, error) {
	h.mu.Lock()
	defer h.mu.Unlock()
	for len(h.buf) == 0 && !h.closed {
		h.cond.Wait()
	}
	if len(h.buf) == 0 {
		return 0, io.EOF
	}
	n := len(p)
	if len(h.cuts) > 0 {
		cut := h.cuts[h.idx%len(h.cuts)]
		h.idx++
		if cut < n {
			n = cut
		}
	}
	if n > len(h.buf) {
		n = len(h.buf)
	}
	copy(p, h.buf[:n])
	if h.record {
		h.served = append(h.served, append([]byte(nil), h.buf[:n]...))
	}
	h.buf = h.buf[n:]
	h.reads++
	return n, nil
}

func (h *c18Half) close() {
	h.mu.Lock()
	h.closed = true
	h.cond.Broadcast()
	h.mu.Unlock()
}

func (h *c18Half) remaining() int {
	h.mu.Lock()
	defer h.mu.Unlock()
	return len(h.buf)
}

// c18Conn is one end of an in-memory duplex stream. Reads are cut into the sizes the read half
// prescribes; Close ends both directions (the peer reads EOF after draining).
type c18Conn struct {
	r, w *c18Half
}

func (c *c18Conn) Read(p []byte) (int, error)  { return c.r.read(p) }
func (c *c18Conn) Write(p []byte) (int, error) { return c.w.write(p) }
func (c *c18Conn) Close() error {
	c.r.close()
	c.w.close()
	return nil
}
func (c *c18Conn) LocalAddr() net.Addr              { return &net.TCPAddr{IP: net.IPv4(127, 0, 0, 1), Port: 1} }
func (c *c18Conn) RemoteAddr() net.Addr             { return &net.TCPAddr{IP: net.IPv4(127, 0, 0, 1), Port: 2} }
func (c *c18Conn) SetDeadline(time.Time) error      { return nil }
func (c *c18Conn) SetReadDeadline(time.Time) error  { return nil }
func (c *c18Conn) SetWriteDeadline(time.Time) error { return nil }

// c18Pipe returns the two ends; cutsA cuts what end A reads, cutsB what end B reads.
func c18Pipe(cutsA, cutsB []int) (*c18Conn, *c18Conn) {
	ab, ba := newC18Half(cutsB), newC18Half(cutsA)
	return &c18Conn{r: ba, w: ab}, &c18Conn{r: ab, w: ba}
}

// c18Source is a read-only conn over a fixed stream followed by EOF.
func c18Source(stream []byte, cuts []int, record bool) *c18Conn {
	r := newC18Half(cuts)
	r.buf = append([]byte(nil), stream...)
	r.closed = true
	r.record = record
	return &c18Conn{r: r, w: newC18Half(nil)}
}

// ------------------------------------------------------------------------------------------
// canonicalisers

func c18PosErr(err error) string {
	switch {
	case err == nil:
		return "nil"
	case err == io.EOF:
		return "eof"
	case err == io.ErrUnexpectedEOF:
		return "unexpected-eof"
	case err == io.ErrShortBuffer:
		return "short-buffer"
	case strings.HasPrefix(err.Error(), "packet prefix"):
		return "bad-prefix"
	case strings.HasPrefix(err.Error(), "packet suffix"):
		return "bad-suffix"
	}
	return "other:" + err.Error()
}

func c18HdrErr(err error) string {
	switch {
	case err == nil:
		return "nil"
	case errors.Is(err, stderror.ErrNoEnoughData):
		return "no-enough-data"
	case errors.Is(err, stderror.ErrInvalidArgument):
		return "invalid-argument"
	case errors.Is(err, stderror.ErrUnsupported):
		return "unsupported"
	case errors.Is(err, model.ErrUnrecognizedAddrType):
		return "unrecognized-addr-type"
	}
	return "other:" + err.Error()
}

func c18WrapErr(err error) string {
	switch {
	case err == nil:
		return "nil"
	case err == io.EOF || err == io.ErrUnexpectedEOF:
		return "short"
	case errors.Is(err, model.ErrUnrecognizedAddrType):
		return "unrecognized-addr-type"
	case strings.Contains(err.Error(), "too short to hold"):
		return "too-short"
	case strings.Contains(err.Error(), "invalid UDP header"):
		return "invalid-header"
	case strings.Contains(err.Error(), "fragment"):
		return "fragment"
	case strings.Contains(err.Error(), "FQDN"):
		return "fqdn"
	}
	return "other:" + err.Error()
}

func c18ShowAddr(a model.AddrSpec) string {
	switch {
	case a.FQDN != "" || len(a.IP) == 0:
		return fmt.Sprintf("domain %s %d", core.Hex([]byte(a.FQDN)), a.Port)
	case len(a.IP) == 4:
		return fmt.Sprintf("ip4 %s %d", core.Hex(a.IP), a.Port)
	default:
		return fmt.Sprintf("ip6 %s %d", core.Hex(a.IP), a.Port)
	}
}

func c18CanonIP(ip net.IP) []byte {
	if v4 := ip.To4(); v4 != nil {
		return v4
	}
	return ip.To16()
}

func c18Hexes(ds [][]byte) string {
	var sb strings.Builder
	fmt.Fprintf(&sb, "%d", len(ds))
	for _, d := range ds {
		sb.WriteByte(' ')
		sb.WriteString(core.Hex(d))
	}
	return sb.String()
}

func c18Short(s string) string {
	if len(s) > 160 {
		return s[:160] + fmt.Sprintf("…(%d chars)", len(s))
	}
	return s
}

// ------------------------------------------------------------------------------------------
// framing

// c18WriteAll writes the datagrams through a real tunnel and returns the bytes that reached the
// carrying conn plus the per-datagram results ("ok" or "too-long").
func c18WriteAll(ds [][]byte) ([]byte, []string) {
	sink := newC18Half(nil)
	w := apicommon.NewPacketOverStreamTunnel(&c18Conn{r: newC18Half(nil), w: sink})
	var res []string
	for _, d := range ds {
		n, err := w.Write(d)
		switch {
		case err == nil && n == len(d):
			res = append(res, "ok")
		case err != nil && strings.Contains(err.Error(), "larger than maximum length"):
			res = append(res, "too-long")
		default:
			res = append(res, fmt.Sprintf("other:n=%d,err=%v", n, err))
		}
	}
	return sink.buf, res
}

type c18ReadRun struct {
	ds     [][]byte
	end    string
	chunks [][]byte
	unread int
}

// c18ReadAll runs the caller loop: Read into a cap-byte buffer until the first error.
func c18ReadAll(stream []byte, capN int, cuts []int, record bool) (r c18ReadRun) {
	src := c18Source(stream, cuts, record)
	t := apicommon.NewPacketOverStreamTunnel(src)
	buf := make([]byte, capN)
	defer func() {
		if p := recover(); p != nil {
			r.end = fmt.Sprintf("panic:%v", p)
		}
	}()
	for i := 0; i <= len(stream)+1; i++ {
		n, err := t.Read(buf)
		if err != nil {
			r.end = c18PosErr(err)
			if n != 0 {
				r.end += fmt.Sprintf("+n=%d", n)
			}
			r.chunks = src.r.served
			r.unread = src.r.remaining()
			return r
		}
		r.ds = append(r.ds, append([]byte(nil), buf[:n]...))
	}
	r.end = "no-termination"
	return r
}

func c18SizeKey(ds [][]byte) string {
	m := 0
	for _, d := range ds {
		if len(d) > m {
			m = len(d)
		}
	}
	return core.SizeBucket(m)
}

func c18Datagrams(k c18Case) [][]byte {
	var ds [][]byte
	for _, h := range k.Datagrams {
		ds = append(ds, core.UnHex(h))
	}
	return ds
}

func c18Frame(d []byte) []byte {
	f := []byte{0, byte(len(d) >> 8), byte(len(d))}
	f = append(f, d...)
	return append(f, 0xff)
}

// c18Mutate builds the damaged stream of a pos-mut case from the harness's own framing (not the
// code's), so the expectation is independent of the code under test.
func c18Mutate(ds [][]byte, m *c18Mut) (stream []byte, okPrefix int) {
	for i, d := range ds {
		f := c18Frame(d)
		if m != nil && i == m.Frame {
			switch m.Kind {
			case "bad-prefix":
				f[0] = byte(m.Byte)
			case "bad-suffix":
				f[len(f)-1] = byte(m.Byte)
			case "truncate":
				return append(stream, f[:m.Pos]...), i
			}
		}
		stream = append(stream, f...)
	}
	if m != nil && m.Kind != "none" && m.Kind != "" {
		return stream, m.Frame
	}
	return stream, len(ds)
}

func c18ModelChunks(chunks [][]byte, stream []byte) string {
	if len(chunks) == 0 || len(chunks) > 400 {
		return core.Hex(stream)
	}
	parts := make([]string, 0, len(chunks))
	for _, ch := range chunks {
		parts = append(parts, core.Hex(ch))
	}
	return strings.Join(parts, " ")
}

// c18PosRoundTrip: write through the real tunnel, read back through a re-chunking conn.
func c18PosRoundTrip(c *core.Ctx, k c18Case) {
	ds := c18Datagrams(k)
	stream, wres := c18WriteAll(ds)
	fits := true
	for i, d := range ds {
		c.Hist("datagram_size", core.SizeBucket(len(d)))
		want := "ok"
		if len(d) > 65535 {
			want = "too-long"
		}
		if wres[i] != want {
			c.Violate("C18/pos/write/size="+core.SizeBucket(len(d)), fmt.Sprintf("Write of %d bytes: %s, want %s", len(d), wres[i], want), k)
		}
		m := c.Model.Ask("pos-write %s", core.Hex(d))
		c.Compared()
		if (want == "ok") != strings.HasPrefix(m, "ok ") {
			c.Disagree("C18/corr/pos-write", fmt.Sprintf("Write(%d bytes): model %s impl %s", len(d), c18Short(m), wres[i]), k)
		}
		if len(d) > k.Cap || len(d) > 65535 {
			fits = false
		}
	}
	// the written stream is the model's encoding of the accepted datagrams
	var accepted [][]byte
	for _, d := range ds {
		if len(d) <= 65535 {
			accepted = append(accepted, d)
		}
	}
	var own []byte
	for _, d := range accepted {
		own = append(own, c18Frame(d)...)
	}
	if !bytes.Equal(own, stream) {
		c.Violate("C18/pos/wire-format", "bytes written are not 0x00 | len | data | 0xff per datagram", k)
	}
	if len(accepted) > 0 {
		args := make([]string, len(accepted))
		for i, d := range accepted {
			args[i] = core.Hex(d)
		}
		m := c.Model.Ask("pos-enc %s", strings.Join(args, " "))
		c.Compared()
		if m != "ok "+core.Hex(stream) {
			c.Disagree("C18/corr/pos-enc", fmt.Sprintf("written stream differs from posEncode: model %s", c18Short(m)), k)
		}
	}
	c18PosRead(c, k, stream, accepted, len(accepted), fits)
	if !fits {
		// direct oracle for a datagram above the reader's buffer: everything before it is delivered,
		// then io.ErrShortBuffer, nothing after it
		first := 0
		for first < len(accepted) && len(accepted[first]) <= k.Cap {
			first++
		}
		if first < len(accepted) {
			r := c18ReadAll(stream, k.Cap, k.Cuts, false)
			if len(r.ds) != first || r.end != "short-buffer" {
				c.Violate("C18/pos/oversize", fmt.Sprintf("datagram %d (%d bytes) exceeds the %d-byte buffer: %d datagrams returned, loop ended with %s", first, len(accepted[first]), k.Cap, len(r.ds), r.end), k)
			}
		}
	}
}

// c18PosRead reads `stream` through the real tunnel and compares with the model; `want` are the
// datagrams the stream was built from, okPrefix how many of them must come out.
func c18PosRead(c *core.Ctx, k c18Case, stream []byte, want [][]byte, okPrefix int, clean bool) {
	r := c18ReadAll(stream, k.Cap, k.Cuts, true)
	c.Eval(fmt.Sprintf("pos/%d/%v/%x", k.Cap, k.Cuts, stream), len(r.ds) > 0)
	c.Hist("read_end", strings.SplitN(r.end, ":", 2)[0])
	c.Hist("chunks_per_stream", core.SizeBucket(len(r.chunks)))
	got := "ok " + c18Hexes(r.ds) + " " + r.end
	// correspondence 1: incremental reader, same chunking
	m := c.Model.Ask("pos-feed %d %s", k.Cap, c18ModelChunks(r.chunks, stream))
	c.Compared()
	mf := m
	if i := strings.LastIndex(m, " "); i > 0 {
		mf = m[:i] // drop the phase name
	}
	if mf != got {
		c.Disagree("C18/corr/pos-feed", fmt.Sprintf("reader loop: model %s impl %s", c18Short(m), c18Short(got)), k)
	}
	// correspondence 2: the loop of single Read calls
	m2 := c.Model.Ask("pos-read %d %s", k.Cap, core.Hex(stream))
	c.Compared()
	if m2 != got {
		c.Disagree("C18/corr/pos-read", fmt.Sprintf("Read loop: model %s impl %s", c18Short(m2), c18Short(got)), k)
	}
	// direct oracle
	sz := c18SizeKey(want)
	if strings.HasPrefix(r.end, "panic") || r.end == "no-termination" {
		c.Violate("C18/pos/read-"+strings.SplitN(r.end, ":", 2)[0], "reader "+r.end, k)
		return
	}
	if len(r.ds) > okPrefix {
		c.Violate("C18/pos/extra-datagram/"+c18MutKind(k), fmt.Sprintf("%d datagrams returned, only %d complete frames precede the damage", len(r.ds), okPrefix), k)
	}
	for i := 0; i < len(r.ds) && i < len(want); i++ {
		if !bytes.Equal(r.ds[i], want[i]) {
			c.Violate("C18/pos/content/size="+sz, fmt.Sprintf("datagram %d differs from what was written (%d vs %d bytes)", i, len(r.ds[i]), len(want[i])), k)
			break
		}
	}
	if clean {
		if len(r.ds) != len(want) || r.end != "eof" {
			c.Violate("C18/pos/roundtrip/size="+sz, fmt.Sprintf("wrote %d datagrams, read %d, loop ended with %s", len(want), len(r.ds), r.end), k)
		}
		return
	}
	if len(r.ds) < okPrefix && k.Kind != "pos-raw" {
		// fewer than the intact prefix is only legitimate when one of them exceeds the buffer
		short := false
		for i := 0; i <= len(r.ds) && i < len(want); i++ {
			if len(want[i]) > k.Cap {
				short = true
			}
		}
		if !short {
			c.Violate("C18/pos/lost-datagram/"+c18MutKind(k), fmt.Sprintf("%d datagrams returned, %d intact frames precede the damage", len(r.ds), okPrefix), k)
		}
	}
	if k.Mut != nil {
		switch k.Mut.Kind {
		case "bad-prefix", "bad-suffix":
			if r.end != k.Mut.Kind && r.end != "short-buffer" {
				c.Violate("C18/pos/malformed-accepted/"+k.Mut.Kind, fmt.Sprintf("damaged marker 0x%02x in frame %d: loop ended with %s", k.Mut.Byte, k.Mut.Frame, r.end), k)
			}
		case "truncate":
			if r.end != "eof" && r.end != "unexpected-eof" && r.end != "short-buffer" {
				c.Violate("C18/pos/malformed-accepted/truncate", fmt.Sprintf("stream cut %d bytes into frame %d: loop ended with %s", k.Mut.Pos, k.Mut.Frame, r.end), k)
			}
		}
	}
}

func c18MutKind(k c18Case) string {
	if k.Mut == nil {
		return k.Kind
	}
	return k.Mut.Kind
}

// c18PosMut: a valid encoding with one damaged frame.
func c18PosMut(c *core.Ctx, k c18Case) {
	ds := c18Datagrams(k)
	stream, okPrefix := c18Mutate(ds, k.Mut)
	c.Hist("malformed_kind", c18MutKind(k))
	c18PosRead(c, k, stream, ds, okPrefix, false)
}

// c18PosRaw: arbitrary bytes; per-call correspondence (what ONE Read returns and how much of the
// stream it consumed), including calls made after an error.
func c18PosRaw(c *core.Ctx, k c18Case) {
	stream := core.UnHex(k.Stream)
	c.Hist("malformed_kind", "raw")
	c18PosRead(c, k, stream, nil, 1<<30, false)
	if len(stream) > 4096 {
		return
	}
	src := c18Source(stream, k.Cuts, false)
	t := apicommon.NewPacketOverStreamTunnel(src)
	buf := make([]byte, k.Cap)
	rest := stream
	for call := 0; call < 64; call++ {
		var n int
		var err error
		func() {
			defer func() {
				if p := recover(); p != nil {
					err = fmt.Errorf("panic:%v", p)
				}
			}()
			n, err = t.Read(buf)
		}()
		unread := src.r.remaining()
		var got string
		if err == nil {
			got = fmt.Sprintf("ok %s %d", core.Hex(buf[:n]), unread)
		} else {
			got = fmt.Sprintf("err %s %d", c18PosErr(err), unread)
		}
		m := c.Model.Ask("pos-read1 %d %s", k.Cap, core.Hex(rest))
		c.Compared()
		if m != got {
			c.Disagree("C18/corr/pos-read1", fmt.Sprintf("call %d on %d remaining bytes: model %s impl %s", call, len(rest), c18Short(m), c18Short(got)), k)
			return
		}
		if err != nil && strings.HasPrefix(err.Error(), "panic") {
			c.Violate("C18/pos/read-panic", err.Error(), k)
			return
		}
		rest = stream[len(stream)-unread:]
		if len(rest) == 0 && err != nil {
			return
		}
	}
}

// ------------------------------------------------------------------------------------------
// UDPAssociateWrapper

type c18PacketQueue struct {
	in   [][]byte // packets ReadFrom hands out
	out  [][]byte // packets WriteTo received
	dst  []net.Addr
	from net.Addr
}

func (q *c18PacketQueue) ReadFrom(p []byte) (int, net.Addr, error) {
	if len(q.in) == 0 {
		return 0, nil, io.EOF
	}
	pkt := q.in[0]
	q.in = q.in[1:]
	return copy(p, pkt), q.from, nil
}
func (q *c18PacketQueue) WriteTo(p []byte, a net.Addr) (int, error) {
	q.out = append(q.out, append([]byte(nil), p...))
	q.dst = append(q.dst, a)
	return len(p), nil
}
func (q *c18PacketQueue) Close() error { return nil }
func (q *c18PacketQueue) LocalAddr() net.Addr {
	return &net.UDPAddr{IP: net.IPv4(127, 0, 0, 1), Port: 9}
}
func (q *c18PacketQueue) SetDeadline(time.Time) error      { return nil }
func (q *c18PacketQueue) SetReadDeadline(time.Time) error  { return nil }
func (q *c18PacketQueue) SetWriteDeadline(time.Time) error { return nil }

func c18WrapRead(pkt []byte, capN int) (n int, addr net.Addr, err error, buf []byte) {
	q := &c18PacketQueue{in: [][]byte{pkt}, from: &net.UDPAddr{IP: net.IPv4(10, 0, 0, 1), Port: 7}}
	w := apicommon.NewUDPAssociateWrapper(q)
	buf = make([]byte, capN)
	defer func() {
		if p := recover(); p != nil {
			err = fmt.Errorf("panic:%v", p)
		}
	}()
	n, addr, err = w.ReadFrom(buf)
	return
}

func c18WrapReadShow(n int, addr net.Addr, err error, buf []byte) string {
	if err != nil {
		return "err " + c18WrapErr(err)
	}
	ua, _ := addr.(*net.UDPAddr)
	if ua == nil {
		return fmt.Sprintf("other:addr=%T", addr)
	}
	return fmt.Sprintf("ok %s %d %s", core.Hex(ua.IP), ua.Port, core.Hex(buf[:n]))
}

// c18Wrap: WriteTo on one wrapper, ReadFrom on another: payload and address survive.
func c18Wrap(c *core.Ctx, k c18Case) {
	ip, payload := net.IP(core.UnHex(k.IP)), core.UnHex(k.Payload)
	c.Eval(fmt.Sprintf("wrap/%s/%d/%d/%s", k.IP, k.Port, k.Cap, k.Payload), true)
	c.Hist("wrapper_payload_size", core.SizeBucket(len(payload)))
	q := &c18PacketQueue{}
	w := apicommon.NewUDPAssociateWrapper(q)
	dst := &net.UDPAddr{IP: ip, Port: k.Port}
	n, err := w.WriteTo(payload, dst)
	if err != nil || n != len(payload) || len(q.out) != 1 {
		c.Violate("C18/wrapper/write", fmt.Sprintf("WriteTo: n=%d err=%v packets=%d", n, err, len(q.out)), k)
		return
	}
	pkt := q.out[0]
	m := c.Model.Ask("socks-wrap-write %s %d %s", k.IP, k.Port, k.Payload)
	c.Compared()
	if m != "ok "+core.Hex(pkt) {
		c.Disagree("C18/corr/wrap-write", fmt.Sprintf("WriteTo packet: model %s impl %s", c18Short(m), c18Short(core.Hex(pkt))), k)
	}
	rn, raddr, rerr, buf := c18WrapRead(pkt, k.Cap)
	got := c18WrapReadShow(rn, raddr, rerr, buf)
	m = c.Model.Ask("socks-wrap-read %d %s", k.Cap, core.Hex(pkt))
	c.Compared()
	if m != got {
		c.Disagree("C18/corr/wrap-read", fmt.Sprintf("ReadFrom: model %s impl %s", c18Short(m), c18Short(got)), k)
	}
	// direct oracle
	sub := "roundtrip"
	if len(payload) == 0 {
		sub = "empty-payload"
	}
	if rerr != nil {
		c.Violate("C18/wrapper/"+sub, fmt.Sprintf("ReadFrom of a well-formed datagram (%d payload bytes) failed: n=%d err=%v", len(payload), rn, rerr), k)
		return
	}
	want := payload
	if len(want) > k.Cap {
		want = want[:k.Cap]
	}
	ua, _ := raddr.(*net.UDPAddr)
	if !bytes.Equal(buf[:rn], want) || ua == nil || !ua.IP.Equal(ip) || ua.Port != k.Port {
		c.Violate("C18/wrapper/"+sub, fmt.Sprintf("wrote %d bytes to %v, read %d bytes from %v", len(payload), dst, rn, raddr), k)
	}
}

// c18WrapRaw: arbitrary packet offered to ReadFrom.
func c18WrapRaw(c *core.Ctx, k c18Case) {
	pkt := core.UnHex(k.Pkt)
	rn, raddr, rerr, buf := c18WrapRead(pkt, k.Cap)
	got := c18WrapReadShow(rn, raddr, rerr, buf)
	c.Eval(fmt.Sprintf("wrapraw/%d/%s", k.Cap, k.Pkt), rerr == nil)
	c.Hist("wrapper_read", strings.SplitN(got, " ", 3)[0]+" "+c18WrapErr(rerr))
	m := c.Model.Ask("socks-wrap-read %d %s", k.Cap, k.Pkt)
	c.Compared()
	if m != got {
		c.Disagree("C18/corr/wrap-read", fmt.Sprintf("ReadFrom(raw): model %s impl %s", c18Short(m), c18Short(got)), k)
	}
	if rerr != nil && strings.HasPrefix(rerr.Error(), "panic") {
		c.Violate("C18/wrapper/panic", rerr.Error(), k)
	}
}

// ------------------------------------------------------------------------------------------
// SOCKS5 UDP header

type c18Resolver map[string]net.IP

func (r c18Resolver) LookupIP(_ context.Context, _ string, host string) ([]net.IP, error) {
	if ip, ok := r[host]; ok {
		return []net.IP{ip}, nil
	}
	return nil, fmt.Errorf("c18: no such host %q", host)
}

// c18Hdr: parse (in recover), split law, rebuild, destination.
func c18Hdr(c *core.Ctx, k c18Case) {
	pkt := core.UnHex(k.Pkt)
	var d *socks5.VerifUDPDatagram
	var err error
	func() {
		defer func() {
			if p := recover(); p != nil {
				err = fmt.Errorf("panic:%v", p)
			}
		}()
		d, err = socks5.VerifParseSocks5UDPDatagram(append([]byte(nil), pkt...))
	}()
	c.Eval("hdr/"+k.Pkt, err == nil)
	if err != nil && strings.HasPrefix(err.Error(), "panic") {
		c.Violate("C18/header/parse-panic", err.Error(), k)
		return
	}
	got := "err " + c18HdrErr(err)
	if err == nil {
		got = fmt.Sprintf("ok %s %s %s", c18ShowAddr(d.Addr), core.Hex(d.Header), core.Hex(d.Payload))
		c.Hist("header_parse", "ok "+strings.SplitN(c18ShowAddr(d.Addr), " ", 2)[0])
	} else {
		c.Hist("header_parse", got)
	}
	m := c.Model.Ask("socks-udp-parse %s", k.Pkt)
	c.Compared()
	if m != got {
		c.Disagree("C18/corr/udp-parse", fmt.Sprintf("parseSocks5UDPDatagram: model %s impl %s", c18Short(m), c18Short(got)), k)
	}
	if err != nil {
		return
	}
	// direct oracle: nothing lost, nothing invented
	if !bytes.Equal(append(append([]byte(nil), d.Header...), d.Payload...), pkt) {
		c.Violate("C18/header/split", "header ++ payload differs from the datagram", k)
	}
	// rebuild
	var rb []byte
	var rerr error
	func() {
		defer func() {
			if p := recover(); p != nil {
				rerr = fmt.Errorf("panic:%v", p)
			}
		}()
		rb, rerr = socks5.VerifNewSocks5UDPDatagram(d.Addr, d.Payload)
	}()
	gotb := "err " + c18HdrErr(rerr)
	if rerr == nil {
		gotb = "ok " + core.Hex(rb)
	}
	f := strings.Fields(c18ShowAddr(d.Addr))
	mb := c.Model.Ask("socks-udp-build %s %s %s %s", f[0], f[1], f[2], core.Hex(d.Payload))
	c.Compared()
	if mb != gotb {
		c.Disagree("C18/corr/udp-build", fmt.Sprintf("newSocks5UDPDatagram: model %s impl %s", c18Short(mb), c18Short(gotb)), k)
	}
	canonical := !(len(d.Addr.IP) == 16 && d.Addr.IP.To4() != nil) && !(len(d.Addr.IP) == 0 && d.Addr.FQDN == "")
	if canonical && (rerr != nil || !bytes.Equal(rb, pkt)) {
		c.Violate("C18/header/roundtrip/"+f[0], fmt.Sprintf("parse then rebuild differs (err=%v)", rerr), k)
	}
	// destination
	res := c18Resolver{"known.test": net.IPv4(192, 0, 2, 7).To4(), "six.test": net.ParseIP("2001:db8::7")}
	var ua *net.UDPAddr
	var derr error
	func() {
		defer func() {
			if p := recover(); p != nil {
				derr = fmt.Errorf("panic:%v", p)
			}
		}()
		ua, derr = socks5.VerifResolveSocks5UDPAddr(context.Background(), res, d.Addr)
	}()
	md := c.Model.Ask("socks-udp-dest %s", k.Pkt)
	c.Compared()
	var gotd string
	mf := strings.Fields(md)
	switch {
	case derr != nil && strings.HasPrefix(derr.Error(), "panic"):
		c.Violate("C18/header/resolve-panic", derr.Error(), k)
		return
	case len(mf) == 4 && mf[1] == "lookup":
		// the model leaves the name to the resolver: check the name/port it handed over
		name := string(core.UnHex(mf[2]))
		gotd = md
		wantIP, known := res[name]
		if pip := net.ParseIP(name); pip != nil {
			wantIP, known = pip, true
		}
		if name != d.Addr.FQDN || (known && (derr != nil || !ua.IP.Equal(wantIP) || fmt.Sprint(ua.Port) != mf[3])) || (!known && derr == nil) {
			gotd = fmt.Sprintf("impl fqdn=%q addr=%v err=%v", d.Addr.FQDN, ua, derr)
		}
	case derr != nil:
		gotd = "ok none"
	default:
		gotd = fmt.Sprintf("ok ip %s %d", core.Hex(c18CanonIP(ua.IP)), ua.Port)
	}
	if md != gotd {
		c.Disagree("C18/corr/udp-dest", fmt.Sprintf("resolveSocks5UDPAddr: model %s impl %s", md, gotd), k)
	}
}

// c18HdrBuild: build from an address then parse: the same address, header and payload.
func c18HdrBuild(c *core.Ctx, k c18Case) {
	addrB, payload := core.UnHex(k.Addr), core.UnHex(k.Payload)
	var a model.AddrSpec
	switch k.AKind {
	case "ip4", "ip6":
		a = model.AddrSpec{IP: net.IP(addrB), Port: k.Port}
	default:
		a = model.AddrSpec{FQDN: string(addrB), Port: k.Port}
	}
	c.Eval(fmt.Sprintf("hdrb/%s/%s/%d/%s", k.AKind, k.Addr, k.Port, k.Payload), true)
	pkt, err := socks5.VerifNewSocks5UDPDatagram(a, payload)
	got := "err " + c18HdrErr(err)
	if err == nil {
		got = "ok " + core.Hex(pkt)
	}
	m := c.Model.Ask("socks-udp-build %s %s %d %s", k.AKind, k.Addr, k.Port, k.Payload)
	c.Compared()
	if m != got {
		c.Disagree("C18/corr/udp-build", fmt.Sprintf("newSocks5UDPDatagram: model %s impl %s", c18Short(m), c18Short(got)), k)
	}
	if err != nil {
		return
	}
	d, perr := socks5.VerifParseSocks5UDPDatagram(pkt)
	canonical := !(k.AKind == "ip6" && net.IP(addrB).To4() != nil)
	if perr != nil || !bytes.Equal(d.Payload, payload) {
		c.Violate("C18/header/roundtrip/"+k.AKind, fmt.Sprintf("build then parse: err=%v", perr), k)
		return
	}
	same := d.Addr.Port == k.Port && ((k.AKind == "domain" && d.Addr.FQDN == string(addrB)) || (k.AKind != "domain" && d.Addr.IP.Equal(net.IP(addrB))))
	if !same || (canonical && k.AKind != "domain" && !bytes.Equal(d.Addr.IP, addrB)) {
		c.Violate("C18/header/roundtrip/"+k.AKind, fmt.Sprintf("build then parse changed the address: %v", d.Addr), k)
	}
	if k.AKind != "domain" {
		h := socks5.VerifUDPAddrToHeader(&net.UDPAddr{IP: net.IP(addrB), Port: k.Port})
		mh := c.Model.Ask("socks-udp-header %s %d", k.Addr, k.Port)
		c.Compared()
		if mh != "ok "+core.Hex(h) {
			c.Disagree("C18/corr/udp-header", fmt.Sprintf("udpAddrToHeader: model %s impl %s", mh, core.Hex(h)), k)
		}
		if !bytes.Equal(h, pkt[:len(pkt)-len(payload)]) {
			c.Violate("C18/header/addr-to-header", "udpAddrToHeader differs from the header newSocks5UDPDatagram writes", k)
		}
	}
}

// ------------------------------------------------------------------------------------------

func c18RunCase(c *core.Ctx, k c18Case) {
	switch k.Kind {
	case "pos-rt":
		c18PosRoundTrip(c, k)
	case "pos-mut":
		c18PosMut(c, k)
	case "pos-raw":
		c18PosRaw(c, k)
	case "wrap":
		c18Wrap(c, k)
	case "wrap-raw":
		c18WrapRaw(c, k)
	case "hdr":
		c18Hdr(c, k)
	case "hdr-build":
		c18HdrBuild(c, k)
	case "assoc":
		c18Assoc(c, k)
	case "bidi":
		c18Bidi(c, k)
	default:
		c.Note("C18: unknown case kind %q ignored", k.Kind)
	}
}

func c18LoadCorpus(c *core.Ctx) []c18Case {
	var out []c18Case
	files, _ := filepath.Glob(filepath.Join(c.Corpus, "*.json"))
	sort.Strings(files)
	for _, f := range files {
		raw, err := os.ReadFile(f)
		if err != nil {
			continue
		}
		var wrap struct {
			Input json.RawMessage `json:"input"`
		}
		var k c18Case
		if json.Unmarshal(raw, &wrap) == nil && len(wrap.Input) > 0 {
			raw = wrap.Input
		}
		if json.Unmarshal(raw, &k) == nil && k.Kind != "" {
			out = append(out, k)
		} else {
			c.Note("C18: corpus file %s not understood", filepath.Base(f))
		}
	}
	return out
}

func c18Content(c *core.Ctx, n int) []byte {
	d := make([]byte, n)
	switch c.Rand.Intn(8) {
	case 0:
		// all 0x00 (the start marker)
	case 1:
		for i := range d {
			d[i] = 0xff
		}
	case 2:
		for i := range d {
			d[i] = []byte{0x00, 0xff}[i%2]
		}
	case 3: // looks like frames
		f := []byte{0x00, 0x00, 0x01, 0x41, 0xff}
		for i := range d {
			d[i] = f[i%len(f)]
		}
	case 4:
		for i := range d {
			d[i] = []byte{0x00, 0xff}[c.Rand.Intn(2)]
		}
	default:
		c.Rand.Read(d)
	}
	return d
}

var c18BoundarySizes = []int{0, 1, 2, 3, 255, 256, 257, 65534, 65535}

func c18Size(c *core.Ctx, big bool) int {
	switch c.Rand.Intn(10) {
	case 0, 1, 2:
		s := c18BoundarySizes[c.Rand.Intn(len(c18BoundarySizes))]
		if s > 60000 && !big {
			s = 255
		}
		return s
	case 3:
		return 1 + c.Rand.Intn(2000)
	case 4:
		if big {
			return 60000 + c.Rand.Intn(5536)
		}
		return c.Rand.Intn(600)
	default:
		return c.Rand.Intn(64)
	}
}

func c18Cuts(c *core.Ctx) []int {
	switch c.Rand.Intn(9) {
	case 0:
		return []int{1}
	case 1:
		return []int{2}
	case 2:
		return []int{3}
	case 3:
		return []int{1, 2}
	case 4:
		return []int{4, 1}
	case 5:
		return nil // whatever the reader asks for
	case 6:
		return []int{1 << 16}
	case 7:
		n := 1 + c.Rand.Intn(6)
		cuts := make([]int, n)
		for i := range cuts {
			cuts[i] = c.Rand.Intn(9) // includes empty reads
		}
		cuts[c.Rand.Intn(n)] = 1 + c.Rand.Intn(8)
		return cuts
	default:
		return []int{1 + c.Rand.Intn(300), 1 + c.Rand.Intn(5)}
	}
}

func c18RandIP(c *core.Ctx) []byte {
	switch c.Rand.Intn(4) {
	case 0:
		b := make([]byte, 4)
		c.Rand.Read(b)
		return b
	case 1:
		b := make([]byte, 16)
		c.Rand.Read(b)
		return b
	case 2: // IPv4-mapped
		b := make([]byte, 16)
		b[10], b[11] = 0xff, 0xff
		c.Rand.Read(b[12:])
		return b
	default:
		return [][]byte{{8, 8, 8, 8}, {127, 0, 0, 1}, {0, 0, 0, 0}, net.ParseIP("::1"), net.ParseIP("::"), net.ParseIP("2001:db8::1")}[c.Rand.Intn(6)]
	}
}

func c18RandHeader(c *core.Ctx) []byte {
	h := []byte{0, 0, 0}
	switch c.Rand.Intn(5) {
	case 0:
		h = append(h, 1)
		h = append(h, c18RandIP(c)[:4]...)
	case 1:
		h = append(h, 4)
		ip := c18RandIP(c)
		for len(ip) < 16 {
			ip = append(ip, byte(c.Rand.Intn(256)))
		}
		h = append(h, ip...)
	case 2, 3:
		names := []string{"known.test", "six.test", "unknown.test", "a", "192.0.2.9", "", strings.Repeat("x", 255), "Known.Test", "::1"}
		n := names[c.Rand.Intn(len(names))]
		h = append(h, 3, byte(len(n)))
		h = append(h, n...)
	default:
		h = append(h, byte(c.Rand.Intn(256)))
		x := make([]byte, c.Rand.Intn(20))
		c.Rand.Read(x)
		h = append(h, x...)
	}
	return append(h, byte(c.Rand.Intn(256)), byte(c.Rand.Intn(256)))
}

func init() {
	core.Register("C18", &core.Scenario{
		Run: func(c *core.Ctx) {
			c.Res.Rule = "structured stream: datagram lists (boundary sizes 0,1,2,3,255,256,257,65534,65535, marker-valued and frame-looking contents) written by the real tunnel and read back through a conn that re-cuts the stream (1,2,3-byte cuts, empty reads, cuts inside the 3-byte header) into buffers of several sizes; malformed stream: one damaged frame per valid encoding (first marker, end marker, truncation at EVERY position of small frames, length above the buffer) and arbitrary bytes with per-call consumption checks; wrapper round trips incl. empty payload; SOCKS5 UDP headers (IPv4/IPv6/IPv4-mapped/domain, truncated at every byte, mutated); real-socket associations. Distinct = distinct canonical input; nontrivial = at least one datagram / header accepted."
			c.Correspondence("pos-write/pos-enc/pos-feed/pos-read/pos-read1: apis/common/packet_over_stream.go vs Mieru.Model.PoS")
			c.Correspondence("socks-udp-parse/build/header/dest, socks-wrap-read/write: pkg/socks5/udp.go, apis/model/addr.go, apis/common/udp_associate_wrapper.go vs Mieru.Model.SocksMsg")
			c.Correspondence("assoc-up/assoc-down: pkg/socks5 RunUDPAssociateLoop on loopback sockets vs Mieru.Model.SocksMsg.Assoc; BidiCopyUDP vs posEncode")
			for _, k := range c18LoadCorpus(c) {
				c18RunCase(c, k)
			}
			// --- boundary sizes, each alone, byte-at-a-time and in one piece
			for _, sz := range append([]int{65536, 70000}, c18BoundarySizes...) {
				for _, cuts := range [][]int{{1}, nil, {3}, {2}} {
					if sz > 60000 && len(cuts) > 0 && cuts[0] != 1 {
						continue
					}
					d := c18Content(c, sz)
					c18RunCase(c, c18Case{Kind: "pos-rt", Cap: 65536, Datagrams: []string{core.Hex(d)}, Cuts: cuts})
				}
			}
			// --- structured round trips
			for i := 0; i < c.N(250, 4000); i++ {
				n := 1 + c.Rand.Intn(6)
				big := c.Rand.Intn(12) == 0
				var ds []string
				maxLen := 0
				for j := 0; j < n; j++ {
					sz := c18Size(c, big && j < 2)
					if sz > maxLen {
						maxLen = sz
					}
					ds = append(ds, core.Hex(c18Content(c, sz)))
				}
				capN := 65536
				switch c.Rand.Intn(8) {
				case 0:
					capN = 65535
				case 1:
					capN = maxLen
				case 2:
					if maxLen > 0 {
						capN = maxLen - 1 // the largest one no longer fits
					}
				case 3:
					capN = c.Rand.Intn(4)
				}
				k := c18Case{Kind: "pos-rt", Cap: capN, Datagrams: ds, Cuts: c18Cuts(c)}
				if big && len(k.Cuts) > 0 && k.Cuts[0] == 0 {
					k.Cuts = []int{1, 2}
				}
				if i < 2 {
					c.Sample(k)
				}
				c18RunCase(c, k)
			}
			// --- malformed: every truncation position and every marker of small encodings
			for i := 0; i < c.N(12, 80); i++ {
				n := 1 + c.Rand.Intn(3)
				var ds [][]byte
				var hs []string
				for j := 0; j < n; j++ {
					d := c18Content(c, []int{0, 1, 2, 3, 5, 17}[c.Rand.Intn(6)])
					ds = append(ds, d)
					hs = append(hs, core.Hex(d))
				}
				cuts := c18Cuts(c)
				for f := 0; f < n; f++ {
					for pos := 0; pos < len(ds[f])+4; pos++ {
						c18RunCase(c, c18Case{Kind: "pos-mut", Cap: 65536, Datagrams: hs, Cuts: cuts, Mut: &c18Mut{Kind: "truncate", Frame: f, Pos: pos}})
					}
					for _, b := range []int{0x01, 0xff, 0x80, c.Rand.Intn(255) + 1} {
						c18RunCase(c, c18Case{Kind: "pos-mut", Cap: 65536, Datagrams: hs, Cuts: cuts, Mut: &c18Mut{Kind: "bad-prefix", Frame: f, Byte: b}})
					}
					for _, b := range []int{0x00, 0xfe, 0x7f, c.Rand.Intn(255)} {
						c18RunCase(c, c18Case{Kind: "pos-mut", Cap: 65536, Datagrams: hs, Cuts: cuts, Mut: &c18Mut{Kind: "bad-suffix", Frame: f, Byte: b}})
					}
				}
			}
			for i := 0; i < c.N(60, 1500); i++ {
				n := 1 + c.Rand.Intn(5)
				var hs []string
				var lens []int
				for j := 0; j < n; j++ {
					sz := c18Size(c, false)
					lens = append(lens, sz)
					hs = append(hs, core.Hex(c18Content(c, sz)))
				}
				f := c.Rand.Intn(n)
				mut := &c18Mut{Frame: f}
				switch c.Rand.Intn(3) {
				case 0:
					mut.Kind, mut.Byte = "bad-prefix", 1+c.Rand.Intn(255)
				case 1:
					mut.Kind, mut.Byte = "bad-suffix", c.Rand.Intn(255)
				default:
					mut.Kind, mut.Pos = "truncate", c.Rand.Intn(lens[f]+4)
				}
				k := c18Case{Kind: "pos-mut", Cap: 65536, Datagrams: hs, Cuts: c18Cuts(c), Mut: mut}
				if i == 0 {
					c.Sample(k)
				}
				c18RunCase(c, k)
			}
			// --- arbitrary bytes (per-call correspondence, also after errors)
			for i := 0; i < c.N(150, 3000); i++ {
				var s []byte
				for j := 0; j < 1+c.Rand.Intn(4); j++ {
					switch c.Rand.Intn(4) {
					case 0:
						x := make([]byte, c.Rand.Intn(12))
						c.Rand.Read(x)
						s = append(s, x...)
					case 1:
						s = append(s, c18Frame(c18Content(c, c.Rand.Intn(9)))...)
					case 2: // announced length differs from what follows
						f := c18Frame(c18Content(c, 1+c.Rand.Intn(9)))
						f[2] = byte(int(f[2]) + c.Rand.Intn(5) - 2)
						s = append(s, f...)
					default:
						s = append(s, 0x00, byte(c.Rand.Intn(2)), byte(c.Rand.Intn(256)))
						s = append(s, c18Content(c, c.Rand.Intn(40))...)
					}
				}
				k := c18Case{Kind: "pos-raw", Cap: []int{65536, 8, 0, 1, 300}[c.Rand.Intn(5)], Stream: core.Hex(s), Cuts: c18Cuts(c)}
				if i == 0 {
					c.Sample(k)
				}
				c18RunCase(c, k)
			}
			// --- wrapper
			c18RunCase(c, c18Case{Kind: "wrap", IP: "08080808", Port: 53, Payload: "-", Cap: 1500})
			c18RunCase(c, c18Case{Kind: "wrap", IP: core.Hex(net.ParseIP("2001:db8::1")), Port: 53, Payload: "-", Cap: 1500})
			for i := 0; i < c.N(120, 2000); i++ {
				p := c18Content(c, []int{0, 0, 1, 2, 100, 1472, 1500, 1501, 65507}[c.Rand.Intn(9)])
				k := c18Case{Kind: "wrap", IP: core.Hex(c18RandIP(c)), Port: c.Rand.Intn(65536), Payload: core.Hex(p), Cap: []int{1500, 65536, 0, 1, len(p)}[c.Rand.Intn(5)]}
				if i == 0 {
					c.Sample(k)
				}
				c18RunCase(c, k)
			}
			// --- headers: every truncation of valid datagrams, mutations, random
			for i := 0; i < c.N(150, 2500); i++ {
				pkt := append(c18RandHeader(c), c18Content(c, []int{0, 0, 1, 7, 300}[c.Rand.Intn(5)])...)
				switch c.Rand.Intn(6) {
				case 0:
					pkt[c.Rand.Intn(3)] = byte(1 + c.Rand.Intn(255)) // RSV / FRAG
				case 1:
					pkt[c.Rand.Intn(len(pkt))] ^= byte(1 << uint(c.Rand.Intn(8)))
				}
				k := c18Case{Kind: "hdr", Pkt: core.Hex(pkt)}
				if i == 0 {
					c.Sample(k)
				}
				c18RunCase(c, k)
				c18RunCase(c, c18Case{Kind: "wrap-raw", Pkt: core.Hex(pkt), Cap: []int{1500, 0, 3}[c.Rand.Intn(3)]})
				if i%10 == 0 {
					for cut := 0; cut < len(pkt) && cut < 40; cut++ {
						c18RunCase(c, c18Case{Kind: "hdr", Pkt: core.Hex(pkt[:cut])})
						c18RunCase(c, c18Case{Kind: "wrap-raw", Pkt: core.Hex(pkt[:cut]), Cap: 1500})
					}
				}
			}
			for i := 0; i < c.N(100, 1500); i++ {
				k := c18Case{Kind: "hdr-build", Port: c.Rand.Intn(65536), Payload: core.Hex(c18Content(c, c.Rand.Intn(5)))}
				switch c.Rand.Intn(3) {
				case 0:
					k.AKind, k.Addr = "domain", core.Hex([]byte([]string{"a", "known.test", strings.Repeat("y", 255), "x.y"}[c.Rand.Intn(4)]))
				default:
					ip := c18RandIP(c)
					k.AKind = map[int]string{4: "ip4", 16: "ip6"}[len(ip)]
					k.Addr = core.Hex(ip)
				}
				c18RunCase(c, k)
			}
			// --- real sockets
			c18NetRun(c)
		},
		Replay: func(c *core.Ctx, raw json.RawMessage) {
			var probe struct {
				Kind string `json:"kind"`
			}
			if json.Unmarshal(raw, &probe) == nil && probe.Kind == "reply-size" {
				c18ReplySizes(c) // deterministic stage: re-run it whole
				return
			}
			var k c18Case
			if json.Unmarshal(raw, &k) == nil {
				c18RunCase(c, k)
			}
		},
	})
}
