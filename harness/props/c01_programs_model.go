package props

import (
	"verifharness/core"
	"verifharness/sim"
	"verifharness/wire"
)

func c01pLeanDecode(c *core.Ctx, k c01pCase, view *sim.World, ds sim.DecodedStream) {}

func c01pModelSegs(c *core.Ctx, k c01pCase, sess int, c2s bool, name string, data []*wire.Segment, writes []int, closeReq bool) {
}
