package props

import (
	"fmt"
	"hash/fnv"
	"strings"

	"github.com/enfein/mieru/v3/pkg/protocol"
	"verifharness/core"
	"verifharness/sim"
	"verifharness/simnet"
	"verifharness/wire"
)

// Model correspondence of the program stage (see c01_programs.go): the Lean session model
// (`Mieru.Model.TcpSession`, ops tcps-*) predicts, from the list of Write / Close calls alone, the
// exact segment sequence of every session and direction; the Lean reference receiver decodes the
// captured bytes under an irregular chunking; the Lean `Read` acceptor judges the read traces.

func fnv32(b []byte) uint32 {
	h := fnv.New32a()
	h.Write(b)
	return h.Sum32()
}

// what the wire says about one data-bearing / close segment, in the driver's notation
func c01pWireSeg(s *wire.Segment) string {
	ext, mode, rot := 0, 0, 0
	if s.IsLE() {
		ext, mode, rot = int(s.ExtractedLen), int(s.Byte1), int(s.LERot)
	}
	frag := 0
	if s.IsData() {
		frag = int(s.Fragment)
	}
	return fmt.Sprintf("%d/%d/%d/%d/%d/%d/%d/%d/%d", s.Proto, s.Seq, frag, s.PayloadLen, ext, mode, rot, len(s.Payload), fnv32(s.Payload))
}

func c01pLEToken(k c01pCase, client bool, clientUsedLE bool) string {
	pat := patFromJSON(k.ServerPattern)
	if client {
		pat = patFromJSON(k.ClientPattern)
	}
	mode, rot, on := protocol.VerifLowEntropySendConfig(pat, client, clientUsedLE)
	if !on {
		return "-"
	}
	return fmt.Sprintf("%d.%d", mode, rot)
}

// number of `writeChunk` calls of one Write of n bytes (chunks of at most 32768 bytes)
func c01pChunks(n int) int { return (n + 32767) / 32768 }

// c01pModelSegs compares the decoded data-bearing segments (+ the close request, if any) of one
// session and direction with the model's prediction.
func c01pModelSegs(c *core.Ctx, k c01pCase, sess int, c2s bool, name string, data []*wire.Segment, writes []int, closeReq bool) {
	dirNo := 1
	if c2s {
		dirNo = 0
	}
	var got []string
	for _, s := range data {
		got = append(got, c01pWireSeg(s))
	}
	// the application's calls, with the stream content
	bufs := make([][]byte, len(writes))
	off := 0
	for i, n := range writes {
		bufs[i] = make([]byte, n)
		sim.FillStream(bufs[i], k.Seed, sess, dirNo, off)
		off += n
	}
	build := func(leOpen string, les func(write, chunk int) string) string {
		var ops []string
		for i, b := range bufs {
			var ls []string
			for j := 0; j < c01pChunks(len(b)); j++ {
				ls = append(ls, les(i, j))
			}
			if len(ls) == 0 {
				ls = []string{"-"}
			}
			ops = append(ops, fmt.Sprintf("w/%s/%s/%s", leOpen, strings.Join(ls, ","), core.Hex(b)))
		}
		if closeReq {
			ops = append(ops, "x")
		}
		role := "s"
		if c2s {
			role = "c"
		}
		return "tcps-run " + role + " " + strings.Join(ops, " ")
	}
	match := func(reply string) (bool, string) {
		f := strings.Fields(reply)
		if len(f) < 3 || f[0] != "ok" {
			return false, reply
		}
		pred := f[2 : len(f)-1]
		// the prediction ends with the close request (type 4), which `data` does not contain
		if closeReq && len(pred) > 0 && strings.HasPrefix(pred[len(pred)-1], "4/") {
			pred = pred[:len(pred)-1]
		}
		if len(pred) != len(got) {
			return false, fmt.Sprintf("model predicts %d data-bearing segments, the wire has %d", len(pred), len(got))
		}
		for i := range pred {
			if pred[i] != got[i] {
				return false, fmt.Sprintf("segment %d: model %s, wire %s (type/seq/fragment/payloadLen/extractedLen/mode/rotation/bytes/fnv)", i, pred[i], got[i])
			}
		}
		return true, ""
	}
	c.Compared()
	if c2s {
		le := c01pLEToken(k, true, false)
		ok, why := match(c.Model.Ask("%s", build(le, func(int, int) string { return le })))
		c.Hist("program_model_segments", fmt.Sprintf("c2s/le=%v/ok=%v", le != "-", ok))
		if !ok {
			c.Disagree("C01/program/model/segments-differ", fmt.Sprintf("%s session %d %s (writes %v, close %v): %s", k.Name, sess, name, writes, closeReq, why), k)
		}
		return
	}
	// server: (1) low entropy only once the client has used it — the switch happens between two
	// writeChunk calls at an instant the harness does not control; (2) Accept hands the session out
	// before its input loop has processed the open request, so the open-session response is
	// numbered between two writeChunk calls of the application, anywhere. Both are read off the
	// wire (chunk by chunk) and handed to the model as the schedule.
	off2, on := c01pLEToken(k, false, false), c01pLEToken(k, false, true)
	var chunks [][]byte
	for _, b := range bufs {
		for o := 0; o < len(b); o += 32768 {
			e := o + 32768
			if e > len(b) {
				e = len(b)
			}
			chunks = append(chunks, b[o:e])
		}
	}
	var ops []string
	ci, inChunk, respSeen, leOn := 0, 0, false, false
	curLE := ""
	emit := func() {
		ops = append(ops, fmt.Sprintf("w/-/%s/%s", curLE, core.Hex(chunks[ci])))
		ci++
		inChunk = 0
	}
	for _, s := range data {
		if s.Proto == wire.OpenSessionResponse {
			if inChunk != 0 {
				c.Disagree("C01/program/model/open-response-inside-a-chunk", fmt.Sprintf("%s session %d %s: the open-session response is numbered between two fragments of one writeChunk call", k.Name, sess, name), k)
				return
			}
			ops = append(ops, "a")
			respSeen = true
			continue
		}
		if ci >= len(chunks) {
			c.Disagree("C01/program/model/segments-differ", fmt.Sprintf("%s session %d %s: more data segments on the wire than the writes explain", k.Name, sess, name), k)
			return
		}
		if inChunk == 0 {
			curLE = off2
			if s.IsLE() {
				curLE = on
				leOn = true
			} else if leOn && on != off2 {
				c.Violate("C01/program/wire/low-entropy-switched-off", fmt.Sprintf("%s session %d %s: a plain data segment follows low-entropy ones", k.Name, sess, name), k)
			}
		}
		inChunk += len(s.Payload)
		if inChunk >= len(chunks[ci]) {
			emit()
		}
	}
	switch {
	case !respSeen && closeReq:
		// the application wrote and closed before the session's input loop had processed the open request:
		// the open-session response was never numbered (the model's accept on a closed session emits nothing).
		// No byte is affected; seen as a false alarm on the unchanged tree before this case was distinguished.
		ops = append(ops, "x", "a")
		c.Hist("program_open_response_position", "never-sent-closed-first")
	case !respSeen:
		ops = append(ops, "a")
	case closeReq:
		ops = append(ops, "x")
	}
	if respSeen && !closeReq {
		// nothing to add
	}
	c.Hist("program_open_response_position", fmt.Sprintf("after-%s-chunks", core.SizeBucket(func() int {
		n := 0
		for _, o := range ops {
			if o == "a" {
				return n
			}
			n++
		}
		return n
	}())))
	reply := c.Model.Ask("tcps-run s %s", strings.Join(ops, " "))
	ok, why := match(reply)
	c.Hist("program_model_segments", fmt.Sprintf("s2c/le=%v/ok=%v", leOn, ok))
	if !ok {
		c.Disagree("C01/program/model/segments-differ", fmt.Sprintf("%s session %d %s (writes %v, close %v): %s", k.Name, sess, name, writes, closeReq, why), k)
	}
}

// c01pModelReads: the reads a reader saw against the model's `Read` (acceptTrace): every call
// returns 1..buffer bytes and a short read ends where a segment ends.
func c01pModelReads(c *core.Ctx, k c01pCase, sess int, name string, data []*wire.Segment, rd c01pRead) {
	if len(rd.Trace) == 0 {
		return
	}
	var lens, tr []string
	for _, s := range data {
		lens = append(lens, fmt.Sprint(len(s.Payload)))
	}
	short := 0
	for _, t := range rd.Trace {
		tr = append(tr, fmt.Sprintf("%d.%d", t[0], t[1]))
		if t[1] < t[0] {
			short++
		}
	}
	if len(lens) == 0 {
		lens = []string{"-"}
	}
	c.Compared()
	reply := c.Model.Ask("tcps-accept %s %s", strings.Join(lens, ","), strings.Join(tr, ","))
	c.Hist("program_read_trace", fmt.Sprintf("short-reads=%s", core.SizeBucket(short)))
	if reply != "ok true" {
		c.Disagree("C01/program/model/read-trace-rejected", fmt.Sprintf("%s session %d %s: the Read calls (buffer.returned) %.300s are impossible for segments of %.300s bytes: %s", k.Name, sess, name, strings.Join(tr, ","), strings.Join(lens, ","), reply), k)
	}
}

// c01pLeanDecodeAll: the Lean reference receiver decodes both directions of every captured
// connection, fed in irregular chunks, and must agree with the Go reference codec segment by segment.
func c01pLeanDecodeAll(c *core.Ctx, k c01pCase, view *sim.World, goDec []sim.DecodedStream) {
	view.Net.Lock()
	caps := append([]*simnet.StreamCapture(nil), view.Net.Streams...)
	view.Net.Unlock()
	keys := hexKeys(view.AllKeys())
	chunkSizes := []int{1, 23, 24, 25, 47, 48, 49, 71, 72, 73, 1000, 16384, 5, 32768}
	gi := 0
	for _, cp := range caps {
		c2s, s2c, _, _ := cp.Snapshot()
		for _, data := range [][]byte{c2s, s2c} {
			if gi >= len(goDec) {
				return
			}
			gd := goDec[gi]
			gi++
			if len(data) == 0 || gd.Err != nil {
				continue
			}
			c.Compared()
			h := c.Model.Ask("spec-tcp-new %s", keys)
			if !strings.HasPrefix(h, "ok ") {
				c.Disagree("C01/program/lean-decode/driver", h, nil)
				return
			}
			handle := strings.TrimPrefix(h, "ok ")
			var got []string
			dead := ""
			for off, i := 0, 0; off < len(data) && dead == ""; i++ {
				end := off + chunkSizes[i%len(chunkSizes)]
				if end > len(data) {
					end = len(data)
				}
				reply := c.Model.Ask("spec-tcp-feed %s %s", handle, core.Hex(data[off:end]))
				off = end
				f := strings.Fields(reply)
				if len(f) < 2 || f[0] != "ok" {
					dead = reply
					break
				}
				for _, t := range f[2:] {
					if strings.HasPrefix(t, "dead=") {
						dead = t
					} else {
						got = append(got, t)
					}
				}
			}
			info := c.Model.Ask("spec-tcp-info %s", handle)
			c.Model.Ask("spec-tcp-free %s", handle)
			if dead != "" {
				c.Disagree("C01/program/lean-decode/undecodable", fmt.Sprintf("%s: the Lean reference receiver cannot decode conn %d after %d segments: %s", k.Name, cp.ID, len(got), dead), k)
				continue
			}
			if !strings.Contains(info, "buffered=0 ") {
				c.Disagree("C01/program/lean-decode/trailing-bytes", fmt.Sprintf("%s: conn %d: %s", k.Name, cp.ID, info), k)
			}
			if len(got) != len(gd.Segs) {
				c.Disagree("C01/program/lean-decode/differs", fmt.Sprintf("%s: conn %d: Lean decoded %d segments, Go %d", k.Name, cp.ID, len(got), len(gd.Segs)), k)
				continue
			}
			for i, s := range gd.Segs {
				if got[i] != segSpec(s) {
					c.Disagree("C01/program/lean-decode/differs", fmt.Sprintf("%s: conn %d segment %d: Lean %.200s Go %.200s", k.Name, cp.ID, i, got[i], segSpec(s)), k)
					break
				}
			}
			c.Hist("program_lean_decoded_segments", core.SizeBucket(len(got)))
		}
	}
}
