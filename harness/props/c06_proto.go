package props

import (
	"context"
	"encoding/json"
	"fmt"
	"io"
	"math/rand"
	"net"
	"strings"
	"sync"
	"sync/atomic"
	"time"

	"github.com/enfein/mieru/v3/pkg/protocol"
	"github.com/enfein/mieru/v3/pkg/replay"

	"verifharness/core"
	"verifharness/sim"
	"verifharness/simnet"
	"verifharness/wire"
)

// C06, protocol level against the COMPOSED model (Mieru.ServerReplay: the first-contact step runs on the
// answer of the cache model, `dup` is computed). The two process-wide replay caches are replaced by
// small / short-lived ones through the hook protocol.VerifSetReplayCaches; the harness itself plays the
// genuine client with the reference codec, so that EVERY consultation of the caches during a case is one
// the harness caused and the history given to the model is exact:
//
//   flood-tcp / flood-udp   an accepted unit, fewer than `capacity` unauthenticated probes, the byte-exact
//                           copy (→ reported, silent), then 2·capacity more probes and the copy again:
//                           the model predicts that the cache has forgotten the unit and the copy is
//                           ACCEPTED AND ANSWERED — and so does the real server. That is the one place
//                           where the hypothesis of the replay theorems (capacity bound) is in the hands
//                           of an unauthenticated peer: known finding C06/replay-accepted-after-cache-flood.
//   rotation-udp            a first datagram recorded from address A just before a rotation by time, re-sent
//                           from address B twice after the rotation (the repaired owner-tag defect, at
//                           protocol level), then A's own retransmission (same source: not a replay).
//   rotation-tcp            a stream replayed after a rotation by time (still reported) and after the scaled
//                           retention has passed twice (forgotten; with the production retention the stamp
//                           has expired long before — replay_window_lt_retention).
//   race-cache              N goroutines present one never-seen item at the same instant to one cache:
//                           exactly one of them is told "new" (check-and-record is one critical section).

type c06ProtoCase struct {
	Kind       string `json:"proto_kind"`
	Seed       int64  `json:"seed"`
	Cap        int    `json:"cap"`
	IntervalMs int    `json:"interval_ms"`
	Rounds     int    `json:"rounds,omitempty"`
	Workers    int    `json:"workers,omitempty"`
}

type c06Conn struct {
	ev      string // event token for the model
	dup     bool   // measured: replay.NewSession moved
	accepts int
	out     int
	closed  bool
}

// c06Present opens a fresh TCP connection, writes data, and measures the reaction. `tok` is the unit.
func c06PresentTCP(pw *probeWorld, t0 time.Time, data []byte, tok tcpTok, wantAccept bool) c06Conn {
	c0 := waitQuiet(2 * time.Second)
	a0 := pw.accepts()
	now := time.Since(t0).Nanoseconds()
	cc, _, err := pw.w.Net.DialPair("10.8.0.1:8964")
	if err != nil {
		return c06Conn{}
	}
	c05WriteSplit(cc, data)
	waitFor(3*time.Second, func() bool { return readCounters().iter-c0.iter >= 1 })
	if wantAccept {
		waitFor(3*time.Second, func() bool { return pw.accepts()-a0 >= 1 })
		waitFor(3*time.Second, func() bool { _, s2c, _, _ := cc.Capture().Snapshot(); return len(s2c) > 0 })
	}
	c1 := waitQuiet(time.Second)
	d := c1.sub(c0)
	r := c06Conn{ev: fmt.Sprintf("c:%s:%d:%s", core.Hex(data[:16]), now, tok.String()), dup: d.newSession >= 1, accepts: pw.accepts() - a0}
	buf := make([]byte, 65536)
	cc.SetReadDeadline(time.Now().Add(100 * time.Millisecond))
	for {
		_, err := cc.Read(buf)
		if err == io.EOF {
			r.closed = true
		}
		if err != nil {
			break
		}
	}
	_, s2c, _, _ := cc.Capture().Snapshot()
	r.out = len(s2c)
	cc.Close()
	return r
}

func c06Flood(pw *probeWorld, r *rand.Rand, t0 time.Time, n int, udp bool) (evs []string) {
	c0 := readCounters()
	var conns []*simnet.Conn
	for i := 0; i < n; i++ {
		b := make([]byte, 72+r.Intn(30))
		r.Read(b)
		now := time.Since(t0).Nanoseconds()
		if udp {
			pc, err := pw.w.Net.ListenPacket(context.Background(), "udp", "", "")
			if err != nil {
				continue
			}
			pc.WriteTo(b, &net.UDPAddr{IP: net.IPv4(10, 8, 0, 1), Port: 8964})
			evs = append(evs, fmt.Sprintf("d:%s:%s:%d:%s", core.Hex(b[:16]), core.Hex([]byte(pc.LocalAddr().String())), now, udpNoKey(len(b)).String()))
			pc.Close()
		} else {
			cc, _, err := pw.w.Net.DialPair("10.8.0.1:8964")
			if err != nil {
				continue
			}
			cc.Write(b)
			conns = append(conns, cc)
			evs = append(evs, fmt.Sprintf("c:%s:%d:%s", core.Hex(b[:16]), now, tcpNoKey(72, false).String()))
		}
	}
	// every probe has been looked at (discovery ran once per probe)
	waitFor(20*time.Second, func() bool { return readCounters().iter-c0.iter >= int64(len(evs)) })
	for _, cc := range conns {
		cc.Close()
	}
	waitQuiet(2 * time.Second)
	return evs
}

func c06Trace(c *core.Ctx, op string, k c06ProtoCase, evs []string) []string {
	reply := c.Model.Ask("%s %d %d 0 %s", op, k.Cap, int64(k.IntervalMs)*1000000, strings.Join(evs, " "))
	if !strings.HasPrefix(reply, "ok ") {
		c.Disagree("C06/corr/composed-model-reply", reply, k)
		return nil
	}
	var groups []string
	for _, f := range strings.Fields(reply)[1:] {
		if !strings.Contains(f, "=") {
			groups = append(groups, f)
		}
	}
	return groups
}

func c06FloodTCP(c *core.Ctx, k c06ProtoCase) {
	iv := time.Duration(k.IntervalMs) * time.Millisecond
	restore := protocol.VerifSetReplayCaches(k.Cap, iv, k.Cap, iv)
	defer restore()
	t0 := time.Now()
	pw, err := newProbeWorldCfg(sim.Config{UDP: false, Seed: k.Seed, Users: probeUsers})
	if err != nil {
		c.Violate("C06/setup", err.Error(), nil)
		return
	}
	defer bgClose.Go(pw.w.Close)
	r := rand.New(rand.NewSource(k.Seed))
	stableMinute(20 * time.Second)
	// the genuine first segment: an open request WITHOUT payload (one cache consultation per presentation)
	data, toks, _ := buildStreamTCP(r, hashedOf("alice", "alice-secret"), aliceID, []c05Seg{{Proto: 2, Sid: 1000 + r.Uint32()%100000, Payload: 0, Pad: 11}})
	tok := toks[0]
	var evs []string
	var real []c06Conn
	var pos []int
	present := func(label string, wantAccept bool) {
		x := c06PresentTCP(pw, t0, data, tok, wantAccept)
		pos = append(pos, len(evs))
		evs = append(evs, x.ev)
		real = append(real, x)
		c.Hist("flood_stage", "tcp/"+label+fmt.Sprintf(" dup=%v accepted=%d answered=%v", x.dup, x.accepts, x.out > 0))
	}
	present("original", true)
	evs = append(evs, c06Flood(pw, r, t0, k.Cap/2, false)...)
	present("copy-within-capacity-bound", false)
	evs = append(evs, c06Flood(pw, r, t0, 2*k.Cap+2, false)...)
	// by the model's own account the unit is gone now: wait for the predicted acceptance
	present("copy-after-flood", true)
	groups := c06Trace(c, "srvrep-tcp", k, evs)
	if groups == nil {
		return
	}
	names := []string{"original", "copy-within-capacity-bound", "copy-after-flood"}
	for i, p := range pos {
		c.Compared()
		c.Eval(fmt.Sprintf("c06-flood/tcp/%d/%s/%d", k.Cap, names[i], k.Seed), true)
		if p >= len(groups) {
			c.Disagree("C06/corr/composed-model-reply", fmt.Sprintf("model returned %d groups", len(groups)), k)
			return
		}
		g := groups[p] // <dup><accepted><out><closed>
		x := real[i]
		want := fmt.Sprintf("%d%d%d", c05b(x.dup), x.accepts, c05b(x.out > 0))
		if g[:3] != want {
			c.Disagree("C06/corr/composed-model-vs-server/tcp/"+names[i], fmt.Sprintf("model <dup><accepted><out><closed> = %s, server: dup=%v accepted=%d bytes=%d closed=%v", g, x.dup, x.accepts, x.out, x.closed), k)
		}
	}
	if real[1].out > 0 || real[1].accepts > 0 {
		c.Violate("C06/tcp/server-replied/replay-within-capacity-bound", fmt.Sprintf("a byte-exact copy of an accepted first segment, presented after %d other units (capacity %d), drew %d bytes and opened %d session(s)", k.Cap/2, k.Cap, real[1].out, real[1].accepts), k)
	}
	if real[2].out > 0 || real[2].accepts > 0 {
		c.Violate("C06/replay-accepted-after-cache-flood/tcp", fmt.Sprintf("replay caches scaled to capacity %d: after %d unauthenticated 72-byte probes the byte-exact copy of an accepted first segment (stamp still valid) opened %d session(s) and drew %d bytes", k.Cap, 2*k.Cap+2, real[2].accepts, real[2].out), k)
	}
}

func c06FloodUDP(c *core.Ctx, k c06ProtoCase) {
	iv := time.Duration(k.IntervalMs) * time.Millisecond
	restore := protocol.VerifSetReplayCaches(k.Cap, iv, k.Cap, iv)
	defer restore()
	t0 := time.Now()
	pw, err := newProbeWorldCfg(sim.Config{UDP: true, Seed: k.Seed, Users: probeUsers})
	if err != nil {
		c.Violate("C06/setup", err.Error(), nil)
		return
	}
	defer bgClose.Go(pw.w.Close)
	w := pw.w
	r := rand.New(rand.NewSource(k.Seed))
	stableMinute(20 * time.Second)
	// a data datagram for a session the server does not know: acted upon (a close request comes back) without
	// leaving any session state behind, so that a second acceptance is observable as a second reply
	data, tok, _ := buildDatagram(r, hashedOf("alice", "alice-secret"), 6, 1000+r.Uint32()%100000, 0, 3, 4, 0, 0)
	var evs []string
	type res struct {
		dup bool
		out int
	}
	var real []res
	var pos []int
	origHost := ""
	present := func(label string, wantReply bool) {
		c0 := waitQuiet(2 * time.Second)
		w.Net.Lock()
		dg0 := len(w.Net.Datagrams)
		w.Net.Unlock()
		laddr := ""
		if origHost != "" {
			laddr = origHost + ":0" // the copies come from the original sender's HOST and another port
		}
		pc, err := w.Net.ListenPacket(context.Background(), "udp", laddr, "")
		if err != nil {
			return
		}
		if origHost == "" {
			origHost, _, _ = net.SplitHostPort(pc.LocalAddr().String())
		}
		defer pc.Close()
		now := time.Since(t0).Nanoseconds()
		pc.WriteTo(data, &net.UDPAddr{IP: net.IPv4(10, 8, 0, 1), Port: 8964})
		paddr := pc.LocalAddr().String()
		replies := func() int {
			n := 0
			w.Net.Lock()
			for _, d := range w.Net.Datagrams[dg0:] {
				if d.From == "10.8.0.1:8964" && d.To == paddr {
					n++
				}
			}
			w.Net.Unlock()
			return n
		}
		waitFor(3*time.Second, func() bool { return readCounters().iter-c0.iter >= 1 })
		if wantReply {
			waitFor(3*time.Second, func() bool { return replies() > 0 })
		}
		c1 := waitQuiet(time.Second)
		time.Sleep(30 * time.Millisecond)
		x := res{dup: c1.sub(c0).newSession >= 1, out: replies()}
		real = append(real, x)
		pos = append(pos, len(evs))
		evs = append(evs, fmt.Sprintf("d:%s:%s:%d:%s", core.Hex(data[:16]), core.Hex([]byte(paddr)), now, tok.String()))
		c.Hist("flood_stage", "udp/"+label+fmt.Sprintf(" dup=%v answered=%v", x.dup, x.out > 0))
	}
	present("original", true)
	evs = append(evs, c06Flood(pw, r, t0, k.Cap/2, true)...)
	present("copy-other-source-within-capacity-bound", false)
	evs = append(evs, c06Flood(pw, r, t0, 2*k.Cap+2, true)...)
	present("copy-other-source-after-flood", true)
	groups := c06Trace(c, "srvrep-udp", k, evs)
	if groups == nil || len(real) != 3 {
		return
	}
	names := []string{"original", "copy-other-source-within-capacity-bound", "copy-other-source-after-flood"}
	for i, p := range pos {
		c.Compared()
		c.Eval(fmt.Sprintf("c06-flood/udp/%d/%s/%d", k.Cap, names[i], k.Seed), true)
		if p >= len(groups) {
			c.Disagree("C06/corr/composed-model-reply", fmt.Sprintf("model returned %d groups", len(groups)), k)
			return
		}
		g := groups[p] // <dup><changed>
		want := fmt.Sprintf("%d%d", c05b(real[i].dup), c05b(real[i].out > 0))
		if g != want {
			c.Disagree("C06/corr/composed-model-vs-server/udp/"+names[i], fmt.Sprintf("model <dup><changed> = %s, server: dup=%v replies=%d", g, real[i].dup, real[i].out), k)
		}
	}
	if real[1].out > 0 {
		c.Violate("C06/udp/server-replied/replay-within-capacity-bound", fmt.Sprintf("a byte-exact copy of an accepted datagram, re-sent from another address after %d other units (capacity %d), drew %d datagram(s)", k.Cap/2, k.Cap, real[1].out), k)
	}
	if real[2].out > 0 {
		c.Violate("C06/replay-accepted-after-cache-flood/udp", fmt.Sprintf("replay caches scaled to capacity %d: after %d unauthenticated datagrams the byte-exact copy of an accepted datagram (stamp still valid), re-sent from another address, drew %d datagram(s)", k.Cap, 2*k.Cap+2, real[2].out), k)
	}
}

// c06RotationUDP: interval `iv`; A's first datagram is recorded before the rotation deadline, B presents the
// copy twice after it, then A retransmits.
func c06RotationUDP(c *core.Ctx, k c06ProtoCase) bool {
	iv := time.Duration(k.IntervalMs) * time.Millisecond
	restore := protocol.VerifSetReplayCaches(k.Cap, iv, k.Cap, iv)
	defer restore()
	t0 := time.Now()
	pw, err := newProbeWorldCfg(sim.Config{UDP: true, Seed: k.Seed, Users: probeUsers})
	if err != nil {
		c.Violate("C06/setup", err.Error(), nil)
		return true
	}
	defer bgClose.Go(pw.w.Close)
	w := pw.w
	r := rand.New(rand.NewSource(k.Seed))
	data, tok, _ := buildDatagram(r, hashedOf("alice", "alice-secret"), 2, 1000+r.Uint32()%100000, 20, 0, 4, 0, 0)
	pa, _ := w.Net.ListenPacket(context.Background(), "udp", "", "")
	hostA, _, _ := net.SplitHostPort(pa.LocalAddr().String())
	pb, _ := w.Net.ListenPacket(context.Background(), "udp", hostA+":0", "") // B: A's host, another port
	defer pa.Close()
	defer pb.Close()
	srv := &net.UDPAddr{IP: net.IPv4(10, 8, 0, 1), Port: 8964}
	var evs []string
	var dups []bool
	var accepts []int
	margin := 120 * time.Millisecond
	ok := true
	send := func(pc net.PacketConn, at time.Duration) {
		if d := at - time.Since(t0); d > 0 {
			time.Sleep(d)
		}
		c0 := readCounters()
		a0 := pw.accepts()
		before := time.Since(t0)
		pc.WriteTo(data, srv)
		waitFor(3*time.Second, func() bool { return readCounters().iter-c0.iter >= 1 || readCounters().direct-c0.direct >= 1 })
		after := time.Since(t0)
		c1 := waitQuiet(time.Second)
		// the consultation happened between `before` and `after`: both must be on the same side of the
		// deadlines the cache compares its clock against (rotation at iv, nothing later matters here)
		for _, dl := range []time.Duration{iv, 2 * iv} {
			if before < dl+margin && after > dl-margin {
				ok = false
			}
		}
		evs = append(evs, fmt.Sprintf("d:%s:%s:%d:%s", core.Hex(data[:16]), core.Hex([]byte(pc.LocalAddr().String())), before.Nanoseconds(), tok.String()))
		dups = append(dups, c1.sub(c0).newSession >= 1)
		accepts = append(accepts, pw.accepts()-a0)
	}
	send(pa, iv/4)       // recorded by A in the first generation
	send(pb, iv+iv/5)    // after the rotation by time: only in `previous`
	send(pb, iv+iv/5+50*time.Millisecond)
	send(pa, iv+iv/5+100*time.Millisecond) // the owner's own retransmission
	if !ok {
		return false
	}
	groups := c06Trace(c, "srvrep-udp", k, evs)
	if groups == nil {
		return true
	}
	names := []string{"first-from-A", "copy-from-B-after-rotation", "copy-from-B-again", "A-retransmits"}
	for i := range evs {
		c.Compared()
		c.Eval(fmt.Sprintf("c06-rotation/udp/%s/%d", names[i], k.Seed), true)
		c.Hist("rotation_stage", fmt.Sprintf("udp/%s dup=%v accepted=%d", names[i], dups[i], accepts[i]))
		// the model's UDP state keeps the session of the first datagram, as the server does
		want := fmt.Sprintf("%d%d", c05b(dups[i]), c05b(accepts[i] > 0))
		if groups[i] != want {
			c.Disagree("C06/corr/composed-model-vs-server/udp-rotation/"+names[i], fmt.Sprintf("model <dup><changed> = %s, server: dup=%v accepted=%d", groups[i], dups[i], accepts[i]), k)
		}
	}
	if accepts[1] > 0 || accepts[2] > 0 || !dups[1] || !dups[2] {
		c.Violate("C06/udp/replay-accepted-after-rotation", fmt.Sprintf("a first datagram recorded from A %v before the cache rotated, re-sent from B twice after the rotation: reported %v / %v, sessions opened %d / %d", iv/4, dups[1], dups[2], accepts[1], accepts[2]), k)
	}
	if dups[3] {
		c.Violate("C06/udp/owner-retransmission-reported-after-foreign-presentation", "after B presented the copy, A's own retransmission of its datagram was reported as a replay", k)
	}
	return true
}

func c06RotationTCP(c *core.Ctx, k c06ProtoCase) bool {
	iv := time.Duration(k.IntervalMs) * time.Millisecond
	restore := protocol.VerifSetReplayCaches(k.Cap, iv, k.Cap, iv)
	defer restore()
	t0 := time.Now()
	pw, err := newProbeWorldCfg(sim.Config{UDP: false, Seed: k.Seed, Users: probeUsers})
	if err != nil {
		c.Violate("C06/setup", err.Error(), nil)
		return true
	}
	defer bgClose.Go(pw.w.Close)
	r := rand.New(rand.NewSource(k.Seed))
	stableMinute(time.Duration(5*k.IntervalMs)*time.Millisecond + 5*time.Second)
	data, toks, _ := buildStreamTCP(r, hashedOf("alice", "alice-secret"), aliceID, []c05Seg{{Proto: 2, Sid: 1000 + r.Uint32()%100000, Payload: 0, Pad: 7}})
	margin := 120 * time.Millisecond
	ok := true
	var evs []string
	var real []c06Conn
	// deadlines: rotation at iv; the second presentation re-arms the deadline to (its instant + iv);
	// lazy full expiry when a call comes later than that + iv
	var rearmed time.Duration
	at := func(d time.Duration, wantAccept bool, deadlines ...time.Duration) {
		if s := d - time.Since(t0); s > 0 {
			time.Sleep(s)
		}
		before := time.Since(t0)
		x := c06PresentTCP(pw, t0, data, toks[0], wantAccept)
		after := time.Since(t0)
		for _, dl := range deadlines {
			if before < dl+margin && after > dl-margin {
				ok = false
			}
		}
		rearmed = before
		evs = append(evs, x.ev)
		real = append(real, x)
	}
	at(iv/4, true, iv)
	at(iv+iv/4, false, iv, 2*iv)
	second := rearmed
	at(second+2*iv+iv/4, true, second+2*iv, second+iv)
	if !ok {
		return false
	}
	groups := c06Trace(c, "srvrep-tcp", k, evs)
	if groups == nil {
		return true
	}
	names := []string{"original", "copy-after-rotation-by-time", "copy-after-twice-the-scaled-retention"}
	for i := range evs {
		c.Compared()
		c.Eval(fmt.Sprintf("c06-rotation/tcp/%s/%d", names[i], k.Seed), true)
		x := real[i]
		c.Hist("rotation_stage", fmt.Sprintf("tcp/%s dup=%v accepted=%d answered=%v", names[i], x.dup, x.accepts, x.out > 0))
		want := fmt.Sprintf("%d%d%d", c05b(x.dup), x.accepts, c05b(x.out > 0))
		if groups[i][:3] != want {
			c.Disagree("C06/corr/composed-model-vs-server/tcp-rotation/"+names[i], fmt.Sprintf("model <dup><accepted><out><closed> = %s, server: dup=%v accepted=%d bytes=%d", groups[i], x.dup, x.accepts, x.out), k)
		}
	}
	if real[1].out > 0 || real[1].accepts > 0 {
		c.Violate("C06/tcp/replay-accepted-after-rotation", fmt.Sprintf("a first segment accepted %v before the cache rotated by time, replayed after the rotation, drew %d bytes / %d session(s)", iv/4, real[1].out, real[1].accepts), k)
	}
	return true
}

// c06RaceCache: check-and-record must be ONE critical section. `Workers` goroutines walk through the same
// `Rounds` never-seen items at full speed, contending for the cache all the time; whatever the schedule,
// every item must be reported "new" to exactly one of them. (No barrier per item: free-running contention
// produces the overlapping calls, costs little on a loaded machine, and can never alarm on a cache whose
// look-up and insertion are one atomic step.) Even items are presented with EmptyTag, odd ones with one
// distinct source tag per goroutine.
func c06RaceCache(c *core.Ctx, k c06ProtoCase) {
	cache := replay.NewCache(1<<30, time.Hour)
	news := make([]atomic.Int32, k.Rounds)
	var wg sync.WaitGroup
	start := make(chan struct{})
	for g := 0; g < k.Workers; g++ {
		wg.Add(1)
		go func(g int) {
			defer wg.Done()
			item := make([]byte, 16)
			tagged := fmt.Sprintf("10.9.%d.1:4000", g)
			<-start
			for i := 0; i < k.Rounds; i++ {
				item[0], item[1], item[2], item[3], item[4] = byte(i), byte(i>>8), byte(i>>16), byte(k.Seed), byte(k.Seed>>8)
				tag := replay.EmptyTag
				if i%2 == 1 {
					tag = tagged
				}
				if !cache.IsDuplicate(item, tag) {
					news[i].Add(1)
				}
			}
		}(g)
	}
	close(start)
	wg.Wait()
	bad, badItem := 0, -1
	for i := range news {
		if news[i].Load() != 1 {
			bad++
			if badItem < 0 {
				badItem = i
			}
		}
	}
	c.Compared()
	c.Eval(fmt.Sprintf("c06-race-cache/%d/%d/%d", k.Workers, k.Rounds, k.Seed), true)
	c.Hist("cache_race", fmt.Sprintf("workers=%d items=%d items-new-to-exactly-one-caller=%d", k.Workers, k.Rounds, k.Rounds-bad))
	if bad > 0 {
		c.Violate("C06/cache/simultaneous-presentations-both-new", fmt.Sprintf("%d goroutines presented the same %d never-seen items to one cache concurrently: %d items were reported \"new\" to a number of callers other than 1 (item %d: %d callers; tag mode %s) — the look-up and the insertion are not one atomic step", k.Workers, k.Rounds, bad, badItem, news[badItem].Load(), map[bool]string{true: "distinct source tags", false: "EmptyTag"}[badItem%2 == 1]), k)
	}
}

func c06ProtoRun(c *core.Ctx, k c06ProtoCase) {
	switch k.Kind {
	case "flood-tcp":
		c06FloodTCP(c, k)
	case "flood-udp":
		c06FloodUDP(c, k)
	case "rotation-udp":
		for try := 0; try < 3; try++ {
			if c06RotationUDP(c, k) {
				return
			}
			c.Res.Discarded++
			bgClose.Wait(20 * time.Second)
		}
	case "rotation-tcp":
		for try := 0; try < 3; try++ {
			if c06RotationTCP(c, k) {
				return
			}
			c.Res.Discarded++
			bgClose.Wait(20 * time.Second)
		}
	case "race-cache":
		c06RaceCache(c, k)
	}
}

func init() {
	core.RegisterReplay("C06", func(c *core.Ctx, raw json.RawMessage) bool {
		var k c06ProtoCase
		if json.Unmarshal(raw, &k) != nil || k.Kind == "" {
			return false
		}
		c06ProtoRun(c, k)
		bgClose.Wait(30 * time.Second)
		return true
	})
	core.RegisterExtra("C06", func(c *core.Ctx) {
		c.Correspondence("composed model (Mieru.ServerReplay: first contact on the cache model's answer) vs the real server with scaled-down process-wide caches: accepted unit / copy within the capacity bound / copy after 2·capacity unauthenticated probes (TCP and UDP), copies across a rotation by time with the owner's tag kept (UDP) and after the scaled retention (TCP); cache level: 4..16 goroutines presenting the same never-seen items concurrently (each item new to exactly one caller)")
		cases := []c06ProtoCase{
			{Kind: "race-cache", Seed: c.Rand.Int63(), Rounds: c.N(300000, 2000000), Workers: 4},
			{Kind: "race-cache", Seed: c.Rand.Int63(), Rounds: c.N(300000, 2000000), Workers: 8},
			{Kind: "flood-tcp", Seed: c.Rand.Int63(), Cap: 64, IntervalMs: 3600000},
			{Kind: "flood-udp", Seed: c.Rand.Int63(), Cap: 64, IntervalMs: 3600000},
			{Kind: "rotation-udp", Seed: c.Rand.Int63(), Cap: 1024, IntervalMs: 1500},
			{Kind: "rotation-tcp", Seed: c.Rand.Int63(), Cap: 1024, IntervalMs: 1500},
		}
		if c.Thorough() {
			cases = append(cases,
				c06ProtoCase{Kind: "flood-tcp", Seed: c.Rand.Int63(), Cap: 1, IntervalMs: 3600000},
				c06ProtoCase{Kind: "flood-tcp", Seed: c.Rand.Int63(), Cap: 2, IntervalMs: 3600000},
				c06ProtoCase{Kind: "flood-udp", Seed: c.Rand.Int63(), Cap: 2, IntervalMs: 3600000},
				c06ProtoCase{Kind: "flood-tcp", Seed: c.Rand.Int63(), Cap: 1000, IntervalMs: 3600000},
				c06ProtoCase{Kind: "flood-udp", Seed: c.Rand.Int63(), Cap: 1000, IntervalMs: 3600000},
				c06ProtoCase{Kind: "rotation-udp", Seed: c.Rand.Int63(), Cap: 8, IntervalMs: 2500},
				c06ProtoCase{Kind: "race-cache", Seed: c.Rand.Int63(), Rounds: 2000000, Workers: 16})
		}
		c.Sample(cases[2])
		for _, k := range cases {
			c06ProtoRun(c, k)
		}
		bgClose.Wait(30 * time.Second)
		_ = wire.OpenSessionRequest
	})
}
