package props

import (
	"encoding/json"
	"errors"
	"fmt"
	"math/rand"
	"net"
	"os"
	"path/filepath"
	"sort"
	"strconv"
	"strings"
	"sync"
	"sync/atomic"
	"time"

	"github.com/enfein/mieru/v3/pkg/appctl/appctlpb"
	"github.com/enfein/mieru/v3/pkg/cipher"
	"github.com/enfein/mieru/v3/pkg/metrics"
	"github.com/enfein/mieru/v3/pkg/protocol"
	"google.golang.org/protobuf/proto"
	"verifharness/core"
)

// C19, session level: REAL server sessions (protocol.Session attached to a server-mode stream
// underlay over an in-memory sink connection, real input and output loops) driven operation by
// operation — segments handed to the input loop, Read with arbitrary buffer sizes, Write with and
// without a failing connection, Close — next to the Lean transition system Mieru.Acct
// (lean/Mieru/Model/Acct.lean, ops acct-*).
//
// Compared after EVERY operation: what the operation returned (bytes read: count + checksum, bytes
// accepted, refusal), the session's receive side (queue payload lengths, unreadBuf length), owner,
// state, close status, and every user's two counters (value, Σ history, list of deltas).
//
// Direct oracle (independent of the model):
//   * per user, UploadBytes = Σ n returned by Read on its sessions, DownloadBytes = Σ n returned by
//     Write on its sessions (also when Write returns an error together with n > 0);
//   * the bytes read from a session are a prefix of the concatenation of the payloads delivered to it;
//   * a session refused for quota hands nothing to the application, accepts nothing, carries the
//     quota status; a user whose moved bytes are within every allowance is never refused, a user whose
//     (fresh) traffic exceeds one is; no operation of one user changes another user's counters.
//
// User names are unique per case (the metrics registry is process-wide). The model has one world:
// cases run sequentially.

type c19AcctUser struct {
	// quota (0 megabytes: no quota)
	Days int32 `json:"days,omitempty"`
	MB   int32 `json:"mb,omitempty"`
}

type c19AcctOp struct {
	K    string `json:"k"` // sess | input | read | write | close | probe
	I    int    `json:"i,omitempty"`
	User int    `json:"user,omitempty"` // sess: owner of the session (whose segments it will get)
	Open bool   `json:"open,omitempty"`
	N    int    `json:"n,omitempty"` // input: payload length; read: buffer size; write: length
	// sess: the connection fails once this many bytes have been written to it (0: never)
	FailAfter int `json:"fail_after,omitempty"`
}

type c19AcctCase struct {
	Kind  string        `json:"kind"` // "acct"
	Seed  int64         `json:"seed"`
	Class string        `json:"class,omitempty"`
	Users []c19AcctUser `json:"users"`
	Ops   []c19AcctOp   `json:"ops"`
}

// sink connection: swallows what the output loop writes; optionally fails after a byte budget
type c19Sink struct {
	mu        sync.Mutex
	written   int
	failAfter int
	hasFailed bool
	closed    chan struct{}
	once      sync.Once
}

type c19Addr struct{}

func (c19Addr) Network() string { return "tcp" }
func (c19Addr) String() string  { return "192.0.2.1:1" }

func (s *c19Sink) Read(b []byte) (int, error) { <-s.closed; return 0, errors.New("sink closed") }
func (s *c19Sink) Write(b []byte) (int, error) {
	s.mu.Lock()
	defer s.mu.Unlock()
	select {
	case <-s.closed:
		return 0, errors.New("sink closed")
	default:
	}
	if s.failAfter > 0 && s.written+len(b) > s.failAfter {
		s.hasFailed = true
		return 0, errors.New("sink: connection reset (injected)")
	}
	s.written += len(b)
	return len(b), nil
}
func (s *c19Sink) failed() bool {
	s.mu.Lock()
	defer s.mu.Unlock()
	return s.hasFailed
}
func (s *c19Sink) Close() error                       { s.once.Do(func() { close(s.closed) }); return nil }
func (s *c19Sink) LocalAddr() net.Addr                { return c19Addr{} }
func (s *c19Sink) RemoteAddr() net.Addr               { return c19Addr{} }
func (s *c19Sink) SetDeadline(t time.Time) error      { return nil }
func (s *c19Sink) SetReadDeadline(t time.Time) error  { return nil }
func (s *c19Sink) SetWriteDeadline(t time.Time) error { return nil }

func c19Checksum(b []byte) uint32 {
	h := uint32(7)
	for _, x := range b {
		h = h*31 + uint32(x)
	}
	return h
}

type c19AcctSess struct {
	s       *protocol.Session
	srv     *protocol.VerifAcctServer
	sink    *c19Sink
	user    int
	block   cipher.BlockCipher
	nextSeq uint32
	fed     []byte // concatenation of the payloads the input loop queued
	read    []byte // concatenation of what Read returned
	refused bool
	authed  bool
	// the model was told that the underlay failed and closed the session
	envClosed bool
}

var c19AcctID atomic.Int64

const c19MaxPDU = 32768

func c19AcctView(v protocol.VerifAcctView) string {
	b := "none"
	if v.Registered {
		b = v.UserName
		if b == "" {
			b = "-"
		}
	}
	q := "-"
	if len(v.QueueLens) > 0 {
		parts := make([]string, len(v.QueueLens))
		for i, l := range v.QueueLens {
			parts[i] = strconv.Itoa(l)
		}
		q = strings.Join(parts, ",")
	}
	cl := 0
	if v.Closed {
		cl = 1
	}
	return fmt.Sprintf("%s %d %d %d %s %d", b, v.State, cl, v.Status, q, v.UnreadLen)
}

func c19AcctMetrics(user string) (string, int64, int64, bool) {
	g := metrics.GetMetricGroupByName(fmt.Sprintf(metrics.UserMetricGroupFormat, user))
	if g == nil {
		return "ok none", 0, 0, false
	}
	up, ok1 := g.GetMetric(metrics.UserMetricUploadBytes)
	down, ok2 := g.GetMetric(metrics.UserMetricDownloadBytes)
	if !ok1 || !ok2 {
		return "ok half-registered", 0, 0, false
	}
	show := func(m metrics.Metric) (int64, int64, string) {
		v, _, h := m.(*metrics.Counter).VerifSnapshot()
		var sum int64
		ds := make([]string, len(h))
		for i, e := range h {
			sum += e.Delta
			ds[i] = strconv.FormatInt(e.Delta, 10)
		}
		d := "-"
		if len(ds) > 0 {
			d = strings.Join(ds, ",")
		}
		return v, sum, d
	}
	uv, us, ud := show(up)
	dv, dsum, dd := show(down)
	return fmt.Sprintf("ok %d %d %d %d %s %s", uv, dv, us, dsum, ud, dd), uv, dv, true
}

// c19AcctExec runs one case on the real sessions and on the model. It returns false when the case
// could not be carried out (set-up failure), which is reported.
func c19AcctExec(c *core.Ctx, k c19AcctCase) {
	id := c19AcctID.Add(1)
	names := make([]string, len(k.Users))
	users := map[string]*appctlpb.User{}
	if r := c.Model.Ask("acct-new"); r != "ok" {
		c.Disagree("C19/corr/acct/driver", "acct-new: "+r, k)
		return
	}
	for i, u := range k.Users {
		names[i] = fmt.Sprintf("acct%x-%d-u%d", uint64(k.Seed)&0xffffff, id, i)
		pu := &appctlpb.User{Name: proto.String(names[i]), Password: proto.String("pw")}
		q := "-"
		if u.MB != 0 || u.Days != 0 {
			pu.Quotas = []*appctlpb.Quota{{Days: proto.Int32(u.Days), Megabytes: proto.Int32(u.MB)}}
			q = fmt.Sprintf("%d:%d", u.Days, u.MB)
		}
		users[names[i]] = pu
		if r := c.Model.Ask("acct-policy %s %s", names[i], q); r != "ok" {
			c.Disagree("C19/corr/acct/driver", "acct-policy: "+r, k)
			return
		}
	}
	rng := rand.New(rand.NewSource(k.Seed))
	var sess []*c19AcctSess
	defer func() {
		for _, x := range sess {
			x := x
			bgClose.Go(func() { x.srv.Close(); x.sink.Close() })
		}
	}()
	readBy := make([]int64, len(k.Users))  // oracle: Σ n of Read per user
	wroteBy := make([]int64, len(k.Users)) // oracle: Σ n of Write per user
	fail := func(key, what string) { c.Disagree("C19/corr/acct/"+key, what, k) }
	// compare every user's counters with the model and with the oracle sums
	checkMetrics := func(step int, op c19AcctOp, actor int) bool {
		// the direct oracle first (independent of the model), then the model
		reals := make([]string, len(names))
		for ui, name := range names {
			real, uv, dv, reg := c19AcctMetrics(name)
			reals[ui] = real
			if !reg {
				uv, dv = 0, 0
			}
			if uv != readBy[ui] {
				c.Violate("C19/accounting/upload-ne-bytes-read", fmt.Sprintf("op %d (%s n=%d): user %d: UploadBytes = %d but Read returned %d bytes on its sessions", step, op.K, op.N, ui, uv, readBy[ui]), k)
				return false
			}
			if dv != wroteBy[ui] {
				key := "C19/accounting/download-ne-bytes-written"
				if op.K == "write" && actor == ui && !sess[op.I].authed {
					key = "C19/accounting/write-before-first-segment-not-counted"
				}
				c.Violate(key, fmt.Sprintf("op %d (%s n=%d): user %d: DownloadBytes = %d but Write accepted %d bytes on its sessions", step, op.K, op.N, ui, dv, wroteBy[ui]), k)
				return false
			}
		}
		for ui, name := range names {
			model := c.Model.Ask("acct-metrics %s", name)
			c.Compared()
			if reals[ui] != model {
				fail("metrics", fmt.Sprintf("op %d (%s): user %d counters: impl %q, model %q", step, op.K, ui, reals[ui], model))
				return false
			}
		}
		return true
	}
	for step, op := range k.Ops {
		now := time.Now().UnixNano()
		c.Hist("acct_op", op.K)
		var x *c19AcctSess
		if op.K != "sess" {
			if op.I < 0 || op.I >= len(sess) {
				continue
			}
			x = sess[op.I]
		}
		var evs, m string // impl-side rendering of the events; the model's reply
		actor := -1
		switch op.K {
		case "sess":
			sink := &c19Sink{failAfter: op.FailAfter, closed: make(chan struct{})}
			srv, err := protocol.VerifAcctNewServer(sink, []byte("pw-under"), 1400, users)
			if err != nil {
				c.Violate("C19/acct/setup", err.Error(), k)
				return
			}
			s, err := srv.NewSession(uint32(1000 + len(sess)))
			if err != nil {
				c.Violate("C19/acct/setup", err.Error(), k)
				return
			}
			s.SetReadDeadline(time.Unix(1, 0)) // an empty session's Read returns ErrTimeout instead of blocking
			block, err := protocol.VerifAcctBlock([]byte("pw"), names[op.User])
			if err != nil {
				c.Violate("C19/acct/setup", err.Error(), k)
				return
			}
			sess = append(sess, &c19AcctSess{s: s, srv: srv, sink: sink, user: op.User, block: block})
			r := c.Model.Ask("acct-sess")
			c.Compared()
			if r != fmt.Sprintf("ok %d", len(sess)-1) {
				fail("sess", fmt.Sprintf("op %d: model %q", step, r))
				return
			}
			continue
		case "input":
			actor = x.user
			payload := make([]byte, op.N)
			rng.Read(payload)
			before := x.s.VerifAcctView()
			consumed, err := protocol.VerifAcctDeliver(x.s, x.block, op.Open, x.nextSeq, payload)
			if err != nil {
				c.Violate("C19/acct/setup", err.Error(), k)
				return
			}
			x.nextSeq++
			after := x.s.VerifAcctView()
			switch {
			case before.State == 3:
				evs = "-" // the input loop is gone
			case after.Status == 1 && before.Status != 1:
				evs = fmt.Sprintf("refused:%d", op.I)
				x.refused = true
			case len(after.QueueLens) == len(before.QueueLens)+1:
				evs = fmt.Sprintf("queued:%d:%d", op.I, op.N)
				x.fed = append(x.fed, payload...)
				x.authed = true
			default:
				evs = fmt.Sprintf("lost(consumed=%v)", consumed)
			}
			// quota oracle, independent of the model: all traffic of this case is fresh
			if op.Open && before.State == 1 {
				u := k.Users[x.user]
				total := readBy[x.user] + wroteBy[x.user]
				if u.MB != 0 || u.Days != 0 {
					days := int64(u.Days)
					should := days > 0 && total/1048576 > int64(u.MB)
					if days <= 0 { // empty window (then = now)
						should = 0 > int64(u.MB)
					}
					c.Hist("acct_quota_probe", fmt.Sprintf("over=%v days=%s", total/1048576 > int64(u.MB), c19DaysClass(u.Days)))
					if should && !x.refused {
						c.Violate("C19/quota/session/over-allowance-not-refused", fmt.Sprintf("op %d: user %d moved %d bytes (allowance %d MB / %d days) and its new session was not refused", step, x.user, total, u.MB, u.Days), k)
					}
					if !should && x.refused {
						c.Violate("C19/quota/session/within-allowance-refused", fmt.Sprintf("op %d: user %d moved %d bytes (allowance %d MB / %d days) and its new session was refused", step, x.user, total, u.MB, u.Days), k)
					}
				} else if x.refused {
					c.Violate("C19/quota/session/no-quota-refused", fmt.Sprintf("op %d: user %d has no quota and its new session was refused", step, x.user), k)
				}
			}
			m = c.Model.Ask("acct-input %d %s %d %s %d", op.I, names[x.user], b2i(op.Open), core.Hex(payload), now)
		case "read":
			actor = x.user
			buf := make([]byte, op.N)
			n, err := x.s.Read(buf)
			if n > 0 && err != nil {
				c.Violate("C19/accounting/read-returns-bytes-and-error", fmt.Sprintf("op %d: Read returned %d bytes and %v", step, n, err), k)
			}
			x.read = append(x.read, buf[:n]...)
			readBy[x.user] += int64(n)
			c.Hist("acct_read", c19ReadClass(op.N, n))
			if x.refused && n > 0 {
				c.Violate("C19/quota/session/refused-session-delivers-data", fmt.Sprintf("op %d: Read on a session refused for quota returned %d bytes", step, n), k)
			}
			if len(x.read) > len(x.fed) || string(x.read) != string(x.fed[:len(x.read)]) {
				c.Violate("C19/accounting/read-not-a-prefix-of-delivered", fmt.Sprintf("op %d: after Read(%d) = %d the bytes read from session %d (%d) are not a prefix of the %d bytes delivered to it", step, op.N, n, op.I, len(x.read), len(x.fed)), k)
				return
			}
			evs = fmt.Sprintf("read:%d:%d:%d", op.I, n, c19Checksum(buf[:n]))
			m = c.Model.Ask("acct-read %d %d %d", op.I, op.N, now)
		case "write":
			actor = x.user
			buf := make([]byte, op.N)
			n, err := x.s.Write(buf)
			wroteBy[x.user] += int64(n)
			chunks := (op.N + c19MaxPDU - 1) / c19MaxPDU
			okChunks := chunks
			if err != nil {
				okChunks = n / c19MaxPDU
				if n%c19MaxPDU != 0 || n >= op.N && op.N > 0 {
					fail("write-n", fmt.Sprintf("op %d: Write(%d) = %d, %v: not a whole number of accepted chunks", step, op.N, n, err))
					return
				}
			}
			c.Hist("acct_write", c19WriteClass(op.N, n, err))
			if x.refused && n > 0 {
				c.Violate("C19/quota/session/refused-session-accepts-data", fmt.Sprintf("op %d: Write on a session refused for quota accepted %d bytes", step, n), k)
			}
			evs = fmt.Sprintf("write:%d:%d", op.I, n)
			m = c.Model.Ask("acct-write %d %d %d %d", op.I, op.N, okChunks, now)
		case "close":
			actor = x.user
			x.s.Close()
			x.envClosed = true
			evs = "-"
			m = c.Model.Ask("acct-close %d", op.I)
		default:
			continue
		}
		c.Compared()
		if !strings.HasPrefix(m, "ok "+evs+" ") {
			fail(op.K, fmt.Sprintf("op %d %s(n=%d, open=%v) on session %d: impl %q, model %q", step, op.K, op.N, op.Open, op.I, "ok "+evs, m))
			return
		}
		if x.sink.failAfter > 0 {
			// let the output loop flush what was queued; if the connection fails meanwhile the output loop
			// closes the session: wait for that, so that the next operation sees a settled session
			for i := 0; i < 5000; i++ {
				v := x.s.VerifAcctView()
				if v.Closed && v.State == 3 || (v.SendQueue == 0 && !x.sink.failed()) {
					break
				}
				time.Sleep(time.Millisecond)
			}
			if v := x.s.VerifAcctView(); v.Closed && v.Status != 1 && !x.envClosed {
				// environment event: the underlay failed and its output loop closed the session
				x.envClosed = true
				c.Hist("acct_env", "connection-failed-session-closed")
				if r := c.Model.Ask("acct-close %d", op.I); !strings.HasPrefix(r, "ok ") {
					fail("close", r)
					return
				}
			}
		}
		view := c19AcctView(x.s.VerifAcctView())
		c.Compared()
		if mv := c.Model.Ask("acct-view %d", op.I); mv != "ok "+view {
			fail(op.K+"-view", fmt.Sprintf("op %d after %s(n=%d, open=%v) on session %d: impl %q, model %q", step, op.K, op.N, op.Open, op.I, "ok "+view, mv))
			return
		}
		if !checkMetrics(step, op, actor) {
			return
		}
	}
	c.Eval(fmt.Sprintf("acct/%s/%d/%d", k.Class, len(k.Ops), k.Seed), true)
}

func c19DaysClass(d int32) string {
	switch {
	case d < 0:
		return "negative"
	case d == 0:
		return "0"
	case d == 106751:
		return "max"
	case d > 106751:
		return ">max"
	}
	return "normal"
}

func c19ReadClass(cap, n int) string {
	switch {
	case cap == 0:
		return "cap=0"
	case n == 0:
		return "nothing-pending"
	case n == cap:
		return "buffer-filled"
	}
	return "short"
}

func c19WriteClass(l, n int, err error) string {
	switch {
	case err == nil && l == 0:
		return "len=0"
	case err == nil && l <= c19MaxPDU:
		return "one-chunk"
	case err == nil:
		return "several-chunks"
	case n == 0:
		return "refused-or-closed"
	}
	return "failed-mid-buffer"
}

// ---- generation

// deterministic boundary cases: generated on EVERY run before the random stream
func c19AcctBoundary() []c19AcctCase {
	var out []c19AcctCase
	// 1. one segment of every boundary length read with every boundary buffer size around it
	for _, pl := range []int{0, 1, 2, 1023, 1024, 1025, 32767, 32768} {
		ops := []c19AcctOp{{K: "sess"}, {K: "input", Open: true, N: 7}}
		caps := []int{0, 1, pl - 1, pl, pl + 1, 32768, 65536}
		for _, cp := range caps {
			if cp < 0 {
				continue
			}
			// payload, then Read(cp) until drained, then one more Read on the empty session
			ops = append(ops, c19AcctOp{K: "input", N: pl}, c19AcctOp{K: "read", N: 3}, c19AcctOp{K: "read", N: cp})
			for i := 0; i < 4; i++ {
				ops = append(ops, c19AcctOp{K: "read", N: 65536})
			}
		}
		out = append(out, c19AcctCase{Kind: "acct", Seed: int64(1000 + pl), Class: fmt.Sprintf("boundary/payload=%d", pl), Users: []c19AcctUser{{}}, Ops: ops})
	}
	// 2. reads spanning several segments, with empty segments in between, buffer sizes 1..9
	{
		ops := []c19AcctOp{{K: "sess"}, {K: "input", Open: true, N: 0}}
		for _, pl := range []int{3, 0, 0, 5, 1, 0, 4, 2} {
			ops = append(ops, c19AcctOp{K: "input", N: pl})
		}
		for cp := 1; cp <= 9; cp++ {
			ops = append(ops, c19AcctOp{K: "read", N: cp})
		}
		ops = append(ops, c19AcctOp{K: "close"}, c19AcctOp{K: "read", N: 4}, c19AcctOp{K: "write", N: 10})
		out = append(out, c19AcctCase{Kind: "acct", Seed: 2001, Class: "boundary/spanning-and-empty-segments", Users: []c19AcctUser{{}}, Ops: ops})
	}
	// 3. Write lengths around the chunk size; a connection that fails in the middle of a large Write
	{
		ops := []c19AcctOp{{K: "sess"}, {K: "input", Open: true, N: 1}}
		for _, l := range []int{0, 1, 32767, 32768, 32769, 65535, 65536, 65537, 3*32768 + 5} {
			ops = append(ops, c19AcctOp{K: "write", N: l})
		}
		out = append(out, c19AcctCase{Kind: "acct", Seed: 2002, Class: "boundary/write-lengths", Users: []c19AcctUser{{}}, Ops: ops})
		for _, fa := range []int{1, 40000, 170000, 400000} {
			out = append(out, c19AcctCase{Kind: "acct", Seed: int64(2100 + fa), Class: "boundary/write-fails-mid-buffer", Users: []c19AcctUser{{}},
				Ops: []c19AcctOp{{K: "sess", FailAfter: fa}, {K: "input", Open: true, N: 1}, {K: "write", N: 20 * 32768}, {K: "write", N: 5}, {K: "read", N: 10}}})
		}
	}
	// 4. quota boundary with real bytes: 1 MB / 1 day — refused from 2 MiB on; totals 2 MiB - 1, 2 MiB, 2 MiB + 1,
	//    split over Read and Write, probe with a piggy-backed payload, another user at the same time
	for _, delta := range []int{-1, 0, 1} {
		total := 2*1048576 + delta
		up := 200000
		ops := []c19AcctOp{{K: "sess", User: 0}, {K: "sess", User: 1}, {K: "input", I: 0, Open: true, N: 100}, {K: "input", I: 1, Open: true, N: 100}}
		fed := 100
		for fed < up {
			n := 32768
			if up-fed < n {
				n = up - fed
			}
			ops = append(ops, c19AcctOp{K: "input", I: 0, N: n})
			fed += n
		}
		for got := 0; got < up; got += 50000 {
			ops = append(ops, c19AcctOp{K: "read", I: 0, N: 50000})
		}
		ops = append(ops, c19AcctOp{K: "write", I: 0, N: total - up}, c19AcctOp{K: "write", I: 1, N: 3 << 20},
			c19AcctOp{K: "sess", User: 0}, c19AcctOp{K: "input", I: 2, Open: true, N: 1024}, c19AcctOp{K: "read", I: 2, N: 4096}, c19AcctOp{K: "write", I: 2, N: 100},
			c19AcctOp{K: "input", I: 2, N: 50}, c19AcctOp{K: "read", I: 2, N: 4096},
			c19AcctOp{K: "sess", User: 1}, c19AcctOp{K: "input", I: 3, Open: true, N: 10}, c19AcctOp{K: "read", I: 3, N: 100},
			c19AcctOp{K: "sess", User: 2}, c19AcctOp{K: "input", I: 4, Open: true, N: 10}, c19AcctOp{K: "read", I: 4, N: 100})
		out = append(out, c19AcctCase{Kind: "acct", Seed: int64(3000 + delta), Class: fmt.Sprintf("boundary/quota-total=2MiB%+d", delta),
			Users: []c19AcctUser{{Days: 1, MB: 1}, {}, {Days: 30, MB: 1}}, Ops: ops})
	}
	// 5. the lookback period at the edges of time.Duration (the repaired panic) and degenerate values
	for _, d := range []int32{-1, 0, 1, 106751, 106752, 200000, 2147483647} {
		out = append(out, c19AcctCase{Kind: "acct", Seed: int64(4000) + int64(d%1000), Class: "boundary/quota-days=" + c19DaysClass(d), Users: []c19AcctUser{{Days: d, MB: 1}},
			Ops: []c19AcctOp{{K: "sess"}, {K: "input", Open: true, N: 10}, {K: "write", N: 3 << 20}, {K: "sess"}, {K: "input", I: 1, Open: true, N: 10}, {K: "read", I: 1, N: 100}}})
	}
	return out
}

func c19AcctRandom(c *core.Ctx) c19AcctCase {
	k := c19AcctCase{Kind: "acct", Seed: c.Rand.Int63(), Class: "random"}
	nu := 1 + c.Rand.Intn(3)
	for i := 0; i < nu; i++ {
		u := c19AcctUser{}
		if c.Rand.Intn(2) == 0 {
			u = c19AcctUser{Days: int32([]int{1, 1, 7, 30, 0}[c.Rand.Intn(5)]), MB: int32(1 + c.Rand.Intn(2))}
		}
		k.Users = append(k.Users, u)
	}
	nops := 20 + c.Rand.Intn(120)
	nsess := 0
	size := func() int {
		switch c.Rand.Intn(8) {
		case 0:
			return 0
		case 1:
			return 1 + c.Rand.Intn(8)
		case 2:
			return []int{1024, 1025, 32767, 32768}[c.Rand.Intn(4)]
		case 3:
			return 1 + c.Rand.Intn(32768)
		}
		return 1 + c.Rand.Intn(3000)
	}
	for len(k.Ops) < nops {
		if nsess == 0 || c.Rand.Intn(12) == 0 {
			u := c.Rand.Intn(nu)
			k.Ops = append(k.Ops, c19AcctOp{K: "sess", User: u}, c19AcctOp{K: "input", I: nsess, Open: true, N: []int{0, 10, 1024, size()}[c.Rand.Intn(4)]})
			nsess++
			continue
		}
		i := c.Rand.Intn(nsess)
		switch c.Rand.Intn(10) {
		case 0, 1, 2:
			k.Ops = append(k.Ops, c19AcctOp{K: "input", I: i, N: size()})
		case 3, 4, 5, 6:
			cp := size()
			if c.Rand.Intn(4) == 0 {
				cp = 65536
			}
			k.Ops = append(k.Ops, c19AcctOp{K: "read", I: i, N: cp})
		case 7, 8:
			l := size()
			if c.Rand.Intn(3) == 0 {
				l = c.Rand.Intn(1 << 20)
			}
			k.Ops = append(k.Ops, c19AcctOp{K: "write", I: i, N: l})
		case 9:
			if c.Rand.Intn(4) == 0 {
				k.Ops = append(k.Ops, c19AcctOp{K: "close", I: i})
			} else {
				k.Ops = append(k.Ops, c19AcctOp{K: "input", I: i, Open: true, N: size()}) // a second open request
			}
		}
	}
	return k
}

// pure ops on small exhaustive domains: the read loop and the Write arithmetic
func c19AcctPure(c *core.Ctx) {
	// reference implementation of the loop on byte slices, written from the Go source
	ref := func(cp int, unread []byte, queue [][]byte) (got []byte, un []byte, q [][]byte, blocked bool) {
		b := make([]byte, cp)
		n := 0
		for {
			if len(unread) > 0 {
				copied := copy(b[n:], unread)
				n += copied
				if copied == len(unread) {
					unread = nil
				} else {
					unread = unread[copied:]
				}
				if n == len(b) || len(unread) > 0 {
					break
				}
			}
			if len(queue) > 0 {
				seg := queue[0]
				queue = queue[1:]
				copied := copy(b[n:], seg)
				n += copied
				if copied < len(seg) {
					unread = seg[copied:]
				}
				if n == len(b) {
					break
				}
			} else {
				if n > 0 {
					break
				}
				return nil, unread, queue, true
			}
		}
		return b[:n], unread, queue, false
	}
	lens := func(q [][]byte) string {
		if len(q) == 0 {
			return "-"
		}
		p := make([]string, len(q))
		for i := range q {
			p[i] = strconv.Itoa(len(q[i]))
		}
		return strings.Join(p, ",")
	}
	n := 0
	next := byte(1)
	mk := func(l int) []byte {
		b := make([]byte, l)
		for i := range b {
			b[i] = next
			next++
		}
		return b
	}
	for cp := 1; cp <= 5; cp++ {
		for ul := 0; ul <= 4; ul++ {
			for nq := 0; nq <= 3; nq++ {
				// all queues of nq segments with lengths 0..3
				total := 1
				for i := 0; i < nq; i++ {
					total *= 4
				}
				for code := 0; code < total; code++ {
					unread := mk(ul)
					var queue [][]byte
					var qs []string
					x := code
					for i := 0; i < nq; i++ {
						seg := mk(x % 4)
						x /= 4
						queue = append(queue, seg)
						if len(seg) == 0 {
							qs = append(qs, "e")
						} else {
							qs = append(qs, core.Hex(seg))
						}
					}
					qarg := "-"
					if len(qs) > 0 {
						qarg = strings.Join(qs, ",")
					}
					got, un, q, blocked := ref(cp, unread, queue)
					want := fmt.Sprintf("ok %s %d %s %v", core.Hex(got), len(un), lens(q), blocked)
					r := c.Model.Ask("acct-readloop %d %s %s", cp, core.Hex(unread), qarg)
					c.Compared()
					n++
					if r != want {
						c.Disagree("C19/corr/acct/readloop", fmt.Sprintf("cap %d unread %d queue %s: reference %q, model %q", cp, ul, qarg, want, r), nil)
						return
					}
				}
			}
		}
	}
	for _, l := range []int{0, 1, 32767, 32768, 32769, 65536, 65537, 1 << 20} {
		for ok := 0; ok <= 40; ok += 1 {
			chunks := (l + c19MaxPDU - 1) / c19MaxPDU
			want := l
			if ok < chunks {
				want = ok * c19MaxPDU
			}
			r := c.Model.Ask("acct-writen %d %d", l, ok)
			c.Compared()
			if r != fmt.Sprintf("ok %d", want) {
				c.Disagree("C19/corr/acct/writen", fmt.Sprintf("len %d okChunks %d: arithmetic %d, model %q", l, ok, want, r), nil)
				return
			}
		}
	}
	c.Note("acct-readloop: %d exhaustive small cases (cap 1..5, unread 0..4, queues of up to 3 segments of 0..3 bytes) against a byte-slice transcription of the loop", n)
}

func init() {
	core.RegisterReplay("C19", func(c *core.Ctx, raw json.RawMessage) bool {
		var k c19AcctCase
		if json.Unmarshal(raw, &k) != nil || k.Kind != "acct" {
			return false
		}
		c19AcctExec(c, k)
		bgClose.Wait(30 * time.Second)
		return true
	})
	core.RegisterExtra("C19", func(c *core.Ctx) {
		c.Correspondence("acct-*: real server sessions (Session.input / Read / Write / Close, metric registration, checkQuota in inputData) operation by operation vs Mieru.Acct.step; acct-readloop exhaustively on small domains")
		c19AcctPure(c)
		var cases []c19AcctCase
		if files, _ := filepath.Glob(filepath.Join(c.Corpus, "acct-*.json")); len(files) > 0 {
			sort.Strings(files)
			for _, f := range files {
				raw, err := os.ReadFile(f)
				var k c19AcctCase
				if err == nil && json.Unmarshal(raw, &k) == nil && k.Kind == "acct" {
					cases = append(cases, k)
				}
			}
			c.Note("acct corpus cases: %d", len(cases))
		}
		for _, k := range c19AcctBoundary() {
			c.Hist("acct_boundary", k.Class)
			cases = append(cases, k)
		}
		for i := 0; i < c.N(40, 600); i++ {
			cases = append(cases, c19AcctRandom(c))
		}
		c.Sample(cases[len(cases)-1].Ops[:4])
		for _, k := range cases {
			c19AcctExec(c, k)
		}
		bgClose.Wait(60 * time.Second)
	})
}
