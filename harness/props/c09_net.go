package props

import (
	"encoding/json"
	"net"
	"os"
	"path/filepath"
	"sort"
	"strings"
	"sync"
	"time"

	"verifharness/core"
)

// In-memory connections used by the C08/C09 scenarios to drive the real segment writers and
// readers (client-mode underlays built by the verif hooks). They never block: an empty queue
// reads as a timeout, which the real readers treat as "no data".

type memTimeout struct{}

func (memTimeout) Error() string   { return "i/o timeout (memconn: no data)" }
func (memTimeout) Timeout() bool   { return true }
func (memTimeout) Temporary() bool { return true }

type memAddr string

func (a memAddr) Network() string { return "mem" }
func (a memAddr) String() string  { return string(a) }

// memConn is a one-directional byte pipe with full capture of Write boundaries.
type memConn struct {
	mu     sync.Mutex
	buf    []byte
	Writes [][]byte
}

func (c *memConn) Write(p []byte) (int, error) {
	c.mu.Lock()
	defer c.mu.Unlock()
	c.buf = append(c.buf, p...)
	c.Writes = append(c.Writes, append([]byte(nil), p...))
	return len(p), nil
}

func (c *memConn) Read(p []byte) (int, error) {
	c.mu.Lock()
	defer c.mu.Unlock()
	if len(c.buf) == 0 {
		return 0, memTimeout{}
	}
	n := copy(p, c.buf)
	c.buf = c.buf[n:]
	return n, nil
}

func (c *memConn) Bytes() []byte {
	c.mu.Lock()
	defer c.mu.Unlock()
	return append([]byte(nil), c.buf...)
}

func (c *memConn) Close() error                       { return nil }
func (c *memConn) LocalAddr() net.Addr                { return memAddr("local") }
func (c *memConn) RemoteAddr() net.Addr               { return memAddr("remote") }
func (c *memConn) SetDeadline(t time.Time) error      { return nil }
func (c *memConn) SetReadDeadline(t time.Time) error  { return nil }
func (c *memConn) SetWriteDeadline(t time.Time) error { return nil }

// memPacketConn queues datagrams; every datagram reads as coming from Peer.
type memPacketConn struct {
	mu    sync.Mutex
	Queue [][]byte
	Peer  net.Addr
}

func (c *memPacketConn) WriteTo(p []byte, addr net.Addr) (int, error) {
	c.mu.Lock()
	defer c.mu.Unlock()
	c.Queue = append(c.Queue, append([]byte(nil), p...))
	return len(p), nil
}

func (c *memPacketConn) ReadFrom(p []byte) (int, net.Addr, error) {
	c.mu.Lock()
	defer c.mu.Unlock()
	if len(c.Queue) == 0 {
		return 0, nil, memTimeout{}
	}
	d := c.Queue[0]
	c.Queue = c.Queue[1:]
	n := copy(p, d)
	return n, c.Peer, nil
}

func (c *memPacketConn) Close() error                       { return nil }
func (c *memPacketConn) LocalAddr() net.Addr                { return memAddr("local") }
func (c *memPacketConn) SetDeadline(t time.Time) error      { return nil }
func (c *memPacketConn) SetReadDeadline(t time.Time) error  { return nil }
func (c *memPacketConn) SetWriteDeadline(t time.Time) error { return nil }

// runCorpus feeds every corpus/Cnn/*.json file (sorted) to fn: either a bare case or a replay
// file written by bin/check (the case is then under "input").
func runCorpus(c *core.Ctx, fn func(raw json.RawMessage)) {
	if c.Corpus == "" {
		return
	}
	ents, err := os.ReadDir(c.Corpus)
	if err != nil {
		return
	}
	var names []string
	for _, e := range ents {
		if !e.IsDir() && strings.HasSuffix(e.Name(), ".json") {
			names = append(names, e.Name())
		}
	}
	sort.Strings(names)
	for _, n := range names {
		raw, err := os.ReadFile(filepath.Join(c.Corpus, n))
		if err != nil {
			continue
		}
		var w struct {
			Input json.RawMessage `json:"input"`
		}
		if json.Unmarshal(raw, &w) == nil && len(w.Input) > 0 {
			raw = w.Input
		}
		c.Hist("corpus", "files")
		fn(json.RawMessage(raw))
	}
}
