package props

import (
	"encoding/hex"
	"encoding/json"
	"os"
	"path/filepath"
	"sort"
	"strings"

	"github.com/enfein/mieru/v3/pkg/appctl"
	pb "github.com/enfein/mieru/v3/pkg/appctl/appctlpb"
	"github.com/enfein/mieru/v3/pkg/common"
	"google.golang.org/protobuf/proto"
	"verifharness/core"
)

// C20 — configuration handling is total, lossless, and keeps server passwords hashed.
//
// Correspondence (Mieru.Model.Url / Config / Base64): QueryEscape/QueryUnescape, userinfo escaping,
// strconv.Atoi/Itoa, base64.StdEncoding, url.ParseQuery/Values.Encode, URLToClientConfig,
// URLToClientProfile (on what url.Parse returns), ClientProfileToMultiURLs, merge + hashing observed
// through StoreServerConfig/LoadServerConfig/ApplyJSONServerConfig and the client counterparts.
// Direct oracles: store→load equality in both file formats, no plaintext password in the stored server
// file, only patched fields change, a rejected patch leaves the file alone, link export→import
// equivalence (per server for mierus://), and panic-freedom of every entry point on malformed text.

func c20Run(c *core.Ctx, k c20Case) {
	switch k.Kind {
	case "esc", "unesc":
		c20Esc(c, k)
	case "atoi", "itoa":
		c20Atoi(c, k)
	case "b64enc", "b64dec":
		c20B64(c, k)
	case "query":
		c20Query(c, k)
	case "link":
		c20Link(c, k)
	case "export":
		c20Export(c, k)
	case "config-url":
		c20ConfigURL(c, k)
	case "server-store":
		c20ServerStore(c, k)
	case "server-apply", "server-json":
		c20ServerApply(c, k)
	case "client-store":
		c20ClientStore(c, k)
	case "client-apply", "client-apply-url", "client-json":
		c20ClientApply(c, k)
	case "client-link":
		c20ClientLink(c, k)
	default:
		if strings.HasPrefix(k.Kind, "val-") {
			c20ValRun(c, k)
		}
	}
}

func c20Corpus(c *core.Ctx) {
	files, _ := filepath.Glob(filepath.Join(c.Corpus, "*.json"))
	sort.Strings(files)
	for _, f := range files {
		raw, err := os.ReadFile(f)
		if err != nil {
			continue
		}
		var wrap struct {
			Input json.RawMessage `json:"input"`
		}
		var k c20Case
		if json.Unmarshal(raw, &wrap) == nil && len(wrap.Input) > 0 && json.Unmarshal(wrap.Input, &k) == nil && k.Kind != "" {
			c.Hist("source", "corpus")
			c20Run(c, k)
		} else {
			c.Note("corpus file %s is not a C20 case", filepath.Base(f))
		}
	}
}

// c20Mutations: every prefix (bounded), truncations, single-byte mutations of a valid text.
func c20Mutations(c *core.Ctx, text string, maxPrefixes, nMut int) []string {
	var out []string
	step := 1
	if maxPrefixes > 0 && len(text) > maxPrefixes {
		step = len(text)/maxPrefixes + 1
	}
	for i := 0; maxPrefixes > 0 && i < len(text); i += step {
		out = append(out, text[:i])
	}
	for i := 0; i < nMut && len(text) > 0; i++ {
		b := []byte(text)
		pos := c.Rand.Intn(len(b))
		switch c.Rand.Intn(6) {
		case 0:
			b[pos] ^= 1 << uint(c.Rand.Intn(8))
		case 1:
			const special = "%:@/?#&=+; \"{}[],\\\x00\xff"
			b[pos] = special[c.Rand.Intn(len(special))]
		case 2:
			b = append(b[:pos], b[pos+1:]...)
		case 3:
			b = append(b[:pos], append([]byte{"%:@/?#&=+-"[c.Rand.Intn(10)]}, b[pos:]...)...)
		case 4:
			b = append(b[:pos], append(append([]byte{}, b[pos:]...), b[pos:]...)...)
		case 5:
			b = b[pos:]
		}
		out = append(out, string(b))
	}
	return out
}

var c20NearMiss = []string{
	"", "mieru:", "mieru:/", "mieru:?", "mieru:#", "mieru://", "mieru:///", "mieru:/x", "mieru:/AAAA", "mieru:?AAAA", "mieru:AAAA",
	"MIERU://", "Mieru://AAAA", "mieru//AAAA", "mieru:://", "mierus:", "mierus:/", "mierus://", "mierus://@", "mierus://:@", "mierus://u@h",
	"mierus://u:@h", "mierus://:p@h", "mierus://u:p@", "mierus://u:p@h", "mierus://u:p@h?", "mierus://u:p@h?profile=", "mierus://u:p@h?profile=x",
	"mierus://u:p@h?profile=x&port=1", "mierus://u:p@h?profile=x&port=1&protocol=TCP", "mierus://u:p@h?profile=x&port=0&protocol=TCP",
	"mierus://u:p@h?profile=x&port=65536&protocol=TCP", "mierus://u:p@h?profile=x&port=+80&protocol=TCP", "mierus://u:p@h?profile=x&port=-80&protocol=TCP",
	"mierus://u:p@h?profile=x&port=1-2&protocol=UDP", "mierus://u:p@h?profile=x&port=2-1&protocol=UDP", "mierus://u:p@h?profile=x&port=1-2-3&protocol=UDP",
	"mierus://u:p@h?profile=x&port=-1-2&protocol=UDP", "mierus://u:p@h?profile=x&port=1-&protocol=UDP", "mierus://u:p@h?profile=x&port=-&protocol=UDP",
	"mierus://u:p@h?profile=x&port=a-b&protocol=UDP", "mierus://u:p@h?profile=x&port=1-b&protocol=UDP", "mierus://u:p@h?profile=x&port=0-5&protocol=UDP",
	"mierus://u:p@h?profile=x&port=5-70000&protocol=UDP", "mierus://u:p@h?profile=x&port=007-0010&protocol=UDP", "mierus://u:p@h?profile=x&port=&protocol=",
	"mierus://u:p@h?profile=x&port=99999999999999999999&protocol=TCP", "mierus://u:p@h?profile=x&port=9223372036854775808&protocol=TCP",
	"mierus://u:p@h?profile=x&port=1&protocol=SCTP", "mierus://u:p@h?profile=x&port=1&port=2&protocol=TCP", "mierus://u:p@h?profile=x&mtu=abc",
	"mierus://u:p@h?profile=x&mtu=4294968696", "mierus://u:p@h?profile=x&mtu=-1", "mierus://u:p@h?profile=x&mtu=", "mierus://u:p@h?profile=x&multiplexing=NOPE",
	"mierus://u:p@h?profile=x&multiplexing=MULTIPLEXING_HIGH&handshake-mode=HANDSHAKE_NO_WAIT", "mierus://u:p@h?profile=x&handshake-mode=2",
	"mierus://u:p@h?profile=x&traffic-pattern=!!!", "mierus://u:p@h?profile=x&traffic-pattern=AA==", "mierus://u:p@h?profile=x&traffic-pattern=CAE=",
	"mierus://u:p@h?profile=x&traffic-pattern=/w==", "mierus://u:p@h?profile=x;y", "mierus://u:p@h?profile=%zz", "mierus://u:p@h?%zz=1&profile=x",
	"mierus://u:p@h?profile=x&&&", "mierus://u:p@h?=v&profile=x", "mierus://u:p@h?profile", "mierus://u%zz:p@h?profile=x", "mierus://u:p%4@h?profile=x",
	"mierus://u:p@[::1]?profile=x", "mierus://u:p@[::1]:80?profile=x", "mierus://u:p@[::1?profile=x", "mierus://u:p@h:80?profile=x", "mierus://u:p@h:x?profile=x",
	"mierus://u:p@:80?profile=x", "mierus://u:p@h%20x?profile=x", "mierus://u:p@h/path?profile=x", "mierus://u:p@h?profile=x#frag", "mierus://u:p:q@h?profile=x",
	"mierus://u@v:p@h?profile=x", "mierus:opaque?profile=x", "mierus:/u:p@h?profile=x", "mierus:///u:p@h?profile=x", "mieruss://u:p@h?profile=x",
	" mierus://u:p@h?profile=x", "mierus://u:p@h?profile=x\n", "mierus://u:p@h?profile=x\x00", "mierus://u:p@h?profile=\xff\xfe", "mierus://\xff:p@h?profile=x",
	"http://u:p@h?profile=x", "://", ":", "%", "mieru://%41", "mieru://====", "mieru://A", "mieru://AA", "mieru://AAA", "mieru://AAAA", "mieru://AA==",
	"mieru://AA==AA", "mieru://AA=A", "mieru://A=AA", "mieru://AAAA\n", "mieru://AA\r\n==", "mieru://CgA=", "mieru://CgIKAA==", "mieru://CP//////////AQ==",
	"mieru://Cv8B", "mieru://AAAA?x=1", "mieru://AAAA#f", "mieru://AAAA/BBBB", "mieru://AA+/", "mieru://AA-_", "mieru://u:p@AAAA", "mieru://AAAA:80", "mieru://[AAAA]",
}

func init() {
	core.Register("C20", &core.Scenario{
		Run: func(c *core.Ctx) {
			c.Res.Rule = "valid stream: server/client configurations and patches generated from the proto types (users with names/passwords out of a pool with : @ / ? # % + spaces, non-ASCII, 64-byte strings, random printable; port bindings and ranges; egress proxies/rules; DNS hosts; traffic patterns; every optional field set/unset) through store→load in both file formats, Apply* patches, both link forms. malformed stream: near-miss link texts, every prefix / truncation / byte mutation of valid links and of valid JSON patches; random strings for escaping, Atoi, base64, query parsing. Distinct = distinct case; non-trivial = the operation was accepted."
			c.Correspondence("url-esc/url-unesc/url-atoi/url-itoa/b64-enc/b64-dec/url-parsequery/url-encodequery vs net/url, strconv, encoding/base64 as used by pkg/appctl/url.go")
			c.Correspondence("url-config/url-profile/url-export: pkg/appctl URLToClientConfig, URLToClientProfile, ClientProfileToMultiURLs vs Mieru.Url")
			c.Correspondence("cfg-merge-*/cfg-store-*: pkg/appctl mergeServerConfig/mergeClientConfigByProfile/HashUserPassword(s) observed through Store*/Load*/Apply* vs Mieru.Config")
			defer func() {
				for _, e := range []string{"MITA_CONFIG_FILE", "MITA_CONFIG_JSON_FILE", appctl.EnvMieruConfigFile, appctl.EnvMieruConfigJSONFile} {
					os.Unsetenv(e)
				}
			}()
			c20Corpus(c)
			// ---- the validators against Mieru.Validate: boundaries of every check first, then generated configurations
			c.Correspondence("val-flat/val-user/val-profile/val-server/val-client: FlatPortBindings, ValidateServerConfigSingleUser, ValidateClientConfigSingleProfile, Validate(Full)ServerConfig(Patch), Validate(Full)ClientConfig(Patch) vs Mieru.Validate (decision, failing check, port sets)")
			c20ValBoundaries(c)
			c20ValRandom(c)
			// ---- near-miss link texts
			linkBase := c20PB(c20ClientConfig(c, 0.6, true))
			for _, s := range c20NearMiss {
				c20Run(c, c20Case{Kind: "link", Text: c20Hex(s)})
				c20Run(c, c20Case{Kind: "client-link", PB: linkBase, Text: c20Hex(s)})
			}
			// ---- escaping, integers, base64, query strings
			for i := 0; i < c.N(400, 4000); i++ {
				s := c20Str(c)
				if i%3 == 0 {
					b := make([]byte, c.Rand.Intn(24))
					c.Rand.Read(b)
					s = string(b)
				}
				c20Run(c, c20Case{Kind: "esc", Mode: "q", Text: c20Hex(s)})
				c20Run(c, c20Case{Kind: "esc", Mode: "u", Text: c20Hex(s)})
				c20Run(c, c20Case{Kind: "b64enc", Text: c20Hex(s)})
				// texts to unescape / decode: escaped forms, then damaged
				for _, t := range c20Mutations(c, c20QueryEscapeLike(c, s), 0, 2) {
					c20Run(c, c20Case{Kind: "unesc", Mode: "q", Text: c20Hex(t)})
					c20Run(c, c20Case{Kind: "unesc", Mode: "u", Text: c20Hex(t)})
				}
			}
			for i := 0; i < 256; i++ {
				c20Run(c, c20Case{Kind: "esc", Mode: "q", Text: hex.EncodeToString([]byte{byte(i)})})
				c20Run(c, c20Case{Kind: "esc", Mode: "u", Text: hex.EncodeToString([]byte{byte(i)})})
				c20Run(c, c20Case{Kind: "unesc", Mode: "q", Text: hex.EncodeToString([]byte{byte(i)})})
				c20Run(c, c20Case{Kind: "unesc", Mode: "q", Text: hex.EncodeToString([]byte{'%', byte(i), '0'})})
				c20Run(c, c20Case{Kind: "unesc", Mode: "q", Text: hex.EncodeToString([]byte{'%', '4', byte(i)})})
				c20Run(c, c20Case{Kind: "b64dec", Text: hex.EncodeToString([]byte{'A', byte(i), 'A', 'A'})})
				c20Run(c, c20Case{Kind: "b64dec", Text: hex.EncodeToString([]byte{'A', 'A', byte(i), '='})})
				c20Run(c, c20Case{Kind: "atoi", Text: hex.EncodeToString([]byte{byte(i), '7'})})
				c20Run(c, c20Case{Kind: "atoi", Text: hex.EncodeToString([]byte{'7', byte(i)})})
			}
			for _, s := range []string{"", "0", "-0", "+0", "00012", "+", "-", "--1", "+-1", "1_000", "0x10", "1e3", " 1", "1 ", "٣", "9223372036854775807", "9223372036854775808",
				"-9223372036854775808", "-9223372036854775809", "18446744073709551616", "999999999999999999", "1000000000000000000", "99999999999999999999999"} {
				c20Run(c, c20Case{Kind: "atoi", Text: c20Hex(s)})
			}
			for _, v := range []int64{0, 1, -1, 9, 10, 11, 99, 100, 65535, 65536, 1<<31 - 1, -1 << 31, 1<<63 - 1, -1 << 63, 1234567890123} {
				c20Run(c, c20Case{Kind: "itoa", Int: v})
			}
			for i := 0; i < c.N(300, 3000); i++ {
				c20Run(c, c20Case{Kind: "itoa", Int: c.Rand.Int63() >> uint(c.Rand.Intn(63)) * int64(1-2*c.Rand.Intn(2))})
				d := make([]byte, 1+c.Rand.Intn(22))
				for j := range d {
					d[j] = "0123456789+-_ a"[c.Rand.Intn(10+c.Rand.Intn(6))]
				}
				c20Run(c, c20Case{Kind: "atoi", Text: hex.EncodeToString(d)})
				b := make([]byte, c.Rand.Intn(40))
				c.Rand.Read(b)
				c20Run(c, c20Case{Kind: "b64enc", Text: hex.EncodeToString(b)})
				for _, t := range c20Mutations(c, c20stdB64(b), 0, 3) {
					c20Run(c, c20Case{Kind: "b64dec", Text: c20Hex(t)})
				}
				c20Run(c, c20Case{Kind: "b64dec", Text: c20Hex(c20InsertNewlines(c, c20stdB64(b)))})
				c20Run(c, c20Case{Kind: "query", Text: c20Hex(c20RandomQuery(c))})
			}
			// ---- profiles: export, import, both link forms, with the malformed stream derived from them
			for _, p := range c20BoundaryProfiles(c) {
				c20Run(c, c20Case{Kind: "export", PB: c20PB(p)})
			}
			nprof := c.N(150, 1500)
			for i := 0; i < nprof; i++ {
				p := c20Profile(c, c20Str(c))
				if i%10 == 9 {
					c20Damage(c, p)
				}
				k := c20Case{Kind: "export", PB: c20PB(p)}
				if i == 0 {
					c.Sample(k)
				}
				c20Run(c, k)
				urls, err := appctl.ClientProfileToMultiURLs(p)
				if err == nil && i%3 == 0 {
					for j, t := range c20Mutations(c, urls[0], c.N(40, 400), c.N(12, 60)) {
						c20Run(c, c20Case{Kind: "link", Text: c20Hex(t)})
						if j%8 == 0 {
							c20Run(c, c20Case{Kind: "client-link", PB: linkBase, Text: c20Hex(t), JSON: j%16 == 0})
						}
					}
				}
			}
			ncfg := c.N(60, 600)
			for i := 0; i < ncfg; i++ {
				cfg := c20ClientConfig(c, 0.5, true)
				k := c20Case{Kind: "config-url", PB: c20PB(cfg)}
				if i == 0 {
					c.Sample(k)
				}
				c20Run(c, k)
				if link, err := appctl.ClientConfigToURL(cfg); err == nil && i%6 == 0 {
					for _, t := range c20Mutations(c, link, c.N(40, 300), c.N(12, 60)) {
						c20Run(c, c20Case{Kind: "link", Text: c20Hex(t)})
					}
				}
			}
			// ---- files: store→load, patches, malformed JSON
			nfile := c.N(60, 600)
			for i := 0; i < nfile; i++ {
				jsonFile := i%2 == 0
				sc := c20ServerConfig(c, 0.6, true)
				k := c20Case{Kind: "server-store", PB: c20PB(sc), JSON: jsonFile}
				if i == 0 {
					c.Sample(k)
				}
				c20Run(c, k)
				patch := c20ServerConfig(c, 0.3, false)
				if i%4 == 0 && len(sc.Users) > 0 { // a patch that re-defines an existing user
					u := c20User(c, true)
					u.Name = proto.String(sc.Users[c.Rand.Intn(len(sc.Users))].GetName())
					patch.Users = append(patch.Users, u)
				}
				ka := c20Case{Kind: "server-apply", PB: c20PB(sc), PB2: c20PB(patch), JSON: jsonFile}
				if i == 1 {
					c.Sample(ka)
				}
				c20Run(c, ka)
				c20Run(c, c20Case{Kind: "server-apply", PB: c20PB(&pb.ServerConfig{}), PB2: c20PB(sc), JSON: jsonFile})
				// a patch that passes the patch validation but leaves an incomplete configuration (no port binding /
				// no profile): the full validation must reject it and nothing may be written
				c20Run(c, c20Case{Kind: "server-apply", PB: c20PB(&pb.ServerConfig{}), PB2: c20PB(patch), JSON: jsonFile})
				cc := c20ClientConfig(c, 0.6, true)
				c20Run(c, c20Case{Kind: "client-store", PB: c20PB(cc), JSON: jsonFile})
				cpatch := c20ClientConfig(c, 0.3, false)
				if i%4 == 0 { // a patch that replaces an existing profile
					cpatch.Profiles = append(cpatch.Profiles, c20Profile(c, cc.Profiles[0].GetProfileName()))
				}
				c20Run(c, c20Case{Kind: "client-apply", PB: c20PB(cc), PB2: c20PB(cpatch), JSON: jsonFile})
				c20Run(c, c20Case{Kind: "client-apply", PB: c20PB(&pb.ClientConfig{}), PB2: c20PB(cc), JSON: jsonFile})
				c20Run(c, c20Case{Kind: "client-apply", PB: c20PB(&pb.ClientConfig{}), PB2: c20PB(cpatch), JSON: jsonFile})
				if i%3 == 0 {
					c20Run(c, c20Case{Kind: "client-apply-url", PB: c20PB(cc), PB2: c20PB(cpatch), JSON: jsonFile})
				}
				if i%5 == 0 {
					if txt, err := common.MarshalJSON(patch); err == nil {
						for _, t := range c20Mutations(c, string(txt), c.N(60, 400), c.N(20, 100)) {
							c20Run(c, c20Case{Kind: "server-json", PB: c20PB(sc), Text: c20Hex(t), JSON: jsonFile})
						}
					}
					if txt, err := common.MarshalJSON(cpatch); err == nil {
						for _, t := range c20Mutations(c, string(txt), c.N(60, 400), c.N(20, 100)) {
							c20Run(c, c20Case{Kind: "client-json", PB: c20PB(cc), Text: c20Hex(t), JSON: jsonFile})
						}
					}
				}
			}
			for _, t := range []string{"", "{", "}", "null", "[]", "{}", "{\"users\":null}", "{\"users\":[null]}", "{\"users\":[{}]}", "{\"mtu\":\"x\"}", "{\"mtu\":1e99}",
				"{\"portBindings\":[{\"port\":-1,\"protocol\":\"TCP\"}]}", "{\"portBindings\":[{\"portRange\":\"9-1\",\"protocol\":\"TCP\"}]}", "{\"unknown\":1}",
				"{\"users\":[{\"name\":\"a\",\"password\":\"\\ud800\"}]}", "{\"loggingLevel\":\"NOPE\"}", "{\"loggingLevel\":99}", "\xff\xfe", "{\"dns\":{\"hosts\":{\"\":\"1.2.3.4\"}}}",
				"{\"egress\":{\"rules\":[{\"domainNames\":[\"\"]}]}}", "{\"trafficPattern\":{\"nonce\":{\"minLen\":5,\"maxLen\":3}}}"} {
				c20Run(c, c20Case{Kind: "server-json", PB: c20PB(c20ServerConfig(c, 0.6, true)), Text: c20Hex(t), JSON: true})
				c20Run(c, c20Case{Kind: "client-json", PB: c20PB(c20ClientConfig(c, 0.6, true)), Text: c20Hex(t), JSON: false})
			}
		},
		Replay: func(c *core.Ctx, raw json.RawMessage) {
			var k c20Case
			if json.Unmarshal(raw, &k) == nil {
				c20Run(c, k)
			}
		},
	})
}

// ---- small generators for the malformed stream -------------------------------------------------

func c20stdB64(b []byte) string { return strings.TrimSpace(c20stdEnc(b)) }

func c20QueryEscapeLike(c *core.Ctx, s string) string {
	var sb strings.Builder
	for i := 0; i < len(s); i++ {
		switch c.Rand.Intn(4) {
		case 0:
			sb.WriteString("%" + strings.ToUpper(hex.EncodeToString([]byte{s[i]})))
		case 1:
			sb.WriteString("%" + hex.EncodeToString([]byte{s[i]}))
		case 2:
			sb.WriteByte('+')
		default:
			sb.WriteByte(s[i])
		}
	}
	return sb.String()
}

func c20InsertNewlines(c *core.Ctx, s string) string {
	var sb strings.Builder
	for i := 0; i < len(s); i++ {
		if c.Rand.Intn(5) == 0 {
			sb.WriteString([]string{"\n", "\r", "\r\n"}[c.Rand.Intn(3)])
		}
		sb.WriteByte(s[i])
	}
	if c.Rand.Intn(2) == 0 {
		sb.WriteString("\n")
	}
	return sb.String()
}

func c20RandomQuery(c *core.Ctx) string {
	keys := []string{"profile", "port", "protocol", "mtu", "a b", "k%", "", "ü", "x=y", "traffic-pattern"}
	var parts []string
	for i := c.Rand.Intn(6); i > 0; i-- {
		k := keys[c.Rand.Intn(len(keys))]
		v := c20Str(c)
		switch c.Rand.Intn(6) {
		case 0:
			parts = append(parts, k) // no '='
		case 1:
			parts = append(parts, c20QueryEscapeLike(c, k)+"="+v) // raw value: may hold ; % & =
		case 2:
			parts = append(parts, "")
		default:
			parts = append(parts, c20QueryEscapeLike(c, k)+"="+c20QueryEscapeLike(c, v))
		}
	}
	return strings.Join(parts, "&")
}

// c20Damage makes a profile invalid for export in one of the ways the exporter checks.
func c20Damage(c *core.Ctx, p *pb.ClientProfile) {
	n := c.Rand.Intn(7)
	// a profile that an earlier damage already stripped of its servers / user can only take the damages that
	// do not index into them (the thorough tier applies several damages to one profile)
	if (len(p.Servers) == 0 && (n == 4 || n == 5)) || (p.User == nil && (n == 1 || n == 2)) {
		n = 0
	}
	switch n {
	case 0:
		p.ProfileName = proto.String("")
	case 1:
		p.User.Name = nil
	case 2:
		p.User.Password = proto.String("")
	case 3:
		p.Servers = nil
	case 4:
		p.Servers[len(p.Servers)-1].DomainName, p.Servers[len(p.Servers)-1].IpAddress = nil, nil
	case 5:
		p.Servers[0].PortBindings = nil
	case 6:
		p.User = nil
	}
}
