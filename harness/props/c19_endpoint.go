package props

import (
	"context"
	"encoding/json"
	"fmt"
	"io"
	"net"
	"strings"
	"sync"
	"sync/atomic"
	"time"

	"github.com/enfein/mieru/v3/pkg/appctl/appctlpb"
	"github.com/enfein/mieru/v3/pkg/metrics"
	"google.golang.org/protobuf/proto"
	"verifharness/core"
	"verifharness/sim"
)

// C19, whole-system stage: real client/server over the in-memory network, several users with and
// without quotas, known byte counts.
//  * accounting: the per-user upload / download counters equal exactly what the server sessions'
//    applications read / wrote;
//  * quota: a user whose traffic in the window reaches (megabytes+1) MiB gets new sessions refused
//    and nothing relayed on them; users within their allowance and other users are never refused;
//    the boundary (one byte below / exactly at the refusal point) is exercised.
// User names are unique per case: the metrics registry is process-wide.

type c19EPCase struct {
	Seed int64 `json:"seed"`
	UDP  bool  `json:"udp"`
	// total bytes (upload + download) the limited user moves before the probe session, relative to
	// the refusal point (megabytes+1) MiB: -1 = one byte below, 0 = exactly at, +n = above
	Delta     int `json:"delta"`
	FirstSize int `json:"first_write"` // size of the probe session's first write (0..1024 piggy-backs)
	// AppRead: size of the buffer the server application reads with (0 = 65536): smaller than a segment's
	// payload makes one segment span several Read calls
	AppRead int `json:"app_read,omitempty"`
	// Multiplex: client multiplexing factor; with KeepOpen the limited user's first session stays open
	// during the probe, so that the probe session travels on the same connection
	Multiplex int  `json:"multiplex,omitempty"`
	KeepOpen  bool `json:"keep_open,omitempty"`
}

var c19Uniq int64

type c19Srv struct {
	appRead int
	mu      sync.Mutex
	read    map[string]int // per user name: bytes the server applications read
	wrote   map[string]int
	conns   []net.Conn
}

func counterValue(user, metric string) int64 {
	g := metrics.GetMetricGroupByName(fmt.Sprintf(metrics.UserMetricGroupFormat, user))
	if g == nil {
		return -1
	}
	m, ok := g.GetMetric(metric)
	if !ok {
		return -1
	}
	return m.(*metrics.Counter).Load()
}

type userNamer interface{ UserName() string }

// echo server application that accounts what it reads and writes per authenticated user
func (s *c19Srv) serve(w *sim.World) {
	for {
		conn, err := w.Server.Accept()
		if err != nil {
			return
		}
		s.mu.Lock()
		s.conns = append(s.conns, conn)
		s.mu.Unlock()
		go func(c net.Conn) {
			name := ""
			size := 65536
			if s.appRead > 0 {
				size = s.appRead
			}
			buf := make([]byte, size)
			for {
				n, err := c.Read(buf)
				if u, ok := c.(userNamer); ok && name == "" {
					name = u.UserName() // known once the first segment has been processed
				}
				if n > 0 {
					s.mu.Lock()
					s.read[name] += n
					s.mu.Unlock()
					k, _ := c.Write(buf[:n])
					s.mu.Lock()
					s.wrote[name] += k
					s.mu.Unlock()
				}
				if err != nil {
					return
				}
			}
		}(conn)
	}
}

// echoExchange sends total bytes in writes of `chunk` and reads the echo back; returns bytes echoed.
func echoExchange(cl interface {
	DialContext(context.Context) (net.Conn, error)
}, total, chunk int, firstSize int) (echoed int, firstErr error, readErr error) {
	echoed, firstErr, readErr, conn := echoExchangeKeep(cl, total, chunk, firstSize)
	if conn != nil {
		conn.Close()
	}
	return
}

// echoExchangeKeep is echoExchange that leaves the session open and returns it.
func echoExchangeKeep(cl interface {
	DialContext(context.Context) (net.Conn, error)
}, total, chunk int, firstSize int) (echoed int, firstErr error, readErr error, conn net.Conn) {
	ctx, cancel := context.WithTimeout(context.Background(), 30*time.Second)
	defer cancel()
	conn, err := cl.DialContext(ctx)
	if err != nil {
		return 0, err, nil, nil
	}
	done := make(chan struct{})
	go func() {
		defer close(done)
		buf := make([]byte, 65536)
		conn.SetReadDeadline(time.Now().Add(30 * time.Second))
		for echoed < total {
			n, err := conn.Read(buf)
			echoed += n
			if err != nil {
				if err != io.EOF {
					readErr = err
				} else {
					readErr = io.EOF
				}
				return
			}
		}
	}()
	sent := 0
	for sent < total {
		n := chunk
		if sent == 0 && firstSize > 0 {
			n = firstSize
		}
		if n > total-sent {
			n = total - sent
		}
		if _, err := conn.Write(make([]byte, n)); err != nil {
			firstErr = err
			break
		}
		sent += n
	}
	select {
	case <-done:
	case <-time.After(30 * time.Second):
	}
	return echoed, firstErr, readErr, conn
}

func c19EndpointRun(c *core.Ctx, k c19EPCase) {
	id := fmt.Sprintf("%x-%d", uint64(k.Seed), atomic.AddInt64(&c19Uniq, 1)) // unique: the metrics registry is process-wide
	limited, free, roomy := "qa-"+id, "qb-"+id, "qc-"+id
	q := func(mb int32) []*appctlpb.Quota {
		return []*appctlpb.Quota{{Days: proto.Int32(1), Megabytes: proto.Int32(mb)}}
	}
	w, err := sim.NewWorld(sim.Config{UDP: k.UDP, Seed: k.Seed, Multiplex: k.Multiplex, Users: []sim.User{
		{Name: limited, Password: "pw-a", Quotas: q(1)},
		{Name: free, Password: "pw-b"},
		{Name: roomy, Password: "pw-c", Quotas: q(64)},
	}})
	if err != nil {
		c.Violate("C19/endpoint/setup", err.Error(), k)
		return
	}
	defer bgClose.Go(w.Close)
	srv := &c19Srv{appRead: k.AppRead, read: map[string]int{}, wrote: map[string]int{}}
	go srv.serve(w)
	clFree, _ := w.NewClient(1, nil)
	clRoomy, _ := w.NewClient(2, nil)

	// the limited user moves `target` bytes in total (echo: upload = download = target/2)
	refusal := 2 * 1048576 // (megabytes+1) MiB with megabytes = 1
	target := refusal + k.Delta
	half := target / 2
	up1 := half
	if target%2 == 1 {
		up1++ // odd totals: one extra byte that is not echoed is impossible with an echo server; round up
		target = 2 * up1
	}
	echoed, werr, _, first := echoExchangeKeep(w.Client, up1, 32768, 0)
	if first != nil {
		if k.KeepOpen {
			defer first.Close()
		} else {
			first.Close()
		}
	}
	if echoed != up1 || werr != nil {
		c.Violate("C19/endpoint/transfer-within-allowance-failed", fmt.Sprintf("limited user's first session (within its allowance when it was opened) echoed %d of %d bytes (write err %v)", echoed, up1, werr), k)
		return
	}
	// other users run meanwhile and afterwards: never refused
	for _, other := range []struct {
		name string
		cl   interface {
			DialContext(context.Context) (net.Conn, error)
		}
	}{{free, clFree}, {roomy, clRoomy}} {
		e, werr, _ := echoExchange(other.cl, 50000, 8192, 100)
		if e != 50000 || werr != nil {
			c.Violate("C19/quota/other-user-refused", fmt.Sprintf("user %s (no quota exceeded) echoed %d of 50000 bytes (err %v) after another user exceeded its quota", other.name, e, werr), k)
		}
	}
	time.Sleep(100 * time.Millisecond)
	// accounting: counters equal what the applications saw
	srv.mu.Lock()
	readL, wroteL := srv.read[limited], srv.wrote[limited]
	readF, wroteF := srv.read[free], srv.wrote[free]
	srv.mu.Unlock()
	c.Compared()
	if up, down := counterValue(limited, metrics.UserMetricUploadBytes), counterValue(limited, metrics.UserMetricDownloadBytes); up != int64(readL) || down != int64(wroteL) {
		c.Violate("C19/accounting/counter-differs-from-application-bytes", fmt.Sprintf("user %s: upload counter %d vs %d bytes read by its server sessions; download counter %d vs %d bytes written", limited, up, readL, down, wroteL), k)
	}
	if up, down := counterValue(free, metrics.UserMetricUploadBytes), counterValue(free, metrics.UserMetricDownloadBytes); up != int64(readF) || down != int64(wroteF) {
		c.Violate("C19/accounting/counter-differs-from-application-bytes", fmt.Sprintf("user %s: upload counter %d vs %d read; download counter %d vs %d written", free, up, readF, down, wroteF), k)
	}
	// probe session of the limited user
	total := int(counterValue(limited, metrics.UserMetricUploadBytes) + counterValue(limited, metrics.UserMetricDownloadBytes))
	shouldRefuse := total/1048576 > 1
	srv.mu.Lock()
	before := srv.read[limited]
	srv.mu.Unlock()
	w.Net.Lock()
	streamsBefore := len(w.Net.Streams)
	w.Net.Unlock()
	pe, _, rerr := echoExchange(w.Client, 2000, 1000, k.FirstSize)
	if !k.UDP {
		w.Net.Lock()
		c.Hist("probe_session_connection", map[bool]string{true: "shared-with-earlier-session", false: "own-connection"}[len(w.Net.Streams) == streamsBefore])
		w.Net.Unlock()
	}
	time.Sleep(100 * time.Millisecond)
	srv.mu.Lock()
	delivered := srv.read[limited] - before
	srv.mu.Unlock()
	c.Hist("quota_probe", fmt.Sprintf("delta=%+d refuse=%v", k.Delta, shouldRefuse))
	if shouldRefuse {
		if pe > 0 {
			c.Violate("C19/quota/refused-session-echoed", fmt.Sprintf("limited user moved %d bytes (≥ %d) yet a new session echoed %d bytes", total, refusal, pe), k)
		}
		if delivered > 0 {
			key := "C19/quota/refused-session-delivers-piggyback"
			if k.FirstSize == 0 || k.FirstSize > 1024 || delivered > k.FirstSize {
				key = "C19/quota/refused-session-delivers-data"
			}
			c.Violate(key, fmt.Sprintf("on a session refused for quota the server application still received %d bytes (first write %d bytes)", delivered, k.FirstSize), k)
		}
		_ = rerr
	} else {
		if pe != 2000 {
			c.Violate("C19/quota/within-allowance-refused", fmt.Sprintf("limited user moved %d bytes (< %d) but its new session echoed only %d of 2000 bytes", total, refusal, pe), k)
		}
	}
}

func init() {
	core.RegisterReplay("C19", func(c *core.Ctx, raw json.RawMessage) bool {
		var k c19EPCase
		if json.Unmarshal(raw, &k) != nil || !strings.Contains(string(raw), "first_write") || !strings.Contains(string(raw), "delta") {
			return false
		}
		c19EndpointRun(c, k)
		bgClose.Wait(30 * time.Second)
		return true
	})
	core.RegisterExtra("C19", func(c *core.Ctx) {
		c.Correspondence("whole system: per-user counters vs bytes seen by server applications; refusal of new sessions at (megabytes+1) MiB for exactly the user who exceeded, boundary ±1 byte")
		var cases []c19EPCase
		deltas := []int{-2, 0, 2, 200000, -200000}
		for i, d := range deltas {
			for _, fs := range []int{10, 1024, 1500} {
				if !c.Thorough() && (i+fs)%2 == 1 && d != 0 && d != -2 {
					continue
				}
				k := c19EPCase{Seed: c.Rand.Int63(), UDP: (i+fs/10)%2 == 1, Delta: d, FirstSize: fs}
				k.AppRead = []int{0, 1000, 333, 4096}[len(cases)%4]
				if len(cases)%3 != 0 {
					k.Multiplex, k.KeepOpen = 1+len(cases)%3, true
				}
				cases = append(cases, k)
			}
		}
		// corpus first: the repaired piggy-back defect (refused session, 10-byte first write)
		cases = append([]c19EPCase{{Seed: 1031111469539453589, UDP: false, Delta: 0, FirstSize: 10}, {Seed: 77, UDP: true, Delta: 2, FirstSize: 1024},
			// always: an over-quota user's later session on an already authenticated TCP connection, and
			// server applications that read a segment's payload in several pieces
			{Seed: c.Rand.Int63(), UDP: false, Delta: 2, FirstSize: 10, Multiplex: 2, KeepOpen: true, AppRead: 333},
			{Seed: c.Rand.Int63(), UDP: false, Delta: 200000, FirstSize: 1500, Multiplex: 3, KeepOpen: true},
			{Seed: c.Rand.Int63(), UDP: true, Delta: 0, FirstSize: 1500, Multiplex: 1, KeepOpen: true, AppRead: 1000}}, cases...)
		c.Sample(cases[0])
		core.Parallel(len(cases), 6, func(i int) {
			c.Eval(fmt.Sprintf("c19-endpoint/%d/%d/%v", cases[i].Delta, cases[i].FirstSize, cases[i].UDP), true)
			c19EndpointRun(c, cases[i])
		})
		bgClose.Wait(30 * time.Second)
	})
}
