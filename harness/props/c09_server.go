package props

import (
	"bytes"
	"context"
	"encoding/json"
	"fmt"
	"io"
	"math/rand"
	"net"
	"strings"
	"sync"
	"sync/atomic"
	"time"

	apicommon "github.com/enfein/mieru/v3/apis/common"
	"github.com/enfein/mieru/v3/apis/trafficpattern"
	"github.com/enfein/mieru/v3/pkg/cipher"
	"github.com/enfein/mieru/v3/pkg/common"
	"github.com/enfein/mieru/v3/pkg/protocol"
	"verifharness/core"
	"verifharness/sim"
	"verifharness/simnet"
	"verifharness/wire"
)

// C09, third-party SERVER stage.
//
// A reference server built only from the reference codec (harness/wire for the live session,
// the Lean codec Mieru.Model.Spec / SpecServer through the model driver for everything that is
// compared) accepts a REAL mieru client (protocol.Mux, client mode) on the in-memory network, on
// TCP and on UDP. It knows (user name, password, clock) and docs/protocol.md, nothing else.
//
// Direct oracle (property level):
//   * the real client's application reads exactly the bytes the reference server's application
//     wrote, whatever lawful paddings / piggy-backed payloads / fragment sizes / low-entropy
//     parameters the server chose, and sees end-of-stream exactly when the server closed;
//   * the reference server decodes exactly the bytes the real client's application wrote;
//   * every byte / datagram the real client emits decodes under the reference codec;
//   * the real client never drops or rejects a lawful segment of the reference server: the session
//     stays alive, the close-session request is answered, and on UDP (loss-free network) every
//     numbered segment is acknowledged. The reference server repeats a segment only after 300 ms
//     without an acknowledgement; that happens when the real client swallows its own ack (the
//     flag ackOnDataRecv is raised before nextRecv advances and cleared after an ack that still
//     carries the old number) — counted in the histogram third_server_udp_repeat, not a wire matter.
// Correspondence: the Lean codec decodes the client's traffic to the same segments, selects the
// same reply key, and re-encodes every segment the reference server sent to the same bytes.

type c09SrvSeg struct {
	T      string `json:"t"` // open | data | ack
	N      int    `json:"n"`
	P1     int    `json:"p1"`
	P2     int    `json:"p2"`
	LEMode int    `json:"le_mode,omitempty"`
	LERot  int    `json:"le_rot,omitempty"`
	LEPad  int    `json:"le_pad,omitempty"`
	Frag   int    `json:"frag,omitempty"`
}

type c09SrvRound struct {
	ClientWrites []int       `json:"client_writes"` // the real client's application writes these, then reads the reply
	Segs         []c09SrvSeg `json:"segs"`          // what the reference server sends once it has all of them
	MaxRead      int         `json:"max_read"`
}

type c09SrvSession struct {
	Rounds       []c09SrvRound `json:"rounds"`
	ServerCloses bool          `json:"server_closes"`
	ClosePad     int           `json:"close_pad"`
}

type c09SrvCase struct {
	Kind          string          `json:"kind"` // "third-server"
	Seed          int64           `json:"seed"`
	UDP           bool            `json:"udp"`
	MTU           int             `json:"mtu"`
	MaxChunk      int             `json:"max_chunk"`
	Multiplex     int             `json:"multiplex"`
	Window        int             `json:"window"`
	User          string          `json:"user"`
	Pass          string          `json:"pass"`
	ClientPattern json.RawMessage `json:"client_pattern"`
	Sessions      []c09SrvSession `json:"sessions"`
	// Soak > 0 (replay files only): instead of one case, draw this many cases from Seed and run them
	// like the stage does (`bin/check C09 --replay` with {"input":{"kind":"third-server","soak":300,"seed":7}}).
	Soak    int  `json:"soak,omitempty"`
	SoakBig bool `json:"soak_big,omitempty"`
}

const c09SrvWait = 30 * time.Second

// ------------------------------------------------------------------------------------------------
// the reference server on simnet

type c09RefSess struct {
	s    *wire.RefSession
	conn *c09RefConn         // TCP
	peer *wire.RefPacketPeer // UDP
	addr net.Addr
}

type c09RefConn struct {
	rc   *wire.RefStreamConn
	conn net.Conn
	raw  []byte          // everything read from the client
	segs []*wire.Segment // everything decoded from it
	sent []byte          // everything written to the client
}

type c09RefServer struct {
	mu        sync.Mutex
	user      string
	keys      [][]byte
	window    uint16
	udp       bool
	conns     []*c09RefConn
	pc        net.PacketConn
	peers     map[string]*wire.RefPacketPeer
	peerOrd   []*wire.RefPacketPeer
	order     []*c09RefSess
	known     map[*wire.RefSession]bool
	badDgrams [][]byte // datagrams the reference codec could not decode
	dgrams    [][]byte // every datagram received
	rAck      *rand.Rand
	limit     int
	ackPads   func() (int, int)
	sendErr   error
}

func (sv *c09RefServer) noteSessions(list []*wire.RefSession, conn *c09RefConn, peer *wire.RefPacketPeer, addr net.Addr) {
	for _, s := range list {
		if !sv.known[s] {
			sv.known[s] = true
			s.Index = len(sv.order)
			sv.order = append(sv.order, &c09RefSess{s: s, conn: conn, peer: peer, addr: addr})
		}
	}
}

func (sv *c09RefServer) serveStream(ln net.Listener) {
	for {
		conn, err := ln.Accept()
		if err != nil {
			return
		}
		rc := &c09RefConn{rc: wire.NewRefStreamConn(sv.user, sv.keys), conn: conn}
		sv.mu.Lock()
		sv.conns = append(sv.conns, rc)
		sv.mu.Unlock()
		go func() {
			buf := make([]byte, 65536)
			for {
				n, err := conn.Read(buf)
				if n > 0 {
					sv.mu.Lock()
					rc.raw = append(rc.raw, buf[:n]...)
					rc.segs = append(rc.segs, rc.rc.Feed(buf[:n], sv.window)...)
					sv.noteSessions(rc.rc.Order, rc, nil, nil)
					sv.mu.Unlock()
				}
				if err != nil {
					return
				}
			}
		}()
	}
}

func (sv *c09RefServer) servePackets() {
	buf := make([]byte, 65536)
	for {
		n, addr, err := sv.pc.ReadFrom(buf)
		if err != nil {
			return
		}
		d := append([]byte(nil), buf[:n]...)
		sv.mu.Lock()
		sv.dgrams = append(sv.dgrams, d)
		p := sv.peers[addr.String()]
		if p == nil {
			p = wire.NewRefPacketPeer(sv.user, sv.keys)
			sv.peers[addr.String()] = p
			sv.peerOrd = append(sv.peerOrd, p)
		}
		seg, s, err := p.Receive(d, sv.window)
		if err != nil {
			sv.badDgrams = append(sv.badDgrams, d)
		} else if s != nil {
			sv.noteSessions(p.Order, nil, p, addr)
			// acknowledge what arrived (also what arrived again); before the open response has been
			// sent the response itself is the answer
			if s.OpenRespSent && (seg.Proto == wire.OpenSessionRequest || seg.Proto == wire.DataClientToServer || seg.Proto == wire.DataClientToServerLE) {
				p1, p2 := sv.ackPads()
				sv.sendLocked(sv.sessOf(s), s.Ack(time.Now()), nil, c09Pad(sv.rAck, p1), c09Pad(sv.rAck, p2), 0, sv.rAck)
			}
		}
		sv.mu.Unlock()
	}
}

func (sv *c09RefServer) sessOf(s *wire.RefSession) *c09RefSess {
	for _, rs := range sv.order {
		if rs.s == s {
			return rs
		}
	}
	return nil
}

// c09Pad draws n printable-or-not padding bytes.
func c09Pad(r *rand.Rand, n int) []byte {
	if n == 0 {
		return nil
	}
	b := make([]byte, n)
	r.Read(b)
	return b
}

// sendLocked seals and transmits one segment of a session; sv.mu is held.
func (sv *c09RefServer) sendLocked(rs *c09RefSess, m wire.Meta, payload, pad1, pad2 []byte, lePad int, r *rand.Rand) *wire.Emitted {
	rnd := make([]byte, 24)
	r.Read(rnd)
	if rs.conn != nil {
		e, err := rs.conn.rc.Seal(m, payload, pad1, pad2, lePad, rnd)
		if err != nil {
			sv.sendErr = err
			return nil
		}
		e.SessionIndex = rs.s.Index
		rs.conn.sent = append(rs.conn.sent, e.Bytes...)
		if _, err := rs.conn.conn.Write(e.Bytes); err != nil && sv.sendErr == nil {
			sv.sendErr = err
		}
		return e
	}
	e, err := rs.peer.Seal(m, payload, pad1, pad2, lePad, rnd)
	if err != nil {
		sv.sendErr = err
		return nil
	}
	e.SessionIndex = rs.s.Index
	if _, err := sv.pc.WriteTo(e.Bytes, rs.addr); err != nil && sv.sendErr == nil {
		sv.sendErr = err
	}
	return e
}

// waitFor polls a condition under the lock.
func (sv *c09RefServer) waitFor(max time.Duration, cond func() bool) bool {
	deadline := time.Now().Add(max)
	for {
		sv.mu.Lock()
		ok := cond()
		sv.mu.Unlock()
		if ok {
			return true
		}
		if time.Now().After(deadline) {
			return false
		}
		time.Sleep(500 * time.Microsecond)
	}
}

// ------------------------------------------------------------------------------------------------
// one case

type c09CliRes struct {
	dialErr error
	got     [][]byte // per round
	errs    []error  // per round: error of the read that fell short
	wErr    error
	eofN    int
	eofErr  error
	eofDone bool
	written int
}

func c09SrvSegKind(m wire.Meta) string {
	switch m.Proto {
	case wire.OpenSessionResponse:
		return "open-resp"
	case wire.CloseSessionRequest:
		return "close-req"
	case wire.CloseSessionResponse:
		return "close-resp"
	case wire.DataServerToClient:
		return "data"
	case wire.AckServerToClient:
		return "ack"
	case wire.DataServerToClientLE:
		return "data-le"
	}
	return "?"
}

func c09PadBucket(n int) string {
	switch {
	case n == 0:
		return "0"
	case n == 1:
		return "1"
	case n < 16:
		return "2-15"
	case n < 255:
		return "16-254"
	default:
		return "255"
	}
}

func c09RotClass(r int) string {
	switch {
	case r == 0:
		return "none"
	case r <= 15:
		return "right"
	default:
		return "left"
	}
}

func c09ThirdPartyServer(c *core.Ctx, k c09SrvCase) {
	tr := "tcp"
	if k.UDP {
		tr = "udp"
	}
	key := func(s string) string { return "C09/third-server/" + tr + "/" + s }
	if k.MTU == 0 {
		k.MTU = 1400
	}
	if k.Window == 0 {
		k.Window = 256
	}
	if k.User == "" {
		k.User, k.Pass = "alice", "alice-secret"
	}
	r := rand.New(rand.NewSource(k.Seed))
	n := simnet.New(k.Seed)
	n.MaxChunk = k.MaxChunk

	// --- all the reference server is given: user name, password, clock -------------------------
	now := time.Now()
	goKeys := wire.KeysAt(wire.HashedPassword(k.User, k.Pass), now)
	kr := c.Model.Ask("spec-keys %s %s %d", core.Hex([]byte(k.User)), core.Hex([]byte(k.Pass)), now.Unix())
	kf := strings.Fields(kr)
	c.Compared()
	if len(kf) != 4 || kf[0] != "ok" {
		c.Disagree("C09/third-server/driver", "spec-keys: "+kr, k)
		return
	}
	for i := 0; i < 3; i++ {
		if kf[1+i] != core.Hex(goKeys[i]) {
			c.Disagree("C09/third-server/reference-codecs-differ/keys", fmt.Sprintf("candidate key %d at %d: lean %s go %s", i, now.Unix(), kf[1+i], core.Hex(goKeys[i])), k)
			return
		}
	}
	leanKeys := strings.Join(kf[1:], " ")

	limit := k.MTU - 28
	sv := &c09RefServer{user: k.User, keys: goKeys, window: uint16(k.Window), udp: k.UDP, peers: map[string]*wire.RefPacketPeer{},
		known: map[*wire.RefSession]bool{}, rAck: rand.New(rand.NewSource(k.Seed ^ 0x5eed5eed)), limit: limit}
	sv.ackPads = func() (int, int) {
		v := []int{0, 0, 0, 1, 17, 255}
		return v[sv.rAck.Intn(len(v))], v[sv.rAck.Intn(len(v))]
	}
	ctx, cancel := context.WithCancel(context.Background())
	defer cancel()
	srvAddrS := "10.8.0.1:8964"
	var srvAddr net.Addr
	tp := common.StreamTransport
	if k.UDP {
		pc, err := simnet.PacketListener{N: n}.ListenPacket(ctx, "udp", srvAddrS)
		if err != nil {
			c.Disagree("C09/third-server/setup", err.Error(), k)
			return
		}
		sv.pc = pc
		defer pc.Close()
		go sv.servePackets()
		srvAddr = &net.UDPAddr{IP: net.IPv4(10, 8, 0, 1), Port: 8964}
		tp = common.PacketTransport
	} else {
		ln, err := n.Listen(ctx, "tcp", srvAddrS)
		if err != nil {
			c.Disagree("C09/third-server/setup", err.Error(), k)
			return
		}
		defer ln.Close()
		go sv.serveStream(ln)
		srvAddr = &net.TCPAddr{IP: net.IPv4(10, 8, 0, 1), Port: 8964}
	}

	// --- the real client -------------------------------------------------------------------------
	cl := protocol.NewMux(true)
	cl.SetDialer(n)
	cl.SetPacketDialer(n)
	cl.SetResolver(apicommon.NilDNSResolver{})
	ctp, err := trafficpattern.NewConfig(patFromJSON(k.ClientPattern))
	if err != nil {
		c.Disagree("C09/third-server/setup", "client traffic pattern: "+err.Error(), k)
		return
	}
	cl.SetTrafficPattern(ctp)
	cl.SetClientUserNamePassword(k.User, cipher.HashPassword([]byte(k.Pass), []byte(k.User)))
	cl.SetClientMultiplexFactor(k.Multiplex)
	cl.SetEndpoints([]protocol.UnderlayProperties{protocol.NewUnderlayProperties(k.MTU, tp, nil, srvAddr)})
	defer bgClose.Go(func() {
		done := make(chan struct{})
		go func() { cl.Close(); close(done) }()
		select {
		case <-done:
		case <-time.After(20 * time.Second):
		}
	})

	c.Hist("third_server_transport", tr)
	c.Hist("third_server_sessions_per_case", fmt.Sprint(len(k.Sessions)))
	if !k.UDP {
		c.Hist("third_server_tcp_read_chunk", fmt.Sprint(k.MaxChunk))
	} else {
		c.Hist("third_server_udp_mtu", fmt.Sprint(k.MTU))
	}

	type sentSeg struct {
		plan c09SrvSeg
		kind string
		off  int // offset of its payload in the server's stream of the session
	}
	failed := false
	defer func() {
		if failed {
			atomic.AddInt32(&c09SrvFailedCases, 1)
		}
	}()
	fail := func(kk, what string) {
		failed = true
		c.Violate(key(kk), what, k)
	}

	for si, sc := range k.Sessions {
		// deterministic application streams
		upLen, downLen := 0, 0
		for _, rd := range sc.Rounds {
			for _, w := range rd.ClientWrites {
				upLen += w
			}
			for _, sg := range rd.Segs {
				downLen += sg.N
			}
		}
		up := make([]byte, upLen)
		down := make([]byte, downLen)
		sim.FillStream(up, k.Seed, si, 0, 0)
		sim.FillStream(down, k.Seed, si, 1, 0)

		// the real client's application
		resCh := make(chan *c09CliRes, 1)
		readDone := make(chan struct{})
		var readOnce sync.Once
		go func() {
			res := &c09CliRes{}
			defer func() { readOnce.Do(func() { close(readDone) }); resCh <- res }()
			dctx, dcancel := context.WithTimeout(ctx, c09SrvWait)
			conn, err := cl.DialContext(dctx)
			dcancel()
			if err != nil {
				res.dialErr = err
				return
			}
			defer conn.Close()
			off := 0
			for _, rd := range sc.Rounds {
				for _, w := range rd.ClientWrites {
					conn.SetWriteDeadline(time.Now().Add(c09SrvWait))
					if _, err := conn.Write(up[off : off+w]); err != nil {
						res.wErr = err
						return
					}
					off += w
					res.written = off
				}
				need := 0
				for _, sg := range rd.Segs {
					need += sg.N
				}
				got := make([]byte, 0, need)
				var rerr error
				mr := rd.MaxRead
				if mr <= 0 {
					mr = 65536
				}
				buf := make([]byte, mr)
				for len(got) < need {
					want := need - len(got)
					if want > mr {
						want = mr
					}
					conn.SetReadDeadline(time.Now().Add(c09SrvWait))
					nn, err := conn.Read(buf[:want])
					got = append(got, buf[:nn]...)
					if err != nil {
						rerr = err
						break
					}
				}
				res.got = append(res.got, got)
				res.errs = append(res.errs, rerr)
				if rerr != nil {
					return
				}
			}
			readOnce.Do(func() { close(readDone) })
			if sc.ServerCloses {
				one := make([]byte, 1)
				conn.SetReadDeadline(time.Now().Add(c09SrvWait))
				res.eofN, res.eofErr = conn.Read(one)
				res.eofDone = true
			}
		}()

		// the reference server's side of the session
		var rs *c09RefSess
		if !sv.waitFor(c09SrvWait, func() bool {
			if len(sv.order) > si {
				rs = sv.order[si]
			}
			return rs != nil && rs.s.OpenReq
		}) {
			sv.mu.Lock()
			nb, ns := len(sv.badDgrams), 0
			var derr error
			for _, cn := range sv.conns {
				ns += len(cn.segs)
				if cn.rc.Dec.Err != nil {
					derr = cn.rc.Dec.Err
				}
			}
			sv.mu.Unlock()
			if derr != nil || nb > 0 {
				fail("first-segment-undecodable", fmt.Sprintf("session %d: the reference server, given only (user, password, clock), cannot decode the real client's first segment (stream error: %v; undecodable datagrams: %d; segments decoded so far: %d)", si, derr, nb, ns))
			} else {
				fail("no-open-request", fmt.Sprintf("session %d: no open-session request arrived from the real client within %v", si, c09SrvWait))
			}
			<-resCh
			break
		}
		var sent []sentSeg
		type resend struct {
			m          wire.Meta
			pl, p1, p2 []byte
			lePad      int
		}
		var numbered []resend // by sequence number
		want, dOff := 0, 0
		aborted := false
		abortKey, abortWhat, dueDown := "", "", 0 // a failure of the exchange whose cause may be the client's reader
		sendSeg := func(gi int, sg c09SrvSeg) {
			t := time.Now()
			pl := down[dOff : dOff+sg.N]
			p1, p2 := c09Pad(r, sg.P1), c09Pad(r, sg.P2)
			var m wire.Meta
			switch sg.T {
			case "open":
				m = rs.s.OpenResp(t)
				p1 = nil
			case "ack":
				m = rs.s.Ack(t)
			default:
				var mask uint32
				if sg.LEMode != 0 {
					mask = wire.LEHalfMask(r, uint8(sg.LEMode))
				}
				m = rs.s.Data(t, uint8(sg.Frag), uint8(sg.LEMode), mask, uint8(sg.LERot))
			}
			e := sv.sendLocked(rs, m, pl, p1, p2, sg.LEPad, r)
			if e != nil {
				e.SegInPlan = gi
			}
			sent = append(sent, sentSeg{sg, c09SrvSegKind(m), dOff})
			if sg.T != "ack" {
				numbered = append(numbered, resend{m, pl, p1, p2, sg.LEPad})
			}
			dOff += sg.N
			if k.UDP && sg.T == "open" {
				// report the open request as received (the response has no such field)
				a1, a2 := sv.ackPads()
				sv.sendLocked(rs, rs.s.Ack(time.Now()), nil, c09Pad(sv.rAck, a1), c09Pad(sv.rAck, a2), 0, sv.rAck)
			}
			kind := c09SrvSegKind(m)
			c.Hist("third_server_segment", tr+"/"+kind)
			c.Hist("third_server_payload_size/"+kind, core.SizeBucket(sg.N))
			if kind != "open-resp" {
				c.Hist("third_server_padding1", c09PadBucket(sg.P1))
			}
			c.Hist("third_server_padding2", c09PadBucket(sg.P2))
			if sg.LEMode != 0 {
				c.Hist("third_server_low_entropy", fmt.Sprintf("mode=%d/rot=%s/pad=%d", sg.LEMode, c09RotClass(sg.LERot), sg.LEPad))
			} else if kind == "data" {
				c.Hist("third_server_low_entropy", "mode=0")
			}
			if k.UDP && e != nil {
				if len(e.Bytes) == limit {
					c.Hist("third_server_udp_datagram", "at-limit")
				} else {
					c.Hist("third_server_udp_datagram", "below-limit")
				}
			}
		}
		for ri, rd := range sc.Rounds {
			// the open-session response answers the open-session request at once (on UDP the real client
			// holds its data back until it has it); it may already carry the first bytes of the reply
			start := 0
			if ri == 0 && len(rd.Segs) > 0 && rd.Segs[0].T == "open" {
				sv.mu.Lock()
				sendSeg(0, rd.Segs[0])
				sv.mu.Unlock()
				start = 1
			}
			for _, w := range rd.ClientWrites {
				want += w
			}
			if !sv.waitFor(c09SrvWait, func() bool { return len(rs.s.Up) >= want }) {
				sv.mu.Lock()
				have := len(rs.s.Up)
				var derr error
				if rs.conn != nil {
					derr = rs.conn.rc.Dec.Err
				}
				nb := len(sv.badDgrams)
				sv.mu.Unlock()
				if derr != nil || nb > 0 {
					fail("client-traffic-undecodable", fmt.Sprintf("session %d round %d: the reference codec cannot decode what the real client sent (stream error: %v; undecodable datagrams: %d) after %d of %d application bytes", si, ri, derr, nb, have, want))
				} else {
					// a client whose application is still waiting for bytes of the previous round never
					// gets to write these: decided below, when its application has reported
					abortKey, abortWhat = "client-bytes-missing", fmt.Sprintf("session %d round %d: the reference server decoded %d of the %d bytes the real client's application wrote", si, ri, have, want)
					if ri > 0 {
						dueDown = dOff
					} else if k.UDP && len(rd.Segs) > 0 {
						// on UDP the real client holds its data back until it has the open-session response
						sv.mu.Lock()
						ua, dups := rs.s.PeerUnAck, rs.s.Dups
						sv.mu.Unlock()
						if ua == 0 {
							op := rd.Segs[0]
							abortKey, abortWhat = "open-response-not-accepted", fmt.Sprintf("session %d: the real client never acknowledged the reference server's open-session response [payload %d bytes, suffix padding %d] and sent no data (it repeated its open-session request %d times); the reference client decodes that response", si, op.N, op.P2, dups)
						}
					}
				}
				aborted = true
				break
			}
			sv.mu.Lock()
			for gi := start; gi < len(rd.Segs); gi++ {
				sendSeg(gi, rd.Segs[gi])
			}
			serr := sv.sendErr
			sv.mu.Unlock()
			if serr != nil {
				fail("client-hung-up", fmt.Sprintf("session %d round %d: sending to the real client failed: %v", si, ri, serr))
				aborted = true
				break
			}
			if k.UDP {
				// a lawful sender keeps its segments until they are acknowledged and repeats one that stays
				// unacknowledged (freshly sealed: new nonce, current unack number and minute). The network
				// loses nothing, so a repeat is only ever needed when the client swallowed its own ack.
				// A client that has closed the session has nothing left to acknowledge; whether it got
				// the bytes is what its application's read shows.
				acked := false
				deadline := time.Now().Add(c09SrvWait)
				lastProgress, lastUA := time.Now(), uint32(0)
				for {
					sv.mu.Lock()
					ua, ns, closed := rs.s.PeerUnAck, rs.s.NextSend, rs.s.CloseReq
					if ua >= ns || closed {
						acked = true
					} else {
						if ua != lastUA {
							lastUA, lastProgress = ua, time.Now()
						}
						if time.Since(lastProgress) > 300*time.Millisecond && int(ua) < len(numbered) {
							rp := numbered[ua]
							m := rp.m
							m.Timestamp, m.UnAck = uint32(time.Now().Unix()/60), rs.s.NextRecv
							sv.sendLocked(rs, m, rp.pl, rp.p1, rp.p2, rp.lePad, sv.rAck)
							lastProgress = time.Now()
							c.Hist("third_server_udp_repeat", "segment-repeated-after-300ms-without-ack")
						}
					}
					sv.mu.Unlock()
					if acked || time.Now().After(deadline) {
						break
					}
					time.Sleep(500 * time.Microsecond)
				}
				if !acked {
					sv.mu.Lock()
					ua, ns := rs.s.PeerUnAck, rs.s.NextSend
					sv.mu.Unlock()
					idx := int(ua)
					what := "?"
					dataIdx := -1
					for _, ss := range sent {
						if ss.kind != "ack" {
							dataIdx++
						}
						if dataIdx == idx && ss.kind != "ack" {
							what = fmt.Sprintf("%s n=%d pad1=%d pad2=%d le_mode=%d le_rot=%d", ss.kind, ss.plan.N, ss.plan.P1, ss.plan.P2, ss.plan.LEMode, ss.plan.LERot)
							break
						}
					}
					dueDown = dOff
					abortKey, abortWhat = "udp-not-acknowledged/at="+strings.Fields(what)[0], fmt.Sprintf("session %d round %d: on a loss-free network the real client acknowledged %d of the %d numbered segments the reference server sent (each unacknowledged one repeated every 300 ms); the first one it never accepted: #%d %s", si, ri, ua, ns, ua, what)
					aborted = true
					break
				}
			}
		}
		// close
		if !aborted {
			// the close request goes out once the client's application has read everything: what a
			// reader sees when data and close arrive together is not a matter of the wire format
			select {
			case <-readDone:
			case <-time.After(c09SrvWait):
			}
			if sc.ServerCloses {
				sv.mu.Lock()
				sv.sendLocked(rs, rs.s.CloseRequest(time.Now(), 0), nil, nil, c09Pad(r, sc.ClosePad), 0, r)
				c.Hist("third_server_segment", tr+"/close-req")
				c.Hist("third_server_padding2", c09PadBucket(sc.ClosePad))
				sv.mu.Unlock()
			}
		}
		res := <-resCh
		c.Hist("third_server_close", map[bool]string{true: "server-first", false: "client-first"}[sc.ServerCloses])

		// --- oracle: what the real client's application saw -------------------------------------
		if res.dialErr != nil {
			fail("dial", fmt.Sprintf("session %d: DialContext: %v", si, res.dialErr))
			break
		}
		if res.wErr != nil {
			fail("client-write-failed", fmt.Sprintf("session %d: the real client's Write failed after %d bytes: %v", si, res.written, res.wErr))
		}
		gotAll := []byte{}
		var rerr error
		for i, g := range res.got {
			gotAll = append(gotAll, g...)
			if res.errs[i] != nil {
				rerr = res.errs[i]
			}
		}
		appFailed := false
		if (!aborted && (rerr != nil || !bytes.Equal(gotAll, down[:len(gotAll)]) || (res.wErr == nil && len(gotAll) != len(down)))) ||
			(aborted && (!bytes.Equal(gotAll, down[:len(gotAll)]) || len(gotAll) < dueDown)) {
			appFailed = true
			// where does it go wrong?
			d := 0
			for d < len(gotAll) && d < len(down) && gotAll[d] == down[d] {
				d++
			}
			at := "?"
			desc := ""
			for i, ss := range sent {
				if ss.plan.N > 0 && d >= ss.off && d < ss.off+ss.plan.N {
					at = ss.kind
					desc = fmt.Sprintf("%s n=%d pad1=%d pad2=%d le_mode=%d le_rot=%d le_pad=%d", ss.kind, ss.plan.N, ss.plan.P1, ss.plan.P2, ss.plan.LEMode, ss.plan.LERot, ss.plan.LEPad)
					// nothing of this segment arrived: a payload-less segment sent just before it may be
					// what the client stumbled over
					if d == ss.off {
						for j := i - 1; j >= 0 && sent[j].plan.N == 0; j-- {
							at = ss.kind + "-after-" + sent[j].kind
							desc += fmt.Sprintf(", sent right after [%s pad1=%d pad2=%d]", sent[j].kind, sent[j].plan.P1, sent[j].plan.P2)
						}
					}
					break
				}
			}
			if rerr != nil {
				fail("client-rejected-lawful-segment/at="+at, fmt.Sprintf("session %d: the real client's application read %d of the %d bytes the reference server wrote, then Read failed with %q; what it read departs from what was written at offset %d, inside segment [%s] (a lawful segment: the reference client decodes it)", si, len(gotAll), len(down), rerr.Error(), d, desc))
			} else {
				fail("client-reads-differ/at="+at, fmt.Sprintf("session %d: the real client's application read bytes that differ from what the reference server wrote at offset %d of %d (inside segment [%s])", si, d, len(down), desc))
			}
		}
		if !aborted && sc.ServerCloses && res.eofDone && !(res.eofN == 0 && res.eofErr == io.EOF) {
			fail("no-eof-after-close-request", fmt.Sprintf("session %d: after the reference server's close-session request the real client's Read returned (%d, %v), want (0, EOF)", si, res.eofN, res.eofErr))
		}
		if abortKey != "" && !appFailed {
			fail(abortKey, abortWhat)
		}
		if aborted || appFailed {
			break
		}
		// --- the client's close, seen by the reference server --------------------------------------
		if sc.ServerCloses {
			if !sv.waitFor(c09SrvWait, func() bool { return rs.s.CloseResp }) {
				fail("close-request-not-answered", fmt.Sprintf("session %d: the real client sent no close-session response to the reference server's close-session request (suffix padding %d)", si, sc.ClosePad))
			}
		} else {
			if !sv.waitFor(c09SrvWait, func() bool { return rs.s.CloseReq }) {
				fail("no-close-request", fmt.Sprintf("session %d: the real client's Close put no close-session request on the wire", si))
			} else {
				sv.mu.Lock()
				sv.sendLocked(rs, rs.s.CloseResponse(time.Now()), nil, nil, c09Pad(r, sc.ClosePad), 0, r)
				c.Hist("third_server_segment", tr+"/close-resp")
				c.Hist("third_server_padding2", c09PadBucket(sc.ClosePad))
				sv.mu.Unlock()
			}
		}
		// --- oracle: what the reference server decoded ---------------------------------------------
		sv.mu.Lock()
		gotUp := append([]byte(nil), rs.s.Up...)
		problems := append([]string(nil), rs.s.Problems...)
		for _, sg := range rs.s.Segs {
			c.Hist("third_server_client_segment_type", fmt.Sprintf("%s/%d", tr, sg.Proto))
			if sg.Proto == wire.OpenSessionRequest {
				c.Hist("third_server_client_open_payload", core.SizeBucket(len(sg.Payload)))
			}
		}
		if rs.s.Dups > 0 {
			c.Hist("third_server_client_retransmissions", "some")
		}
		sv.mu.Unlock()
		if !bytes.Equal(gotUp, up) {
			d := 0
			for d < len(gotUp) && d < len(up) && gotUp[d] == up[d] {
				d++
			}
			fail("server-reads-differ", fmt.Sprintf("session %d: the reference server decoded %d bytes, the real client's application wrote %d; first difference at offset %d", si, len(gotUp), len(up), d))
		}
		if len(problems) > 0 {
			fail("client-unlawful-segment", fmt.Sprintf("session %d: %s", si, strings.Join(problems, "; ")))
		}
		c.Res.TracesValidated++
		if failed {
			break
		}
	}

	// --- every segment the real client emitted decodes --------------------------------------------
	time.Sleep(5 * time.Millisecond)
	sv.mu.Lock()
	defer sv.mu.Unlock()
	for ci, cn := range sv.conns {
		if cn.rc.Dec.Err != nil {
			c.Violate(key("client-stream-undecodable"), fmt.Sprintf("connection %d: after %d segments (%d bytes) the reference codec written from docs/protocol.md cannot decode what the real client sent: %v", ci, len(cn.segs), cn.rc.Dec.Offset, cn.rc.Dec.Err), k)
			failed = true
		}
		for _, sg := range cn.rc.Strays {
			c.Hist("third_server_client_stray_segment", fmt.Sprint(sg.Proto))
		}
	}
	if len(sv.badDgrams) > 0 {
		c.Violate(key("client-datagram-undecodable"), fmt.Sprintf("%d of %d datagrams the real client sent do not decode under the reference codec written from docs/protocol.md; first: %d bytes", len(sv.badDgrams), len(sv.dgrams), len(sv.badDgrams[0])), k)
		failed = true
	}
	if failed {
		return
	}

	// --- correspondence: the Lean codec on the same traffic ---------------------------------------
	c09SrvLean(c, k, sv, leanKeys)
}

// c09SrvLean re-does the reference server's codec work with the Lean reference codec: decoding of
// everything the client sent (candidate keys only), choice of the reply key, construction and
// encoding of every segment the server sent.
func c09SrvLean(c *core.Ctx, k c09SrvCase, sv *c09RefServer, leanKeys string) {
	ask := func(f string, a ...interface{}) string { return c.Model.Ask(f, a...) }
	budget := 160 << 10 // bytes of traffic handed to the Lean codec per case
	if c.Thorough() {
		budget = 400 << 10
	}
	seg := func(e *wire.Emitted) (string, bool) {
		m := e.Meta
		rep := ask("srv-seg %s %d %d %d %d %d %d %d %d %d %d %s %s %s", c09SrvSegKind(m), m.Timestamp, m.SessionID, m.Seq, m.UnAck, m.Window, m.Fragment, m.Status,
			m.Byte1, m.LEMask, m.LERot, core.Hex(e.Payload), core.Hex(e.Pad1), core.Hex(e.Pad2))
		c.Compared()
		if rep != "ok "+metaSpec(&wire.Segment{Meta: m}) {
			c.Disagree("C09/third-server/reference-codecs-differ/segment-construction", fmt.Sprintf("%s: lean %q go %q", c09SrvSegKind(m), rep, metaSpec(&wire.Segment{Meta: m})), k)
			return "", false
		}
		return strings.TrimPrefix(rep, "ok "), true
	}
	if !k.UDP {
		for ci, cn := range sv.conns {
			if len(cn.raw) == 0 {
				continue
			}
			h := ask("srv-tcp-new %s", leanKeys)
			if !strings.HasPrefix(h, "ok ") {
				c.Disagree("C09/third-server/driver", h, k)
				return
			}
			rx := strings.TrimPrefix(h, "ok ")
			data := cn.raw[:cn.rc.Dec.Offset]
			var got []string
			dead := ""
			for off := 0; off < len(data) && dead == ""; off += 16384 {
				end := off + 16384
				if end > len(data) {
					end = len(data)
				}
				f := strings.Fields(ask("srv-tcp-feed %s %s", rx, core.Hex(data[off:end])))
				if len(f) < 2 || f[0] != "ok" {
					dead = strings.Join(f, " ")
					break
				}
				for _, t := range f[2:] {
					if strings.HasPrefix(t, "dead=") {
						dead = t
					} else {
						got = append(got, t)
					}
				}
			}
			c.Compared()
			if dead != "" {
				c.Violate("C09/third-server/tcp/client-stream-undecodable-lean", fmt.Sprintf("connection %d: the Lean reference codec cannot decode what the real client sent, after %d segments: %s", ci, len(got), dead), k)
				return
			}
			if len(got) != len(cn.segs) {
				c.Disagree("C09/third-server/reference-codecs-differ/tcp-decoding", fmt.Sprintf("connection %d: lean decoded %d segments, go %d", ci, len(got), len(cn.segs)), k)
				return
			}
			for i, s := range cn.segs {
				if got[i] != segSpec(s) {
					c.Disagree("C09/third-server/reference-codecs-differ/tcp-decoding", fmt.Sprintf("connection %d segment %d: lean %.200s go %.200s", ci, i, got[i], segSpec(s)), k)
					return
				}
			}
			if len(cn.rc.Emitted) == 0 {
				ask("srv-tcp-free %s", rx)
				continue
			}
			rep := strings.Fields(ask("srv-tcp-reply %s %s", rx, core.Hex(cn.rc.Nonce0)))
			c.Compared()
			if len(rep) != 3 || rep[0] != "ok" || rep[2] != fmt.Sprint(cn.rc.Dec.SelectedKeyIndex()) {
				c.Disagree("C09/third-server/reference-codecs-differ/reply-key", fmt.Sprintf("connection %d: lean %v, go key index %d", ci, rep, cn.rc.Dec.SelectedKeyIndex()), k)
				return
			}
			c.Hist("third_server_reply_key_slot", []string{"previous", "current", "next"}[cn.rc.Dec.SelectedKeyIndex()%3])
			tx := rep[1]
			used := 0
			for i, e := range cn.rc.Emitted {
				ms, ok := seg(e)
				if !ok {
					return
				}
				if used+len(e.Bytes) > budget {
					c.Hist("third_server_lean_reencoding", "skipped-over-budget")
					break // the sender state is sequential: stop at the first segment over budget
				}
				used += len(e.Bytes)
				b := ask("srv-tcp-seal %s %s %s %s %s %d", tx, ms, core.Hex(e.Payload), core.Hex(e.Pad1), core.Hex(e.Pad2), e.LEPad)
				c.Compared()
				if b != "ok "+core.Hex(e.Bytes) {
					c.Disagree("C09/third-server/reference-codecs-differ/tcp-encoding", fmt.Sprintf("connection %d segment %d (%s): the Lean and Go reference encoders produce different bytes (lean %.80s…)", ci, i, ms, b), k)
					return
				}
				c.Hist("third_server_lean_reencoding", "equal")
			}
			ask("srv-tcp-free %s", rx)
			// the server's direction as a reference client with the one key sees it
			if len(cn.sent) <= budget {
				h := ask("srv-tcp-new %s", core.Hex(cn.rc.Dec.SelectedKey()))
				crx := strings.TrimPrefix(h, "ok ")
				var back []string
				for off := 0; off < len(cn.sent); off += 16384 {
					end := off + 16384
					if end > len(cn.sent) {
						end = len(cn.sent)
					}
					f := strings.Fields(ask("srv-tcp-feed %s %s", crx, core.Hex(cn.sent[off:end])))
					if len(f) < 2 || f[0] != "ok" {
						back = append(back, strings.Join(f, " "))
						break
					}
					back = append(back, f[2:]...)
				}
				ask("srv-tcp-free %s", crx)
				c.Compared()
				okAll := len(back) == len(cn.rc.Emitted)
				for i := 0; okAll && i < len(back); i++ {
					e := cn.rc.Emitted[i]
					okAll = back[i] == segSpec(&wire.Segment{Meta: e.Meta, Payload: e.Payload})
				}
				if !okAll {
					c.Disagree("C09/third-server/reference-client-cannot-read-reference-server", fmt.Sprintf("connection %d: %d segments sent, the Lean reference client (one key) decoded %d: %.300s", ci, len(cn.rc.Emitted), len(back), strings.Join(back, " ")), k)
					return
				}
			}
		}
		return
	}
	used := 0
	for i, d := range sv.dgrams {
		if used+len(d) > budget {
			break
		}
		used += len(d)
		g, err := wire.OpenUDP(d, sv.keys)
		if err != nil {
			continue // reported above
		}
		f := strings.Fields(ask("srv-udp-open %s %s", core.Hex(d), leanKeys))
		c.Compared()
		if len(f) != 3 || f[0] != "ok" {
			c.Violate("C09/third-server/udp/client-datagram-undecodable-lean", fmt.Sprintf("datagram %d (%d bytes, type %d): the Lean reference codec cannot decode what the real client sent: %v", i, len(d), g.Proto, f), k)
			return
		}
		if f[1] != fmt.Sprint(g.KeyIndex) || f[2] != segSpec(g) {
			c.Disagree("C09/third-server/reference-codecs-differ/udp-decoding", fmt.Sprintf("datagram %d: lean key %s %.200s, go key %d %.200s", i, f[1], f[2], g.KeyIndex, segSpec(g)), k)
			return
		}
	}
	used = 0
	for _, p := range sv.peerOrd {
		if p.KeyIndex >= 0 {
			c.Hist("third_server_reply_key_slot", []string{"previous", "current", "next"}[p.KeyIndex%3])
		}
		for i, e := range p.Emitted {
			ms, ok := seg(e)
			if !ok {
				return
			}
			if used+len(e.Bytes) > budget {
				continue
			}
			used += len(e.Bytes)
			b := ask("spec-udp-seal %s %s %s %s %s %s %d", core.Hex(e.Key), core.Hex(e.Nonce), ms, core.Hex(e.Payload), core.Hex(e.Pad1), core.Hex(e.Pad2), e.LEPad)
			c.Compared()
			if b != "ok "+core.Hex(e.Bytes) {
				c.Disagree("C09/third-server/reference-codecs-differ/udp-encoding", fmt.Sprintf("datagram %d (%s): the Lean and Go reference encoders produce different bytes (lean %.80s…)", i, ms, b), k)
				return
			}
			c.Hist("third_server_lean_reencoding", "equal")
		}
	}
}

// ------------------------------------------------------------------------------------------------
// generation

var c09SrvPads = []int{0, 0, 0, 1, 2, 17, 100, 254, 255, 255}

func c09SrvGenPad(r *rand.Rand) int {
	if r.Intn(4) == 0 {
		return r.Intn(256)
	}
	return c09SrvPads[r.Intn(len(c09SrvPads))]
}

var c09SrvRots = []int{0, 0, 1, 7, 15, 16, 112, 240}

// genC09Srv draws one case. boundary > 0 selects one of the fixed boundary programs.
func genC09Srv(r *rand.Rand, udp bool, boundary int, thorough bool) c09SrvCase {
	k := c09SrvCase{Kind: "third-server", Seed: r.Int63(), UDP: udp, Window: []int{16, 256, 1024, 4096}[r.Intn(4)]}
	k.User, k.Pass = "alice", "alice-secret"
	if r.Intn(2) == 0 {
		ub, pb := make([]byte, 1+r.Intn(12)), make([]byte, 1+r.Intn(20))
		for i := range ub {
			ub[i] = byte('a' + r.Intn(26))
		}
		for i := range pb {
			pb[i] = byte(33 + r.Intn(90))
		}
		k.User, k.Pass = string(ub), string(pb)
	}
	k.ClientPattern = patJSON(sim.RandomPattern(r, !udp))
	k.Multiplex = r.Intn(4)
	if udp {
		k.MTU = []int{1280, 1400, 1500}[r.Intn(3)]
	} else {
		k.MTU = 1400
		k.MaxChunk = []int{0, 0, 1, 7, 48, 97, 1400, 4096}[r.Intn(8)]
	}
	limit := k.MTU - 28
	budget := 48 << 10 // application bytes per direction and case
	if thorough {
		budget = 160 << 10
	}
	upBudget, downBudget := budget, budget
	leCase := r.Intn(3) == 0 // a case that prefers low-entropy segments
	leMode := 1 + r.Intn(4)
	lePad := r.Intn(2) // "stable for a given sender host": one polarity per case

	dataSeg := func(maxN int) c09SrvSeg {
		sg := c09SrvSeg{T: "data", P1: c09SrvGenPad(r), P2: c09SrvGenPad(r), Frag: []int{0, 0, 0, 1, 255}[r.Intn(5)]}
		if (leCase && r.Intn(4) != 0) || (!leCase && r.Intn(10) == 0) {
			sg.LEMode = leMode
			if r.Intn(4) == 0 {
				sg.LEMode = 1 + r.Intn(4)
			}
			sg.LERot = c09SrvRots[r.Intn(len(c09SrvRots))]
			if r.Intn(3) == 0 {
				sg.LERot = []int{r.Intn(16), 16 * (1 + r.Intn(15))}[r.Intn(2)]
			}
			sg.LEPad = lePad
		}
		if udp {
			// sizes that fit one datagram, paddings in the room that is left
			maxPl := 0
			for n := 1; wire.UDPRoom(limit, n, uint8(sg.LEMode)) >= 0; n += 1 {
				maxPl = n
				if n > 1500 {
					break
				}
			}
			switch r.Intn(5) {
			case 0:
				sg.N = maxPl
			case 1:
				sg.N = 1 + r.Intn(8)
			default:
				sg.N = 1 + r.Intn(maxPl)
			}
			if sg.N > maxN {
				sg.N = maxN
			}
			room := wire.UDPRoom(limit, sg.N, uint8(sg.LEMode))
			if sg.P1 > room {
				sg.P1 = room
			}
			if sg.P2 > room-sg.P1 {
				sg.P2 = room - sg.P1
			}
			if r.Intn(4) == 0 { // fill the datagram exactly
				rest := room - sg.P1 - sg.P2
				add := rest
				if add > 255-sg.P2 {
					add = 255 - sg.P2
				}
				sg.P2 += add
				rest -= add
				if rest > 255-sg.P1 {
					rest = 255 - sg.P1
				}
				sg.P1 += rest
			}
			return sg
		}
		top := 32768
		if sg.LEMode == 1 {
			top = 32764
		}
		switch r.Intn(8) {
		case 0:
			sg.N = top
		case 1:
			sg.N = top - r.Intn(8)
		case 2:
			sg.N = 1 + r.Intn(8)
		case 3:
			sg.N = []int{255, 256, 1023, 1024, 1025, 4095, 4096}[r.Intn(7)]
		default:
			sg.N = 1 + r.Intn(6000)
		}
		if sg.N > maxN {
			sg.N = maxN
		}
		return sg
	}
	clientWrites := func(first bool) []int {
		var ws []int
		nw := 1 + r.Intn(3)
		for i := 0; i < nw; i++ {
			var w int
			switch r.Intn(8) {
			case 0:
				w = 0
			case 1:
				w = []int{1, 1023, 1024, 1025}[r.Intn(4)]
			case 2:
				if udp {
					w = 1 + r.Intn(6000)
				} else {
					w = []int{32764, 32768, 32769, 40000}[r.Intn(4)]
				}
			default:
				w = 1 + r.Intn(3000)
			}
			if w > upBudget {
				w = upBudget
			}
			upBudget -= w
			ws = append(ws, w)
		}
		return ws
	}
	ns := 1
	if r.Intn(3) == 0 {
		ns = 2
	}
	for si := 0; si < ns; si++ {
		sc := c09SrvSession{ServerCloses: r.Intn(2) == 0, ClosePad: c09SrvGenPad(r)}
		nr := 1 + r.Intn(3)
		for ri := 0; ri < nr; ri++ {
			rd := c09SrvRound{MaxRead: []int{7, 1500, 65536, 100000}[r.Intn(4)]}
			if ri == 0 || r.Intn(5) != 0 {
				rd.ClientWrites = clientWrites(ri == 0)
			}
			if ri == 0 {
				op := c09SrvSeg{T: "open", N: []int{0, 0, 1, 7, 1023, 1024}[r.Intn(6)], P2: c09SrvGenPad(r)}
				if r.Intn(4) == 0 {
					op.N = r.Intn(1025)
				}
				if op.N > downBudget {
					op.N = downBudget
				}
				if udp {
					room := wire.UDPRoom(limit, op.N, 0)
					if op.P2 > room {
						op.P2 = room
					}
				}
				downBudget -= op.N
				rd.Segs = append(rd.Segs, op)
			}
			nseg := 1 + r.Intn(5)
			for gi := 0; gi < nseg; gi++ {
				if r.Intn(6) == 0 {
					a := c09SrvSeg{T: "ack", P1: c09SrvGenPad(r), P2: c09SrvGenPad(r)}
					rd.Segs = append(rd.Segs, a)
					continue
				}
				if downBudget <= 0 {
					break
				}
				sg := dataSeg(downBudget)
				downBudget -= sg.N
				rd.Segs = append(rd.Segs, sg)
			}
			// every round carries at least one byte back, so the client application's read is the
			// confirmation that its own bytes arrived
			tot := 0
			for _, sg := range rd.Segs {
				tot += sg.N
			}
			if tot == 0 {
				rd.Segs = append(rd.Segs, c09SrvSeg{T: "data", N: 1, P1: c09SrvGenPad(r) % 100, P2: c09SrvGenPad(r) % 100})
			}
			sc.Rounds = append(sc.Rounds, rd)
		}
		k.Sessions = append(k.Sessions, sc)
	}

	// fixed boundary programs: the documented limits met with equality
	switch {
	case boundary == 1 && !udp:
		k.MaxChunk = 0
		k.Sessions = []c09SrvSession{{ServerCloses: true, ClosePad: 255, Rounds: []c09SrvRound{{ClientWrites: []int{1024}, MaxRead: 65536, Segs: []c09SrvSeg{
			{T: "open", N: 1024, P2: 255},
			{T: "ack", P1: 255, P2: 255},
			{T: "data", N: 32768, P1: 255, P2: 255, Frag: 255},
			{T: "data", N: 32764, P1: 255, P2: 255, LEMode: 1, LERot: 240, LEPad: 1},
			{T: "data", N: 1, P1: 0, P2: 0},
		}}}}}
	case boundary == 2 && !udp:
		k.MaxChunk = 1400
		k.Sessions = []c09SrvSession{{ServerCloses: false, ClosePad: 255, Rounds: []c09SrvRound{{ClientWrites: []int{0}, MaxRead: 100000, Segs: []c09SrvSeg{
			{T: "open", N: 0, P2: 0},
			{T: "data", N: 32768, P1: 0, P2: 255, LEMode: 4, LERot: 15, LEPad: 0},
			{T: "data", N: 32768, P1: 255, P2: 0, LEMode: 2, LERot: 16, LEPad: 0},
			{T: "data", N: 32768, P1: 1, P2: 1, LEMode: 3, LERot: 0, LEPad: 0},
		}}}}}
	case boundary == 1 && udp:
		k.MTU = 1500
		lim := 1500 - 28
		full := func(mode int, p1 int) c09SrvSeg {
			sg := c09SrvSeg{T: "data", LEMode: mode, LERot: []int{0, 1, 16, 240, 15}[mode], LEPad: 1, P1: p1}
			for n := 1; wire.UDPRoom(lim, n, uint8(mode)) >= p1; n++ {
				sg.N = n
			}
			rest := wire.UDPRoom(lim, sg.N, uint8(mode)) - p1
			sg.P2 = rest // < 8 for the low-entropy modes, 0 otherwise
			return sg
		}
		k.Sessions = []c09SrvSession{{ServerCloses: true, ClosePad: 255, Rounds: []c09SrvRound{{ClientWrites: []int{1000}, MaxRead: 1500, Segs: []c09SrvSeg{
			{T: "open", N: 1024, P2: 255},
			{T: "ack", P1: 255, P2: 255},
			full(0, 0), full(0, 255), full(1, 0), full(2, 255), full(3, 17), full(4, 1),
		}}}}}
	case boundary == 2 && udp:
		k.MTU = 1280
		lim := 1280 - 28
		k.Sessions = []c09SrvSession{{ServerCloses: false, ClosePad: 0, Rounds: []c09SrvRound{{ClientWrites: []int{0}, MaxRead: 7, Segs: []c09SrvSeg{
			{T: "open", N: 0, P2: 0},
			{T: "data", N: 1, P1: 255, P2: 255},
			{T: "data", N: wire.UDPRoom(lim, 0, 0) - 16 - 510, P1: 255, P2: 255},
			{T: "data", N: 4, P1: 255, P2: 255, LEMode: 1, LERot: 0, LEPad: 1},
		}}}}}
	}
	return k
}

// after a few failing cases the rest of a run only costs time-outs
var c09SrvFailedCases int32

func c09SrvRunCase(c *core.Ctx, k c09SrvCase) {
	if atomic.LoadInt32(&c09SrvFailedCases) >= 4 {
		c.Hist("third_server_skipped_after_failures", "cases")
		return
	}
	c.Eval(fmt.Sprintf("third-server/%v/%d", k.UDP, k.Seed), true)
	c09ThirdPartyServer(c, k)
}

func init() {
	core.RegisterExtra("C09", func(c *core.Ctx) {
		c.Correspondence("third-party server: a reference server built from the reference codec (harness/wire live; Mieru.Spec / Mieru.Spec.Srv through srv-seg, srv-tcp-new/feed/reply/seal, srv-udp-open, spec-udp-seal for decoding, reply-key choice, segment construction and encoding) against a real protocol.Mux client on TCP and UDP")
		// corpus first
		runCorpus(c, func(raw json.RawMessage) {
			var k c09SrvCase
			if json.Unmarshal(raw, &k) == nil && k.Kind == "third-server" {
				c09SrvRunCase(c, k)
			}
		})
		t0 := time.Now()
		m := c.N(14, 160)
		cases := make([]c09SrvCase, m)
		for i := range cases {
			udp := i%2 == 1
			b := 0
			if i < 4 {
				b = 1 + i/2
			}
			cases[i] = genC09Srv(c.Rand, udp, b, c.Thorough())
		}
		c.Sample(cases[len(cases)-1])
		core.Parallel(m, 6, func(i int) { c09SrvRunCase(c, cases[i]) })
		t1 := time.Now()
		bgClose.Wait(30 * time.Second)
		c.Note("C09 third-party server stage: %d cases in %.1f s (+ %.1f s waiting for the client muxes to close)", m, t1.Sub(t0).Seconds(), time.Since(t1).Seconds())
	})
	core.RegisterReplay("C09", func(c *core.Ctx, raw json.RawMessage) bool {
		var k c09SrvCase
		if json.Unmarshal(raw, &k) != nil || k.Kind != "third-server" {
			return false
		}
		if k.Soak > 0 {
			r := rand.New(rand.NewSource(k.Seed))
			cases := make([]c09SrvCase, k.Soak)
			for i := range cases {
				cases[i] = genC09Srv(r, i%2 == 1, 0, k.SoakBig)
			}
			core.Parallel(len(cases), 6, func(i int) { c09SrvRunCase(c, cases[i]) })
		} else {
			c09SrvRunCase(c, k)
		}
		bgClose.Wait(30 * time.Second)
		return true
	})
}
