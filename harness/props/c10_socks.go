package props

import (
	"bytes"
	"encoding/hex"
	"encoding/json"
	"errors"
	"fmt"
	"io"
	"math/rand"
	"net"
	"runtime/debug"
	"strings"
	"time"

	apicommon "github.com/enfein/mieru/v3/apis/common"
	"github.com/enfein/mieru/v3/apis/model"
	"github.com/enfein/mieru/v3/pkg/socks5"
	"verifharness/core"
)

// C10, SOCKS5 part: byte strings against every parser that reads SOCKS5 messages from a peer. Each
// call is wrapped in recover (these run in the calling goroutine); the request / reply / address
// parsers are also compared with the Lean model.

type c10SocksCase struct {
	Target string `json:"target"` // req | resp | req4 | resp4 | addr | udp | wrap | pos | client-reply | transceive
	Hex    string `json:"hex"`
	Cap    int    `json:"cap"` // wrap / pos: size of the caller's buffer
	Cmd    int    `json:"cmd"` // client-reply: command
}

func c10AddrString(a model.AddrSpec) string {
	switch {
	case len(a.IP) == 4:
		return fmt.Sprintf("ip4 %s %d", core.Hex(a.IP), a.Port)
	case len(a.IP) == 16:
		return fmt.Sprintf("ip6 %s %d", core.Hex(a.IP), a.Port)
	default:
		return fmt.Sprintf("domain %s %d", core.Hex([]byte(a.FQDN)), a.Port)
	}
}

func c10SocksErr(err error) string {
	switch {
	case errors.Is(err, io.EOF), errors.Is(err, io.ErrUnexpectedEOF):
		return "err short"
	case errors.Is(err, model.ErrUnrecognizedAddrType):
		return "err unrecognized-addr-type"
	case strings.Contains(err.Error(), "invalid version"):
		return "err bad-version"
	}
	return "err other:" + err.Error()
}

// c10Guard runs f and converts a panic into a string.
func c10Guard(f func() string) (out string, panicked string) {
	defer func() {
		if r := recover(); r != nil {
			panicked = fmt.Sprintf("%v\n%s", r, debug.Stack())
		}
	}()
	return f(), ""
}

type c10OnePacket struct {
	data []byte
	done bool
}

func (p *c10OnePacket) ReadFrom(b []byte) (int, net.Addr, error) {
	if p.done {
		return 0, nil, io.EOF
	}
	p.done = true
	return copy(b, p.data), &net.UDPAddr{IP: net.IPv4(127, 0, 0, 1), Port: 9}, nil
}
func (p *c10OnePacket) WriteTo(b []byte, a net.Addr) (int, error) { return len(b), nil }
func (p *c10OnePacket) Close() error                              { return nil }
func (p *c10OnePacket) LocalAddr() net.Addr                       { return &net.UDPAddr{IP: net.IPv4(127, 0, 0, 1), Port: 8} }
func (p *c10OnePacket) SetDeadline(time.Time) error               { return nil }
func (p *c10OnePacket) SetReadDeadline(time.Time) error           { return nil }
func (p *c10OnePacket) SetWriteDeadline(time.Time) error          { return nil }

type c10ByteConn struct{ r *bytes.Reader }

func (c *c10ByteConn) Read(p []byte) (int, error)         { return c.r.Read(p) }
func (c *c10ByteConn) Write(p []byte) (int, error)        { return len(p), nil }
func (c *c10ByteConn) Close() error                       { return nil }
func (c *c10ByteConn) LocalAddr() net.Addr                { return &net.TCPAddr{IP: net.IPv4(127, 0, 0, 1), Port: 1} }
func (c *c10ByteConn) RemoteAddr() net.Addr               { return &net.TCPAddr{IP: net.IPv4(127, 0, 0, 1), Port: 2} }
func (c *c10ByteConn) SetDeadline(t time.Time) error      { return nil }
func (c *c10ByteConn) SetReadDeadline(t time.Time) error  { return nil }
func (c *c10ByteConn) SetWriteDeadline(t time.Time) error { return nil }

func c10SocksOne(c *core.Ctx, k c10SocksCase) {
	b, _ := hex.DecodeString(k.Hex)
	c.Hist("socks_target", k.Target)
	c.Hist("socks_len", core.SizeBucket(len(b)))
	var modelOp string
	impl := func() string { return "" }
	switch k.Target {
	case "req":
		modelOp = "socksreq-parse"
		impl = func() string {
			r := bytes.NewReader(b)
			var req model.Request
			if err := req.ReadFromSocks5(r); err != nil {
				return c10SocksErr(err)
			}
			rest := b[len(b)-r.Len():]
			return fmt.Sprintf("ok %d %s %s %s", req.Command, c10AddrString(req.DstAddr), core.Hex(req.Raw), core.Hex(rest))
		}
	case "resp":
		modelOp = "socksreq-parse"
		impl = func() string {
			r := bytes.NewReader(b)
			var resp model.Response
			if err := resp.ReadFromSocks5(r); err != nil {
				return c10SocksErr(err)
			}
			rest := b[len(b)-r.Len():]
			return fmt.Sprintf("ok %d %s %s %s", resp.Reply, c10AddrString(resp.BindAddr), core.Hex(resp.Raw), core.Hex(rest))
		}
	case "req4":
		modelOp = "socksreq-parse4"
		impl = func() string {
			r := bytes.NewReader(b)
			req, err := model.ReadSocks5Request(r)
			if err != nil {
				return c10SocksErr(err)
			}
			rest := b[len(b)-r.Len():]
			return fmt.Sprintf("ok %d %s %s %s", req.Command, c10AddrString(req.DstAddr), core.Hex(req.Raw), core.Hex(rest))
		}
	case "resp4":
		modelOp = "socksreq-parse4"
		impl = func() string {
			r := bytes.NewReader(b)
			resp, err := model.ReadSocks5Response(r)
			if err != nil {
				return c10SocksErr(err)
			}
			rest := b[len(b)-r.Len():]
			return fmt.Sprintf("ok %d %s %s %s", resp.Reply, c10AddrString(resp.BindAddr), core.Hex(resp.Raw), core.Hex(rest))
		}
	case "addr":
		modelOp = "socksreq-addr"
		impl = func() string {
			r := bytes.NewReader(b)
			var a model.AddrSpec
			if err := a.ReadFromSocks5(r); err != nil {
				return c10SocksErr(err)
			}
			return fmt.Sprintf("ok %s %s", c10AddrString(a), core.Hex(b[len(b)-r.Len():]))
		}
	case "udp":
		impl = func() string {
			d, err := socks5.VerifParseSocks5UDPDatagram(b)
			if err != nil {
				return "err"
			}
			if !bytes.Equal(append(append([]byte(nil), d.Header...), d.Payload...), b) {
				return "BAD-SPLIT"
			}
			return "ok"
		}
	case "wrap":
		impl = func() string {
			w := apicommon.NewUDPAssociateWrapper(&c10OnePacket{data: b})
			p := make([]byte, k.Cap)
			n, _, err := w.ReadFrom(p)
			if err != nil {
				return "err"
			}
			if n > len(p) || n > len(b) {
				return "BAD-LENGTH"
			}
			return "ok"
		}
	case "pos":
		impl = func() string {
			t := apicommon.NewPacketOverStreamTunnel(&c10ByteConn{r: bytes.NewReader(b)})
			p := make([]byte, k.Cap)
			for i := 0; i < 64; i++ {
				n, err := t.Read(p)
				if err != nil {
					return "end"
				}
				if n > len(p) {
					return "BAD-LENGTH"
				}
			}
			return "ok"
		}
	case "client-reply":
		impl = func() string { return c10ClientReply(b, byte(k.Cmd)) }
	case "transceive":
		impl = func() string { return c10Transceive(b) }
	default:
		return
	}
	got, pan := c10Guard(impl)
	c.Eval(k.Target+":"+k.Hex, strings.HasPrefix(got, "ok"))
	if pan != "" {
		c.Violate(fmt.Sprintf("C10/socks/%s/panic", k.Target), fmt.Sprintf("%s panicked on %d bytes %s: %s", k.Target, len(b), k.Hex, pan), c10Corpus{Kind: "socks", Case: c10MustJSON(k)})
		return
	}
	if strings.HasPrefix(got, "BAD-") {
		c.Violate(fmt.Sprintf("C10/socks/%s/%s", k.Target, strings.ToLower(got)), fmt.Sprintf("%s returned an inconsistent result on %s", k.Target, k.Hex), c10Corpus{Kind: "socks", Case: c10MustJSON(k)})
		return
	}
	if modelOp != "" {
		c.Compared()
		want := c.Model.Ask("%s %s", modelOp, core.Hex(b))
		if want != got {
			c.Disagree(fmt.Sprintf("C10/corr/socks/%s", k.Target), fmt.Sprintf("on %s the model says %q, the implementation %q", core.Hex(b), want, got), c10Corpus{Kind: "socks", Case: c10MustJSON(k)})
		}
	}
}

func c10MustJSON(v interface{}) json.RawMessage {
	b, _ := json.Marshal(v)
	return b
}

// c10ClientReply lets the repository's SOCKS5 client talk to a server whose replies are the bytes b:
// b[0:2] answers the method negotiation, the rest answers the request.
func c10ClientReply(b []byte, cmd byte) string {
	ln, err := net.Listen("tcp4", "127.0.0.1:0")
	if err != nil {
		return "ok skipped"
	}
	defer ln.Close()
	go func() {
		conn, err := ln.Accept()
		if err != nil {
			return
		}
		defer conn.Close()
		conn.SetDeadline(time.Now().Add(3 * time.Second))
		buf := make([]byte, 600)
		if _, err := conn.Read(buf); err != nil {
			return
		}
		first := b
		if len(first) > 2 {
			first = first[:2]
		}
		if len(first) == 0 {
			return
		}
		conn.Write(first)
		if _, err := conn.Read(buf); err != nil {
			return
		}
		if len(b) > 2 {
			conn.Write(b[2:])
		}
	}()
	dial := socks5.DialSocks5Proxy(&socks5.Client{Host: ln.Addr().String(), CmdType: cmd, Timeout: 3 * time.Second})
	conn, udpConn, _, err := dial("tcp", "example.com:80")
	if conn != nil {
		conn.Close()
	}
	if udpConn != nil {
		udpConn.Close()
	}
	if err != nil {
		return "rejected"
	}
	return "ok"
}

// c10Transceive answers TransceiveUDPPacket's request with the datagram b.
func c10Transceive(b []byte) string {
	proxy, err := net.ListenUDP("udp4", &net.UDPAddr{IP: net.IPv4(127, 0, 0, 1)})
	if err != nil {
		return "ok skipped"
	}
	defer proxy.Close()
	cl, err := net.ListenUDP("udp4", &net.UDPAddr{IP: net.IPv4(127, 0, 0, 1)})
	if err != nil {
		return "ok skipped"
	}
	defer cl.Close()
	go func() {
		buf := make([]byte, 2048)
		proxy.SetReadDeadline(time.Now().Add(3 * time.Second))
		_, from, err := proxy.ReadFromUDP(buf)
		if err == nil {
			proxy.WriteToUDP(b, from)
		}
	}()
	cl.SetReadDeadline(time.Now().Add(3 * time.Second))
	out, err := socks5.TransceiveUDPPacket(cl, proxy.LocalAddr().(*net.UDPAddr), &net.UDPAddr{IP: net.IPv4(8, 8, 8, 8), Port: 53}, []byte("q"))
	if err != nil {
		return "rejected"
	}
	if len(out) > len(b) {
		return "BAD-LENGTH"
	}
	return "ok"
}

// ------------------------------------------------------------------------------------------------
// generator

func c10ValidMsg(r *rand.Rand, udpHeader bool) []byte {
	var b []byte
	if udpHeader {
		b = []byte{0, 0, 0}
	} else {
		b = []byte{5, byte(1 + r.Intn(3)), 0}
	}
	switch r.Intn(3) {
	case 0:
		b = append(b, 1)
		ip := make([]byte, 4)
		r.Read(ip)
		b = append(b, ip...)
	case 1:
		b = append(b, 4)
		ip := make([]byte, 16)
		r.Read(ip)
		if r.Intn(4) == 0 {
			copy(ip, []byte{0, 0, 0, 0, 0, 0, 0, 0, 0, 0, 0xff, 0xff})
		}
		b = append(b, ip...)
	case 2:
		n := []int{0, 1, 11, 254, 255}[r.Intn(5)]
		b = append(b, 3, byte(n))
		d := make([]byte, n)
		for i := range d {
			d[i] = byte('a' + r.Intn(26))
		}
		b = append(b, d...)
	}
	b = append(b, byte(r.Intn(256)), byte(r.Intn(256)))
	if r.Intn(2) == 0 {
		extra := make([]byte, r.Intn(40))
		r.Read(extra)
		b = append(b, extra...)
	}
	return b
}

// c10BoundaryNames: the domain names every run offers to each SOCKS5 parser (lengths 0, 1, 2, 254, 255 and
// contents a parser that normalises names could mishandle).
func c10BoundaryNames() [][]byte {
	rep := func(b byte, n int) []byte { return bytes.Repeat([]byte{b}, n) }
	names := [][]byte{
		{}, []byte("."), []byte(".."), []byte("a"), []byte("a."), []byte(".a"), []byte("A"), []byte("7"), {0}, {0xff},
		[]byte("localhost."), []byte("LOCALHOST"), []byte("example.com."), []byte("xn--fsq.example"), []byte("1.2.3.4"), []byte("::1"),
		rep('a', 254), rep('a', 255), append(rep('a', 254), '.'), rep('.', 255), append(rep('b', 253), '.'),
	}
	return names
}

func c10Socks(c *core.Ctx) {
	var cases []c10SocksCase
	parsers := []string{"req", "resp", "req4", "resp4"}
	add := func(target string, b []byte, cap int, cmd int) {
		cases = append(cases, c10SocksCase{Target: target, Hex: hex.EncodeToString(b), Cap: cap, Cmd: cmd})
	}
	// deterministic boundary messages, every run: domain-name lengths 0/1/2/254/255 with contents that a
	// "normalising" parser might touch (trailing / leading / only dots, upper case, digits, non-ASCII, NUL),
	// in a request / reply / bare address / UDP header / client-side reply, whole and cut right after the name
	for _, name := range c10BoundaryNames() {
		m := append([]byte{5, 1, 0, 3, byte(len(name))}, name...)
		m = append(m, 0x01, 0xbb)
		for _, t := range parsers {
			add(t, m, 0, 0)
			add(t, m[:len(m)-2], 0, 0)
		}
		add("addr", m[3:], 0, 0)
		add("addr", m[3:len(m)-2], 0, 0)
		u := append([]byte{0, 0, 0}, m[3:]...)
		u = append(u, 'x', 'y')
		add("udp", u, 0, 0)
		add("wrap", u, 1500, 0)
		add("transceive", u, 0, 0)
		rep := append([]byte{5, 0}, m...)
		rep[3] = 0
		add("client-reply", rep, 0, 1)
		add("client-reply", rep, 0, 3)
	}
	nBase := c.N(12, 120)
	for i := 0; i < nBase; i++ {
		m := c10ValidMsg(c.Rand, false)
		// the message, every truncation of it, every ATYP in place, a wrong version
		for _, t := range parsers {
			add(t, m, 0, 0)
		}
		for cut := 0; cut < len(m) && cut < 300; cut++ {
			add(parsers[cut%4], m[:cut], 0, 0)
			if cut >= 3 {
				add("addr", m[3:cut], 0, 0)
			}
		}
		add("addr", m[3:], 0, 0)
		if i < c.N(2, 12) {
			for atyp := 0; atyp < 256; atyp++ {
				x := append([]byte(nil), m...)
				x[3] = byte(atyp)
				add(parsers[atyp%4], x, 0, 0)
				add("addr", x[3:], 0, 0)
			}
		}
		x := append([]byte(nil), m...)
		x[0] = byte(c.Rand.Intn(256))
		add("req", x, 0, 0)
		add("resp4", x, 0, 0)
		// UDP header / wrapper / client-side reply handling
		u := c10ValidMsg(c.Rand, true)
		for cut := 0; cut <= len(u) && cut < 300; cut += 1 + cut/16 {
			add("udp", u[:cut], 0, 0)
			add("wrap", u[:cut], []int{0, 1, 16, 1500}[cut%4], 0)
			add("transceive", u[:cut], 0, 0)
		}
		y := append([]byte(nil), u...)
		y[c.Rand.Intn(4)] = byte(c.Rand.Intn(256))
		add("udp", y, 0, 0)
		add("wrap", y, 64, 0)
		add("transceive", y, 0, 0)
		// replies to the repository's SOCKS5 client: method reply + request reply
		rep := append([]byte{5, 0}, m...)
		rep[3] = 0 // REP = succeeded
		for _, cut := range []int{0, 1, 2, 3, 5, 6, 9, 11, 12, 21, 23, 24, len(rep)} {
			if cut <= len(rep) {
				add("client-reply", rep[:cut], 0, []int{1, 3}[i%2])
			}
		}
		z := append([]byte(nil), rep...)
		z[c.Rand.Intn(len(z))] = byte(c.Rand.Intn(256))
		add("client-reply", z, 0, 3)
	}
	// random strings of boundary lengths
	for _, n := range []int{0, 1, 2, 3, 4, 5, 6, 7, 9, 10, 21, 22, 23, 260, 261, 262, 263, 264, 600} {
		for rep := 0; rep < c.N(2, 10); rep++ {
			b := make([]byte, n)
			c.Rand.Read(b)
			if n > 0 && c.Rand.Intn(2) == 0 {
				b[0] = 5
			}
			for _, t := range parsers {
				add(t, b, 0, 0)
			}
			add("addr", b, 0, 0)
			add("udp", b, 0, 0)
			add("wrap", b, 32, 0)
		}
	}
	// packet-over-stream frames: valid, truncated, oversized for the buffer, bad delimiters
	for i := 0; i < c.N(20, 200); i++ {
		var s []byte
		for k := 0; k < 1+c.Rand.Intn(3); k++ {
			n := []int{0, 1, 10, 100, 1000}[c.Rand.Intn(5)]
			f := []byte{0, byte(n >> 8), byte(n)}
			p := make([]byte, n)
			c.Rand.Read(p)
			f = append(append(f, p...), 0xff)
			s = append(s, f...)
		}
		if c.Rand.Intn(2) == 0 {
			s[c.Rand.Intn(len(s))] ^= byte(1 + c.Rand.Intn(255))
		}
		if c.Rand.Intn(2) == 0 {
			s = s[:c.Rand.Intn(len(s)+1)]
		}
		add("pos", s, []int{0, 1, 99, 100, 65536}[c.Rand.Intn(5)], 0)
	}
	c.Sample(cases[0])
	for _, k := range cases {
		c10SocksOne(c, k)
		if c.Failed() && len(c.Res.Violations)+len(c.Res.Disagreements) > 15 {
			break
		}
	}
}
