package props

// C10, round 4 — datagrams that arrive BACK TO BACK with the creation of another user's session.
//
// The per-arrival stage (c10.go) waits for every arrival's effect before it sends the next one, so the
// server's goroutines are always at rest when a datagram is judged. Here the arrival under test is already in
// the socket's receive queue when the event loop creates the victim's session: round = [open request of user
// alice with a fresh id, a segment of user bob carrying the SAME id], injected at once
// (simnet.PacketConn.InjectBatchFrom), for every cross-user arrival class, a few hundred rounds, with the
// child's GOMAXPROCS at 1 (the event loop goes on to the second datagram before the new session's input
// goroutine ran once) and at the machine's default. What the ownership filter compares must therefore be
// fixed when the session object is created (Mieru.DispatchAsync: `async_history_never_panics`).
//
// Oracle: the child process survives; every one of alice's sessions was created (accepted by the
// application) — the positive evidence that the rounds were live; sampled ones echo; alice's established
// real-client session keeps echoing.

import (
	"encoding/json"
	"fmt"
	"net"
	"os"
	"runtime"
	"strings"
	"time"

	"verifharness/core"
	"verifharness/wire"
)

type c10BurstSpec struct {
	Kind    string   `json:"kind"` // "burst" (replay tag)
	Rounds  int      `json:"rounds"`
	Classes []string `json:"classes"`
	Procs   int      `json:"procs"` // GOMAXPROCS of the child during the rounds (0 = unchanged)
	Seed    int64    `json:"seed"`
}

type c10BurstObs struct {
	Rounds     int            `json:"rounds"`
	Created    int            `json:"created"`     // alice's sessions the application accepted
	Probed     int            `json:"probed"`      // sampled sessions of alice that were probed
	Echoed     int            `json:"echoed"`      // … and echoed
	NotEchoed  []string       `json:"not_echoed"`  // class/from of the samples that did not
	NotCreated []string       `json:"not_created"` // class/from of rounds whose session never appeared
	Victim     string         `json:"victim"`
	PerClass   map[string]int `json:"per_class"`
}

// c10BurstClasses: what bob sends with alice's brand-new session id. "from" = the socket it comes from
// (alice's own address, or another one); "pre" = bob's datagram is queued BEFORE alice's open request.
var c10BurstClasses = []string{
	"data/same", "data/other", "data0/same", "ack/same", "ack/other", "closeReq/same", "closeReq/other",
	"closeResp/other", "open/other", "openPayload/same", "dataLE/other", "dataS2C/other", "ackS2C/same",
	"openResp/other", "data+close/same", "pre-data/other", "pre-ack/other", "carol-data/same",
}

func c10BurstSegs(class string, sid uint32) (user string, metas []wire.Meta, payloads [][]byte) {
	user = "bob"
	name := strings.TrimPrefix(class, "pre-")
	if strings.HasPrefix(name, "carol-") {
		user, name = "carol", strings.TrimPrefix(name, "carol-")
	}
	pay := []byte("\x80\x81\x82\x83\x84\x85\x86\x87")
	one := func(m wire.Meta, p []byte) {
		m.SessionID = sid
		metas = append(metas, m)
		payloads = append(payloads, p)
	}
	switch name {
	case "data":
		one(wire.Meta{Proto: wire.DataClientToServer, Seq: 1, Window: 256}, pay)
	case "data0":
		one(wire.Meta{Proto: wire.DataClientToServer, Seq: 0, Window: 256}, pay)
	case "ack":
		one(wire.Meta{Proto: wire.AckClientToServer, Seq: 0, UnAck: 1, Window: 256}, nil)
	case "closeReq":
		one(wire.Meta{Proto: wire.CloseSessionRequest, Seq: 1}, nil)
	case "closeResp":
		one(wire.Meta{Proto: wire.CloseSessionResponse, Seq: 1}, nil)
	case "open":
		one(wire.Meta{Proto: wire.OpenSessionRequest, Seq: 0}, nil)
	case "openPayload":
		one(wire.Meta{Proto: wire.OpenSessionRequest, Seq: 0}, pay)
	case "dataLE":
		one(wire.Meta{Proto: 10, Byte1: 1, LEMask: 0x0f0f0f0f, Seq: 1, Window: 256}, pay)
	case "dataS2C":
		one(wire.Meta{Proto: wire.DataServerToClient, Seq: 1, Window: 256}, pay)
	case "ackS2C":
		one(wire.Meta{Proto: wire.AckServerToClient, Seq: 0, UnAck: 1, Window: 256}, nil)
	case "openResp":
		one(wire.Meta{Proto: wire.OpenSessionResponse, Seq: 0}, nil)
	case "data+close":
		one(wire.Meta{Proto: wire.DataClientToServer, Seq: 1, Window: 256}, pay)
		one(wire.Meta{Proto: wire.CloseSessionRequest, Seq: 2}, nil)
	default:
		one(wire.Meta{Proto: wire.DataClientToServer, Seq: 1, Window: 256}, pay)
	}
	return
}

// runBurst (child side).
func (c *c10Child) runBurst(b *c10BurstSpec) c10Reply {
	var rep c10Reply
	obs := &c10BurstObs{Rounds: b.Rounds, PerClass: map[string]int{}}
	rep.Burst = obs
	if !c.udp || c.role != "server" {
		rep.Error = "burst: UDP server only"
		return rep
	}
	c10AvoidSlotBoundary()
	keys := c10Keys(time.Now())
	if c.probeApp(c.victimRd, c10ProbeTimeout) != "echo" {
		go c.victim.Close()
		if err := c.dialVictim(); err != nil {
			rep.Error = "setup: " + err.Error()
			return rep
		}
	}
	alice, err := c.newAttacker("alice", keys, b.Seed)
	if err != nil {
		rep.Error = "peer: " + err.Error()
		return rep
	}
	defer alice.close()
	other, err := c.newAttacker("bob", keys, b.Seed+1)
	if err != nil {
		rep.Error = "peer: " + err.Error()
		return rep
	}
	defer other.close()
	ep := c.net.Endpoint(c.serverAddrUDP().Port)
	if ep == nil {
		rep.Error = "burst: no server endpoint"
		return rep
	}
	aliceAddr := alice.pc.LocalAddr().(*net.UDPAddr)
	otherAddr := other.pc.LocalAddr().(*net.UDPAddr)
	rep.SetupOK = true
	if b.Procs > 0 {
		defer runtime.GOMAXPROCS(runtime.GOMAXPROCS(b.Procs))
	}
	classes := b.Classes
	if len(classes) == 0 {
		classes = c10BurstClasses
	}
	type round struct {
		sid   uint32
		class string
	}
	const chunk = 25
	base := uint32(0x51000000) + uint32(b.Seed%1000)*100000
	var pendingRounds []round
	flush := func() {
		if len(pendingRounds) == 0 {
			return
		}
		// positive evidence: every open request of alice became a session of the application
		ids := append([]round(nil), pendingRounds...)
		c.waitFor(c10ProbeTimeout, func() bool {
			for _, r := range ids {
				if c.apps[r.sid] == nil {
					return false
				}
			}
			return true
		})
		for _, r := range ids {
			if c.appSess(r.sid) != nil {
				obs.Created++
			} else {
				obs.NotCreated = append(obs.NotCreated, r.class)
			}
		}
		// the last two sessions of the chunk must still work for their owner
		for _, r := range ids[len(ids)-min(2, len(ids)):] {
			obs.Probed++
			c.markerSeq++
			if got := alice.probe(r.sid, c10Marker("burst", c.markerSeq), c10ProbeTimeout); got == "echo" {
				obs.Echoed++
			} else {
				obs.NotEchoed = append(obs.NotEchoed, r.class+":"+got)
			}
		}
		pendingRounds = pendingRounds[:0]
	}
	for i := 0; i < b.Rounds; i++ {
		class := classes[i%len(classes)]
		sid := base + uint32(i)*7 + 1
		obs.PerClass[class]++
		fmt.Fprintf(os.Stderr, "c10-step %d\nc10-burst class=%s sid=%d\n", i, class, sid)
		now := uint32(time.Now().Unix() / 60)
		alice.mu.Lock()
		alice.sess[sid] = &c10PeerSess{id: sid, buffered: map[uint32][]byte{}, nextSend: 1}
		openDg := wire.SealUDP(keys["alice"], alice.nonce("alice"), wire.Meta{Proto: wire.OpenSessionRequest, SessionID: sid, Timestamp: now}, nil, nil, nil, 0)
		alice.mu.Unlock()
		user, metas, pays := c10BurstSegs(class, sid)
		from := otherAddr
		if strings.HasSuffix(class, "/same") {
			from = aliceAddr
		}
		var datas [][]byte
		var froms []*net.UDPAddr
		other.mu.Lock()
		for j, m := range metas {
			m.Timestamp = now
			lePad := 0
			datas = append(datas, wire.SealUDP(keys[user], other.nonce(user), m, pays[j], nil, nil, lePad))
			froms = append(froms, from)
		}
		other.mu.Unlock()
		if strings.HasPrefix(class, "pre-") {
			datas, froms = append(datas, openDg), append(froms, aliceAddr)
		} else {
			datas, froms = append([][]byte{openDg}, datas...), append([]*net.UDPAddr{aliceAddr}, froms...)
		}
		ep.InjectBatchFrom(datas, froms)
		pendingRounds = append(pendingRounds, round{sid, class})
		if len(pendingRounds) == chunk {
			flush()
		}
	}
	flush()
	obs.Victim = c.probeApp(c.victimRd, c10ProbeTimeout)
	return rep
}

// ------------------------------------------------------------------------------------------------
// parent side

func c10BurstRun(c *core.Ctx, spec c10BurstSpec) {
	kd := "server/udp"
	p, err := c10StartChild("server", true, c.Seed*1000+700+int64(spec.Procs))
	if err != nil {
		c.Violate("C10/"+kd+"/endpoint-does-not-start", err.Error(), spec)
		return
	}
	defer p.close()
	rep, died := p.ask(c10Cmd{Op: "burst", Burst: &spec}, 240*time.Second)
	kj, _ := json.Marshal(spec)
	c.Eval(string(kj), !died && rep.Error == "")
	if died {
		tr := p.trace()
		class := "?"
		if i := strings.LastIndex(tr, "c10-burst class="); i >= 0 {
			class = strings.Fields(tr[i+len("c10-burst class="):])[0]
		}
		c.Violate(fmt.Sprintf("C10/%s/panic/%s/back-to-back", kd, c10PanicSite(tr)),
			fmt.Sprintf("the SERVER PROCESS DIED: the open request of user alice (fresh session id) was IMMEDIATELY followed in the socket's receive queue by a datagram of another registered user carrying the same id (rounds are queued in chunks of 25; last class queued: %q; the panic message names the segment; GOMAXPROCS=%d). Trace:\n%s", class, spec.Procs, tr), spec)
		return
	}
	if rep.Error != "" {
		if strings.HasPrefix(rep.Error, "timeout") {
			c.Violate("C10/"+kd+"/back-to-back/unresponsive", "the child hosting the real server stopped answering during the back-to-back rounds: "+rep.Error, spec)
		} else {
			c.Note("C10 burst: executor error (discarded): %s", rep.Error)
			c.Hist("c10_burst", "discarded")
		}
		return
	}
	o := rep.Burst
	if o == nil {
		return
	}
	for cl, n := range o.PerClass {
		for i := 0; i < n; i++ {
			c.Hist("c10_burst_class", cl)
		}
	}
	c.Hist("c10_burst", fmt.Sprintf("procs=%d rounds=%d created=%d probed=%d echoed=%d victim=%s", spec.Procs, o.Rounds, o.Created, o.Probed, o.Echoed, o.Victim))
	c.Compared()
	if o.Victim != "echo" {
		c.Violate("C10/"+kd+"/other-session-broken/back-to-back", fmt.Sprintf("after %d back-to-back rounds the established session of user alice (real client) no longer echoes: %s", o.Rounds, o.Victim), spec)
	}
	if len(o.NotCreated) > 0 {
		c.Violate("C10/"+kd+"/other-session-broken/back-to-back/not-created",
			fmt.Sprintf("%d of %d open requests of user alice did not become a session of the application when another user's datagram with the same id was queued next to them: classes %v", len(o.NotCreated), o.Rounds, o.NotCreated), spec)
	}
	if len(o.NotEchoed) > 0 {
		c.Violate("C10/"+kd+"/other-session-broken/back-to-back/new-session",
			fmt.Sprintf("%d of %d sampled new sessions of user alice do not echo after another user's datagram with the same id arrived right behind the open request: %v", len(o.NotEchoed), o.Probed, o.NotEchoed), spec)
	}
}

func init() {
	core.RegisterExtra("C10", func(c *core.Ctx) {
		if !stageOn("burst") {
			return
		}
		c.Correspondence("back-to-back arrivals: [open request of alice, segment of bob/carol with the same id] queued at once at the real UDP server (child process; every cross-user class; GOMAXPROCS 1 and default) — Mieru.DispatchAsync predicts createSession then drop for every interleaving of event loop and input goroutines; observed: process alive, session created, owner's echo")
		rounds := c.N(180, 900)
		c10BurstRun(c, c10BurstSpec{Kind: "burst", Rounds: rounds, Procs: 1, Seed: c.Seed})
		c10BurstRun(c, c10BurstSpec{Kind: "burst", Rounds: rounds, Procs: 0, Seed: c.Seed + 1})
		// the plain pair of the report, many times
		c10BurstRun(c, c10BurstSpec{Kind: "burst", Rounds: c.N(300, 1500), Classes: []string{"data/same", "ack/same", "closeReq/same"}, Procs: 2, Seed: c.Seed + 2})
	})
	core.RegisterReplay("C10", func(c *core.Ctx, raw json.RawMessage) bool {
		var s c10BurstSpec
		if json.Unmarshal(raw, &s) != nil || s.Kind != "burst" {
			return false
		}
		c10BurstRun(c, s)
		return true
	})
}
