package props

import (
	"context"
	"encoding/json"
	"fmt"
	"io"
	"net"
	"strings"
	"sync"
	"time"

	"github.com/enfein/mieru/v3/pkg/appctl/appctlpb"
	"github.com/enfein/mieru/v3/pkg/protocol"
	"google.golang.org/protobuf/proto"
	"verifharness/core"
	"verifharness/sim"
	"verifharness/wire"
)

// C01, program stage: DETERMINISTIC programs, the same on every run and every seed (quick and
// thorough), run before anything random matters:
//
//   * boundary programs: every write size the property's quantifier names (0, 1, 1023/1024/1025 =
//     the open-request piggyback boundary, 32763..32769 = the fragment boundaries of every
//     low-entropy mode, 65535/65536) as FIRST write and as later write, in both directions at once,
//     several sessions on one underlay, for low entropy off and every mode 1..4 and for padding
//     maxima 0 and 255, with the network cutting reads at 1 / 37 / 48 bytes or not at all;
//   * close programs: upload-only sessions (the client application never calls Read: one piggybacked
//     write, two writes, several fragments) closed right after the last Write; download-only
//     sessions; both sides closing right after their last Write — on the bare protocol.Mux and
//     through apis/client + apis/server in both handshake modes.
//
// Oracles (direct, on the real code): what a reader gets is a prefix of what the peer wrote; a
// reader that sees a clean EOF has read EVERYTHING the peer wrote before it closed; without a close
// everything arrives. Wire (bare Mux worlds, sessions identified by their session id): the captured
// bytes of both directions are decoded by the Go reference codec and by the Lean reference codec
// (`spec-tcp-feed`), and the segment sequence of every session and direction — type, sequence
// number, fragment number, payload length fields, payload — must be exactly what the Lean session
// model (`Mieru.Model.TcpSession`, driver ops `tcps-*`) predicts from the list of Write / Close
// calls; the reads every reader saw must be accepted by the model's `Read` (a short read ends on a
// segment boundary).

type c01pSess struct {
	ClientWrites []int  `json:"cw"`
	ServerWrites []int  `json:"sw"`
	ClientNoRead bool   `json:"c_noread,omitempty"` // the client application never calls Read
	ServerNoRead bool   `json:"s_noread,omitempty"`
	ClientClose  string `json:"c_close,omitempty"` // "" | "after-writes" | "after-reads"
	ServerClose  string `json:"s_close,omitempty"`
	ReadSizes    []int  `json:"reads,omitempty"` // read buffer sizes, cyclic (default 65536)
}

type c01pCase struct {
	Kind          string          `json:"kind"` // "c01-program"
	Name          string          `json:"name"`
	Seed          int64           `json:"seed"`
	API           bool            `json:"api,omitempty"`
	NoWait        bool            `json:"no_wait,omitempty"`
	ClientPattern json.RawMessage `json:"client_pattern"`
	ServerPattern json.RawMessage `json:"server_pattern"`
	Multiplex     int             `json:"multiplex"`
	MaxChunk      int             `json:"max_chunk"`
	Sequential    bool            `json:"sequential,omitempty"` // sessions one after the other
	Sess          []c01pSess      `json:"sess"`
}

// what one reader observed
type c01pRead struct {
	Got      int
	Mismatch int      // -1 = none
	End      string   // "want" (got everything expected), "EOF", "timeout", or the error text
	Trace    [][2]int // (requested, returned) of every Read call that returned bytes
}

type c01pSide struct {
	Read     c01pRead
	Written  int
	WriteErr string
	Closed   bool
}

type c01pResult struct {
	SID     uint32
	HaveSID bool
	Dialed  bool
	DialErr string
	Accept  bool
	C, S    c01pSide // C = the client application's observations (it reads the server's stream)
}

func c01pPattern(leMode int, rot int32, pad int32, explicitPad bool) *appctlpb.TrafficPattern {
	p := &appctlpb.TrafficPattern{Seed: proto.Int32(7)}
	p.TcpFragment = &appctlpb.TCPFragment{Enable: proto.Bool(false)}
	m := appctlpb.LowEntropyMode(leMode)
	r := appctlpb.LowEntropyMaskRotation(rot)
	p.LowEntropy = &appctlpb.LowEntropyPattern{Mode: &m, MaskRotation: &r}
	if explicitPad {
		p.Padding = &appctlpb.PaddingPattern{MaxMiddlePaddingLen: proto.Int32(pad), MaxEndPaddingLen: proto.Int32(pad)}
	}
	return p
}

func c01pReader(conn net.Conn, seed int64, sess, dir, want int, untilEOF bool, sizes []int, deadline time.Time, out *c01pRead) {
	out.Mismatch = -1
	if len(sizes) == 0 {
		sizes = []int{65536}
	}
	mx := 0
	for _, s := range sizes {
		if s > mx {
			mx = s
		}
	}
	buf := make([]byte, mx)
	exp := make([]byte, mx)
	i := 0
	for untilEOF || out.Got < want {
		n := sizes[i%len(sizes)]
		i++
		conn.SetReadDeadline(deadline)
		k, err := conn.Read(buf[:n])
		if k > 0 {
			sim.FillStream(exp[:k], seed, sess, dir, out.Got)
			if out.Mismatch < 0 {
				for j := 0; j < k; j++ {
					if buf[j] != exp[j] {
						out.Mismatch = out.Got + j
						break
					}
				}
			}
			out.Got += k
			out.Trace = append(out.Trace, [2]int{n, k})
		}
		if err != nil {
			switch {
			case err == io.EOF:
				out.End = "EOF"
			case strings.Contains(err.Error(), "timeout") || strings.Contains(err.Error(), "deadline"):
				out.End = "timeout"
			default:
				out.End = err.Error()
			}
			return
		}
	}
	out.End = "want"
}

func c01pWriter(conn net.Conn, seed int64, sess, dir int, sizes []int, side *c01pSide) {
	mx := 0
	for _, s := range sizes {
		if s > mx {
			mx = s
		}
	}
	buf := make([]byte, mx)
	off := 0
	for _, sz := range sizes {
		b := buf[:sz]
		sim.FillStream(b, seed, sess, dir, off)
		n, err := conn.Write(b)
		for j := range b {
			b[j] = 0x5A // the caller owns its buffer again as soon as Write has returned
		}
		side.Written += n
		off += sz
		if err != nil {
			side.WriteErr = err.Error()
			return
		}
	}
}

type c01pEndpoints struct {
	bare *sim.World
	api  *sim.APIWorld
	mu   sync.Mutex
	ids  map[uint32]int
}

func (e *c01pEndpoints) dial(ctx context.Context, k int) (net.Conn, uint32, bool, error) {
	if e.api != nil {
		conn, _, err := e.api.DialScript(ctx, k)
		return conn, 0, false, err
	}
	conn, err := e.bare.Dial(ctx)
	if err != nil {
		return nil, 0, false, err
	}
	id, ok := protocol.VerifSessionID(conn)
	if ok {
		e.mu.Lock()
		e.ids[id] = k
		e.mu.Unlock()
	}
	return conn, id, ok, nil
}

func (e *c01pEndpoints) accept(n int, timeout time.Duration) (net.Conn, int, error) {
	if e.api != nil {
		return e.api.AcceptScript(n, timeout)
	}
	conn, err := e.bare.Server.Accept()
	if err != nil {
		return nil, -1, err
	}
	id, ok := protocol.VerifSessionID(conn)
	if !ok {
		return conn, -1, nil
	}
	for i := 0; i < 2000; i++ {
		e.mu.Lock()
		k, found := e.ids[id]
		e.mu.Unlock()
		if found {
			return conn, k, nil
		}
		time.Sleep(time.Millisecond)
	}
	return conn, -1, nil
}

// c01pExec runs the sessions of one case on fresh endpoints and returns the observations, the
// world (for the wire audit; nil for API worlds' view see below) and a close function.
func c01pExec(k c01pCase, timeout time.Duration) ([]c01pResult, *sim.World, func(), error) {
	cfg := sim.Config{Seed: k.Seed, Multiplex: k.Multiplex, MaxChunk: k.MaxChunk,
		ClientPattern: patFromJSON(k.ClientPattern), ServerPattern: patFromJSON(k.ServerPattern)}
	ep := &c01pEndpoints{ids: map[uint32]int{}}
	var view *sim.World
	var closeFn func()
	t0 := time.Now().Add(-time.Second)
	if k.API {
		w, err := sim.NewAPIWorld(cfg, k.NoWait)
		if err != nil {
			return nil, nil, nil, err
		}
		ep.api = w
		view = &sim.World{Cfg: w.Cfg, Net: w.Net, Start: t0}
		closeFn = w.Close
	} else {
		w, err := sim.NewWorld(cfg)
		if err != nil {
			return nil, nil, nil, err
		}
		ep.bare = w
		view = w
		closeFn = w.Close
	}
	res := make([]c01pResult, len(k.Sess))
	deadline := time.Now().Add(timeout)
	ctx, cancel := context.WithDeadline(context.Background(), deadline)
	defer cancel()
	var wg sync.WaitGroup
	serverDone := make([]chan struct{}, len(k.Sess))
	for i := range serverDone {
		serverDone[i] = make(chan struct{})
	}
	var once = make([]sync.Once, len(k.Sess))
	release := func(i int) { once[i].Do(func() { close(serverDone[i]) }) }

	// server side: accept loop
	stopAccept := make(chan struct{})
	go func() {
		for {
			conn, idx, err := ep.accept(len(k.Sess), timeout)
			if err != nil {
				return
			}
			select {
			case <-stopAccept:
				conn.Close()
				return
			default:
			}
			if idx < 0 {
				continue
			}
			wg.Add(1)
			go func(conn net.Conn, idx int) {
				defer wg.Done()
				defer release(idx)
				sc := k.Sess[idx]
				r := &res[idx]
				r.Accept = true
				var inner sync.WaitGroup
				inner.Add(1)
				go func() {
					defer inner.Done()
					c01pWriter(conn, k.Seed, idx, 1, sc.ServerWrites, &r.S)
					if sc.ServerClose == "after-writes" {
						conn.Close()
						r.S.Closed = true
					}
				}()
				if !sc.ServerNoRead {
					inner.Add(1)
					go func() {
						defer inner.Done()
						c01pReader(conn, k.Seed, idx, 0, sumInts(sc.ClientWrites), sc.ClientClose != "", sc.ReadSizes, deadline, &r.S.Read)
					}()
				}
				inner.Wait()
				if sc.ServerClose == "after-reads" {
					conn.Close()
					r.S.Closed = true
				}
			}(conn, idx)
		}
	}()

	client := func(idx int) {
		defer wg.Done()
		sc := k.Sess[idx]
		r := &res[idx]
		conn, id, ok, err := ep.dial(ctx, idx)
		if err != nil {
			r.DialErr = err.Error()
			release(idx)
			return
		}
		r.Dialed, r.SID, r.HaveSID = true, id, ok
		var inner sync.WaitGroup
		inner.Add(1)
		go func() {
			defer inner.Done()
			cw := sc.ClientWrites
			if len(cw) == 0 {
				cw = []int{0} // the open request travels with the first Write
			}
			c01pWriter(conn, k.Seed, idx, 0, cw, &r.C)
			if sc.ClientClose == "after-writes" {
				conn.Close()
				r.C.Closed = true
			}
		}()
		if !sc.ClientNoRead {
			inner.Add(1)
			go func() {
				defer inner.Done()
				c01pReader(conn, k.Seed, idx, 1, sumInts(sc.ServerWrites), sc.ServerClose != "", sc.ReadSizes, deadline, &r.C.Read)
			}()
		}
		inner.Wait()
		if sc.ClientClose == "after-reads" {
			conn.Close()
			r.C.Closed = true
		}
	}
	for idx := range k.Sess {
		wg.Add(1)
		if k.Sequential {
			client(idx)
			select {
			case <-serverDone[idx]:
			case <-time.After(time.Until(deadline)):
			}
		} else {
			go client(idx)
		}
	}
	done := make(chan struct{})
	go func() {
		wg.Wait()
		for i := range serverDone {
			select {
			case <-serverDone[i]:
			case <-time.After(time.Until(deadline) + time.Second):
			}
		}
		wg.Wait()
		close(done)
	}()
	select {
	case <-done:
	case <-time.After(time.Until(deadline) + 5*time.Second):
	}
	close(stopAccept)
	return res, view, closeFn, nil
}

// c01pOracle evaluates the delivery predicate on the observations of one case and returns the
// failures as (key suffix, text).
func c01pOracle(k c01pCase, res []c01pResult) [][2]string {
	var f [][2]string
	add := func(key, format string, a ...interface{}) { f = append(f, [2]string{key, fmt.Sprintf(format, a...)}) }
	for i, r := range res {
		sc := k.Sess[i]
		if !r.Dialed {
			add("dial", "session %d: dial failed: %s", i, r.DialErr)
			continue
		}
		if !r.Accept {
			add("not-accepted", "session %d: the server never accepted the connection (client wrote %v)", i, sc.ClientWrites)
			continue
		}
		type dir struct {
			name      string
			rd        c01pRead
			noRead    bool
			want      int
			writer    c01pSide
			peerClose string
		}
		for _, d := range []dir{
			{"client→server", r.S.Read, sc.ServerNoRead, sumInts(sc.ClientWrites), r.C, sc.ClientClose},
			{"server→client", r.C.Read, sc.ClientNoRead, sumInts(sc.ServerWrites), r.S, sc.ServerClose},
		} {
			if d.writer.WriteErr != "" && d.peerClose == "" {
				// a Write may fail once the PEER has closed; nobody closes early in these programs
				// before its peer finished writing, except a closing side's own peer
				otherClosed := (d.name == "client→server" && sc.ServerClose == "after-writes") || (d.name == "server→client" && sc.ClientClose == "after-writes")
				if !otherClosed {
					add("write-failed", "session %d %s: Write failed: %s", i, d.name, d.writer.WriteErr)
				}
			}
			if d.noRead {
				continue
			}
			if d.rd.Mismatch >= 0 {
				add("content", "session %d %s: byte %d differs from what was written", i, d.name, d.rd.Mismatch)
			}
			if d.rd.Got > d.want {
				add("extra", "session %d %s: read %d bytes, only %d written", i, d.name, d.rd.Got, d.want)
			}
			readerClosedItself := (d.name == "client→server" && sc.ServerClose == "after-writes") || (d.name == "server→client" && sc.ClientClose == "after-writes")
			if d.rd.Got < d.writer.Written && !readerClosedItself {
				switch d.rd.End {
				case "EOF":
					add("lost-before-close", "session %d %s: the writer's %d Write calls returned success for %d bytes and it then closed; the reader got %d bytes and a clean EOF", i, d.name, len(k.Sess[i].ClientWrites), d.writer.Written, d.rd.Got)
				case "timeout", "want":
					add("missing", "session %d %s: read %d of %d written bytes, reader ended with %q", i, d.name, d.rd.Got, d.writer.Written, d.rd.End)
				default:
					if d.peerClose == "" {
						add("missing", "session %d %s: read %d of %d written bytes, reader ended with %q although nobody closed", i, d.name, d.rd.Got, d.writer.Written, d.rd.End)
					}
					// a close followed by an ERROR at the reader is allowed by the property
				}
			}
			if d.peerClose != "" && d.rd.End == "timeout" && d.rd.Got >= d.writer.Written {
				add("no-eof", "session %d %s: the writer closed after %d bytes; the reader got them but neither EOF nor an error within the time limit", i, d.name, d.writer.Written)
			}
		}
	}
	return f
}

// ---- deterministic programs ----------------------------------------------------------------

func c01pBoundaryCases(all bool) []c01pCase {
	var out []c01pCase
	type variant struct {
		name     string
		le       int
		rot      int32
		pad      int32
		maxChunk int
		mux      int
	}
	vs := []variant{
		{"le0-pad0", 0, 0, 0, 0, 1},
		{"le0-pad255", 0, 0, 255, 37, 2},
		{"le1-pad0", 1, 3, 0, 48, 1},
		{"le1-pad255", 1, 0, 255, 0, 3},
		{"le2-pad0", 2, 16, 0, 0, 2},
		{"le2-pad255", 2, 15, 255, 1400, 1},
		{"le3-pad0", 3, 240, 0, 97, 1},
		{"le3-pad255", 3, 0, 255, 0, 2},
		{"le4-pad0", 4, 7, 0, 0, 3},
		{"le4-pad255", 4, 48, 255, 37, 1},
	}
	// quick: every mode once and both padding maxima on each side (the server side of a variant has the
	// complementary maximum 255-pad and another mode); thorough: the full product
	quick := map[string]bool{"le0-pad0": true, "le0-pad255": true, "le1-pad0": true, "le2-pad255": true, "le3-pad0": true, "le4-pad255": true}
	for i, v := range vs {
		if !all && !quick[v.name] {
			continue
		}
		cp := patJSON(c01pPattern(v.le, v.rot, v.pad, true))
		// the server side alternates between mirroring the client's mode and another one / off
		sle := []int{0, 2, 1, 4, 2, 0, 3, 1, 4, 3}[i]
		sp := patJSON(c01pPattern(sle, v.rot, 255-v.pad, true))
		out = append(out, c01pCase{Kind: "c01-program", Name: "boundary/" + v.name, Seed: int64(1000 + i), ClientPattern: cp, ServerPattern: sp,
			Multiplex: v.mux, MaxChunk: v.maxChunk, Sess: []c01pSess{
				{ClientWrites: []int{0, 1, 1023, 1024, 1025, 0, 32763}, ServerWrites: []int{1, 0, 32764, 32765, 65535}, ReadSizes: []int{65536}},
				{ClientWrites: []int{1, 32764, 32765, 65536}, ServerWrites: []int{0, 1023, 1024, 1025, 32766}, ReadSizes: []int{1, 13, 1500}},
				{ClientWrites: []int{1023, 32766, 32767}, ServerWrites: []int{32767, 32768, 32769}, ReadSizes: []int{32768, 1}},
				{ClientWrites: []int{1024, 32768, 32769, 65535}, ServerWrites: []int{65536, 1}, ReadSizes: []int{100000}},
				{ClientWrites: []int{1025, 1, 0, 1024}, ServerWrites: []int{32763, 0, 1}, ReadSizes: []int{1024, 1025}},
			}})
	}
	// the network delivers one byte at a time: small volume, every first-write boundary
	for i, le := range []int{0, 1, 4} {
		out = append(out, c01pCase{Kind: "c01-program", Name: fmt.Sprintf("boundary/one-byte-chunks-le%d", le), Seed: int64(1100 + i),
			ClientPattern: patJSON(c01pPattern(le, 5, 255, true)), ServerPattern: patJSON(c01pPattern(le, 5, 0, true)),
			Multiplex: 1, MaxChunk: 1, Sess: []c01pSess{
				{ClientWrites: []int{1024, 1}, ServerWrites: []int{1, 1025}, ReadSizes: []int{7}},
				{ClientWrites: []int{1025, 0, 1023}, ServerWrites: []int{0, 1024}, ReadSizes: []int{4096}},
				{ClientWrites: []int{0}, ServerWrites: []int{1}, ReadSizes: []int{1}},
			}})
	}
	return out
}

func c01pCloseCases() []c01pCase {
	var out []c01pCase
	sess := []c01pSess{
		// upload-only: the client application never calls Read and closes right after its last Write
		{ClientWrites: []int{1000}, ClientNoRead: true, ClientClose: "after-writes"},
		{ClientWrites: []int{64, 3000}, ClientNoRead: true, ClientClose: "after-writes"},
		{ClientWrites: []int{100000}, ClientNoRead: true, ClientClose: "after-writes"},
		{ClientWrites: []int{1025, 1, 40000}, ClientNoRead: true, ClientClose: "after-writes"},
		// download-only: the client sends its open request (an empty first Write) and only reads
		{ClientWrites: []int{0}, ServerWrites: []int{5, 70000}, ServerClose: "after-writes", ServerNoRead: true},
		{ClientWrites: []int{0}, ServerWrites: []int{1}, ServerClose: "after-writes", ServerNoRead: true},
		// both sides close right after their last Write; both read to the end
		{ClientWrites: []int{2000, 40000}, ServerWrites: []int{3000}, ClientClose: "after-writes", ServerClose: "after-writes"},
		// the client reads everything, then closes; the server closes right after its writes
		{ClientWrites: []int{10}, ServerWrites: []int{50000, 3}, ClientClose: "after-reads", ServerClose: "after-writes"},
	}
	for i, le := range []int{0, 2} {
		out = append(out, c01pCase{Kind: "c01-program", Name: fmt.Sprintf("close/mux-le%d", le), Seed: int64(1200 + i),
			ClientPattern: patJSON(c01pPattern(le, 0, 17, true)), ServerPattern: patJSON(c01pPattern(le, 0, 17, true)),
			Multiplex: 2, Sess: sess})
	}
	// one session at a time, no multiplexing, default patterns
	out = append(out, c01pCase{Kind: "c01-program", Name: "close/sequential", Seed: 1210, ClientPattern: json.RawMessage("null"),
		ServerPattern: json.RawMessage("null"), Multiplex: 0, Sequential: true, Sess: sess})
	// through apis/client + apis/server, both handshake modes. In HANDSHAKE_NO_WAIT the client must
	// write first, and a client that never reads … still reads the SOCKS5 reply inside its first Write.
	apiSess := []c01pSess{
		{ClientWrites: []int{1000}, ClientNoRead: true, ClientClose: "after-writes"},
		{ClientWrites: []int{64, 3000}, ClientNoRead: true, ClientClose: "after-writes"},
		{ClientWrites: []int{100000}, ClientNoRead: true, ClientClose: "after-writes"},
		{ClientWrites: []int{1}, ServerWrites: []int{5, 70000}, ServerClose: "after-writes"},
		{ClientWrites: []int{2000, 40000}, ServerWrites: []int{3000}, ClientClose: "after-writes", ServerClose: "after-writes"},
		// round 4: the piggyback boundary as 0-RTT sees it — the 10-byte request rides in front of the
		// first write: 10 + 1014 = 1024 bytes fit the open-session request, 10 + 1015 do not
		{ClientWrites: []int{1014}, ServerWrites: []int{10}, ClientClose: "after-reads", ServerClose: "after-writes"},
		{ClientWrites: []int{1015}, ServerWrites: []int{10}, ClientClose: "after-reads", ServerClose: "after-writes"},
	}
	for i, nw := range []bool{false, true} {
		out = append(out, c01pCase{Kind: "c01-program", Name: fmt.Sprintf("close/api-nowait=%v", nw), Seed: int64(1220 + i), API: true, NoWait: nw,
			ClientPattern: json.RawMessage("null"), ServerPattern: json.RawMessage("null"), Multiplex: 1, Sess: apiSess})
	}
	return out
}

func c01pRun(c *core.Ctx, k c01pCase) {
	key, _ := json.Marshal(k)
	run := func() ([]c01pResult, *sim.World, [][2]string, bool) {
		res, view, closeFn, err := c01pExec(k, 60*time.Second)
		if err != nil {
			c.Violate("C01/program/setup", "valid configuration rejected or endpoints failed to start: "+err.Error(), k)
			return nil, nil, nil, false
		}
		bgClose.Go(closeFn)
		return res, view, c01pOracle(k, res), true
	}
	res, view, fails, ok := run()
	if !ok {
		c.Eval(string(key), false)
		return
	}
	if len(fails) > 0 {
		// A close gives the writer one second to flush (C03's subject); on a loaded machine a
		// starved output loop can miss it. A deterministic defect fails again.
		res2, view2, fails2, ok2 := run()
		if ok2 && len(fails2) == 0 {
			c.Note("program %s failed once (%s) and passed on re-run (not reported)", k.Name, fails[0][1])
			res, view, fails = res2, view2, nil
		}
	}
	c.Eval(string(key), true)
	c.Res.TracesValidated++
	c.Hist("program", k.Name)
	for _, s := range k.Sess {
		for j, x := range s.ClientWrites {
			c.Hist("program_write_size", fmt.Sprint(x))
			if j == 0 {
				c.Hist("program_first_write", fmt.Sprint(x))
			}
		}
		for _, x := range s.ServerWrites {
			c.Hist("program_write_size", fmt.Sprint(x))
		}
	}
	for _, f := range fails {
		c.Violate("C01/program/"+strings.SplitN(k.Name, "/", 2)[0]+"/"+f[0], fmt.Sprintf("%s: %s", k.Name, f[1]), k)
	}
	if len(fails) == 0 {
		c01pWire(c, k, res, view)
	}
}

// c01pSegKey is the property-relevant content of one decoded segment
func c01pSegLine(s *wire.Segment) string {
	return fmt.Sprintf("%d/%d/%d/%d/%d/%d", s.Proto, s.Seq, s.Fragment, s.PayloadLen, s.ExtractedLen, len(s.Payload))
}

func init() {
	core.RegisterExtra("C01", func(c *core.Ctx) {
		c.Correspondence("program stage: deterministic boundary and close programs; per session and direction the decoded wire = the Lean session model's prediction (tcps-*), reads accepted by the model's Read")
		cases := append(c01pBoundaryCases(c.Thorough()), c01pCloseCases()...)
		t0 := time.Now()
		core.Parallel(len(cases), 6, func(i int) { c01pRun(c, cases[i]) })
		t1 := time.Now()
		bgClose.Wait(30 * time.Second)
		c.Note("program stage: %d deterministic programs in %.1f s (+ %.1f s closing the worlds)", len(cases), t1.Sub(t0).Seconds(), time.Since(t1).Seconds())
	})
	core.RegisterReplay("C01", func(c *core.Ctx, raw json.RawMessage) bool {
		var k c01pCase
		if json.Unmarshal(raw, &k) != nil || k.Kind != "c01-program" {
			return false
		}
		c01pRun(c, k)
		bgClose.Wait(30 * time.Second)
		return true
	})
}
