package props

import (
	"context"
	"encoding/json"
	"fmt"
	"math/rand"
	"net"
	"strings"
	"sync"
	"time"

	"verifharness/core"
	"verifharness/sim"
	"verifharness/simnet"
	"verifharness/wire"
)

// C05 — no credential: the server stays silent and creates nothing.
// C06 (protocol level) — byte-exact replays of accepted traffic draw no reply and open no session.
//
// A real server (protocol.Mux) runs on the in-memory network with registered users. Genuine sessions
// run first (and concurrently); their captured client→server bytes / datagrams are the raw material of
// the probes. Every probe is sent from a fresh connection / a fresh source address.
//
// Two stages:
//   * batch (this file): many worlds in parallel, 40+ probes each, all of classes the model predicts
//     to be silent. Direct oracle: bytes (datagrams) leaving the server for the probing peer = 0,
//     Accept did not fire for it, the exported session list did not grow. The model (tcpRun / udpRun
//     on the probe's unit tokens) must predict out = 0, accepted = 0 for each.
//   * differential (c05_diff.go): one world at a time, one probe at a time; the branch the real server
//     took is read from its own counters and compared with the unit token, and the model's whole
//     reply (outputs, close requests, sessions accepted, closed) with what was measured — including
//     authenticated multi-segment streams (positive controls) so that later iterations of the step
//     function are compared.

// ---- unit tokens of the Lean first-contact model (Mieru.Driver.Server) ----------------------------

type tcpTok struct {
	Avail int
	EOF   bool
	Opens string // "none" or a user id
	Dup   bool
	Proto int
	Sid   uint32
	PL    int // payloadLen
	Pre   int
	Suf   int
	TSBad bool
	LEBad bool
	Body  int
	POBad bool
}

func c05b(b bool) int {
	if b {
		return 1
	}
	return 0
}

func (t tcpTok) String() string {
	o := t.Opens
	if o == "" {
		o = "none"
	}
	return fmt.Sprintf("%d/%d/%s/%d/%d/%d/%d/%d/%d/%d/%d/%d/%d", t.Avail, c05b(t.EOF), o, c05b(t.Dup), t.Proto, t.Sid, t.PL, t.Pre, t.Suf, c05b(!t.TSBad), c05b(!t.LEBad), t.Body, c05b(!t.POBad))
}

type udpTok struct {
	Len      int
	Existing string
	Discover string
	Dup      bool
	Proto    int
	Sid      uint32
	PL       int
	Pre      int
	Suf      int
	TSBad    bool
	LEBad    bool
	POBad    bool
}

func (t udpTok) String() string {
	e, d := t.Existing, t.Discover
	if e == "" {
		e = "none"
	}
	if d == "" {
		d = "none"
	}
	return fmt.Sprintf("%d/%s/%s/%d/%d/%d/%d/%d/%d/%d/%d/%d", t.Len, e, d, c05b(t.Dup), t.Proto, t.Sid, t.PL, t.Pre, t.Suf, c05b(!t.TSBad), c05b(!t.LEBad), c05b(!t.POBad))
}

// tcpNoKey: n bytes that open under no registered key, then (optionally) the end of the stream.
func tcpNoKey(n int, eof bool) tcpTok {
	if n > 72 {
		n = 72 // the header read takes 72 bytes; what follows is never parsed
	}
	return tcpTok{Avail: n, EOF: eof}
}

func udpNoKey(n int) udpTok { return udpTok{Len: n} }

// tokOfSeg: the unit a decoded (genuine) segment presents as the first read of a stream, given how
// many bytes of it arrive.
func tokOfSeg(m wire.Meta, user string, arrived int, dup bool, eof bool) tcpTok {
	if arrived < 72 {
		return tcpTok{Avail: arrived, EOF: eof}
	}
	need := int(m.SuffixLen)
	if !m.IsSession() {
		need += int(m.PrefixLen)
	}
	if m.PayloadLen > 0 {
		need += int(m.PayloadLen) + 16
	}
	body := arrived - 72
	if body > need {
		body = need
	}
	return tcpTok{Avail: 72, EOF: eof, Opens: user, Dup: dup, Proto: int(m.Proto), Sid: m.SessionID, PL: int(m.PayloadLen), Pre: int(m.PrefixLen), Suf: int(m.SuffixLen), Body: body}
}

func udpTokOfSeg(m wire.Meta, user string, n int, dup bool) udpTok {
	if n < 72 {
		return udpTok{Len: n}
	}
	return udpTok{Len: n, Discover: user, Dup: dup, Proto: int(m.Proto), Sid: m.SessionID, PL: int(m.PayloadLen), Pre: int(m.PrefixLen), Suf: int(m.SuffixLen)}
}

// ---- probes -------------------------------------------------------------------------------------------

type probe struct {
	Class string `json:"class"`
	Data  string `json:"data"` // hex
	Note  string `json:"note,omitempty"`
	Model string `json:"model"`         // unit tokens for the Lean model, by construction
	EOF   bool   `json:"eof,omitempty"` // TCP: end the stream after the bytes (half close)
	Key   string `json:"key,omitempty"` // hex key under which the server's answer decodes (authenticated streams)
	From  string `json:"from,omitempty"`
}

type probeCase struct {
	Seed   int64   `json:"seed"`
	UDP    bool    `json:"udp"`
	Probes []probe `json:"probes"`
	Stage  string  `json:"stage"`
	LE     bool    `json:"low_entropy,omitempty"`
	Reload string  `json:"reload_variant,omitempty"`
}

var probeUsers = []sim.User{{Name: "alice", Password: "alice-secret"}, {Name: "bob", Password: "bob-secret"}, {Name: "nopass"}}

// user ids of the model = index in the registry's name order (1-based in the code; only identity matters)
const aliceID = "0"

type probeWorld struct {
	w       *sim.World
	stop    chan struct{}
	nAccept int
	mu      sync.Mutex
}

func newProbeWorldCfg(cfg sim.Config) (*probeWorld, error) {
	w, err := sim.NewWorld(cfg)
	if err != nil {
		return nil, err
	}
	pw := &probeWorld{w: w, stop: make(chan struct{})}
	go func() {
		for {
			conn, err := w.Server.Accept()
			if err != nil {
				return
			}
			pw.mu.Lock()
			pw.nAccept++
			pw.mu.Unlock()
			// echo application
			go func(c net.Conn) {
				buf := make([]byte, 65536)
				for {
					n, err := c.Read(buf)
					if n > 0 {
						c.Write(buf[:n])
					}
					if err != nil {
						return
					}
				}
			}(conn)
		}
	}()
	return pw, nil
}

func newProbeWorld(seed int64, udp bool) (*probeWorld, error) {
	return newProbeWorldCfg(sim.Config{UDP: udp, Seed: seed, Users: probeUsers})
}

func (pw *probeWorld) accepts() int {
	pw.mu.Lock()
	defer pw.mu.Unlock()
	return pw.nAccept
}

// genuine runs one genuine echo session and returns true if the echo came back intact.
func (pw *probeWorld) genuine(msg []byte) bool {
	ctx, cancel := context.WithTimeout(context.Background(), 20*time.Second)
	defer cancel()
	conn, err := pw.w.Dial(ctx)
	if err != nil {
		return false
	}
	defer conn.Close()
	if _, err := conn.Write(msg); err != nil {
		return false
	}
	got := make([]byte, 0, len(msg))
	buf := make([]byte, 65536)
	conn.SetReadDeadline(time.Now().Add(20 * time.Second))
	for len(got) < len(msg) {
		n, err := conn.Read(buf)
		got = append(got, buf[:n]...)
		if err != nil {
			break
		}
	}
	return string(got) == string(msg)
}

type tcpMaterial struct {
	stream []byte          // client→server bytes of one genuine connection
	segs   []*wire.Segment // its decoded segments
	ends   []int           // offsets at which they end
	s2c    []byte          // what the server wrote on that connection
}

// tcpMaterial returns the client→server bytes of the first captured TCP connection and the offsets at
// which its segments end.
func (pw *probeWorld) tcpMaterial() (m tcpMaterial) {
	for _, ds := range pw.w.DecodeStreams() {
		if ds.ClientToServer && ds.Err == nil && len(ds.Segs) > 0 {
			pw.w.Net.Lock()
			cp := pw.w.Net.Streams[ds.ConnID]
			pw.w.Net.Unlock()
			c2s, s2c, _, _ := cp.Snapshot()
			off := 0
			for _, s := range ds.Segs {
				off += s.WireLen
				m.ends = append(m.ends, off)
			}
			m.stream, m.segs, m.s2c = c2s, ds.Segs, s2c
			return m
		}
	}
	return m
}

// ---- builders of well-formed units (reference codec) ------------------------------------------------

type openOpts struct {
	Sid       uint32
	SidSet    bool
	TSDelta   int   // minutes added to the current minute
	Payload   int   // payload length; -1 = random 1..200
	Pad       int   // padding length; -1 = random 8..71
	Proto     uint8 // 0 = openSessionRequest
	HintUser  string
	BadHashed []byte // if set, the key is derived from this hashed password instead
}

type built struct {
	Data []byte
	Meta wire.Meta
	Key  []byte
}

func hashedOf(user, pass string) []byte { return wire.HashedPassword(user, pass) }

func buildMeta(r *rand.Rand, o openOpts) (wire.Meta, []byte, []byte) {
	pl := o.Payload
	if pl < 0 {
		pl = 1 + r.Intn(200)
	}
	pad := o.Pad
	if pad < 0 {
		pad = 8 + r.Intn(64)
	}
	payload := make([]byte, pl)
	r.Read(payload)
	padding := make([]byte, pad)
	r.Read(padding)
	sid := o.Sid
	if !o.SidSet {
		sid = 1 + r.Uint32()%1000000
	}
	proto := o.Proto
	if proto == 0 {
		proto = wire.OpenSessionRequest
	}
	m := wire.Meta{Proto: proto, Timestamp: uint32(time.Now().Unix()/60 + int64(o.TSDelta)), SessionID: sid}
	return m, payload, padding
}

func newNonce(r *rand.Rand, hintUser string) []byte {
	nonce := make([]byte, 24)
	r.Read(nonce)
	copy(nonce[20:], wire.UserHint(hintUser, nonce))
	return nonce
}

// buildOpenTCP builds a well-formed first TCP segment under the given hashed password.
func buildOpenTCP(r *rand.Rand, hashed []byte, o openOpts) built {
	key := wire.KeyForSlot(hashed, wire.RoundTo2Min(time.Now().Unix()))
	enc := &wire.StreamEncoder{Key: key, Nonce: newNonce(r, o.HintUser)}
	m, payload, pad := buildMeta(r, o)
	data := enc.Seal(m, payload, nil, pad, 0)
	m.PayloadLen, m.SuffixLen = uint16(len(payload)), uint8(len(pad))
	return built{Data: data, Meta: m, Key: key}
}

func buildOpenUDP(r *rand.Rand, hashed []byte, o openOpts) built {
	key := wire.KeyForSlot(hashed, wire.RoundTo2Min(time.Now().Unix()))
	m, payload, pad := buildMeta(r, o)
	var data []byte
	if m.IsSession() {
		data = wire.SealUDP(key, newNonce(r, o.HintUser), m, payload, nil, pad, 0)
	} else {
		data = wire.SealUDP(key, newNonce(r, o.HintUser), m, payload, nil, pad, 0)
	}
	m.PayloadLen, m.SuffixLen = uint16(len(payload)), uint8(len(pad))
	return built{Data: data, Meta: m, Key: key}
}

// wireHandshake builds a well-formed first TCP segment (open session request with payload and
// padding) with the reference codec under the given credential; the hint names hintUser.
func wireHandshake(r *rand.Rand, user, pass, hintUser string) []byte {
	return buildOpenTCP(r, hashedOf(user, pass), openOpts{Payload: -1, Pad: -1, HintUser: hintUser}).Data
}

func wireDatagram(r *rand.Rand, user, pass, hintUser string) []byte {
	return buildOpenUDP(r, hashedOf(user, pass), openOpts{Payload: -1, Pad: -1, HintUser: hintUser}).Data
}

// stableMinute waits, if needed, until the wall clock is at least `margin` away from the next minute
// tick, so that a unit stamped now is judged in the minute it was stamped in.
func stableMinute(margin time.Duration) {
	now := time.Now()
	left := time.Duration(60-now.Second())*time.Second - time.Duration(now.Nanosecond())
	if left < margin {
		time.Sleep(left + 200*time.Millisecond)
	}
}

// ---- generators: classes the model predicts silent ----------------------------------------------------

// boundary lengths of the two header reads (first 72 = 24 + 32 + 16, later 48) and of the datagram header
var tcpBoundaryLens = []int{0, 1, 23, 24, 47, 48, 49, 71, 72, 73, 100, 1000, 2000}
var udpBoundaryLens = []int{0, 1, 47, 71, 72, 73, 500, 1400, 1500}

func genProbesTCP(r *rand.Rand, mat tcpMaterial, n int, stage string) []probe {
	var ps []probe
	stream, ends := mat.stream, mat.ends
	first := stream[:ends[0]]
	fm := mat.segs[0].Meta
	add := func(class string, data []byte, tok tcpTok, note string) {
		ps = append(ps, probe{Class: class, Data: core.Hex(data), Model: tok.String(), Note: note})
	}
	replayTok := func(n int) tcpTok { return tokOfSeg(fm, aliceID, n, true, false) }
	bitflip := func(pos int, bit uint) {
		b := append([]byte(nil), first...)
		b[pos] ^= 1 << bit
		var tok tcpTok
		switch {
		case pos < 16: // new signature; the nonce changed: nothing opens
			tok = tcpNoKey(len(b), false)
		case pos < 72: // same 16-byte signature: reported; nonce tail / metadata / tag damaged: nothing opens
			tok = tcpNoKey(len(b), false)
			tok.Dup = true
		default: // header intact: opens, and is a replay, whatever else changed
			tok = replayTok(len(b))
		}
		add("genuine-bitflip", b, tok, fmt.Sprint(pos))
	}
	freshTrunc := func(cut int, b built) {
		if cut > len(b.Data) {
			cut = len(b.Data)
		}
		add("fresh-genuine-truncated", b.Data[:cut], tokOfSeg(b.Meta, aliceID, cut, false, false), fmt.Sprintf("%d of %d", cut, len(b.Data)))
	}
	if stage == "C06" {
		// deterministic: whole stream, first segment alone, every segment boundary, header only, header + 1
		add("replay-whole-stream", stream, replayTok(len(stream)), "")
		add("replay-first-segment", first, replayTok(len(first)), "")
		for _, e := range ends {
			add("replay-prefix-at-segment-boundary", stream[:e], replayTok(e), fmt.Sprint(e))
		}
		for _, e := range []int{72, 73, len(first) - 1, len(first) + 1} {
			if e >= 72 && e <= len(stream) {
				add("replay-arbitrary-prefix", stream[:e], replayTok(e), fmt.Sprint(e))
			}
		}
		for len(ps) < n {
			switch r.Intn(4) {
			case 0:
				add("replay-whole-stream", stream, replayTok(len(stream)), "")
			case 1:
				add("replay-first-segment", first, replayTok(len(first)), "")
			case 2:
				e := ends[r.Intn(len(ends))]
				add("replay-prefix-at-segment-boundary", stream[:e], replayTok(e), fmt.Sprint(e))
			case 3:
				e := 72 + r.Intn(len(stream)-72+1)
				add("replay-arbitrary-prefix", stream[:e], replayTok(e), fmt.Sprint(e))
			}
		}
		return ps
	}
	// ---- deterministic boundaries, every run ----
	for _, ln := range tcpBoundaryLens {
		b := make([]byte, ln)
		r.Read(b)
		add("random", b, tcpNoKey(ln, false), fmt.Sprint(ln))
	}
	for _, e := range []int{0, 1, 24, 71} {
		add("genuine-prefix-short", first[:e], tcpNoKey(e, false), fmt.Sprint(e))
	}
	for _, e := range []int{72, 73, len(first) - 1, len(first), len(first) + 1} {
		if e <= len(stream) {
			add("genuine-prefix-replay", stream[:e], replayTok(e), fmt.Sprint(e))
		}
	}
	for _, pos := range []int{0, 15, 16, 19, 20, 23, 24, 55, 56, 71, 72, len(first) - 1} {
		if pos < len(first) {
			bitflip(pos, uint(r.Intn(8)))
		}
	}
	{
		b := buildOpenTCP(r, hashedOf("alice", "alice-secret"), openOpts{Payload: 100, Pad: 20, HintUser: "alice"})
		for _, cut := range []int{71, 72, 73, 72 + 115, 72 + 116, len(b.Data) - 1} {
			fb := buildOpenTCP(r, hashedOf("alice", "alice-secret"), openOpts{Payload: 100, Pad: 20, HintUser: "alice"})
			freshTrunc(cut, fb)
		}
		_ = b
	}
	add("wrong-password", wireHandshake(r, "alice", "not-the-password", "alice"), tcpNoKey(72, false), "")
	add("unknown-user", wireHandshake(r, "mallory", "mallory-secret", "mallory"), tcpNoKey(72, false), "")
	add("forged-hint", wireHandshake(r, "mallory", "mallory-secret", "alice"), tcpNoKey(72, false), "")
	add("forged-hint", wireHandshake(r, "mallory", "mallory-secret", "bob"), tcpNoKey(72, false), "")
	add("name-only-user", wireHandshake(r, "nopass", "", "nopass"), tcpNoKey(72, false), "")
	// ---- random stream ----
	for len(ps) < n {
		switch r.Intn(11) {
		case 0: // random bytes, every length class
			ln := r.Intn(2001)
			b := make([]byte, ln)
			r.Read(b)
			add("random", b, tcpNoKey(ln, false), fmt.Sprint(ln))
		case 1: // strict prefix of the genuine first segment shorter than a header
			e := r.Intn(72)
			add("genuine-prefix-short", first[:e], tcpNoKey(e, false), fmt.Sprint(e))
		case 2: // prefix ≥ 72 bytes of a genuine (already seen) stream: a replay
			e := 72 + r.Intn(len(stream)-72+1)
			add("genuine-prefix-replay", stream[:e], replayTok(e), fmt.Sprint(e))
		case 3, 4: // single-bit flip of the genuine first segment
			pos := r.Intn(len(first))
			if r.Intn(2) == 0 {
				pos = r.Intn(72)
			}
			bitflip(pos, uint(r.Intn(8)))
		case 5: // well-formed handshake under a wrong password
			add("wrong-password", wireHandshake(r, "alice", "not-the-password", "alice"), tcpNoKey(72, false), "")
		case 6: // well-formed handshake of an unregistered user
			add("unknown-user", wireHandshake(r, "mallory", "mallory-secret", "mallory"), tcpNoKey(72, false), "")
		case 7: // unregistered credential, hint forged for a real user
			add("forged-hint", wireHandshake(r, "mallory", "mallory-secret", "alice"), tcpNoKey(72, false), "")
		case 10: // a user record without any password is registered: its name alone is not a credential
			add("name-only-user", wireHandshake(r, "nopass", "", "nopass"), tcpNoKey(72, false), "")
		case 9: // strict prefix of a genuine first segment the server has NEVER seen in full
			// (an on-path attacker truncates the handshake): nothing may be created or answered
			b := buildOpenTCP(r, hashedOf("alice", "alice-secret"), openOpts{Payload: -1, Pad: -1, HintUser: "alice"})
			cut := r.Intn(len(b.Data))
			if r.Intn(2) == 0 {
				cut = len(b.Data) - 1 - r.Intn(8) // inside the trailing padding
			}
			freshTrunc(cut, b)
		case 8: // truncated well-formed handshake under a foreign credential
			b := wireHandshake(r, "mallory", "x", "bob")
			cut := r.Intn(len(b))
			add("foreign-truncated", b[:cut], tcpNoKey(cut, false), fmt.Sprint(cut))
		}
	}
	return ps
}

func genProbesUDP(r *rand.Rand, dgrams []sim.DecodedDatagram, n int, stage string) []probe {
	var ps []probe
	add := func(class string, data []byte, tok udpTok, note string) {
		ps = append(ps, probe{Class: class, Data: core.Hex(data), Model: tok.String(), Note: note})
	}
	pick := func() sim.DecodedDatagram { return dgrams[r.Intn(len(dgrams))] }
	replayTok := func(d sim.DecodedDatagram, n int) udpTok { return udpTokOfSeg(d.Seg.Meta, aliceID, n, true) }
	bitflip := func(d sim.DecodedDatagram, pos int, bit uint) {
		b := append([]byte(nil), d.Data...)
		b[pos] ^= 1 << bit
		var tok udpTok
		switch {
		case pos < 16:
			tok = udpNoKey(len(b))
		case pos < 72:
			tok = udpNoKey(len(b))
			tok.Dup = true
		default:
			tok = replayTok(d, len(b))
		}
		add("genuine-bitflip", b, tok, fmt.Sprint(pos))
	}
	freshTrunc := func(cut int, b built) {
		if cut > len(b.Data) {
			cut = len(b.Data)
		}
		add("fresh-genuine-truncated", b.Data[:cut], udpTokOfSeg(b.Meta, aliceID, cut, false), fmt.Sprintf("%d of %d", cut, len(b.Data)))
	}
	if stage == "C06" {
		// the copy comes from another HOST, or from the original sender's host and another PORT: both are
		// "a different source address" (the cache's tag is ip:port)
		sameHost := func(d sim.DecodedDatagram) {
			host, _, _ := net.SplitHostPort(d.From)
			ps = append(ps, probe{Class: "replay-datagram-same-host-other-port", Data: core.Hex(d.Data), Model: replayTok(d, len(d.Data)).String(), From: host})
		}
		for i, d := range dgrams {
			if len(ps) < n {
				if i%2 == 0 {
					add("replay-datagram-other-source", d.Data, replayTok(d, len(d.Data)), "")
				} else {
					sameHost(d)
				}
			}
		}
		for len(ps) < n {
			d := pick()
			if r.Intn(2) == 0 {
				add("replay-datagram-other-source", d.Data, replayTok(d, len(d.Data)), "")
			} else {
				sameHost(d)
			}
		}
		return ps
	}
	g := dgrams[0]
	for _, ln := range udpBoundaryLens {
		b := make([]byte, ln)
		r.Read(b)
		add("random", b, udpNoKey(ln), fmt.Sprint(ln))
	}
	for _, e := range []int{0, 1, 71, 72, 73, len(g.Data) - 1} {
		if e < len(g.Data) {
			add("genuine-truncated", g.Data[:e], replayTok(g, e), fmt.Sprint(e))
		}
	}
	add("genuine-extended", append(append([]byte(nil), g.Data...), 0), replayTok(g, len(g.Data)+1), "+1")
	for _, pos := range []int{0, 15, 16, 20, 23, 24, 71, 72, len(g.Data) - 1} {
		if pos < len(g.Data) {
			bitflip(g, pos, uint(r.Intn(8)))
		}
	}
	for _, cut := range []int{71, 72, 73, 72 + 115, 72 + 116, 72 + 135} {
		freshTrunc(cut, buildOpenUDP(r, hashedOf("alice", "alice-secret"), openOpts{Payload: 100, Pad: 20, HintUser: "alice"}))
	}
	{
		b := buildOpenUDP(r, hashedOf("alice", "alice-secret"), openOpts{Payload: 100, Pad: 20, HintUser: "alice"})
		t := udpTokOfSeg(b.Meta, aliceID, len(b.Data)+1, false)
		add("fresh-genuine-extended", append(append([]byte(nil), b.Data...), 7), t, "+1")
	}
	add("wrong-password", wireDatagram(r, "alice", "not-the-password", "alice"), udpNoKey(100), "")
	add("unknown-user", wireDatagram(r, "mallory", "mallory-secret", "mallory"), udpNoKey(100), "")
	add("forged-hint", wireDatagram(r, "mallory", "mallory-secret", "bob"), udpNoKey(100), "")
	add("forged-hint", wireDatagram(r, "mallory", "mallory-secret", "alice"), udpNoKey(100), "")
	add("name-only-user", wireDatagram(r, "nopass", "", "nopass"), udpNoKey(100), "")
	add("replay-datagram-other-source", g.Data, replayTok(g, len(g.Data)), "")
	{
		host, _, _ := net.SplitHostPort(g.From)
		ps = append(ps, probe{Class: "replay-datagram-same-host-other-port", Data: core.Hex(g.Data), Model: replayTok(g, len(g.Data)).String(), From: host})
	}
	for len(ps) < n {
		g := pick()
		switch r.Intn(10) {
		case 0:
			ln := r.Intn(1501)
			b := make([]byte, ln)
			r.Read(b)
			add("random", b, udpNoKey(ln), fmt.Sprint(ln))
		case 1:
			e := r.Intn(len(g.Data))
			add("genuine-truncated", g.Data[:e], replayTok(g, e), fmt.Sprint(e))
		case 2, 3:
			pos := r.Intn(len(g.Data))
			if r.Intn(2) == 0 {
				pos = r.Intn(72)
			}
			bitflip(g, pos, uint(r.Intn(8)))
		case 4:
			add("wrong-password", wireDatagram(r, "alice", "not-the-password", "alice"), udpNoKey(100), "")
		case 5:
			add("unknown-user", wireDatagram(r, "mallory", "mallory-secret", "mallory"), udpNoKey(100), "")
		case 6:
			add("forged-hint", wireDatagram(r, "mallory", "mallory-secret", "bob"), udpNoKey(100), "")
		case 7:
			add("replay-datagram-other-source", g.Data, replayTok(g, len(g.Data)), "")
		case 9:
			add("name-only-user", wireDatagram(r, "nopass", "", "nopass"), udpNoKey(100), "")
		case 8: // strict prefix of a genuine first datagram the server has never seen in full
			b := buildOpenUDP(r, hashedOf("alice", "alice-secret"), openOpts{Payload: -1, Pad: -1, HintUser: "alice"})
			cut := r.Intn(len(b.Data))
			if r.Intn(2) == 0 {
				cut = len(b.Data) - 1 - r.Intn(8) // inside the trailing padding
			}
			freshTrunc(cut, b)
		}
	}
	return ps
}

// modelReply is the parsed reply of srv-tcp / srv-udp.
type modelReply struct {
	Out, CloseReq, Accepted, Sessions, Closed, Drain int
	OK                                               bool
	Raw                                              string
}

func parseModelReply(s string) modelReply {
	m := modelReply{Raw: s}
	if !strings.HasPrefix(s, "ok ") {
		return m
	}
	m.OK = true
	for _, f := range strings.Fields(s)[1:] {
		kv := strings.SplitN(f, "=", 2)
		if len(kv) != 2 {
			m.OK = false
			continue
		}
		v := 0
		fmt.Sscanf(kv[1], "%d", &v)
		switch kv[0] {
		case "out":
			m.Out = v
		case "closeReq":
			m.CloseReq = v
		case "accepted":
			m.Accepted = v
		case "sessions":
			m.Sessions = v
		case "closed":
			m.Closed = v
		case "drain":
			m.Drain = v
		case "recv":
		default:
			m.OK = false
		}
	}
	return m
}

func clientDatagrams(w *sim.World) []sim.DecodedDatagram {
	var dgrams []sim.DecodedDatagram
	for _, d := range w.DecodeDatagrams() {
		if d.Err == nil && d.To == "10.8.0.1:8964" {
			dgrams = append(dgrams, d)
		}
	}
	return dgrams
}

func runProbeCase(c *core.Ctx, k probeCase, prop string) {
	pw, err := newProbeWorld(k.Seed, k.UDP)
	if err != nil {
		c.Violate(prop+"/setup", err.Error(), nil)
		return
	}
	defer bgClose.Go(pw.w.Close)
	w := pw.w
	r := rand.New(rand.NewSource(k.Seed))
	// genuine traffic first: it is the raw material and the positive control
	msg := make([]byte, 3000)
	r.Read(msg)
	if !pw.genuine(msg) {
		c.Violate(prop+"/genuine-session-failed", "a genuine session did not echo on the probe world (before any probe)", k)
		return
	}
	time.Sleep(50 * time.Millisecond)
	if k.Stage == "C06" && k.Seed%2 == 0 {
		// half of the replay cases wait until the server no longer holds the recorded session
		// ("after the original connection ended")
		for i := 0; i < 80 && len(w.Server.ExportSessionInfoList().GetItems()) > 0; i++ {
			time.Sleep(100 * time.Millisecond)
		}
		c.Hist("replay_timing", "after-the-original-session-ended")
	} else if k.Stage == "C06" {
		c.Hist("replay_timing", "right-after-the-echo")
	}
	probes := k.Probes
	if probes == nil {
		n := 48
		if k.UDP {
			dgrams := clientDatagrams(w)
			if len(dgrams) == 0 {
				c.Disagree(prop+"/corr/no-genuine-material", "no genuine client datagram captured", k)
				return
			}
			probes = genProbesUDP(r, dgrams, n, k.Stage)
		} else {
			mat := pw.tcpMaterial()
			if len(mat.ends) == 0 {
				c.Disagree(prop+"/corr/no-genuine-material", "no genuine client stream captured", k)
				return
			}
			probes = genProbesTCP(r, mat, n, k.Stage)
		}
		k.Probes = probes
	}
	before := pw.accepts()
	sessionsBefore := len(w.Server.ExportSessionInfoList().GetItems())
	// genuine traffic concurrently with the probes
	genuineOK := make(chan bool, 1)
	go func() { genuineOK <- pw.genuine(msg[:1500]) }()

	type sent struct {
		p     probe
		cap   *simnet.StreamCapture
		conn  *simnet.Conn
		paddr string
	}
	var sents []sent
	w.Net.Lock()
	dgBefore := len(w.Net.Datagrams)
	w.Net.Unlock()
	for _, p := range probes {
		data := core.UnHex(p.Data)
		if k.UDP {
			laddr := ""
			if p.From != "" {
				laddr = p.From + ":0" // the original sender's host, a fresh port
			}
			pc, err := w.Net.ListenPacket(context.Background(), "udp", laddr, "")
			if err != nil {
				continue
			}
			pc.WriteTo(data, &net.UDPAddr{IP: net.IPv4(10, 8, 0, 1), Port: 8964})
			sents = append(sents, sent{p: p, paddr: pc.LocalAddr().String()})
		} else {
			cc, _, err := w.Net.DialPair("10.8.0.1:8964")
			if err != nil {
				continue
			}
			if len(data) > 0 {
				c05WriteSplit(cc, data)
			}
			if p.EOF {
				cc.CloseWrite()
			}
			sents = append(sents, sent{p: p, cap: cc.Capture(), conn: cc})
		}
	}
	ok := <-genuineOK
	time.Sleep(400 * time.Millisecond)
	if !ok {
		c.Violate(prop+"/genuine-session-disturbed", "a genuine session running concurrently with the probes failed", k)
	}
	after := pw.accepts()
	sessionsAfter := len(w.Server.ExportSessionInfoList().GetItems())
	replied := map[string]int{}
	w.Net.Lock()
	for _, d := range w.Net.Datagrams[dgBefore:] {
		if d.From == "10.8.0.1:8964" {
			replied[d.To]++
		}
	}
	w.Net.Unlock()
	modelAccepts := 0
	for _, s := range sents {
		c.Eval(fmt.Sprintf("%s/%v/%s/%s", k.Stage, k.UDP, s.p.Class, s.p.Data), true)
		c.Hist("probe_class", map[bool]string{true: "udp:", false: "tcp:"}[k.UDP]+s.p.Class)
		c.Hist("probe_length", map[bool]string{true: "udp:", false: "tcp:"}[k.UDP]+lenBucket(len(s.p.Data)/2))
		out := 0
		if k.UDP {
			out = replied[s.paddr]
		} else {
			_, s2c, _, _ := s.cap.Snapshot()
			out = len(s2c)
			s.conn.Close()
		}
		single := probeCase{Seed: k.Seed, UDP: k.UDP, Stage: k.Stage, Probes: []probe{s.p}}
		if out > 0 {
			unit := "bytes"
			if k.UDP {
				unit = "datagram(s)"
			}
			c.Violate(fmt.Sprintf("%s/%s/server-replied/%s", prop, map[bool]string{true: "udp", false: "tcp"}[k.UDP], s.p.Class),
				fmt.Sprintf("server sent %d %s to a peer that presented no registered credential / a replay (%s %s)", out, unit, s.p.Class, s.p.Note), single)
		}
		// model prediction for the unit this probe presents
		op := "srv-tcp"
		if k.UDP {
			op = "srv-udp"
		}
		c.Compared()
		m := parseModelReply(c.Model.Ask("%s %s", op, s.p.Model))
		if !m.OK {
			c.Disagree(prop+"/corr/model-reply", fmt.Sprintf("class %s: model %q for %q", s.p.Class, m.Raw, s.p.Model), single)
			continue
		}
		modelAccepts += m.Accepted
		if (m.Out > 0) != (out > 0) || m.Accepted > 0 {
			c.Disagree(prop+"/corr/model-predicts-reaction", fmt.Sprintf("class %s (%s): model %s, server sent %d", s.p.Class, s.p.Model, m.Raw, out), single)
		}
	}
	// one accept for the concurrent genuine session, none for the probes
	if after-before > 1+modelAccepts {
		c.Violate(prop+"/session-created", fmt.Sprintf("%d sessions were handed to the proxy application while only one genuine session ran concurrently with %d credential-less probes", after-before, len(sents)), k)
	}
	if sessionsAfter > sessionsBefore+1 {
		c.Violate(prop+"/session-list-grew", fmt.Sprintf("exported session list grew from %d to %d", sessionsBefore, sessionsAfter), k)
	}
}

func lenBucket(n int) string {
	switch {
	case n == 0:
		return "0"
	case n < 24:
		return "1..23"
	case n < 48:
		return "24..47"
	case n < 72:
		return "48..71"
	case n == 72:
		return "72"
	case n == 73:
		return "73"
	case n <= 1500:
		return "74..1500"
	}
	return ">1500"
}

func init() {
	run := func(prop, stage string) func(c *core.Ctx) {
		return func(c *core.Ctx) {
			n := c.N(6, 60)
			cases := make([]probeCase, n)
			for i := range cases {
				cases[i] = probeCase{Seed: c.Rand.Int63(), UDP: i%2 == 1, Stage: stage}
			}
			core.Parallel(n, 6, func(i int) { runProbeCase(c, cases[i], prop) })
			bgClose.Wait(30 * time.Second)
			c.Sample(map[string]interface{}{"stage": stage, "seed": cases[0].Seed, "udp": cases[0].UDP, "probes_per_case": 48})
		}
	}
	core.Register("C05", &core.Scenario{
		Run: func(c *core.Ctx) {
			c.Res.Rule = "batch stage, per case: a real server with registered users; one genuine echo session first (raw material + positive control) and one concurrently; ≥ 48 probes, each from a fresh connection / source address. EVERY run first sends the boundary set: random bytes of lengths {0,1,23,24,47,48,49,71,72,73,100,1000,2000} (UDP {0,1,47,71,72,73,500,1400,1500}), prefixes of a genuine first segment at {0,1,24,71,72,73,len-1,len,len+1}, single-bit flips at byte {0,15,16,19,20,23,24,55,56,71,72,last}, fresh genuine handshakes (never seen by the server) cut at {71,72,73, inside the payload, inside the tag, inside the padding, last byte} and extended by one byte (UDP), well-formed handshakes under a wrong password / an unregistered user / a forged hint naming each real user / a user record without password; then the random stream of the same classes. Differential stage: see c05_diff.go. Distinct = distinct (stage, transport, class, bytes)."
			c.Correspondence("real server reaction (bytes/datagrams sent to the prober, Accept, session list) vs Mieru.Server.tcpRun / udpRun on the probe's unit tokens")
			run("C05", "C05")(c)
			c05Differential(c)
		},
		Replay: func(c *core.Ctx, raw json.RawMessage) {
			var k probeCase
			if json.Unmarshal(raw, &k) == nil {
				switch k.Stage {
				case "C05-diff":
					c05DiffReplay(c, k)
				case "C05-reload":
					c05ReloadCase(c, reloadCase{Seed: k.Seed, UDP: k.UDP, Stage: k.Stage, Variant: k.Reload})
					bgClose.Wait(30 * time.Second)
				default:
					runProbeCase(c, k, "C05")
				}
			}
		},
	})
	core.RegisterExtra("C06", func(c *core.Ctx) {
		c.Correspondence("protocol level: recorded genuine TCP streams (whole, every prefix at a segment boundary, arbitrary prefixes ≥ 72 bytes, first segment alone) and recorded UDP datagrams re-sent from another source address against the real server, while a fresh genuine session runs, right after the echo and after the original session ended")
		run("C06", "C06")(c)
	})
}
