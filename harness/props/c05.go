package props

import (
	"context"
	"encoding/json"
	"fmt"
	"math/rand"
	"net"
	"strings"
	"sync"
	"time"

	"verifharness/core"
	"verifharness/sim"
	"verifharness/simnet"
	"verifharness/wire"
)

// C05 — no credential: the server stays silent and creates nothing.
// C06 (protocol level) — byte-exact replays of accepted traffic draw no reply and open no session.
//
// A real server (protocol.Mux) runs on the in-memory network with two registered users. Genuine
// sessions run first (and concurrently); their captured client→server bytes / datagrams are the raw
// material of the probes. Every probe is sent from a fresh connection / a fresh source address.
// Oracle: bytes (datagrams) leaving the server for the probing peer = 0, Accept did not fire for it,
// the exported session list did not grow. The Lean first-contact model (Mieru.Model.Server) predicts
// each probe's outcome class from its construction.

type probe struct {
	Class  string `json:"class"`
	Data   string `json:"data"` // hex
	Note   string `json:"note,omitempty"`
	Model  string `json:"model"`         // unit tokens for the Lean model
	Expect bool   `json:"expect_accept"` // positive controls only
}

type probeCase struct {
	Seed   int64   `json:"seed"`
	UDP    bool    `json:"udp"`
	Probes []probe `json:"probes"`
	Stage  string  `json:"stage"`
}

type probeWorld struct {
	w        *sim.World
	accepted chan net.Conn
	stop     chan struct{}
	nAccept  int
	mu       sync.Mutex
}

func newProbeWorld(seed int64, udp bool) (*probeWorld, error) {
	w, err := sim.NewWorld(sim.Config{UDP: udp, Seed: seed, Users: []sim.User{{Name: "alice", Password: "alice-secret"}, {Name: "bob", Password: "bob-secret"}, {Name: "nopass"}}})
	if err != nil {
		return nil, err
	}
	pw := &probeWorld{w: w, accepted: make(chan net.Conn, 1024), stop: make(chan struct{})}
	go func() {
		for {
			conn, err := w.Server.Accept()
			if err != nil {
				return
			}
			pw.mu.Lock()
			pw.nAccept++
			pw.mu.Unlock()
			// echo application
			go func(c net.Conn) {
				buf := make([]byte, 65536)
				for {
					n, err := c.Read(buf)
					if n > 0 {
						c.Write(buf[:n])
					}
					if err != nil {
						return
					}
				}
			}(conn)
		}
	}()
	return pw, nil
}

func (pw *probeWorld) accepts() int {
	pw.mu.Lock()
	defer pw.mu.Unlock()
	return pw.nAccept
}

// genuine runs one genuine echo session and returns true if the echo came back intact.
func (pw *probeWorld) genuine(msg []byte) bool {
	ctx, cancel := context.WithTimeout(context.Background(), 20*time.Second)
	defer cancel()
	conn, err := pw.w.Dial(ctx)
	if err != nil {
		return false
	}
	defer conn.Close()
	if _, err := conn.Write(msg); err != nil {
		return false
	}
	got := make([]byte, 0, len(msg))
	buf := make([]byte, 65536)
	conn.SetReadDeadline(time.Now().Add(20 * time.Second))
	for len(got) < len(msg) {
		n, err := conn.Read(buf)
		got = append(got, buf[:n]...)
		if err != nil {
			break
		}
	}
	return string(got) == string(msg)
}

// firstSegments returns the client→server bytes of the first captured TCP connection and the
// offsets at which its segments end.
func (pw *probeWorld) tcpMaterial() (stream []byte, ends []int) {
	for _, ds := range pw.w.DecodeStreams() {
		if ds.ClientToServer && ds.Err == nil && len(ds.Segs) > 0 {
			pw.w.Net.Lock()
			cp := pw.w.Net.Streams[ds.ConnID]
			pw.w.Net.Unlock()
			c2s, _, _, _ := cp.Snapshot()
			off := 0
			for _, s := range ds.Segs {
				off += s.WireLen
				ends = append(ends, off)
			}
			return c2s, ends
		}
	}
	return nil, nil
}

func genProbesTCP(r *rand.Rand, stream []byte, ends []int, n int, stage string) []probe {
	var ps []probe
	first := stream[:ends[0]]
	silentNoKey := "1/none/0/1/1/unknown"
	add := func(class string, data []byte, model string, note string) {
		ps = append(ps, probe{Class: class, Data: core.Hex(data), Model: model, Note: note})
	}
	for i := 0; i < n; i++ {
		switch stage {
		case "C06":
			switch r.Intn(4) {
			case 0:
				add("replay-whole-stream", stream, "1/0/1/1/1/open-1", "")
			case 1:
				add("replay-first-segment", first, "1/0/1/1/1/open-1", "")
			case 2:
				e := ends[r.Intn(len(ends))]
				add("replay-prefix-at-segment-boundary", stream[:e], "1/0/1/1/1/open-1", fmt.Sprint(e))
			case 3:
				e := 72 + r.Intn(len(stream)-72+1)
				add("replay-arbitrary-prefix", stream[:e], "1/0/1/1/1/open-1", fmt.Sprint(e))
			}
		default:
			switch r.Intn(11) {
			case 0: // random bytes, every length class
				ln := []int{0, 1, 23, 24, 47, 48, 71, 72, 73, 100, 1000, 2000}[r.Intn(12)]
				if r.Intn(2) == 0 {
					ln = r.Intn(2001)
				}
				b := make([]byte, ln)
				r.Read(b)
				m := silentNoKey
				if ln < 72 {
					m = "0/none/0/0/0/unknown"
				}
				add("random", b, m, fmt.Sprint(ln))
			case 1: // strict prefix of the genuine first segment shorter than a header
				e := r.Intn(72)
				add("genuine-prefix-short", first[:e], "0/none/0/0/0/unknown", fmt.Sprint(e))
			case 2: // prefix ≥ 72 bytes of a genuine (already seen) stream: a replay
				e := 72 + r.Intn(len(stream)-72+1)
				add("genuine-prefix-replay", stream[:e], "1/0/1/1/1/open-1", fmt.Sprint(e))
			case 3, 4: // single-bit flip of the genuine first segment
				b := append([]byte(nil), first...)
				pos := r.Intn(len(b))
				if r.Intn(2) == 0 {
					pos = r.Intn(72)
				}
				b[pos] ^= 1 << uint(r.Intn(8))
				m := "1/0/1/1/1/open-1" // same 16-byte signature: replay, whatever else changed
				if pos < 16 {
					m = silentNoKey // new signature, but the nonce changed: nothing opens
				}
				add("genuine-bitflip", b, m, fmt.Sprint(pos))
			case 5: // well-formed handshake under a wrong password
				add("wrong-password", wireHandshake(r, "alice", "not-the-password", "alice"), silentNoKey, "")
			case 6: // well-formed handshake of an unregistered user
				add("unknown-user", wireHandshake(r, "mallory", "mallory-secret", "mallory"), silentNoKey, "")
			case 7: // unregistered credential, hint forged for a real user
				add("forged-hint", wireHandshake(r, "mallory", "mallory-secret", "alice"), silentNoKey, "")
			case 10: // a user record without any password is registered: its name alone is not a credential
				add("name-only-user", wireHandshake(r, "nopass", "", "nopass"), silentNoKey, "")
			case 9: // strict prefix of a genuine first segment the server has NEVER seen in full
				// (an on-path attacker truncates the handshake): nothing may be created or answered
				b := wireHandshake(r, "alice", "alice-secret", "alice")
				cut := r.Intn(len(b))
				if r.Intn(2) == 0 {
					cut = len(b) - 1 - r.Intn(8) // inside the trailing padding
				}
				m := "0/none/0/0/0/unknown"
				if cut >= 72 {
					m = "1/0/0/1/0/open-1" // metadata opens, the body (payload / padding) never completes
				}
				add("fresh-genuine-truncated", b[:cut], m, fmt.Sprint(cut))
			case 8: // truncated well-formed handshake under a foreign credential
				b := wireHandshake(r, "mallory", "x", "bob")
				add("foreign-truncated", b[:r.Intn(len(b))], "", "")
				if len(core.UnHex(ps[len(ps)-1].Data)) < 72 {
					ps[len(ps)-1].Model = "0/none/0/0/0/unknown"
				} else {
					ps[len(ps)-1].Model = silentNoKey
				}
			}
		}
	}
	return ps
}

// wireHandshake builds a well-formed first TCP segment (open session request with payload and
// padding) with the reference codec under the given credential; the hint names hintUser.
func wireHandshake(r *rand.Rand, user, pass, hintUser string) []byte {
	key := wire.KeyForSlot(wire.HashedPassword(user, pass), wire.RoundTo2Min(time.Now().Unix()))
	nonce := make([]byte, 24)
	r.Read(nonce)
	copy(nonce[20:], wire.UserHint(hintUser, nonce))
	enc := &wire.StreamEncoder{Key: key, Nonce: nonce}
	payload := make([]byte, 1+r.Intn(200))
	r.Read(payload)
	pad := make([]byte, 8+r.Intn(64))
	r.Read(pad)
	m := wire.Meta{Proto: wire.OpenSessionRequest, Timestamp: uint32(time.Now().Unix() / 60), SessionID: 1 + r.Uint32()%1000000}
	return enc.Seal(m, payload, nil, pad, 0)
}

func wireDatagram(r *rand.Rand, user, pass, hintUser string) []byte {
	key := wire.KeyForSlot(wire.HashedPassword(user, pass), wire.RoundTo2Min(time.Now().Unix()))
	nonce := make([]byte, 24)
	r.Read(nonce)
	copy(nonce[20:], wire.UserHint(hintUser, nonce))
	payload := make([]byte, 1+r.Intn(200))
	r.Read(payload)
	pad := make([]byte, 8+r.Intn(64))
	r.Read(pad)
	m := wire.Meta{Proto: wire.OpenSessionRequest, Timestamp: uint32(time.Now().Unix() / 60), SessionID: 1 + r.Uint32()%1000000}
	return wire.SealUDP(key, nonce, m, payload, nil, pad, 0)
}

func genProbesUDP(r *rand.Rand, dgrams [][]byte, n int, stage string) []probe {
	var ps []probe
	silent := "1/none/none/0/1/1/unknown"
	add := func(class string, data []byte, model, note string) {
		ps = append(ps, probe{Class: class, Data: core.Hex(data), Model: model, Note: note})
	}
	for i := 0; i < n; i++ {
		g := dgrams[r.Intn(len(dgrams))]
		if stage == "C06" {
			add("replay-datagram-other-source", g, "1/none/0/1/1/1/open-1", "")
			continue
		}
		switch r.Intn(10) {
		case 0:
			ln := []int{0, 1, 47, 71, 72, 73, 500, 1400, 1500}[r.Intn(9)]
			if r.Intn(2) == 0 {
				ln = r.Intn(1501)
			}
			b := make([]byte, ln)
			r.Read(b)
			m := silent
			if ln < 72 {
				m = "0/none/none/0/0/0/unknown"
			}
			add("random", b, m, fmt.Sprint(ln))
		case 1:
			e := r.Intn(len(g))
			m := "1/none/0/1/1/0/open-1" // signature seen from another source
			if e < 72 {
				m = "0/none/none/0/0/0/unknown"
			}
			add("genuine-truncated", g[:e], m, fmt.Sprint(e))
		case 2, 3:
			b := append([]byte(nil), g...)
			pos := r.Intn(len(b))
			if r.Intn(2) == 0 {
				pos = r.Intn(72)
			}
			b[pos] ^= 1 << uint(r.Intn(8))
			m := "1/none/0/1/1/1/open-1"
			if pos < 16 {
				m = silent
			}
			add("genuine-bitflip", b, m, fmt.Sprint(pos))
		case 4:
			add("wrong-password", wireDatagram(r, "alice", "not-the-password", "alice"), silent, "")
		case 5:
			add("unknown-user", wireDatagram(r, "mallory", "mallory-secret", "mallory"), silent, "")
		case 6:
			add("forged-hint", wireDatagram(r, "mallory", "mallory-secret", "bob"), silent, "")
		case 7:
			add("replay-datagram-other-source", g, "1/none/0/1/1/1/open-1", "")
		case 9:
			add("name-only-user", wireDatagram(r, "nopass", "", "nopass"), silent, "")
		case 8: // strict prefix of a genuine first datagram the server has never seen in full
			b := wireDatagram(r, "alice", "alice-secret", "alice")
			cut := r.Intn(len(b))
			if r.Intn(2) == 0 {
				cut = len(b) - 1 - r.Intn(8) // inside the trailing padding
			}
			m := "0/none/none/0/0/0/unknown"
			if cut >= 72 {
				m = "1/none/0/0/1/0/open-1" // metadata opens under discovery, exact size checks fail
			}
			add("fresh-genuine-truncated", b[:cut], m, fmt.Sprint(cut))
		}
	}
	return ps
}

func runProbeCase(c *core.Ctx, k probeCase, prop string) {
	pw, err := newProbeWorld(k.Seed, k.UDP)
	if err != nil {
		c.Violate(prop+"/setup", err.Error(), nil)
		return
	}
	defer bgClose.Go(pw.w.Close)
	w := pw.w
	r := rand.New(rand.NewSource(k.Seed))
	// genuine traffic first: it is the raw material and the positive control
	msg := make([]byte, 3000)
	r.Read(msg)
	if !pw.genuine(msg) {
		c.Violate(prop+"/genuine-session-failed", "a genuine session did not echo on the probe world (before any probe)", k)
		return
	}
	time.Sleep(50 * time.Millisecond)
	if k.Stage == "C06" && k.UDP && k.Seed%2 == 0 {
		// half of the UDP replay cases wait until the server no longer holds the recorded session
		// ("after the original connection ended")
		for i := 0; i < 80 && len(w.Server.ExportSessionInfoList().GetItems()) > 0; i++ {
			time.Sleep(100 * time.Millisecond)
		}
	}
	probes := k.Probes
	if probes == nil {
		n := 40
		if k.UDP {
			var dgrams [][]byte
			for _, d := range w.DecodeDatagrams() {
				if d.Err == nil && d.To == "10.8.0.1:8964" {
					dgrams = append(dgrams, d.Data)
				}
			}
			if len(dgrams) == 0 {
				c.Disagree(prop+"/corr/no-genuine-material", "no genuine client datagram captured", k)
				return
			}
			probes = genProbesUDP(r, dgrams, n, k.Stage)
		} else {
			stream, ends := pw.tcpMaterial()
			if len(ends) == 0 {
				c.Disagree(prop+"/corr/no-genuine-material", "no genuine client stream captured", k)
				return
			}
			probes = genProbesTCP(r, stream, ends, n, k.Stage)
		}
		k.Probes = probes
	}
	before := pw.accepts()
	sessionsBefore := len(w.Server.ExportSessionInfoList().GetItems())
	// genuine traffic concurrently with the probes
	genuineOK := make(chan bool, 1)
	go func() { genuineOK <- pw.genuine(msg[:1500]) }()

	type sent struct {
		p     probe
		cap   *simnet.StreamCapture
		conn  *simnet.Conn
		paddr string
	}
	var sents []sent
	w.Net.Lock()
	dgBefore := len(w.Net.Datagrams)
	w.Net.Unlock()
	for _, p := range probes {
		data := core.UnHex(p.Data)
		if k.UDP {
			pc, err := w.Net.ListenPacket(context.Background(), "udp", "", "")
			if err != nil {
				continue
			}
			pc.WriteTo(data, &net.UDPAddr{IP: net.IPv4(10, 8, 0, 1), Port: 8964})
			sents = append(sents, sent{p: p, paddr: pc.LocalAddr().String()})
		} else {
			cc, _, err := w.Net.DialPair("10.8.0.1:8964")
			if err != nil {
				continue
			}
			if len(data) > 0 {
				cc.Write(data)
			}
			sents = append(sents, sent{p: p, cap: cc.Capture(), conn: cc})
		}
	}
	ok := <-genuineOK
	time.Sleep(400 * time.Millisecond)
	if !ok {
		c.Violate(prop+"/genuine-session-disturbed", "a genuine session running concurrently with the probes failed", k)
	}
	after := pw.accepts()
	sessionsAfter := len(w.Server.ExportSessionInfoList().GetItems())
	replied := map[string]int{}
	w.Net.Lock()
	for _, d := range w.Net.Datagrams[dgBefore:] {
		if d.From == "10.8.0.1:8964" {
			replied[d.To]++
		}
	}
	w.Net.Unlock()
	for _, s := range sents {
		c.Eval(fmt.Sprintf("%s/%v/%s/%s", k.Stage, k.UDP, s.p.Class, s.p.Data), true)
		c.Hist("probe_class", map[bool]string{true: "udp:", false: "tcp:"}[k.UDP]+s.p.Class)
		out := 0
		if k.UDP {
			out = replied[s.paddr]
		} else {
			_, s2c, _, _ := s.cap.Snapshot()
			out = len(s2c)
			s.conn.Close()
		}
		single := probeCase{Seed: k.Seed, UDP: k.UDP, Stage: k.Stage, Probes: []probe{s.p}}
		if out > 0 {
			unit := "bytes"
			if k.UDP {
				unit = "datagram(s)"
			}
			c.Violate(fmt.Sprintf("%s/%s/server-replied/%s", prop, map[bool]string{true: "udp", false: "tcp"}[k.UDP], s.p.Class),
				fmt.Sprintf("server sent %d %s to a peer that presented no registered credential / a replay (%s %s)", out, unit, s.p.Class, s.p.Note), single)
		}
		// model prediction
		op := "srv-tcp"
		if k.UDP {
			op = "srv-udp"
		}
		c.Compared()
		reply := c.Model.Ask("%s %s", op, s.p.Model)
		if !strings.HasPrefix(reply, "ok out=0 accepted=0 sessions=0") {
			c.Disagree(prop+"/corr/model-predicts-reaction", fmt.Sprintf("class %s: model %s", s.p.Class, reply), single)
		}
	}
	// one accept for the concurrent genuine session, none for the probes
	if after-before > 1 {
		c.Violate(prop+"/session-created", fmt.Sprintf("%d sessions were handed to the proxy application while only one genuine session ran concurrently with %d credential-less probes", after-before, len(sents)), k)
	}
	if sessionsAfter > sessionsBefore+1 {
		c.Violate(prop+"/session-list-grew", fmt.Sprintf("exported session list grew from %d to %d", sessionsBefore, sessionsAfter), k)
	}
	// positive control through the model: a genuine handshake is predicted to be accepted
	c.Compared()
	if reply := c.Model.Ask("srv-tcp 1/0/0/1/1/open-7"); reply != "ok out=1 accepted=1 sessions=1 closed=0" {
		c.Disagree(prop+"/corr/model-positive-control", reply, nil)
	}
}

func init() {
	run := func(prop, stage string) func(c *core.Ctx) {
		return func(c *core.Ctx) {
			n := c.N(6, 60)
			cases := make([]probeCase, n)
			for i := range cases {
				cases[i] = probeCase{Seed: c.Rand.Int63(), UDP: i%2 == 1, Stage: stage}
			}
			core.Parallel(n, 6, func(i int) { runProbeCase(c, cases[i], prop) })
			bgClose.Wait(30 * time.Second)
			c.Sample(map[string]interface{}{"stage": stage, "seed": cases[0].Seed, "udp": cases[0].UDP, "probes_per_case": 40})
		}
	}
	core.Register("C05", &core.Scenario{
		Run: func(c *core.Ctx) {
			c.Res.Rule = "per case: a real server with two registered users; one genuine echo session first (raw material + positive control) and one concurrently; 40 probes, each from a fresh connection / source address: random bytes of lengths {0,1,23,24,47,48,71,72,73,100,1000,2000} and random lengths, strict prefixes of a genuine first segment, prefixes ≥ 72 bytes of the genuine stream, single-bit flips anywhere in the genuine first segment (half of them inside nonce+metadata), well-formed handshakes built by the reference codec under a wrong password / an unregistered user / an unregistered credential with a hint forged for a real user, truncations of those; TCP and UDP alternate. Distinct = distinct (transport, class, bytes)."
			c.Correspondence("real server reaction (bytes/datagrams sent to the prober, Accept, session list) vs Mieru.Server.tcpRun / udpRun on the probe's abstract class")
			run("C05", "C05")(c)
		},
		Replay: func(c *core.Ctx, raw json.RawMessage) {
			var k probeCase
			if json.Unmarshal(raw, &k) == nil {
				runProbeCase(c, k, "C05")
			}
		},
	})
	core.RegisterExtra("C06", func(c *core.Ctx) {
		c.Correspondence("protocol level: recorded genuine TCP streams (whole, every prefix at a segment boundary, arbitrary prefixes ≥ 72 bytes, first segment alone) and recorded UDP datagrams re-sent from another source address against the real server, while a fresh genuine session runs")
		run("C06", "C06")(c)
	})
}
