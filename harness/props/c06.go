package props

import (
	"github.com/enfein/mieru/v3/pkg/protocol"
	"verifharness/core"
)

func init() {
	core.AddConsts(protocol.VerifConstsC06)
	core.Register("C06", &core.Scenario{Run: func(c *core.Ctx) {}})
}
