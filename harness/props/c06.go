package props

import (
	"bytes"
	"crypto/sha256"
	"encoding/binary"
	"encoding/json"
	"fmt"
	"hash/fnv"
	"os"
	"path/filepath"
	"sort"
	"strings"
	"sync"
	"sync/atomic"
	"time"

	"github.com/enfein/mieru/v3/pkg/cipher"
	"github.com/enfein/mieru/v3/pkg/protocol"
	"github.com/enfein/mieru/v3/pkg/replay"
	"verifharness/core"
)

// C06 — replay cache part and window arithmetic.
//
// Correspondence: operation histories on the real replay.ReplayCache (exported API: NewCache,
// IsDuplicate, Sizes, Clear) against Mieru.Model.Replay, the model being fed the instants the harness
// measured around each call.  Size-driven histories use a 1 h interval (fully deterministic);
// time-driven histories use a short interval and keep every call ≥ 50 ms away from the two deadlines
// the code compares its clock against (rotation deadline, full-expiry deadline); cases that land
// inside the margin are discarded and counted.
//
// Direct oracle (independent of the model): an ideal record of all calls. (1) a positive answer
// must have an earlier call with the same signature and a conflicting tag; (2) a call whose
// signature was presented at most `interval` earlier with fewer than `capacity` distinct other
// signatures in between must be answered by the tag rule AGAINST THE OWNER — the first presentation
// of the unbroken chain of in-bounds presentations (replay_no_miss_owner_tag, replay_owner_chain): a
// foreign presenter is reported however often it retries, the owner's retransmissions never are;
// (3) a same-source retransmission (all earlier tags equal to the present non-empty tag) is never
// reported.
//
// Window arithmetic: the ±1 minute metadata timestamp rule (real Unmarshal) and the three key slots
// (real saltFromTime) against the model's tsAccept / roundTo, plus the disjointness of the slot
// sets of two instants ≥ 3 refresh intervals apart.
//
// TODO(integrator, needs the in-memory network): protocol-level part of C06 — record genuine TCP
// connections / UDP datagrams, replay whole stream / every prefix ending at a segment boundary /
// first segment alone / datagrams from another source address, before and after the original
// ended and concurrently with fresh connections; oracle: zero bytes from the server to the replayer
// and no Accept. Nothing of that is built here.

type c06Op struct {
	Data  string  `json:"data"`           // hex
	Tag   string  `json:"tag"`            // hex, "-" = EmptyTag
	At    string  `json:"at,omitempty"`   // "" (immediately) | "pre" | "post" | "expired" (relative to the rotation deadline) | "gap" (pause of Frac × interval)
	Frac  float64 `json:"frac,omitempty"` // position inside the chosen span
	Clear bool    `json:"clear,omitempty"`
}

type c06Case struct {
	Kind       string  `json:"kind"` // "cache" | "ts" | "salt" | "nil"
	Cap        int     `json:"cap,omitempty"`
	IntervalMs int     `json:"interval_ms,omitempty"`
	Ops        []c06Op `json:"ops,omitempty"`
	// ts: metadata kind and minute offset; salt: two instants (ns of Unix time)
	MetaKind int   `json:"meta_kind,omitempty"`
	Delta    int   `json:"delta,omitempty"`
	Ts1      int64 `json:"ts1,omitempty"`
	Ts2      int64 `json:"ts2,omitempty"`
}

const c06Margin = 50 * time.Millisecond

var c06ID atomic.Int64

type c06Rec struct {
	sig           uint64
	tag           string
	before, after time.Duration
}

// c06Chain is what the ideal record knows about one signature: who presented it first (the owner)
// and which other tags presented it since, as long as every presentation was inside the bounds.
type c06Chain struct {
	owner     string
	known     bool
	presented map[string]bool
}

func c06Sig(data []byte) uint64 {
	h := fnv.New64a()
	h.Write(data)
	return h.Sum64()
}

func c06Conflict(stored, tag string) bool { return stored == "" || tag == "" || stored != tag }

// c06RunCache runs one history on a fresh real cache and on the model. Returns false if the case
// was discarded (an operation landed inside the timing margin).
func c06RunCache(c *core.Ctx, k c06Case) bool {
	iv := time.Duration(k.IntervalMs) * time.Millisecond
	id := c06ID.Add(1)
	b0 := time.Now()
	cache := replay.NewCache(k.Cap, iv)
	if time.Since(b0) > 5*time.Millisecond {
		return false
	}
	if r := c.Model.Ask("replay-new %d %d %d 0", id, k.Cap, iv.Nanoseconds()); r != "ok" {
		c.Disagree("C06/corr/replay-new", "model: "+r, k)
		return true
	}
	defer c.Model.Ask("replay-drop %d", id)
	exp := iv // model's expireTime, relative to b0
	var hist []c06Rec
	chains := map[uint64]*c06Chain{}
	trace := []string{}
	// the same history for the REGENERATED IsDuplicate (mieru-gen, tools/goextract/replaytrans.go)
	var genCalls []string
	genAns, genOK := "", true
	lastCur, lastPrev := 0, 0
	for i, op := range k.Ops {
		if op.Clear {
			genOK = false // Clear is not part of the translated function
			cache.Clear()
			if r := c.Model.Ask("replay-clear %d", id); r != "ok" {
				c.Disagree("C06/corr/replay-clear", "model: "+r, k)
			}
			hist = nil
			chains = map[uint64]*c06Chain{}
			trace = append(trace, "clear")
			continue
		}
		// place the call
		now := time.Since(b0)
		var target time.Duration
		switch op.At {
		case "pre":
			lo, hi := now, exp-c06Margin-10*time.Millisecond
			if hi > lo {
				target = lo + time.Duration(op.Frac*float64(hi-lo))
			}
		case "post":
			lo, hi := exp+c06Margin+10*time.Millisecond, exp+iv-c06Margin-10*time.Millisecond
			if lo < now {
				lo = now
			}
			if hi > lo {
				target = lo + time.Duration(op.Frac*float64(hi-lo))
			}
		case "gap": // a pause of Frac × interval after the previous call
			target = now + time.Duration(op.Frac*float64(iv))
		case "expired":
			lo := exp + iv + c06Margin + 10*time.Millisecond
			if lo < now {
				lo = now
			}
			target = lo + time.Duration(op.Frac*float64(150*time.Millisecond))
		}
		if target > now {
			time.Sleep(target - now)
		}
		// step out of the margin around the two deadlines if we happen to be inside
		for _, b := range []time.Duration{exp, exp + iv} {
			if d := time.Since(b0) - b; d > -c06Margin-5*time.Millisecond && d < c06Margin+5*time.Millisecond {
				time.Sleep(c06Margin + 10*time.Millisecond - d)
			}
		}
		data, tag := core.UnHex(op.Data), string(core.UnHex(op.Tag))
		before := time.Since(b0)
		got := cache.IsDuplicate(data, tag)
		after := time.Since(b0)
		cur, prev := cache.Sizes()
		if after-before > 5*time.Millisecond {
			return false
		}
		for _, b := range []time.Duration{exp, exp + iv} {
			if before-c06Margin < b && b < after+c06Margin {
				return false
			}
		}
		// --- correspondence
		m := c.Model.Ask("replay-dup %d %s %s %d", id, core.Hex(data), core.Hex([]byte(tag)), before.Nanoseconds())
		c.Compared()
		f := strings.Fields(m)
		if len(f) != 7 || f[0] != "ok" {
			c.Disagree("C06/corr/replay-dup", "model: "+m, k)
			return true
		}
		genCalls = append(genCalls, fmt.Sprintf("%s:%s:%d", core.Hex(data), core.Hex([]byte(tag)), before.Nanoseconds()))
		genAns += map[bool]string{true: "1", false: "0"}[got]
		lastCur, lastPrev = cur, prev
		trace = append(trace, fmt.Sprintf("%v/%s/%s", got, f[5], f[6]))
		c.Hist("rotation", f[5])
		c.Hist("found_in", f[6])
		c.Hist("answer", fmt.Sprint(got))
		if fmt.Sprint(got) != f[1] || fmt.Sprint(cur) != f[2] || fmt.Sprint(prev) != f[3] {
			c.Disagree("C06/corr/replay-dup", fmt.Sprintf("op %d: impl answer=%v sizes=(%d,%d); model %s", i, got, cur, prev, m), k)
		}
		var e int64
		fmt.Sscan(f[4], &e)
		exp = time.Duration(e)
		// --- direct oracle against the ideal record
		sig := c06Sig(data)
		if k.Cap == 0 {
			if got {
				c.Violate("C06/cache/disabled-cache-reports", "IsDuplicate returned true on a cache with capacity 0", k)
			}
			continue
		}
		var sameSig []c06Rec
		for _, h := range hist {
			if h.sig == sig {
				sameSig = append(sameSig, h)
			}
		}
		anyConflict, allConflict := false, true
		for _, h := range sameSig {
			if c06Conflict(h.tag, tag) {
				anyConflict = true
			} else {
				allConflict = false
			}
		}
		rel := "first-seen"
		if len(sameSig) > 0 {
			switch {
			case tag == "":
				rel = "seen/empty-tag"
			case anyConflict && allConflict:
				rel = "seen/other-tag"
			case !anyConflict:
				rel = "seen/same-tag"
			default:
				rel = "seen/mixed-tags"
			}
		}
		c.Hist("tag_relation", rel)
		if got && !anyConflict {
			what := "never-seen signature reported as a replay"
			key := "C06/cache/false-positive/never-seen"
			if len(sameSig) > 0 {
				what, key = "retransmission with the same non-empty tag reported as a replay", "C06/cache/false-positive/same-tag"
			}
			c.Violate(key, fmt.Sprintf("op %d: %s", i, what), k)
		}
		// no miss: latest earlier presentation inside the bounds. The expected answer is the tag rule
		// against the OWNER: the first presentation of the unbroken chain of in-bounds presentations
		// (theorems replay_no_miss_owner_tag / replay_owner_chain). The owner is known to this ideal
		// record when the chain started at the first presentation since the cache was created/cleared.
		ch := chains[sig]
		if len(sameSig) == 0 {
			chains[sig] = &c06Chain{owner: tag, known: true, presented: map[string]bool{}}
		} else {
			last := -1
			for j := len(hist) - 1; j >= 0; j-- {
				if hist[j].sig == sig {
					last = j
					break
				}
			}
			others := map[uint64]bool{}
			for _, h := range hist[last+1:] {
				others[h.sig] = true
			}
			inTime := after-hist[last].before <= iv-c06Margin
			if inTime && len(others) < k.Cap {
				c.Hist("no_miss_bound", "inside")
				want, determined := false, false
				if ch.known {
					want, determined = c06Conflict(ch.owner, tag), true
					switch {
					case tag == ch.owner:
						c.Hist("owner_chain", "owner-presents-again")
					case ch.presented[tag]:
						c.Hist("owner_chain", "foreign-tag-retries/after="+f[6])
					default:
						c.Hist("owner_chain", "foreign-tag-first-attempt/after="+f[6])
					}
				} else {
					c.Hist("owner_chain", "owner-unknown")
					if allConflict {
						want, determined = true, true
					} else if !anyConflict {
						want, determined = false, true
					}
				}
				if determined && got != want {
					key := "C06/cache/miss/rotation=" + f[5]
					if !want {
						key = "C06/cache/tag-rule/rotation=" + f[5]
					}
					if ch.known && want && ch.presented[tag] {
						// a foreign presenter retried and passed: its earlier attempt replaced the owner's tag
						key = "C06/cache/miss/owner-tag-overwritten-after-rotation"
					} else if ch.known && !want && len(ch.presented) > 0 {
						key = "C06/cache/tag-rule/owner-reported-after-foreign-presentation"
					}
					owner := "unknown"
					if ch.known {
						owner = fmt.Sprintf("%q", ch.owner)
					}
					c.Violate(key, fmt.Sprintf("op %d: signature presented %v earlier with %d distinct other signatures in between (capacity %d, interval %v), owner tag %s, present tag %q: answer %v, want %v", i, after-hist[last].before, len(others), k.Cap, iv, owner, tag, got, want), k)
				}
			} else {
				c.Hist("no_miss_bound", "outside")
				ch.known = false // the entry may or may not have been dropped: the owner is undetermined from here on
			}
			if tag != ch.owner || !ch.known {
				ch.presented[tag] = true
			}
		}
		hist = append(hist, c06Rec{sig, tag, before, after})
	}
	if genOK && c.Gen != nil && len(genCalls) > 0 {
		c.Compared()
		want := fmt.Sprintf("ok %s cur=%d prev=%d", genAns, lastCur, lastPrev)
		if g := c.Gen.Ask("replaygen %d %d 0 %s", k.Cap, iv.Nanoseconds(), strings.Join(genCalls, " ")); g != want {
			c.Disagree("C06/corr/regenerated-isDuplicate", fmt.Sprintf("real cache: %s; regenerated definition: %s", want, g), k)
		}
		c.Hist("regenerated_isDuplicate", "history compared")
	}
	c.Eval(fmt.Sprintf("cache/%d/%d/%s", k.Cap, k.IntervalMs, strings.Join(trace, ",")), true)
	c06Mu.Lock()
	c.Res.TracesValidated++
	c06Mu.Unlock()
	return true
}

var c06Mu sync.Mutex

func c06RunTs(c *core.Ctx, k c06Case) {
	now := time.Now()
	for now.Second() >= 57 || now.Second() < 1 { // stay clear of the minute boundary
		time.Sleep(500 * time.Millisecond)
		now = time.Now()
	}
	minute := uint32(now.Unix()/60 + int64(k.Delta))
	err := protocol.VerifUnmarshalWithTimestamp(k.MetaKind, minute)
	c.Eval(fmt.Sprintf("ts/%d/%d", k.MetaKind, k.Delta), true)
	c.Hist("timestamp_delta_minutes", fmt.Sprint(k.Delta))
	m := c.Model.Ask("replay-ts-accept %d %d", minute, now.UnixNano())
	c.Compared()
	if m != fmt.Sprintf("ok %v", err == nil) {
		c.Disagree("C06/corr/ts-accept", fmt.Sprintf("metadata timestamp %+d min: impl err=%v model %s", k.Delta, err, m), k)
	}
	want := k.Delta >= -1 && k.Delta <= 1
	if (err == nil) != want {
		c.Violate(fmt.Sprintf("C06/window/timestamp-tolerance/delta=%+d", k.Delta), fmt.Sprintf("metadata stamped %+d minutes from the receiver's clock: accepted=%v, want %v", k.Delta, err == nil, want), k)
	}
}

func c06Salts(ts int64) [][]byte { return cipher.VerifC06SaltFromTime(time.Unix(0, ts)) }

func c06RunSalt(c *core.Ctx, k c06Case) {
	I := int64(cipher.KeyRefreshInterval)
	c.Eval(fmt.Sprintf("salt/%d/%d", k.Ts1, k.Ts2), true)
	for _, ts := range []int64{k.Ts1, k.Ts2} {
		salts := c06Salts(ts)
		m := c.Model.Ask("replay-round %d %d", I, ts)
		c.Compared()
		var r int64
		if _, err := fmt.Sscanf(m, "ok %d", &r); err != nil {
			c.Disagree("C06/corr/round", "model: "+m, k)
			return
		}
		var want [][]byte
		for _, d := range []int64{-I, 0, I} {
			b := make([]byte, 8)
			binary.BigEndian.PutUint64(b, uint64((r+d)/1e9))
			s := sha256.Sum256(b)
			want = append(want, s[:])
		}
		ok := len(salts) == len(want)
		for i := 0; ok && i < len(want); i++ {
			ok = bytes.Equal(salts[i], want[i])
		}
		if !ok {
			c.Disagree("C06/corr/key-slots", fmt.Sprintf("saltFromTime(%d ns): %d salts, not those of slots round(t)-I, round(t), round(t)+I with round(t)=%d", ts, len(salts), r), k)
		}
	}
	// direct oracle: two instants at least 240 s apart share no key slot ... is NOT what the code
	// promises (slots span < 3 I); what the window argument needs is: instants ≥ 3 I apart share none.
	d := k.Ts2 - k.Ts1
	if d < 0 {
		d = -d
	}
	a, b := c06Salts(k.Ts1), c06Salts(k.Ts2)
	shared := false
	for _, x := range a {
		for _, y := range b {
			if bytes.Equal(x, y) {
				shared = true
			}
		}
	}
	c.Hist("slot_pair", fmt.Sprintf("apart>=3I:%v shared:%v", d >= 3*I, shared))
	if d >= int64(3*cipher.KeyRefreshInterval) && shared {
		c.Violate("C06/window/key-slots-span", fmt.Sprintf("instants %d ns apart (≥ 3 × KeyRefreshInterval) still share a key slot", d), k)
	}
	consts := protocol.VerifConstsC06()
	si, pi := consts["streamReplayIntervalNs"], consts["packetReplayIntervalNs"]
	if d < 3*I && shared && (d >= si || d >= pi) {
		c.Violate("C06/window/retention-shorter-than-key-window", fmt.Sprintf("two instants %d ns apart share a key slot but the replay caches retain only %d / %d ns", d, si, pi), k)
	}
}

func c06RunNil(c *core.Ctx, k c06Case) {
	var nilCache *replay.ReplayCache
	c.Eval("nil", true)
	if nilCache.IsDuplicate([]byte{1, 2, 3}, "") || nilCache.IsDuplicate([]byte{1, 2, 3}, "") {
		c.Violate("C06/cache/nil-cache-reports", "nil cache reported a duplicate", k)
	}
}

func c06Run(c *core.Ctx, k c06Case) bool {
	switch k.Kind {
	case "cache":
		return c06RunCache(c, k)
	case "ts":
		c06RunTs(c, k)
	case "salt":
		c06RunSalt(c, k)
	case "nil":
		c06RunNil(c, k)
	}
	return true
}

// ---- generators

func c06GenOps(c *core.Ctx, cap int, n int, timed bool) []c06Op {
	// a small universe so that signatures are re-seen across generations
	u := 2 + c.Rand.Intn(3*cap+3)
	items := make([][]byte, u)
	for i := range items {
		l := []int{16, 16, 16, 0, 1, 5, 32}[c.Rand.Intn(7)]
		items[i] = make([]byte, l)
		c.Rand.Read(items[i])
		if l > 0 && c.Rand.Intn(4) == 0 && i > 0 && len(items[i-1]) == l { // near-collisions: differ in one byte
			copy(items[i], items[i-1])
			items[i][c.Rand.Intn(l)] ^= 1
		}
	}
	tags := []string{"", "", "10.0.0.1:5000", "10.0.0.2:5000", "[::1]:7"}
	mode := c.Rand.Intn(4) // 0: only EmptyTag (TCP use), 1: only tagged (UDP use), 2,3: mixed
	var ops []c06Op
	hot := c.Rand.Intn(u)
	for i := 0; i < n; i++ {
		var it int
		switch c.Rand.Intn(5) {
		case 0:
			it = hot // the same item again and again
		case 1:
			it = i % u // sweep: fills generations with distinct signatures
		default:
			it = c.Rand.Intn(u)
		}
		var tag string
		switch mode {
		case 0:
			tag = ""
		case 1:
			tag = tags[2+c.Rand.Intn(3)]
		default:
			tag = tags[c.Rand.Intn(len(tags))]
		}
		op := c06Op{Data: core.Hex(items[it]), Tag: core.Hex([]byte(tag))}
		if timed {
			switch c.Rand.Intn(10) {
			case 0, 1:
				op.At = "pre"
			case 2, 3:
				op.At = "post"
			case 4:
				op.At = "expired"
			case 5:
				op.At = "gap"
			}
			op.Frac = float64(c.Rand.Intn(1000)) / 1000
		}
		if c.Rand.Intn(60) == 0 {
			ops = append(ops, c06Op{Clear: true})
		}
		ops = append(ops, op)
	}
	return ops
}

// c06GenOwner: a fresh signature recorded by an owner, then an unbroken chain of further presentations
// under the owner's tag, foreign tags (each retried several times) and EmptyTag, every link inside the
// bounds (fewer than cap distinct others, short pauses) but with rotations by size (small capacities)
// and by time (timed histories) between and inside the links.
func c06GenOwner(c *core.Ctx, cap int, timed bool, serial int) []c06Op {
	x := core.Hex([]byte{0xa0, byte(serial), byte(serial >> 8), byte(c.Rand.Intn(256))})
	tags := []string{core.Hex([]byte("10.0.0.1:5000")), core.Hex([]byte("10.0.0.2:5000")), core.Hex([]byte("[::1]:7")), "-"}
	owner := tags[c.Rand.Intn(len(tags))]
	if c.Rand.Intn(4) != 0 {
		owner = tags[c.Rand.Intn(3)] // mostly a tagged owner (the UDP use)
	}
	var ops []c06Op
	other := 0
	fill := func(n int, pause float64) {
		for j := 0; j < n; j++ {
			op := c06Op{Data: core.Hex([]byte{0xb0, byte(serial), byte(other), byte(other >> 8)}), Tag: tags[c.Rand.Intn(len(tags))]}
			other++
			if timed && j == 0 && pause > 0 {
				op.At, op.Frac = "gap", pause
			}
			ops = append(ops, op)
		}
	}
	if c.Rand.Intn(2) == 0 {
		fill(c.Rand.Intn(2*cap+1), 0) // earlier traffic: the generations are not empty
	}
	first := c06Op{Data: x, Tag: owner}
	if timed {
		switch c.Rand.Intn(3) {
		case 0:
			first.At, first.Frac = "pre", 1 // just before the rotation deadline
		case 1:
			first.At, first.Frac = "post", 0
		}
	}
	ops = append(ops, first)
	rounds := 3 + c.Rand.Intn(6)
	foreign := tags[c.Rand.Intn(len(tags))]
	for r := 0; r < rounds; r++ {
		n := 0
		if cap > 1 {
			n = c.Rand.Intn(cap) // < cap distinct others in the link
		}
		pause := 0.0
		if timed {
			pause = 0.15 + 0.5*float64(c.Rand.Intn(1000))/1000
		}
		fill(n, pause/2)
		tag := foreign
		switch c.Rand.Intn(6) {
		case 0:
			tag = owner
		case 1:
			foreign = tags[c.Rand.Intn(len(tags))]
			tag = foreign
		}
		op := c06Op{Data: x, Tag: tag}
		if timed {
			op.At, op.Frac = "gap", pause/2
		}
		ops = append(ops, op)
		for rep := c.Rand.Intn(3); rep > 0; rep-- { // immediate retries by the same presenter
			ops = append(ops, c06Op{Data: x, Tag: tag})
		}
	}
	ops = append(ops, c06Op{Data: x, Tag: owner}) // the owner retransmits at the end
	return ops
}

// c06Boundaries: the boundary histories of the property's quantifier, on EVERY run: for each small
// capacity exactly capacity−1 / capacity / capacity+1 distinct other items between the two presentations
// (EmptyTag, and owner A / presenter B), and items of the boundary lengths around the 16 bytes the
// protocol presents.
func c06Boundaries() []c06Case {
	var res []c06Case
	e := "-"
	A, B := core.Hex([]byte("10.0.0.1:1")), core.Hex([]byte("10.0.0.2:2"))
	for cap := 1; cap <= 6; cap++ {
		for _, others := range []int{cap - 1, cap, cap + 1, 2*cap - 1, 2 * cap, 2*cap + 1} {
			for _, tags := range [][2]string{{e, e}, {A, B}, {A, A}} {
				ops := []c06Op{{Data: core.Hex([]byte{0xe0, byte(cap)}), Tag: tags[0]}}
				for j := 0; j < others; j++ {
					ops = append(ops, c06Op{Data: core.Hex([]byte{0xd0, byte(j)}), Tag: e})
				}
				ops = append(ops, c06Op{Data: core.Hex([]byte{0xe0, byte(cap)}), Tag: tags[1]}, c06Op{Data: core.Hex([]byte{0xe0, byte(cap)}), Tag: tags[1]})
				res = append(res, c06Case{Kind: "cache", Cap: cap, IntervalMs: 3600000, Ops: ops})
			}
		}
	}
	for _, ln := range []int{0, 1, 15, 16, 17, 32} {
		x, y := make([]byte, ln), make([]byte, ln)
		for i := range x {
			x[i], y[i] = byte(i+1), byte(i+1)
		}
		if ln > 0 {
			y[ln-1] ^= 1
		}
		res = append(res, c06Case{Kind: "cache", Cap: 4, IntervalMs: 3600000, Ops: []c06Op{{Data: core.Hex(x), Tag: e}, {Data: core.Hex(y), Tag: e}, {Data: core.Hex(x), Tag: e}, {Data: core.Hex(y), Tag: A}}})
	}
	return res
}

func c06Fixed() []c06Case {
	h := func(b ...byte) string { return core.Hex(b) }
	e := "-"
	A, B := core.Hex([]byte("A")), core.Hex([]byte("B"))
	return []c06Case{
		// exactly capacity-1 others in between, rotation by size in between: must still be found
		{Kind: "cache", Cap: 3, IntervalMs: 3600000, Ops: []c06Op{{Data: h(1), Tag: e}, {Data: h(2), Tag: e}, {Data: h(3), Tag: e}, {Data: h(1), Tag: e}}},
		// capacity others in between: outside the bound (either answer is allowed; model must agree)
		{Kind: "cache", Cap: 2, IntervalMs: 3600000, Ops: []c06Op{{Data: h(7), Tag: e}, {Data: h(8), Tag: e}, {Data: h(9), Tag: e}, {Data: h(10), Tag: e}, {Data: h(11), Tag: e}, {Data: h(7), Tag: e}}},
		// re-seen old signature re-occupies the new generation
		{Kind: "cache", Cap: 2, IntervalMs: 3600000, Ops: []c06Op{{Data: h(1), Tag: e}, {Data: h(2), Tag: e}, {Data: h(1), Tag: e}, {Data: h(3), Tag: e}, {Data: h(1), Tag: e}, {Data: h(2), Tag: e}}},
		// tags: stored tag is the inserting call's, not the latest
		{Kind: "cache", Cap: 4, IntervalMs: 3600000, Ops: []c06Op{{Data: h(7), Tag: A}, {Data: h(7), Tag: B}, {Data: h(7), Tag: B}, {Data: h(7), Tag: A}, {Data: h(7), Tag: e}}},
		// capacity 1: every insertion rotates
		{Kind: "cache", Cap: 1, IntervalMs: 3600000, Ops: []c06Op{{Data: h(1), Tag: e}, {Data: h(1), Tag: e}, {Data: h(2), Tag: e}, {Data: h(1), Tag: e}, {Data: h(1), Tag: A}, {Data: h(1), Tag: A}}},
		// capacity 0: disabled
		{Kind: "cache", Cap: 0, IntervalMs: 3600000, Ops: []c06Op{{Data: h(1), Tag: e}, {Data: h(1), Tag: e}}},
		// time: rotation by time, both, full expiry
		{Kind: "cache", Cap: 2, IntervalMs: 300, Ops: []c06Op{{Data: h(1), Tag: e}, {Data: h(1), Tag: e, At: "post", Frac: 0.5}, {Data: h(2), Tag: e}, {Data: h(3), Tag: e, At: "post", Frac: 0.2}, {Data: h(1), Tag: e}, {Data: h(1), Tag: e, At: "expired", Frac: 0.1}, {Data: h(1), Tag: e}}},
		{Kind: "nil"},
	}
}

func init() {
	core.AddConsts(protocol.VerifConstsC06)
	core.Register("C06", &core.Scenario{
		Run: func(c *core.Ctx) {
			c.Res.Rule = "cache histories: (capacity 0..16, universe of 2..3·cap+4 items incl. near-collisions, tags EmptyTag-only / tagged-only / mixed, hot item + sweep + uniform picks, occasional Clear); size-driven with a 1 h interval, time-driven with a 300 ms interval and calls placed before the rotation deadline / after it / after full expiry, ≥ 50 ms from both deadlines. Distinct = distinct (capacity, interval, per-call (answer, rotation branch, generation found in)) traces. Window: every metadata kind × minute offset −3..+3; instants pairs around slot boundaries for the three key slots."
			c.Correspondence("replay-dup/replay-clear/replay-sizes: pkg/replay ReplayCache (exported API) vs Mieru.Model.Replay with measured instants")
			c.Correspondence("replay-ts-accept: pkg/protocol metadata Unmarshal timestamp rule vs Mieru.Replay.tsAccept")
			c.Correspondence("replay-round: pkg/cipher saltFromTime vs Mieru.Replay.roundTo / keyAccept")
			c.Note("protocol-level replays of recorded TCP connections / UDP datagrams run in the extra stage registered by c05.go")
			var cases []c06Case
			// corpus first
			if files, _ := filepath.Glob(filepath.Join(c.Corpus, "*.json")); len(files) > 0 {
				sort.Strings(files)
				for _, f := range files {
					raw, err := os.ReadFile(f)
					var k c06Case
					if err == nil && json.Unmarshal(raw, &k) == nil && k.Kind != "" {
						cases = append(cases, k)
					} else {
						var w struct {
							Input c06Case `json:"input"`
						}
						if err == nil && json.Unmarshal(raw, &w) == nil && w.Input.Kind != "" {
							cases = append(cases, w.Input)
						}
					}
				}
				c.Note("corpus cases: %d", len(cases))
			}
			cases = append(cases, c06Fixed()...)
			bs := c06Boundaries()
			cases = append(cases, bs...)
			c.Hist("boundary_histories", fmt.Sprintf("capacities 1..6 × others {cap-1,cap,cap+1,2cap-1,2cap,2cap+1} × tags {empty, A then B, A then A}; item lengths {0,1,15,16,17,32}: %d", len(bs)))
			// size-driven histories
			for i := 0; i < c.N(600, 8000); i++ {
				cap := []int{1, 1, 2, 2, 3, 3, 4, 5, 8, 16, 0}[c.Rand.Intn(11)]
				n := 5 + c.Rand.Intn(60)
				if cap >= 8 {
					n += 100
				}
				k := c06Case{Kind: "cache", Cap: cap, IntervalMs: 3600000, Ops: c06GenOps(c, cap, n, false)}
				if i == 0 {
					c.Sample(k)
				}
				cases = append(cases, k)
			}
			// owner chains through rotations by size
			for i := 0; i < c.N(300, 4000); i++ {
				cap := []int{1, 2, 2, 3, 3, 4, 6}[c.Rand.Intn(7)]
				cases = append(cases, c06Case{Kind: "cache", Cap: cap, IntervalMs: 3600000, Ops: c06GenOwner(c, cap, false, i)})
			}
			// window arithmetic
			for kind := 0; kind < 2; kind++ {
				for d := -3; d <= 3; d++ {
					cases = append(cases, c06Case{Kind: "ts", MetaKind: kind, Delta: d})
				}
			}
			I := int64(cipher.KeyRefreshInterval)
			base := time.Now().UnixNano()
			for i := 0; i < c.N(300, 4000); i++ {
				t1 := base + c.Rand.Int63n(20*I) - 10*I
				switch c.Rand.Intn(4) {
				case 0: // exactly on a rounding boundary (half interval) ± 1 ns
					t1 = (t1/I)*I + I/2 + int64(c.Rand.Intn(3)) - 1
				case 1: // exactly on a slot instant ± 1 ns
					t1 = (t1/I)*I + int64(c.Rand.Intn(3)) - 1
				}
				var t2 int64
				switch c.Rand.Intn(4) {
				case 0:
					t2 = t1 + 3*I + int64(c.Rand.Intn(3)) - 1
				case 1:
					t2 = t1 + c.Rand.Int63n(3*I)
				case 2:
					t2 = t1 + 2*I + c.Rand.Int63n(2*I)
				default:
					t2 = t1 - c.Rand.Int63n(6*I)
				}
				k := c06Case{Kind: "salt", Ts1: t1, Ts2: t2}
				if i == 0 {
					c.Sample(k)
				}
				cases = append(cases, k)
			}
			for _, k := range cases {
				if !c06Run(c, k) {
					c.Res.Discarded++
				}
			}
			// time-driven histories, run concurrently (each sleeps most of the time)
			var timed []c06Case
			for i := 0; i < c.N(48, 480); i++ {
				cap := []int{1, 2, 2, 3, 4, 6}[c.Rand.Intn(6)]
				k := c06Case{Kind: "cache", Cap: cap, IntervalMs: 300, Ops: c06GenOps(c, cap, 6+c.Rand.Intn(14), true)}
				if i == 0 {
					c.Sample(k)
				}
				timed = append(timed, k)
			}
			// targeted: one signature presented twice inside the bounds, the pauses and the number of
			// other signatures in between spread over the whole allowed range (these are the histories
			// on which a cache that forgets too early misses)
			for i := 0; i < c.N(36, 240); i++ {
				cap := 2 + c.Rand.Intn(4)
				x := []byte{0xee, byte(i), byte(i >> 8)}
				nOthers := c.Rand.Intn(cap)                          // < cap distinct others
				total := 0.15 + 0.63*float64(c.Rand.Intn(1000))/1000 // whole pause as a fraction of the interval, ≤ 0.78 (234 of 300 ms)
				if i%3 == 0 {
					nOthers, total = 0, 0.70+0.08*float64(c.Rand.Intn(1000))/1000 // the longest allowed pause, nothing in between
				}
				var ops []c06Op
				if c.Rand.Intn(2) == 0 { // some earlier traffic so that the generations are not empty
					ops = append(ops, c06GenOps(c, cap, 3+c.Rand.Intn(6), true)...)
				}
				first := c06Op{Data: core.Hex(x), Tag: "-"}
				switch i % 3 { // recorded just before the rotation deadline / just after it / wherever we are
				case 0:
					first.At, first.Frac = "pre", 1
				case 1:
					first.At, first.Frac = "post", 0
				}
				ops = append(ops, first)
				parts := nOthers + 1
				for j := 0; j < nOthers; j++ {
					ops = append(ops, c06Op{Data: core.Hex([]byte{0xdd, byte(j), byte(i)}), Tag: "-", At: "gap", Frac: total / float64(parts)})
					if c.Rand.Intn(3) == 0 { // the same other signature again: still one distinct signature
						ops = append(ops, c06Op{Data: core.Hex([]byte{0xdd, byte(j), byte(i)}), Tag: "-"})
					}
				}
				ops = append(ops, c06Op{Data: core.Hex(x), Tag: "-", At: "gap", Frac: total / float64(parts)})
				timed = append(timed, c06Case{Kind: "cache", Cap: cap, IntervalMs: 300, Ops: ops})
			}
			// owner chains through rotations by time
			for i := 0; i < c.N(36, 300); i++ {
				cap := []int{2, 3, 4, 8}[c.Rand.Intn(4)]
				timed = append(timed, c06Case{Kind: "cache", Cap: cap, IntervalMs: 300, Ops: c06GenOwner(c, cap, true, i)})
			}
			var wg sync.WaitGroup
			var discarded atomic.Int64
			sem := make(chan struct{}, 12)
			for _, k := range timed {
				wg.Add(1)
				sem <- struct{}{}
				go func(k c06Case) {
					defer wg.Done()
					defer func() { <-sem }()
					if !c06Run(c, k) {
						discarded.Add(1)
					}
				}(k)
			}
			wg.Wait()
			c.Res.Discarded += int(discarded.Load())
			c.Note("time-driven histories: %d, discarded inside the 50 ms margin: %d", len(timed), discarded.Load())
		},
		Replay: func(c *core.Ctx, raw json.RawMessage) {
			var k c06Case
			if json.Unmarshal(raw, &k) == nil {
				for try := 0; try < 3; try++ { // timing-margin discards are retried
					if c06Run(c, k) {
						return
					}
					c.Res.Discarded++
				}
			}
		},
	})
}
