package props

import (
	"encoding/json"
	"fmt"
	"math/rand"
	"os"
	"time"

	"github.com/enfein/mieru/v3/pkg/appctl/appctlpb"
	"google.golang.org/protobuf/encoding/protojson"
	"verifharness/core"
	"verifharness/sim"
	"verifharness/wire"
)

// C01 — TCP transport: every byte delivered exactly once, in order, to the right session.

type c01Case struct {
	Seed          int64           `json:"seed"`
	ClientPattern json.RawMessage `json:"client_pattern"`
	ServerPattern json.RawMessage `json:"server_pattern"`
	Multiplex     int             `json:"multiplex"`
	MaxChunk      int             `json:"max_chunk"`
	Scripts       []sim.Script    `json:"scripts"`
}

func patJSON(p *appctlpb.TrafficPattern) json.RawMessage {
	if p == nil {
		return json.RawMessage("null")
	}
	b, _ := protojson.Marshal(p)
	return b
}

func patFromJSON(raw json.RawMessage) *appctlpb.TrafficPattern {
	if len(raw) == 0 || string(raw) == "null" {
		return nil
	}
	p := &appctlpb.TrafficPattern{}
	if protojson.Unmarshal(raw, p) != nil {
		return nil
	}
	return p
}

func genC01(r *rand.Rand, big bool) c01Case {
	k := c01Case{Seed: r.Int63(), Multiplex: r.Intn(4), MaxChunk: []int{0, 1, 7, 37, 48, 97, 1400, 4096}[r.Intn(8)]}
	k.ClientPattern = patJSON(sim.RandomPattern(r, true))
	k.ServerPattern = patJSON(sim.RandomPattern(r, true))
	ns := 1 + r.Intn(4)
	if r.Intn(4) == 0 {
		ns = 1 + r.Intn(8)
	}
	budget := 200000
	if big {
		budget = 4 << 20
	}
	for i := 0; i < ns; i++ {
		s := sim.Script{MaxRead: []int{1, 13, 1500, 65536, 100000}[r.Intn(5)]}
		s.ClientWrites = sim.RandomWrites(r, 6, budget/ns)
		s.ServerWrites = sim.RandomWrites(r, 6, budget/ns)
		if big && i == 0 {
			s.ClientWrites = append(s.ClientWrites, 1<<20+r.Intn(1<<20))
			s.ServerWrites = append(s.ServerWrites, 1<<20+r.Intn(1<<20))
		}
		if k.MaxChunk == 1 && sumInts(s.ClientWrites)+sumInts(s.ServerWrites) > 60000 {
			s.ClientWrites, s.ServerWrites = []int{1, 1024, 1025}, []int{0, 3000}
		}
		if s.MaxRead == 1 && sumInts(s.ClientWrites)+sumInts(s.ServerWrites) > 400000 {
			// one Read call per byte: multi-MiB volumes take longer than the time limit on a loaded
			// machine (thorough run at load 75: 3.4 MB, limit 4m28 — a false stall). One-byte reads
			// keep up to 400 kB; the multi-MiB writes are read 13 bytes at a time.
			s.MaxRead = 13
		}
		k.Scripts = append(k.Scripts, s)
	}
	return k
}

func sumInts(xs []int) int {
	s := 0
	for _, x := range xs {
		s += x
	}
	return s
}

// c01Audit decodes the captured wire with the reference codec and checks that it carries exactly
// the written streams: every byte decodes, per-session payloads concatenate to what was written,
// sequence numbers are consecutive per session and direction, lengths respect the documented limits.
func c01Audit(c *core.Ctx, w *sim.World, k c01Case, tr *sim.TransferResult, keyPrefix string) {
	streams := w.DecodeStreams()
	type sd struct {
		sess uint32
		c2s  bool
	}
	for _, ds := range streams {
		c.Compared()
		if ds.Err != nil {
			c.Disagree(keyPrefix+"/wire-undecodable", fmt.Sprintf("reference codec cannot decode conn %d dir c2s=%v: %v", ds.ConnID, ds.ClientToServer, ds.Err), k)
			continue
		}
		if ds.Pending != 0 && !tr.Stalled {
			c.Disagree(keyPrefix+"/wire-trailing-bytes", fmt.Sprintf("%d undecoded trailing bytes on conn %d", ds.Pending, ds.ConnID), k)
		}
		payload := map[uint32][]byte{}
		nextSeq := map[uint32]uint32{}
		seen := map[uint32]bool{}
		for _, s := range ds.Segs {
			c.Hist("segment_type", fmt.Sprint(s.Proto))
			if s.FromClient() != ds.ClientToServer && !(s.Proto == wire.CloseSessionRequest || s.Proto == wire.CloseSessionResponse) {
				c.Violate(keyPrefix+"/wrong-direction-type", fmt.Sprintf("segment type %d travelling c2s=%v", s.Proto, ds.ClientToServer), k)
			}
			if s.IsData() || s.Proto == wire.OpenSessionRequest || s.Proto == wire.OpenSessionResponse {
				if seen[s.SessionID] && s.Seq != nextSeq[s.SessionID] {
					c.Violate(keyPrefix+"/seq-not-consecutive", fmt.Sprintf("session %d: seq %d after %d", s.SessionID, s.Seq, nextSeq[s.SessionID]-1), k)
				}
				seen[s.SessionID] = true
				nextSeq[s.SessionID] = s.Seq + 1
				payload[s.SessionID] = append(payload[s.SessionID], s.Payload...)
			}
		}
		// every session's decoded stream must be one of the written streams (tag identifies it c2s)
		for sid, p := range payload {
			if ds.ClientToServer {
				if len(p) < 4 {
					if len(p) > 0 {
						c.Disagree(keyPrefix+"/wire-short-stream", fmt.Sprintf("session %d carried %d bytes", sid, len(p)), k)
					}
					continue
				}
				idx := int(p[0])<<24 | int(p[1])<<16 | int(p[2])<<8 | int(p[3])
				if idx < 0 || idx >= len(k.Scripts) {
					c.Violate(keyPrefix+"/wire-unknown-session-tag", fmt.Sprintf("session %d starts with tag %d", sid, idx), k)
					continue
				}
				body := p[4:]
				exp := make([]byte, len(body))
				sim.FillStream(exp, k.Seed, idx, 0, 0)
				if string(exp) != string(body) || len(body) > sumInts(k.Scripts[idx].ClientWrites) {
					c.Violate(keyPrefix+"/wire-content-differs", fmt.Sprintf("bytes on the wire for script %d (client→server) are not a prefix of what was written", idx), k)
				}
			}
		}
	}
}

// worlds are closed in the background: Mux.Close waits seconds for graceful session close (that
// latency is C15's subject, not this property's)
var bgClose core.Background

func c01Run(c *core.Ctx, k c01Case) {
	cfg := sim.Config{Seed: k.Seed, Multiplex: k.Multiplex, MaxChunk: k.MaxChunk,
		ClientPattern: patFromJSON(k.ClientPattern), ServerPattern: patFromJSON(k.ServerPattern)}
	w, err := sim.NewWorld(cfg)
	key, _ := json.Marshal(k)
	if err != nil {
		c.Eval(string(key), false)
		c.Hist("branch", "world-setup-failed")
		c.Violate("C01/setup", "valid traffic pattern rejected or endpoints failed to start: "+err.Error(), k)
		return
	}
	defer bgClose.Go(w.Close)
	total := 0
	for _, s := range k.Scripts {
		total += sumInts(s.ClientWrites) + sumInts(s.ServerWrites)
		for _, x := range append(append([]int{}, s.ClientWrites...), s.ServerWrites...) {
			c.Hist("write_size", core.SizeBucket(x))
		}
	}
	c.Hist("sessions", fmt.Sprint(len(k.Scripts)))
	c.Hist("max_chunk", fmt.Sprint(k.MaxChunk))
	timeout := 60*time.Second + time.Duration(total/20000)*time.Second
	t0 := time.Now()
	tr := sim.RunTransfer(w, k.Scripts, k.Seed, timeout)
	if os.Getenv("VH_DEBUG") != "" {
		fmt.Fprintf(os.Stderr, "case sessions=%d total=%d chunk=%d mux=%d elapsed=%v stalled=%v\n", len(k.Scripts), total, k.MaxChunk, k.Multiplex, time.Since(t0), tr.Stalled)
	}
	c.Eval(string(key), true)
	c.Res.TracesValidated++
	for _, f := range tr.Check(k.Scripts) {
		kind := "delivery"
		if tr.Stalled {
			kind = "stall"
		}
		c.Violate("C01/tcp/"+kind, f, k)
	}
	c01Audit(c, w, k, tr, "C01")
}

func init() {
	core.Register("C01", &core.Scenario{
		Run: func(c *core.Ctx) {
			c.Res.Rule = "each case: random valid traffic pattern per side (padding maxima incl. 0/255, TCP fragmentation, 5 nonce types, 5 low-entropy modes x 31 rotations, implicit/explicit), multiplex factor 0..3, 1..8 concurrent proxy connections on one client, write-size sequences from the boundary set {0,1,1019..1025,32759..32769,65536} and random sizes, both directions concurrently, random read sizes, network re-chunking of reads to at most {1,7,37,48,97,1400,4096,unlimited} bytes; thorough adds multi-MiB writes. Real protocol.Mux client/server over the in-memory network; oracle: bytes read = bytes written per connection and direction; the captured wire is decoded by the independent reference codec and must carry exactly those streams. Distinct = distinct case JSON."
			c.Correspondence("captured TCP wire vs reference codec (harness/wire, from docs/protocol.md): every byte decodes, per-session payloads = written streams, seq consecutive")
			n := c.N(40, 600)
			cases := make([]c01Case, n)
			for i := range cases {
				cases[i] = genC01(c.Rand, c.Thorough() && i%25 == 0)
			}
			// special: a reader that stalls for longer than any internal hand-over timeout while
			// thousands of small segments are pending (back-pressure must not lose anything)
			stall := genC01(c.Rand, false)
			stall.MaxChunk, stall.Multiplex = 0, 1
			many := make([]int, 6000)
			for j := range many {
				many[j] = 16
			}
			stall.Scripts = []sim.Script{{ClientWrites: many, ServerWrites: []int{100}, MaxRead: 65536, ServerStallMs: 9000},
				{ClientWrites: []int{1000, 50000}, ServerWrites: []int{20000}, MaxRead: 1500}}
			cases = append(cases, stall)
			n = len(cases)
			c.Sample(cases[0])
			c.Sample(cases[1])
			core.Parallel(n, 8, func(i int) { c01Run(c, cases[i]) })
			bgClose.Wait(30 * time.Second)
		},
		Replay: func(c *core.Ctx, raw json.RawMessage) {
			var k c01Case
			if json.Unmarshal(raw, &k) == nil {
				c01Run(c, k)
			}
		},
	})
}
