package simnet

// CloseWrite ends this end's writing direction only: the peer reads what was written and then
// io.EOF, while this end can still read what the peer writes (and see the peer close).
func (c *Conn) CloseWrite() {
	c.out.mu.Lock()
	c.out.closed = true
	c.out.cond.Broadcast()
	c.out.mu.Unlock()
}
