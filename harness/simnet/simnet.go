// Package simnet is an in-memory network: stream listeners/connections with seeded re-chunking and
// byte-stream filters, and packet connections with a seeded fault plan (drop / duplicate / delay
// (reorder) / mutate / inject), with full capture of everything that crosses it. All randomness comes
// from one PRNG so that a run replays from its seed.
package simnet

import (
	"context"
	"errors"
	"fmt"
	"io"
	"math/rand"
	"net"
	"os"
	"sync"
	"syscall"
	"time"
)

// Net is one simulated network.
type Net struct {
	mu        sync.Mutex
	rng       *rand.Rand
	listeners map[string]*Listener
	packets   map[string]*PacketConn
	nextPort  int

	// Stream behaviour
	MaxChunk int // reads return at most this many bytes (0 = unlimited); actual size is random in [1,MaxChunk]
	// StreamFilter, if set, transforms the bytes of one direction of one connection. dirClientToServer
	// is true for bytes written by the dialing side. It is called under the connection's lock with
	// the stream offset of b[0] and may return a different slice (tampering).
	StreamFilter func(connID int, clientToServer bool, offset int64, b []byte) []byte

	// Packet behaviour: Plan decides what happens to each datagram; nil = deliver once, unchanged.
	Plan func(d *Datagram) []Delivery

	// ClientIP, if set, is the source IP of every dialing socket (all clients behind one NAT);
	// otherwise every socket gets its own address.
	ClientIP net.IP

	Streams   []*StreamCapture
	Datagrams []*Datagram // every datagram handed to the network, in order
	Events    []Event     // every delivery to (ReadFrom return at) an endpoint, in order
	t0        time.Time
	closed    bool
}

// New creates a network whose random choices derive from seed.
func New(seed int64) *Net {
	return &Net{rng: rand.New(rand.NewSource(seed)), listeners: map[string]*Listener{}, packets: map[string]*PacketConn{}, nextPort: 20000, t0: time.Now()}
}

func (n *Net) Intn(k int) int {
	n.mu.Lock()
	defer n.mu.Unlock()
	return n.rng.Intn(k)
}

func (n *Net) Float() float64 {
	n.mu.Lock()
	defer n.mu.Unlock()
	return n.rng.Float64()
}

// Lock / Unlock let monitors read the captures consistently.
func (n *Net) Lock()   { n.mu.Lock() }
func (n *Net) Unlock() { n.mu.Unlock() }

// ------------------------------------------------------------------------------------------------
// Streams

type StreamCapture struct {
	ID         int
	ClientAddr string
	ServerAddr string
	mu         sync.Mutex
	C2S        []byte // bytes written by the dialing side (after the filter)
	S2C        []byte // bytes written by the accepting side (after the filter)
	C2SWrites  []int  // Write call sizes (before the filter)
	S2CWrites  []int
}

func (s *StreamCapture) Snapshot() (c2s, s2c []byte, c2sWrites, s2cWrites []int) {
	s.mu.Lock()
	defer s.mu.Unlock()
	return append([]byte(nil), s.C2S...), append([]byte(nil), s.S2C...), append([]int(nil), s.C2SWrites...), append([]int(nil), s.S2CWrites...)
}

type half struct {
	mu       sync.Mutex
	cond     *sync.Cond
	buf      []byte
	closed   bool // writer closed: reader sees EOF after draining
	reset    bool // hard failure: reads and writes fail
	deadline time.Time
	offset   int64
}

func newHalf() *half {
	h := &half{}
	h.cond = sync.NewCond(&h.mu)
	return h
}

// Conn is one end of an in-memory stream connection.
type Conn struct {
	net        *Net
	cap        *StreamCapture
	isClient   bool
	in, out    *half // in: what this end reads; out: what this end writes (peer's in)
	local, rem net.Addr
	wdeadline  time.Time
	closeOnce  sync.Once
	closedSelf bool
	wmu        sync.Mutex
}

type timeoutError struct{}

func (timeoutError) Error() string   { return "i/o timeout" }
func (timeoutError) Timeout() bool   { return true }
func (timeoutError) Temporary() bool { return true }
func (timeoutError) Unwrap() error   { return os.ErrDeadlineExceeded }

func (c *Conn) Read(p []byte) (int, error) {
	h := c.in
	h.mu.Lock()
	defer h.mu.Unlock()
	for {
		if h.reset {
			return 0, errors.New("simnet: connection reset")
		}
		if c.closedSelf {
			return 0, net.ErrClosed
		}
		if len(h.buf) > 0 {
			n := len(p)
			if n > len(h.buf) {
				n = len(h.buf)
			}
			if mc := c.net.MaxChunk; mc > 0 && n > 0 {
				k := 1 + c.net.Intn(mc)
				if k < n {
					n = k
				}
			}
			copy(p, h.buf[:n])
			h.buf = h.buf[n:]
			return n, nil
		}
		if h.closed {
			return 0, io.EOF
		}
		if !h.deadline.IsZero() {
			d := time.Until(h.deadline)
			if d <= 0 {
				return 0, timeoutError{}
			}
			t := time.AfterFunc(d, func() { h.mu.Lock(); h.cond.Broadcast(); h.mu.Unlock() })
			h.cond.Wait()
			t.Stop()
		} else {
			h.cond.Wait()
		}
	}
}

func (c *Conn) Write(p []byte) (int, error) {
	c.wmu.Lock()
	defer c.wmu.Unlock()
	if c.closedSelf {
		return 0, net.ErrClosed
	}
	if !c.wdeadline.IsZero() && time.Now().After(c.wdeadline) {
		return 0, timeoutError{}
	}
	h := c.out
	h.mu.Lock()
	defer h.mu.Unlock()
	if h.reset || h.closed {
		return 0, errors.New("simnet: write on closed connection")
	}
	data := append([]byte(nil), p...)
	if f := c.net.StreamFilter; f != nil {
		data = f(c.cap.ID, c.isClient, h.offset, data)
	}
	h.offset += int64(len(p))
	c.cap.mu.Lock()
	if c.isClient {
		c.cap.C2S = append(c.cap.C2S, data...)
		c.cap.C2SWrites = append(c.cap.C2SWrites, len(p))
	} else {
		c.cap.S2C = append(c.cap.S2C, data...)
		c.cap.S2CWrites = append(c.cap.S2CWrites, len(p))
	}
	c.cap.mu.Unlock()
	h.buf = append(h.buf, data...)
	h.cond.Broadcast()
	return len(p), nil
}

func (c *Conn) Close() error {
	c.closeOnce.Do(func() {
		c.out.mu.Lock()
		c.out.closed = true
		c.out.cond.Broadcast()
		c.out.mu.Unlock()
		c.in.mu.Lock()
		c.closedSelf = true
		c.in.cond.Broadcast()
		c.in.mu.Unlock()
	})
	return nil
}

// Reset simulates abrupt loss of the connection: both directions fail from now on.
func (c *Conn) Reset() {
	for _, h := range []*half{c.in, c.out} {
		h.mu.Lock()
		h.reset = true
		h.cond.Broadcast()
		h.mu.Unlock()
	}
}

func (c *Conn) LocalAddr() net.Addr  { return c.local }
func (c *Conn) RemoteAddr() net.Addr { return c.rem }
func (c *Conn) SetDeadline(t time.Time) error {
	c.SetReadDeadline(t)
	c.SetWriteDeadline(t)
	return nil
}
func (c *Conn) SetReadDeadline(t time.Time) error {
	c.in.mu.Lock()
	c.in.deadline = t
	c.in.cond.Broadcast()
	c.in.mu.Unlock()
	return nil
}
func (c *Conn) SetWriteDeadline(t time.Time) error {
	c.wmu.Lock()
	c.wdeadline = t
	c.wmu.Unlock()
	return nil
}

// Inject appends raw bytes to what this end will read (as if the peer had written them).
func (c *Conn) Inject(b []byte) {
	c.in.mu.Lock()
	c.in.buf = append(c.in.buf, b...)
	c.in.cond.Broadcast()
	c.in.mu.Unlock()
}

type Listener struct {
	net    *Net
	addr   *net.TCPAddr
	ch     chan *Conn
	done   chan struct{}
	once   sync.Once
	Conns  []*Conn // server-side ends, for fault injection
	connMu sync.Mutex
}

func (l *Listener) Accept() (net.Conn, error) {
	select {
	case c := <-l.ch:
		return c, nil
	case <-l.done:
		return nil, net.ErrClosed
	}
}
func (l *Listener) Close() error {
	l.once.Do(func() {
		close(l.done)
		l.net.mu.Lock()
		delete(l.net.listeners, l.addr.String())
		l.net.mu.Unlock()
	})
	return nil
}
func (l *Listener) Addr() net.Addr { return l.addr }

// Listen implements apicommon.StreamListenerFactory.
func (n *Net) Listen(ctx context.Context, network, address string) (net.Listener, error) {
	addr, err := net.ResolveTCPAddr("tcp", address)
	if err != nil {
		return nil, err
	}
	n.mu.Lock()
	defer n.mu.Unlock()
	key := portKey(addr.Port)
	if _, ok := n.listeners[key]; ok {
		return nil, fmt.Errorf("simnet: address %s in use", address)
	}
	l := &Listener{net: n, addr: addr, ch: make(chan *Conn, 1024), done: make(chan struct{})}
	n.listeners[key] = l
	return l, nil
}

func portKey(p int) string { return fmt.Sprintf("port:%d", p) }

// DialContext implements apicommon.Dialer.
func (n *Net) DialContext(ctx context.Context, network, address string) (net.Conn, error) {
	c, _, err := n.DialPair(address)
	return c, err
}

// DialPair connects to a listener and returns both ends.
func (n *Net) DialPair(address string) (*Conn, *Conn, error) {
	addr, err := net.ResolveTCPAddr("tcp", address)
	if err != nil {
		return nil, nil, err
	}
	n.mu.Lock()
	l, ok := n.listeners[portKey(addr.Port)]
	if !ok {
		n.mu.Unlock()
		return nil, nil, fmt.Errorf("simnet: connection refused: %s", address)
	}
	n.nextPort++
	caddr := &net.TCPAddr{IP: net.IPv4(10, 9, 0, byte(1+n.nextPort%200)), Port: n.nextPort}
	if n.ClientIP != nil {
		caddr.IP = n.ClientIP
	}
	cap := &StreamCapture{ID: len(n.Streams), ClientAddr: caddr.String(), ServerAddr: addr.String()}
	n.Streams = append(n.Streams, cap)
	n.mu.Unlock()
	a, b := newHalf(), newHalf()
	cc := &Conn{net: n, cap: cap, isClient: true, in: a, out: b, local: caddr, rem: addr}
	sc := &Conn{net: n, cap: cap, isClient: false, in: b, out: a, local: addr, rem: caddr}
	l.connMu.Lock()
	l.Conns = append(l.Conns, sc)
	l.connMu.Unlock()
	select {
	case l.ch <- sc:
	case <-l.done:
		return nil, nil, fmt.Errorf("simnet: connection refused: %s", address)
	}
	return cc, sc, nil
}

// ------------------------------------------------------------------------------------------------
// Packets

// Datagram is one datagram handed to the network by an endpoint.
type Datagram struct {
	Index    int // global index
	DirIndex int // index among datagrams with the same (From, To)
	From, To string
	Data     []byte
	At       time.Duration // since network creation
	Fate     string        // summary of what the plan did
}

// Delivery is one thing the network does with a datagram.
type Delivery struct {
	Data  []byte        // nil = original
	To    string        // "" = original destination
	From  string        // "" = original source (spoof / reflection otherwise)
	Delay time.Duration // 0 = immediately
}

// Event is one datagram returned by ReadFrom at an endpoint.
type Event struct {
	At   time.Duration
	To   string // endpoint that read it
	From string
	Data []byte
	Src  int // index of the originating Datagram, -1 if injected
	// DatagramsSoFar is len(Net.Datagrams) when the read returned: everything the reader emits
	// later has a larger index.
	DatagramsSoFar int
}

type pkt struct {
	data []byte
	from net.Addr
	src  int
}

type PacketConn struct {
	net      *Net
	addr     *net.UDPAddr
	mu       sync.Mutex
	cond     *sync.Cond
	q        []pkt
	closed   bool
	deadline time.Time
	dirIdx   map[string]int
	// BlackHole drops everything sent to and from this endpoint (abrupt loss of the path).
	BlackHole bool
}

// ListenPacket with two string addresses implements apicommon.PacketDialer; see ListenPacketServer.
func (n *Net) ListenPacket(ctx context.Context, network, laddr, raddr string) (net.PacketConn, error) {
	return n.listenPacket(laddr)
}

// PacketListener adapts Net to apicommon.PacketListenerFactory.
type PacketListener struct{ N *Net }

func (p PacketListener) ListenPacket(ctx context.Context, network, address string) (net.PacketConn, error) {
	return p.N.listenPacket(address)
}

func (n *Net) listenPacket(laddr string) (*PacketConn, error) {
	n.mu.Lock()
	defer n.mu.Unlock()
	var addr *net.UDPAddr
	if laddr == "" {
		n.nextPort++
		addr = &net.UDPAddr{IP: net.IPv4(10, 9, 1, byte(1+n.nextPort%200)), Port: n.nextPort}
		if n.ClientIP != nil {
			addr.IP = n.ClientIP
		}
	} else {
		a, err := net.ResolveUDPAddr("udp", laddr)
		if err != nil {
			return nil, err
		}
		if a.Port == 0 {
			n.nextPort++
			a.Port = n.nextPort
		}
		if a.IP == nil || a.IP.IsUnspecified() {
			// a socket bound to the wildcard address answers from the address it was reached at;
			// the simulated hosts have one address each: the server is 10.8.0.1
			a = &net.UDPAddr{IP: net.IPv4(10, 8, 0, 1), Port: a.Port}
		}
		addr = a
	}
	key := portKey(addr.Port)
	if _, ok := n.packets[key]; ok {
		return nil, fmt.Errorf("simnet: address %s in use", laddr)
	}
	pc := &PacketConn{net: n, addr: addr, dirIdx: map[string]int{}}
	pc.cond = sync.NewCond(&pc.mu)
	n.packets[key] = pc
	return pc, nil
}

// Endpoint returns the packet endpoint bound to a port (for injection by the harness).
func (n *Net) Endpoint(port int) *PacketConn {
	n.mu.Lock()
	defer n.mu.Unlock()
	return n.packets[portKey(port)]
}

func (p *PacketConn) enqueue(data []byte, from net.Addr, src int) {
	p.mu.Lock()
	if !p.closed && !p.BlackHole {
		p.q = append(p.q, pkt{data, from, src})
		p.cond.Broadcast()
	}
	p.mu.Unlock()
}

// InjectFrom delivers a datagram to this endpoint as if it came from `from`.
func (p *PacketConn) InjectFrom(data []byte, from *net.UDPAddr) {
	p.enqueue(append([]byte(nil), data...), from, -1)
}

// InjectBatchFrom delivers several datagrams AT ONCE: all of them are in the receive queue before the reader
// can take the first one (datagrams that arrived back to back while the reader was busy). from[i] is the source
// of datas[i]. (C10 burst stage; additive.)
func (p *PacketConn) InjectBatchFrom(datas [][]byte, from []*net.UDPAddr) {
	p.mu.Lock()
	if !p.closed && !p.BlackHole {
		for i, d := range datas {
			p.q = append(p.q, pkt{append([]byte(nil), d...), from[i], -1})
		}
		p.cond.Broadcast()
	}
	p.mu.Unlock()
}

func (p *PacketConn) WriteTo(b []byte, addr net.Addr) (int, error) {
	p.mu.Lock()
	if p.closed {
		p.mu.Unlock()
		return 0, net.ErrClosed
	}
	bh := p.BlackHole
	p.mu.Unlock()
	ua, err := net.ResolveUDPAddr("udp", addr.String())
	if err != nil {
		return 0, err
	}
	if ua.Port == 0 {
		// as the operating system: a datagram FROM source port 0 is delivered, sending TO port 0 is refused
		// (Linux: sendto → EINVAL). Nothing in the simulated network listens on port 0.
		return 0, &net.OpError{Op: "write", Net: "udp", Source: p.addr, Addr: ua, Err: syscall.EINVAL}
	}
	n := p.net
	n.mu.Lock()
	dirKey := ua.String()
	d := &Datagram{Index: len(n.Datagrams), DirIndex: p.dirIdx[dirKey], From: p.addr.String(), To: ua.String(), Data: append([]byte(nil), b...), At: time.Since(n.t0)}
	p.dirIdx[dirKey]++
	n.Datagrams = append(n.Datagrams, d)
	plan := n.Plan
	n.mu.Unlock()
	if bh {
		d.Fate = "blackhole"
		return len(b), nil
	}
	var dels []Delivery
	if plan != nil {
		dels = plan(d)
	} else {
		dels = []Delivery{{}}
	}
	if len(dels) == 0 && d.Fate == "" {
		d.Fate = "drop"
	}
	for _, dl := range dels {
		data := dl.Data
		if data == nil {
			data = d.Data
		}
		to := dl.To
		if to == "" {
			to = d.To
		}
		from := net.Addr(p.addr)
		if dl.From != "" {
			if fa, err := net.ResolveUDPAddr("udp", dl.From); err == nil {
				from = fa
			}
		}
		ta, err := net.ResolveUDPAddr("udp", to)
		if err != nil {
			continue
		}
		n.mu.Lock()
		dst := n.packets[portKey(ta.Port)]
		n.mu.Unlock()
		if dst == nil {
			continue
		}
		cp := append([]byte(nil), data...)
		if dl.Delay > 0 {
			idx := d.Index
			time.AfterFunc(dl.Delay, func() { dst.enqueue(cp, from, idx) })
		} else {
			dst.enqueue(cp, from, d.Index)
		}
	}
	return len(b), nil
}

func (p *PacketConn) ReadFrom(b []byte) (int, net.Addr, error) {
	p.mu.Lock()
	for {
		if p.closed {
			p.mu.Unlock()
			return 0, nil, net.ErrClosed
		}
		if len(p.q) > 0 {
			k := p.q[0]
			p.q = p.q[1:]
			p.mu.Unlock()
			n := copy(b, k.data)
			p.net.mu.Lock()
			p.net.Events = append(p.net.Events, Event{At: time.Since(p.net.t0), To: p.addr.String(), From: k.from.String(), Data: k.data, Src: k.src, DatagramsSoFar: len(p.net.Datagrams)})
			p.net.mu.Unlock()
			return n, k.from, nil
		}
		if !p.deadline.IsZero() {
			d := time.Until(p.deadline)
			if d <= 0 {
				p.mu.Unlock()
				return 0, nil, timeoutError{}
			}
			t := time.AfterFunc(d, func() { p.mu.Lock(); p.cond.Broadcast(); p.mu.Unlock() })
			p.cond.Wait()
			t.Stop()
		} else {
			p.cond.Wait()
		}
	}
}

func (p *PacketConn) Close() error {
	p.mu.Lock()
	already := p.closed
	p.closed = true
	p.cond.Broadcast()
	p.mu.Unlock()
	if !already {
		p.net.mu.Lock()
		if p.net.packets[portKey(p.addr.Port)] == p {
			delete(p.net.packets, portKey(p.addr.Port))
		}
		p.net.mu.Unlock()
	}
	return nil
}
func (p *PacketConn) LocalAddr() net.Addr { return p.addr }
func (p *PacketConn) SetDeadline(t time.Time) error {
	return p.SetReadDeadline(t)
}
func (p *PacketConn) SetReadDeadline(t time.Time) error {
	p.mu.Lock()
	p.deadline = t
	p.cond.Broadcast()
	p.mu.Unlock()
	return nil
}
func (p *PacketConn) SetWriteDeadline(t time.Time) error { return nil }
func (p *PacketConn) SetBlackHole(v bool) {
	p.mu.Lock()
	p.BlackHole = v
	p.mu.Unlock()
}

// Capture returns the capture record of the connection this end belongs to.
func (c *Conn) Capture() *StreamCapture { return c.cap }
