package simnet

// Accessors for abrupt-loss injection by scenarios that do not own the listener / dialer (C15).

// StreamConns returns the accepting-side end of every stream connection made through the listeners
// that are currently open on the network. Reset() on one of them kills both directions.
func (n *Net) StreamConns() []*Conn {
	n.mu.Lock()
	ls := make([]*Listener, 0, len(n.listeners))
	for _, l := range n.listeners {
		ls = append(ls, l)
	}
	n.mu.Unlock()
	var out []*Conn
	for _, l := range ls {
		l.connMu.Lock()
		out = append(out, l.Conns...)
		l.connMu.Unlock()
	}
	return out
}

// PacketEndpoints returns every packet endpoint currently bound on the network.
func (n *Net) PacketEndpoints() []*PacketConn {
	n.mu.Lock()
	defer n.mu.Unlock()
	out := make([]*PacketConn, 0, len(n.packets))
	for _, p := range n.packets {
		out = append(out, p)
	}
	return out
}

// Port returns the UDP port the endpoint is bound to.
func (p *PacketConn) Port() int { return p.addr.Port }
