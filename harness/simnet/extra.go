package simnet

import "time"

// T0 is the instant the network was created (Datagram.At and Event.At are relative to it).
func (n *Net) T0() time.Time { return n.t0 }
