package wire

// A reference SERVER built only from this reference codec, i.e. only from docs/protocol.md: what a
// third-party implementer of the server side would write. It shares nothing with pkg/protocol.
//
// What the document fixes is the codec (keys, nonce and hint, the three metadata layouts, the
// segment layout, nonce progression per transport, the low-entropy body). About the exchange itself
// it says only that types 2/3 open a session, 4/5 close it, 6..11 carry data and acks in a named
// direction, and that "`sequence number`, `unack sequence number`, and `window size` are used for
// flow control". The rules below are the minimum a server needs to be a peer at all; each is marked
// (doc) when the document states it and (conv) when it is the conventional reading the document
// leaves open (listed in docs/notes/C09.md, "Third-party server stage"):
//
//   (doc)  the server has three candidate keys ("The server needs to try maximum 3 different
//          `timeSalt`"), the client one
//   (conv) the server answers under the key that opened the client's segment — the only key the
//          client is known to hold
//   (doc)  every nonce it generates carries the user hint in its last 4 bytes
//   (conv) per session and direction, the segments that occupy a place in the stream (open
//          request/response, data) are numbered 0, 1, 2, …; `unack sequence number` is the next
//          number the sender of the segment expects from its peer; an ack carries no payload
//   (conv) on UDP the receiver reorders by sequence number, ignores what it already has, and
//          acknowledges what it received; the sender keeps a segment until it is acknowledged
//   (doc)  timestamp = minutes since the epoch at the moment of sealing

import (
	"encoding/binary"
	"fmt"
	"math/rand"
	"time"
)

// SelectedKey is the candidate key the decoder settled on with the first segment (nil before).
func (s *StreamDecoder) SelectedKey() []byte { return s.key }

// SelectedKeyIndex is its index among Keys (-1 before the first segment).
func (s *StreamDecoder) SelectedKeyIndex() int {
	for i, k := range s.Keys {
		if s.key != nil && string(k) == string(s.key) {
			return i
		}
	}
	return -1
}

// HintedNonce turns 24 random bytes into a nonce whose last 4 bytes are the user hint.
func HintedNonce(user string, rnd []byte) []byte {
	n := append([]byte(nil), rnd[:24]...)
	copy(n[20:], UserHint(user, n))
	return n
}

// LEHalfMask draws a 32-bit half mask with the number of 1-bits the mode requires.
func LEHalfMask(r *rand.Rand, mode uint8) uint32 {
	perm := r.Perm(32)
	var m uint32
	for i := 0; i < leOnes[mode]; i++ {
		m |= 1 << uint(perm[i])
	}
	return m
}

// LEEncodedLen is ceil(n / C) * 8 for the mode (0 when the mode is not 1..4).
func LEEncodedLen(n int, mode uint8) int {
	c, ok := leC[mode]
	if !ok {
		return 0
	}
	return (n + c - 1) / c * 8
}

// Filled returns the metadata as Seal / SealUDP put it on the wire: the three (four) length fields
// set from the payload and the paddings.
func Filled(m Meta, payload, pad1, pad2 int) Meta {
	if m.IsLE() && payload > 0 {
		m.ExtractedLen = uint16(payload)
		m.PayloadLen = uint16(LEEncodedLen(payload, m.Byte1))
	} else {
		m.PayloadLen = uint16(payload)
	}
	m.SuffixLen = uint8(pad2)
	if !m.IsSession() {
		m.PrefixLen = uint8(pad1)
	}
	return m
}

// Emitted records one segment the reference server put on the wire, with everything needed to
// re-encode it with another implementation of the reference codec.
type Emitted struct {
	Key, Nonce              []byte // nonce used for the metadata
	Meta                    Meta   // with lengths filled in
	Payload, Pad1, Pad2     []byte
	LEPad                   int
	First                   bool // TCP: the bytes start with the nonce
	Bytes                   []byte
	SessionIndex, SegInPlan int
}

// RefSession is what the reference server knows about one session.
type RefSession struct {
	ID       uint32
	UDP      bool
	Index    int    // order of arrival at the server
	NextSend uint32 // next number for an open response / data segment of this server
	NextRecv uint32 // next number expected from the client
	Up       []byte // application bytes received from the client, in order
	pending  map[uint32]*Segment

	PeerUnAck  uint32 // highest `unack sequence number` seen from the client
	PeerWindow uint16
	Window     uint16 // what this server advertises

	OpenReq, OpenRespSent bool
	CloseReq, CloseResp   bool // seen from the client
	CloseReqSeq           uint32

	Segs     []*Segment // every segment of this session received from the client
	Dups     int
	Problems []string // things a lawful client does not do
}

// Accept takes one decoded client segment of this session.
func (s *RefSession) Accept(seg *Segment) {
	s.Segs = append(s.Segs, seg)
	m := seg.Meta
	if !m.FromClient() && m.Proto != CloseSessionRequest && m.Proto != CloseSessionResponse {
		s.Problems = append(s.Problems, fmt.Sprintf("client sent protocol type %d, which the document gives to the server direction", m.Proto))
		return
	}
	switch {
	case m.Proto == OpenSessionRequest || m.Proto == DataClientToServer || m.Proto == DataClientToServerLE:
		if m.Proto == OpenSessionRequest {
			s.OpenReq = true
		} else {
			s.noteAck(m)
		}
		if !s.UDP {
			// the stream keeps order and loses nothing: the payloads are the stream
			if m.Seq != s.NextRecv {
				s.Problems = append(s.Problems, fmt.Sprintf("stream transport: sequence number %d where %d is next", m.Seq, s.NextRecv))
			}
			s.NextRecv = m.Seq + 1
			s.Up = append(s.Up, seg.Payload...)
			return
		}
		if m.Seq < s.NextRecv || s.pending[m.Seq] != nil {
			s.Dups++
			return
		}
		if s.pending == nil {
			s.pending = map[uint32]*Segment{}
		}
		s.pending[m.Seq] = seg
		for {
			p := s.pending[s.NextRecv]
			if p == nil {
				break
			}
			delete(s.pending, s.NextRecv)
			s.Up = append(s.Up, p.Payload...)
			s.NextRecv++
		}
	case m.Proto == AckClientToServer:
		s.noteAck(m)
		if len(seg.Payload) != 0 {
			s.Problems = append(s.Problems, "ack segment with payload")
		}
	case m.Proto == CloseSessionRequest:
		s.CloseReq = true
		s.CloseReqSeq = m.Seq
	case m.Proto == CloseSessionResponse:
		s.CloseResp = true
	}
}

func (s *RefSession) noteAck(m Meta) {
	if m.UnAck > s.PeerUnAck {
		s.PeerUnAck = m.UnAck
	}
	s.PeerWindow = m.Window
}

func minutes(now time.Time) uint32 { return uint32(now.Unix() / 60) }

// OpenResp is the metadata of the open-session response (takes a sequence number).
func (s *RefSession) OpenResp(now time.Time) Meta {
	m := Meta{Proto: OpenSessionResponse, Timestamp: minutes(now), SessionID: s.ID, Seq: s.NextSend}
	s.NextSend++
	s.OpenRespSent = true
	return m
}

// Data is the metadata of a data segment (takes a sequence number); mode 0 = plain type 7,
// mode 1..4 = low-entropy type 11 with the given half mask and rotation.
func (s *RefSession) Data(now time.Time, fragment uint8, mode uint8, mask uint32, rot uint8) Meta {
	m := Meta{Proto: DataServerToClient, Timestamp: minutes(now), SessionID: s.ID, Seq: s.NextSend,
		UnAck: s.NextRecv, Window: s.Window, Fragment: fragment}
	if mode != 0 {
		m.Proto, m.Byte1, m.LEMask, m.LERot = DataServerToClientLE, mode, mask, rot
	}
	s.NextSend++
	return m
}

// Ack is the metadata of an ack segment: it takes no sequence number of its own (it repeats the
// last one used) and reports what has been received.
func (s *RefSession) Ack(now time.Time) Meta {
	seq := uint32(0)
	if s.NextSend > 0 {
		seq = s.NextSend - 1
	}
	return Meta{Proto: AckServerToClient, Timestamp: minutes(now), SessionID: s.ID, Seq: seq, UnAck: s.NextRecv, Window: s.Window}
}

func (s *RefSession) CloseRequest(now time.Time, status uint8) Meta {
	m := Meta{Proto: CloseSessionRequest, Timestamp: minutes(now), SessionID: s.ID, Seq: s.NextSend, Status: status}
	s.NextSend++
	return m
}

func (s *RefSession) CloseResponse(now time.Time) Meta {
	m := Meta{Proto: CloseSessionResponse, Timestamp: minutes(now), SessionID: s.ID, Seq: s.NextSend}
	s.NextSend++
	return m
}

// RefStreamConn is the reference server's end of one TCP connection.
type RefStreamConn struct {
	User     string
	Dec      *StreamDecoder // client → server, candidate keys only
	Enc      *StreamEncoder // server → client, under the key Dec settled on
	Nonce0   []byte
	Sessions map[uint32]*RefSession
	Order    []*RefSession
	Strays   []*Segment // segments for sessions that were never opened here
	Emitted  []*Emitted
}

func NewRefStreamConn(user string, keys [][]byte) *RefStreamConn {
	return &RefStreamConn{User: user, Dec: &StreamDecoder{Keys: keys}, Sessions: map[uint32]*RefSession{}}
}

// Feed decodes what arrived and hands the segments to their sessions; a new session starts with
// an open-session request. It returns the segments completed by these bytes.
func (c *RefStreamConn) Feed(b []byte, window uint16) []*Segment {
	segs := c.Dec.Feed(b)
	for _, seg := range segs {
		s := c.Sessions[seg.SessionID]
		if s == nil {
			if seg.Proto != OpenSessionRequest {
				c.Strays = append(c.Strays, seg)
				continue
			}
			s = &RefSession{ID: seg.SessionID, Window: window}
			c.Sessions[seg.SessionID] = s
			c.Order = append(c.Order, s)
		}
		s.Accept(seg)
	}
	return segs
}

// Seal encodes one segment of the server's direction. rnd supplies the 24 random bytes of the
// direction's first nonce.
func (c *RefStreamConn) Seal(m Meta, payload, pad1, pad2 []byte, lePad int, rnd []byte) (*Emitted, error) {
	if c.Dec.SelectedKey() == nil {
		return nil, fmt.Errorf("no client segment decoded yet: the reply key is unknown")
	}
	first := false
	if c.Enc == nil {
		c.Nonce0 = HintedNonce(c.User, rnd)
		c.Enc = &StreamEncoder{Key: c.Dec.SelectedKey(), Nonce: append([]byte(nil), c.Nonce0...)}
		first = true
	}
	e := &Emitted{Key: c.Enc.Key, Nonce: append([]byte(nil), c.Enc.Nonce...), Meta: Filled(m, len(payload), len(pad1), len(pad2)),
		Payload: payload, Pad1: pad1, Pad2: pad2, LEPad: lePad, First: first}
	e.Bytes = c.Enc.Seal(m, payload, pad1, pad2, lePad)
	c.Emitted = append(c.Emitted, e)
	return e, nil
}

// RefPacketPeer is the reference server's view of one UDP client address.
type RefPacketPeer struct {
	User     string
	Keys     [][]byte
	Key      []byte // the key that opened the latest datagram: the one to answer under
	KeyIndex int
	Sessions map[uint32]*RefSession
	Order    []*RefSession
	Strays   []*Segment
	Emitted  []*Emitted
	Received []*Segment
}

func NewRefPacketPeer(user string, keys [][]byte) *RefPacketPeer {
	return &RefPacketPeer{User: user, Keys: keys, Sessions: map[uint32]*RefSession{}, KeyIndex: -1}
}

// Receive decodes one datagram and hands it to its session.
func (p *RefPacketPeer) Receive(d []byte, window uint16) (*Segment, *RefSession, error) {
	seg, err := OpenUDP(d, p.Keys)
	if err != nil {
		return nil, nil, err
	}
	p.Received = append(p.Received, seg)
	p.Key, p.KeyIndex = p.Keys[seg.KeyIndex], seg.KeyIndex
	s := p.Sessions[seg.SessionID]
	if s == nil {
		if seg.Proto != OpenSessionRequest {
			p.Strays = append(p.Strays, seg)
			return seg, nil, nil
		}
		s = &RefSession{ID: seg.SessionID, UDP: true, Window: window}
		p.Sessions[seg.SessionID] = s
		p.Order = append(p.Order, s)
	}
	s.Accept(seg)
	return seg, s, nil
}

// Seal encodes one datagram of the server's direction under the key of the latest datagram
// received from this client, with a fresh hinted nonce made from rnd.
func (p *RefPacketPeer) Seal(m Meta, payload, pad1, pad2 []byte, lePad int, rnd []byte) (*Emitted, error) {
	if p.Key == nil {
		return nil, fmt.Errorf("no client datagram decoded yet: the reply key is unknown")
	}
	nonce := HintedNonce(p.User, rnd)
	e := &Emitted{Key: p.Key, Nonce: nonce, Meta: Filled(m, len(payload), len(pad1), len(pad2)),
		Payload: payload, Pad1: pad1, Pad2: pad2, LEPad: lePad, First: true}
	e.Bytes = SealUDP(p.Key, nonce, m, payload, pad1, pad2, lePad)
	p.Emitted = append(p.Emitted, e)
	return e, nil
}

// UDPRoom is how many bytes of paddings still fit next to a payload of n bytes (encoded with the
// low-entropy mode, 0 = none) in a datagram of at most limit bytes; negative = the payload does
// not fit.
func UDPRoom(limit, n int, mode uint8) int {
	body := n
	if mode != 0 {
		body = LEEncodedLen(n, mode)
	}
	over := 24 + 48
	if n > 0 {
		over += 16
	}
	return limit - over - body
}

var _ = binary.BigEndian
