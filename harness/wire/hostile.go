package wire

// Raw builders for deliberately inconsistent traffic (C10): the caller states every metadata field,
// including the three length fields, independently of what actually follows the metadata.

// SealRaw is XChaCha20-Poly1305 Seal with an explicit 24-byte nonce.
func SealRaw(key, nonce, pt []byte) []byte { return seal(key, nonce, pt) }

// OpenRaw is XChaCha20-Poly1305 Open with an explicit 24-byte nonce.
func OpenRaw(key, nonce, ct []byte) ([]byte, error) { return open(key, nonce, ct) }

// RawBytes encodes the metadata exactly as given. layout selects the field layout: "session"
// (status, payload length, suffix length at bytes 14..17) or "data" (everything else). Byte 1 and the
// low-entropy fields are written for every protocol type when the data layout is used, so undefined
// protocol numbers can carry arbitrary bytes there.
func (m Meta) RawBytes(sessionLayout bool) []byte {
	b := make([]byte, 32)
	b[0] = m.Proto
	b[1] = m.Byte1
	put32 := func(off int, v uint32) {
		b[off] = byte(v >> 24)
		b[off+1] = byte(v >> 16)
		b[off+2] = byte(v >> 8)
		b[off+3] = byte(v)
	}
	put16 := func(off int, v uint16) { b[off] = byte(v >> 8); b[off+1] = byte(v) }
	put32(2, m.Timestamp)
	put32(6, m.SessionID)
	put32(10, m.Seq)
	if sessionLayout {
		b[14] = m.Status
		put16(15, m.PayloadLen)
		b[17] = m.SuffixLen
		return b
	}
	put32(14, m.UnAck)
	put16(18, m.Window)
	b[20] = m.Fragment
	b[21] = m.PrefixLen
	put16(22, m.PayloadLen)
	b[24] = m.SuffixLen
	put32(25, m.LEMask)
	put16(29, m.ExtractedLen)
	b[31] = m.LERot
	return b
}

// SealUDPRaw builds [nonce ‖ seal(meta) ‖ tail]; tail is whatever the caller wants to follow the
// metadata (padding, ciphertext, tag, garbage), unrelated to the declared lengths.
func SealUDPRaw(key, nonce, meta, tail []byte) []byte {
	out := append([]byte(nil), nonce...)
	out = append(out, seal(key, nonce, meta)...)
	return append(out, tail...)
}

// PayloadCipher returns the ciphertext body and tag of payload under (key, nonce); for a low-entropy
// type the body is expanded with the given parameters.
func PayloadCipher(key, nonce, payload []byte, le bool, mode uint8, half uint32, rot uint8, lePad int) (body, tag []byte) {
	if len(payload) == 0 {
		return nil, nil
	}
	ct := seal(key, nonce, payload)
	body, tag = ct[:len(payload)], ct[len(payload):]
	if le {
		body = LEEncode(body, mode, half, rot, lePad)
	}
	return body, tag
}

// SealRawStream appends one segment to a TCP direction with the metadata exactly as given (lengths
// included) followed by tail. The metadata consumes one nonce value; payloadNonce returns the nonce the
// receiver will use for the payload (call it BEFORE SealRawStream to encrypt a payload that authenticates)
// and consumePayload says whether the receiver will consume a second nonce value (it does iff the
// declared payload length is > 0 and the payload authenticates).
func (e *StreamEncoder) PayloadNonce() []byte {
	n := append([]byte(nil), e.Nonce...)
	IncNonce(n)
	return n
}

func (e *StreamEncoder) SealRawStream(meta, tail []byte, consumePayload bool) []byte {
	var out []byte
	if !e.sent {
		out = append(out, e.Nonce...)
		e.sent = true
	}
	out = append(out, seal(e.Key, e.Nonce, meta)...)
	IncNonce(e.Nonce)
	if consumePayload {
		IncNonce(e.Nonce)
	}
	return append(out, tail...)
}
