// Package wire is a reference codec for the mieru proxy protocol written ONLY from
// docs/protocol.md (plus RFC 8439 / XChaCha20 via golang.org/x/crypto). It shares no code with
// pkg/protocol or pkg/cipher, so a change applied symmetrically to mieru's encoder and decoder is
// still visible to it. The harness uses it to decode every byte / datagram real endpoints emit and
// to produce well-formed (or deliberately hostile) traffic as a third party.
package wire

import (
	"crypto/sha256"
	"encoding/binary"
	"errors"
	"fmt"
	"math/bits"
	"time"

	"golang.org/x/crypto/chacha20poly1305"
	"golang.org/x/crypto/pbkdf2"
)

const (
	OpenSessionRequest   = 2
	OpenSessionResponse  = 3
	CloseSessionRequest  = 4
	CloseSessionResponse = 5
	DataClientToServer   = 6
	DataServerToClient   = 7
	AckClientToServer    = 8
	AckServerToClient    = 9
	DataClientToServerLE = 10
	DataServerToClientLE = 11
)

// HashedPassword = SHA-256(password ‖ 0x00 ‖ username).
func HashedPassword(user, pass string) []byte {
	h := sha256.New()
	h.Write([]byte(pass))
	h.Write([]byte{0})
	h.Write([]byte(user))
	return h.Sum(nil)
}

// RoundTo2Min rounds unix seconds to the nearest multiple of 120 (half rounds up).
func RoundTo2Min(unix int64) int64 {
	return (unix + 60) / 120 * 120
}

// KeyForSlot derives the key for a slot (unix seconds, multiple of 120).
func KeyForSlot(hashedPassword []byte, slot int64) []byte {
	var b [8]byte
	binary.BigEndian.PutUint64(b[:], uint64(slot))
	salt := sha256.Sum256(b[:])
	return pbkdf2.Key(hashedPassword, salt[:], 64, 32, sha256.New)
}

// KeysAt returns the keys for the previous, current and next slot at instant t.
func KeysAt(hashedPassword []byte, t time.Time) [][]byte {
	// the document rounds "unixTime" (seconds); sub-second parts matter only within 1 s of a
	// half-slot boundary, which callers avoid or handle by trying more slots
	s := RoundTo2Min(t.Unix())
	return [][]byte{KeyForSlot(hashedPassword, s-120), KeyForSlot(hashedPassword, s), KeyForSlot(hashedPassword, s+120)}
}

// UserHint returns the 4 bytes that replace the end of the nonce.
func UserHint(user string, nonce []byte) []byte {
	h := sha256.New()
	h.Write([]byte(user))
	h.Write(nonce[:16])
	return h.Sum(nil)[:4]
}

// Meta is the decoded 32-byte metadata (all three layouts).
type Meta struct {
	Proto        uint8
	Byte1        uint8 // low entropy mode for types 10/11
	Timestamp    uint32
	SessionID    uint32
	Seq          uint32
	Status       uint8  // session layout
	UnAck        uint32 // data layout
	Window       uint16
	Fragment     uint8
	PrefixLen    uint8
	PayloadLen   uint16
	SuffixLen    uint8
	LEMask       uint32
	ExtractedLen uint16
	LERot        uint8
}

func (m Meta) IsSession() bool { return m.Proto >= 2 && m.Proto <= 5 }
func (m Meta) IsData() bool    { return m.Proto == 6 || m.Proto == 7 || m.Proto == 10 || m.Proto == 11 }
func (m Meta) IsAck() bool     { return m.Proto == 8 || m.Proto == 9 }
func (m Meta) IsLE() bool      { return m.Proto == 10 || m.Proto == 11 }
func (m Meta) FromClient() bool {
	switch m.Proto {
	case 2, 6, 8, 10:
		return true
	}
	return false
}

// ParseMeta decodes the layouts of docs/protocol.md.
func ParseMeta(b []byte) (Meta, error) {
	var m Meta
	if len(b) != 32 {
		return m, errors.New("metadata is not 32 bytes")
	}
	m.Proto = b[0]
	m.Byte1 = b[1]
	m.Timestamp = binary.BigEndian.Uint32(b[2:])
	m.SessionID = binary.BigEndian.Uint32(b[6:])
	m.Seq = binary.BigEndian.Uint32(b[10:])
	switch {
	case m.IsSession():
		m.Status = b[14]
		m.PayloadLen = binary.BigEndian.Uint16(b[15:])
		m.SuffixLen = b[17]
	case m.IsData() || m.IsAck():
		m.UnAck = binary.BigEndian.Uint32(b[14:])
		m.Window = binary.BigEndian.Uint16(b[18:])
		m.Fragment = b[20]
		m.PrefixLen = b[21]
		m.PayloadLen = binary.BigEndian.Uint16(b[22:])
		m.SuffixLen = b[24]
		if m.IsLE() {
			m.LEMask = binary.BigEndian.Uint32(b[25:])
			m.ExtractedLen = binary.BigEndian.Uint16(b[29:])
			m.LERot = b[31]
		}
	default:
		return m, fmt.Errorf("undefined protocol type %d", b[0])
	}
	return m, nil
}

// Bytes encodes the metadata (unused bytes zero).
func (m Meta) Bytes() []byte {
	b := make([]byte, 32)
	b[0] = m.Proto
	b[1] = m.Byte1
	binary.BigEndian.PutUint32(b[2:], m.Timestamp)
	binary.BigEndian.PutUint32(b[6:], m.SessionID)
	binary.BigEndian.PutUint32(b[10:], m.Seq)
	if m.IsSession() {
		b[14] = m.Status
		binary.BigEndian.PutUint16(b[15:], m.PayloadLen)
		b[17] = m.SuffixLen
		return b
	}
	binary.BigEndian.PutUint32(b[14:], m.UnAck)
	binary.BigEndian.PutUint16(b[18:], m.Window)
	b[20] = m.Fragment
	b[21] = m.PrefixLen
	binary.BigEndian.PutUint16(b[22:], m.PayloadLen)
	b[24] = m.SuffixLen
	if m.IsLE() {
		binary.BigEndian.PutUint32(b[25:], m.LEMask)
		binary.BigEndian.PutUint16(b[29:], m.ExtractedLen)
		b[31] = m.LERot
	}
	return b
}

// Segment is one decoded segment.
type Segment struct {
	Meta
	Payload  []byte // application bytes (after AEAD open and low-entropy decode)
	Nonce    []byte // nonce used for the metadata
	Pad1     []byte
	Pad2     []byte
	WireLen  int // bytes on the wire including nonce if present
	KeyIndex int // which of the candidate keys opened it
}

var leC = map[uint8]int{1: 4, 2: 5, 3: 6, 4: 7}
var leOnes = map[uint8]int{1: 16, 2: 20, 3: 24, 4: 28}

func leRotValid(r uint8) bool {
	return r == 0 || (r >= 1 && r <= 15) || (r >= 16 && r%16 == 0)
}

func leChunkMask(initial uint64, rot uint8, i int) uint64 {
	if rot == 0 || i == 0 {
		return initial
	}
	if rot <= 15 {
		return bits.RotateLeft64(initial, -((i * int(rot)) % 64))
	}
	return bits.RotateLeft64(initial, (i*int(rot/16))%64)
}

// LEDecode removes the low-entropy expansion, bit by bit as the document describes.
func LEDecode(enc []byte, n int, mode uint8, half uint32, rot uint8) ([]byte, error) {
	c, ok := leC[mode]
	if !ok || bits.OnesCount32(half) != leOnes[mode] || !leRotValid(rot) {
		return nil, errors.New("invalid low entropy parameters")
	}
	if n <= 0 || len(enc) != (n+c-1)/c*8 {
		return nil, errors.New("inconsistent low entropy lengths")
	}
	initial := uint64(half)<<32 | uint64(half)
	out := make([]byte, 0, n)
	pol := -1
	for i := 0; i*c < n; i++ {
		sl := c
		if n-i*c < sl {
			sl = n - i*c
		}
		chunk := binary.BigEndian.Uint64(enc[i*8:])
		mask := leChunkMask(initial, rot, i)
		var src uint64
		k := 0
		for pos := 0; pos < 64; pos++ {
			bit := int(chunk >> uint(pos) & 1)
			if mask>>uint(pos)&1 == 1 && k < sl*8 {
				src |= uint64(bit) << uint(k)
				k++
				continue
			}
			if pol == -1 {
				pol = bit
			} else if pol != bit {
				return nil, errors.New("mixed low entropy padding")
			}
		}
		var tmp [8]byte
		binary.BigEndian.PutUint64(tmp[:], src)
		out = append(out, tmp[8-sl:]...)
	}
	return out, nil
}

// LEEncode expands a ciphertext body.
func LEEncode(src []byte, mode uint8, half uint32, rot uint8, pad int) []byte {
	c := leC[mode]
	initial := uint64(half)<<32 | uint64(half)
	var out []byte
	for i := 0; i*c < len(src); i++ {
		part := src[i*c:]
		if len(part) > c {
			part = part[:c]
		}
		var tmp [8]byte
		copy(tmp[8-len(part):], part)
		s := binary.BigEndian.Uint64(tmp[:])
		mask := leChunkMask(initial, rot, i)
		var chunk uint64
		k := 0
		for pos := 0; pos < 64; pos++ {
			if mask>>uint(pos)&1 == 1 && k < len(part)*8 {
				chunk |= (s >> uint(k) & 1) << uint(pos)
				k++
			} else {
				chunk |= uint64(pad) << uint(pos)
			}
		}
		binary.BigEndian.PutUint64(tmp[:], chunk)
		out = append(out, tmp[:]...)
	}
	return out
}

func open(key, nonce, ct []byte) ([]byte, error) {
	a, err := chacha20poly1305.NewX(key)
	if err != nil {
		return nil, err
	}
	return a.Open(nil, nonce, ct, nil)
}

func seal(key, nonce, pt []byte) []byte {
	a, _ := chacha20poly1305.NewX(key)
	return a.Seal(nil, nonce, pt, nil)
}

// OpenUDP decodes one datagram: [nonce 24][meta+tag 48][pad1][payload(+LE) + tag][pad2], one nonce
// for both AEAD operations. The datagram must be consumed exactly.
func OpenUDP(d []byte, keys [][]byte) (*Segment, error) {
	if len(d) < 72 {
		return nil, errors.New("datagram shorter than nonce + metadata")
	}
	nonce := d[:24]
	for ki, key := range keys {
		mb, err := open(key, nonce, d[24:72])
		if err != nil {
			continue
		}
		m, err := ParseMeta(mb)
		if err != nil {
			return nil, err
		}
		seg := &Segment{Meta: m, Nonce: append([]byte(nil), nonce...), WireLen: len(d), KeyIndex: ki}
		rest := d[72:]
		if m.IsSession() {
			if m.PayloadLen > 0 {
				if len(rest) < int(m.PayloadLen)+16 {
					return nil, errors.New("session payload truncated")
				}
				p, err := open(key, nonce, rest[:int(m.PayloadLen)+16])
				if err != nil {
					return nil, errors.New("session payload does not authenticate")
				}
				seg.Payload = p
				rest = rest[int(m.PayloadLen)+16:]
			}
			if len(rest) != int(m.SuffixLen) {
				return nil, fmt.Errorf("suffix length %d, remaining %d", m.SuffixLen, len(rest))
			}
			seg.Pad2 = rest
			return seg, nil
		}
		if len(rest) < int(m.PrefixLen) {
			return nil, errors.New("prefix padding truncated")
		}
		seg.Pad1 = rest[:m.PrefixLen]
		rest = rest[m.PrefixLen:]
		if m.PayloadLen > 0 {
			if len(rest) < int(m.PayloadLen)+16 {
				return nil, errors.New("payload truncated")
			}
			body := rest[:m.PayloadLen]
			tag := rest[int(m.PayloadLen) : int(m.PayloadLen)+16]
			if m.IsLE() {
				body, err = LEDecode(body, int(m.ExtractedLen), m.Byte1, m.LEMask, m.LERot)
				if err != nil {
					return nil, err
				}
			}
			p, err := open(key, nonce, append(append([]byte(nil), body...), tag...))
			if err != nil {
				return nil, errors.New("payload does not authenticate")
			}
			seg.Payload = p
			rest = rest[int(m.PayloadLen)+16:]
		}
		if len(rest) != int(m.SuffixLen) {
			return nil, fmt.Errorf("suffix length %d, remaining %d", m.SuffixLen, len(rest))
		}
		seg.Pad2 = rest
		return seg, nil
	}
	return nil, errors.New("metadata does not authenticate under any candidate key")
}

// SealUDP builds a datagram from a segment description (Payload, Pad1, Pad2 and the metadata fields
// other than the three lengths, which are filled in). For LE types the caller sets Byte1/LEMask/LERot.
func SealUDP(key, nonce []byte, m Meta, payload, pad1, pad2 []byte, lePad int) []byte {
	body := []byte(nil)
	var tag []byte
	if len(payload) > 0 {
		ct := seal(key, nonce, payload)
		body, tag = ct[:len(payload)], ct[len(payload):]
		if m.IsLE() {
			m.ExtractedLen = uint16(len(payload))
			body = LEEncode(body, m.Byte1, m.LEMask, m.LERot, lePad)
		}
	}
	m.PayloadLen = uint16(len(body))
	m.SuffixLen = uint8(len(pad2))
	if !m.IsSession() {
		m.PrefixLen = uint8(len(pad1))
	}
	out := append([]byte(nil), nonce...)
	out = append(out, seal(key, nonce, m.Bytes())...)
	if !m.IsSession() {
		out = append(out, pad1...)
	}
	out = append(out, body...)
	out = append(out, tag...)
	out = append(out, pad2...)
	return out
}

// IncNonce adds one to the 24-byte big-endian counter.
func IncNonce(n []byte) {
	for i := len(n) - 1; i >= 0; i-- {
		n[i]++
		if n[i] != 0 {
			return
		}
	}
}

// StreamDecoder decodes one direction of a TCP connection.
type StreamDecoder struct {
	Keys   [][]byte
	key    []byte
	nonce  []byte
	buf    []byte
	Err    error
	Offset int // bytes consumed so far
	First  []byte
}

// Feed appends bytes and returns the segments completed by them.
func (s *StreamDecoder) Feed(b []byte) []*Segment {
	s.buf = append(s.buf, b...)
	var out []*Segment
	for s.Err == nil {
		seg, n := s.one()
		if seg == nil {
			break
		}
		s.buf = s.buf[n:]
		s.Offset += n
		out = append(out, seg)
	}
	return out
}

// Pending reports how many undecoded bytes are buffered.
func (s *StreamDecoder) Pending() int { return len(s.buf) }

func (s *StreamDecoder) one() (*Segment, int) {
	off := 0
	nonce := s.nonce
	key := s.key
	ki := 0
	if nonce == nil {
		if len(s.buf) < 24+48 {
			return nil, 0
		}
		nonce = append([]byte(nil), s.buf[:24]...)
		off = 24
	} else if len(s.buf) < 48 {
		return nil, 0
	}
	var mb []byte
	if key == nil {
		for i, k := range s.Keys {
			if p, err := open(k, nonce, s.buf[off:off+48]); err == nil {
				mb, key, ki = p, k, i
				break
			}
		}
		if mb == nil {
			s.Err = errors.New("first metadata does not authenticate under any candidate key")
			return nil, 0
		}
	} else {
		p, err := open(key, nonce, s.buf[off:off+48])
		if err != nil {
			s.Err = fmt.Errorf("metadata at stream offset %d does not authenticate", s.Offset)
			return nil, 0
		}
		mb = p
	}
	m, err := ParseMeta(mb)
	if err != nil {
		s.Err = err
		return nil, 0
	}
	seg := &Segment{Meta: m, Nonce: append([]byte(nil), nonce...), KeyIndex: ki}
	pos := off + 48
	need := pos + int(m.SuffixLen)
	if !m.IsSession() {
		need += int(m.PrefixLen)
	}
	if m.PayloadLen > 0 {
		need += int(m.PayloadLen) + 16
	}
	if len(s.buf) < need {
		return nil, 0
	}
	// commit: the metadata consumed one nonce value
	n2 := append([]byte(nil), nonce...)
	IncNonce(n2)
	if !m.IsSession() {
		seg.Pad1 = s.buf[pos : pos+int(m.PrefixLen)]
		pos += int(m.PrefixLen)
	}
	if m.PayloadLen > 0 {
		body := s.buf[pos : pos+int(m.PayloadLen)]
		tag := s.buf[pos+int(m.PayloadLen) : pos+int(m.PayloadLen)+16]
		if m.IsLE() {
			body, err = LEDecode(body, int(m.ExtractedLen), m.Byte1, m.LEMask, m.LERot)
			if err != nil {
				s.Err = err
				return nil, 0
			}
		}
		p, err := open(key, n2, append(append([]byte(nil), body...), tag...))
		if err != nil {
			s.Err = fmt.Errorf("payload at stream offset %d does not authenticate", s.Offset)
			return nil, 0
		}
		seg.Payload = p
		IncNonce(n2)
		pos += int(m.PayloadLen) + 16
	}
	seg.Pad2 = s.buf[pos : pos+int(m.SuffixLen)]
	pos += int(m.SuffixLen)
	seg.WireLen = pos
	s.key, s.nonce = key, n2
	return seg, pos
}

// StreamEncoder produces one direction of a TCP connection as a third party.
type StreamEncoder struct {
	Key   []byte
	Nonce []byte // current nonce; the first segment is prefixed with it
	sent  bool
}

func (e *StreamEncoder) Seal(m Meta, payload, pad1, pad2 []byte, lePad int) []byte {
	var out []byte
	if !e.sent {
		out = append(out, e.Nonce...)
		e.sent = true
	}
	var body, tag []byte
	mn := append([]byte(nil), e.Nonce...)
	IncNonce(e.Nonce)
	if len(payload) > 0 {
		ct := seal(e.Key, e.Nonce, payload)
		IncNonce(e.Nonce)
		body, tag = ct[:len(payload)], ct[len(payload):]
		if m.IsLE() {
			m.ExtractedLen = uint16(len(payload))
			body = LEEncode(body, m.Byte1, m.LEMask, m.LERot, lePad)
		}
	}
	m.PayloadLen = uint16(len(body))
	m.SuffixLen = uint8(len(pad2))
	if !m.IsSession() {
		m.PrefixLen = uint8(len(pad1))
	}
	out = append(out, seal(e.Key, mn, m.Bytes())...)
	if !m.IsSession() {
		out = append(out, pad1...)
	}
	out = append(out, body...)
	out = append(out, tag...)
	out = append(out, pad2...)
	return out
}
