package sim

import (
	"math/rand"
	"sync"
	"time"

	"verifharness/simnet"
)

// FaultSpec describes what the network does to datagrams. Positions are per-direction indices
// (0 = first datagram the client sent to the server, resp. the server to the client).
type FaultSpec struct {
	DropC2S  []int   `json:"drop_c2s,omitempty"`
	DropS2C  []int   `json:"drop_s2c,omitempty"`
	DupC2S   []int   `json:"dup_c2s,omitempty"`
	DupS2C   []int   `json:"dup_s2c,omitempty"`
	DelayC2S []int   `json:"delay_c2s,omitempty"` // held back DelayMs (overtaken by later datagrams)
	DelayS2C []int   `json:"delay_s2c,omitempty"`
	DelayMs  int     `json:"delay_ms,omitempty"`
	Loss     float64 `json:"loss,omitempty"` // random, both directions
	Dup      float64 `json:"dup,omitempty"`
	Reorder  float64 `json:"reorder,omitempty"` // fraction delayed by a random 1..DelayMs
	Seed     int64   `json:"seed"`
	// LatencyMs delays every delivery (both directions): a long path
	LatencyMs int `json:"latency_ms,omitempty"`
	// RateKBps, if > 0, serialises each direction at this bandwidth (datagrams queue behind each
	// other instead of arriving in one burst)
	RateKBps int `json:"rate_kbps,omitempty"`
	// Burst: drop every datagram with BurstFrom <= dir index < BurstTo in the given direction
	BurstS2CFrom int `json:"burst_s2c_from,omitempty"`
	BurstS2CTo   int `json:"burst_s2c_to,omitempty"`
	BurstC2SFrom int `json:"burst_c2s_from,omitempty"`
	BurstC2STo   int `json:"burst_c2s_to,omitempty"`
}

func has(xs []int, x int) bool {
	for _, y := range xs {
		if y == x {
			return true
		}
	}
	return false
}

// Plan builds the simnet plan for a spec. serverPort identifies the direction.
func (f FaultSpec) Plan(serverAddr string) func(d *simnet.Datagram) []simnet.Delivery {
	var mu sync.Mutex
	rng := rand.New(rand.NewSource(f.Seed))
	delay := f.DelayMs
	if delay <= 0 {
		delay = 30
	}
	var free [2]time.Time // when each direction's link is free again
	return func(d *simnet.Datagram) []simnet.Delivery {
		mu.Lock()
		defer mu.Unlock()
		c2s := d.To == serverAddr
		queue := time.Duration(0)
		if f.RateKBps > 0 {
			i := 0
			if c2s {
				i = 1
			}
			now := time.Now()
			if free[i].Before(now) {
				free[i] = now
			}
			free[i] = free[i].Add(time.Duration(len(d.Data)) * time.Second / time.Duration(f.RateKBps*1000))
			queue = free[i].Sub(now)
		}
		drop, dup, del := f.DropS2C, f.DupS2C, f.DelayS2C
		bf, bt := f.BurstS2CFrom, f.BurstS2CTo
		if c2s {
			drop, dup, del = f.DropC2S, f.DupC2S, f.DelayC2S
			bf, bt = f.BurstC2SFrom, f.BurstC2STo
		}
		if has(drop, d.DirIndex) || (bt > bf && d.DirIndex >= bf && d.DirIndex < bt) {
			d.Fate = "drop"
			return nil
		}
		if f.Loss > 0 && rng.Float64() < f.Loss {
			d.Fate = "drop-random"
			return nil
		}
		out := []simnet.Delivery{{Delay: queue + time.Duration(f.LatencyMs)*time.Millisecond}}
		if has(del, d.DirIndex) {
			out[0].Delay += time.Duration(delay) * time.Millisecond
			d.Fate = "delay"
		} else if f.Reorder > 0 && rng.Float64() < f.Reorder {
			out[0].Delay += time.Duration(1+rng.Intn(delay)) * time.Millisecond
			d.Fate = "delay-random"
		}
		if has(dup, d.DirIndex) || (f.Dup > 0 && rng.Float64() < f.Dup) {
			out = append(out, simnet.Delivery{Delay: time.Duration(f.LatencyMs+rng.Intn(3)) * time.Millisecond})
			d.Fate += "+dup"
		}
		return out
	}
}
