package sim

import (
	"context"
	"fmt"
	"net"
	"sync"
	"time"

	"github.com/enfein/mieru/v3/pkg/protocol"
)

// Observed wraps a pair of endpoints and remembers which connection serves which script, so that a
// transfer's sessions can be inspected while it runs (verif hook protocol.VerifUDPStateOf).
type Observed struct {
	Endpoints
	mu     sync.Mutex
	client map[int]net.Conn
	server map[int]net.Conn
}

func Observe(e Endpoints) *Observed {
	return &Observed{Endpoints: e, client: map[int]net.Conn{}, server: map[int]net.Conn{}}
}

func (o *Observed) DialScript(ctx context.Context, k int) (net.Conn, []byte, error) {
	conn, tag, err := o.Endpoints.DialScript(ctx, k)
	if err == nil && conn != nil {
		o.mu.Lock()
		o.client[k] = conn
		o.mu.Unlock()
	}
	return conn, tag, err
}

func (o *Observed) AcceptScript(n int, timeout time.Duration) (net.Conn, int, error) {
	conn, k, err := o.Endpoints.AcceptScript(n, timeout)
	if err == nil && conn != nil && k >= 0 {
		o.mu.Lock()
		o.server[k] = conn
		o.mu.Unlock()
	}
	return conn, k, err
}

// Pairs returns the (client, server) connections of every script both sides of which exist.
func (o *Observed) Pairs() map[int][2]net.Conn {
	o.mu.Lock()
	defer o.mu.Unlock()
	out := map[int][2]net.Conn{}
	for k, c := range o.client {
		if s, ok := o.server[k]; ok {
			out[k] = [2]net.Conn{c, s}
		}
	}
	return out
}

// WindowSampler samples the sliding-window state of both ends of every session of a running transfer
// and evaluates the cross-endpoint invariants of the sliding window directly on the real state:
//
//	the sender's discard point never passes the receiver's in-order point   (C13 discard-only-acked)
//	the receiver's in-order point never passes what the sender has numbered  (C13 ack-not-ahead)
//	recvBuf + recvQueue ≤ capacity, sendBuf < capacity                       (C02 buffers never overflow)
//
// Soundness of the comparison across two unsynchronised snapshots: every compared quantity is
// monotone; the one that must be smaller is sampled first.
type WindowSampler struct {
	o        *Observed
	stop     chan struct{}
	done     chan struct{}
	mu       sync.Mutex
	Problems map[string]string // finding key suffix -> first description
	Samples  int
	MaxSendBuf, MaxRecvHeld int
	ZeroWindowSeen          int
}

func StartWindowSampler(o *Observed, capacity int, every time.Duration) *WindowSampler {
	w := &WindowSampler{o: o, stop: make(chan struct{}), done: make(chan struct{}), Problems: map[string]string{}}
	go func() {
		defer close(w.done)
		t := time.NewTicker(every)
		defer t.Stop()
		for {
			select {
			case <-w.stop:
				return
			case <-t.C:
			}
			for k, p := range o.Pairs() {
				c1, ok1 := protocol.VerifUDPStateOf(p[0])
				s1, ok2 := protocol.VerifUDPStateOf(p[1])
				c2, ok3 := protocol.VerifUDPStateOf(p[0])
				if !ok1 || !ok2 || !ok3 {
					continue
				}
				w.mu.Lock()
				w.Samples++
				note := func(key, what string) {
					if _, dup := w.Problems[key]; !dup {
						w.Problems[key] = what
					}
				}
				for _, st := range []protocol.VerifUDPState{c1, s1} {
					if st.SendBufLen > w.MaxSendBuf {
						w.MaxSendBuf = st.SendBufLen
					}
					if st.RecvBufLen+st.RecvQueueLen > w.MaxRecvHeld {
						w.MaxRecvHeld = st.RecvBufLen + st.RecvQueueLen
					}
					if st.RemoteWindow == 0 {
						w.ZeroWindowSeen++
					}
					if st.RecvBufLen+st.RecvQueueLen > capacity || st.RecvBufLen > capacity || st.RecvQueueLen > capacity {
						note("receive-buffers-exceed-capacity", fmt.Sprintf("session %d: recvBuf %d + recvQueue %d > %d", k, st.RecvBufLen, st.RecvQueueLen, capacity))
					}
					if st.SendBufLen >= capacity {
						note("send-buffer-full", fmt.Sprintf("session %d: sendBuf holds %d segments", k, st.SendBufLen))
					}
				}
				closed := c1.Closed || s1.Closed || c2.Closed
				if !closed {
					if c1.SendLo > s1.NextRecv {
						note("sender-discarded-unreceived-segment", fmt.Sprintf("session %d client→server: the sender's lowest held sequence number is %d while the receiver's in-order point (sampled later) is %d", k, c1.SendLo, s1.NextRecv))
					}
					if s1.SendLo > c2.NextRecv {
						note("sender-discarded-unreceived-segment", fmt.Sprintf("session %d server→client: the sender's lowest held sequence number is %d while the receiver's in-order point (sampled later) is %d", k, s1.SendLo, c2.NextRecv))
					}
					if s1.NextRecv > c2.NextSend {
						note("receiver-ahead-of-sender-numbering", fmt.Sprintf("session %d client→server: receiver nextRecv %d > sender nextSend %d (sampled later)", k, s1.NextRecv, c2.NextSend))
					}
					if c1.NextRecv > s1.NextSend {
						note("receiver-ahead-of-sender-numbering", fmt.Sprintf("session %d server→client: receiver nextRecv %d > sender nextSend %d (sampled later)", k, c1.NextRecv, s1.NextSend))
					}
				}
				w.mu.Unlock()
			}
		}
	}()
	return w
}

// Stop ends the sampling and returns the sampler for reading.
func (w *WindowSampler) Stop() *WindowSampler {
	close(w.stop)
	<-w.done
	return w
}
