package sim

import (
	"context"
	"fmt"
	"net"
	"time"

	apiclient "github.com/enfein/mieru/v3/apis/client"
	apicommon "github.com/enfein/mieru/v3/apis/common"
	"github.com/enfein/mieru/v3/apis/model"
	apiserver "github.com/enfein/mieru/v3/apis/server"
	"github.com/enfein/mieru/v3/pkg/appctl/appctlpb"
	"google.golang.org/protobuf/proto"
	"verifharness/simnet"
)

// APIWorld runs the exported client and server APIs (apis/client, apis/server) on a simulated
// network: the observation points the properties name (`Client.DialContext` conn, `Server.Accept`
// conn, the byte stream between the injected Dialer and StreamListenerFactory).
type APIWorld struct {
	Cfg    Config
	NoWait bool
	Net    *simnet.Net
	Server apiserver.Server
	Client apiclient.Client
}

func NewAPIWorld(cfg Config, noWait bool) (*APIWorld, error) {
	cfg.defaults()
	w := &APIWorld{Cfg: cfg, NoWait: noWait, Net: simnet.New(cfg.Seed)}
	w.Net.MaxChunk = cfg.MaxChunk
	tp := appctlpb.TransportProtocol_TCP
	if cfg.UDP {
		tp = appctlpb.TransportProtocol_UDP
	}
	var users []*appctlpb.User
	for _, u := range cfg.Users {
		users = append(users, &appctlpb.User{Name: proto.String(u.Name), Password: proto.String(u.Password), Quotas: u.Quotas})
	}
	srv := apiserver.NewServer()
	if err := srv.Store(&apiserver.ServerConfig{
		Config: &appctlpb.ServerConfig{
			PortBindings:   []*appctlpb.PortBinding{{Port: proto.Int32(int32(cfg.Port)), Protocol: &tp}},
			Users:          users,
			Mtu:            proto.Int32(int32(cfg.MTU)),
			TrafficPattern: cfg.ServerPattern,
		},
		StreamListenerFactory: w.Net,
		PacketListenerFactory: simnet.PacketListener{N: w.Net},
	}); err != nil {
		return nil, fmt.Errorf("server store: %w", err)
	}
	if err := srv.Start(); err != nil {
		return nil, fmt.Errorf("server start: %w", err)
	}
	w.Server = srv
	hm := appctlpb.HandshakeMode_HANDSHAKE_STANDARD
	if noWait {
		hm = appctlpb.HandshakeMode_HANDSHAKE_NO_WAIT
	}
	ml := []appctlpb.MultiplexingLevel{appctlpb.MultiplexingLevel_MULTIPLEXING_OFF, appctlpb.MultiplexingLevel_MULTIPLEXING_LOW, appctlpb.MultiplexingLevel_MULTIPLEXING_MIDDLE, appctlpb.MultiplexingLevel_MULTIPLEXING_HIGH}[cfg.Multiplex%4]
	u := cfg.Users[cfg.ClientUser]
	cl := apiclient.NewClient()
	if err := cl.Store(&apiclient.ClientConfig{
		Profile: &appctlpb.ClientProfile{
			ProfileName:    proto.String("verif"),
			User:           &appctlpb.User{Name: proto.String(u.Name), Password: proto.String(u.Password)},
			Servers:        []*appctlpb.ServerEndpoint{{IpAddress: proto.String("10.8.0.1"), PortBindings: []*appctlpb.PortBinding{{Port: proto.Int32(int32(cfg.Port)), Protocol: &tp}}}},
			Mtu:            proto.Int32(int32(cfg.MTU)),
			Multiplexing:   &appctlpb.MultiplexingConfig{Level: &ml},
			HandshakeMode:  &hm,
			TrafficPattern: cfg.ClientPattern,
		},
		Dialer:       w.Net,
		PacketDialer: w.Net,
		Resolver:     apicommon.NilDNSResolver{},
	}); err != nil {
		srv.Stop()
		return nil, fmt.Errorf("client store: %w", err)
	}
	if err := cl.Start(); err != nil {
		srv.Stop()
		return nil, fmt.Errorf("client start: %w", err)
	}
	w.Client = cl
	return w, nil
}

func (w *APIWorld) Close() {
	done := make(chan struct{})
	go func() { w.Client.Stop(); w.Server.Stop(); close(done) }()
	select {
	case <-done:
	case <-time.After(20 * time.Second):
	}
}

// Dial opens a proxy connection to a (fictitious) TCP destination.
func (w *APIWorld) Dial(ctx context.Context, dst *net.TCPAddr) (net.Conn, error) {
	return w.Client.DialContext(ctx, dst)
}

// AcceptAndReply plays the proxy application on the server side: accept one proxy connection, read
// its SOCKS5 request (done inside Accept) and answer "succeeded".
func (w *APIWorld) AcceptAndReply() (net.Conn, *model.Request, error) {
	conn, req, err := w.Server.Accept()
	if err != nil {
		return nil, nil, err
	}
	reply := []byte{5, 0, 0, 1, 0, 0, 0, 0, 0, 0}
	if _, err := conn.Write(reply); err != nil {
		return conn, req, err
	}
	return conn, req, nil
}
