package sim

import (
	"bytes"
	"context"
	"encoding/binary"
	"fmt"
	"io"
	"net"
	"regexp"
	"runtime/pprof"
	"sort"
	"strings"
	"time"
)

// Helpers for the close / leak scenarios (C15).

const mieruPkg = "github.com/enfein/mieru"

// MieruGoroutines returns the stack of every goroutine that has a frame of the project under test.
func MieruGoroutines() []string {
	var buf bytes.Buffer
	pprof.Lookup("goroutine").WriteTo(&buf, 2)
	var out []string
	for _, g := range strings.Split(buf.String(), "\n\n") {
		if strings.Contains(g, mieruPkg) {
			out = append(out, g)
		}
	}
	return out
}

var frameRe = regexp.MustCompile(`github\.com/enfein/mieru/v3/([\w/]+)\.(\(\*?\w+\)\.)?([\w.]+)\(`)

// GoroutineSig names a goroutine by the functions of the project on its stack, innermost first,
// e.g. "PacketUnderlay.readOneSegment<PacketUnderlay.RunEventLoop<Mux.newUnderlay.func1". Addresses,
// arguments and goroutine ids are dropped, so the signature is stable across runs.
func GoroutineSig(stack string) string {
	var fs []string
	for _, m := range frameRe.FindAllStringSubmatch(stack, -1) {
		recv := strings.Trim(m[2], "(*).")
		name := m[3]
		if recv != "" {
			name = recv + "." + name
		}
		if len(fs) == 0 || fs[len(fs)-1] != name {
			fs = append(fs, name)
		}
	}
	if len(fs) > 4 {
		fs = fs[:4]
	}
	return strings.Join(fs, "<")
}

// GoroutineSigs returns the sorted multiset of signatures of the project's goroutines.
func GoroutineSigs() []string {
	var out []string
	for _, g := range MieruGoroutines() {
		out = append(out, GoroutineSig(g))
	}
	sort.Strings(out)
	return out
}

// Pair opens one proxy connection and returns both ends after a round trip (the client wrote a
// 4-byte tag that the server application read, the server answered one byte that the client read),
// so both sessions are established and no implicit deadline is pending. Calls must not overlap on
// one world: the accepted connection is matched to the dialled one by order.
func (w *World) Pair(tag uint32, timeout time.Duration) (client, server net.Conn, err error) {
	type acc struct {
		c   net.Conn
		err error
	}
	ch := make(chan acc, 1)
	go func() {
		c, err := w.Server.Accept()
		ch <- acc{c, err}
	}()
	ctx, cancel := context.WithTimeout(context.Background(), timeout)
	defer cancel()
	cl, err := w.Dial(ctx)
	if err != nil {
		return nil, nil, fmt.Errorf("dial: %w", err)
	}
	var t [4]byte
	binary.BigEndian.PutUint32(t[:], tag)
	if _, err := cl.Write(t[:]); err != nil {
		return nil, nil, fmt.Errorf("first write: %w", err)
	}
	var a acc
	select {
	case a = <-ch:
	case <-time.After(timeout):
		return nil, nil, fmt.Errorf("accept: nothing within %v", timeout)
	}
	if a.err != nil {
		return nil, nil, fmt.Errorf("accept: %w", a.err)
	}
	a.c.SetReadDeadline(time.Now().Add(timeout))
	var got [4]byte
	if _, err := io.ReadFull(a.c, got[:]); err != nil {
		return nil, nil, fmt.Errorf("server read of the tag: %w", err)
	}
	a.c.SetReadDeadline(time.Time{})
	if got != t {
		return nil, nil, fmt.Errorf("accepted connection carries tag %x, want %x", got, t)
	}
	if _, err := a.c.Write([]byte{0x6b}); err != nil {
		return nil, nil, fmt.Errorf("server answer: %w", err)
	}
	cl.SetReadDeadline(time.Now().Add(timeout))
	var one [1]byte
	if _, err := io.ReadFull(cl, one[:]); err != nil {
		return nil, nil, fmt.Errorf("client read of the answer: %w", err)
	}
	cl.SetReadDeadline(time.Time{})
	return cl, a.c, nil
}

// Fault makes the underlying network fail abruptly: every established stream connection is reset
// (TCP), every client packet endpoint becomes a black hole (UDP). It returns how many were hit.
func (w *World) Fault() int {
	n := 0
	if w.Cfg.UDP {
		for _, p := range w.Net.PacketEndpoints() {
			if p.Port() != w.Cfg.Port {
				p.SetBlackHole(true)
				n++
			}
		}
		return n
	}
	for _, c := range w.Net.StreamConns() {
		c.Reset()
		n++
	}
	return n
}
