package sim

import (
	"encoding/hex"
	"math/rand"

	"github.com/enfein/mieru/v3/pkg/appctl/appctlpb"
	"google.golang.org/protobuf/proto"
)

// RandomPattern draws a valid TrafficPattern: every sub-message independently absent / partly /
// fully explicit, with the boundary values the properties name.
func RandomPattern(r *rand.Rand, allowTCPFragment bool) *appctlpb.TrafficPattern {
	if r.Intn(6) == 0 {
		return nil
	}
	p := &appctlpb.TrafficPattern{}
	if r.Intn(2) == 0 {
		p.Seed = proto.Int32(int32(r.Intn(1 << 20)))
	}
	if r.Intn(3) == 0 {
		p.UnlockAll = proto.Bool(r.Intn(2) == 0)
	}
	if r.Intn(2) == 0 {
		p.TcpFragment = &appctlpb.TCPFragment{Enable: proto.Bool(allowTCPFragment && r.Intn(2) == 0)}
		if r.Intn(2) == 0 {
			p.TcpFragment.MaxSleepMs = proto.Int32(int32(r.Intn(3)))
		} else if p.TcpFragment.GetEnable() {
			p.TcpFragment.MaxSleepMs = proto.Int32(1)
		}
	} else {
		// implicit generation may switch fragmentation (with sleeps) on; keep runs fast and
		// deterministic in duration by pinning it off unless explicitly drawn above
		p.TcpFragment = &appctlpb.TCPFragment{Enable: proto.Bool(false)}
	}
	if r.Intn(2) == 0 {
		n := &appctlpb.NoncePattern{}
		ty := appctlpb.NonceType(r.Intn(5))
		if _, ok := appctlpb.NonceType_name[int32(ty)]; ok {
			n.Type = &ty
		}
		if r.Intn(2) == 0 {
			n.ApplyToAllUDPPacket = proto.Bool(r.Intn(2) == 0)
		}
		if r.Intn(2) == 0 {
			mx := r.Intn(13)
			mn := r.Intn(mx + 1)
			n.MinLen = proto.Int32(int32(mn))
			n.MaxLen = proto.Int32(int32(mx))
		}
		if n.GetType() == appctlpb.NonceType_NONCE_TYPE_FIXED {
			k := 1 + r.Intn(3)
			for i := 0; i < k; i++ {
				b := make([]byte, 1+r.Intn(12))
				r.Read(b)
				n.CustomHexStrings = append(n.CustomHexStrings, hex.EncodeToString(b))
			}
		}
		p.Nonce = n
	}
	if r.Intn(3) != 0 {
		pd := &appctlpb.PaddingPattern{}
		vals := []int32{0, 0, 1, 17, 100, 255, 255}
		if r.Intn(4) != 0 {
			pd.MaxMiddlePaddingLen = proto.Int32(vals[r.Intn(len(vals))])
		}
		if r.Intn(4) != 0 {
			pd.MaxEndPaddingLen = proto.Int32(vals[r.Intn(len(vals))])
		}
		p.Padding = pd
	}
	if r.Intn(2) == 0 {
		le := &appctlpb.LowEntropyPattern{}
		m := appctlpb.LowEntropyMode(r.Intn(5))
		le.Mode = &m
		if r.Intn(3) != 0 {
			rots := []int32{0}
			for i := int32(1); i <= 15; i++ {
				rots = append(rots, i, 16*i)
			}
			rot := appctlpb.LowEntropyMaskRotation(rots[r.Intn(len(rots))])
			le.MaskRotation = &rot
		}
		p.LowEntropy = le
	} else {
		// implicit generation can turn low entropy on; both outcomes are wanted, leave it implicit
	}
	return p
}

// BoundarySizes are the write sizes the properties name.
var BoundarySizes = []int{0, 1, 2, 1019, 1020, 1021, 1023, 1024, 1025, 32759, 32760, 32761, 32763, 32764, 32765, 32767, 32768, 32769, 65536}

// RandomWrites draws a sequence of write sizes with total at most budget.
func RandomWrites(r *rand.Rand, maxWrites, budget int) []int {
	n := r.Intn(maxWrites + 1)
	var ws []int
	total := 0
	for i := 0; i < n; i++ {
		var s int
		switch r.Intn(4) {
		case 0:
			s = BoundarySizes[r.Intn(len(BoundarySizes))]
		case 1:
			s = r.Intn(64)
		case 2:
			s = r.Intn(4096)
		default:
			s = r.Intn(70000)
		}
		if total+s > budget {
			s = budget - total
		}
		ws = append(ws, s)
		total += s
	}
	return ws
}
