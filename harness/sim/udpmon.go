package sim

import (
	"crypto/sha256"
	"encoding/binary"
	"fmt"
	"sort"
	"strings"

	"verifharness/simnet"
	"verifharness/wire"
)

// UDPAudit is what the wire monitor extracted from one UDP run.
type UDPAudit struct {
	Undecodable   []string            // emitted datagrams the reference codec could not decode
	OverMTU       []string            // datagrams longer than the MTU
	AckAhead      []string            // cumulative ack larger than the contiguous prefix handed to the emitter
	ContentDrift  []string            // two transmissions of one (session, direction, seq) that differ
	SeqGaps       []string            // first transmissions not in 0,1,2,… order
	AckRegress    []string            // (informational) cumulative ack decreased between two emissions
	Histories     map[string][]string // (session,direction) -> acceptor event tokens
	SegBytes      map[string][]int    // (session,direction) -> payload length per seq
	Datagrams     int
	Retransmitted int
	Types         map[uint8]int
	MaxLen        int
	PadMid        map[string]int // max prefix padding seen per direction
	PadEnd        map[string]int
	LETypes       map[string]int
	Head          map[string][]byte // first payload bytes of each (session,direction) stream, in sequence order
	// Payloads: (session,direction) -> payload of each numbered segment as FIRST transmitted, in
	// sequence order (what the application's byte stream was cut into)
	Payloads map[string][][]byte
	// CloseDrift: two transmissions of one close request (session, direction, seq) that differ in
	// type or status code
	CloseDrift []string
	CloseRetransmitted int
}

type segKey struct {
	sid uint32
	c2s bool
}

func (k segKey) String() string {
	d := "s2c"
	if k.c2s {
		d = "c2s"
	}
	return fmt.Sprintf("%08x/%s", k.sid, d)
}

func digest(s *wire.Segment) uint64 {
	h := sha256.New()
	h.Write([]byte{s.Proto, s.Fragment, s.Status})
	h.Write(s.Payload)
	return binary.BigEndian.Uint64(h.Sum(nil)[:8]) >> 4
}

func numbered(s *wire.Segment) bool {
	return s.IsData() || s.Proto == wire.OpenSessionRequest || s.Proto == wire.OpenSessionResponse
}

// AuditUDP decodes every datagram and every delivery of a run and evaluates the wire-level
// predicates of C02/C13/C14/C16 directly; it also builds, per session and direction, the event
// history for the Lean acceptor.
func (w *World) AuditUDP() *UDPAudit {
	a := &UDPAudit{Payloads: map[string][][]byte{}, Head: map[string][]byte{}, Histories: map[string][]string{}, SegBytes: map[string][]int{}, Types: map[uint8]int{}, PadMid: map[string]int{}, PadEnd: map[string]int{}, LETypes: map[string]int{}}
	w.Net.Lock()
	ds := append([]*simnet.Datagram(nil), w.Net.Datagrams...)
	evs := append([]simnet.Event(nil), w.Net.Events...)
	w.Net.Unlock()
	keys := w.AllKeys()
	server := w.serverAddr().String()
	a.Datagrams = len(ds)

	type item struct {
		order  int // position in merged order
		isEmit bool
		seg    *wire.Segment
		c2s    bool   // direction of travel
		end    string // endpoint address that emitted (isEmit) or read it
		idx    int
	}
	decoded := make([]*wire.Segment, len(ds))
	for i, d := range ds {
		seg, err := wire.OpenUDP(d.Data, keys)
		if err != nil {
			a.Undecodable = append(a.Undecodable, fmt.Sprintf("datagram #%d %s→%s len %d: %v", d.Index, d.From, d.To, len(d.Data), err))
			continue
		}
		decoded[i] = seg
		a.Types[seg.Proto]++
		if len(d.Data) > a.MaxLen {
			a.MaxLen = len(d.Data)
		}
		if len(d.Data) > w.Cfg.MTU {
			a.OverMTU = append(a.OverMTU, fmt.Sprintf("datagram #%d type %d: %d bytes > MTU %d (payload %d, prefix %d, suffix %d)", d.Index, seg.Proto, len(d.Data), w.Cfg.MTU, seg.PayloadLen, seg.PrefixLen, seg.SuffixLen))
		}
		dir := "s2c"
		if d.To == server {
			dir = "c2s"
		}
		if int(seg.PrefixLen) > a.PadMid[dir] {
			a.PadMid[dir] = int(seg.PrefixLen)
		}
		if int(seg.SuffixLen) > a.PadEnd[dir] {
			a.PadEnd[dir] = int(seg.SuffixLen)
		}
		if seg.IsLE() {
			a.LETypes[dir]++
		}
	}
	// merge emissions and deliveries into one order (see simnet.Event.DatagramsSoFar)
	var items []item
	for i, d := range ds {
		if decoded[i] == nil {
			continue
		}
		items = append(items, item{order: 2*i + 1, isEmit: true, seg: decoded[i], c2s: d.To == server, end: d.From, idx: i})
	}
	for _, e := range evs {
		seg, err := wire.OpenUDP(e.Data, keys)
		if err != nil {
			continue // tampered or injected: not part of the honest history
		}
		items = append(items, item{order: 2 * e.DatagramsSoFar, isEmit: false, seg: seg, c2s: e.To == server, end: e.To, idx: e.Src})
	}
	sort.SliceStable(items, func(i, j int) bool { return items[i].order < items[j].order })

	first := map[segKey]map[uint32]uint64{} // content of each seq at first transmission
	nextFirst := map[segKey]uint32{}        // next expected first-transmission seq
	handed := map[segKey]map[uint32]bool{}  // seqs handed to the receiver of direction key
	lastAck := map[segKey]uint32{}
	closeFirst := map[segKey]map[uint32][2]uint8{} // close requests: seq -> (type, status) at first transmission
	for _, it := range items {
		s := it.seg
		k := segKey{s.SessionID, it.c2s}
		rev := segKey{s.SessionID, !it.c2s}
		if it.isEmit {
			if s.Proto == wire.CloseSessionRequest {
				// a graceful close request takes a number from nextSend, travels through sendQueue and
				// sendBuf and is retransmitted like data: its copies must agree too
				if closeFirst[k] == nil {
					closeFirst[k] = map[uint32][2]uint8{}
				}
				if old, ok := closeFirst[k][s.Seq]; ok {
					a.CloseRetransmitted++
					if old != [2]uint8{s.Proto, s.Status} || len(s.Payload) != 0 {
						a.CloseDrift = append(a.CloseDrift, fmt.Sprintf("session %v seq %d: close request retransmitted as type %d status %d payload %d, first transmission was type %d status %d", k, s.Seq, s.Proto, s.Status, len(s.Payload), old[0], old[1]))
					}
				} else {
					closeFirst[k][s.Seq] = [2]uint8{s.Proto, s.Status}
				}
			}
			if numbered(s) {
				if first[k] == nil {
					first[k] = map[uint32]uint64{}
				}
				dg := digest(s)
				if old, ok := first[k][s.Seq]; ok {
					a.Retransmitted++
					if old != dg {
						a.ContentDrift = append(a.ContentDrift, fmt.Sprintf("session %v seq %d: retransmission differs from first transmission (type %d fragment %d len %d)", k, s.Seq, s.Proto, s.Fragment, len(s.Payload)))
					}
				} else {
					if s.Seq != nextFirst[k] {
						a.SeqGaps = append(a.SeqGaps, fmt.Sprintf("session %v: first transmission of seq %d while %d was expected", k, s.Seq, nextFirst[k]))
					}
					nextFirst[k] = s.Seq + 1
					first[k][s.Seq] = dg
					a.Histories[k.String()] = append(a.Histories[k.String()], fmt.Sprintf("w:%d", dg))
					a.SegBytes[k.String()] = append(a.SegBytes[k.String()], len(s.Payload))
					a.Payloads[k.String()] = append(a.Payloads[k.String()], s.Payload)
					if len(a.Head[k.String()]) < 8 {
						a.Head[k.String()] = append(a.Head[k.String()], s.Payload...)
						if len(a.Head[k.String()]) > 8 {
							a.Head[k.String()] = a.Head[k.String()][:8]
						}
					}
				}
				a.Histories[k.String()] = append(a.Histories[k.String()], fmt.Sprintf("s:%d:%d", s.Seq, dg))
			}
			if s.IsData() || s.IsAck() {
				// this datagram acknowledges the reverse direction
				contig := uint32(0)
				for handed[rev][contig] {
					contig++
				}
				if s.UnAck > contig {
					a.AckAhead = append(a.AckAhead, fmt.Sprintf("session %v: datagram #%d (type %d) carries unAckSeq %d but only %d contiguous segments had been handed to its sender", rev, it.idx, s.Proto, s.UnAck, contig))
				}
				if s.UnAck < lastAck[rev] {
					a.AckRegress = append(a.AckRegress, fmt.Sprintf("session %v: unAckSeq %d after %d", rev, s.UnAck, lastAck[rev]))
				} else {
					lastAck[rev] = s.UnAck
				}
				a.Histories[rev.String()] = append(a.Histories[rev.String()], fmt.Sprintf("a:%d", s.UnAck))
			}
		} else {
			if numbered(s) {
				if handed[k] == nil {
					handed[k] = map[uint32]bool{}
				}
				handed[k][s.Seq] = true
				a.Histories[k.String()] = append(a.Histories[k.String()], fmt.Sprintf("d:%d:%d", s.Seq, digest(s)))
			}
			if s.IsData() || s.IsAck() {
				a.Histories[rev.String()] = append(a.Histories[rev.String()], fmt.Sprintf("i:%d", s.UnAck))
			}
		}
	}
	return a
}

// Problems lists the direct wire-level violations (C13 / C14 clauses).
func (a *UDPAudit) Problems() map[string][]string {
	return map[string][]string{
		"ack-ahead-of-receipt":             a.AckAhead,
		"retransmission-changed-content":   a.ContentDrift,
		"sequence-numbers-not-consecutive": a.SeqGaps,
		"datagram-exceeds-mtu":             a.OverMTU,
	}
}

func (a *UDPAudit) String() string {
	var sb strings.Builder
	fmt.Fprintf(&sb, "%d datagrams, %d retransmissions, max %d bytes", a.Datagrams, a.Retransmitted, a.MaxLen)
	return sb.String()
}
