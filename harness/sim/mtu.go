package sim

import (
	"fmt"

	apicommon "github.com/enfein/mieru/v3/apis/common"
	"github.com/enfein/mieru/v3/apis/trafficpattern"
	"github.com/enfein/mieru/v3/pkg/protocol"
)

// NewWorldMTUs is NewWorld with a client whose MTU differs from the server's (cfg.MTU). The MTU of a
// mieru endpoint is a LOCAL sending limit: nothing is negotiated, so two ends with different legal
// MTUs must interoperate (each end has to accept datagrams up to the largest legal MTU, not its own).
// World.Cfg.MTU stays the server's MTU; ClientMTUOf reports the client's.
func NewWorldMTUs(cfg Config, clientMTU int) (*World, error) {
	w, err := NewWorld(cfg)
	if err != nil {
		return nil, err
	}
	if clientMTU == 0 || clientMTU == w.Cfg.MTU {
		return w, nil
	}
	cl := protocol.NewMux(true)
	cl.SetDialer(w.Net)
	cl.SetPacketDialer(w.Net)
	cl.SetResolver(apicommon.NilDNSResolver{})
	ctp, err := trafficpattern.NewConfig(w.Cfg.ClientPattern)
	if err != nil {
		w.Close()
		return nil, fmt.Errorf("client traffic pattern: %w", err)
	}
	cl.SetTrafficPattern(ctp)
	u := w.Cfg.Users[w.Cfg.ClientUser]
	cl.SetClientUserNamePassword(u.Name, u.Hashed())
	cl.SetClientMultiplexFactor(w.Cfg.Multiplex)
	cl.SetEndpoints([]protocol.UnderlayProperties{protocol.NewUnderlayProperties(clientMTU, transport(w.Cfg.UDP), nil, w.serverAddr())})
	w.mu.Lock()
	w.extra = append(w.extra, cl) // the unused same-MTU client made by NewWorld stays in extra and is closed with the world
	w.mu.Unlock()
	w.Client = cl
	return w, nil
}
