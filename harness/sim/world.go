// Package sim builds real mieru endpoints (protocol.Mux client and server, or the apis client/server)
// on top of simnet, and decodes what they put on the wire with the independent reference codec.
package sim

import (
	"context"
	"encoding/hex"
	"fmt"
	"net"
	"sync"
	"time"

	apicommon "github.com/enfein/mieru/v3/apis/common"
	"github.com/enfein/mieru/v3/apis/trafficpattern"
	"github.com/enfein/mieru/v3/pkg/appctl/appctlpb"
	"github.com/enfein/mieru/v3/pkg/cipher"
	"github.com/enfein/mieru/v3/pkg/common"
	"github.com/enfein/mieru/v3/pkg/log"
	"github.com/enfein/mieru/v3/pkg/protocol"
	"google.golang.org/protobuf/proto"
	"verifharness/simnet"
	"verifharness/wire"
)

func init() {
	// the endpoints log to stdout by default; the harness owns stdout
	log.SetFormatter(&log.NilFormatter{})
}

type User struct {
	Name     string
	Password string
	Quotas   []*appctlpb.Quota
	// HashedHex, if set, is used instead of Password (hex of SHA-256(password‖0‖name)); it lets two
	// users share one credential.
	HashedHex string
}

// Hashed returns the user's hashed password.
func (u User) Hashed() []byte {
	if u.HashedHex != "" {
		b, _ := hex.DecodeString(u.HashedHex)
		return b
	}
	return cipher.HashPassword([]byte(u.Password), []byte(u.Name))
}

type Config struct {
	UDP           bool
	MTU           int
	ClientPattern *appctlpb.TrafficPattern
	ServerPattern *appctlpb.TrafficPattern
	Users         []User // registered on the server; the client uses Users[ClientUser]
	ClientUser    int
	Multiplex     int // client multiplex factor 0..3
	HintMandatory bool
	Port          int
	Seed          int64
	MaxChunk      int
}

type World struct {
	Cfg    Config
	Net    *simnet.Net
	Server *protocol.Mux
	Client *protocol.Mux
	Start  time.Time
	mu     sync.Mutex
	extra  []*protocol.Mux
}

func (c *Config) defaults() {
	if c.MTU == 0 {
		c.MTU = 1400
	}
	if len(c.Users) == 0 {
		c.Users = []User{{Name: "alice", Password: "alice-secret"}}
	}
	if c.Port == 0 {
		c.Port = 8964
	}
}

func pbUsers(us []User) map[string]*appctlpb.User {
	m := map[string]*appctlpb.User{}
	for _, u := range us {
		if u.HashedHex != "" {
			m[u.Name] = &appctlpb.User{Name: proto.String(u.Name), HashedPassword: proto.String(u.HashedHex), Quotas: u.Quotas}
		} else {
			m[u.Name] = &appctlpb.User{Name: proto.String(u.Name), Quotas: u.Quotas}
			if u.Password != "" {
				m[u.Name].Password = proto.String(u.Password) // a user record may carry no password at all
			}
		}
	}
	return m
}

// PBUsers converts users to the map Mux.SetServerUsers takes.
func PBUsers(us []User) map[string]*appctlpb.User { return pbUsers(us) }

func (w *World) serverAddr() net.Addr {
	if w.Cfg.UDP {
		return &net.UDPAddr{IP: net.IPv4(10, 8, 0, 1), Port: w.Cfg.Port}
	}
	return &net.TCPAddr{IP: net.IPv4(10, 8, 0, 1), Port: w.Cfg.Port}
}

func transport(udp bool) common.TransportProtocol {
	if udp {
		return common.PacketTransport
	}
	return common.StreamTransport
}

// NewWorld starts a server mux and prepares a client mux on a fresh simulated network.
func NewWorld(cfg Config) (*World, error) {
	cfg.defaults()
	w := &World{Cfg: cfg, Net: simnet.New(cfg.Seed), Start: time.Now()}
	w.Net.MaxChunk = cfg.MaxChunk
	srv := protocol.NewMux(false)
	srv.SetStreamListenerFactory(w.Net)
	srv.SetPacketListenerFactory(simnet.PacketListener{N: w.Net})
	srv.SetResolver(apicommon.NilDNSResolver{})
	stp, err := trafficpattern.NewConfig(cfg.ServerPattern)
	if err != nil {
		return nil, fmt.Errorf("server traffic pattern: %w", err)
	}
	srv.SetTrafficPattern(stp)
	srv.SetServerUsers(pbUsers(cfg.Users))
	srv.SetServerUserHintIsMandatory(cfg.HintMandatory)
	srv.SetEndpoints([]protocol.UnderlayProperties{protocol.NewUnderlayProperties(cfg.MTU, transport(cfg.UDP), w.serverAddr(), nil)})
	if err := srv.Start(); err != nil {
		return nil, fmt.Errorf("server start: %w", err)
	}
	w.Server = srv
	cl, err := w.NewClient(cfg.ClientUser, cfg.ClientPattern)
	if err != nil {
		srv.Close()
		return nil, err
	}
	w.Client = cl
	return w, nil
}

// NewClient builds one more client mux on the same network (for multi-user scenarios).
func (w *World) NewClient(user int, pattern *appctlpb.TrafficPattern) (*protocol.Mux, error) {
	cfg := w.Cfg
	cl := protocol.NewMux(true)
	cl.SetDialer(w.Net)
	cl.SetPacketDialer(w.Net)
	cl.SetResolver(apicommon.NilDNSResolver{})
	ctp, err := trafficpattern.NewConfig(pattern)
	if err != nil {
		return nil, fmt.Errorf("client traffic pattern: %w", err)
	}
	cl.SetTrafficPattern(ctp)
	u := cfg.Users[user]
	cl.SetClientUserNamePassword(u.Name, u.Hashed())
	cl.SetClientMultiplexFactor(cfg.Multiplex)
	cl.SetEndpoints([]protocol.UnderlayProperties{protocol.NewUnderlayProperties(cfg.MTU, transport(cfg.UDP), nil, w.serverAddr())})
	w.mu.Lock()
	w.extra = append(w.extra, cl)
	w.mu.Unlock()
	return cl, nil
}

func (w *World) Close() {
	w.mu.Lock()
	ex := w.extra
	w.extra = nil
	w.mu.Unlock()
	done := make(chan struct{})
	go func() {
		for _, c := range ex {
			c.Close()
		}
		w.Server.Close()
		close(done)
	}()
	select {
	case <-done:
	case <-time.After(20 * time.Second):
	}
}

func (w *World) Dial(ctx context.Context) (net.Conn, error) { return w.Client.DialContext(ctx) }

// Keys returns the candidate keys of a user around the instants of this world's life.
func (w *World) Keys(user int) [][]byte {
	u := w.Cfg.Users[user]
	hp := wire.HashedPassword(u.Name, u.Password)
	if u.HashedHex != "" {
		hp = u.Hashed()
	}
	var keys [][]byte
	seen := map[int64]bool{}
	for _, t := range []time.Time{w.Start, time.Now()} {
		s := wire.RoundTo2Min(t.Unix())
		for _, slot := range []int64{s - 120, s, s + 120} {
			if !seen[slot] {
				seen[slot] = true
				keys = append(keys, wire.KeyForSlot(hp, slot))
			}
		}
	}
	return keys
}

// AllKeys returns the candidate keys of every registered user.
func (w *World) AllKeys() [][]byte {
	var keys [][]byte
	for i := range w.Cfg.Users {
		keys = append(keys, w.Keys(i)...)
	}
	return keys
}

// DecodedDatagram is one captured datagram with its decoding.
type DecodedDatagram struct {
	*simnet.Datagram
	Seg *wire.Segment
	Err error
}

// DecodeDatagrams decodes every captured datagram with the reference codec.
func (w *World) DecodeDatagrams() []DecodedDatagram {
	w.Net.Lock()
	ds := append([]*simnet.Datagram(nil), w.Net.Datagrams...)
	w.Net.Unlock()
	keys := w.AllKeys()
	out := make([]DecodedDatagram, len(ds))
	for i, d := range ds {
		seg, err := wire.OpenUDP(d.Data, keys)
		out[i] = DecodedDatagram{d, seg, err}
	}
	return out
}

// DecodedStream is the decoding of one direction of one captured TCP connection.
type DecodedStream struct {
	ConnID         int
	ClientToServer bool
	Segs           []*wire.Segment
	Err            error
	Pending        int
	Bytes          int
	Writes         []int
}

// DecodeStreams decodes both directions of every captured TCP connection.
func (w *World) DecodeStreams() []DecodedStream {
	w.Net.Lock()
	caps := append([]*simnet.StreamCapture(nil), w.Net.Streams...)
	w.Net.Unlock()
	keys := w.AllKeys()
	var out []DecodedStream
	for _, c := range caps {
		c2s, s2c, cw, sw := c.Snapshot()
		for _, dir := range []bool{true, false} {
			data, writes := c2s, cw
			if !dir {
				data, writes = s2c, sw
			}
			dec := &wire.StreamDecoder{Keys: keys}
			segs := dec.Feed(data)
			out = append(out, DecodedStream{ConnID: c.ID, ClientToServer: dir, Segs: segs, Err: dec.Err, Pending: dec.Pending(), Bytes: len(data), Writes: writes})
		}
	}
	return out
}

// StreamByte is the deterministic content generator: byte i of stream (session, direction).
func StreamByte(seed int64, sess int, dir int, i int) byte {
	x := uint64(seed)*0x9E3779B97F4A7C15 + uint64(sess)*0xBF58476D1CE4E5B9 + uint64(dir)*0x94D049BB133111EB + uint64(i/8)
	x ^= x >> 30
	x *= 0xBF58476D1CE4E5B9
	x ^= x >> 27
	x *= 0x94D049BB133111EB
	x ^= x >> 31
	return byte(x >> (8 * uint(i%8)))
}

// FillStream fills b with bytes off.. of the stream.
func FillStream(b []byte, seed int64, sess, dir, off int) {
	for i := range b {
		b[i] = StreamByte(seed, sess, dir, off+i)
	}
}
