package sim

import (
	"context"
	"encoding/binary"
	"fmt"
	"io"
	"math/rand"
	"net"
	"os"
	"sync"
	"time"
)

// Script is what the two applications of one proxy connection do.
type Script struct {
	ClientWrites []int `json:"client_writes"` // sizes of the client's Write calls (a 4-byte session tag is prepended to the first)
	ServerWrites []int `json:"server_writes"`
	ClientClose  bool  `json:"client_close"` // client closes after its writes (server must then read everything and see EOF)
	ServerClose  bool  `json:"server_close"`
	MaxRead      int   `json:"max_read"` // read buffer sizes are random in [1,MaxRead]
	// ServerStallMs / ClientStallMs: the reader on that side does not read at all for this long
	// (back-pressure: the peer keeps writing into full queues), then reads everything
	ServerStallMs int `json:"server_stall_ms,omitempty"`
	ClientStallMs int `json:"client_stall_ms,omitempty"`
	// WriteGapUs paces both writers: pause between consecutive Write calls (at most one segment
	// in flight at a time when the gap exceeds the round-trip time)
	WriteGapUs int `json:"write_gap_us,omitempty"`
}

func sum(xs []int) int {
	s := 0
	for _, x := range xs {
		s += x
	}
	return s
}

// DirResult is what one reader observed.
type DirResult struct {
	Want       int    `json:"want"`
	Got        int    `json:"got"`
	MismatchAt int    `json:"mismatch_at"` // -1 = none
	Err        string `json:"err"`         // final error of the reader ("" = reached Want, "EOF", …)
	WriteErr   string `json:"write_err"`
	Written    int    `json:"written"`
}

type SessionResult struct {
	C2S      DirResult `json:"c2s"` // read by the server application
	S2C      DirResult `json:"s2c"` // read by the client application
	Accepted bool      `json:"accepted"`
	DialErr  string    `json:"dial_err"`
}

type TransferResult struct {
	Sessions []SessionResult `json:"sessions"`
	Stalled  bool            `json:"stalled"`
	Elapsed  time.Duration   `json:"elapsed"`
	Unknown  int             `json:"unknown_accepts"` // accepted connections whose tag named no script
}

type conns struct {
	mu sync.Mutex
	cs []net.Conn
}

func (c *conns) add(x net.Conn) {
	c.mu.Lock()
	c.cs = append(c.cs, x)
	c.mu.Unlock()
}
func (c *conns) closeAll() {
	c.mu.Lock()
	for _, x := range c.cs {
		x.Close()
	}
	c.mu.Unlock()
}

// reader reads until want bytes arrived (or EOF / error), checking content against the generator.
// tagLen bytes at the start of the stream are the session tag (already consumed by the caller when
// skip is true).
func reader(conn net.Conn, rng *rand.Rand, seed int64, sess, dir, want, maxRead int, untilEOF bool, res *DirResult) {
	res.Want = want
	res.MismatchAt = -1
	if maxRead <= 0 {
		maxRead = 65536
	}
	buf := make([]byte, maxRead)
	exp := make([]byte, maxRead)
	for res.Got < want || untilEOF {
		n := 1 + rng.Intn(maxRead)
		k, err := conn.Read(buf[:n])
		if k > 0 {
			FillStream(exp[:k], seed, sess, dir, res.Got)
			if res.MismatchAt < 0 {
				for i := 0; i < k; i++ {
					if buf[i] != exp[i] {
						if os.Getenv("VH_DEBUG") != "" {
							fmt.Fprintf(os.Stderr, "mismatch sess=%d dir=%d got=%d i=%d k=%d n=%d buf=%x exp=%x\n", sess, dir, res.Got, i, k, n, buf[:k], exp[:k])
						}
						res.MismatchAt = res.Got + i
						break
					}
				}
			}
			res.Got += k
		}
		if err != nil {
			if err == io.EOF {
				res.Err = "EOF"
			} else {
				res.Err = err.Error()
			}
			return
		}
	}
}

func writer(conn net.Conn, seed int64, sess, dir int, sizes []int, tag []byte, res *DirResult) {
	writerPaced(conn, seed, sess, dir, sizes, tag, res, 0)
}

func writerPaced(conn net.Conn, seed int64, sess, dir int, sizes []int, tag []byte, res *DirResult, gapUs int) {
	off := 0
	// One buffer is re-used for every Write (io.Writer implementations must not retain the
	// caller's slice). Even-numbered sessions overwrite it as soon as Write returns; odd-numbered
	// sessions leave it alone until the next Write refills it (the content then changes between a
	// first transmission and a later retransmission if the implementation aliased it).
	maxNeed := len(tag)
	for _, sz := range sizes {
		if sz+len(tag) > maxNeed {
			maxNeed = sz + len(tag)
		}
	}
	buf := make([]byte, maxNeed)
	for i, sz := range sizes {
		need := sz
		if i == 0 {
			need += len(tag)
		}
		b := buf[:need]
		pre := 0
		if i == 0 && tag != nil {
			pre = copy(b, tag)
		}
		FillStream(b[pre:], seed, sess, dir, off)
		n, err := conn.Write(b)
		if sess%2 == 0 {
			for j := range b {
				b[j] = 0xA5 // scribble
			}
		}
		n -= pre
		if n < 0 {
			n = 0
		}
		res.Written += n
		off += sz
		if err != nil {
			res.WriteErr = err.Error()
			return
		}
		if gapUs > 0 {
			time.Sleep(time.Duration(gapUs) * time.Microsecond)
		}
	}
}

// Endpoints is what a transfer needs from a pair of real endpoints.
type Endpoints interface {
	// DialScript opens the proxy connection for script k; tag (may be nil) is prepended to the
	// client's first write so that the accepting side can identify the script.
	DialScript(ctx context.Context, k int) (conn net.Conn, tag []byte, err error)
	// AcceptScript accepts one proxy connection and says which script it belongs to (-1 = unknown).
	AcceptScript(nscripts int, timeout time.Duration) (conn net.Conn, k int, err error)
}

// DialScript / AcceptScript for bare protocol.Mux endpoints: a 4-byte tag identifies the script.
func (w *World) DialScript(ctx context.Context, k int) (net.Conn, []byte, error) {
	conn, err := w.Dial(ctx)
	var tag [4]byte
	binary.BigEndian.PutUint32(tag[:], uint32(k))
	return conn, tag[:], err
}

func (w *World) AcceptScript(n int, timeout time.Duration) (net.Conn, int, error) {
	conn, err := w.Server.Accept()
	if err != nil {
		return nil, -1, err
	}
	var tag [4]byte
	conn.SetReadDeadline(time.Now().Add(timeout))
	if _, err := io.ReadFull(conn, tag[:]); err != nil {
		return conn, -1, nil
	}
	conn.SetReadDeadline(time.Time{})
	k := int(binary.BigEndian.Uint32(tag[:]))
	if k < 0 || k >= n {
		return conn, -1, nil
	}
	return conn, k, nil
}

// DialScript / AcceptScript for the exported APIs: the SOCKS5 destination port identifies the script.
func (w *APIWorld) DialScript(ctx context.Context, k int) (net.Conn, []byte, error) {
	conn, err := w.Dial(ctx, &net.TCPAddr{IP: net.IPv4(192, 0, 2, 1), Port: 1000 + k})
	return conn, nil, err
}

func (w *APIWorld) AcceptScript(n int, timeout time.Duration) (net.Conn, int, error) {
	conn, req, err := w.AcceptAndReply()
	if err != nil {
		if conn != nil {
			return conn, -1, nil
		}
		return nil, -1, err
	}
	k := int(req.DstAddr.Port) - 1000
	if k < 0 || k >= n {
		return conn, -1, nil
	}
	return conn, k, nil
}

// RunTransfer runs the scripts concurrently, one proxy connection each, over the endpoints' client
// and server. It returns when every reader finished or the timeout expired.
func RunTransfer(w Endpoints, scripts []Script, seed int64, timeout time.Duration) *TransferResult {
	res := &TransferResult{Sessions: make([]SessionResult, len(scripts))}
	for i := range res.Sessions {
		res.Sessions[i].C2S.MismatchAt = -1
		res.Sessions[i].S2C.MismatchAt = -1
		res.Sessions[i].C2S.Want = sum(scripts[i].ClientWrites)
		res.Sessions[i].S2C.Want = sum(scripts[i].ServerWrites)
	}
	start := time.Now()
	var wg sync.WaitGroup
	// one unit per script for the server-side handler, released when it finishes (or when the
	// client side could not even dial)
	serverDone := make([]chan struct{}, len(scripts))
	for i := range serverDone {
		serverDone[i] = make(chan struct{})
	}
	var sdOnce = make([]sync.Once, len(scripts))
	release := func(k int) { sdOnce[k].Do(func() { close(serverDone[k]) }) }
	all := &conns{}
	ctx, cancel := context.WithCancel(context.Background())
	defer cancel()
	var resMu sync.Mutex

	// server side
	go func() {
		for {
			conn, k, err := w.AcceptScript(len(scripts), timeout)
			if err != nil {
				return
			}
			all.add(conn)
			select {
			case <-ctx.Done():
				conn.Close()
				return
			default:
			}
			if k < 0 {
				resMu.Lock()
				res.Unknown++
				resMu.Unlock()
				continue
			}
			wg.Add(1)
			go func(conn net.Conn, k int) {
				defer wg.Done()
				sc := scripts[k]
				sr := &res.Sessions[k]
				sr.Accepted = true
				defer release(k)
				var inner sync.WaitGroup
				inner.Add(2)
				go func() {
					defer inner.Done()
					writerPaced(conn, seed, k, 1, sc.ServerWrites, nil, &sr.S2C, sc.WriteGapUs)
				}()
				go func() {
					defer inner.Done()
					if sc.ServerStallMs > 0 {
						time.Sleep(time.Duration(sc.ServerStallMs) * time.Millisecond)
					}
					reader(conn, rand.New(rand.NewSource(seed+int64(k)*7+1)), seed, k, 0, sum(sc.ClientWrites), sc.MaxRead, sc.ClientClose, &sr.C2S)
				}()
				inner.Wait()
				if sc.ServerClose {
					conn.Close()
				}
			}(conn, k)
		}
	}()

	// client side
	for k := range scripts {
		wg.Add(1)
		go func(k int) {
			defer wg.Done()
			sc := scripts[k]
			sr := &res.Sessions[k]
			dctx, dcancel := context.WithTimeout(ctx, timeout)
			conn, tagBytes, err := w.DialScript(dctx, k)
			dcancel()
			if err != nil {
				sr.DialErr = err.Error()
				release(k)
				return
			}
			all.add(conn)
			var inner sync.WaitGroup
			inner.Add(2)
			cw := sc.ClientWrites
			if len(cw) == 0 {
				cw = []int{0} // something must be written for the server side to see the session
			}
			go func() {
				defer inner.Done()
				writerPaced(conn, seed, k, 0, cw, tagBytes, &sr.C2S, sc.WriteGapUs)
				if sc.ClientClose {
					// wait for our own reads first, else closing would cut the server's stream
				}
			}()
			go func() {
				defer inner.Done()
				if sc.ClientStallMs > 0 {
					time.Sleep(time.Duration(sc.ClientStallMs) * time.Millisecond)
				}
				reader(conn, rand.New(rand.NewSource(seed+int64(k)*7+2)), seed, k, 1, sum(sc.ServerWrites), sc.MaxRead, sc.ServerClose, &sr.S2C)
			}()
			inner.Wait()
			if sc.ClientClose {
				conn.Close()
			}
		}(k)
	}

	done := make(chan struct{})
	go func() {
		wg.Wait()
		for k := range serverDone {
			<-serverDone[k]
		}
		wg.Wait()
		close(done)
	}()
	select {
	case <-done:
	case <-time.After(timeout):
		res.Stalled = true
		all.closeAll()
		for k := range serverDone {
			release(k)
		}
		select {
		case <-done:
		case <-time.After(10 * time.Second):
		}
	}
	res.Elapsed = time.Since(start)
	return res
}

// Check evaluates the delivery predicate "bytes read = bytes written, in order" on a result.
// It returns a list of human-readable failures (empty = held).
func (r *TransferResult) Check(scripts []Script) []string {
	var fails []string
	if r.Stalled {
		fails = append(fails, fmt.Sprintf("transfer did not complete within the time limit (%v)", r.Elapsed))
	}
	for k, s := range r.Sessions {
		if s.DialErr != "" {
			fails = append(fails, fmt.Sprintf("session %d: dial failed: %s", k, s.DialErr))
			continue
		}
		for _, d := range []struct {
			name string
			r    DirResult
		}{{"client→server", s.C2S}, {"server→client", s.S2C}} {
			if d.r.MismatchAt >= 0 {
				fails = append(fails, fmt.Sprintf("session %d %s: byte %d differs from what was written", k, d.name, d.r.MismatchAt))
			}
			if d.r.Got > d.r.Want {
				fails = append(fails, fmt.Sprintf("session %d %s: read %d bytes, only %d written", k, d.name, d.r.Got, d.r.Want))
			}
			if d.r.Got < d.r.Want && !r.Stalled {
				fails = append(fails, fmt.Sprintf("session %d %s: read %d of %d bytes, reader ended with %q (writer: %q)", k, d.name, d.r.Got, d.r.Want, d.r.Err, d.r.WriteErr))
			}
		}
	}
	return fails
}
