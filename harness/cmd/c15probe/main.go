package main

import (
	"context"
	"fmt"
	"net"
	"os"
	"time"

	"verifharness/sim"
)

func pair(w *sim.World) (net.Conn, net.Conn) {
	ch := make(chan net.Conn, 1)
	go func() { c, _ := w.Server.Accept(); ch <- c }()
	ctx, cancel := context.WithTimeout(context.Background(), 5*time.Second)
	defer cancel()
	c, err := w.Dial(ctx)
	if err != nil {
		panic(err)
	}
	c.Write([]byte("hello"))
	s := <-ch
	b := make([]byte, 5)
	s.Read(b)
	return c, s
}

func main() {
	for _, udp := range []bool{true, false} {
		for _, who := range []string{"client", "server"} {
			fmt.Println("=== udp", udp, "writer", who)
			w, err := sim.NewWorld(sim.Config{UDP: udp, Seed: 1})
			if err != nil {
				panic(err)
			}
			c, s := pair(w)
			wr := c
			if who == "server" {
				wr = s
			}
			buf := make([]byte, 32768)
			total := 0
			blockedAt := -1
			for i := 0; i < 400; i++ {
				wr.SetWriteDeadline(time.Now().Add(500 * time.Millisecond))
				t0 := time.Now()
				n, err := wr.Write(buf)
				d := time.Since(t0)
				total += n
				if d > 400*time.Millisecond || err != nil {
					fmt.Printf("write %d: n=%d err=%v took %v total=%d\n", i, n, err, d, total)
					blockedAt = i
					if d > 2*time.Second || i > blockedAt+3 {
						break
					}
				}
				if d > 5*time.Second {
					break
				}
			}
			fmt.Println("total written", total)
			// now a blocked write without deadline, released by close
			done := make(chan struct{})
			go func() {
				t0 := time.Now()
				n, err := wr.Write(buf)
				fmt.Println("unbounded write returned", n, err, time.Since(t0))
				close(done)
			}()
			select {
			case <-done:
			case <-time.After(2 * time.Second):
				fmt.Println("write blocked 2s; closing")
				t0 := time.Now()
				wr.Close()
				fmt.Println("close took", time.Since(t0))
				select {
				case <-done:
				case <-time.After(5 * time.Second):
					fmt.Println("WRITE STILL BLOCKED 5s after close")
				}
			}
			go w.Close()
		}
	}
	time.Sleep(3*time.Second)
	os.Exit(0)
}
