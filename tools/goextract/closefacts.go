package main

// Structural facts about the close path of pkg/protocol/session.go (used by Props/C03):
// which trees closeWithError empties, who calls inputClose and under which condition, whether
// inputClose looks at any receive-sequence state, and the call order of the stream output loop.

import (
	"fmt"
	"go/ast"
	"go/parser"
	"go/token"
	"path/filepath"
	"strings"
)

func genCloseFacts(repo string) string {
	var sb strings.Builder
	fset := token.NewFileSet()
	f, err := parser.ParseFile(fset, filepath.Join(repo, "pkg/protocol/session.go"), nil, 0)
	if err != nil {
		return "\n-- BROKEN-TIE closefacts: cannot parse pkg/protocol/session.go\n"
	}
	var deleteAll, closeCalls, mentions, streamCalls []string
	seenMention := map[string]bool{}
	for _, d := range f.Decls {
		fd, ok := d.(*ast.FuncDecl)
		if !ok || fd.Body == nil {
			continue
		}
		name := funcName(fd)
		// enclosing if-conditions of calls to inputClose
		var walk func(n ast.Node, cond string)
		walk = func(n ast.Node, cond string) {
			ast.Inspect(n, func(x ast.Node) bool {
				switch v := x.(type) {
				case *ast.IfStmt:
					c := nodeString(fset, v.Cond)
					walk(v.Body, c)
					if v.Else != nil {
						walk(v.Else, cond)
					}
					return false
				case *ast.CallExpr:
					if se, ok := v.Fun.(*ast.SelectorExpr); ok {
						if se.Sel.Name == "inputClose" {
							closeCalls = append(closeCalls, fmt.Sprintf("  (%q, %q)", name, cond))
						}
						if se.Sel.Name == "DeleteAll" {
							deleteAll = append(deleteAll, fmt.Sprintf("  (%q, %q)", name, nodeString(fset, se.X)))
						}
					}
				}
				return true
			})
		}
		walk(fd.Body, "")
		if name == "Session.inputClose" {
			ast.Inspect(fd.Body, func(x ast.Node) bool {
				if se, ok := x.(*ast.SelectorExpr); ok {
					switch se.Sel.Name {
					case "nextRecv", "recvBuf", "recvQueue", "Seq", "seq":
						// `seq:` keys of composite literals are not selector expressions; a selector
						// named seq/Seq means the received segment's number is read
						if !seenMention[se.Sel.Name] {
							seenMention[se.Sel.Name] = true
							mentions = append(mentions, fmt.Sprintf("%q", se.Sel.Name))
						}
					}
				}
				return true
			})
		}
		if name == "Session.runOutputOnceStream" {
			ast.Inspect(fd.Body, func(x ast.Node) bool {
				if ce, ok := x.(*ast.CallExpr); ok {
					streamCalls = append(streamCalls, fmt.Sprintf("%q", nodeString(fset, ce.Fun)))
				}
				return true
			})
		}
	}
	sb.WriteString("\n/-- (function, tree) of every `.DeleteAll()` call in session.go -/\ndef deleteAllCalls : List (String × String) := [\n")
	sb.WriteString(strings.Join(deleteAll, ",\n"))
	sb.WriteString("\n]\n")
	sb.WriteString("\n/-- (function, innermost enclosing if-condition) of every call of `inputClose` -/\ndef inputCloseCalls : List (String × String) := [\n")
	sb.WriteString(strings.Join(closeCalls, ",\n"))
	sb.WriteString("\n]\n")
	sb.WriteString("\n/-- which of nextRecv / recvBuf / recvQueue / Seq / seq `Session.inputClose` reads (selector expressions) -/\ndef inputCloseMentions : List String := [" + strings.Join(mentions, ", ") + "]\n")
	sb.WriteString("\n/-- every call made by `Session.runOutputOnceStream`, in source order -/\ndef streamOutputCalls : List String := [" + strings.Join(streamCalls, ", ") + "]\n")
	return sb.String()
}
