package main

import (
	"fmt"
	"go/ast"
	"go/token"
	"os"
	"path/filepath"
	"sort"
	"strings"
)

// Structural facts used by Props/C10.lean. Everything is read off the AST of the repository's
// current working tree; nothing here interprets the code.
func genFactsC10(repo string, fset *token.FileSet, load func(string) *ast.File) string {
	var sb strings.Builder
	findFunc := func(rel, name string) *ast.FuncDecl {
		f := load(rel)
		if f == nil {
			return nil
		}
		for _, d := range f.Decls {
			if fd, ok := d.(*ast.FuncDecl); ok && fd.Body != nil && funcName(fd) == name {
				return fd
			}
		}
		return nil
	}
	strList := func(name, doc string, items []string) {
		fmt.Fprintf(&sb, "\n/-- %s -/\ndef %s : List String := [%s]\n", doc, name, quoteList(items))
	}
	pairList := func(name, doc string, items [][2]string) {
		fmt.Fprintf(&sb, "\n/-- %s -/\ndef %s : List (String × String) := [\n", doc, name)
		for i, it := range items {
			if i > 0 {
				sb.WriteString(",\n")
			}
			fmt.Fprintf(&sb, "  (%q, %q)", it[0], it[1])
		}
		sb.WriteString("\n]\n")
	}
	// conjuncts of a chain `a && b && c`
	var conjuncts func(e ast.Expr) []ast.Expr
	conjuncts = func(e ast.Expr) []ast.Expr {
		if p, ok := e.(*ast.ParenExpr); ok {
			return conjuncts(p.X)
		}
		if b, ok := e.(*ast.BinaryExpr); ok && b.Op == token.LAND {
			return append(conjuncts(b.X), conjuncts(b.Y)...)
		}
		return []ast.Expr{e}
	}

	// (7) Session.input: the direction check. First statement after `protocol := seg.Protocol()` is
	// `if s.isClient { if protocol != A && … { return … } } else { if protocol != B && … }`.
	var clientAcc, serverAcc []string
	var dispatch [][2]string
	inputShape := "ok"
	if fd := findFunc("pkg/protocol/session.go", "Session.input"); fd != nil {
		accepts := func(blk *ast.BlockStmt) []string {
			var out []string
			if blk == nil || len(blk.List) != 1 {
				return []string{"UNEXPECTED-SHAPE"}
			}
			ifs, ok := blk.List[0].(*ast.IfStmt)
			if !ok {
				return []string{"UNEXPECTED-SHAPE"}
			}
			for _, c := range conjuncts(ifs.Cond) {
				b, ok := c.(*ast.BinaryExpr)
				if !ok || b.Op != token.NEQ || nodeString(fset, b.X) != "protocol" {
					return []string{"UNEXPECTED-SHAPE"}
				}
				out = append(out, nodeString(fset, b.Y))
			}
			return out
		}
		found := false
		for _, st := range fd.Body.List {
			ifs, ok := st.(*ast.IfStmt)
			if !ok {
				continue
			}
			if nodeString(fset, ifs.Cond) == "s.isClient" && !found {
				found = true
				clientAcc = accepts(ifs.Body)
				if eb, ok := ifs.Else.(*ast.BlockStmt); ok {
					serverAcc = accepts(eb)
				}
				continue
			}
			// the dispatch chain: if cond { … s.inputData(seg) … } else if … { return s.inputAck(seg) } …
			var walk func(x *ast.IfStmt)
			walk = func(x *ast.IfStmt) {
				callee := ""
				ast.Inspect(x.Body, func(n ast.Node) bool {
					if ce, ok := n.(*ast.CallExpr); ok {
						if se, ok := ce.Fun.(*ast.SelectorExpr); ok && strings.HasPrefix(se.Sel.Name, "input") && callee == "" {
							callee = se.Sel.Name
						}
					}
					return true
				})
				if callee != "" {
					dispatch = append(dispatch, [2]string{callee, nodeString(fset, x.Cond)})
				}
				if e, ok := x.Else.(*ast.IfStmt); ok {
					walk(e)
				}
			}
			if strings.Contains(nodeString(fset, ifs.Cond), "protocol") {
				walk(ifs)
			}
		}
		if !found {
			inputShape = "direction check not found"
		}
	} else {
		inputShape = "Session.input not found"
	}
	strList("sessionInputClientAccepts", "protocols a client session lets through the first check of `Session.input` ("+inputShape+")", clientAcc)
	strList("sessionInputServerAccepts", "protocols a server session lets through the first check of `Session.input`", serverAcc)
	pairList("sessionInputDispatch", "(callee, condition) of the if-chain at the end of `Session.input`", dispatch)

	// (8) validateServerSegmentDirection / validateNewServerSessionSegment
	var dirCases []string
	if fd := findFunc("pkg/protocol/server_session_validation.go", "validateServerSegmentDirection"); fd != nil {
		ast.Inspect(fd.Body, func(n ast.Node) bool {
			if sw, ok := n.(*ast.SwitchStmt); ok {
				for _, c := range sw.Body.List {
					cc := c.(*ast.CaseClause)
					if len(cc.List) == 0 {
						continue
					}
					ret := ""
					if len(cc.Body) == 1 {
						ret = nodeString(fset, cc.Body[0])
					}
					for _, e := range cc.List {
						dirCases = append(dirCases, nodeString(fset, e)+" => "+ret)
					}
				}
				return false
			}
			return true
		})
	}
	strList("serverDirectionCases", "`case` labels of `validateServerSegmentDirection` with what the clause returns", dirCases)
	var newSessConds []string
	if fd := findFunc("pkg/protocol/server_session_validation.go", "validateNewServerSessionSegment"); fd != nil {
		for _, st := range fd.Body.List {
			if ifs, ok := st.(*ast.IfStmt); ok {
				newSessConds = append(newSessConds, nodeString(fset, ifs.Cond))
			}
		}
	}
	strList("newServerSessionRejects", "conditions under which `validateNewServerSessionSegment` returns an error", newSessConds)

	// (9) segmentTree.Insert guards
	var insertPrefix []string
	if fd := findFunc("pkg/protocol/segment.go", "segmentTree.Insert"); fd != nil {
		for _, st := range fd.Body.List {
			es, ok := st.(*ast.ExprStmt)
			if !ok {
				break
			}
			insertPrefix = append(insertPrefix, nodeString(fset, es.X))
		}
	}
	strList("treeInsertGuards", "the calls `segmentTree.Insert` makes before taking the lock", insertPrefix)
	var typeConds []string
	if fd := findFunc("pkg/protocol/segment.go", "segmentTree.checkProtocolType"); fd != nil {
		for _, st := range fd.Body.List {
			if ifs, ok := st.(*ast.IfStmt); ok {
				typeConds = append(typeConds, nodeString(fset, ifs.Cond))
			}
		}
	}
	strList("treeInsertTypeCondition", "condition under which `checkProtocolType` returns without panic", typeConds)

	// (10) error expressions returned by the stream reader
	var rets [][2]string
	for _, fn := range []string{"StreamUnderlay.readOneSegment", "StreamUnderlay.readSessionSegment", "StreamUnderlay.readDataAckSegment"} {
		fd := findFunc("pkg/protocol/underlay_stream.go", fn)
		if fd == nil {
			rets = append(rets, [2]string{fn, "NOT-FOUND"})
			continue
		}
		ast.Inspect(fd.Body, func(n ast.Node) bool {
			if _, ok := n.(*ast.FuncLit); ok {
				return false
			}
			if r, ok := n.(*ast.ReturnStmt); ok && len(r.Results) == 2 {
				e := nodeString(fset, r.Results[1])
				if e != "nil" {
					rets = append(rets, [2]string{fn, e})
				}
			}
			return true
		})
	}
	pairList("streamReadErrorReturns", "(function, error expression) of every `return …, <non-nil error>` in the stream reader", rets)
	// how RunEventLoop (stream) reacts to the error types
	var typeChecks []string
	if fd := findFunc("pkg/protocol/underlay_stream.go", "StreamUnderlay.RunEventLoop"); fd != nil {
		ast.Inspect(fd.Body, func(n ast.Node) bool {
			if ifs, ok := n.(*ast.IfStmt); ok {
				c := nodeString(fset, ifs.Cond)
				if strings.HasPrefix(c, "errType ==") {
					act := "other"
					if len(ifs.Body.List) == 1 {
						if es, ok := ifs.Body.List[0].(*ast.ExprStmt); ok {
							if ce, ok := es.X.(*ast.CallExpr); ok {
								act = nodeString(fset, ce.Fun)
							}
						}
					}
					typeChecks = append(typeChecks, c+" => "+act)
				}
			}
			return true
		})
	}
	strList("streamErrorTypeReactions", "`if errType == …` statements of `StreamUnderlay.RunEventLoop` and the call each makes", typeChecks)

	// (11) packet underlay: who delivers to sessions, who checks the owner first
	var delivers, ownerChecks [][2]string
	if f := load("pkg/protocol/underlay_packet.go"); f != nil {
		for _, d := range f.Decls {
			fd, ok := d.(*ast.FuncDecl)
			if !ok || fd.Body == nil {
				continue
			}
			ast.Inspect(fd.Body, func(n ast.Node) bool {
				ce, ok := n.(*ast.CallExpr)
				if !ok {
					return true
				}
				se, ok := ce.Fun.(*ast.SelectorExpr)
				if !ok {
					return true
				}
				args := []string{}
				for _, a := range ce.Args {
					args = append(args, nodeString(fset, a))
				}
				switch se.Sel.Name {
				case "deliverSegmentToSession":
					delivers = append(delivers, [2]string{funcName(fd), strings.Join(args, ", ")})
				case "isSegmentFromSessionOwner":
					ownerChecks = append(ownerChecks, [2]string{funcName(fd), strings.Join(args, ", ")})
				}
				return true
			})
		}
	}
	pairList("packetDeliveries", "(function, arguments) of every `deliverSegmentToSession` call in underlay_packet.go", delivers)
	pairList("packetOwnerChecks", "(function, arguments) of every `isSegmentFromSessionOwner` call in underlay_packet.go", ownerChecks)
	// the statement that immediately precedes each delivery to an EXISTING session must be the owner check
	var guarded [][2]string
	if f := load("pkg/protocol/underlay_packet.go"); f != nil {
		for _, d := range f.Decls {
			fd, ok := d.(*ast.FuncDecl)
			if !ok || fd.Body == nil {
				continue
			}
			ast.Inspect(fd.Body, func(n ast.Node) bool {
				blk, ok := n.(*ast.BlockStmt)
				if !ok {
					return true
				}
				for i, st := range blk.List {
					s := nodeString(fset, st)
					if !strings.Contains(s, "deliverSegmentToSession(") {
						continue
					}
					if _, isBlockOwner := st.(*ast.BlockStmt); isBlockOwner {
						continue
					}
					// only the statement that directly contains the call (not an enclosing if/for/switch body)
					direct := false
					switch x := st.(type) {
					case *ast.ExprStmt:
						direct = true
					case *ast.IfStmt:
						direct = strings.Contains(nodeString(fset, x.Cond), "deliverSegmentToSession(")
					}
					if !direct {
						continue
					}
					prev := ""
					if i > 0 {
						if ifs, ok := blk.List[i-1].(*ast.IfStmt); ok {
							prev = nodeString(fset, ifs.Cond)
						} else {
							prev = "(not an if)"
						}
					}
					guarded = append(guarded, [2]string{funcName(fd), prev})
				}
				return true
			})
		}
	}
	pairList("packetDeliveryGuards", "(function, condition of the `if` right before the statement) for every statement that calls `deliverSegmentToSession` in underlay_packet.go", guarded)

	// (12) panic sites of the support packages the network path runs through
	var support [][2]string
	for _, dir := range []string{"pkg/common", "pkg/metrics", "pkg/rng", "pkg/stderror", "pkg/deque", "apis/internal", "apis/constant", "pkg/sockopts"} {
		ents, _ := os.ReadDir(filepath.Join(repo, dir))
		names := []string{}
		for _, e := range ents {
			n := e.Name()
			if strings.HasSuffix(n, ".go") && !strings.HasSuffix(n, "_test.go") && !strings.HasPrefix(n, "verif_") {
				names = append(names, n)
			}
		}
		sort.Strings(names)
		for _, n := range names {
			f := load(filepath.Join(dir, n))
			if f == nil {
				continue
			}
			for _, d := range f.Decls {
				fd, ok := d.(*ast.FuncDecl)
				if !ok || fd.Body == nil {
					continue
				}
				ast.Inspect(fd.Body, func(nn ast.Node) bool {
					if ce, ok := nn.(*ast.CallExpr); ok {
						if id, ok := ce.Fun.(*ast.Ident); ok && id.Name == "panic" {
							support = append(support, [2]string{filepath.Join(dir, n), funcName(fd)})
						}
					}
					return true
				})
			}
		}
	}
	pairList("panicSitesSupport", "(file, function) of every `panic(` call in the support packages (pkg/common, pkg/metrics, pkg/rng, pkg/stderror, pkg/deque, apis/internal, apis/constant, pkg/sockopts)", support)

	// (13) recover() anywhere in the packages of (6) and (12): the property assumes there is none
	var recovers [][2]string
	for _, dir := range []string{"pkg/protocol", "pkg/cipher", "pkg/replay", "pkg/socks5", "apis/model", "apis/common", "pkg/protocol/serveruser", "apis/client", "apis/server"} {
		ents, _ := os.ReadDir(filepath.Join(repo, dir))
		for _, e := range ents {
			n := e.Name()
			if !strings.HasSuffix(n, ".go") || strings.HasSuffix(n, "_test.go") || strings.HasPrefix(n, "verif_") {
				continue
			}
			f := load(filepath.Join(dir, n))
			if f == nil {
				continue
			}
			for _, d := range f.Decls {
				fd, ok := d.(*ast.FuncDecl)
				if !ok || fd.Body == nil {
					continue
				}
				ast.Inspect(fd.Body, func(nn ast.Node) bool {
					if ce, ok := nn.(*ast.CallExpr); ok {
						if id, ok := ce.Fun.(*ast.Ident); ok && id.Name == "recover" {
							recovers = append(recovers, [2]string{filepath.Join(dir, n), funcName(fd)})
						}
					}
					return true
				})
			}
		}
	}
	pairList("recoverSites", "(file, function) of every `recover()` call in the network-facing packages", recovers)
	return sb.String()
}
