package main

// Helpers shared by the SOCKS5 topic files (c10socks.go, c11facts.go, c12facts.go, c18facts.go): a source
// loader, a control-flow SKELETON of a function (conditions, returns, assignments and calls in source
// order, with logging and metric counters left out), ordered call events of a statement list, and
// emitters for Lean data. Nothing here interprets the code; the expectations live in lean/Mieru/Props.

import (
	"fmt"
	"go/ast"
	"go/parser"
	"go/token"
	"path/filepath"
	"strconv"
	"strings"
)

type srcSet struct {
	repo  string
	fset  *token.FileSet
	files map[string]*ast.File
	errs  map[string]error
}

func newSrcSet(repo string) *srcSet {
	return &srcSet{repo: repo, fset: token.NewFileSet(), files: map[string]*ast.File{}, errs: map[string]error{}}
}

func (s *srcSet) load(rel string) *ast.File {
	if f, ok := s.files[rel]; ok {
		return f
	}
	f, err := parser.ParseFile(s.fset, filepath.Join(s.repo, rel), nil, 0)
	if err != nil {
		s.files[rel] = nil
		s.errs[rel] = err
		return nil
	}
	s.files[rel] = f
	return f
}

// fn returns the declaration of a function or method ("Recv.Name") with a body.
func (s *srcSet) fn(rel, name string) *ast.FuncDecl {
	f := s.load(rel)
	if f == nil {
		return nil
	}
	for _, d := range f.Decls {
		if fd, ok := d.(*ast.FuncDecl); ok && fd.Body != nil && funcName(fd) == name {
			return fd
		}
	}
	return nil
}

// str renders a node on one line.
func (s *srcSet) str(n ast.Node) string {
	return strings.Join(strings.Fields(nodeString(s.fset, n)), " ")
}

// expr renders an expression; calls of fmt.Errorf / errors.New keep only their function name (message
// texts are not facts).
func (s *srcSet) expr(e ast.Expr) string {
	if c, ok := e.(*ast.CallExpr); ok {
		name := s.str(c.Fun)
		if name == "fmt.Errorf" || name == "errors.New" {
			return name + "(…)"
		}
	}
	return s.str(e)
}

func isLogOrMetricStmt(s *srcSet, st ast.Stmt) bool {
	es, ok := st.(*ast.ExprStmt)
	if !ok {
		return false
	}
	c, ok := es.X.(*ast.CallExpr)
	if !ok {
		return false
	}
	name := s.str(c.Fun)
	if strings.HasPrefix(name, "log.") {
		return true
	}
	// package-level metric counters: `HandshakeErrors.Add(1)`
	if sel, ok := c.Fun.(*ast.SelectorExpr); ok && sel.Sel.Name == "Add" {
		if id, ok := sel.X.(*ast.Ident); ok && len(id.Name) > 0 && id.Name[0] >= 'A' && id.Name[0] <= 'Z' {
			return true
		}
	}
	return false
}

func isLogGuard(s *srcSet, st *ast.IfStmt) bool {
	return strings.HasPrefix(s.str(st.Cond), "log.IsLevelEnabled(") && st.Else == nil
}

// skeleton renders the control-flow skeleton of a statement list, one line per element, two spaces of
// indentation per nesting level.
func (s *srcSet) skeleton(list []ast.Stmt, depth int) []string {
	var out []string
	ind := strings.Repeat("  ", depth)
	add := func(f string, a ...interface{}) { out = append(out, ind+fmt.Sprintf(f, a...)) }
	for _, st := range list {
		if isLogOrMetricStmt(s, st) {
			continue
		}
		switch x := st.(type) {
		case *ast.IfStmt:
			if isLogGuard(s, x) {
				continue
			}
			var cur ast.Stmt = x
			first := true
			for cur != nil {
				switch y := cur.(type) {
				case *ast.IfStmt:
					head := "if "
					if !first {
						head = "} else if "
					}
					if y.Init != nil {
						head += s.str(y.Init) + "; "
					}
					add("%s%s {", head, s.str(y.Cond))
					out = append(out, s.skeleton(y.Body.List, depth+1)...)
					cur = y.Else
				case *ast.BlockStmt:
					add("} else {")
					out = append(out, s.skeleton(y.List, depth+1)...)
					cur = nil
				default:
					cur = nil
				}
				first = false
			}
			add("}")
		case *ast.ForStmt:
			h := "for"
			if x.Init != nil || x.Cond != nil || x.Post != nil {
				parts := []string{"", "", ""}
				if x.Init != nil {
					parts[0] = s.str(x.Init)
				}
				if x.Cond != nil {
					parts[1] = s.str(x.Cond)
				}
				if x.Post != nil {
					parts[2] = s.str(x.Post)
				}
				h += " " + strings.Join(parts, "; ")
			}
			add("%s {", h)
			out = append(out, s.skeleton(x.Body.List, depth+1)...)
			add("}")
		case *ast.RangeStmt:
			k, v := "_", "_"
			if x.Key != nil {
				k = s.str(x.Key)
			}
			if x.Value != nil {
				v = s.str(x.Value)
			}
			add("for %s, %s := range %s {", k, v, s.str(x.X))
			out = append(out, s.skeleton(x.Body.List, depth+1)...)
			add("}")
		case *ast.SwitchStmt:
			tag := ""
			if x.Tag != nil {
				tag = " " + s.str(x.Tag)
			}
			add("switch%s {", tag)
			for _, c := range x.Body.List {
				cc := c.(*ast.CaseClause)
				if cc.List == nil {
					add("default:")
				} else {
					var es []string
					for _, e := range cc.List {
						es = append(es, s.str(e))
					}
					add("case %s:", strings.Join(es, ", "))
				}
				out = append(out, s.skeleton(cc.Body, depth+1)...)
			}
			add("}")
		case *ast.SelectStmt:
			add("select {")
			for _, c := range x.Body.List {
				cc := c.(*ast.CommClause)
				if cc.Comm == nil {
					add("default:")
				} else {
					add("case %s:", s.str(cc.Comm))
				}
				out = append(out, s.skeleton(cc.Body, depth+1)...)
			}
			add("}")
		case *ast.BlockStmt:
			add("{")
			out = append(out, s.skeleton(x.List, depth+1)...)
			add("}")
		case *ast.GoStmt:
			if fl, ok := x.Call.Fun.(*ast.FuncLit); ok {
				add("go func {")
				out = append(out, s.skeleton(fl.Body.List, depth+1)...)
				add("}")
			} else {
				add("go %s", s.str(x.Call))
			}
		case *ast.DeferStmt:
			if fl, ok := x.Call.Fun.(*ast.FuncLit); ok {
				add("defer func {")
				out = append(out, s.skeleton(fl.Body.List, depth+1)...)
				add("}")
			} else {
				add("defer %s", s.str(x.Call))
			}
		case *ast.ReturnStmt:
			if len(x.Results) == 1 {
				if fl, ok := x.Results[0].(*ast.FuncLit); ok {
					add("return func {")
					out = append(out, s.skeleton(fl.Body.List, depth+1)...)
					add("}")
					continue
				}
			}
			var es []string
			for _, e := range x.Results {
				es = append(es, s.expr(e))
			}
			add("%s", strings.TrimSpace("return "+strings.Join(es, ", ")))
		case *ast.AssignStmt:
			var l, r []string
			for _, e := range x.Lhs {
				l = append(l, s.str(e))
			}
			for _, e := range x.Rhs {
				if fl, ok := e.(*ast.FuncLit); ok {
					add("%s %s func {", strings.Join(l, ", "), x.Tok.String())
					out = append(out, s.skeleton(fl.Body.List, depth+1)...)
					add("}")
					l = nil
					break
				}
				r = append(r, s.expr(e))
			}
			if l != nil {
				add("%s %s %s", strings.Join(l, ", "), x.Tok.String(), strings.Join(r, ", "))
			}
		default:
			add("%s", s.str(st))
		}
	}
	return out
}

// callEvents lists, in source order, the names of the functions called and the maps indexed inside a
// statement list (logging statements and metric counters left out; builtins left out).
func (s *srcSet) callEvents(list []ast.Stmt) []string {
	var out []string
	skip := map[string]bool{"make": true, "append": true, "len": true, "string": true, "copy": true, "int": true, "byte": true, "int64": true, "uint16": true, "context.Background": true, "panic": true}
	var walkStmt func(st ast.Stmt)
	walkNode := func(n ast.Node) {
		ast.Inspect(n, func(m ast.Node) bool {
			switch y := m.(type) {
			case *ast.CallExpr:
				name := s.str(y.Fun)
				if strings.HasPrefix(name, "log.") || name == "fmt.Errorf" || name == "errors.New" {
					return false // message arguments are not facts
				}
				if sel, ok := y.Fun.(*ast.SelectorExpr); ok && sel.Sel.Name == "Add" {
					if id, ok := sel.X.(*ast.Ident); ok && len(id.Name) > 0 && id.Name[0] >= 'A' && id.Name[0] <= 'Z' {
						return false // metric counter
					}
				}
				if _, isLit := y.Fun.(*ast.FuncLit); !isLit && !skip[name] && !strings.HasPrefix(name, "[]") {
					out = append(out, name)
				}
			case *ast.IndexExpr:
				out = append(out, "index:"+s.str(y.X))
			case *ast.BlockStmt, *ast.FuncLit:
				return true
			}
			return true
		})
	}
	walkStmt = func(st ast.Stmt) {
		if isLogOrMetricStmt(s, st) {
			return
		}
		if ifs, ok := st.(*ast.IfStmt); ok && isLogGuard(s, ifs) {
			return
		}
		switch x := st.(type) {
		case *ast.IfStmt:
			if x.Init != nil {
				walkStmt(x.Init)
			}
			walkNode(x.Cond)
			for _, b := range x.Body.List {
				walkStmt(b)
			}
			if x.Else != nil {
				walkStmt(x.Else)
			}
		case *ast.BlockStmt:
			for _, b := range x.List {
				walkStmt(b)
			}
		case *ast.ForStmt:
			for _, b := range x.Body.List {
				walkStmt(b)
			}
		case *ast.RangeStmt:
			walkNode(x.X)
			for _, b := range x.Body.List {
				walkStmt(b)
			}
		default:
			walkNode(st)
		}
	}
	for _, st := range list {
		walkStmt(st)
	}
	return out
}

// enclosingConds returns the conditions of the `if` statements that enclose the first call of `callee`
// inside the statement list (outermost first), NOT counting an `if` whose own condition contains the
// call; ok=false when the call does not occur.
func (s *srcSet) enclosingConds(list []ast.Stmt, callee string) (conds []string, ok bool) {
	var rec func(list []ast.Stmt, stack []string) bool
	contains := func(n ast.Node) bool {
		found := false
		ast.Inspect(n, func(m ast.Node) bool {
			if c, isCall := m.(*ast.CallExpr); isCall && s.str(c.Fun) == callee {
				found = true
			}
			return !found
		})
		return found
	}
	rec = func(list []ast.Stmt, stack []string) bool {
		for _, st := range list {
			switch x := st.(type) {
			case *ast.IfStmt:
				if contains(x.Cond) || (x.Init != nil && contains(x.Init)) {
					conds, ok = append([]string(nil), stack...), true
					return true
				}
				if rec(x.Body.List, append(stack, s.str(x.Cond))) {
					return true
				}
				if x.Else != nil {
					if rec([]ast.Stmt{x.Else}, append(stack, "!("+s.str(x.Cond)+")")) {
						return true
					}
				}
			case *ast.BlockStmt:
				if rec(x.List, stack) {
					return true
				}
			case *ast.ForStmt:
				if rec(x.Body.List, stack) {
					return true
				}
			case *ast.RangeStmt:
				if rec(x.Body.List, stack) {
					return true
				}
			default:
				if contains(st) {
					conds, ok = append([]string(nil), stack...), true
					return true
				}
			}
		}
		return false
	}
	rec(list, nil)
	return
}

// firstFor returns the body of the first `for` statement directly inside the list (searching into
// `go func(){…}()` literals when inGo is true and selecting the k-th literal).
func firstFor(list []ast.Stmt) *ast.ForStmt {
	for _, st := range list {
		if f, ok := st.(*ast.ForStmt); ok {
			return f
		}
	}
	return nil
}

// goFuncs returns the bodies of the `go func(){…}()` statements directly inside a function body.
func goFuncs(fd *ast.FuncDecl) []*ast.BlockStmt {
	var out []*ast.BlockStmt
	for _, st := range fd.Body.List {
		if g, ok := st.(*ast.GoStmt); ok {
			if fl, ok := g.Call.Fun.(*ast.FuncLit); ok {
				out = append(out, fl.Body)
			}
		}
	}
	return out
}

// ---- emitters ----------------------------------------------------------------------------------

func leanStrList(sb *strings.Builder, name, doc string, items []string) {
	fmt.Fprintf(sb, "\n/-- %s -/\ndef %s : List String := [", doc, name)
	for i, it := range items {
		if i > 0 {
			sb.WriteString(",")
		}
		fmt.Fprintf(sb, "\n  %s", leanQuote(it))
	}
	sb.WriteString("]\n")
}

func leanPairList(sb *strings.Builder, name, doc string, items [][2]string) {
	fmt.Fprintf(sb, "\n/-- %s -/\ndef %s : List (String × String) := [", doc, name)
	for i, it := range items {
		if i > 0 {
			sb.WriteString(",")
		}
		fmt.Fprintf(sb, "\n  (%s, %s)", leanQuote(it[0]), leanQuote(it[1]))
	}
	sb.WriteString("]\n")
}

func leanBytesList(sb *strings.Builder, name, doc string, items []string) {
	fmt.Fprintf(sb, "\n/-- %s -/\ndef %s : List (List UInt8) := [", doc, name)
	for i, it := range items {
		if i > 0 {
			sb.WriteString(",")
		}
		var bs []string
		for _, b := range []byte(it) {
			bs = append(bs, strconv.Itoa(int(b)))
		}
		fmt.Fprintf(sb, "\n  [%s] /- %s -/", strings.Join(bs, ", "), strings.ReplaceAll(it, "-/", "- /"))
	}
	sb.WriteString("]\n")
}

func leanNat(sb *strings.Builder, name, doc string, v int64) {
	fmt.Fprintf(sb, "\n/-- %s -/\ndef %s : Nat := %d\n", doc, name, v)
}

func brokenTie(sb *strings.Builder, what, why string) {
	fmt.Fprintf(sb, "\n-- BROKEN-TIE %s: %s\n", what, why)
}

// leanQuote quotes a Go source fragment as a Lean string literal.
func leanQuote(s string) string {
	var b strings.Builder
	b.WriteByte('"')
	for _, r := range s {
		switch r {
		case '"':
			b.WriteString("\\\"")
		case '\\':
			b.WriteString("\\\\")
		case '\n':
			b.WriteString("\\n")
		case '\t':
			b.WriteString("\\t")
		default:
			b.WriteRune(r)
		}
	}
	b.WriteByte('"')
	return b.String()
}

// stringSliceVar returns the string literals of a package-level `var name = []string{…}`.
func (s *srcSet) stringSliceVar(rel, name string) ([]string, bool) {
	f := s.load(rel)
	if f == nil {
		return nil, false
	}
	for _, d := range f.Decls {
		gd, ok := d.(*ast.GenDecl)
		if !ok || gd.Tok != token.VAR {
			continue
		}
		for _, sp := range gd.Specs {
			vs := sp.(*ast.ValueSpec)
			for i, id := range vs.Names {
				if id.Name != name || i >= len(vs.Values) {
					continue
				}
				cl, ok := vs.Values[i].(*ast.CompositeLit)
				if !ok {
					return nil, false
				}
				var out []string
				for _, e := range cl.Elts {
					bl, ok := e.(*ast.BasicLit)
					if !ok || bl.Kind != token.STRING {
						return nil, false
					}
					v, err := strconv.Unquote(bl.Value)
					if err != nil {
						return nil, false
					}
					out = append(out, v)
				}
				return out, true
			}
		}
	}
	return nil, false
}

// varFuncLit returns the function literal assigned to a package-level `var name = func(…) … {…}`.
func (s *srcSet) varFuncLit(rel, name string) *ast.FuncLit {
	f := s.load(rel)
	if f == nil {
		return nil
	}
	for _, d := range f.Decls {
		gd, ok := d.(*ast.GenDecl)
		if !ok || gd.Tok != token.VAR {
			continue
		}
		for _, sp := range gd.Specs {
			vs := sp.(*ast.ValueSpec)
			for i, id := range vs.Names {
				if id.Name == name && i < len(vs.Values) {
					if fl, ok := vs.Values[i].(*ast.FuncLit); ok {
						return fl
					}
				}
			}
		}
	}
	return nil
}

// intConsts returns the integer constants declared in a file (name -> value), for declarations of the
// form `Name [type] = <integer literal>`.
func (s *srcSet) intConsts(rel string) map[string]int64 {
	out := map[string]int64{}
	f := s.load(rel)
	if f == nil {
		return out
	}
	for _, d := range f.Decls {
		gd, ok := d.(*ast.GenDecl)
		if !ok || gd.Tok != token.CONST {
			continue
		}
		for _, sp := range gd.Specs {
			vs := sp.(*ast.ValueSpec)
			for i, id := range vs.Names {
				if i < len(vs.Values) {
					if bl, ok := vs.Values[i].(*ast.BasicLit); ok && bl.Kind == token.INT {
						if v, err := strconv.ParseInt(bl.Value, 0, 64); err == nil {
							out[id.Name] = v
						}
					}
				}
			}
		}
	}
	return out
}

// emitConsts writes `def <leanName> : Nat := v` for each requested Go constant, or a BROKEN-TIE line.
func emitConsts(sb *strings.Builder, consts map[string]int64, rel string, names [][2]string) {
	for _, n := range names {
		if v, ok := consts[n[0]]; ok && v >= 0 {
			leanNat(sb, n[1], "`"+n[0]+"` in "+rel, v)
		} else {
			brokenTie(sb, n[1], "integer constant "+n[0]+" not found in "+rel)
		}
	}
}

// linesContaining filters skeleton lines by substrings (any of).
func linesContaining(lines []string, subs ...string) []string {
	var out []string
	for _, l := range lines {
		for _, s := range subs {
			if strings.Contains(l, s) {
				out = append(out, l)
				break
			}
		}
	}
	return out
}
