package main

// Regenerated facts for C01 / C09 (lean/Mieru/Gen/Wire.lean):
//
//   * the three metadata layouts as the CODE lays them out: every `b[i] = …` /
//     `binary.BigEndian.PutUintNN(b[i:], …)` of sessionStruct.Marshal / dataAckStruct.Marshal and every
//     `b[i]` / `binary.BigEndian.UintNN(b[i:])` of the two Unmarshal bodies becomes an
//     (offset, width, field, guard, byte order) row (C09: spec_offsets_match_gen);
//   * Session.Write / writeChunk / Read / closeWithError / inputData: the statements the C01 model rests
//     on — the piggyback condition, that the queued payload is a COPY of the caller's bytes, the
//     fragment-count arithmetic (translated to a Lean function), the fragment / sequence numbering,
//     which index the unread tail is cut at, the in-order check, the states in which Close flushes;
//   * StreamUnderlay.writeOneSegment: the order in which the parts of a data segment are laid out.
//
// Anything the generator cannot find is emitted as `-- BROKEN-TIE …` and the definition is omitted, so
// the theorem that mentions it stops building.

import (
	"fmt"
	"go/ast"
	"go/parser"
	"go/token"
	"path/filepath"
	"sort"
	"strconv"
	"strings"
)

func init() { register("Wire.lean", genWire) }

type layoutRow struct {
	off, width   int
	field, guard string
	order        string
}

func lastSel(e ast.Expr) string {
	for {
		switch x := e.(type) {
		case *ast.SelectorExpr:
			return x.Sel.Name
		case *ast.Ident:
			return x.Name
		case *ast.CallExpr: // conversions uint8(x)
			if len(x.Args) == 1 {
				e = x.Args[0]
				continue
			}
			return "?"
		case *ast.ParenExpr:
			e = x.X
			continue
		default:
			return "?"
		}
	}
}

// b[N] with a literal N
func byteIndex(e ast.Expr) (int, bool) {
	ix, ok := e.(*ast.IndexExpr)
	if !ok {
		return 0, false
	}
	if id, ok := ix.X.(*ast.Ident); !ok || id.Name != "b" {
		return 0, false
	}
	lit, ok := ix.Index.(*ast.BasicLit)
	if !ok || lit.Kind != token.INT {
		return 0, false
	}
	n, err := strconv.Atoi(lit.Value)
	return n, err == nil
}

// b[N:] with a literal N
func sliceFrom(e ast.Expr) (int, bool) {
	sl, ok := e.(*ast.SliceExpr)
	if !ok || sl.High != nil || sl.Low == nil {
		return 0, false
	}
	if id, ok := sl.X.(*ast.Ident); !ok || id.Name != "b" {
		return 0, false
	}
	lit, ok := sl.Low.(*ast.BasicLit)
	if !ok || lit.Kind != token.INT {
		return 0, false
	}
	n, err := strconv.Atoi(lit.Value)
	return n, err == nil
}

// binary.<Order>.<Put>UintNN
func binaryCall(c *ast.CallExpr) (order string, put bool, width int, ok bool) {
	se, ok1 := c.Fun.(*ast.SelectorExpr)
	if !ok1 {
		return
	}
	inner, ok2 := se.X.(*ast.SelectorExpr)
	if !ok2 {
		return
	}
	pkg, ok3 := inner.X.(*ast.Ident)
	if !ok3 || pkg.Name != "binary" {
		return
	}
	name := se.Sel.Name
	put = strings.HasPrefix(name, "Put")
	name = strings.TrimPrefix(name, "Put")
	if !strings.HasPrefix(name, "Uint") {
		return
	}
	bits, err := strconv.Atoi(strings.TrimPrefix(name, "Uint"))
	if err != nil || bits%8 != 0 {
		return
	}
	return inner.Sel.Name, put, bits / 8, true
}

func guardOf(fset *token.FileSet, stack []ast.Node) string {
	g := ""
	for _, n := range stack {
		if is, ok := n.(*ast.IfStmt); ok {
			c := nodeString(fset, is.Cond)
			if strings.Contains(c, "isLowEntropyProtocol") {
				g = "le"
			}
		}
	}
	return g
}

// walk with a stack of enclosing nodes
func walkStack(n ast.Node, f func(n ast.Node, stack []ast.Node)) {
	var stack []ast.Node
	ast.Inspect(n, func(x ast.Node) bool {
		if x == nil {
			stack = stack[:len(stack)-1]
			return false
		}
		f(x, stack)
		stack = append(stack, x)
		return true
	})
}

func marshalRows(fset *token.FileSet, fd *ast.FuncDecl) []layoutRow {
	var rows []layoutRow
	walkStack(fd.Body, func(n ast.Node, stack []ast.Node) {
		switch x := n.(type) {
		case *ast.AssignStmt:
			if len(x.Lhs) == 1 && len(x.Rhs) == 1 {
				if off, ok := byteIndex(x.Lhs[0]); ok {
					rows = append(rows, layoutRow{off, 1, lastSel(x.Rhs[0]), guardOf(fset, stack), "byte"})
				}
			}
		case *ast.CallExpr:
			if order, put, w, ok := binaryCall(x); ok && put && len(x.Args) == 2 {
				if off, ok := sliceFrom(x.Args[0]); ok {
					rows = append(rows, layoutRow{off, w, lastSel(x.Args[1]), guardOf(fset, stack), order})
				}
			}
		}
	})
	return rows
}

// read site of an expression: b[N] | binary.X.UintNN(b[N:]) | conversion(read site)
func readSite(e ast.Expr) (off, width int, order string, ok bool) {
	switch x := e.(type) {
	case *ast.ParenExpr:
		return readSite(x.X)
	case *ast.IndexExpr:
		if o, ok := byteIndex(x); ok {
			return o, 1, "byte", true
		}
	case *ast.CallExpr:
		if ord, put, w, ok := binaryCall(x); ok && !put && len(x.Args) == 1 {
			if o, ok := sliceFrom(x.Args[0]); ok {
				return o, w, ord, true
			}
		}
		if len(x.Args) == 1 { // conversion
			return readSite(x.Args[0])
		}
	}
	return 0, 0, "", false
}

func unmarshalRows(fset *token.FileSet, fd *ast.FuncDecl, recv string) []layoutRow {
	type site struct {
		off, width   int
		order, guard string
	}
	locals := map[string]site{}
	var rows []layoutRow
	walkStack(fd.Body, func(n ast.Node, stack []ast.Node) {
		as, ok := n.(*ast.AssignStmt)
		if !ok || len(as.Lhs) != 1 || len(as.Rhs) != 1 {
			return
		}
		// composite literals inside the body (the validation candidate) are not assignments
		var st site
		found := false
		if o, w, ord, ok := readSite(as.Rhs[0]); ok {
			st, found = site{o, w, ord, guardOf(fset, stack)}, true
		} else if id, ok := as.Rhs[0].(*ast.Ident); ok {
			st, found = locals[id.Name]
		} else if ce, ok := as.Rhs[0].(*ast.CallExpr); ok && len(ce.Args) == 1 {
			if id, ok := ce.Args[0].(*ast.Ident); ok {
				st, found = locals[id.Name]
			}
		}
		if !found {
			return
		}
		switch l := as.Lhs[0].(type) {
		case *ast.Ident:
			locals[l.Name] = st
		case *ast.SelectorExpr:
			base := l
			for {
				if inner, ok := base.X.(*ast.SelectorExpr); ok {
					base = inner
					continue
				}
				break
			}
			if id, ok := base.X.(*ast.Ident); ok && id.Name == recv {
				rows = append(rows, layoutRow{st.off, st.width, l.Sel.Name, st.guard, st.order})
			}
		}
	})
	return rows
}

func leanRows(name, doc string, rows []layoutRow) string {
	sort.SliceStable(rows, func(i, j int) bool { return rows[i].off < rows[j].off })
	var sb strings.Builder
	fmt.Fprintf(&sb, "\n/-- %s -/\ndef %s : List (Nat × Nat × String × String × String) := [\n", doc, name)
	for i, r := range rows {
		sep := ","
		if i == len(rows)-1 {
			sep = ""
		}
		fmt.Fprintf(&sb, "  (%d, %d, %q, %q, %q)%s\n", r.off, r.width, r.field, r.guard, r.order, sep)
	}
	sb.WriteString("]\n")
	return sb.String()
}

func findMethod(f *ast.File, recv, name string) *ast.FuncDecl {
	for _, d := range f.Decls {
		fd, ok := d.(*ast.FuncDecl)
		if ok && fd.Body != nil && funcName(fd) == recv+"."+name {
			return fd
		}
	}
	return nil
}

// intExpr translates a small integer expression (identifiers, literals, + - * /, len(x) → lenX,
// mathext.Min/Max) to Lean over Int.
func intExpr(e ast.Expr) (string, bool) {
	switch x := e.(type) {
	case *ast.BasicLit:
		return x.Value, x.Kind == token.INT
	case *ast.Ident:
		return x.Name, true
	case *ast.ParenExpr:
		s, ok := intExpr(x.X)
		return "(" + s + ")", ok
	case *ast.BinaryExpr:
		a, ok1 := intExpr(x.X)
		b, ok2 := intExpr(x.Y)
		if !ok1 || !ok2 {
			return "", false
		}
		switch x.Op.String() {
		case "+", "-", "*":
			return fmt.Sprintf("(%s %s %s)", a, x.Op.String(), b), true
		case "/":
			return fmt.Sprintf("(Int.tdiv %s %s)", a, b), true
		case ">":
			return fmt.Sprintf("(%s > %s)", a, b), true
		case "<":
			return fmt.Sprintf("(%s < %s)", a, b), true
		case ">=":
			return fmt.Sprintf("(%s ≥ %s)", a, b), true
		case "<=":
			return fmt.Sprintf("(%s ≤ %s)", a, b), true
		}
	case *ast.CallExpr:
		if id, ok := x.Fun.(*ast.Ident); ok && id.Name == "len" && len(x.Args) == 1 {
			if a, ok := x.Args[0].(*ast.Ident); ok {
				return "len" + strings.ToUpper(a.Name[:1]) + a.Name[1:], true
			}
		}
		if se, ok := x.Fun.(*ast.SelectorExpr); ok && len(x.Args) == 2 {
			if p, ok := se.X.(*ast.Ident); ok && p.Name == "mathext" && (se.Sel.Name == "Min" || se.Sel.Name == "Max") {
				a, ok1 := intExpr(x.Args[0])
				b, ok2 := intExpr(x.Args[1])
				return fmt.Sprintf("(%s %s %s)", strings.ToLower(se.Sel.Name), a, b), ok1 && ok2
			}
		}
	}
	return "", false
}

func genWire(repo string, consts []constKV) string {
	var sb strings.Builder
	sb.WriteString("-- GENERATED by tools/goextract (wire.go) from the repository's current working tree; do not edit\nnamespace Mieru.Gen.Wire\n")
	fset := token.NewFileSet()
	broken := func(what string) { fmt.Fprintf(&sb, "\n-- BROKEN-TIE wire: %s\n", what) }

	// ---- metadata layouts -------------------------------------------------------------------
	mf, err := parser.ParseFile(fset, filepath.Join(repo, "pkg/protocol/metadata.go"), nil, 0)
	if err != nil {
		broken("cannot parse pkg/protocol/metadata.go")
	} else {
		for _, t := range []struct{ recvType, recvVar, lean, what string }{
			{"sessionStruct", "ss", "session", "sessionStruct"},
			{"dataAckStruct", "das", "dataAck", "dataAckStruct"},
		} {
			if fd := findMethod(mf, t.recvType, "Marshal"); fd != nil {
				sb.WriteString(leanRows(t.lean+"Marshal", fmt.Sprintf("(offset, width, field stored, guard, byte order) of every store into the buffer in `%s.Marshal` (guard \"le\" = inside `if isLowEntropyProtocol(…)`)", t.what), marshalRows(fset, fd)))
			} else {
				broken(t.what + ".Marshal not found")
			}
			if fd := findMethod(mf, t.recvType, "Unmarshal"); fd != nil {
				sb.WriteString(leanRows(t.lean+"Unmarshal", fmt.Sprintf("(offset, width, field assigned, guard, byte order): where every field of the receiver comes from in `%s.Unmarshal`", t.what), unmarshalRows(fset, fd, t.recvVar)))
			} else {
				broken(t.what + ".Unmarshal not found")
			}
		}
	}

	// ---- session.go ---------------------------------------------------------------------------
	sf, err := parser.ParseFile(fset, filepath.Join(repo, "pkg/protocol/session.go"), nil, 0)
	if err != nil {
		broken("cannot parse pkg/protocol/session.go")
		sb.WriteString("\nend Mieru.Gen.Wire\n")
		return sb.String()
	}
	str := func(name, doc, v string) { fmt.Fprintf(&sb, "\n/-- %s -/\ndef %s : String := %q\n", doc, name, v) }
	strs := func(name, doc string, v []string) {
		fmt.Fprintf(&sb, "\n/-- %s -/\ndef %s : List String := [%s]\n", doc, name, quoteList(v))
	}

	// Session.Write: the piggyback branch
	if fd := findMethod(sf, "Session", "Write"); fd != nil {
		var pigCond string
		var payloadAssign, copies []string
		ast.Inspect(fd.Body, func(n ast.Node) bool {
			switch x := n.(type) {
			case *ast.IfStmt:
				c := nodeString(fset, x.Cond)
				if strings.Contains(c, "MaxSessionOpenPayload") {
					pigCond = c
				}
			case *ast.AssignStmt:
				if len(x.Lhs) == 1 && nodeString(fset, x.Lhs[0]) == "seg.payload" {
					payloadAssign = append(payloadAssign, nodeString(fset, x.Rhs[0]))
				}
			case *ast.CallExpr:
				if id, ok := x.Fun.(*ast.Ident); ok && id.Name == "copy" {
					copies = append(copies, nodeString(fset, x))
				}
			}
			return true
		})
		str("writePiggybackCondition", "the condition under which `Session.Write` puts the caller's bytes into the open-session request", pigCond)
		strs("writeOpenPayloadAssignments", "every right-hand side assigned to `seg.payload` in `Session.Write`", payloadAssign)
		strs("writeCopyCalls", "every `copy(…)` call in `Session.Write`", copies)
	} else {
		broken("Session.Write not found")
	}

	// Session.writeChunk: fragment count arithmetic, numbering, payload copy
	if fd := findMethod(sf, "Session", "writeChunk"); fd != nil {
		var nfInit, nfCond, nfThen, loopHdr, partLen, fragField, seqField, payloadField string
		var copies, nextSendCalls []string
		ast.Inspect(fd.Body, func(n ast.Node) bool {
			switch x := n.(type) {
			case *ast.AssignStmt:
				if len(x.Lhs) == 1 && len(x.Rhs) == 1 {
					l := nodeString(fset, x.Lhs[0])
					if l == "nFragment" && x.Tok == token.DEFINE {
						nfInit, _ = intExpr(x.Rhs[0])
					}
					if l == "partLen" {
						partLen, _ = intExpr(x.Rhs[0])
					}
				}
			case *ast.IfStmt:
				if len(x.Body.List) == 1 {
					if as, ok := x.Body.List[0].(*ast.AssignStmt); ok && len(as.Lhs) == 1 && nodeString(fset, as.Lhs[0]) == "nFragment" {
						nfCond, _ = intExpr(x.Cond)
						nfThen, _ = intExpr(as.Rhs[0])
					}
				}
			case *ast.ForStmt:
				if x.Init != nil && strings.Contains(nodeString(fset, x.Init), "nFragment") {
					loopHdr = nodeString(fset, x.Init) + "; " + nodeString(fset, x.Cond) + "; " + nodeString(fset, x.Post)
				}
			case *ast.KeyValueExpr:
				if k, ok := x.Key.(*ast.Ident); ok {
					switch k.Name {
					case "fragment":
						fragField = nodeString(fset, x.Value)
					case "seq":
						seqField = nodeString(fset, x.Value)
					case "payload":
						payloadField = nodeString(fset, x.Value)
					}
				}
			case *ast.CallExpr:
				s := nodeString(fset, x)
				if id, ok := x.Fun.(*ast.Ident); ok && id.Name == "copy" {
					copies = append(copies, s)
				}
				if strings.HasPrefix(s, "s.nextSend.") {
					nextSendCalls = append(nextSendCalls, s)
				}
			}
			return true
		})
		if nfInit != "" && nfCond != "" && nfThen != "" {
			fmt.Fprintf(&sb, "\n/-- pkg/protocol/session.go writeChunk: `nFragment := %s; if %s { nFragment = … }` -/\ndef writeChunkNFragment (lenB fragmentSize : Int) : Int :=\n  if %s then %s else %s\n", nfInit, nfCond, nfCond, nfThen, nfInit)
		} else {
			broken("writeChunk: fragment count arithmetic not recognised")
		}
		if partLen != "" {
			fmt.Fprintf(&sb, "\n/-- pkg/protocol/session.go writeChunk: `partLen := …` -/\ndef writeChunkPartLen (fragmentSize lenPtr : Int) : Int := %s\n", partLen)
		} else {
			broken("writeChunk: partLen not recognised")
		}
		str("writeChunkLoop", "header of the fragment loop of `writeChunk`", loopHdr)
		str("writeChunkFragmentField", "value of the `fragment:` field of the metadata `writeChunk` builds", fragField)
		str("writeChunkSeqField", "value of the `seq:` field", seqField)
		str("writeChunkPayloadField", "value of the `payload:` field of the segment `writeChunk` builds", payloadField)
		strs("writeChunkCopyCalls", "every `copy(…)` call in `writeChunk`", copies)
		strs("writeChunkNextSendCalls", "every call on `s.nextSend` in `writeChunk`, in source order", nextSendCalls)
	} else {
		broken("Session.writeChunk not found")
	}

	// Session.Read: what the unread tail is cut from
	if fd := findMethod(sf, "Session", "Read"); fd != nil {
		var rhs, copies []string
		ast.Inspect(fd.Body, func(n ast.Node) bool {
			switch x := n.(type) {
			case *ast.AssignStmt:
				if len(x.Lhs) == 1 && nodeString(fset, x.Lhs[0]) == "s.unreadBuf" {
					rhs = append(rhs, nodeString(fset, x.Rhs[0]))
				}
				if len(x.Lhs) == 1 && nodeString(fset, x.Lhs[0]) == "copied" {
					copies = append(copies, nodeString(fset, x.Rhs[0]))
				}
			}
			return true
		})
		strs("readUnreadBufAssignments", "every right-hand side assigned to `s.unreadBuf` in `Session.Read`, in source order", rhs)
		strs("readCopiedAssignments", "every right-hand side assigned to `copied` in `Session.Read`", copies)
	} else {
		broken("Session.Read not found")
	}

	// closeWithError: in which states the close request is sent
	if fd := findMethod(sf, "Session", "closeWithError"); fd != nil {
		cond := ""
		ast.Inspect(fd.Body, func(n ast.Node) bool {
			if is, ok := n.(*ast.IfStmt); ok && cond == "" {
				found := false
				ast.Inspect(is.Body, func(m ast.Node) bool {
					if id, ok := m.(*ast.Ident); ok && id.Name == "closeSessionRequest" {
						found = true
					}
					return true
				})
				if found {
					cond = nodeString(fset, is.Cond)
				}
			}
			return true
		})
		str("closeFlushCondition", "the condition guarding the block of `closeWithError` that builds the close-session request", cond)
	} else {
		broken("Session.closeWithError not found")
	}

	// inputData: the in-order check of the stream transport
	if fd := findMethod(sf, "Session", "inputData"); fd != nil {
		check, adv := "", ""
		ast.Inspect(fd.Body, func(n ast.Node) bool {
			switch x := n.(type) {
			case *ast.IfStmt:
				if x.Init != nil && strings.Contains(nodeString(fset, x.Init), "streamNextRecv") {
					check = nodeString(fset, x.Init) + "; " + nodeString(fset, x.Cond)
				}
			case *ast.CallExpr:
				s := nodeString(fset, x)
				if strings.HasPrefix(s, "s.streamNextRecv.Add") {
					adv = s
				}
			}
			return true
		})
		str("inputDataOrderCheck", "the in-order check of `inputData` on the stream transport (a mismatch returns an error)", check)
		str("inputDataAdvance", "how `inputData` advances the expected sequence number", adv)
	} else {
		broken("Session.inputData not found")
	}

	// writeOneSegment (stream): order of the parts of a data segment
	uf, err := parser.ParseFile(fset, filepath.Join(repo, "pkg/protocol/underlay_stream.go"), nil, 0)
	if err != nil {
		broken("cannot parse pkg/protocol/underlay_stream.go")
	} else if fd := findMethod(uf, "StreamUnderlay", "writeOneSegment"); fd != nil {
		var sess, data []string
		walkStack(fd.Body, func(n ast.Node, stack []ast.Node) {
			ce, ok := n.(*ast.CallExpr)
			if !ok {
				return
			}
			s := nodeString(fset, ce)
			if !strings.Contains(s, "dataToSend") || strings.HasPrefix(s, "make(") || strings.HasPrefix(s, "len(") || strings.HasPrefix(s, "int64(") {
				return
			}
			if strings.HasPrefix(s, "metrics.") || strings.HasPrefix(s, "t.outBytes") {
				return
			}
			branch := ""
			for _, a := range stack {
				if is, ok := a.(*ast.IfStmt); ok && is.Init != nil {
					init := nodeString(fset, is.Init)
					if strings.Contains(init, "toSessionStruct") {
						branch = "session"
					} else if strings.Contains(init, "toDataAckStruct") {
						branch = "data"
					}
				}
			}
			switch branch {
			case "session":
				sess = append(sess, s)
			case "data":
				data = append(data, s)
			}
		})
		strs("writeOneSegmentSessionParts", "every call that touches `dataToSend` in the session-metadata branch of `StreamUnderlay.writeOneSegment`, in source order", sess)
		strs("writeOneSegmentDataParts", "the same for the data/ack branch", data)
	} else {
		broken("StreamUnderlay.writeOneSegment not found")
	}

	sb.WriteString("\nend Mieru.Gen.Wire\n")
	return sb.String()
}
