// goextract regenerates Lean definitions and structural facts from the CURRENT working tree of
// the mieru repository (tie "T" of DESIGN.md §3.3).
//
//	goextract -repo /repo -consts consts.txt -out /verif/lean/Mieru/Gen
//
// It writes Consts.lean (values obtained by compiling the repo; passed in as "name value" lines),
// Arith.lean (statement-by-statement translation of a whitelisted set of pure integer functions)
// and Facts.lean (structural facts as Lean data). Unsupported syntax in a whitelisted function
// does not abort the run: the function is emitted as a comment naming file:line, so that exactly
// the theorems that depend on it stop building.
package main

import (
	"bufio"
	"flag"
	"fmt"
	"go/ast"
	"go/parser"
	"go/printer"
	"go/token"
	"os"
	"path/filepath"
	"sort"
	"strings"
)

type unsupported struct{ msg string }

type fnSpec struct {
	file string // relative to repo
	name string
	recv string // receiver type name ("" for plain functions)
	lean string // Lean name
}

type tr struct {
	fset   *token.FileSet
	consts map[string]string // Go ident / selector -> Lean term
	funcs  map[string]*fnInfo
	// per-function state
	locals       map[string]string // Go local -> Lean term (for struct-valued locals: prefix)
	structLocals map[string][]string
	boolRet      bool
	repo         string
	dumped       map[string]bool
}

type fnInfo struct {
	lean    string
	kind    string   // "int", "bool", "interr" (Option Int), "structerr" (fields, Option), "err" (Bool: true = nil error)
	fields  []string // for structerr
	nparams int
}

func (t *tr) fail(n ast.Node, msg string) {
	panic(unsupported{fmt.Sprintf("%s: unsupported: %s", t.relPos(n.Pos()), msg)})
}

func (t *tr) sel(x *ast.SelectorExpr) string {
	switch y := x.X.(type) {
	case *ast.Ident:
		return y.Name + "." + x.Sel.Name
	case *ast.SelectorExpr:
		return t.sel(y) + "." + x.Sel.Name
	case *ast.CallExpr:
		// das.Protocol() style method call used as selector base is handled by callers
	}
	return "?." + x.Sel.Name
}

var cmpOps = map[string]string{"<=": "≤", ">=": "≥", "<": "<", ">": ">"}

// expr translates an integer- or bool-valued expression.
func (t *tr) expr(e ast.Expr) string {
	switch x := e.(type) {
	case *ast.BasicLit:
		if x.Kind != token.INT {
			t.fail(e, "literal "+x.Value)
		}
		return x.Value
	case *ast.Ident:
		if v, ok := t.locals[x.Name]; ok {
			return v
		}
		if v, ok := t.consts[x.Name]; ok {
			return v
		}
		if lk := strings.ToLower(x.Name[:1]) + x.Name[1:]; t.dumped[lk] {
			return "Mieru.Gen." + lk // any constant the compiled repo dumped
		}
		if x.Name == "true" || x.Name == "false" {
			return x.Name
		}
		t.fail(e, "identifier "+x.Name)
	case *ast.SelectorExpr:
		key := t.sel(x)
		if v, ok := t.locals[key]; ok {
			return v
		}
		if v, ok := t.consts[key]; ok {
			return v
		}
		t.fail(e, "selector "+key)
	case *ast.ParenExpr:
		return "(" + t.expr(x.X) + ")"
	case *ast.UnaryExpr:
		if x.Op == token.NOT {
			return "decide " + t.prop(e)
		}
		if x.Op == token.SUB {
			return "(-" + t.expr(x.X) + ")"
		}
		t.fail(e, "unary "+x.Op.String())
	case *ast.BinaryExpr:
		op := x.Op.String()
		switch op {
		case "&&", "||", "==", "!=", "<=", ">=", "<", ">":
			return "decide " + t.prop(e)
		case "+", "-", "*":
			return fmt.Sprintf("(%s %s %s)", t.expr(x.X), op, t.expr(x.Y))
		case "/":
			// Go truncates toward zero: Int.tdiv / Int.tmod
			return fmt.Sprintf("(Int.tdiv %s %s)", t.expr(x.X), t.expr(x.Y))
		case "%":
			return fmt.Sprintf("(Int.tmod %s %s)", t.expr(x.X), t.expr(x.Y))
		}
		t.fail(e, "operator "+op)
	case *ast.CallExpr:
		name := ""
		switch f := x.Fun.(type) {
		case *ast.Ident:
			name = f.Name
		case *ast.SelectorExpr:
			name = t.sel(f)
		}
		switch name {
		case "mathext.Min":
			return fmt.Sprintf("(min %s %s)", t.expr(x.Args[0]), t.expr(x.Args[1]))
		case "mathext.Max":
			return fmt.Sprintf("(max %s %s)", t.expr(x.Args[0]), t.expr(x.Args[1]))
		case "int", "int64", "int32", "uint16", "uint32", "uint8", "byte", "protocolType",
			"appctlpb.LowEntropyMode", "appctlpb.LowEntropyMaskRotation":
			// conversions: the translated functions are only claimed on inputs where no
			// conversion overflows (stated in the theorems' hypotheses)
			return t.expr(x.Args[0])
		}
		if fi, ok := t.funcs[name]; ok && (fi.kind == "int" || fi.kind == "bool") {
			args := []string{}
			for _, a := range x.Args {
				args = append(args, t.expr(a))
			}
			return "(" + fi.lean + " " + strings.Join(args, " ") + ")"
		}
		// method call with no args on a local whose result is a known local, e.g. das.Protocol()
		if len(x.Args) == 0 {
			if v, ok := t.locals[name+"()"]; ok {
				return v
			}
		}
		t.fail(e, "call "+name)
	}
	t.fail(e, fmt.Sprintf("%T", e))
	return ""
}

// prop translates a boolean Go expression to a Lean Prop (all conditions are decidable
// propositions over Int, so `if` and `decide` elaborate without Bool coercions).
func (t *tr) prop(e ast.Expr) string {
	switch x := e.(type) {
	case *ast.ParenExpr:
		return t.prop(x.X)
	case *ast.UnaryExpr:
		if x.Op == token.NOT {
			return "(¬ " + t.prop(x.X) + ")"
		}
	case *ast.BinaryExpr:
		op := x.Op.String()
		switch op {
		case "&&":
			return fmt.Sprintf("(%s ∧ %s)", t.prop(x.X), t.prop(x.Y))
		case "||":
			return fmt.Sprintf("(%s ∨ %s)", t.prop(x.X), t.prop(x.Y))
		case "==":
			return fmt.Sprintf("(%s = %s)", t.expr(x.X), t.expr(x.Y))
		case "!=":
			return fmt.Sprintf("(%s ≠ %s)", t.expr(x.X), t.expr(x.Y))
		case "<=", ">=", "<", ">":
			return fmt.Sprintf("(%s %s %s)", t.expr(x.X), cmpOps[op], t.expr(x.Y))
		}
	case *ast.Ident:
		if x.Name == "true" {
			return "True"
		}
		if x.Name == "false" {
			return "False"
		}
	case *ast.CallExpr:
		if fi, ok := t.funcs[t.callName(x)]; ok && fi.kind == "bool" {
			return fmt.Sprintf("((%s %s) = true)", fi.lean, t.args(x))
		}
	}
	t.fail(e, fmt.Sprintf("condition %T", e))
	return ""
}

func isErrNil(e ast.Expr) bool {
	id, ok := e.(*ast.Ident)
	return ok && id.Name == "nil"
}

// ret translates a return statement according to the function kind.
func (t *tr) ret(fi *fnInfo, field string, x *ast.ReturnStmt, ind string) string {
	switch fi.kind {
	case "int":
		return ind + t.expr(x.Results[0])
	case "bool":
		return ind + "decide " + t.prop(x.Results[0])
	case "err":
		if isErrNil(x.Results[0]) {
			return ind + "true"
		}
		if id, ok := x.Results[0].(*ast.Ident); ok && id.Name == "err" {
			return ind + "false"
		}
		if _, ok := x.Results[0].(*ast.CallExpr); ok { // fmt.Errorf(...)
			return ind + "false"
		}
		t.fail(x, "error result")
	case "interr":
		if isErrNil(x.Results[1]) {
			return ind + "some " + t.expr(x.Results[0])
		}
		return ind + "none"
	case "structerr":
		if !isErrNil(x.Results[1]) {
			return ind + "none"
		}
		cl, ok := x.Results[0].(*ast.CompositeLit)
		if !ok {
			t.fail(x, "struct result is not a literal")
		}
		for _, el := range cl.Elts {
			kv := el.(*ast.KeyValueExpr)
			if kv.Key.(*ast.Ident).Name == field {
				return ind + "some " + t.expr(kv.Value)
			}
		}
		return ind + "some 0"
	}
	t.fail(x, "return kind")
	return ""
}

func endsInReturn(ss []ast.Stmt) bool {
	if len(ss) == 0 {
		return false
	}
	switch s := ss[len(ss)-1].(type) {
	case *ast.ReturnStmt:
		return true
	case *ast.IfStmt:
		if s.Else == nil {
			return false
		}
		eb, ok := s.Else.(*ast.BlockStmt)
		return ok && endsInReturn(s.Body.List) && endsInReturn(eb.List)
	case *ast.SwitchStmt:
		hasDefault := false
		for _, c := range s.Body.List {
			cc := c.(*ast.CaseClause)
			if cc.List == nil {
				hasDefault = true
			}
			if !endsInReturn(cc.Body) {
				return false
			}
		}
		return hasDefault
	}
	return false
}

func (t *tr) stmtsOrFall(fi *fnInfo, field string, body, rest []ast.Stmt, ind string) string {
	if endsInReturn(body) {
		return t.stmts(fi, field, body, ind)
	}
	return t.stmts(fi, field, append(append([]ast.Stmt{}, body...), rest...), ind)
}

func isErrCheck(s ast.Stmt) bool {
	ifs, ok := s.(*ast.IfStmt)
	if !ok || ifs.Init != nil {
		return false
	}
	be, ok := ifs.Cond.(*ast.BinaryExpr)
	if !ok || be.Op != token.NEQ {
		return false
	}
	id, ok := be.X.(*ast.Ident)
	return ok && id.Name == "err" && isErrNil(be.Y)
}

func (t *tr) callName(c *ast.CallExpr) string {
	switch f := c.Fun.(type) {
	case *ast.Ident:
		return f.Name
	case *ast.SelectorExpr:
		return t.sel(f)
	}
	return ""
}

func (t *tr) args(c *ast.CallExpr) string {
	args := []string{}
	for _, a := range c.Args {
		args = append(args, t.expr(a))
	}
	return strings.Join(args, " ")
}

// failTerm is the Lean term for "return an error" in the current function kind.
func failTerm(fi *fnInfo) string {
	if fi.kind == "err" {
		return "false"
	}
	return "none"
}

// stmts translates a statement list into one Lean term.
func (t *tr) stmts(fi *fnInfo, field string, ss []ast.Stmt, ind string) string {
	if len(ss) == 0 {
		panic(unsupported{"fell off the end of a function"})
	}
	s, rest := ss[0], ss[1:]
	switch x := s.(type) {
	case *ast.ReturnStmt:
		return t.ret(fi, field, x, ind)
	case *ast.AssignStmt:
		if len(x.Lhs) == 2 && len(x.Rhs) == 1 {
			// v, err := f(args); if err != nil { return …, err }
			call, ok := x.Rhs[0].(*ast.CallExpr)
			if !ok {
				t.fail(s, "two-value assignment")
			}
			callee, ok := t.funcs[t.callName(call)]
			if !ok {
				t.fail(s, "call "+t.callName(call))
			}
			if len(rest) == 0 || !isErrCheck(rest[0]) {
				t.fail(s, "missing error check after call")
			}
			rest = rest[1:]
			v := x.Lhs[0].(*ast.Ident).Name
			args := t.args(call)
			switch callee.kind {
			case "interr":
				if v == "_" {
					v = "_v"
				}
				t.locals[v] = v
				return fmt.Sprintf("%smatch (%s %s) with\n%s| none => %s\n%s| some %s =>\n%s", ind, callee.lean, args, ind, failTerm(fi), ind, v, t.stmts(fi, field, rest, ind+"  "))
			case "structerr":
				scrut, pats, nones := []string{}, []string{}, []string{}
				for _, f := range callee.fields {
					scrut = append(scrut, fmt.Sprintf("(%s_%s %s)", callee.lean, f, args))
					pats = append(pats, "some "+v+"_"+f)
					nones = append(nones, "_")
					t.locals[v+"."+f] = v + "_" + f
				}
				return fmt.Sprintf("%smatch %s with\n%s| %s =>\n%s\n%s| %s => %s", ind, strings.Join(scrut, ", "), ind, strings.Join(pats, ", "), t.stmts(fi, field, rest, ind+"  "), ind, strings.Join(nones, ", "), failTerm(fi))
			}
			t.fail(s, "callee kind "+callee.kind)
		}
		if len(x.Lhs) != 1 {
			t.fail(s, "assignment arity")
		}
		name := x.Lhs[0].(*ast.Ident).Name
		rhs := t.expr(x.Rhs[0])
		// fresh Lean name for every (re)assignment keeps shadowing explicit
		t.locals[name] = name
		return fmt.Sprintf("%slet %s := %s\n%s", ind, name, rhs, t.stmts(fi, field, rest, ind))
	case *ast.IncDecStmt:
		name := x.X.(*ast.Ident).Name
		op := "+"
		if x.Tok == token.DEC {
			op = "-"
		}
		cur := t.expr(x.X)
		t.locals[name] = name
		return fmt.Sprintf("%slet %s := (%s %s 1)\n%s", ind, name, cur, op, t.stmts(fi, field, rest, ind))
	case *ast.IfStmt:
		if x.Init != nil {
			// if _, err := f(args); err != nil { return err }
			as, ok := x.Init.(*ast.AssignStmt)
			if !ok || len(as.Rhs) != 1 {
				t.fail(s, "if-init")
			}
			call, ok := as.Rhs[0].(*ast.CallExpr)
			if !ok {
				t.fail(s, "if-init call")
			}
			callee, ok := t.funcs[t.callName(call)]
			if !ok {
				t.fail(s, "if-init call "+t.callName(call))
			}
			args := t.args(call)
			okTerm := ""
			switch callee.kind {
			case "interr":
				okTerm = fmt.Sprintf("(%s %s).isSome", callee.lean, args)
			case "structerr":
				okTerm = fmt.Sprintf("(%s_%s %s).isSome", callee.lean, callee.fields[0], args)
			case "err":
				okTerm = fmt.Sprintf("(%s %s)", callee.lean, args)
			default:
				t.fail(s, "if-init callee kind")
			}
			return fmt.Sprintf("%sif %s = false then\n%s  %s\n%selse\n%s", ind, okTerm, ind, failTerm(fi), ind, t.stmts(fi, field, rest, ind+"  "))
		}
		// snapshot locals so that assignments inside one branch do not leak into the other
		saved := t.copyLocals()
		thenT := t.stmtsOrFall(fi, field, x.Body.List, rest, ind+"  ")
		t.locals = saved
		saved = t.copyLocals()
		var elseT string
		if x.Else != nil {
			switch eb := x.Else.(type) {
			case *ast.BlockStmt:
				elseT = t.stmtsOrFall(fi, field, eb.List, rest, ind+"  ")
			case *ast.IfStmt:
				elseT = t.stmts(fi, field, append([]ast.Stmt{eb}, rest...), ind+"  ")
			}
		} else {
			elseT = t.stmts(fi, field, rest, ind+"  ")
		}
		t.locals = saved
		return fmt.Sprintf("%sif %s then\n%s\n%selse\n%s", ind, t.prop(x.Cond), thenT, ind, elseT)
	case *ast.SwitchStmt:
		if x.Tag == nil || x.Init != nil {
			t.fail(s, "tagless switch")
		}
		tag := t.expr(x.Tag)
		out := ""
		def := ""
		for _, c := range x.Body.List {
			cc := c.(*ast.CaseClause)
			saved := t.copyLocals()
			body := t.stmtsOrFall(fi, field, cc.Body, rest, ind+"  ")
			t.locals = saved
			if cc.List == nil {
				def = body
				continue
			}
			conds := []string{}
			for _, e := range cc.List {
				conds = append(conds, fmt.Sprintf("(%s = %s)", tag, t.expr(e)))
			}
			out += fmt.Sprintf("%sif %s then\n%s\n%selse\n", ind, strings.Join(conds, " ∨ "), body, ind)
		}
		if def == "" {
			def = t.stmts(fi, field, rest, ind+"  ")
		}
		return out + def
	}
	t.fail(s, fmt.Sprintf("%T", s))
	return ""
}

func (t *tr) relPos(p token.Pos) string {
	pos := t.fset.Position(p)
	return fmt.Sprintf("%s:%d", strings.TrimPrefix(strings.TrimPrefix(pos.Filename, t.repo), "/"), pos.Line)
}

func (t *tr) copyLocals() map[string]string {
	m := map[string]string{}
	for k, v := range t.locals {
		m[k] = v
	}
	return m
}

func nodeString(fset *token.FileSet, n ast.Node) string {
	var sb strings.Builder
	printer.Fprint(&sb, fset, n)
	return strings.Join(strings.Fields(sb.String()), " ")
}

func main() {
	repo := flag.String("repo", "/repo", "repository root")
	constsFile := flag.String("consts", "", "file with 'name value' lines dumped from the compiled repo")
	out := flag.String("out", "", "output directory (lean/Mieru/Gen)")
	flag.Parse()
	if *out == "" {
		fmt.Fprintln(os.Stderr, "usage: goextract -repo R -consts F -out DIR")
		os.Exit(2)
	}
	os.MkdirAll(*out, 0o755)

	consts := readConsts(*constsFile)
	writeIfChanged(filepath.Join(*out, "Consts.lean"), genConsts(consts))
	writeIfChanged(filepath.Join(*out, "Arith.lean"), genArith(*repo, consts))
	writeIfChanged(filepath.Join(*out, "Facts.lean"), genFacts(*repo))
	writeIfChanged(filepath.Join(*out, "FactsC15.lean"), genFactsC15(*repo)) // C15: see facts_c15.go
	// topic files register further generated modules from their own init(): see register below
	for _, g := range registry {
		writeIfChanged(filepath.Join(*out, g.name), g.gen(*repo, consts))
	}
}

// A topic file (tools/goextract/<topic>.go) adds a regenerated Lean module without touching this file:
//
//	func init() { register("Topic.lean", genTopic) }   // genTopic(repo string, consts []constKV) string
//
// The module lands in lean/Mieru/Gen/Topic.lean (namespace of your choice under Mieru.Gen). A Go function
// or fact the generator cannot handle must be emitted as a line `-- BROKEN-TIE <name>: <why>` (bin/check
// reports every such line in any Gen file), never skipped silently.
type genFile struct {
	name string
	gen  func(repo string, consts []constKV) string
}

var registry []genFile

func register(name string, gen func(repo string, consts []constKV) string) {
	registry = append(registry, genFile{name, gen})
}

type constKV struct {
	k string
	v string
}

func readConsts(path string) []constKV {
	var res []constKV
	if path == "" {
		return res
	}
	f, err := os.Open(path)
	if err != nil {
		fmt.Fprintln(os.Stderr, "goextract:", err)
		os.Exit(2)
	}
	defer f.Close()
	sc := bufio.NewScanner(f)
	for sc.Scan() {
		fs := strings.Fields(sc.Text())
		if len(fs) == 2 {
			res = append(res, constKV{fs[0], fs[1]})
		}
	}
	sort.Slice(res, func(i, j int) bool { return res[i].k < res[j].k })
	return res
}

func leanIdent(s string) string {
	return strings.NewReplacer(".", "_", "-", "_").Replace(s)
}

func genConsts(cs []constKV) string {
	var sb strings.Builder
	sb.WriteString("-- GENERATED by tools/goextract from the compiled repository; do not edit\nnamespace Mieru.Gen\n")
	for _, c := range cs {
		fmt.Fprintf(&sb, "def %s : Int := %s\n", leanIdent(c.k), c.v)
	}
	sb.WriteString("end Mieru.Gen\n")
	return sb.String()
}

func writeIfChanged(path, content string) {
	old, err := os.ReadFile(path)
	if err == nil && string(old) == content {
		return
	}
	if err := os.WriteFile(path, []byte(content), 0o644); err != nil {
		fmt.Fprintln(os.Stderr, "goextract:", err)
		os.Exit(2)
	}
}

func genArith(repo string, cs []constKV) string {
	t := &tr{fset: token.NewFileSet(), consts: map[string]string{}, funcs: map[string]*fnInfo{}, repo: repo}
	cm := map[string]string{}
	t.dumped = map[string]bool{}
	for _, c := range cs {
		cm[c.k] = c.v
		t.dumped[c.k] = true
	}
	// Go identifiers the translated functions may mention -> Lean terms.
	for _, k := range []string{"packetOverhead", "maxPDU", "lowEntropyChunkLen", "streamOverhead", "MetadataLength", "MaxSessionOpenPayload", "segmentTreeCapacity", "minWindowSize", "maxWindowSize",
		"closeConnRequest", "closeConnResponse", "openSessionRequest", "openSessionResponse", "closeSessionRequest", "closeSessionResponse",
		"dataClientToServer", "dataServerToClient", "ackClientToServer", "ackServerToClient", "dataClientToServerLowEntropy", "dataServerToClientLowEntropy"} {
		lk := strings.ToLower(k[:1]) + k[1:]
		if _, ok := cm[lk]; ok {
			t.consts[k] = "Mieru.Gen." + lk
		}
	}
	t.consts["math.MaxUint16"] = "65535"
	t.consts["common.StreamTransport"] = "Mieru.Gen.streamTransport"
	t.consts["common.PacketTransport"] = "Mieru.Gen.packetTransport"
	for i, m := range []string{"OFF", "32", "40", "48", "56"} {
		t.consts["appctlpb.LowEntropyMode_LOW_ENTROPY_MODE_"+m] = fmt.Sprint(i)
	}
	t.consts["appctlpb.LowEntropyMaskRotation_LOW_ENTROPY_MASK_NO_ROTATION"] = "0"
	for i := 1; i <= 15; i++ {
		t.consts[fmt.Sprintf("appctlpb.LowEntropyMaskRotation_LOW_ENTROPY_MASK_ROTATE_RIGHT_%d", i)] = fmt.Sprint(i)
		t.consts[fmt.Sprintf("appctlpb.LowEntropyMaskRotation_LOW_ENTROPY_MASK_ROTATE_LEFT_%d", i)] = fmt.Sprint(16 * i)
	}

	type want struct {
		file, name, kind string
		fields           []string
	}
	wants := []want{
		{"pkg/protocol/low_entropy.go", "buildLowEntropyParams", "structerr", []string{"sourceBytesPerChunk", "halfMaskOnes"}},
		{"pkg/protocol/low_entropy.go", "lowEntropyEncodedPayloadLen", "interr", nil},
		{"pkg/protocol/low_entropy.go", "isValidLowEntropyRotation", "bool", nil},
		{"pkg/protocol/segment.go", "maxFragmentSizeInternal", "int", nil},
		{"pkg/protocol/segment.go", "maxFragmentSize", "interr", nil},
		{"pkg/protocol/padding.go", "maxPaddingSize", "int", nil},
		{"pkg/protocol/metadata.go", "isSessionProtocol", "bool", nil},
		{"pkg/protocol/metadata.go", "isLowEntropyProtocol", "bool", nil},
		{"pkg/protocol/metadata.go", "isDataProtocol", "bool", nil},
		{"pkg/protocol/metadata.go", "isAckProtocol", "bool", nil},
		{"pkg/protocol/metadata.go", "isDataAckProtocol", "bool", nil},
	}
	for _, w := range wants {
		t.funcs[w.name] = &fnInfo{lean: w.name, kind: w.kind, fields: w.fields}
	}

	var sb strings.Builder
	sb.WriteString("import Mieru.Gen.Consts\n-- GENERATED by tools/goextract from the repository's current working tree; do not edit\n")
	sb.WriteString("-- Go ints are translated to Int; `/` and `%` are Go's truncating Int.tdiv / Int.tmod; (v, err) results are Option.\n")
	sb.WriteString("set_option linter.unusedVariables false\nnamespace Mieru.Gen.Arith\n")
	parsed := map[string]*ast.File{}
	for _, w := range wants {
		f, ok := parsed[w.file]
		if !ok {
			var err error
			f, err = parser.ParseFile(t.fset, filepath.Join(repo, w.file), nil, 0)
			if err != nil {
				fmt.Fprintf(&sb, "\n-- BROKEN-TIE %s: cannot parse %s: %v\n", w.name, w.file, err)
				continue
			}
			parsed[w.file] = f
		}
		var fd *ast.FuncDecl
		for _, d := range f.Decls {
			if x, ok := d.(*ast.FuncDecl); ok && x.Name.Name == w.name && x.Recv == nil {
				fd = x
			}
		}
		if fd == nil {
			fmt.Fprintf(&sb, "\n-- BROKEN-TIE %s: function not found in %s\n", w.name, w.file)
			continue
		}
		sb.WriteString(t.translateFunc(fd, t.funcs[w.name]))
	}
	sb.WriteString("\nend Mieru.Gen.Arith\n")
	return sb.String()
}

func (t *tr) translateFunc(fd *ast.FuncDecl, fi *fnInfo) (res string) {
	defer func() {
		if r := recover(); r != nil {
			if u, ok := r.(unsupported); ok {
				res = fmt.Sprintf("\n-- BROKEN-TIE %s: %s\n", fd.Name.Name, u.msg)
				return
			}
			panic(r)
		}
	}()
	params := []string{}
	t.locals = map[string]string{}
	for _, p := range fd.Type.Params.List {
		for _, n := range p.Names {
			params = append(params, fmt.Sprintf("(%s : Int)", n.Name))
			t.locals[n.Name] = n.Name
		}
	}
	var sb strings.Builder
	emit := func(name, ret, field string) {
		saved := t.copyLocals()
		body := t.stmts(fi, field, fd.Body.List, "  ")
		t.locals = saved
		fmt.Fprintf(&sb, "\n/-- %s, %s -/\ndef %s %s : %s :=\n%s\n", t.relPos(fd.Pos()), fd.Name.Name, name, strings.Join(params, " "), ret, body)
	}
	switch fi.kind {
	case "int":
		emit(fi.lean, "Int", "")
	case "bool", "err":
		emit(fi.lean, "Bool", "")
	case "interr":
		emit(fi.lean, "Option Int", "")
	case "structerr":
		for _, f := range fi.fields {
			emit(fi.lean+"_"+f, "Option Int", f)
		}
	}
	return sb.String()
}

// ---------------------------------------------------------------------------------------------
// Structural facts

func genFacts(repo string) string {
	var sb strings.Builder
	sb.WriteString("-- GENERATED by tools/goextract from the repository's current working tree; do not edit\nnamespace Mieru.Gen.Facts\n")
	fset := token.NewFileSet()
	files := map[string]*ast.File{}
	load := func(rel string) *ast.File {
		if f, ok := files[rel]; ok {
			return f
		}
		f, err := parser.ParseFile(fset, filepath.Join(repo, rel), nil, 0)
		if err != nil {
			files[rel] = nil
			return nil
		}
		files[rel] = f
		return f
	}
	protoFiles := []string{"pkg/protocol/session.go", "pkg/protocol/underlay_base.go", "pkg/protocol/underlay_stream.go", "pkg/protocol/underlay_packet.go", "pkg/protocol/mux.go", "pkg/protocol/segment.go", "pkg/protocol/scheduler.go"}

	// (1) every select statement: enclosing function, whether it has a default, the channel
	// expressions it receives from / sends to.
	sb.WriteString("\n/-- (function, ordinal within function, has default, sorted channel expressions) of every `select` -/\ndef selects : List (String × Nat × Bool × List String) := [\n")
	first := true
	for _, rel := range protoFiles {
		f := load(rel)
		if f == nil {
			continue
		}
		for _, d := range f.Decls {
			fd, ok := d.(*ast.FuncDecl)
			if !ok || fd.Body == nil {
				continue
			}
			ord := 0
			ast.Inspect(fd.Body, func(n ast.Node) bool {
				sel, ok := n.(*ast.SelectStmt)
				if !ok {
					return true
				}
				hasDefault := false
				chans := []string{}
				for _, c := range sel.Body.List {
					cc := c.(*ast.CommClause)
					if cc.Comm == nil {
						hasDefault = true
						continue
					}
					chans = append(chans, commChan(fset, cc.Comm))
				}
				sort.Strings(chans)
				if !first {
					sb.WriteString(",\n")
				}
				first = false
				fmt.Fprintf(&sb, "  (%q, %d, %v, [%s])", funcName(fd), ord, hasDefault, quoteList(chans))
				ord++
				return true
			})
		}
	}
	sb.WriteString("\n]\n")

	// (2) every assignment whose left-hand side is a field named unAckSeq: function and RHS
	sb.WriteString("\n/-- (function, right-hand side) of every assignment to an `unAckSeq` field (composite literals included) -/\ndef unAckSeqAssignments : List (String × String) := [\n")
	first = true
	for _, rel := range protoFiles {
		f := load(rel)
		if f == nil {
			continue
		}
		for _, d := range f.Decls {
			fd, ok := d.(*ast.FuncDecl)
			if !ok || fd.Body == nil {
				continue
			}
			ast.Inspect(fd.Body, func(n ast.Node) bool {
				emit := func(rhs ast.Expr) {
					if !first {
						sb.WriteString(",\n")
					}
					first = false
					fmt.Fprintf(&sb, "  (%q, %q)", funcName(fd), nodeString(fset, rhs))
				}
				switch x := n.(type) {
				case *ast.AssignStmt:
					for i, l := range x.Lhs {
						if se, ok := l.(*ast.SelectorExpr); ok && se.Sel.Name == "unAckSeq" && i < len(x.Rhs) {
							emit(x.Rhs[i])
						}
					}
				case *ast.KeyValueExpr:
					if id, ok := x.Key.(*ast.Ident); ok && id.Name == "unAckSeq" {
						emit(x.Value)
					}
				}
				return true
			})
		}
	}
	sb.WriteString("\n]\n")

	// (3) every call of a method named Add on nextRecv / nextSend, and every DeleteMinIf predicate body
	sb.WriteString("\n/-- (function, receiver expression, argument) of every `.Add(` on nextRecv/nextSend -/\ndef seqCounterAdds : List (String × String × String) := [\n")
	first = true
	var delPreds []string
	for _, rel := range protoFiles {
		f := load(rel)
		if f == nil {
			continue
		}
		for _, d := range f.Decls {
			fd, ok := d.(*ast.FuncDecl)
			if !ok || fd.Body == nil {
				continue
			}
			ast.Inspect(fd.Body, func(n ast.Node) bool {
				ce, ok := n.(*ast.CallExpr)
				if !ok {
					return true
				}
				se, ok := ce.Fun.(*ast.SelectorExpr)
				if !ok {
					return true
				}
				if se.Sel.Name == "Add" && len(ce.Args) == 1 {
					recv := nodeString(fset, se.X)
					if strings.HasSuffix(recv, "nextRecv") || strings.HasSuffix(recv, "nextSend") {
						if !first {
							sb.WriteString(",\n")
						}
						first = false
						fmt.Fprintf(&sb, "  (%q, %q, %q)", funcName(fd), recv, nodeString(fset, ce.Args[0]))
					}
				}
				if se.Sel.Name == "DeleteMinIf" && len(ce.Args) == 1 {
					if fl, ok := ce.Args[0].(*ast.FuncLit); ok {
						delPreds = append(delPreds, fmt.Sprintf("  (%q, %q, %q)", funcName(fd), nodeString(fset, se.X), nodeString(fset, fl.Body)))
					}
				}
				return true
			})
		}
	}
	sb.WriteString("\n]\n")
	sb.WriteString("\n/-- (function, tree, predicate body) of every `DeleteMinIf(func…)` call -/\ndef deleteMinIfPredicates : List (String × String × String) := [\n")
	sb.WriteString(strings.Join(delPreds, ",\n"))
	sb.WriteString("\n]\n")

	// (3b) the guard of duplicate-ack ("early") retransmission: right-hand side of every definition of
	// a variable named satisfyEarlyRetransmission, and the abandonment test on txCount
	sb.WriteString("\n/-- (function, right-hand side) of every definition of `satisfyEarlyRetransmission` -/\ndef earlyRetransmissionGuards : List (String × String) := [\n")
	first = true
	var abandon []string
	for _, rel := range protoFiles {
		f := load(rel)
		if f == nil {
			continue
		}
		for _, d := range f.Decls {
			fd, ok := d.(*ast.FuncDecl)
			if !ok || fd.Body == nil {
				continue
			}
			ast.Inspect(fd.Body, func(n ast.Node) bool {
				switch x := n.(type) {
				case *ast.AssignStmt:
					for i, l := range x.Lhs {
						if id, ok := l.(*ast.Ident); ok && id.Name == "satisfyEarlyRetransmission" && i < len(x.Rhs) {
							if !first {
								sb.WriteString(",\n")
							}
							first = false
							fmt.Fprintf(&sb, "  (%q, %q)", funcName(fd), nodeString(fset, x.Rhs[i]))
						}
					}
				case *ast.IfStmt:
					c := nodeString(fset, x.Cond)
					if strings.Contains(c, "txCount") && strings.Contains(c, "txCountLimit") {
						abandon = append(abandon, fmt.Sprintf("  (%q, %q)", funcName(fd), c))
					}
				}
				return true
			})
		}
	}
	sb.WriteString("\n]\n")
	sb.WriteString("\n/-- (function, condition) of every `if` that compares txCount with txCountLimit -/\ndef abandonConditions : List (String × String) := [\n")
	sb.WriteString(strings.Join(abandon, ",\n"))
	sb.WriteString("\n]\n")

	// (3c) lock discipline of sequence-number assignment: every use of s.nextSend (Load / Add) in
	// session.go, with whether it lies textually between s.oLock.Lock() and the next
	// s.oLock.Unlock() of the same function (source order; branches are not interpreted)
	sb.WriteString("\n/-- (function, expression, textually under oLock) of every nextSend.Load()/Add() in session.go -/\ndef nextSendUses : List (String × String × Bool) := [\n")
	first = true
	if f := load("pkg/protocol/session.go"); f != nil {
		for _, d := range f.Decls {
			fd, ok := d.(*ast.FuncDecl)
			if !ok || fd.Body == nil {
				continue
			}
			type ev struct {
				pos  token.Pos
				kind int // 1 lock, 2 unlock, 3 use
				text string
			}
			var evs []ev
			ast.Inspect(fd.Body, func(n ast.Node) bool {
				ce, ok := n.(*ast.CallExpr)
				if !ok {
					return true
				}
				se, ok := ce.Fun.(*ast.SelectorExpr)
				if !ok {
					return true
				}
				recv := nodeString(fset, se.X)
				switch {
				case recv == "s.oLock" && se.Sel.Name == "Lock":
					evs = append(evs, ev{ce.Pos(), 1, ""})
				case recv == "s.oLock" && se.Sel.Name == "Unlock":
					evs = append(evs, ev{ce.Pos(), 2, ""})
				case recv == "s.nextSend" && (se.Sel.Name == "Load" || se.Sel.Name == "Add"):
					evs = append(evs, ev{ce.Pos(), 3, nodeString(fset, ce)})
				}
				return true
			})
			sort.Slice(evs, func(i, j int) bool { return evs[i].pos < evs[j].pos })
			held := false
			for _, e := range evs {
				switch e.kind {
				case 1:
					held = true
				case 2:
					held = false
				case 3:
					if !first {
						sb.WriteString(",\n")
					}
					first = false
					fmt.Fprintf(&sb, "  (%q, %q, %v)", funcName(fd), e.text, held)
				}
			}
		}
	}
	sb.WriteString("\n]\n")

	// (4) every network write in pkg/protocol: calls whose selector is Write/WriteTo on something
	// ending in "conn" (the underlay's network connection)
	sb.WriteString("\n/-- (function, callee expression) of every `conn.Write`/`conn.WriteTo` in pkg/protocol -/\ndef networkWrites : List (String × String) := [\n")
	first = true
	for _, rel := range protoFiles {
		f := load(rel)
		if f == nil {
			continue
		}
		for _, d := range f.Decls {
			fd, ok := d.(*ast.FuncDecl)
			if !ok || fd.Body == nil {
				continue
			}
			ast.Inspect(fd.Body, func(n ast.Node) bool {
				ce, ok := n.(*ast.CallExpr)
				if !ok {
					return true
				}
				se, ok := ce.Fun.(*ast.SelectorExpr)
				if !ok || (se.Sel.Name != "Write" && se.Sel.Name != "WriteTo") {
					return true
				}
				recv := nodeString(fset, se.X)
				if strings.HasSuffix(recv, "conn") || strings.HasSuffix(recv, "Conn") {
					if !first {
						sb.WriteString(",\n")
					}
					first = false
					fmt.Fprintf(&sb, "  (%q, %q)", funcName(fd), recv+"."+se.Sel.Name)
				}
				return true
			})
		}
	}
	sb.WriteString("\n]\n")

	// (5) callers of the functions that write to the network
	sb.WriteString("\n/-- (caller, callee) for callee ∈ {writeOneSegment, writeWithPossibleFragment, maybeInitSendBlockCipher} -/\ndef writeCallers : List (String × String) := [\n")
	first = true
	for _, rel := range protoFiles {
		f := load(rel)
		if f == nil {
			continue
		}
		for _, d := range f.Decls {
			fd, ok := d.(*ast.FuncDecl)
			if !ok || fd.Body == nil {
				continue
			}
			seen := map[string]bool{}
			ast.Inspect(fd.Body, func(n ast.Node) bool {
				ce, ok := n.(*ast.CallExpr)
				if !ok {
					return true
				}
				se, ok := ce.Fun.(*ast.SelectorExpr)
				if !ok {
					return true
				}
				switch se.Sel.Name {
				case "writeOneSegment", "writeWithPossibleFragment", "maybeInitSendBlockCipher":
					key := funcName(fd) + ">" + se.Sel.Name
					if !seen[key] {
						seen[key] = true
						if !first {
							sb.WriteString(",\n")
						}
						first = false
						fmt.Fprintf(&sb, "  (%q, %q)", funcName(fd), se.Sel.Name)
					}
				}
				return true
			})
		}
	}
	sb.WriteString("\n]\n")

	// (6) panic sites in network-reachable packages
	sb.WriteString("\n/-- (file, function) of every `panic(` call in the network-reachable packages -/\ndef panicSites : List (String × String) := [\n")
	first = true
	panicDirs := []string{"pkg/protocol", "pkg/cipher", "pkg/replay", "pkg/socks5", "apis/model", "apis/common", "pkg/protocol/serveruser", "pkg/congestion", "pkg/mathext"}
	for _, dir := range panicDirs {
		ents, _ := os.ReadDir(filepath.Join(repo, dir))
		names := []string{}
		for _, e := range ents {
			n := e.Name()
			if strings.HasSuffix(n, ".go") && !strings.HasSuffix(n, "_test.go") && !strings.HasPrefix(n, "verif_") {
				names = append(names, n)
			}
		}
		sort.Strings(names)
		for _, n := range names {
			f := load(filepath.Join(dir, n))
			if f == nil {
				continue
			}
			for _, d := range f.Decls {
				fd, ok := d.(*ast.FuncDecl)
				if !ok || fd.Body == nil {
					continue
				}
				ast.Inspect(fd.Body, func(nn ast.Node) bool {
					ce, ok := nn.(*ast.CallExpr)
					if !ok {
						return true
					}
					if id, ok := ce.Fun.(*ast.Ident); ok && id.Name == "panic" {
						if !first {
							sb.WriteString(",\n")
						}
						first = false
						fmt.Fprintf(&sb, "  (%q, %q)", filepath.Join(dir, n), funcName(fd))
					}
					return true
				})
			}
		}
	}
	sb.WriteString("\n]\n")
	sb.WriteString(genCloseFacts(repo)) // C03: close-path facts (closefacts.go)
	// (7…) facts for C10 (dispatch guards, typed errors, owner check): c10facts.go
	sb.WriteString(genFactsC10(repo, fset, load))
	sb.WriteString(genFactsC06(repo, fset, load)) // C06: replay cache consultation facts (c06facts.go)
	sb.WriteString("\nend Mieru.Gen.Facts\n")
	return sb.String()
}

func funcName(fd *ast.FuncDecl) string {
	if fd.Recv != nil && len(fd.Recv.List) == 1 {
		switch r := fd.Recv.List[0].Type.(type) {
		case *ast.StarExpr:
			if id, ok := r.X.(*ast.Ident); ok {
				return id.Name + "." + fd.Name.Name
			}
		case *ast.Ident:
			return r.Name + "." + fd.Name.Name
		}
	}
	return fd.Name.Name
}

func commChan(fset *token.FileSet, s ast.Stmt) string {
	switch x := s.(type) {
	case *ast.ExprStmt:
		if u, ok := x.X.(*ast.UnaryExpr); ok && u.Op == token.ARROW {
			return "<-" + nodeString(fset, u.X)
		}
	case *ast.AssignStmt:
		if len(x.Rhs) == 1 {
			if u, ok := x.Rhs[0].(*ast.UnaryExpr); ok && u.Op == token.ARROW {
				return "<-" + nodeString(fset, u.X)
			}
		}
	case *ast.SendStmt:
		return nodeString(fset, x.Chan) + "<-"
	}
	return nodeString(fset, s)
}

func quoteList(l []string) string {
	q := []string{}
	for _, s := range l {
		q = append(q, fmt.Sprintf("%q", s))
	}
	return strings.Join(q, ", ")
}
