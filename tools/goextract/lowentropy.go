// lowentropy.go — tie (T) for C17: the low-entropy codec and the portable PDEP / PEXT routines.
//
// Regenerates lean/Mieru/Gen/LE.lean from the repository's current working tree:
//
//   - pkg/mathext/bit.go          RepeatUint32, pdepGeneric, pextGeneric (the `for` loops become fuel-bounded
//     recursive functions returning `none` when the fuel runs out; Props/C17 proves that never happens)
//   - pkg/protocol/low_entropy.go lowBits, rotateLowEntropyMask, validateLowEntropyCodecParams, and the
//     encoder / decoder bodies cut into segments: everything that is integer or 64-bit word arithmetic is
//     translated statement by statement; the handful of statements that move bytes (make, copy,
//     binary.BigEndian.*, the loop header, the final return) are emitted verbatim as text facts which
//     Props/C17 compares with the expectation the hand-written loop skeleton was written against.
//   - pkg/mathext/bit.go, bit_amd64.go, bit_amd64.s: the dispatch (which implementation PDEP/PEXT call) and the
//     instruction lines of the two assembly routines, as facts.
//
// Go types map to Lean types of the same width (uint64 → UInt64, uint32 → UInt32, uint8 → UInt8: identical
// wrap-around arithmetic and bitwise operators); int and the protobuf enums map to Int as in Arith.lean.
// `if`/`switch` are translated by duplicating the continuation into every branch (no join points), so an
// assignment inside a branch is a shadowing `let`.  Anything outside the supported subset, or a statement
// that is not where the segment table expects it, yields a `-- BROKEN-TIE` line instead of a definition.
package main

import (
	"fmt"
	"go/ast"
	"go/parser"
	"go/token"
	"os"
	"path/filepath"
	"regexp"
	"sort"
	"strings"
)

func init() { register("LE.lean", genLE) }

type wvar struct{ lean, typ string }

type wt struct {
	fset   *token.FileSet
	repo   string
	env    map[string]wvar
	order  []string // Go keys of env in declaration order (the parameters of a loop function)
	consts map[string]string
	loops  strings.Builder
	fname  string
	nloop  int
	resTyp string // result type of the function being translated (loops return Option resTyp)
	failT  string // the term an error return translates to ("none", or "false" for error-only functions)
	ret    func(t *wt, x *ast.ReturnStmt, ind string) string
}

func (t *wt) fail(n ast.Node, msg string) {
	pos := t.fset.Position(n.Pos())
	panic(unsupported{fmt.Sprintf("%s:%d: unsupported: %s", strings.TrimPrefix(strings.TrimPrefix(pos.Filename, t.repo), "/"), pos.Line, msg)})
}

func (t *wt) bind(goName, lean, typ string) {
	if _, ok := t.env[goName]; !ok {
		t.order = append(t.order, goName)
	}
	t.env[goName] = wvar{lean, typ}
}

type wsnap struct {
	env   map[string]wvar
	order []string
}

func (t *wt) snap() wsnap {
	m := map[string]wvar{}
	for k, v := range t.env {
		m[k] = v
	}
	return wsnap{m, append([]string{}, t.order...)}
}
func (t *wt) restore(s wsnap) { t.env, t.order = s.env, s.order }

func isWord(typ string) bool { return typ == "UInt64" || typ == "UInt32" || typ == "UInt8" }

var goTypes = map[string]string{"uint64": "UInt64", "uint32": "UInt32", "uint8": "UInt8", "byte": "UInt8", "int": "Int", "bool": "Bool",
	"appctlpb.LowEntropyMode": "Int", "appctlpb.LowEntropyMaskRotation": "Int"}

func (t *wt) typeOf(e ast.Expr) string {
	s := nodeString(t.fset, e)
	if v, ok := goTypes[s]; ok {
		return v
	}
	t.fail(e, "type "+s)
	return ""
}

func (t *wt) key(e ast.Expr) string { return nodeString(t.fset, e) }

// calls the translated code may make: Go name -> (Lean name, parameter types, result type, returns Option)
type wcall struct {
	lean   string
	params []string
	res    string
	opt    bool
}

var wcalls = map[string]wcall{
	"bits.RotateLeft64":         {"Mieru.GoWord.rotateLeft64", []string{"UInt64", "Int"}, "UInt64", false},
	"bits.OnesCount32":          {"Mieru.GoWord.onesCount32", []string{"UInt32"}, "Int", false},
	"mathext.RepeatUint32":      {"repeatUint32", []string{"UInt32"}, "UInt64", false},
	"mathext.PDEP":              {"pdepGeneric", []string{"UInt64", "UInt64"}, "UInt64", true}, // dispatch: see the facts at the end
	"mathext.PEXT":              {"pextGeneric", []string{"UInt64", "UInt64"}, "UInt64", true},
	"lowBits":                   {"lowBits", []string{"Int"}, "UInt64", false},
	"rotateLowEntropyMask":      {"rotateLowEntropyMask", []string{"UInt64", "Int", "Int"}, "UInt64", false},
	"isValidLowEntropyRotation": {"Mieru.Gen.Arith.isValidLowEntropyRotation", []string{"Int"}, "Bool", false},
	"isLowEntropyProtocol":      {"Mieru.Gen.Arith.isLowEntropyProtocol", []string{"Int"}, "Bool", false},
}

// expr translates an expression; want is the type an untyped constant should take ("" = unknown).
func (t *wt) expr(e ast.Expr, want string) (string, string) {
	switch x := e.(type) {
	case *ast.BasicLit:
		if x.Kind != token.INT {
			t.fail(e, "literal "+x.Value)
		}
		typ := want
		if typ == "" {
			typ = "Int"
		}
		return fmt.Sprintf("(%s : %s)", x.Value, typ), typ
	case *ast.ParenExpr:
		s, ty := t.expr(x.X, want)
		return s, ty
	case *ast.Ident:
		if v, ok := t.env[x.Name]; ok {
			return v.lean, v.typ
		}
		if v, ok := t.consts[x.Name]; ok {
			typ := want
			if typ == "" {
				typ = "Int"
			}
			return fmt.Sprintf("(%s : %s)", v, typ), typ
		}
		t.fail(e, "identifier "+x.Name)
	case *ast.SelectorExpr:
		k := t.key(x)
		if v, ok := t.env[k]; ok {
			return v.lean, v.typ
		}
		if v, ok := t.consts[k]; ok {
			typ := want
			if typ == "" {
				typ = "Int"
			}
			return fmt.Sprintf("(%s : %s)", v, typ), typ
		}
		t.fail(e, "selector "+k)
	case *ast.UnaryExpr:
		switch x.Op {
		case token.SUB:
			s, ty := t.expr(x.X, want)
			return "(-" + s + ")", ty
		case token.XOR: // bitwise complement
			s, ty := t.expr(x.X, want)
			if !isWord(ty) {
				t.fail(e, "^ on "+ty)
			}
			return "(~~~" + s + ")", ty
		}
		t.fail(e, "unary "+x.Op.String())
	case *ast.BinaryExpr:
		op := x.Op.String()
		switch op {
		case "+", "-", "*", "&", "|", "^", "/", "%":
			l, lt := t.exprNoLit(x.X, x.Y, want)
			r, rt := t.expr(x.Y, lt)
			if lt != rt {
				t.fail(e, fmt.Sprintf("operand types %s %s %s", lt, op, rt))
			}
			switch op {
			case "+", "-", "*":
				return fmt.Sprintf("(%s %s %s)", l, op, r), lt
			case "&", "|", "^":
				if !isWord(lt) {
					t.fail(e, op+" on "+lt)
				}
				return fmt.Sprintf("(%s %s %s)", l, map[string]string{"&": "&&&", "|": "|||", "^": "^^^"}[op], r), lt
			case "/", "%":
				if lt != "Int" {
					t.fail(e, op+" on "+lt) // unsigned division is not needed by the translated code
				}
				return fmt.Sprintf("(%s %s %s)", map[string]string{"/": "Int.tdiv", "%": "Int.tmod"}[op], l, r), lt
			}
		case "<<", ">>":
			l, lt := t.expr(x.X, want)
			if lt != "UInt64" {
				t.fail(e, "shift of "+lt)
			}
			if lit, ok := x.Y.(*ast.BasicLit); ok && lit.Kind == token.INT {
				var n int
				fmt.Sscan(lit.Value, &n)
				if n >= 64 {
					t.fail(e, "constant shift count ≥ 64")
				}
				return fmt.Sprintf("(%s %s (%d : UInt64))", l, map[string]string{"<<": "<<<", ">>": ">>>"}[op], n), lt
			}
			r, rt := t.expr(x.Y, "Int")
			if rt != "Int" || op != "<<" {
				t.fail(e, "run-time shift count of type "+rt)
			}
			return fmt.Sprintf("(Mieru.GoWord.shlInt %s %s)", l, r), lt
		}
		t.fail(e, "operator "+op+" in a value position")
	case *ast.CallExpr:
		name := t.key(x.Fun)
		if ty, ok := goTypes[name]; ok && len(x.Args) == 1 { // conversion
			if lit, ok := x.Args[0].(*ast.BasicLit); ok {
				return fmt.Sprintf("(%s : %s)", lit.Value, ty), ty
			}
			s, from := t.expr(x.Args[0], ty)
			switch {
			case from == ty:
				return s, ty
			case from == "UInt32" && ty == "UInt64":
				return s + ".toUInt64", ty
			case from == "UInt8" && ty == "UInt64":
				return s + ".toUInt64", ty
			}
			t.fail(e, "conversion "+from+" → "+ty)
		}
		if (name == "len" && len(x.Args) == 1) || len(x.Args) == 0 {
			if v, ok := t.env[t.key(x)]; ok {
				return v.lean, v.typ
			}
		}
		if c, ok := wcalls[name]; ok && !c.opt {
			return t.call(x, c), c.res
		}
		t.fail(e, "call "+name+" in a value position")
	}
	t.fail(e, fmt.Sprintf("%T", e))
	return "", ""
}

// exprNoLit translates l knowing that its sibling operand r may fix the type of an untyped constant.
func (t *wt) exprNoLit(l, r ast.Expr, want string) (string, string) {
	if t.untyped(l) && !t.untyped(r) {
		_, rt := t.expr(r, want)
		return t.expr(l, rt)
	}
	return t.expr(l, want)
}

func (t *wt) untyped(e ast.Expr) bool {
	switch x := e.(type) {
	case *ast.BasicLit:
		return true
	case *ast.ParenExpr:
		return t.untyped(x.X)
	case *ast.Ident:
		_, ok := t.consts[x.Name]
		_, shadow := t.env[x.Name]
		return ok && !shadow
	case *ast.SelectorExpr:
		_, ok := t.consts[t.key(x)]
		return ok
	case *ast.BinaryExpr:
		return t.untyped(x.X) && t.untyped(x.Y)
	}
	return false
}

func (t *wt) call(x *ast.CallExpr, c wcall) string {
	if len(x.Args) != len(c.params) {
		t.fail(x, "arity of "+c.lean)
	}
	parts := []string{c.lean}
	for i, a := range x.Args {
		s, ty := t.expr(a, c.params[i])
		if ty != c.params[i] {
			t.fail(a, fmt.Sprintf("argument %d of %s has type %s, want %s", i, c.lean, ty, c.params[i]))
		}
		parts = append(parts, s)
	}
	return "(" + strings.Join(parts, " ") + ")"
}

// prop translates a condition to a decidable Prop.
func (t *wt) prop(e ast.Expr) string {
	switch x := e.(type) {
	case *ast.ParenExpr:
		return t.prop(x.X)
	case *ast.UnaryExpr:
		if x.Op == token.NOT {
			return "(¬ " + t.prop(x.X) + ")"
		}
	case *ast.BinaryExpr:
		op := x.Op.String()
		switch op {
		case "&&":
			return fmt.Sprintf("(%s ∧ %s)", t.prop(x.X), t.prop(x.Y))
		case "||":
			return fmt.Sprintf("(%s ∨ %s)", t.prop(x.X), t.prop(x.Y))
		case "==", "!=", "<", "<=", ">", ">=":
			l, lt := t.exprNoLit(x.X, x.Y, "")
			r, rt := t.expr(x.Y, lt)
			if lt != rt {
				t.fail(e, fmt.Sprintf("comparison of %s with %s", lt, rt))
			}
			return fmt.Sprintf("(%s %s %s)", l, map[string]string{"==": "=", "!=": "≠", "<": "<", "<=": "≤", ">": ">", ">=": "≥"}[op], r)
		}
	case *ast.CallExpr:
		if c, ok := wcalls[t.key(x.Fun)]; ok && c.res == "Bool" {
			return "(" + t.call(x, c) + " = true)"
		}
	}
	t.fail(e, fmt.Sprintf("condition %s", nodeString(t.fset, e)))
	return ""
}

// block translates a statement list; k produces the term for "control falls off the end of the list".
func (t *wt) block(ss []ast.Stmt, ind string, k func(ind string) string) string {
	if len(ss) == 0 {
		return k(ind)
	}
	s, rest := ss[0], ss[1:]
	next := func(ind string) string { return t.block(rest, ind, k) }
	switch x := s.(type) {
	case *ast.ReturnStmt:
		return t.ret(t, x, ind)
	case *ast.DeclStmt: // var v T  (zero value)
		gd, ok := x.Decl.(*ast.GenDecl)
		if !ok || gd.Tok != token.VAR || len(gd.Specs) != 1 {
			t.fail(s, "declaration")
		}
		vs := gd.Specs[0].(*ast.ValueSpec)
		if len(vs.Names) != 1 || len(vs.Values) != 0 {
			t.fail(s, "declaration with a value")
		}
		typ := t.typeOf(vs.Type)
		if typ == "Bool" {
			t.fail(s, "bool variable")
		}
		n := vs.Names[0].Name
		t.bind(n, n, typ)
		return fmt.Sprintf("%slet %s := (0 : %s)\n%s", ind, n, typ, next(ind))
	case *ast.IncDecStmt:
		n := x.X.(*ast.Ident).Name
		cur, ty := t.expr(x.X, "")
		op := "+"
		if x.Tok == token.DEC {
			op = "-"
		}
		t.bind(n, n, ty)
		return fmt.Sprintf("%slet %s := (%s %s 1)\n%s", ind, n, cur, op, next(ind))
	case *ast.AssignStmt:
		return t.assign(x, rest, ind, k)
	case *ast.IfStmt:
		pre := ""
		if as, ok := x.Init.(*ast.AssignStmt); ok && len(as.Lhs) == 2 && len(as.Rhs) == 1 {
			// if _, err := f(args); err != nil { return err }
			call, ok := as.Rhs[0].(*ast.CallExpr)
			be, ok2 := x.Cond.(*ast.BinaryExpr)
			if !ok || !ok2 || be.Op != token.NEQ || t.key(be.X) != "err" || !isErrNil(be.Y) || x.Else != nil || t.key(as.Lhs[0]) != "_" {
				t.fail(s, "if-init with two results")
			}
			if t.key(call.Fun) != "validateLowEntropyCodecParams" {
				t.fail(s, "if-init call "+t.key(call.Fun))
			}
			c := wcall{"validateLowEntropyCodecParams", []string{"Int", "UInt32", "Int"}, "", true}
			sn := t.snap()
			bodyT := t.block(x.Body.List, ind+"  ", func(string) string { panic(unsupported{"error branch falls through"}) })
			t.restore(sn)
			return fmt.Sprintf("%smatch %s with\n%s| none =>\n%s\n%s| some _ =>\n%s", ind, t.call(call, c), ind, bodyT, ind, next(ind+"  "))
		}
		if x.Init != nil {
			as, ok := x.Init.(*ast.AssignStmt)
			if !ok || len(as.Lhs) != 1 || as.Tok != token.DEFINE {
				t.fail(s, "if-init")
			}
			n := as.Lhs[0].(*ast.Ident).Name
			v, ty := t.expr(as.Rhs[0], "")
			t.bind(n, n, ty) // Go scopes it to the if statement; the name is not reused by the translated code
			pre = fmt.Sprintf("%slet %s := %s\n", ind, n, v)
		}
		cond := t.prop(x.Cond)
		sn := t.snap()
		thenT := t.block(x.Body.List, ind+"  ", next)
		t.restore(sn)
		sn = t.snap()
		var elseT string
		switch eb := x.Else.(type) {
		case nil:
			elseT = next(ind + "  ")
		case *ast.BlockStmt:
			elseT = t.block(eb.List, ind+"  ", next)
		case *ast.IfStmt:
			elseT = t.block([]ast.Stmt{eb}, ind+"  ", next)
		default:
			t.fail(s, "else")
		}
		t.restore(sn)
		return fmt.Sprintf("%s%sif %s then\n%s\n%selse\n%s", pre, ind, cond, thenT, ind, elseT)
	case *ast.SwitchStmt: // tagged switch; cases are tried in source order, as Go does
		if x.Tag == nil || x.Init != nil {
			t.fail(s, "tagless switch")
		}
		tag, tt := t.expr(x.Tag, "")
		out, def := "", ""
		depth := ind
		for _, c := range x.Body.List {
			cc := c.(*ast.CaseClause)
			sn := t.snap()
			body := t.block(cc.Body, depth+"  ", next)
			t.restore(sn)
			if cc.List == nil {
				def = body
				continue
			}
			conds := []string{}
			for _, e := range cc.List {
				v, vt := t.expr(e, tt)
				if vt != tt {
					t.fail(e, "case type "+vt)
				}
				conds = append(conds, fmt.Sprintf("(%s = %s)", tag, v))
			}
			out += fmt.Sprintf("%sif %s then\n%s\n%selse\n", depth, strings.Join(conds, " ∨ "), body, depth)
		}
		if def == "" {
			def = next(depth + "  ")
		}
		return out + def
	case *ast.ForStmt:
		return t.loop(x, rest, ind, k)
	}
	t.fail(s, fmt.Sprintf("%T", s))
	return ""
}

var assignOps = map[token.Token]token.Token{token.OR_ASSIGN: token.OR, token.AND_ASSIGN: token.AND, token.XOR_ASSIGN: token.XOR,
	token.SHL_ASSIGN: token.SHL, token.SHR_ASSIGN: token.SHR, token.ADD_ASSIGN: token.ADD, token.SUB_ASSIGN: token.SUB}

func (t *wt) assign(x *ast.AssignStmt, rest []ast.Stmt, ind string, k func(string) string) string {
	next := func(ind string) string { return t.block(rest, ind, k) }
	if len(x.Lhs) == 2 && len(x.Rhs) == 1 { // v, err := f(args); if err != nil { return …, err }
		call, ok := x.Rhs[0].(*ast.CallExpr)
		if !ok || len(rest) == 0 || !isErrCheck(rest[0]) {
			t.fail(x, "two-value assignment without an error check")
		}
		rest = rest[1:]
		next = func(ind string) string { return t.block(rest, ind, k) }
		v := x.Lhs[0].(*ast.Ident).Name
		switch t.key(call.Fun) {
		case "buildLowEntropyParams":
			a, _ := t.expr(call.Args[0], "Int")
			t.bind(v+".sourceBytesPerChunk", v+"_sourceBytesPerChunk", "Int")
			t.bind(v+".halfMaskOnes", v+"_halfMaskOnes", "Int")
			return fmt.Sprintf("%smatch (Mieru.Gen.Arith.buildLowEntropyParams_sourceBytesPerChunk %s), (Mieru.Gen.Arith.buildLowEntropyParams_halfMaskOnes %s) with\n%s| some %s_sourceBytesPerChunk, some %s_halfMaskOnes =>\n%s\n%s| _, _ => %s",
				ind, a, a, ind, v, v, next(ind+"  "), ind, t.failT)
		case "validateLowEntropyCodecParams":
			c := wcall{"validateLowEntropyCodecParams", []string{"Int", "UInt32", "Int"}, "", true}
			t.bind(v+".sourceBytesPerChunk", v+"_sourceBytesPerChunk", "Int")
			t.bind(v+".halfMaskOnes", v+"_halfMaskOnes", "Int")
			return fmt.Sprintf("%smatch %s with\n%s| none => %s\n%s| some (%s_sourceBytesPerChunk, %s_halfMaskOnes) =>\n%s",
				ind, t.call(call, c), ind, t.failT, ind, v, v, next(ind+"  "))
		case "lowEntropyEncodedPayloadLen":
			c := wcall{"Mieru.Gen.Arith.lowEntropyEncodedPayloadLen", []string{"Int", "Int"}, "Int", true}
			t.bind(v, v, "Int")
			return fmt.Sprintf("%smatch %s with\n%s| none => %s\n%s| some %s =>\n%s", ind, t.call(call, c), ind, t.failT, ind, v, next(ind+"  "))
		}
		t.fail(x, "call "+t.key(call.Fun))
	}
	if len(x.Lhs) != 1 || len(x.Rhs) != 1 {
		t.fail(x, "assignment arity")
	}
	id, ok := x.Lhs[0].(*ast.Ident)
	if !ok {
		t.fail(x, "assignment target "+t.key(x.Lhs[0]))
	}
	n := id.Name
	rhs := x.Rhs[0]
	if op, ok := assignOps[x.Tok]; ok {
		rhs = &ast.BinaryExpr{X: x.Lhs[0], Op: op, Y: x.Rhs[0], OpPos: x.Pos()}
	} else if x.Tok != token.DEFINE && x.Tok != token.ASSIGN {
		t.fail(x, "assignment operator "+x.Tok.String())
	}
	want := ""
	if v, ok := t.env[n]; ok && x.Tok != token.DEFINE {
		want = v.typ
	}
	// a call of a loop-carrying (Option-valued) function may only be the whole right-hand side
	if call, ok := rhs.(*ast.CallExpr); ok {
		if c, ok := wcalls[t.key(call.Fun)]; ok && c.opt {
			term := t.call(call, c)
			t.bind(n, n, c.res)
			return fmt.Sprintf("%smatch %s with\n%s| none => %s\n%s| some %s =>\n%s", ind, term, ind, t.failT, ind, n, next(ind+"  "))
		}
	}
	v, ty := t.expr(rhs, want)
	if want != "" && ty != want {
		t.fail(x, fmt.Sprintf("assignment of %s to %s %s", ty, want, n))
	}
	t.bind(n, n, ty)
	return fmt.Sprintf("%slet %s := %s\n%s", ind, n, v, next(ind))
}

const loopFuel = 65 // iterations + 1; Props/C17 proves the loops of bit.go end within it for every input

// loop translates `for init; cond; post { body }; rest` into a fuel-bounded recursive function over ALL
// variables in scope; `rest` is translated inside its exit branch.
func (t *wt) loop(x *ast.ForStmt, rest []ast.Stmt, ind string, k func(string) string) string {
	pre := ""
	if x.Init != nil {
		as, ok := x.Init.(*ast.AssignStmt)
		if !ok || as.Tok != token.DEFINE || len(as.Lhs) != 1 {
			t.fail(x, "loop init")
		}
		n := as.Lhs[0].(*ast.Ident).Name
		v, ty := t.expr(as.Rhs[0], "")
		t.bind(n, n, ty)
		pre = fmt.Sprintf("%slet %s := %s\n", ind, n, v)
	}
	if x.Cond == nil {
		t.fail(x, "loop without a condition")
	}
	t.nloop++
	name := fmt.Sprintf("%s_loop%d", t.fname, t.nloop)
	vars := append([]string{}, t.order...)
	typs, leans, wild := []string{}, []string{}, []string{}
	for _, g := range vars {
		typs = append(typs, t.env[g].typ)
		leans = append(leans, t.env[g].lean)
		wild = append(wild, "_")
	}
	recur := func(ind string) string {
		args := []string{}
		for _, g := range vars {
			args = append(args, t.env[g].lean)
		}
		return fmt.Sprintf("%s%s fuel %s", ind, name, strings.Join(args, " "))
	}
	body := append([]ast.Stmt{}, x.Body.List...)
	if x.Post != nil {
		body = append(body, x.Post)
	}
	ast.Inspect(x.Body, func(n ast.Node) bool {
		if b, ok := n.(*ast.BranchStmt); ok {
			t.fail(b, "break/continue/goto in a loop")
		}
		return true
	})
	sn := t.snap()
	cond := t.prop(x.Cond)
	bodyT := t.block(body, "      ", recur)
	t.restore(sn)
	sn = t.snap()
	exitT := t.block(rest, "      ", k)
	t.restore(sn)
	fmt.Fprintf(&t.loops, "\n/-- the `for` loop of %s (fuel-bounded; `none` = out of fuel) -/\ndef %s : Nat → %s → Option %s\n  | 0, %s => none\n  | fuel + 1, %s =>\n    if %s then\n%s\n    else\n%s\n",
		t.fname, name, strings.Join(typs, " → "), t.resTyp, strings.Join(wild, ", "), strings.Join(leans, ", "), cond, bodyT, exitT)
	return fmt.Sprintf("%s%s%s %d %s", pre, ind, name, loopFuel, strings.Join(leans, " "))
}

// ---------------------------------------------------------------------------------------------

type leParam struct{ goName, lean, typ string }

func findFunc(f *ast.File, name string) *ast.FuncDecl {
	for _, d := range f.Decls {
		if fd, ok := d.(*ast.FuncDecl); ok && fd.Name.Name == name && fd.Recv == nil {
			return fd
		}
	}
	return nil
}

func (t *wt) reset(fname string, params []leParam) string {
	t.env, t.order, t.fname, t.nloop = map[string]wvar{}, nil, fname, 0
	t.failT = "none"
	t.loops.Reset()
	sig := []string{}
	for _, p := range params {
		t.bind(p.goName, p.lean, p.typ)
		sig = append(sig, fmt.Sprintf("(%s : %s)", p.lean, p.typ))
	}
	return strings.Join(sig, " ")
}

// goParams reads the parameter list of a Go function.
func (t *wt) goParams(fd *ast.FuncDecl) []leParam {
	ps := []leParam{}
	for _, p := range fd.Type.Params.List {
		for _, n := range p.Names {
			ps = append(ps, leParam{n.Name, n.Name, t.typeOf(p.Type)})
		}
	}
	return ps
}

func guard(name string, f func() string) (res string) {
	defer func() {
		if r := recover(); r != nil {
			if u, ok := r.(unsupported); ok {
				res = fmt.Sprintf("\n-- BROKEN-TIE %s: %s\n", name, u.msg)
				return
			}
			res = fmt.Sprintf("\n-- BROKEN-TIE %s: %v\n", name, r)
		}
	}()
	return f()
}

// whole translates a complete function. kind: "pure" (result type res) or "opt" (Option res; `return v, nil`
// or, for a function with a loop, `return v` ↦ some v; any other return ↦ none).
func (t *wt) whole(f *ast.File, rel, name, kind, res string, params ...leParam) string {
	return guard(name, func() string {
		fd := findFunc(f, name)
		if fd == nil {
			panic(unsupported{"function not found in " + rel})
		}
		var sig string
		if params != nil {
			sig = t.reset(name, params)
		} else {
			sig = t.reset(name, t.goParams(fd))
		}
		t.resTyp = res
		if kind == "err" {
			t.failT = "false"
		}
		t.ret = func(t *wt, x *ast.ReturnStmt, ind string) string {
			if kind == "err" {
				if len(x.Results) == 1 && isErrNil(x.Results[0]) {
					return ind + "true"
				}
				return ind + "false"
			}
			if kind == "pure" {
				v, ty := t.expr(x.Results[0], res)
				if ty != res {
					t.fail(x, "result type "+ty)
				}
				return ind + v
			}
			last := x.Results[len(x.Results)-1]
			if len(x.Results) == 2 && !isErrNil(last) {
				return ind + "none"
			}
			if id, ok := x.Results[0].(*ast.Ident); ok && res == "(Int × Int)" { // a lowEntropyModeParams value
				a, ok1 := t.env[id.Name+".sourceBytesPerChunk"]
				b, ok2 := t.env[id.Name+".halfMaskOnes"]
				if !ok1 || !ok2 {
					t.fail(x, "struct result "+id.Name)
				}
				return fmt.Sprintf("%ssome (%s, %s)", ind, a.lean, b.lean)
			}
			v, ty := t.expr(x.Results[0], res)
			if ty != res {
				t.fail(x, "result type "+ty)
			}
			return ind + "some " + v
		}
		body := t.block(fd.Body.List, "  ", func(string) string { panic(unsupported{"control reaches the end of " + name}) })
		rt := res
		if kind == "opt" {
			rt = "Option " + res
		}
		if kind == "err" {
			rt = "Bool"
		}
		pos := t.fset.Position(fd.Pos())
		return fmt.Sprintf("%s\n/-- %s:%d, %s -/\ndef %s %s : %s :=\n%s\n", t.loops.String(), rel, pos.Line, name, name, sig, rt, body)
	})
}

// segment translates a run of statements of a function body as a function of the given parameters whose
// value is `some (results…)` when control reaches the end of the run and `none` when the run returns
// (every return inside a segment of the codec is an error return).
func (t *wt) segment(rel, lean, doc string, ss []ast.Stmt, params []leParam, results []string, resTypes string) string {
	return guard(lean, func() string {
		sig := t.reset(lean, params)
		t.resTyp = resTypes
		t.ret = func(t *wt, x *ast.ReturnStmt, ind string) string {
			if len(x.Results) == 2 && !isErrNil(x.Results[1]) {
				return ind + "none"
			}
			t.fail(x, "a non-error return inside a segment")
			return ""
		}
		body := t.block(ss, "  ", func(ind string) string {
			vals := []string{}
			for _, r := range results {
				v, ok := t.env[r]
				if !ok {
					panic(unsupported{"segment result " + r + " is not defined by its statements"})
				}
				vals = append(vals, v.lean)
			}
			if len(vals) == 1 {
				return ind + "some " + vals[0]
			}
			return ind + "some (" + strings.Join(vals, ", ") + ")"
		})
		line := 0
		if len(ss) > 0 {
			line = t.fset.Position(ss[0].Pos()).Line
		}
		return fmt.Sprintf("%s\n/-- %s:%d, %s -/\ndef %s %s : Option %s :=\n%s\n", t.loops.String(), rel, line, doc, lean, sig, resTypes, body)
	})
}

func leanStr(s string) string { return fmt.Sprintf("%q", s) }

func strList(name, doc string, l []string) string {
	q := []string{}
	for _, s := range l {
		q = append(q, "  "+leanStr(s))
	}
	return fmt.Sprintf("\n/-- %s -/\ndef %s : List String := [\n%s\n]\n", doc, name, strings.Join(q, ",\n"))
}

func genLE(repo string, cs []constKV) string {
	var sb strings.Builder
	sb.WriteString("import Mieru.Gen.Consts\nimport Mieru.Gen.Arith\nimport Mieru.Model.GoWord\n")
	sb.WriteString("-- GENERATED by tools/goextract (lowentropy.go) from the repository's current working tree; do not edit\n")
	sb.WriteString("-- uint64/uint32/uint8 ↦ UInt64/UInt32/UInt8 (same wrap-around arithmetic), int and enums ↦ Int; loops are fuel-bounded (none = out of fuel).\n")
	sb.WriteString("set_option linter.unusedVariables false\nnamespace Mieru.Gen.LE\n")
	t := &wt{fset: token.NewFileSet(), repo: repo, consts: map[string]string{}}
	for _, c := range cs {
		if c.k == "lowEntropyChunkLen" {
			t.consts["lowEntropyChunkLen"] = "Mieru.Gen.lowEntropyChunkLen"
		}
	}
	t.consts["math.MaxUint64"] = "18446744073709551615"
	t.consts["appctlpb.LowEntropyMaskRotation_LOW_ENTROPY_MASK_NO_ROTATION"] = "0"
	for i := 1; i <= 15; i++ {
		t.consts[fmt.Sprintf("appctlpb.LowEntropyMaskRotation_LOW_ENTROPY_MASK_ROTATE_RIGHT_%d", i)] = fmt.Sprint(i)
		t.consts[fmt.Sprintf("appctlpb.LowEntropyMaskRotation_LOW_ENTROPY_MASK_ROTATE_LEFT_%d", i)] = fmt.Sprint(16 * i)
	}
	parse := func(rel string) *ast.File {
		f, err := parser.ParseFile(t.fset, filepath.Join(repo, rel), nil, 0)
		if err != nil {
			fmt.Fprintf(&sb, "\n-- BROKEN-TIE %s: cannot parse: %v\n", rel, err)
			return nil
		}
		return f
	}
	const bitGo, leGo = "pkg/mathext/bit.go", "pkg/protocol/low_entropy.go"
	if f := parse(bitGo); f != nil {
		sb.WriteString(t.whole(f, bitGo, "RepeatUint32", "pure", "UInt64"))
		sb.WriteString(t.whole(f, bitGo, "pdepGeneric", "opt", "UInt64"))
		sb.WriteString(t.whole(f, bitGo, "pextGeneric", "opt", "UInt64"))
		sb.WriteString(genDispatchFacts(t, repo, f))
	}
	if f := parse(leGo); f != nil {
		sb.WriteString(t.whole(f, leGo, "lowBits", "pure", "UInt64"))
		sb.WriteString(t.whole(f, leGo, "rotateLowEntropyMask", "pure", "UInt64"))
		sb.WriteString(t.whole(f, leGo, "validateLowEntropyCodecParams", "opt", "(Int × Int)"))
		sb.WriteString(genCodecSegments(t, leGo, f))
	}
	const metaGo = "pkg/protocol/metadata.go"
	if f := parse(metaGo); f != nil {
		// the fields of the *dataAckStruct argument become parameters (uint8/uint16 fields ↦ Int: they are only
		// compared, converted to int, or reduced modulo a constant; the mask stays a 32-bit word)
		t.consts["maxPDU"] = "Mieru.Gen.maxPDU"
		sb.WriteString(t.whole(f, metaGo, "validateLowEntropyDataAckMetadata", "err", "Bool",
			leParam{"das.Protocol()", "das_protocol", "Int"}, leParam{"das.lowEntropyMode", "das_lowEntropyMode", "Int"},
			leParam{"das.lowEntropyMask", "das_lowEntropyMask", "UInt32"}, leParam{"das.lowEntropyMaskRotation", "das_lowEntropyMaskRotation", "Int"},
			leParam{"das.payloadLen", "das_payloadLen", "Int"}, leParam{"das.extractedPayloadLen", "das_extractedPayloadLen", "Int"}))
	}
	sb.WriteString("\nend Mieru.Gen.LE\n")
	// Lean names: Go's exported RepeatUint32 is referred to as repeatUint32 by the call table
	return strings.Replace(sb.String(), "def RepeatUint32 ", "def repeatUint32 ", 1)
}

// genCodecSegments cuts encodeLowEntropyPayloadWithPaddingBit and decodeLowEntropyPayload into translated
// arithmetic segments and verbatim byte-moving statements.
func genCodecSegments(t *wt, rel string, f *ast.File) string {
	var sb strings.Builder
	txt := func(n ast.Node) string { return nodeString(t.fset, n) }
	// is this statement one that moves bytes (not translated, emitted as text)?
	byteStmt := regexp.MustCompile(`^(var scratch |copy\(|binary\.BigEndian\.PutUint64\(|[a-zA-Z]+ := binary\.BigEndian\.Uint64\(|[a-zA-Z]+ := make\(\[\]byte, )`)
	isByte := func(s ast.Stmt) bool { return byteStmt.MatchString(txt(s)) }
	// split a statement list into maximal runs of translated statements separated by byte statements
	type run struct {
		ss    []ast.Stmt
		bytes []string // the byte statements that FOLLOW this run
	}
	split := func(ss []ast.Stmt) []run {
		runs := []run{{}}
		for _, s := range ss {
			if isByte(s) {
				runs[len(runs)-1].bytes = append(runs[len(runs)-1].bytes, txt(s))
				continue
			}
			if len(runs[len(runs)-1].bytes) > 0 {
				runs = append(runs, run{})
			}
			runs[len(runs)-1].ss = append(runs[len(runs)-1].ss, s)
		}
		return runs
	}
	header := func(fs *ast.ForStmt) string {
		return "for " + txt(fs.Init) + "; " + txt(fs.Cond) + "; " + txt(fs.Post)
	}
	type codec struct {
		goName, pfx string
		preParams  []leParam
		preRes     []string
		preTypes   string
		lenParams  []leParam
		wordParams []leParam
		wordRes    []string
		wordTypes  string
	}
	I := func(g, l string) leParam { return leParam{g, l, "Int"} }
	codecs := []codec{
		{"encodeLowEntropyPayloadWithPaddingBit", "enc",
			[]leParam{I("len(src)", "len_src"), I("mode", "mode"), {"halfMask", "halfMask", "UInt32"}, I("rotation", "rotation"), {"paddingBit", "paddingBit", "UInt8"}},
			[]string{"params.sourceBytesPerChunk", "encodedLen", "initialMask"}, "(Int × Int × UInt64)",
			[]leParam{I("len(src)", "len_src"), I("srcOffset", "srcOffset"), I("params.sourceBytesPerChunk", "params_sourceBytesPerChunk")},
			[]leParam{{"source", "source", "UInt64"}, I("sourceLen", "sourceLen"), {"initialMask", "initialMask", "UInt64"}, I("rotation", "rotation"), I("chunkIndex", "chunkIndex"), {"paddingBit", "paddingBit", "UInt8"}},
			[]string{"chunk"}, "UInt64"},
		{"decodeLowEntropyPayload", "dec",
			[]leParam{I("len(encoded)", "len_encoded"), I("extractedPayloadLen", "extractedPayloadLen"), I("mode", "mode"), {"halfMask", "halfMask", "UInt32"}, I("rotation", "rotation")},
			[]string{"params.sourceBytesPerChunk", "initialMask", "paddingBit"}, "(Int × UInt64 × UInt8)",
			[]leParam{I("extractedPayloadLen", "extractedPayloadLen"), I("dstOffset", "dstOffset"), I("params.sourceBytesPerChunk", "params_sourceBytesPerChunk")},
			[]leParam{{"chunk", "chunk", "UInt64"}, I("sourceLen", "sourceLen"), {"initialMask", "initialMask", "UInt64"}, I("rotation", "rotation"), I("chunkIndex", "chunkIndex"), {"paddingBit", "paddingBit", "UInt8"}},
			[]string{"paddingBit", "source"}, "(UInt8 × UInt64)"},
	}
	for _, c := range codecs {
		sb.WriteString(guard(c.goName, func() string {
			var out strings.Builder
			fd := findFunc(f, c.goName)
			if fd == nil {
				panic(unsupported{"function not found in " + rel})
			}
			// the body must be: statements, ONE for loop, one final return
			ss := fd.Body.List
			li := -1
			for i, s := range ss {
				if _, ok := s.(*ast.ForStmt); ok {
					if li >= 0 {
						panic(unsupported{"more than one loop"})
					}
					li = i
				}
			}
			if li < 0 || li != len(ss)-2 {
				panic(unsupported{"expected `…; for …{…}; return …`"})
			}
			fs := ss[li].(*ast.ForStmt)
			pre := split(ss[:li])
			if len(pre) > 2 || (len(pre) == 2 && len(pre[1].bytes) > 0) {
				panic(unsupported{"statements before the loop are not `arithmetic; make; arithmetic`"})
			}
			preStmts := append([]ast.Stmt{}, pre[0].ss...)
			if len(pre) == 2 {
				preStmts = append(preStmts, pre[1].ss...) // the allocation does not influence the arithmetic around it
			}
			out.WriteString(t.segment(rel, c.pfx+"Pre", c.goName+": the statements before the loop", preStmts, c.preParams, c.preRes, c.preTypes))
			body := split(fs.Body.List)
			if len(body) != 2 || len(body[1].bytes) == 0 {
				panic(unsupported{fmt.Sprintf("loop body is not `length arithmetic; byte moves; word arithmetic; byte moves` (%d runs)", len(body))})
			}
			out.WriteString(t.segment(rel, c.pfx+"SourceLen", c.goName+": bytes carried by this chunk", body[0].ss, c.lenParams, []string{"sourceLen"}, "Int"))
			out.WriteString(t.segment(rel, c.pfx+"Word", c.goName+": the 64-bit word arithmetic of one chunk", body[1].ss, c.wordParams, c.wordRes, c.wordTypes))
			texts := append([]string{}, pre[0].bytes...)
			texts = append(texts, header(fs))
			texts = append(texts, body[0].bytes...)
			texts = append(texts, body[1].bytes...)
			texts = append(texts, txt(ss[len(ss)-1]))
			out.WriteString(strList(c.pfx+"ByteStatements", c.goName+": the statements that are NOT translated (allocation, loop header, byte moves between the translated runs, final return), in source order", texts))
			return out.String()
		}))
	}
	return sb.String()
}

// genDispatchFacts: which implementation PDEP / PEXT call, and the instruction lines of the assembly.
func genDispatchFacts(t *wt, repo string, bit *ast.File) string {
	var sb strings.Builder
	// package-level `var ( pdepImpl = pdepGeneric … )`
	defaults := []string{}
	for _, d := range bit.Decls {
		gd, ok := d.(*ast.GenDecl)
		if !ok || gd.Tok != token.VAR {
			continue
		}
		for _, s := range gd.Specs {
			vs := s.(*ast.ValueSpec)
			for i, n := range vs.Names {
				if i < len(vs.Values) {
					defaults = append(defaults, n.Name+" = "+nodeString(t.fset, vs.Values[i]))
				}
			}
		}
	}
	sort.Strings(defaults)
	sb.WriteString(strList("dispatchDefaults", "pkg/mathext/bit.go: package-level variable initialisers", defaults))
	bodies := []string{}
	for _, name := range []string{"PDEP", "PEXT"} {
		if fd := findFunc(bit, name); fd != nil {
			bodies = append(bodies, name+": "+nodeString(t.fset, fd.Body))
		} else {
			bodies = append(bodies, name+": MISSING")
		}
	}
	sb.WriteString(strList("dispatchBodies", "pkg/mathext/bit.go: bodies of the exported entry points", bodies))
	// every assignment to pdepImpl / pextImpl anywhere in the package (non-test, non-hook files), with file and guard
	assigns := []string{}
	ents, _ := os.ReadDir(filepath.Join(repo, "pkg/mathext"))
	for _, e := range ents {
		n := e.Name()
		if !strings.HasSuffix(n, ".go") || strings.HasSuffix(n, "_test.go") || strings.HasPrefix(n, "verif_") {
			continue
		}
		f, err := parser.ParseFile(t.fset, filepath.Join(repo, "pkg/mathext", n), nil, 0)
		if err != nil {
			assigns = append(assigns, n+": PARSE ERROR")
			continue
		}
		for _, d := range f.Decls {
			fd, ok := d.(*ast.FuncDecl)
			if !ok || fd.Body == nil {
				continue
			}
			var walk func(n ast.Node, guard string)
			walk = func(node ast.Node, guard string) {
				ast.Inspect(node, func(x ast.Node) bool {
					switch y := x.(type) {
					case *ast.IfStmt:
						walk(y.Body, guard+"if "+nodeString(t.fset, y.Cond)+": ")
						if y.Else != nil {
							walk(y.Else, guard+"else of "+nodeString(t.fset, y.Cond)+": ")
						}
						return false
					case *ast.AssignStmt:
						for i, l := range y.Lhs {
							if id, ok := l.(*ast.Ident); ok && (id.Name == "pdepImpl" || id.Name == "pextImpl") && i < len(y.Rhs) {
								assigns = append(assigns, fmt.Sprintf("%s %s: %s%s = %s", n, fd.Name.Name, guard, id.Name, nodeString(t.fset, y.Rhs[i])))
							}
						}
					}
					return true
				})
			}
			walk(fd.Body, "")
		}
	}
	sort.Strings(assigns)
	sb.WriteString(strList("dispatchAssignments", "every assignment to pdepImpl / pextImpl in pkg/mathext (file function: guard: assignment)", assigns))
	// the assembly: per TEXT block the instruction lines, whitespace-normalised, comments dropped
	asm := []string{}
	if raw, err := os.ReadFile(filepath.Join(repo, "pkg/mathext/bit_amd64.s")); err == nil {
		for _, l := range strings.Split(string(raw), "\n") {
			if i := strings.Index(l, "//"); i >= 0 {
				l = l[:i]
			}
			l = strings.Join(strings.Fields(l), " ")
			if l == "" || strings.HasPrefix(l, "#include") {
				continue
			}
			asm = append(asm, l)
		}
	} else {
		asm = append(asm, "MISSING bit_amd64.s")
	}
	sb.WriteString(strList("asmLines", "pkg/mathext/bit_amd64.s: every non-comment line, whitespace-normalised", asm))
	return sb.String()
}
