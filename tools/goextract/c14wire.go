package main

// C14: regenerated definitions of the BUFFER ARITHMETIC around the size helpers — what
// Props/C14.lean used to mirror by hand:
//
//   * PacketUnderlay.writeOneSegment / StreamUnderlay.writeOneSegment: the statements that compute
//     the length of `dataToSend` (session branch and data/ack branch), sliced out of the function and
//     translated statement by statement with the translator of main.go;
//   * Session.writeChunk: the number of fragments and the length of one fragment (`partLen`);
//   * Session.Write: the condition under which the first write is piggybacked on the open request;
//   * facts: the arguments of every padding-budget call, the shape of maxPaddingSizeWithTrafficPattern,
//     the fragment loop header, the mtu passed to every NewSession.
//
// Output: lean/Mieru/Gen/Wire.lean, namespace Mieru.Gen.UdpWire. Anything that cannot be sliced or
// translated is emitted as `-- BROKEN-TIE <name>: <why>`.

import (
	"fmt"
	"go/ast"
	"go/parser"
	"go/token"
	"path/filepath"
	"strings"
)

func init() { register("UdpWire.lean", genUdpWire) }

// udpRewriteExpr returns e with every sub-expression whose source text is a key of m replaced.
func udpRewriteExpr(fset *token.FileSet, e ast.Expr, m map[string]ast.Expr) ast.Expr {
	if e == nil {
		return nil
	}
	if r, ok := m[nodeString(fset, e)]; ok {
		return r
	}
	switch x := e.(type) {
	case *ast.BinaryExpr:
		return &ast.BinaryExpr{X: udpRewriteExpr(fset, x.X, m), Op: x.Op, Y: udpRewriteExpr(fset, x.Y, m), OpPos: x.OpPos}
	case *ast.UnaryExpr:
		return &ast.UnaryExpr{Op: x.Op, X: udpRewriteExpr(fset, x.X, m), OpPos: x.OpPos}
	case *ast.ParenExpr:
		return &ast.ParenExpr{X: udpRewriteExpr(fset, x.X, m), Lparen: x.Lparen}
	case *ast.CallExpr:
		args := make([]ast.Expr, len(x.Args))
		for i, a := range x.Args {
			args[i] = udpRewriteExpr(fset, a, m)
		}
		return &ast.CallExpr{Fun: x.Fun, Args: args, Lparen: x.Lparen}
	}
	return e
}

func udpIdent(name string) *ast.Ident { return &ast.Ident{Name: name} }
func udpIsOne(name string) ast.Expr {
	return &ast.BinaryExpr{X: udpIdent(name), Op: token.EQL, Y: &ast.BasicLit{Kind: token.INT, Value: "1"}}
}

// udpSliceStmts keeps, recursively, the assignments to the wanted identifiers (and the `if`s around
// them), rewritten with m; `x += e` becomes `x = x + e`. Other statements are dropped.
func udpSliceStmts(fset *token.FileSet, ss []ast.Stmt, want map[string]bool, m map[string]ast.Expr) []ast.Stmt {
	var out []ast.Stmt
	for _, s := range ss {
		switch x := s.(type) {
		case *ast.AssignStmt:
			if len(x.Lhs) != 1 || len(x.Rhs) != 1 {
				continue
			}
			id, ok := x.Lhs[0].(*ast.Ident)
			if !ok || !want[id.Name] {
				continue
			}
			rhs := udpRewriteExpr(fset, x.Rhs[0], m)
			switch x.Tok {
			case token.ADD_ASSIGN:
				rhs = &ast.BinaryExpr{X: udpIdent(id.Name), Op: token.ADD, Y: rhs}
			case token.SUB_ASSIGN:
				rhs = &ast.BinaryExpr{X: udpIdent(id.Name), Op: token.SUB, Y: rhs}
			case token.ASSIGN, token.DEFINE:
			default:
				rhs = &ast.CallExpr{Fun: udpIdent("unsupportedAssignOp_" + x.Tok.String())}
			}
			out = append(out, &ast.AssignStmt{Lhs: []ast.Expr{udpIdent(id.Name)}, Tok: token.ASSIGN, Rhs: []ast.Expr{rhs}, TokPos: x.TokPos})
		case *ast.IfStmt:
			body := udpSliceStmts(fset, x.Body.List, want, m)
			var els []ast.Stmt
			if eb, ok := x.Else.(*ast.BlockStmt); ok {
				els = udpSliceStmts(fset, eb.List, want, m)
			} else if ei, ok := x.Else.(*ast.IfStmt); ok {
				els = udpSliceStmts(fset, []ast.Stmt{ei}, want, m)
			}
			if len(body) == 0 && len(els) == 0 {
				continue
			}
			n := &ast.IfStmt{If: x.If, Cond: udpRewriteExpr(fset, x.Cond, m), Body: &ast.BlockStmt{List: body}}
			if x.Init != nil {
				n.Cond = &ast.CallExpr{Fun: udpIdent("unsupportedIfInit")}
			}
			if len(els) > 0 {
				n.Else = &ast.BlockStmt{List: els}
			}
			out = append(out, n)
		}
	}
	return out
}

func udpFindFunc(f *ast.File, recv, name string) *ast.FuncDecl {
	for _, d := range f.Decls {
		fd, ok := d.(*ast.FuncDecl)
		if !ok || fd.Name.Name != name || fd.Body == nil {
			continue
		}
		if recv == "" && fd.Recv == nil {
			return fd
		}
		if fd.Recv != nil && strings.HasSuffix(funcName(fd), recv+"."+name) {
			return fd
		}
	}
	return nil
}

// branches of writeOneSegment: the bodies of `if ss, ok := toSessionStruct(…); ok {…} else if das, ok :=
// toDataAckStruct(…); ok {…}`
func udpSegmentBranches(fd *ast.FuncDecl) (session, data *ast.BlockStmt) {
	ast.Inspect(fd.Body, func(n ast.Node) bool {
		is, ok := n.(*ast.IfStmt)
		if !ok || is.Init == nil {
			return true
		}
		as, ok := is.Init.(*ast.AssignStmt)
		if !ok || len(as.Rhs) != 1 {
			return true
		}
		if ce, ok := as.Rhs[0].(*ast.CallExpr); ok {
			if id, ok := ce.Fun.(*ast.Ident); ok && id.Name == "toSessionStruct" {
				session = is.Body
				if ei, ok := is.Else.(*ast.IfStmt); ok && ei.Init != nil {
					data = ei.Body
				}
				return false
			}
		}
		return true
	})
	return
}

// udpMakeLen finds `dataToSend := make([]byte, EXPR)` in a block and returns EXPR.
func udpMakeLen(b *ast.BlockStmt) ast.Expr {
	var res ast.Expr
	for _, s := range b.List {
		as, ok := s.(*ast.AssignStmt)
		if !ok || len(as.Lhs) != 1 || len(as.Rhs) != 1 {
			continue
		}
		if id, ok := as.Lhs[0].(*ast.Ident); !ok || id.Name != "dataToSend" {
			continue
		}
		if ce, ok := as.Rhs[0].(*ast.CallExpr); ok && len(ce.Args) == 2 {
			if id, ok := ce.Fun.(*ast.Ident); ok && id.Name == "make" {
				res = ce.Args[1]
			}
		}
	}
	return res
}

func genUdpWire(repo string, consts []constKV) string {
	var sb strings.Builder
	sb.WriteString("import Mieru.Gen.Consts\nimport Mieru.Gen.Arith\n-- GENERATED by tools/goextract (c14wire.go) from the repository's current working tree; do not edit\n")
	sb.WriteString("set_option linter.unusedVariables false\nnamespace Mieru.Gen.UdpWire\n")
	fset := token.NewFileSet()
	t := &tr{fset: fset, consts: map[string]string{}, funcs: map[string]*fnInfo{}, repo: repo, dumped: map[string]bool{}}
	for _, c := range consts {
		t.dumped[c.k] = true
	}
	for _, k := range []string{"packetOverhead", "maxPDU", "streamOverhead", "MetadataLength", "MaxSessionOpenPayload", "nonceSize", "aeadOverhead"} {
		lk := strings.ToLower(k[:1]) + k[1:]
		if t.dumped[lk] {
			t.consts[k] = "Mieru.Gen." + lk
		}
	}
	t.consts["common.StreamTransport"] = "Mieru.Gen.streamTransport"
	t.consts["common.PacketTransport"] = "Mieru.Gen.packetTransport"
	parse := func(rel string) *ast.File {
		f, err := parser.ParseFile(fset, filepath.Join(repo, rel), nil, 0)
		if err != nil {
			fmt.Fprintf(&sb, "\n-- BROKEN-TIE %s: cannot parse: %v\n", rel, err)
			return nil
		}
		return f
	}
	emit := func(name, doc string, params []string, body []ast.Stmt, kind string) {
		defer func() {
			if r := recover(); r != nil {
				if u, ok := r.(unsupported); ok {
					fmt.Fprintf(&sb, "\n-- BROKEN-TIE %s: %s\n", name, u.msg)
					return
				}
				panic(r)
			}
		}()
		t.locals = map[string]string{}
		ps := []string{}
		for _, p := range params {
			ps = append(ps, fmt.Sprintf("(%s : Int)", p))
			t.locals[p] = p
		}
		fi := &fnInfo{lean: name, kind: kind}
		ret := "Int"
		if kind == "bool" {
			ret = "Bool"
		}
		term := t.stmts(fi, "", body, "  ")
		fmt.Fprintf(&sb, "\n/-- %s -/\ndef %s %s : %s :=\n%s\n", doc, name, strings.Join(ps, " "), ret, term)
	}
	lit := func(v string) ast.Expr { return &ast.BasicLit{Kind: token.INT, Value: v} }
	_ = lit

	// ---- writeOneSegment, both underlays ------------------------------------------------------
	type under struct {
		rel, recv, prefix string
		m                 map[string]ast.Expr
		extraParams       []string
	}
	common := func() map[string]ast.Expr {
		return map[string]ast.Expr{
			"len(plaintextMetadata)": udpIdent("MetadataLength"),
			"len(seg.payload)":       udpIdent("payload"),
			"len(padding)":           udpIdent("pad"),
			"len(padding1)":          udpIdent("p1"),
			"len(padding2)":          udpIdent("p2"),
			"int(das.payloadLen)":    udpIdent("wire"),
			"int(ss.payloadLen)":     udpIdent("wire"),
			"lowEntropy":             udpIsOne("lowEntropy"),
		}
	}
	pk := under{rel: "pkg/protocol/underlay_packet.go", recv: "PacketUnderlay", prefix: "packet", m: common()}
	pk.m["blockCipher.NonceSize()"] = udpIdent("nonceSize")
	pk.m["blockCipher.Overhead()"] = udpIdent("aeadOverhead")
	st := under{rel: "pkg/protocol/underlay_stream.go", recv: "StreamUnderlay", prefix: "stream", m: common(), extraParams: []string{"firstWrite"}}
	st.m["t.send.NonceSize()"] = udpIdent("nonceSize")
	st.m["t.send.Overhead()"] = udpIdent("aeadOverhead")
	st.m["firstWrite"] = udpIsOne("firstWrite")
	want := map[string]bool{"encryptedMetadataLen": true, "encryptedPayloadLen": true, "wirePayloadLen": true}
	var padCalls []string
	for _, u := range []under{pk, st} {
		f := parse(u.rel)
		if f == nil {
			continue
		}
		fd := udpFindFunc(f, u.recv, "writeOneSegment")
		if fd == nil {
			fmt.Fprintf(&sb, "\n-- BROKEN-TIE %sWriteOneSegment: %s.writeOneSegment not found in %s\n", u.prefix, u.recv, u.rel)
			continue
		}
		sess, data := udpSegmentBranches(fd)
		if sess == nil || data == nil {
			fmt.Fprintf(&sb, "\n-- BROKEN-TIE %sWriteOneSegment: the toSessionStruct / toDataAckStruct branches were not found\n", u.prefix)
			continue
		}
		for _, br := range []struct {
			name   string
			b      *ast.BlockStmt
			params []string
		}{
			{u.prefix + "SessionSegLen", sess, append([]string{"payload", "pad"}, u.extraParams...)},
			{u.prefix + "DataSegLen", data, append([]string{"payload", "wire", "p1", "p2", "lowEntropy"}, u.extraParams...)},
		} {
			ml := udpMakeLen(br.b)
			if ml == nil {
				fmt.Fprintf(&sb, "\n-- BROKEN-TIE %s: no `dataToSend := make([]byte, …)` in the branch\n", br.name)
				continue
			}
			// only the statements BEFORE the make (the slice must not pick up later reassignments)
			var before []ast.Stmt
			for _, s := range br.b.List {
				if as, ok := s.(*ast.AssignStmt); ok && len(as.Lhs) == 1 {
					if id, ok := as.Lhs[0].(*ast.Ident); ok && id.Name == "dataToSend" {
						break
					}
				}
				before = append(before, s)
			}
			body := udpSliceStmts(fset, before, want, u.m)
			body = append(body, &ast.ReturnStmt{Results: []ast.Expr{udpRewriteExpr(fset, ml, u.m)}})
			emit(br.name, fmt.Sprintf("%s, %s.writeOneSegment: length of `dataToSend` (%s)", u.rel, u.recv, nodeString(fset, ml)), br.params, body, "int")
			// the padding-budget calls of the branch
			ast.Inspect(br.b, func(n ast.Node) bool {
				ce, ok := n.(*ast.CallExpr)
				if !ok {
					return true
				}
				if id, ok := ce.Fun.(*ast.Ident); ok && id.Name == "maxPaddingSizeWithTrafficPattern" {
					args := []string{}
					for _, a := range ce.Args {
						args = append(args, nodeString(fset, a))
					}
					padCalls = append(padCalls, fmt.Sprintf("  (%q, %s)", br.name, udpLeanStrList(args)))
				}
				return true
			})
		}
	}
	fmt.Fprintf(&sb, "\n/-- (branch, arguments) of every `maxPaddingSizeWithTrafficPattern(…)` call in the two writeOneSegment functions, in source order -/\ndef paddingBudgetCalls : List (String × List String) := [\n%s\n]\n", strings.Join(padCalls, ",\n"))

	// ---- Session.writeChunk / Session.Write -----------------------------------------------------
	if f := parse("pkg/protocol/session.go"); f != nil {
		m := map[string]ast.Expr{
			"len(b)":              udpIdent("len"),
			"len(ptr)":            udpIdent("lenPtr"),
			"s.transportProtocol": udpIdent("transport"),
			"sendLowEntropy":      udpIsOne("sendLowEntropy"),
		}
		if fd := udpFindFunc(f, "Session", "writeChunk"); fd != nil {
			// nFragment: top-level statements of the function
			body := udpSliceStmts(fset, fd.Body.List, map[string]bool{"nFragment": true}, m)
			body = append(body, &ast.ReturnStmt{Results: []ast.Expr{udpIdent("nFragment")}})
			emit("nFragment", "pkg/protocol/session.go, Session.writeChunk: number of fragments of one chunk of `len` bytes", []string{"len", "fragmentSize"}, body, "int")
			// the fragment loop
			var loop *ast.ForStmt
			for _, s := range fd.Body.List {
				if fs, ok := s.(*ast.ForStmt); ok && fs.Init != nil && strings.Contains(nodeString(fset, fs.Init), "nFragment") {
					loop = fs
				}
			}
			if loop == nil {
				sb.WriteString("\n-- BROKEN-TIE partLen: the fragment loop `for i := nFragment - 1; …` was not found in Session.writeChunk\n")
			} else {
				// partLen: every assignment to partLen in the loop body before `part := ptr[:partLen]`
				var before []ast.Stmt
				for _, s := range loop.Body.List {
					if as, ok := s.(*ast.AssignStmt); ok && len(as.Lhs) == 1 {
						if id, ok := as.Lhs[0].(*ast.Ident); ok && id.Name == "part" {
							break
						}
					}
					before = append(before, s)
				}
				pl := udpSliceStmts(fset, before, map[string]bool{"partLen": true}, m)
				pl = append(pl, &ast.ReturnStmt{Results: []ast.Expr{udpIdent("partLen")}})
				emit("partLen", "pkg/protocol/session.go, Session.writeChunk: length of the fragment cut in iteration `i` when `lenPtr` bytes remain", []string{"fragmentSize", "lenPtr", "i", "transport"}, pl, "int")
				// loop shape facts
				var shape []string
				shape = append(shape, fmt.Sprintf("%q", "for "+nodeString(fset, loop.Init)+"; "+nodeString(fset, loop.Cond)+"; "+nodeString(fset, loop.Post)))
				for _, s := range loop.Body.List {
					if as, ok := s.(*ast.AssignStmt); ok && len(as.Lhs) == 1 {
						l := nodeString(fset, as.Lhs[0])
						if l == "part" || l == "ptr" || l == "payloadLen" {
							shape = append(shape, fmt.Sprintf("%q", nodeString(fset, as)))
						}
					}
					if is, ok := s.(*ast.IfStmt); ok && strings.Contains(nodeString(fset, is.Cond), "sendLowEntropy") {
						for _, b := range is.Body.List {
							if as, ok := b.(*ast.AssignStmt); ok {
								shape = append(shape, fmt.Sprintf("%q", "if "+nodeString(fset, is.Cond)+" { "+nodeString(fset, as)+" }"))
							}
						}
					}
				}
				ast.Inspect(loop.Body, func(n ast.Node) bool {
					if kv, ok := n.(*ast.KeyValueExpr); ok {
						if id, ok := kv.Key.(*ast.Ident); ok && (id.Name == "fragment" || id.Name == "payloadLen" || id.Name == "payload" || id.Name == "extractedPayloadLen") {
							shape = append(shape, fmt.Sprintf("%q", id.Name+": "+nodeString(fset, kv.Value)))
						}
					}
					return true
				})
				hdr := "for " + nodeString(fset, loop.Init) + "; " + nodeString(fset, loop.Cond) + "; " + nodeString(fset, loop.Post)
				adv := ""
				for _, s := range loop.Body.List {
					if as, ok := s.(*ast.AssignStmt); ok && len(as.Lhs) == 1 && nodeString(fset, as.Lhs[0]) == "ptr" {
						adv = nodeString(fset, as)
					}
				}
				if hdr == "for i := nFragment - 1; i >= 0; i--" && adv == "ptr = ptr[partLen:]" {
					sb.WriteString("\n/-- the fragment loop of writeChunk (`" + hdr + "`, `" + adv + "`) over the regenerated `partLen`:\n    (fragment number, fragment length) in emission order; fuel = i + 1 -/\ndef cutLoop (fragmentSize transport : Int) : Nat → Int → List (Int × Int)\n  | 0, _ => []\n  | i+1, lenPtr =>\n    let p := partLen fragmentSize lenPtr i transport\n    (i, p) :: cutLoop fragmentSize transport i (lenPtr - p)\n\n/-- everything one writeChunk call of `len` bytes puts into sendQueue -/\ndef cut (len fragmentSize transport : Int) : List (Int × Int) :=\n  cutLoop fragmentSize transport (nFragment len fragmentSize).toNat len\n")
				} else {
					fmt.Fprintf(&sb, "\n-- BROKEN-TIE cutLoop: the fragment loop of writeChunk is `%s` … `%s`, not the shape the loop template assumes\n", hdr, adv)
				}
				fmt.Fprintf(&sb, "\n/-- the fragment loop of writeChunk: header, how `part`/`ptr`/`payloadLen` are assigned, the length fields of the segment literal -/\ndef fragmentLoopShape : List String := [\n  %s\n]\n", strings.Join(shape, ",\n  "))
			}
			// the chunking of Write: `sizeToSend := mathext.Min(len(b), maxPDU)` and the writeChunk guard
			var chunk []string
			if wd := udpFindFunc(f, "Session", "Write"); wd != nil {
				ast.Inspect(wd.Body, func(n ast.Node) bool {
					if as, ok := n.(*ast.AssignStmt); ok && len(as.Lhs) == 1 && nodeString(fset, as.Lhs[0]) == "sizeToSend" {
						chunk = append(chunk, fmt.Sprintf("%q", nodeString(fset, as)))
					}
					return true
				})
			}
			for _, s := range fd.Body.List {
				if is, ok := s.(*ast.IfStmt); ok && strings.Contains(nodeString(fset, is.Cond), "maxPDU") {
					chunk = append(chunk, fmt.Sprintf("%q", "if "+nodeString(fset, is.Cond)))
				}
				if as, ok := s.(*ast.AssignStmt); ok && strings.Contains(nodeString(fset, as), "maxFragmentSize(") {
					chunk = append(chunk, fmt.Sprintf("%q", nodeString(fset, as)))
				}
			}
			fmt.Fprintf(&sb, "\n/-- how Write cuts chunks and which arguments writeChunk passes to maxFragmentSize -/\ndef chunking : List String := [\n  %s\n]\n", strings.Join(chunk, ",\n  "))
		} else {
			sb.WriteString("\n-- BROKEN-TIE nFragment: Session.writeChunk not found\n")
		}
		// the piggyback decision of Write: the `if` whose body assigns …payloadLen
		if wd := udpFindFunc(f, "Session", "Write"); wd != nil {
			var cond ast.Expr
			n := 0
			ast.Inspect(wd.Body, func(nd ast.Node) bool {
				is, ok := nd.(*ast.IfStmt)
				if !ok {
					return true
				}
				for _, b := range is.Body.List {
					if as, ok := b.(*ast.AssignStmt); ok && len(as.Lhs) == 1 && strings.HasSuffix(nodeString(fset, as.Lhs[0]), ".payloadLen") {
						if nodeString(fset, as.Rhs[0]) == "uint16(len(b))" {
							cond = is.Cond
							n++
						}
					}
				}
				return true
			})
			if cond == nil || n != 1 {
				fmt.Fprintf(&sb, "\n-- BROKEN-TIE openPayloadLen: expected exactly one `if … { ….payloadLen = uint16(len(b)) … }` in Session.Write, found %d\n", n)
			} else {
				body := []ast.Stmt{
					&ast.IfStmt{Cond: udpRewriteExpr(fset, cond, m), Body: &ast.BlockStmt{List: []ast.Stmt{&ast.ReturnStmt{Results: []ast.Expr{udpIdent("len")}}}}},
					&ast.ReturnStmt{Results: []ast.Expr{&ast.BasicLit{Kind: token.INT, Value: "0"}}},
				}
				emit("openPayloadLen", "pkg/protocol/session.go, Session.Write: payload length of the open session request for a first write of `len` bytes ("+nodeString(fset, cond)+")", []string{"sendLowEntropy", "len"}, body, "int")
			}
		} else {
			sb.WriteString("\n-- BROKEN-TIE openPayloadLen: Session.Write not found\n")
		}
	}

	// ---- maxPaddingSizeWithTrafficPattern: its shape as facts -----------------------------------
	if f := parse("pkg/protocol/padding.go"); f != nil {
		if fd := udpFindFunc(f, "", "maxPaddingSizeWithTrafficPattern"); fd != nil {
			var shape []string
			var walk func(ss []ast.Stmt, ind string)
			walk = func(ss []ast.Stmt, ind string) {
				for _, s := range ss {
					switch x := s.(type) {
					case *ast.IfStmt:
						shape = append(shape, fmt.Sprintf("%q", ind+"if "+nodeString(fset, x.Cond)))
						walk(x.Body.List, ind+"  ")
					case *ast.SwitchStmt:
						shape = append(shape, fmt.Sprintf("%q", ind+"switch "+nodeString(fset, x.Tag)))
						for _, c := range x.Body.List {
							cc := c.(*ast.CaseClause)
							lbl := "default"
							if cc.List != nil {
								es := []string{}
								for _, e := range cc.List {
									es = append(es, nodeString(fset, e))
								}
								lbl = "case " + strings.Join(es, ", ")
							}
							shape = append(shape, fmt.Sprintf("%q", ind+lbl))
							walk(cc.Body, ind+"  ")
						}
					case *ast.ReturnStmt, *ast.AssignStmt:
						shape = append(shape, fmt.Sprintf("%q", ind+nodeString(fset, x)))
					}
				}
			}
			walk(fd.Body.List, "")
			fmt.Fprintf(&sb, "\n/-- maxPaddingSizeWithTrafficPattern, statement by statement (conditions, cases, assignments, returns) -/\ndef maxPaddingSizeWithTrafficPatternShape : List String := [\n  %s\n]\n", strings.Join(shape, ",\n  "))
		} else {
			sb.WriteString("\n-- BROKEN-TIE maxPaddingSizeWithTrafficPatternShape: function not found\n")
		}
	}

	// ---- which mtu every session is created with ------------------------------------------------
	var news []string
	for _, rel := range []string{"pkg/protocol/mux.go", "pkg/protocol/underlay_packet.go", "pkg/protocol/underlay_stream.go", "pkg/protocol/underlay_base.go", "pkg/protocol/session.go"} {
		f := parse(rel)
		if f == nil {
			continue
		}
		for _, d := range f.Decls {
			fd, ok := d.(*ast.FuncDecl)
			if !ok || fd.Body == nil {
				continue
			}
			ast.Inspect(fd.Body, func(n ast.Node) bool {
				ce, ok := n.(*ast.CallExpr)
				if !ok {
					return true
				}
				if id, ok := ce.Fun.(*ast.Ident); ok && (id.Name == "NewSession" || id.Name == "newSessionWithServerUserPolicy") && len(ce.Args) >= 3 {
					news = append(news, fmt.Sprintf("  (%q, %q, %q)", funcName(fd), id.Name, nodeString(fset, ce.Args[2])))
				}
				return true
			})
		}
	}
	fmt.Fprintf(&sb, "\n/-- (caller, constructor, expression passed as mtu) of every session construction in pkg/protocol -/\ndef sessionMTUs : List (String × String × String) := [\n%s\n]\n", strings.Join(news, ",\n"))

	sb.WriteString("\nend Mieru.Gen.UdpWire\n")
	return sb.String()
}
