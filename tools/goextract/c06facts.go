package main

// Structural facts for C06 (used by Props/C06): how the two process-wide replay caches are consulted.
// The no-miss theorems speak about sequences of ATOMIC check-and-record calls (`IsDuplicate` holds the
// cache's mutex from the look-up to the insertion); any schedule of concurrent presentations is such a
// sequence only if (a) nothing else reads the cache's maps, (b) the first-contact path calls exactly
// that method, unconditionally, before any decryption / user discovery starts.

import (
	"fmt"
	"go/ast"
	"go/token"
	"os"
	"path/filepath"
	"sort"
	"strings"
)

func genFactsC06(repo string, fset *token.FileSet, load func(string) *ast.File) string {
	var sb strings.Builder
	// (a) functions of pkg/replay that index the maps
	var readers []string
	ents, _ := os.ReadDir(filepath.Join(repo, "pkg/replay"))
	var names []string
	for _, e := range ents {
		n := e.Name()
		if strings.HasSuffix(n, ".go") && !strings.HasSuffix(n, "_test.go") && !strings.HasPrefix(n, "verif_") {
			names = append(names, n)
		}
	}
	sort.Strings(names)
	for _, n := range names {
		f := load(filepath.Join("pkg/replay", n))
		if f == nil {
			return "\n-- BROKEN-TIE c06facts: cannot parse pkg/replay/" + n + "\n"
		}
		for _, d := range f.Decls {
			fd, ok := d.(*ast.FuncDecl)
			if !ok || fd.Body == nil {
				continue
			}
			reads := false
			ast.Inspect(fd.Body, func(x ast.Node) bool {
				if ix, ok := x.(*ast.IndexExpr); ok {
					s := nodeString(fset, ix.X)
					if strings.HasSuffix(s, ".current") || strings.HasSuffix(s, ".previous") {
						reads = true
					}
				}
				if rs, ok := x.(*ast.RangeStmt); ok {
					s := nodeString(fset, rs.X)
					if strings.HasSuffix(s, ".current") || strings.HasSuffix(s, ".previous") {
						reads = true
					}
				}
				return true
			})
			if reads {
				readers = append(readers, fmt.Sprintf("%q", funcName(fd)))
			}
		}
	}
	sb.WriteString("\n/-- functions of pkg/replay whose body looks entries up in (or ranges over) the cache's maps -/\ndef replayCacheReaders : List String := [" + strings.Join(readers, ", ") + "]\n")

	// (b) every use of the process-wide caches in pkg/protocol
	var uses []string
	pents, _ := os.ReadDir(filepath.Join(repo, "pkg/protocol"))
	names = names[:0]
	for _, e := range pents {
		n := e.Name()
		if strings.HasSuffix(n, ".go") && !strings.HasSuffix(n, "_test.go") && !strings.HasPrefix(n, "verif_") {
			names = append(names, n)
		}
	}
	sort.Strings(names)
	for _, n := range names {
		f := load(filepath.Join("pkg/protocol", n))
		if f == nil {
			continue
		}
		for _, d := range f.Decls {
			fd, ok := d.(*ast.FuncDecl)
			if !ok || fd.Body == nil {
				continue
			}
			// position of the first call whose name mentions decryption / discovery
			firstDecrypt := token.Pos(1 << 40)
			ast.Inspect(fd.Body, func(x ast.Node) bool {
				if ce, ok := x.(*ast.CallExpr); ok {
					nm := nodeString(fset, ce.Fun)
					if i := strings.LastIndex(nm, "."); i >= 0 {
						nm = nm[i+1:]
					}
					if (strings.Contains(nm, "ecrypt") || strings.Contains(nm, "iscover")) && ce.Pos() < firstDecrypt {
						firstDecrypt = ce.Pos()
					}
				}
				return true
			})
			var walk func(n ast.Node, cond string)
			walk = func(n ast.Node, cond string) {
				ast.Inspect(n, func(x ast.Node) bool {
					switch v := x.(type) {
					case *ast.IfStmt:
						if v.Init != nil {
							walk(v.Init, cond)
						}
						walk(v.Cond, cond)
						c := nodeString(fset, v.Cond)
						if cond != "" {
							c = cond + " && " + c
						}
						walk(v.Body, c)
						if v.Else != nil {
							e := "!(" + nodeString(fset, v.Cond) + ")"
							if cond != "" {
								e = cond + " && " + e
							}
							walk(v.Else, e)
						}
						return false
					case *ast.CallExpr:
						if se, ok := v.Fun.(*ast.SelectorExpr); ok {
							recv := nodeString(fset, se.X)
							if recv == "streamReplayCache" || recv == "packetReplayCache" {
								what := "payload"
								if len(v.Args) > 0 && strings.Contains(nodeString(fset, v.Args[0]), "Meta") {
									what = "metadata"
								}
								uses = append(uses, fmt.Sprintf("  (%q, %q, %q, %q, %q, %v)", funcName(fd), recv, se.Sel.Name, what, cond, v.Pos() < firstDecrypt))
							}
						}
					}
					return true
				})
			}
			walk(fd.Body, "")
		}
	}
	sb.WriteString("\n/-- (function, cache, method, what is presented, enclosing conditions, before the first decryption/discovery call of the function) for every use of the process-wide replay caches in pkg/protocol -/\ndef replayCacheUses : List (String × String × String × String × String × Bool) := [\n" + strings.Join(uses, ",\n") + "\n]\n")
	return sb.String()
}
