package main

// Regenerated facts for C03 (round 3), module Mieru.Gen.CloseFacts:
//
//   lockScope      for every function of pkg/protocol/session.go that touches `s.oLock`: for every call of
//                  interest (output, sendQueue/sendBuf operations, closeWithError/Close, Sleep, lastSend, the
//                  lock itself) whether `oLock` is held at that call on ALL paths ("held"), on none ("free") or
//                  on some ("mixed"). Computed by abstract interpretation of the statement tree (if / for /
//                  switch / select / break / continue / return), not from source order: moving an Unlock in
//                  front of a network write changes the fact even if the text order of the calls stays.
//   closeWaitLoops every `for` statement of closeWithError (init, condition, post, calls in its body)
//   closeSleeps    argument of every time.Sleep in closeWithError
//   writeReserve   condition of the loop in writeChunk that waits for room in sendQueue
//   readSelect     (channel operation, first statement of the case) of the blocking select of Session.Read
//   idleClose      idleSessionTimeout's value, the condition under which cleanSessions removes a session,
//                  and what RemoveSession / baseUnderlay.Close call on the session

import (
	"fmt"
	"go/ast"
	"go/parser"
	"go/token"
	"path/filepath"
	"sort"
	"strings"
)

func init() { register("CloseFacts.lean", genCloseLockFacts) }

const (
	lkFree = 1
	lkHeld = 2
)

type lkFlow struct{ out, brk, cont int }

type lkWalker struct {
	fset   *token.FileSet
	calls  map[token.Pos]int    // call position -> union of lock states
	names  map[token.Pos]string // call position -> printed function expression
	broken []string
}

func lkInteresting(fn string) bool {
	switch fn {
	case "s.output", "s.closeWithError", "s.Close", "time.Sleep":
		return true
	}
	for _, p := range []string{"s.sendQueue.", "s.sendBuf.", "s.lastSend.", "s.oLock."} {
		if strings.HasPrefix(fn, p) {
			return true
		}
	}
	return false
}

// expr records every call inside e (not inside function literals) with the current state and applies
// Lock / Unlock.
func (w *lkWalker) expr(e ast.Node, m int) int {
	if e == nil {
		return m
	}
	ast.Inspect(e, func(x ast.Node) bool {
		switch v := x.(type) {
		case *ast.FuncLit:
			return false
		case *ast.CallExpr:
			fn := nodeString(w.fset, v.Fun)
			// arguments first (evaluation order), then the call itself
			for _, a := range v.Args {
				if lit, ok := a.(*ast.FuncLit); ok {
					// a callback (Ascend, DeleteMinIf, …) runs synchronously inside the call, in the
					// caller's lock state, and must leave that state as it found it
					r := w.block(lit.Body.List, m)
					if (r.out|r.brk|r.cont) & ^m != 0 {
						w.broken = append(w.broken, "a callback passed to "+fn+" changes the state of oLock")
					}
					continue
				}
				m = w.expr(a, m)
			}
			if lkInteresting(fn) {
				w.calls[v.Pos()] |= m
				w.names[v.Pos()] = fn
			}
			switch fn {
			case "s.oLock.Lock":
				m = lkHeld
			case "s.oLock.Unlock":
				m = lkFree
			}
			return false
		}
		return true
	})
	return m
}

func (w *lkWalker) block(list []ast.Stmt, m int) lkFlow {
	f := lkFlow{out: m}
	for _, st := range list {
		if f.out == 0 {
			break // unreachable
		}
		r := w.stmt(st, f.out)
		f.out = r.out
		f.brk |= r.brk
		f.cont |= r.cont
	}
	return f
}

func (w *lkWalker) stmt(st ast.Stmt, m int) lkFlow {
	switch v := st.(type) {
	case nil:
		return lkFlow{out: m}
	case *ast.BlockStmt:
		return w.block(v.List, m)
	case *ast.ExprStmt:
		return lkFlow{out: w.expr(v.X, m)}
	case *ast.AssignStmt:
		for _, e := range v.Rhs {
			m = w.expr(e, m)
		}
		for _, e := range v.Lhs {
			m = w.expr(e, m)
		}
		return lkFlow{out: m}
	case *ast.DeclStmt:
		return lkFlow{out: w.expr(v.Decl, m)}
	case *ast.IncDecStmt:
		return lkFlow{out: w.expr(v.X, m)}
	case *ast.SendStmt:
		m = w.expr(v.Value, m)
		return lkFlow{out: w.expr(v.Chan, m)}
	case *ast.GoStmt:
		return lkFlow{out: m}
	case *ast.DeferStmt:
		fn := nodeString(w.fset, v.Call.Fun)
		if strings.HasPrefix(fn, "s.oLock.") {
			w.broken = append(w.broken, "deferred "+fn+" is not handled")
		}
		return lkFlow{out: m}
	case *ast.ReturnStmt:
		for _, e := range v.Results {
			m = w.expr(e, m)
		}
		return lkFlow{}
	case *ast.BranchStmt:
		if v.Label != nil || v.Tok == token.GOTO || v.Tok == token.FALLTHROUGH {
			w.broken = append(w.broken, "labelled branch / goto / fallthrough is not handled")
			return lkFlow{out: m}
		}
		if v.Tok == token.BREAK {
			return lkFlow{brk: m}
		}
		return lkFlow{cont: m}
	case *ast.LabeledStmt:
		return w.stmt(v.Stmt, m)
	case *ast.IfStmt:
		if v.Init != nil {
			m = w.stmt(v.Init, m).out
		}
		m = w.expr(v.Cond, m)
		a := w.block(v.Body.List, m)
		b := lkFlow{out: m}
		if v.Else != nil {
			b = w.stmt(v.Else, m)
		}
		return lkFlow{out: a.out | b.out, brk: a.brk | b.brk, cont: a.cont | b.cont}
	case *ast.ForStmt:
		if v.Init != nil {
			m = w.stmt(v.Init, m).out
		}
		head := m
		exit := 0
		for i := 0; i < 4; i++ {
			h := head
			if v.Cond != nil {
				h = w.expr(v.Cond, h)
				exit |= h // condition false
			}
			r := w.block(v.Body.List, h)
			exit |= r.brk
			next := r.out | r.cont
			if v.Post != nil && next != 0 {
				next = w.stmt(v.Post, next).out
			}
			if head|next == head {
				break
			}
			head |= next
		}
		return lkFlow{out: exit}
	case *ast.RangeStmt:
		m = w.expr(v.X, m)
		head := m
		exit := m
		for i := 0; i < 4; i++ {
			r := w.block(v.Body.List, head)
			exit |= r.brk | r.out | r.cont
			if head|r.out|r.cont == head {
				break
			}
			head |= r.out | r.cont
		}
		return lkFlow{out: exit}
	case *ast.SwitchStmt:
		if v.Init != nil {
			m = w.stmt(v.Init, m).out
		}
		m = w.expr(v.Tag, m)
		return w.clauses(v.Body.List, m, false)
	case *ast.TypeSwitchStmt:
		if v.Init != nil {
			m = w.stmt(v.Init, m).out
		}
		m = w.stmt(v.Assign, m).out
		return w.clauses(v.Body.List, m, false)
	case *ast.SelectStmt:
		return w.clauses(v.Body.List, m, true)
	case *ast.EmptyStmt:
		return lkFlow{out: m}
	default:
		w.broken = append(w.broken, fmt.Sprintf("statement %T is not handled", st))
		return lkFlow{out: m}
	}
}

// clauses handles switch / select bodies: `break` leaves the statement, `continue` propagates.
func (w *lkWalker) clauses(list []ast.Stmt, m int, isSelect bool) lkFlow {
	res := lkFlow{}
	hasDefault := false
	for _, c := range list {
		var body []ast.Stmt
		in := m
		switch cc := c.(type) {
		case *ast.CaseClause:
			if cc.List == nil {
				hasDefault = true
			}
			for _, e := range cc.List {
				in = w.expr(e, in)
			}
			body = cc.Body
		case *ast.CommClause:
			if cc.Comm == nil {
				hasDefault = true
			} else {
				in = w.stmt(cc.Comm, in).out
			}
			body = cc.Body
		}
		r := w.block(body, in)
		res.out |= r.out | r.brk
		res.cont |= r.cont
	}
	if !hasDefault && !isSelect {
		res.out |= m
	}
	return res
}

func lkState(m int) string {
	switch m {
	case lkFree:
		return "free"
	case lkHeld:
		return "held"
	case lkFree | lkHeld:
		return "mixed"
	}
	return "unreachable"
}

func genCloseLockFacts(repo string, consts []constKV) string {
	var sb strings.Builder
	sb.WriteString("-- GENERATED by tools/goextract (closelock.go) from pkg/protocol/session.go, underlay_packet.go, underlay_base.go. Do not edit.\n")
	sb.WriteString("namespace Mieru.Gen.CloseFacts\n")
	fset := token.NewFileSet()
	f, err := parser.ParseFile(fset, filepath.Join(repo, "pkg/protocol/session.go"), nil, 0)
	if err != nil {
		sb.WriteString("\n-- BROKEN-TIE closelock: cannot parse pkg/protocol/session.go\n")
		sb.WriteString("def lockScope : List (String × String × String) := []\nend Mieru.Gen.CloseFacts\n")
		return sb.String()
	}
	var scope, loops, sleeps, reserve, readSel []string
	found := map[string]bool{}
	for _, d := range f.Decls {
		fd, ok := d.(*ast.FuncDecl)
		if !ok || fd.Body == nil {
			continue
		}
		name := funcName(fd)
		usesLock := false
		ast.Inspect(fd.Body, func(x ast.Node) bool {
			if se, ok := x.(*ast.SelectorExpr); ok && nodeString(fset, se) == "s.oLock" {
				usesLock = true
			}
			return true
		})
		if usesLock {
			w := &lkWalker{fset: fset, calls: map[token.Pos]int{}, names: map[token.Pos]string{}}
			end := w.block(fd.Body.List, lkFree)
			for _, b := range w.broken {
				sb.WriteString(fmt.Sprintf("\n-- BROKEN-TIE closelock %s: %s\n", name, b))
			}
			var ps []token.Pos
			for p := range w.calls {
				ps = append(ps, p)
			}
			sort.Slice(ps, func(i, j int) bool { return ps[i] < ps[j] })
			for _, p := range ps {
				scope = append(scope, fmt.Sprintf("  (%q, %q, %q)", name, w.names[p], lkState(w.calls[p])))
			}
			// the lock state when the function falls off its end (returns inside are not tracked separately)
			scope = append(scope, fmt.Sprintf("  (%q, %q, %q)", name, "<end>", lkState(end.out)))
		}
		switch name {
		case "Session.closeWithError":
			found[name] = true
			ast.Inspect(fd.Body, func(x ast.Node) bool {
				switch v := x.(type) {
				case *ast.ForStmt:
					var calls []string
					ast.Inspect(v.Body, func(y ast.Node) bool {
						if ce, ok := y.(*ast.CallExpr); ok {
							calls = append(calls, fmt.Sprintf("%q", nodeString(fset, ce.Fun)))
						}
						return true
					})
					loops = append(loops, fmt.Sprintf("  (%q, %q, %q, [%s])", lkNode(fset, v.Init), lkNode(fset, v.Cond), lkNode(fset, v.Post), strings.Join(calls, ", ")))
				case *ast.RangeStmt:
					loops = append(loops, fmt.Sprintf("  (%q, %q, %q, [])", "range", nodeString(fset, v.X), ""))
				case *ast.CallExpr:
					if nodeString(fset, v.Fun) == "time.Sleep" && len(v.Args) == 1 {
						sleeps = append(sleeps, fmt.Sprintf("%q", nodeString(fset, v.Args[0])))
					}
				}
				return true
			})
		case "Session.writeChunk":
			found[name] = true
			ast.Inspect(fd.Body, func(x ast.Node) bool {
				if v, ok := x.(*ast.ForStmt); ok && v.Cond != nil && strings.Contains(nodeString(fset, v.Cond), "Remaining") {
					reserve = append(reserve, fmt.Sprintf("%q", nodeString(fset, v.Cond)))
				}
				return true
			})
		case "Session.Read":
			found[name] = true
			ast.Inspect(fd.Body, func(x ast.Node) bool {
				if v, ok := x.(*ast.SelectStmt); ok {
					for _, c := range v.Body.List {
						cc := c.(*ast.CommClause)
						comm, first := "default", ""
						if cc.Comm != nil {
							comm = nodeString(fset, cc.Comm)
						}
						if len(cc.Body) > 0 {
							first = nodeString(fset, cc.Body[0])
						}
						readSel = append(readSel, fmt.Sprintf("  (%q, %q)", comm, first))
					}
				}
				return true
			})
		}
	}
	for _, n := range []string{"Session.closeWithError", "Session.writeChunk", "Session.Read"} {
		if !found[n] {
			sb.WriteString("\n-- BROKEN-TIE closelock: function " + n + " not found in pkg/protocol/session.go\n")
		}
	}
	sb.WriteString("\n/-- (function, call, state of `s.oLock` at the call over all paths: held / free / mixed); `<end>` = falling off the end -/\ndef lockScope : List (String × String × String) := [\n" + strings.Join(scope, ",\n") + "\n]\n")
	sb.WriteString("\n/-- (init, condition, post, calls in the body) of every `for` statement of `Session.closeWithError` -/\ndef closeWaitLoops : List (String × String × String × List String) := [\n" + strings.Join(loops, ",\n") + "\n]\n")
	sb.WriteString("\n/-- argument of every `time.Sleep` in `Session.closeWithError` -/\ndef closeSleeps : List String := [" + strings.Join(sleeps, ", ") + "]\n")
	sb.WriteString("\n/-- condition of the loop in `Session.writeChunk` that waits for room in `sendQueue` -/\ndef writeReserve : List String := [" + strings.Join(reserve, ", ") + "]\n")
	sb.WriteString("\n/-- (channel operation, first statement of the case) of every select case in `Session.Read` -/\ndef readSelect : List (String × String) := [\n" + strings.Join(readSel, ",\n") + "\n]\n")

	// reader-local closes: idle timeout and underlay teardown
	var idle []string
	if pf, err := parser.ParseFile(fset, filepath.Join(repo, "pkg/protocol/underlay_packet.go"), nil, 0); err != nil {
		sb.WriteString("\n-- BROKEN-TIE closelock: cannot parse pkg/protocol/underlay_packet.go\n")
	} else {
		ast.Inspect(pf, func(x ast.Node) bool {
			if vs, ok := x.(*ast.ValueSpec); ok {
				for i, n := range vs.Names {
					if n.Name == "idleSessionTimeout" && i < len(vs.Values) {
						idle = append(idle, fmt.Sprintf("  (%q, %q)", "idleSessionTimeout", nodeString(fset, vs.Values[i])))
					}
				}
			}
			return true
		})
		for _, d := range pf.Decls {
			fd, ok := d.(*ast.FuncDecl)
			if !ok || fd.Body == nil || funcName(fd) != "PacketUnderlay.cleanSessions" {
				continue
			}
			var walk func(n ast.Node, cond string)
			walk = func(n ast.Node, cond string) {
				ast.Inspect(n, func(x ast.Node) bool {
					switch v := x.(type) {
					case *ast.IfStmt:
						if v.Init != nil {
							walk(v.Init, cond)
						}
						walk(v.Body, nodeString(fset, v.Cond))
						if v.Else != nil {
							walk(v.Else, cond)
						}
						return false
					case *ast.SelectStmt:
						for _, c := range v.Body.List {
							cc := c.(*ast.CommClause)
							comm := "default"
							if cc.Comm != nil {
								comm = nodeString(fset, cc.Comm)
							}
							for _, b := range cc.Body {
								walk(b, "select "+comm)
							}
						}
						return false
					case *ast.CallExpr:
						if strings.HasSuffix(nodeString(fset, v.Fun), ".RemoveSession") {
							idle = append(idle, fmt.Sprintf("  (%q, %q)", "cleanSessions removes under", cond))
						}
					}
					return true
				})
			}
			walk(fd.Body, "")
		}
	}
	if bf, err := parser.ParseFile(fset, filepath.Join(repo, "pkg/protocol/underlay_base.go"), nil, 0); err != nil {
		sb.WriteString("\n-- BROKEN-TIE closelock: cannot parse pkg/protocol/underlay_base.go\n")
	} else {
		for _, d := range bf.Decls {
			fd, ok := d.(*ast.FuncDecl)
			if !ok || fd.Body == nil {
				continue
			}
			name := funcName(fd)
			if name != "baseUnderlay.RemoveSession" && name != "baseUnderlay.Close" {
				continue
			}
			ast.Inspect(fd.Body, func(x ast.Node) bool {
				if ce, ok := x.(*ast.CallExpr); ok {
					fn := nodeString(fset, ce.Fun)
					if fn == "s.Close" || fn == "s.closeWithError" {
						idle = append(idle, fmt.Sprintf("  (%q, %q)", name+" calls", fn))
					}
				}
				return true
			})
		}
	}
	sb.WriteString("\n/-- reader-local closes: the idle timeout's value, the conditions under which `cleanSessions` removes a session, and what `RemoveSession` / `baseUnderlay.Close` call on each session -/\ndef idleClose : List (String × String) := [\n" + strings.Join(idle, ",\n") + "\n]\n")
	sb.WriteString("\nend Mieru.Gen.CloseFacts\n")
	return sb.String()
}

func lkNode(fset *token.FileSet, n ast.Node) string {
	if n == nil {
		return ""
	}
	// a nil *ast.X wrapped in the interface
	switch v := n.(type) {
	case ast.Stmt:
		if v == nil {
			return ""
		}
	case ast.Expr:
		if v == nil {
			return ""
		}
	}
	defer func() { recover() }()
	return nodeString(fset, n)
}
