package main

// Structural facts for Props/C04 (regenerated into lean/Mieru/Gen/Tamper.lean):
//
//  (1) the receive parsers of both transports as event traces in source order — every AEAD open, every
//      read / allocation / slice / size comparison (flagged when its extent comes from a metadata length
//      field), the low-entropy decode, Unmarshal, the calls of the sub-parsers — and for every AEAD open
//      how its failure ends (return of an error / continue);
//  (2) who calls the sub-parsers;
//  (3) the direction test at the top of Session.input, the if-chain at its end and the dispatch of the
//      packet underlay's event loop, EVALUATED for every protocol value 0..255 from the source expressions.
//
// Nothing is interpreted beyond a small expression evaluator (==, !=, <, <=, >, >=, &&, ||, !, constants,
// one-line predicate functions). Whatever it cannot handle is emitted as `-- BROKEN-TIE …`.

import (
	"fmt"
	"go/ast"
	"go/parser"
	"go/token"
	"os"
	"path/filepath"
	"sort"
	"strings"
)

func init() { register("Tamper.lean", genTamperFacts) }

type tamperEvent struct {
	kind, text string
	lenDriven  bool
	failure    string // for opens
}

var tamperLenFields = map[string]bool{"payloadLen": true, "prefixLen": true, "suffixLen": true}

// names whose value was computed from a metadata length field inside the parsers
var tamperDerived = map[string]bool{"wirePayloadLen": true}

var tamperOpenCalls = map[string]bool{
	"Decrypt": true, "DecryptWithNonce": true,
	"serverInitRecvBlockCipherAndDecryptMetadata": true,
	"tryDecryptExistingSession":                   true,
	"serverTryDecryptMetadataForNewSession":       true,
}

var tamperSubParsers = map[string]bool{
	"readSessionSegment": true, "readDataAckSegment": true, "parseSessionSegment": true, "parseDataAckSegment": true,
}

func mentionsLen(n ast.Node) bool {
	found := false
	ast.Inspect(n, func(x ast.Node) bool {
		switch v := x.(type) {
		case *ast.SelectorExpr:
			if tamperLenFields[v.Sel.Name] {
				found = true
			}
		case *ast.Ident:
			if tamperDerived[v.Name] {
				found = true
			}
		}
		return !found
	})
	return found
}

type tamperFrame struct {
	stmts []ast.Stmt
	idx   int
}

type tamperWalker struct {
	fset   *token.FileSet
	events []tamperEvent
	broken []string
	fn     string
}

func callName(c *ast.CallExpr) string {
	switch f := c.Fun.(type) {
	case *ast.SelectorExpr:
		return f.Sel.Name
	case *ast.Ident:
		return f.Name
	}
	return ""
}

// terminates classifies how a block ends on every path: "return-error", "continue" or "".
func (w *tamperWalker) terminates(b *ast.BlockStmt) string {
	if b == nil || len(b.List) == 0 {
		return ""
	}
	switch last := b.List[len(b.List)-1].(type) {
	case *ast.ReturnStmt:
		if len(last.Results) == 0 {
			return ""
		}
		if id, ok := last.Results[len(last.Results)-1].(*ast.Ident); ok && id.Name == "nil" {
			return ""
		}
		return "return-error"
	case *ast.BranchStmt:
		if last.Tok == token.CONTINUE {
			return "continue"
		}
	case *ast.IfStmt:
		a := w.terminates(last.Body)
		eb, ok := last.Else.(*ast.BlockStmt)
		if !ok || a == "" {
			return ""
		}
		if w.terminates(eb) == a {
			return a
		}
	}
	return ""
}

func isFailureCond(fset *token.FileSet, e ast.Expr) bool {
	s := nodeString(fset, e)
	return s == "err != nil" || s == "!decrypted"
}

// failureOf finds, for an open issued by the statement at the top frame, the first following `if err != nil`
// / `if !decrypted` whose body ends the attempt on every path; searching outwards through the enclosing blocks.
func (w *tamperWalker) failureOf(frames []tamperFrame, self ast.Stmt) string {
	// the open may sit in the Init/Cond of an if statement itself: `if x, err := f(); err != nil {…}`
	if ifs, ok := self.(*ast.IfStmt); ok && isFailureCond(w.fset, ifs.Cond) {
		if t := w.terminates(ifs.Body); t != "" {
			return t
		}
	}
	for d := len(frames) - 1; d >= 0; d-- {
		fr := frames[d]
		for i := fr.idx + 1; i < len(fr.stmts); i++ {
			ifs, ok := fr.stmts[i].(*ast.IfStmt)
			if !ok {
				continue
			}
			if !isFailureCond(w.fset, ifs.Cond) {
				continue
			}
			if t := w.terminates(ifs.Body); t != "" {
				return t
			}
		}
	}
	return "UNCHECKED"
}

func (w *tamperWalker) exprEvents(n ast.Node, frames []tamperFrame, self ast.Stmt) {
	if n == nil {
		return
	}
	ast.Inspect(n, func(x ast.Node) bool {
		switch v := x.(type) {
		case *ast.FuncLit:
			return false
		case *ast.CallExpr:
			name := callName(v)
			switch {
			case tamperOpenCalls[name]:
				w.events = append(w.events, tamperEvent{kind: "open", text: nodeString(w.fset, v), lenDriven: mentionsLen(v), failure: w.failureOf(frames, self)})
			case name == "ReadFull":
				w.events = append(w.events, tamperEvent{kind: "read", text: nodeString(w.fset, v), lenDriven: mentionsLen(v)})
			case name == "ReadFrom":
				w.events = append(w.events, tamperEvent{kind: "read", text: nodeString(w.fset, v)})
			case name == "make":
				w.events = append(w.events, tamperEvent{kind: "alloc", text: nodeString(w.fset, v), lenDriven: mentionsLen(v)})
			case name == "decodeLowEntropyEncryptedPayload" || name == "validateLowEntropyDataAckMetadata":
				w.events = append(w.events, tamperEvent{kind: "decode", text: nodeString(w.fset, v)})
			case name == "Unmarshal":
				w.events = append(w.events, tamperEvent{kind: "unmarshal", text: nodeString(w.fset, v)})
			case tamperSubParsers[name]:
				w.events = append(w.events, tamperEvent{kind: "call", text: name})
			}
		case *ast.SliceExpr:
			w.events = append(w.events, tamperEvent{kind: "slice", text: nodeString(w.fset, v), lenDriven: mentionsLen(v)})
		}
		return true
	})
}

func isSizeCond(fset *token.FileSet, e ast.Expr) bool {
	if mentionsLen(e) {
		return true
	}
	s := nodeString(fset, e)
	return strings.Contains(s, "len(") || strings.HasPrefix(s, "n <") || strings.HasPrefix(s, "n >")
}

func (w *tamperWalker) block(stmts []ast.Stmt, frames []tamperFrame) {
	for i, st := range stmts {
		fr := append(append([]tamperFrame(nil), frames...), tamperFrame{stmts, i})
		w.stmt(st, fr)
	}
}

func (w *tamperWalker) stmt(st ast.Stmt, fr []tamperFrame) {
	switch v := st.(type) {
	case *ast.IfStmt:
		if v.Init != nil {
			w.exprEvents(v.Init, fr, st)
		}
		if isSizeCond(w.fset, v.Cond) {
			w.events = append(w.events, tamperEvent{kind: "cmp", text: nodeString(w.fset, v.Cond), lenDriven: mentionsLen(v.Cond)})
		} else if strings.Contains(nodeString(w.fset, v.Cond), "isLowEntropyProtocol(") {
			w.events = append(w.events, tamperEvent{kind: "le-guard", text: nodeString(w.fset, v.Cond)})
		}
		w.exprEvents(v.Cond, fr, st)
		w.block(v.Body.List, fr)
		switch e := v.Else.(type) {
		case *ast.BlockStmt:
			w.block(e.List, fr)
		case *ast.IfStmt:
			w.stmt(e, fr)
		}
	case *ast.BlockStmt:
		w.block(v.List, fr)
	case *ast.ForStmt:
		w.exprEvents(v.Init, fr, st)
		w.exprEvents(v.Cond, fr, st)
		w.block(v.Body.List, fr)
	case *ast.RangeStmt:
		w.exprEvents(v.X, fr, st)
		w.block(v.Body.List, fr)
	case *ast.SwitchStmt:
		w.exprEvents(v.Init, fr, st)
		w.exprEvents(v.Tag, fr, st)
		for _, c := range v.Body.List {
			if cc, ok := c.(*ast.CaseClause); ok {
				w.block(cc.Body, fr)
			}
		}
	case *ast.TypeSwitchStmt:
		for _, c := range v.Body.List {
			if cc, ok := c.(*ast.CaseClause); ok {
				w.block(cc.Body, fr)
			}
		}
	case *ast.SelectStmt:
		for _, c := range v.Body.List {
			if cc, ok := c.(*ast.CommClause); ok {
				w.block(cc.Body, fr)
			}
		}
	case *ast.LabeledStmt:
		w.stmt(v.Stmt, fr)
	case *ast.GoStmt, *ast.DeferStmt:
		// not part of the parse path
	default:
		w.exprEvents(st, fr, st)
	}
}

// ---- a small evaluator for protocol predicates ------------------------------------------------

type tamperEval struct {
	fset   *token.FileSet
	consts map[string]int64
	funcs  map[string]*ast.FuncDecl // one-parameter predicate functions of pkg/protocol
	err    string
}

func (e *tamperEval) fail(n ast.Node, why string) int64 {
	if e.err == "" {
		e.err = why + ": " + nodeString(e.fset, n)
	}
	return 0
}

func b2i(b bool) int64 {
	if b {
		return 1
	}
	return 0
}

func (e *tamperEval) eval(x ast.Expr, env map[string]int64, depth int) int64 {
	if depth > 8 {
		return e.fail(x, "recursion too deep")
	}
	switch v := x.(type) {
	case *ast.ParenExpr:
		return e.eval(v.X, env, depth)
	case *ast.BasicLit:
		var n int64
		if _, err := fmt.Sscanf(v.Value, "%d", &n); err != nil {
			return e.fail(x, "literal")
		}
		return n
	case *ast.Ident:
		if n, ok := env[v.Name]; ok {
			return n
		}
		if n, ok := e.consts[v.Name]; ok {
			return n
		}
		if v.Name == "true" {
			return 1
		}
		if v.Name == "false" {
			return 0
		}
		return e.fail(x, "unknown identifier")
	case *ast.UnaryExpr:
		if v.Op == token.NOT {
			return b2i(e.eval(v.X, env, depth) == 0)
		}
		return e.fail(x, "unary operator")
	case *ast.BinaryExpr:
		a := e.eval(v.X, env, depth)
		switch v.Op {
		case token.LAND:
			if a == 0 {
				return 0
			}
			return b2i(e.eval(v.Y, env, depth) != 0)
		case token.LOR:
			if a != 0 {
				return 1
			}
			return b2i(e.eval(v.Y, env, depth) != 0)
		}
		b := e.eval(v.Y, env, depth)
		switch v.Op {
		case token.EQL:
			return b2i(a == b)
		case token.NEQ:
			return b2i(a != b)
		case token.LSS:
			return b2i(a < b)
		case token.LEQ:
			return b2i(a <= b)
		case token.GTR:
			return b2i(a > b)
		case token.GEQ:
			return b2i(a >= b)
		}
		return e.fail(x, "binary operator")
	case *ast.CallExpr:
		name := callName(v)
		if len(v.Args) == 1 {
			switch name {
			case "protocolType", "uint8", "byte", "int", "uint16", "uint32":
				return e.eval(v.Args[0], env, depth)
			}
			if fd, ok := e.funcs[name]; ok {
				if fd.Type.Params == nil || len(fd.Type.Params.List) != 1 || len(fd.Type.Params.List[0].Names) != 1 ||
					len(fd.Body.List) != 1 {
					return e.fail(x, "predicate is not a one-line function of one parameter")
				}
				rs, ok := fd.Body.List[0].(*ast.ReturnStmt)
				if !ok || len(rs.Results) != 1 {
					return e.fail(x, "predicate is not a single return")
				}
				arg := e.eval(v.Args[0], env, depth)
				return e.eval(rs.Results[0], map[string]int64{fd.Type.Params.List[0].Names[0].Name: arg}, depth+1)
			}
		}
		return e.fail(x, "call")
	}
	return e.fail(x, "expression")
}

func natList(xs []int) string {
	var s []string
	for _, x := range xs {
		s = append(s, fmt.Sprint(x))
	}
	return "[" + strings.Join(s, ", ") + "]"
}

func genTamperFacts(repo string, consts []constKV) string {
	var sb strings.Builder
	sb.WriteString("-- GENERATED by tools/goextract (tamperfacts.go) from the repository's working tree; do not edit\nnamespace Mieru.Gen.Tamper\n")
	fset := token.NewFileSet()
	dir := filepath.Join(repo, "pkg/protocol")
	files := map[string]*ast.File{}
	ents, err := os.ReadDir(dir)
	if err != nil {
		return sb.String() + "\n-- BROKEN-TIE tamperfacts: cannot read pkg/protocol\nend Mieru.Gen.Tamper\n"
	}
	var names []string
	for _, e := range ents {
		n := e.Name()
		if strings.HasSuffix(n, ".go") && !strings.HasSuffix(n, "_test.go") && !strings.HasPrefix(n, "verif_hooks") {
			names = append(names, n)
		}
	}
	sort.Strings(names)
	funcs := map[string]*ast.FuncDecl{}     // qualified name → decl
	predicates := map[string]*ast.FuncDecl{} // plain functions by bare name
	for _, n := range names {
		f, err := parser.ParseFile(fset, filepath.Join(dir, n), nil, 0)
		if err != nil {
			fmt.Fprintf(&sb, "\n-- BROKEN-TIE tamperfacts: cannot parse pkg/protocol/%s\n", n)
			continue
		}
		files[n] = f
		for _, d := range f.Decls {
			if fd, ok := d.(*ast.FuncDecl); ok && fd.Body != nil {
				funcs[funcName(fd)] = fd
				if fd.Recv == nil {
					predicates[fd.Name.Name] = fd
				}
			}
		}
	}

	// (1) parser traces
	parsers := []string{
		"StreamUnderlay.readOneSegment", "StreamUnderlay.readSessionSegment", "StreamUnderlay.readDataAckSegment",
		"PacketUnderlay.readOneSegment", "PacketUnderlay.parseSessionSegment", "PacketUnderlay.parseDataAckSegment",
	}
	sb.WriteString("\n/-- (function, events in source order): kind ∈ open / read / alloc / slice / cmp / le-guard / decode / unmarshal / call,\n    the source text, whether its extent mentions a metadata length field (payloadLen / prefixLen / suffixLen or a\n    value derived from one), and for an `open` how a failure ends (return-error / continue / UNCHECKED) -/\n")
	sb.WriteString("def parserTraces : List (String × List (String × String × Bool × String)) := [\n")
	for pi, pn := range parsers {
		fd := funcs[pn]
		if fd == nil {
			fmt.Fprintf(&sb, "-- BROKEN-TIE tamperfacts %s: function not found in pkg/protocol\n", pn)
			continue
		}
		w := &tamperWalker{fset: fset, fn: pn}
		w.block(fd.Body.List, nil)
		fmt.Fprintf(&sb, "  (%q, [\n", pn)
		for i, ev := range w.events {
			sep := ","
			if i == len(w.events)-1 {
				sep = ""
			}
			fmt.Fprintf(&sb, "    (%q, %q, %v, %q)%s\n", ev.kind, ev.text, ev.lenDriven, ev.failure, sep)
		}
		if pi == len(parsers)-1 {
			sb.WriteString("  ])\n")
		} else {
			sb.WriteString("  ]),\n")
		}
	}
	sb.WriteString("]\n")

	// (2) call sites of the sub-parsers
	var sites []string
	var fnNames []string
	for n := range funcs {
		fnNames = append(fnNames, n)
	}
	sort.Strings(fnNames)
	for _, n := range fnNames {
		ast.Inspect(funcs[n].Body, func(x ast.Node) bool {
			if c, ok := x.(*ast.CallExpr); ok && tamperSubParsers[callName(c)] {
				sites = append(sites, fmt.Sprintf("  (%q, %q)", n, callName(c)))
			}
			return true
		})
	}
	sb.WriteString("\n/-- (caller, callee) of every call of a sub-parser in pkg/protocol -/\ndef subParserCallers : List (String × String) := [\n" + strings.Join(sites, ",\n") + "\n]\n")

	// (3) protocol predicates evaluated for 0..255
	cm := map[string]int64{}
	for _, c := range consts {
		var n int64
		if _, err := fmt.Sscanf(c.v, "%d", &n); err == nil {
			cm[c.k] = n
		}
	}
	ev := &tamperEval{fset: fset, consts: cm, funcs: predicates}
	direction := func() (client, server []int, conds [2]string, ok bool) {
		fd := funcs["Session.input"]
		if fd == nil {
			return nil, nil, conds, false
		}
		for _, st := range fd.Body.List {
			ifs, isIf := st.(*ast.IfStmt)
			if !isIf || nodeString(fset, ifs.Cond) != "s.isClient" {
				continue
			}
			inner := func(b *ast.BlockStmt) ast.Expr {
				if b == nil || len(b.List) != 1 {
					return nil
				}
				i2, ok := b.List[0].(*ast.IfStmt)
				if !ok || i2.Else != nil || len(i2.Body.List) != 1 || nodeString(fset, i2.Body.List[0]) != "validDirection = false" {
					return nil
				}
				return i2.Cond
			}
			eb, _ := ifs.Else.(*ast.BlockStmt)
			cc, sc := inner(ifs.Body), inner(eb)
			if cc == nil || sc == nil {
				return nil, nil, conds, false
			}
			conds = [2]string{nodeString(fset, cc), nodeString(fset, sc)}
			for p := 0; p < 256; p++ {
				if ev.eval(cc, map[string]int64{"protocol": int64(p)}, 0) == 0 {
					client = append(client, p)
				}
				if ev.eval(sc, map[string]int64{"protocol": int64(p)}, 0) == 0 {
					server = append(server, p)
				}
			}
			return client, server, conds, ev.err == ""
		}
		return nil, nil, conds, false
	}
	if cl, sv, conds, ok := direction(); ok {
		sb.WriteString("\n/-- the two conditions under which the first check of `Session.input` clears validDirection (client, server) -/\n")
		fmt.Fprintf(&sb, "def sessionInputRejectConditions : List String := [%q, %q]\n", conds[0], conds[1])
		sb.WriteString("\n/-- protocol values 0..255 that pass that check on a client / a server session: the conditions EVALUATED\n    (constants from the compiled repository, predicate functions from their one-line bodies) -/\n")
		fmt.Fprintf(&sb, "def sessionInputAcceptsClient : List Nat := %s\ndef sessionInputAcceptsServer : List Nat := %s\n", natList(cl), natList(sv))
	} else {
		fmt.Fprintf(&sb, "\n-- BROKEN-TIE tamperfacts Session.input direction check: unexpected shape or unevaluable condition (%s)\n", ev.err)
	}

	// the if-chain at the end of Session.input: which input* method handles each protocol value
	ev.err = ""
	if fd := funcs["Session.input"]; fd != nil {
		var chain *ast.IfStmt
		for _, st := range fd.Body.List {
			if ifs, ok := st.(*ast.IfStmt); ok {
				called := ""
				ast.Inspect(ifs.Body, func(x ast.Node) bool {
					if c, ok := x.(*ast.CallExpr); ok && strings.HasPrefix(callName(c), "input") && called == "" {
						called = callName(c)
					}
					return true
				})
				if called == "inputData" {
					chain = ifs
				}
			}
		}
		if chain == nil {
			sb.WriteString("\n-- BROKEN-TIE tamperfacts Session.input: the if-chain that calls inputData was not found\n")
		} else {
			kinds := make([]string, 256)
			for p := 0; p < 256; p++ {
				for cur := chain; cur != nil; {
					if ev.eval(cur.Cond, map[string]int64{"protocol": int64(p)}, 0) != 0 {
						ast.Inspect(cur.Body, func(x ast.Node) bool {
							if c, ok := x.(*ast.CallExpr); ok && strings.HasPrefix(callName(c), "input") && kinds[p] == "" {
								kinds[p] = callName(c)
							}
							return true
						})
						break
					}
					next, _ := cur.Else.(*ast.IfStmt)
					cur = next
				}
			}
			if ev.err != "" {
				fmt.Fprintf(&sb, "\n-- BROKEN-TIE tamperfacts Session.input dispatch: %s\n", ev.err)
			} else {
				group := map[string][]int{}
				for p, k := range kinds {
					group[k] = append(group[k], p)
				}
				sb.WriteString("\n/-- protocol values 0..255 handed to inputData / inputAck / inputClose by the if-chain at the end of `Session.input` (evaluated) -/\n")
				fmt.Fprintf(&sb, "def sessionInputData : List Nat := %s\ndef sessionInputAck : List Nat := %s\ndef sessionInputClose : List Nat := %s\n",
					natList(group["inputData"]), natList(group["inputAck"]), natList(group["inputClose"]))
			}
		}
	}

	// the packet underlay's event loop: which handler a protocol value reaches, and the role guard of each handler
	ev.err = ""
	if fd := funcs["PacketUnderlay.RunEventLoop"]; fd != nil {
		var outer *ast.IfStmt
		ast.Inspect(fd.Body, func(x ast.Node) bool {
			if ifs, ok := x.(*ast.IfStmt); ok && outer == nil && strings.HasPrefix(nodeString(fset, ifs.Cond), "isSessionProtocol(") {
				outer = ifs
			}
			return outer == nil
		})
		ok := outer != nil
		var sw *ast.SwitchStmt
		if ok {
			for _, st := range outer.Body.List {
				if s, isSw := st.(*ast.SwitchStmt); isSw {
					sw = s
				}
			}
			ok = sw != nil
		}
		elseIf, _ := func() (*ast.IfStmt, bool) {
			if outer == nil {
				return nil, false
			}
			e, ok := outer.Else.(*ast.IfStmt)
			return e, ok
		}()
		if !ok || elseIf == nil || !strings.HasPrefix(nodeString(fset, elseIf.Cond), "isDataAckProtocol(") {
			sb.WriteString("\n-- BROKEN-TIE tamperfacts PacketUnderlay.RunEventLoop: dispatch `if isSessionProtocol(…) { switch … } else if isDataAckProtocol(…)` not found\n")
		} else {
			handler := map[int]string{}
			for p := 0; p < 256; p++ {
				env := map[string]int64{"protocol": int64(p)}
				sess := ev.eval(&ast.CallExpr{Fun: ast.NewIdent("isSessionProtocol"), Args: []ast.Expr{ast.NewIdent("protocol")}}, env, 0)
				da := ev.eval(&ast.CallExpr{Fun: ast.NewIdent("isDataAckProtocol"), Args: []ast.Expr{ast.NewIdent("protocol")}}, env, 0)
				switch {
				case sess != 0:
					for _, c := range sw.Body.List {
						cc := c.(*ast.CaseClause)
						for _, lab := range cc.List {
							if ev.eval(lab, env, 0) == int64(p) {
								ast.Inspect(&ast.BlockStmt{List: cc.Body}, func(x ast.Node) bool {
									if ce, ok := x.(*ast.CallExpr); ok && strings.HasPrefix(callName(ce), "on") && handler[p] == "" {
										handler[p] = callName(ce)
									}
									return true
								})
							}
						}
					}
				case da != 0:
					handler[p] = "sessionMap.Load"
				}
			}
			if ev.err != "" {
				fmt.Fprintf(&sb, "\n-- BROKEN-TIE tamperfacts PacketUnderlay.RunEventLoop dispatch: %s\n", ev.err)
			} else {
				var rows []string
				for p := 0; p < 256; p++ {
					if handler[p] != "" {
						rows = append(rows, fmt.Sprintf("(%d, %q)", p, handler[p]))
					}
				}
				sb.WriteString("\n/-- (protocol value, handler) for every value 0..255 the packet underlay's event loop handles at all (evaluated) -/\n")
				sb.WriteString("def packetDispatch : List (Nat × String) := [" + strings.Join(rows, ", ") + "]\n")
			}
			var guards []string
			for _, h := range []string{"onOpenSessionRequest", "onOpenSessionResponse", "onCloseSession"} {
				fd := funcs["PacketUnderlay."+h]
				g := "NONE"
				if fd != nil && len(fd.Body.List) > 0 {
					if ifs, ok := fd.Body.List[0].(*ast.IfStmt); ok && strings.Contains(nodeString(fset, ifs.Cond), "isClient") {
						if t := (&tamperWalker{fset: fset}).terminates(ifs.Body); t == "return-error" {
							g = nodeString(fset, ifs.Cond)
						}
					}
				}
				guards = append(guards, fmt.Sprintf("(%q, %q)", h, g))
			}
			sb.WriteString("\n/-- (handler, role condition under which its FIRST statement returns an error; NONE = no such guard) -/\n")
			sb.WriteString("def packetHandlerRoleGuards : List (String × String) := [" + strings.Join(guards, ", ") + "]\n")
		}
	} else {
		sb.WriteString("\n-- BROKEN-TIE tamperfacts PacketUnderlay.RunEventLoop: function not found\n")
	}
	sb.WriteString("\nend Mieru.Gen.Tamper\n")
	return sb.String()
}
