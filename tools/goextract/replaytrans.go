package main

// Statement-by-statement translation of pkg/replay ReplayCache.IsDuplicate into Lean
// (lean/Mieru/Gen/ReplayGen.lean).  The receiver's fields become a record, the two Go maps association
// lists (`mapGet` / `mapSet` with map semantics), the clock an explicit parameter `now` (every
// `time.Now()` / `time.Since` of one call reads the same instant), the mutex is dropped (the whole body
// runs under it: `c.mu.Lock(); defer c.mu.Unlock()` must be the first statements after the early
// return, which the translator checks).  Props/C06 proves the hand-written model equal to this
// definition; anything outside the supported subset makes the translator emit `-- BROKEN-TIE`.

import (
	"fmt"
	"go/ast"
	"go/parser"
	"go/token"
	"path/filepath"
	"strings"
)

func init() { register("ReplayGen.lean", genReplayGen) }

type rtr struct {
	fset   *token.FileSet
	recv   string
	fields map[string]bool
	locals map[string]bool
}

type rtUnsupported struct{ msg string }

func (t *rtr) fail(n ast.Node, why string) {
	panic(rtUnsupported{fmt.Sprintf("%s: %s", why, nodeString(t.fset, n))})
}

// term translates a value expression.
func (t *rtr) term(e ast.Expr) string {
	switch v := e.(type) {
	case *ast.ParenExpr:
		return "(" + t.term(v.X) + ")"
	case *ast.Ident:
		if v.Name == "EmptyTag" {
			return "([] : List UInt8)"
		}
		if t.locals[v.Name] {
			return v.Name
		}
		t.fail(e, "unknown identifier")
	case *ast.BasicLit:
		if v.Kind == token.INT {
			return v.Value
		}
	case *ast.SelectorExpr:
		if id, ok := v.X.(*ast.Ident); ok && id.Name == t.recv && t.fields[v.Sel.Name] {
			return "c." + v.Sel.Name
		}
	case *ast.CallExpr:
		fn := nodeString(t.fset, v.Fun)
		switch {
		case fn == "time.Now" && len(v.Args) == 0:
			return "now"
		case fn == "time.Since" && len(v.Args) == 1:
			return "(now - " + t.term(v.Args[0]) + ")"
		case fn == "len" && len(v.Args) == 1:
			return "(" + t.term(v.Args[0]) + ".length : Int)"
		case fn == "make" && len(v.Args) == 1 && strings.HasPrefix(nodeString(t.fset, v.Args[0]), "map["):
			return "[]"
		case fn == t.recv+".computeSignature" && len(v.Args) == 1:
			return "(computeSignature " + t.term(v.Args[0]) + ")"
		}
		if se, ok := v.Fun.(*ast.SelectorExpr); ok && se.Sel.Name == "Add" && len(v.Args) == 1 {
			return "(" + t.term(se.X) + " + " + t.term(v.Args[0]) + ")"
		}
	}
	t.fail(e, "unsupported expression")
	return ""
}

// prop translates a condition to a decidable Prop.
func (t *rtr) prop(e ast.Expr) string {
	switch v := e.(type) {
	case *ast.ParenExpr:
		return "(" + t.prop(v.X) + ")"
	case *ast.BinaryExpr:
		switch v.Op {
		case token.LOR:
			return "(" + t.prop(v.X) + " ∨ " + t.prop(v.Y) + ")"
		case token.LAND:
			return "(" + t.prop(v.X) + " ∧ " + t.prop(v.Y) + ")"
		case token.EQL, token.NEQ:
			if id, ok := v.X.(*ast.Ident); ok && id.Name == t.recv && nodeString(t.fset, v.Y) == "nil" {
				// the receiver is a value in the translation: it is never nil
				if v.Op == token.EQL {
					return "False"
				}
				return "True"
			}
			op := " = "
			if v.Op == token.NEQ {
				op = " ≠ "
			}
			return "(" + t.term(v.X) + op + t.term(v.Y) + ")"
		case token.GTR, token.GEQ, token.LSS, token.LEQ:
			op := map[token.Token]string{token.GTR: " > ", token.GEQ: " ≥ ", token.LSS: " < ", token.LEQ: " ≤ "}[v.Op]
			return "(" + t.term(v.X) + op + t.term(v.Y) + ")"
		}
	case *ast.CallExpr:
		if se, ok := v.Fun.(*ast.SelectorExpr); ok && len(v.Args) == 1 {
			switch se.Sel.Name {
			case "After":
				return "(" + t.term(se.X) + " > " + t.term(v.Args[0]) + ")"
			case "Before":
				return "(" + t.term(se.X) + " < " + t.term(v.Args[0]) + ")"
			}
		}
	}
	t.fail(e, "unsupported condition")
	return ""
}

func endsInRet(ss []ast.Stmt) bool {
	if len(ss) == 0 {
		return false
	}
	switch v := ss[len(ss)-1].(type) {
	case *ast.ReturnStmt:
		return true
	case *ast.IfStmt:
		if v.Else == nil {
			return false
		}
		eb, ok := v.Else.(*ast.BlockStmt)
		return ok && endsInRet(v.Body.List) && endsInRet(eb.List)
	}
	return false
}

// stmts translates a statement list; `rest` is the translation of what follows the list when control
// falls off its end ("" = control cannot fall off: the list must end in a return).
func (t *rtr) stmts(ss []ast.Stmt, rest string, ind string) string {
	if len(ss) == 0 {
		if rest == "" {
			panic(rtUnsupported{"control reaches the end of the function without a return"})
		}
		return rest
	}
	s, tail := ss[0], ss[1:]
	cont := func() string { return t.stmts(tail, rest, ind) }
	switch v := s.(type) {
	case *ast.ReturnStmt:
		if len(v.Results) != 1 {
			t.fail(s, "unsupported return")
		}
		r := nodeString(t.fset, v.Results[0])
		switch r {
		case "true", "false":
			return ind + "(c, " + r + ")"
		}
		return ind + "(c, decide " + t.prop(v.Results[0]) + ")"
	case *ast.AssignStmt:
		if len(v.Lhs) != 1 || len(v.Rhs) != 1 {
			t.fail(s, "unsupported assignment")
		}
		switch l := v.Lhs[0].(type) {
		case *ast.Ident:
			if v.Tok != token.DEFINE {
				t.fail(s, "assignment to a local")
			}
			val := t.term(v.Rhs[0])
			t.locals[l.Name] = true
			return ind + "let " + l.Name + " := " + val + "\n" + cont()
		case *ast.SelectorExpr:
			if id, ok := l.X.(*ast.Ident); ok && id.Name == t.recv && t.fields[l.Sel.Name] && v.Tok == token.ASSIGN {
				return ind + "let c := { c with " + l.Sel.Name + " := " + t.term(v.Rhs[0]) + " }\n" + cont()
			}
		case *ast.IndexExpr:
			if se, ok := l.X.(*ast.SelectorExpr); ok && v.Tok == token.ASSIGN {
				if id, ok := se.X.(*ast.Ident); ok && id.Name == t.recv && t.fields[se.Sel.Name] {
					return ind + "let c := { c with " + se.Sel.Name + " := mapSet c." + se.Sel.Name + " " + t.term(l.Index) + " " + t.term(v.Rhs[0]) + " }\n" + cont()
				}
			}
		}
		t.fail(s, "unsupported assignment")
	case *ast.IfStmt:
		if v.Else != nil {
			t.fail(s, "else branches are not supported")
		}
		// `if v, ok := c.m[k]; ok { … }`
		if v.Init != nil {
			as, ok := v.Init.(*ast.AssignStmt)
			if !ok || as.Tok != token.DEFINE || len(as.Lhs) != 2 || len(as.Rhs) != 1 {
				t.fail(s, "unsupported if-initialiser")
			}
			ix, ok := as.Rhs[0].(*ast.IndexExpr)
			okName := nodeString(t.fset, as.Lhs[1])
			if !ok || nodeString(t.fset, v.Cond) != okName {
				t.fail(s, "unsupported if-initialiser")
			}
			vn := nodeString(t.fset, as.Lhs[0])
			m := t.term(ix.X)
			key := t.term(ix.Index)
			if !endsInRet(v.Body.List) {
				t.fail(s, "a map-lookup branch must end in a return")
			}
			saved := t.locals[vn]
			t.locals[vn] = true
			body := t.stmts(v.Body.List, "", ind+"    ")
			t.locals[vn] = saved
			return ind + "match mapGet " + m + " " + key + " with\n" + ind + "| some " + vn + " =>\n" + body + "\n" + ind + "| none =>\n" + t.stmts(tail, rest, ind+"  ")
		}
		cond := t.prop(v.Cond)
		if endsInRet(v.Body.List) {
			return ind + "if " + cond + " then\n" + t.stmts(v.Body.List, "", ind+"  ") + "\n" + ind + "else\n" + t.stmts(tail, rest, ind+"  ")
		}
		// a branch of plain field updates: thread the state through it
		return ind + "let c := if " + cond + " then\n" + t.stmts(v.Body.List, ind+"    c", ind+"    ") + "\n" + ind + "  else c\n" + cont()
	case *ast.ExprStmt, *ast.DeferStmt:
		txt := nodeString(t.fset, s)
		if txt == t.recv+".mu.Lock()" || txt == "defer "+t.recv+".mu.Unlock()" {
			return cont() // the whole remaining body runs under the mutex (checked by the caller)
		}
		t.fail(s, "unsupported statement")
	}
	t.fail(s, "unsupported statement")
	return ""
}

func genReplayGen(repo string, consts []constKV) (res string) {
	var sb strings.Builder
	sb.WriteString("-- GENERATED by tools/goextract (replaytrans.go) from the repository's current working tree; do not edit\n")
	sb.WriteString("-- ReplayCache.IsDuplicate translated statement by statement: maps are association lists with map\n-- semantics, the clock is the parameter `now` (ns), the receiver is never nil, the mutex is dropped.\n")
	sb.WriteString("set_option linter.unusedVariables false\nnamespace Mieru.Gen.ReplayGen\n\n")
	sb.WriteString("structure RCache where\n  capacity : Int\n  expireTime : Int\n  expireInterval : Int\n  current : List (Nat × List UInt8)\n  previous : List (Nat × List UInt8)\nderiving DecidableEq, Repr\n\n")
	sb.WriteString("/-- Go map read `v, ok := m[k]` -/\ndef mapGet (m : List (Nat × List UInt8)) (k : Nat) : Option (List UInt8) := (m.find? (fun p => p.1 == k)).map (·.2)\n\n")
	sb.WriteString("/-- Go map write `m[k] = v` -/\ndef mapSet (m : List (Nat × List UInt8)) (k : Nat) (v : List UInt8) : List (Nat × List UInt8) := (k, v) :: m.filter (fun p => p.1 != k)\n")
	defer func() {
		if r := recover(); r != nil {
			if u, ok := r.(rtUnsupported); ok {
				res = sb.String() + "\n-- BROKEN-TIE ReplayCache.IsDuplicate: " + u.msg + "\n\nend Mieru.Gen.ReplayGen\n"
				return
			}
			panic(r)
		}
	}()
	fset := token.NewFileSet()
	f, err := parser.ParseFile(fset, filepath.Join(repo, "pkg/replay/replay.go"), nil, 0)
	if err != nil {
		return sb.String() + "\n-- BROKEN-TIE ReplayCache.IsDuplicate: cannot parse pkg/replay/replay.go\n\nend Mieru.Gen.ReplayGen\n"
	}
	var fd *ast.FuncDecl
	for _, d := range f.Decls {
		if x, ok := d.(*ast.FuncDecl); ok && x.Body != nil && funcName(x) == "ReplayCache.IsDuplicate" {
			fd = x
		}
	}
	if fd == nil || fd.Recv == nil || len(fd.Recv.List[0].Names) != 1 {
		return sb.String() + "\n-- BROKEN-TIE ReplayCache.IsDuplicate: function not found\n\nend Mieru.Gen.ReplayGen\n"
	}
	t := &rtr{fset: fset, recv: fd.Recv.List[0].Names[0].Name,
		fields: map[string]bool{"capacity": true, "expireTime": true, "expireInterval": true, "current": true, "previous": true},
		locals: map[string]bool{}}
	// parameters: (data []byte, tag string)
	var params []string
	for _, p := range fd.Type.Params.List {
		for _, n := range p.Names {
			params = append(params, n.Name)
			t.locals[n.Name] = true
		}
	}
	if len(params) != 2 {
		panic(rtUnsupported{"expected two parameters (data, tag)"})
	}
	// every map access must happen under the mutex: Lock + deferred Unlock come before the first
	// statement that mentions a map
	locked := false
	for _, s := range fd.Body.List {
		txt := nodeString(fset, s)
		if txt == t.recv+".mu.Lock()" {
			locked = true
		}
		if !locked && (strings.Contains(txt, t.recv+".current") || strings.Contains(txt, t.recv+".previous") || strings.Contains(txt, t.recv+".expireTime")) {
			panic(rtUnsupported{"the cache's state is accessed before " + t.recv + ".mu.Lock(): " + txt})
		}
	}
	if !locked || !strings.Contains(nodeString(fset, fd.Body), "defer "+t.recv+".mu.Unlock()") {
		panic(rtUnsupported{"the body does not run under " + t.recv + ".mu (Lock + deferred Unlock)"})
	}
	body := t.stmts(fd.Body.List, "", "  ")
	fmt.Fprintf(&sb, "\n/-- pkg/replay/replay.go:%d, ReplayCache.IsDuplicate -/\ndef isDuplicate (computeSignature : List UInt8 → Nat) (c : RCache) (%s : List UInt8) (%s : List UInt8) (now : Int) : RCache × Bool :=\n%s\n", fset.Position(fd.Pos()).Line, params[0], params[1], body)
	sb.WriteString("\nend Mieru.Gen.ReplayGen\n")
	return sb.String()
}
