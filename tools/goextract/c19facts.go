package main

// Structural facts for C19 (traffic accounting and quotas), regenerated into
// lean/Mieru/Gen/FactsC19.lean and checked by `decide` in lean/Mieru/Props/C19.lean:
//
//   pkg/metrics/registry.go  RegisterMetric: which sync.Map methods touch the metric slot, and that the
//                            returned value is the first result of the publishing LoadOrStore
//   pkg/metrics/counter.go   rollUp: guard and the eight doRollUp passes in order; doRollUp: its `if`
//                            conditions in order; DeltaBetween: search predicates and summation loop
//   pkg/protocol/session.go  Read / Write: every return and every `.Add(` with its guard, and which
//                            returns are directly preceded by the accounting statement; Read's copy calls;
//                            inputData: source order of checkQuota / Close / queue insertions and the
//                            refusal branch; checkQuota: comparison and clamp; input: metric registrations
//
// A function that is missing or has an unexpected shape makes the generator emit `-- BROKEN-TIE …`
// and leave the definition out, so that the theorem that needs it stops building.

import (
	"fmt"
	"go/ast"
	"go/parser"
	"go/token"
	"path/filepath"
	"strings"
)

func init() { register("FactsC19.lean", genFactsC19) }

type c19gen struct {
	sb   strings.Builder
	fset *token.FileSet
}

func (g *c19gen) broken(name, why string) {
	fmt.Fprintf(&g.sb, "\n-- BROKEN-TIE %s: %s\n", name, why)
}

func c19LeanStr(s string) string { return fmt.Sprintf("%q", s) }

func c19LeanStrList(l []string) string {
	q := make([]string, len(l))
	for i, s := range l {
		q[i] = c19LeanStr(s)
	}
	return "[" + strings.Join(q, ", ") + "]"
}

func (g *c19gen) defStrList(doc, name string, l []string) {
	fmt.Fprintf(&g.sb, "\n/-- %s -/\ndef %s : List String := %s\n", doc, name, c19LeanStrList(l))
}

func (g *c19gen) defStr(doc, name, v string) {
	fmt.Fprintf(&g.sb, "\n/-- %s -/\ndef %s : String := %s\n", doc, name, c19LeanStr(v))
}

func (g *c19gen) defTuples(doc, name, typ string, rows [][]string) {
	fmt.Fprintf(&g.sb, "\n/-- %s -/\ndef %s : List (%s) := [", doc, name, typ)
	for i, r := range rows {
		if i > 0 {
			g.sb.WriteString(",")
		}
		q := make([]string, len(r))
		for j, s := range r {
			q[j] = c19LeanStr(s)
		}
		g.sb.WriteString("\n  (" + strings.Join(q, ", ") + ")")
	}
	g.sb.WriteString("\n]\n")
}

func c19FindFunc(f *ast.File, name string) *ast.FuncDecl {
	for _, d := range f.Decls {
		if fd, ok := d.(*ast.FuncDecl); ok && fd.Body != nil && funcName(fd) == name {
			return fd
		}
	}
	return nil
}

// returnsOf lists every return statement of a function body (closures excluded) as the source text
// of its results, for each whether the statement directly before it (in the same block) is an
// `if` whose body contains a call `<recv>.Add(`, and the conjunction of the enclosing if-conditions
// (an `else` branch contributes nothing).
func (g *c19gen) returnsOf(body *ast.BlockStmt, addRecv string) (rows [][]string) {
	var walkBlock func(list []ast.Stmt, cond string)
	var walkStmt func(s ast.Stmt, cond string)
	hasAdd := func(s ast.Stmt) bool {
		ifs, ok := s.(*ast.IfStmt)
		if !ok {
			return false
		}
		found := false
		ast.Inspect(ifs.Body, func(n ast.Node) bool {
			if ce, ok := n.(*ast.CallExpr); ok {
				if se, ok := ce.Fun.(*ast.SelectorExpr); ok && se.Sel.Name == "Add" && nodeString(g.fset, se.X) == addRecv {
					found = true
				}
			}
			return true
		})
		return found
	}
	and := func(a, b string) string {
		if a == "" {
			return b
		}
		return a + " && " + b
	}
	walkBlock = func(list []ast.Stmt, cond string) {
		for i, s := range list {
			if r, ok := s.(*ast.ReturnStmt); ok {
				res := make([]string, len(r.Results))
				for j, e := range r.Results {
					res[j] = nodeString(g.fset, e)
				}
				pre := "no"
				if i > 0 && hasAdd(list[i-1]) {
					pre = "yes"
				}
				rows = append(rows, []string{strings.Join(res, ", "), pre, cond})
				continue
			}
			walkStmt(s, cond)
		}
	}
	walkStmt = func(s ast.Stmt, cond string) {
		switch v := s.(type) {
		case *ast.BlockStmt:
			walkBlock(v.List, cond)
		case *ast.IfStmt:
			walkBlock(v.Body.List, and(cond, nodeString(g.fset, v.Cond)))
			if v.Else != nil {
				walkStmt(v.Else, cond)
			}
		case *ast.ForStmt:
			walkBlock(v.Body.List, cond)
		case *ast.RangeStmt:
			walkBlock(v.Body.List, cond)
		case *ast.SelectStmt:
			for _, c := range v.Body.List {
				walkBlock(c.(*ast.CommClause).Body, cond)
			}
		case *ast.SwitchStmt:
			for _, c := range v.Body.List {
				walkBlock(c.(*ast.CaseClause).Body, cond)
			}
		case *ast.LabeledStmt:
			walkStmt(v.Stmt, cond)
		}
	}
	walkBlock(body.List, "")
	return rows
}

// addsOf lists (innermost enclosing if-condition, receiver, argument) of every `.Add(` call on a
// receiver whose text ends in "Bytes".
func (g *c19gen) addsOf(body *ast.BlockStmt) (rows [][]string) {
	var walk func(n ast.Node, cond string)
	walk = func(n ast.Node, cond string) {
		ast.Inspect(n, func(x ast.Node) bool {
			switch v := x.(type) {
			case *ast.FuncLit:
				return false
			case *ast.IfStmt:
				if v.Init != nil {
					walk(v.Init, cond)
				}
				walk(v.Body, nodeString(g.fset, v.Cond))
				if v.Else != nil {
					walk(v.Else, cond)
				}
				return false
			case *ast.CallExpr:
				if se, ok := v.Fun.(*ast.SelectorExpr); ok && se.Sel.Name == "Add" && len(v.Args) == 1 {
					recv := nodeString(g.fset, se.X)
					if strings.HasSuffix(recv, "Bytes") {
						rows = append(rows, []string{cond, recv, nodeString(g.fset, v.Args[0])})
					}
				}
			}
			return true
		})
	}
	walk(body, "")
	return rows
}

func genFactsC19(repo string, consts []constKV) string {
	g := &c19gen{fset: token.NewFileSet()}
	g.sb.WriteString("-- GENERATED by tools/goextract (c19facts.go) from the repository's current working tree; do not edit\nnamespace Mieru.Gen.FactsC19\n")
	parse := func(rel string) *ast.File {
		f, err := parser.ParseFile(g.fset, filepath.Join(repo, rel), nil, 0)
		if err != nil {
			g.broken(rel, "cannot parse: "+err.Error())
			return nil
		}
		return f
	}

	// ---- registry.go
	if f := parse("pkg/metrics/registry.go"); f != nil {
		if fd := c19FindFunc(f, "RegisterMetric"); fd == nil {
			g.broken("registerMetric", "function RegisterMetric not found")
		} else {
			var slotCalls, groupCalls []string
			defs := map[string][2]string{} // variable -> (method, position) of the sync.Map call that defines it
			ast.Inspect(fd.Body, func(n ast.Node) bool {
				switch v := n.(type) {
				case *ast.AssignStmt:
					if len(v.Rhs) == 1 {
						if ce, ok := v.Rhs[0].(*ast.CallExpr); ok {
							if se, ok := ce.Fun.(*ast.SelectorExpr); ok {
								recv := nodeString(g.fset, se.X)
								if recv == "metricGroup.metrics" || recv == "metricMap" {
									for i, l := range v.Lhs {
										if id, ok := l.(*ast.Ident); ok && id.Name != "_" {
											defs[id.Name] = [2]string{recv + "." + se.Sel.Name, fmt.Sprint(i)}
										}
									}
								}
							}
						}
					}
				case *ast.CallExpr:
					if se, ok := v.Fun.(*ast.SelectorExpr); ok {
						switch nodeString(g.fset, se.X) {
						case "metricGroup.metrics":
							slotCalls = append(slotCalls, se.Sel.Name)
						case "metricMap":
							groupCalls = append(groupCalls, se.Sel.Name)
						}
					}
				}
				return true
			})
			g.defStrList("sync.Map methods `RegisterMetric` calls on `metricGroup.metrics` (the metric slot), in source order", "registerMetricSlotCalls", slotCalls)
			g.defStrList("sync.Map methods `RegisterMetric` calls on `metricMap` (the group slot), in source order", "registerMetricGroupCalls", groupCalls)
			var rets [][]string
			for _, r := range g.returnsOf(fd.Body, "") {
				expr := r[0]
				base := expr
				if i := strings.Index(base, "."); i > 0 { // metric.(Metric)
					base = base[:i]
				}
				if d, ok := defs[base]; ok {
					rets = append(rets, []string{expr, d[0], d[1]})
				} else {
					rets = append(rets, []string{expr, "", ""})
				}
			}
			g.defTuples("every `return` of `RegisterMetric`: (expression, the sync.Map call whose result it is — empty if it is something else, position among that call's results)", "registerMetricReturns", "String × String × String", rets)
		}
	}

	// ---- counter.go
	if f := parse("pkg/metrics/counter.go"); f != nil {
		if fd := c19FindFunc(f, "Counter.rollUp"); fd == nil {
			g.broken("rollUpPasses", "Counter.rollUp not found")
		} else {
			var passes [][]string
			guard := ""
			other := 0
			for _, s := range fd.Body.List {
				switch v := s.(type) {
				case *ast.IfStmt:
					if guard == "" && len(v.Body.List) == 1 {
						if _, ok := v.Body.List[0].(*ast.ReturnStmt); ok {
							guard = nodeString(g.fset, v.Cond)
							continue
						}
					}
					other++
				case *ast.ExprStmt:
					if ce, ok := v.X.(*ast.CallExpr); ok && nodeString(g.fset, ce.Fun) == "c.doRollUp" && len(ce.Args) == 4 {
						row := make([]string, 4)
						for i, a := range ce.Args {
							row[i] = nodeString(g.fset, a)
						}
						passes = append(passes, row)
						continue
					}
					other++
				default:
					other++
				}
			}
			if other != 0 {
				g.broken("rollUpPasses", fmt.Sprintf("Counter.rollUp has %d statements that are neither the guard nor a doRollUp call", other))
			} else {
				g.defStr("the condition under which `Counter.rollUp` returns without compacting", "rollUpGuard", guard)
				g.defTuples("the `doRollUp(from, to, rollUpDuration, truncateDuration)` calls of `Counter.rollUp`, in order", "rollUpPasses", "String × String × String × String", passes)
			}
		}
		if fd := c19FindFunc(f, "Counter.doRollUp"); fd == nil {
			g.broken("doRollUpConds", "Counter.doRollUp not found")
		} else {
			var conds []string
			ast.Inspect(fd.Body, func(n ast.Node) bool {
				if v, ok := n.(*ast.IfStmt); ok {
					conds = append(conds, nodeString(g.fset, v.Cond))
				}
				return true
			})
			g.defStrList("conditions of the `if` statements of `Counter.doRollUp`, in source order", "doRollUpConds", conds)
			var trunc []string
			ast.Inspect(fd.Body, func(n ast.Node) bool {
				if ce, ok := n.(*ast.CallExpr); ok {
					if se, ok := ce.Fun.(*ast.SelectorExpr); ok && (se.Sel.Name == "Truncate" || se.Sel.Name == "Since") {
						trunc = append(trunc, nodeString(g.fset, ce))
					}
				}
				return true
			})
			g.defStrList("the `time.Since` / `Truncate` calls of `Counter.doRollUp`, in source order", "doRollUpTimeCalls", trunc)
		}
		if fd := c19FindFunc(f, "Counter.DeltaBetween"); fd == nil {
			g.broken("deltaBetween", "Counter.DeltaBetween not found")
		} else {
			var preds, loops, panics []string
			ast.Inspect(fd.Body, func(n ast.Node) bool {
				switch v := n.(type) {
				case *ast.FuncLit:
					if len(v.Body.List) == 1 {
						if r, ok := v.Body.List[0].(*ast.ReturnStmt); ok && len(r.Results) == 1 {
							preds = append(preds, nodeString(g.fset, r.Results[0]))
						}
					}
				case *ast.ForStmt:
					loops = append(loops, nodeString(g.fset, v.Init)+"; "+nodeString(g.fset, v.Cond)+"; "+nodeString(g.fset, v.Post)+" { "+nodeString(g.fset, v.Body.List[0])+" }")
				case *ast.IfStmt:
					for _, s := range v.Body.List {
						if es, ok := s.(*ast.ExprStmt); ok {
							if ce, ok := es.X.(*ast.CallExpr); ok && nodeString(g.fset, ce.Fun) == "panic" {
								panics = append(panics, nodeString(g.fset, v.Cond))
							}
						}
					}
				}
				return true
			})
			g.defStrList("the predicates handed to `sort.Search` in `Counter.DeltaBetween`, in source order", "deltaBetweenPredicates", preds)
			g.defStrList("the `for` loops of `Counter.DeltaBetween` (init; cond; post { first statement })", "deltaBetweenLoops", loops)
			g.defStrList("the conditions under which `Counter.DeltaBetween` panics", "deltaBetweenPanics", panics)
		}
	}

	// ---- session.go
	if f := parse("pkg/protocol/session.go"); f != nil {
		if fd := c19FindFunc(f, "Session.Read"); fd == nil {
			g.broken("readReturns", "Session.Read not found")
		} else {
			g.defTuples("every `return` of `Session.Read` (closures excluded): (results, is the statement directly before it the `if` that adds to s.uploadBytes, enclosing if-conditions)", "readReturns", "String × String × String", g.returnsOf(fd.Body, "s.uploadBytes"))
			g.defTuples("every `.Add(` on a …Bytes counter in `Session.Read`: (innermost enclosing if-condition, receiver, argument)", "readAdds", "String × String × String", g.addsOf(fd.Body))
			var copies [][]string
			var nUpdates []string
			ast.Inspect(fd.Body, func(n ast.Node) bool {
				switch v := n.(type) {
				case *ast.CallExpr:
					if id, ok := v.Fun.(*ast.Ident); ok && id.Name == "copy" && len(v.Args) == 2 {
						copies = append(copies, []string{nodeString(g.fset, v.Args[0]), nodeString(g.fset, v.Args[1])})
					}
				case *ast.AssignStmt:
					if len(v.Lhs) == 1 && nodeString(g.fset, v.Lhs[0]) == "n" {
						nUpdates = append(nUpdates, nodeString(g.fset, v))
					}
				case *ast.IncDecStmt:
					if nodeString(g.fset, v.X) == "n" {
						nUpdates = append(nUpdates, nodeString(g.fset, v))
					}
				}
				return true
			})
			g.defTuples("every `copy(dst, src)` of `Session.Read`", "readCopies", "String × String", copies)
			g.defStrList("every assignment to `n` in `Session.Read`", "readNUpdates", nUpdates)
		}
		if fd := c19FindFunc(f, "Session.Write"); fd == nil {
			g.broken("writeReturns", "Session.Write not found")
		} else {
			g.defTuples("every `return` of `Session.Write`: (results, is the statement directly before it the `if` that adds to s.downloadBytes, enclosing if-conditions)", "writeReturns", "String × String × String", g.returnsOf(fd.Body, "s.downloadBytes"))
			g.defTuples("every `.Add(` on a …Bytes counter in `Session.Write`: (innermost enclosing if-condition, receiver, argument)", "writeAdds", "String × String × String", g.addsOf(fd.Body))
			var nUpdates []string
			ast.Inspect(fd.Body, func(n ast.Node) bool {
				if v, ok := n.(*ast.AssignStmt); ok && len(v.Lhs) == 1 && nodeString(g.fset, v.Lhs[0]) == "n" {
					nUpdates = append(nUpdates, nodeString(g.fset, v))
				}
				return true
			})
			g.defStrList("every assignment to `n` in `Session.Write`", "writeNUpdates", nUpdates)
		}
		if fd := c19FindFunc(f, "Session.inputData"); fd == nil {
			g.broken("inputDataCalls", "Session.inputData not found")
		} else {
			interesting := map[string]bool{"s.checkQuota": true, "s.Close": true, "s.recvQueue.Insert": true, "s.recvBuf.Insert": true,
				"s.moveRecvBufToRecvQueue": true, "s.sendQueue.Insert": true, "s.forwardStateTo": true}
			var calls []string
			ast.Inspect(fd.Body, func(n ast.Node) bool {
				if ce, ok := n.(*ast.CallExpr); ok {
					if name := nodeString(g.fset, ce.Fun); interesting[name] {
						calls = append(calls, name)
					}
				}
				return true
			})
			g.defStrList("calls of `Session.inputData` to checkQuota / Close / the queues / forwardStateTo, in source order", "inputDataCalls", calls)
			// the refusal branch: the `if !quotaOK { … }` block, statement by statement
			var refusal []string
			outer := ""
			var find func(n ast.Node, cond string)
			find = func(n ast.Node, cond string) {
				ast.Inspect(n, func(x ast.Node) bool {
					if v, ok := x.(*ast.IfStmt); ok {
						c := nodeString(g.fset, v.Cond)
						if c == "!quotaOK" {
							outer = cond
							for _, s := range v.Body.List {
								refusal = append(refusal, nodeString(g.fset, s))
							}
							return false
						}
						if v.Init != nil {
							c = nodeString(g.fset, v.Init) + "; " + c
						}
						if cond != "" {
							c = cond + " && " + c
						}
						find(v.Body, c)
						if v.Else != nil {
							find(v.Else, cond)
						}
						return false
					}
					return true
				})
			}
			find(fd.Body, "")
			g.defStrList("the statements of the `if !quotaOK { … }` block of `Session.inputData`", "inputDataRefusal", refusal)
			g.defStr("the conjunction of the if-conditions enclosing that block", "inputDataRefusalGuard", outer)
			first := ""
			if len(fd.Body.List) > 0 {
				if v, ok := fd.Body.List[0].(*ast.IfStmt); ok {
					first = nodeString(g.fset, v.Cond)
				}
			}
			g.defStr("the condition of the FIRST statement of `Session.inputData` (an `if`)", "inputDataFirstIf", first)
		}
		if fd := c19FindFunc(f, "Session.checkQuota"); fd == nil {
			g.broken("checkQuota", "Session.checkQuota not found")
		} else {
			var conds []string
			var loopBody []string
			ast.Inspect(fd.Body, func(n ast.Node) bool {
				switch v := n.(type) {
				case *ast.RangeStmt:
					for _, s := range v.Body.List {
						loopBody = append(loopBody, nodeString(g.fset, s))
					}
				case *ast.IfStmt:
					c := nodeString(g.fset, v.Cond)
					if v.Init != nil {
						c = nodeString(g.fset, v.Init) + "; " + c
					}
					conds = append(conds, c)
				}
				return true
			})
			g.defStrList("conditions of the `if` statements of `Session.checkQuota`, in source order", "checkQuotaConds", conds)
			g.defStrList("the statements of the `for _, quota := range policy.Quotas()` body", "checkQuotaLoop", loopBody)
		}
		if fd := c19FindFunc(f, "Session.input"); fd == nil {
			g.broken("sessionMetricRegistrations", "Session.input not found")
		} else {
			var regs [][]string
			ast.Inspect(fd.Body, func(n ast.Node) bool {
				if v, ok := n.(*ast.AssignStmt); ok && len(v.Lhs) == 1 && len(v.Rhs) == 1 {
					if ce, ok := v.Rhs[0].(*ast.CallExpr); ok && nodeString(g.fset, ce.Fun) == "metrics.RegisterMetric" && len(ce.Args) == 3 {
						regs = append(regs, []string{nodeString(g.fset, v.Lhs[0]), nodeString(g.fset, ce.Args[0]), nodeString(g.fset, ce.Args[1]), nodeString(g.fset, ce.Args[2])})
					}
				}
				return true
			})
			g.defTuples("every `x = metrics.RegisterMetric(group, name, type)` of `Session.input`: (x, group, name, type)", "sessionMetricRegistrations", "String × String × String × String", regs)
		}
	}
	g.sb.WriteString("\nend Mieru.Gen.FactsC19\n")
	return g.sb.String()
}
