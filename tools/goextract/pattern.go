// Topic file for C16 (traffic pattern): regenerates lean/Mieru/Gen/PatternGen.lean from
//
//	pkg/cipher/cipher.go                nonceRewriteLen (translated), newNonceTo (decision function)
//	pkg/protocol/padding.go             maxPaddingSizeWithTrafficPattern (translated)
//	pkg/protocol/low_entropy.go         extractLowEntropyConfig (translated)
//	pkg/protocol/session.go             Session.lowEntropySendConfig (translated), the clientUseLowEntropy stores (facts)
//	pkg/protocol/underlay_stream.go     writeWithPossibleFragment: guard and fragment-length arithmetic (translated)
//	apis/trafficpattern/config.go       validateTCPFragment / validatePaddingPattern / integer part of validateNoncePattern
//	                                    (translated), Validate's order, every rng.FixedInt call site (facts)
//	pkg/common/ascii.go                 Common64Set and the printable bounds (facts)
//
// The translator below is a small typed one (Int / Bool / Option Int / "is nil" flags) so that
// pointer-valued protobuf fields (`x.F != nil`, `*x`) can be translated as Option-ness. The leaves of a
// function (getters on the receiver or on a message) are bound by their exact source text to Lean
// parameters; any expression or statement outside the subset makes the function come out as a
// `-- BROKEN-TIE name: file:line: why` line (reported by bin/check), never skipped.
package main

import (
	"fmt"
	"go/ast"
	"go/parser"
	"go/token"
	"path/filepath"
	"sort"
	"strconv"
	"strings"
)

func init() { register("PatternGen.lean", genPatternGen) }

type pTy int

const (
	ptInt pTy = iota
	ptBool
	ptOpt // Option Int (a *int32 / optional scalar)
	ptNil // a Bool parameter that says "this pointer is nil"
)

type pVal struct {
	lean string
	ty   pTy
}

type pFunc struct {
	lean     string
	goArgs   []string // expected source text of the arguments (nil: translate each argument)
	leanArgs string   // Lean arguments used when goArgs is set
	rets     []pTy
}

type ptr struct {
	fset    *token.FileSet
	repo    string
	env     map[string]pVal
	funcs   map[string]pFunc
	draws   []string          // Lean names of the draw parameters consumed, in source order, by mrand.Intn
	drawIdx map[token.Pos]int // call position -> index into draws (a statement may be translated in two branches)
	errOrd  map[token.Pos]int // error-return ordinals (kind "err")
	kind    string            // "tuple" | "err"
	rets    []pTy
}

func (t *ptr) pos(n ast.Node) string {
	p := t.fset.Position(n.Pos())
	return fmt.Sprintf("%s:%d", strings.TrimPrefix(strings.TrimPrefix(p.Filename, t.repo), "/"), p.Line)
}

func (t *ptr) fail(n ast.Node, msg string) {
	panic(unsupported{fmt.Sprintf("%s: unsupported: %s", t.pos(n), msg)})
}

func (t *ptr) text(n ast.Node) string { return nodeString(t.fset, n) }

func (t *ptr) copyEnv() map[string]pVal {
	m := map[string]pVal{}
	for k, v := range t.env {
		m[k] = v
	}
	return m
}

var pConversions = map[string]bool{"int": true, "int32": true, "int64": true, "uint8": true, "uint16": true, "uint32": true, "byte": true,
	"appctlpb.LowEntropyMode": true, "appctlpb.LowEntropyMaskRotation": true, "appctlpb.NonceType": true, "paddingPosition": true}

func (t *ptr) callName(c *ast.CallExpr) string {
	switch f := c.Fun.(type) {
	case *ast.Ident:
		return f.Name
	case *ast.SelectorExpr:
		return t.text(f)
	}
	return "?"
}

// ex translates a value-typed expression.
func (t *ptr) ex(e ast.Expr) pVal {
	if v, ok := t.env[t.text(e)]; ok {
		return v
	}
	switch x := e.(type) {
	case *ast.BasicLit:
		if x.Kind == token.INT {
			return pVal{x.Value, ptInt}
		}
	case *ast.Ident:
		switch x.Name {
		case "true", "false":
			return pVal{x.Name, ptBool}
		case "nil":
			return pVal{"(none : Option Int)", ptOpt}
		}
	case *ast.ParenExpr:
		v := t.ex(x.X)
		return pVal{"(" + v.lean + ")", v.ty}
	case *ast.StarExpr:
		v := t.ex(x.X)
		if v.ty != ptOpt {
			t.fail(e, "dereference of a non-optional")
		}
		// Go would panic on a nil pointer; every translated dereference is guarded by a nil test in the
		// source, and a dropped guard changes the translated function (getD 0 is then visible)
		return pVal{"(" + v.lean + ".getD 0)", ptInt}
	case *ast.UnaryExpr:
		switch x.Op {
		case token.NOT:
			return pVal{"(decide " + t.prop(e) + ")", ptBool}
		case token.SUB:
			v := t.ex(x.X)
			if v.ty == ptInt {
				return pVal{"(-" + v.lean + ")", ptInt}
			}
		}
	case *ast.BinaryExpr:
		op := x.Op.String()
		switch op {
		case "&&", "||", "==", "!=", "<=", ">=", "<", ">":
			return pVal{"(decide " + t.prop(e) + ")", ptBool}
		case "+", "-", "*", "/", "%":
			a, b := t.ex(x.X), t.ex(x.Y)
			if a.ty != ptInt || b.ty != ptInt {
				t.fail(e, "arithmetic on non-integers")
			}
			switch op {
			case "/":
				return pVal{fmt.Sprintf("(Int.tdiv %s %s)", a.lean, b.lean), ptInt}
			case "%":
				return pVal{fmt.Sprintf("(Int.tmod %s %s)", a.lean, b.lean), ptInt}
			}
			return pVal{fmt.Sprintf("(%s %s %s)", a.lean, op, b.lean), ptInt}
		}
	case *ast.CallExpr:
		name := t.callName(x)
		if pConversions[name] && len(x.Args) == 1 {
			v := t.ex(x.Args[0])
			if v.ty != ptInt {
				t.fail(e, "conversion of a non-integer")
			}
			return v
		}
		switch name {
		case "mathext.Min", "mathext.Max":
			a, b := t.ex(x.Args[0]), t.ex(x.Args[1])
			if a.ty != ptInt || b.ty != ptInt {
				t.fail(e, "min/max of non-integers")
			}
			return pVal{fmt.Sprintf("(%s %s %s)", strings.ToLower(name[8:]), a.lean, b.lean), ptInt}
		case "mrand.Intn":
			// a draw from [0, k): an explicit parameter reduced into the range (Int `%` = emod)
			di, seen := t.drawIdx[x.Pos()]
			if !seen {
				di = len(t.drawIdx)
				t.drawIdx[x.Pos()] = di
			}
			if di >= len(t.draws) {
				t.fail(e, "more mrand.Intn calls than draw parameters")
			}
			d := t.draws[di]
			k := t.ex(x.Args[0])
			if k.ty != ptInt {
				t.fail(e, "Intn of a non-integer")
			}
			return pVal{fmt.Sprintf("(%s %% %s)", d, k.lean), ptInt}
		}
		if f, ok := t.funcs[name]; ok && len(f.rets) == 1 {
			return pVal{"(" + t.apply(x, f) + ")", f.rets[0]}
		}
		t.fail(e, "call "+name)
	}
	t.fail(e, fmt.Sprintf("expression %s", t.text(e)))
	return pVal{}
}

func (t *ptr) apply(c *ast.CallExpr, f pFunc) string {
	if f.goArgs != nil {
		if len(c.Args) != len(f.goArgs) {
			t.fail(c, "argument count of "+f.lean)
		}
		for i, a := range c.Args {
			if t.text(a) != f.goArgs[i] {
				t.fail(c, fmt.Sprintf("argument %d of %s is %q, expected %q", i, f.lean, t.text(a), f.goArgs[i]))
			}
		}
		return f.lean + " " + f.leanArgs
	}
	args := []string{}
	for _, a := range c.Args {
		v := t.ex(a)
		if v.ty != ptInt {
			t.fail(c, "non-integer argument")
		}
		args = append(args, v.lean)
	}
	return f.lean + " " + strings.Join(args, " ")
}

func isNilIdent(e ast.Expr) bool {
	id, ok := e.(*ast.Ident)
	return ok && id.Name == "nil"
}

// prop translates a condition to a decidable Lean Prop.
func (t *ptr) prop(e ast.Expr) string {
	if v, ok := t.env[t.text(e)]; ok && v.ty == ptBool {
		return "(" + v.lean + " = true)"
	}
	switch x := e.(type) {
	case *ast.ParenExpr:
		return t.prop(x.X)
	case *ast.UnaryExpr:
		if x.Op == token.NOT {
			return "(¬ " + t.prop(x.X) + ")"
		}
	case *ast.BinaryExpr:
		op := x.Op.String()
		switch op {
		case "&&":
			return fmt.Sprintf("(%s ∧ %s)", t.prop(x.X), t.prop(x.Y))
		case "||":
			return fmt.Sprintf("(%s ∨ %s)", t.prop(x.X), t.prop(x.Y))
		case "==", "!=":
			if isNilIdent(x.Y) {
				v := t.ex(x.X)
				switch v.ty {
				case ptNil:
					if op == "==" {
						return "(" + v.lean + " = true)"
					}
					return "(" + v.lean + " = false)"
				case ptOpt:
					if op == "==" {
						return "(" + v.lean + " = none)"
					}
					return "(" + v.lean + " ≠ none)"
				}
				t.fail(e, "nil comparison of a non-pointer")
			}
			a, b := t.ex(x.X), t.ex(x.Y)
			if a.ty != b.ty || a.ty == ptNil {
				t.fail(e, "comparison of different types")
			}
			if op == "==" {
				return fmt.Sprintf("(%s = %s)", a.lean, b.lean)
			}
			return fmt.Sprintf("(%s ≠ %s)", a.lean, b.lean)
		case "<=", ">=", "<", ">":
			a, b := t.ex(x.X), t.ex(x.Y)
			if a.ty != ptInt || b.ty != ptInt {
				t.fail(e, "ordering of non-integers")
			}
			return fmt.Sprintf("(%s %s %s)", a.lean, cmpOps[op], b.lean)
		}
	case *ast.Ident:
		if x.Name == "true" {
			return "True"
		}
		if x.Name == "false" {
			return "False"
		}
	case *ast.CallExpr:
		v := t.ex(e)
		if v.ty == ptBool {
			return "(" + v.lean + " = true)"
		}
	}
	t.fail(e, "condition "+t.text(e))
	return ""
}

func (t *ptr) retTerm(x *ast.ReturnStmt) string {
	if t.kind == "err" {
		if len(x.Results) != 1 {
			t.fail(x, "error function returning several values")
		}
		if isNilIdent(x.Results[0]) {
			return "none"
		}
		return fmt.Sprintf("some %d", t.errOrd[x.Pos()])
	}
	if len(x.Results) != len(t.rets) {
		t.fail(x, "result count")
	}
	parts := []string{}
	for i, r := range x.Results {
		v := t.ex(r)
		if v.ty != t.rets[i] {
			t.fail(x, fmt.Sprintf("result %d has an unexpected type", i))
		}
		parts = append(parts, v.lean)
	}
	if len(parts) == 1 {
		return parts[0]
	}
	return "(" + strings.Join(parts, ", ") + ")"
}

func (t *ptr) stOrFall(body, rest []ast.Stmt, ind string) string {
	if endsInReturn(body) {
		return t.st(body, ind)
	}
	return t.st(append(append([]ast.Stmt{}, body...), rest...), ind)
}

func zeroOf(t *ptr, ty ast.Expr) pVal {
	switch x := ty.(type) {
	case *ast.StarExpr:
		return pVal{"(none : Option Int)", ptOpt}
	case *ast.Ident:
		switch x.Name {
		case "int", "int32", "int64", "protocolType":
			return pVal{"0", ptInt}
		case "bool":
			return pVal{"false", ptBool}
		}
	}
	t.fail(ty, "var of type "+t.text(ty))
	return pVal{}
}

// st translates a statement list into one Lean term.
func (t *ptr) st(ss []ast.Stmt, ind string) string {
	if len(ss) == 0 {
		panic(unsupported{"fell off the end of a function"})
	}
	s, rest := ss[0], ss[1:]
	switch x := s.(type) {
	case *ast.ReturnStmt:
		return ind + t.retTerm(x)
	case *ast.DeclStmt:
		gd, ok := x.Decl.(*ast.GenDecl)
		if !ok || gd.Tok != token.VAR || len(gd.Specs) != 1 {
			t.fail(s, "declaration")
		}
		vs := gd.Specs[0].(*ast.ValueSpec)
		if len(vs.Names) != 1 || len(vs.Values) != 0 || vs.Type == nil {
			t.fail(s, "var declaration with a value")
		}
		z := zeroOf(t, vs.Type)
		name := vs.Names[0].Name
		t.env[name] = pVal{name, z.ty}
		return fmt.Sprintf("%slet %s := %s\n%s", ind, name, z.lean, t.st(rest, ind))
	case *ast.AssignStmt:
		if len(x.Lhs) > 1 && len(x.Rhs) == 1 {
			call, ok := x.Rhs[0].(*ast.CallExpr)
			if !ok {
				t.fail(s, "multi-value assignment")
			}
			f, ok := t.funcs[t.callName(call)]
			if !ok || len(f.rets) != len(x.Lhs) {
				t.fail(s, "multi-value call "+t.callName(call))
			}
			app := t.apply(call, f)
			out := fmt.Sprintf("%slet r_ := %s\n", ind, app)
			for i, l := range x.Lhs {
				name := l.(*ast.Ident).Name
				proj := "r_" + strings.Repeat(".2", i)
				if i < len(x.Lhs)-1 {
					proj += ".1"
				}
				out += fmt.Sprintf("%slet %s := %s\n", ind, name, proj)
				t.env[name] = pVal{name, f.rets[i]}
			}
			return out + t.st(rest, ind)
		}
		if len(x.Lhs) != 1 || len(x.Rhs) != 1 {
			t.fail(s, "assignment arity")
		}
		id, ok := x.Lhs[0].(*ast.Ident)
		if !ok {
			// an assignment to a field the environment tracks (e.g. c.noncePatternApplied = true)
			key := t.text(x.Lhs[0])
			cur, ok := t.env[key]
			if !ok {
				t.fail(s, "assignment to "+key)
			}
			v := t.ex(x.Rhs[0])
			if v.ty != cur.ty {
				t.fail(s, "assignment changes the type of "+key)
			}
			return fmt.Sprintf("%slet %s := %s\n%s", ind, cur.lean, v.lean, t.st(rest, ind))
		}
		v := t.ex(x.Rhs[0])
		if v.ty == ptNil {
			t.fail(s, "assignment of a message pointer")
		}
		t.env[id.Name] = pVal{id.Name, v.ty}
		return fmt.Sprintf("%slet %s := %s\n%s", ind, id.Name, v.lean, t.st(rest, ind))
	case *ast.IfStmt:
		if x.Init != nil {
			t.fail(s, "if with an init statement")
		}
		cond := t.prop(x.Cond)
		saved := t.copyEnv()
		thenT := t.stOrFall(x.Body.List, rest, ind+"  ")
		t.env = saved
		saved = t.copyEnv()
		var elseT string
		if x.Else != nil {
			switch eb := x.Else.(type) {
			case *ast.BlockStmt:
				elseT = t.stOrFall(eb.List, rest, ind+"  ")
			case *ast.IfStmt:
				elseT = t.st(append([]ast.Stmt{eb}, rest...), ind+"  ")
			}
		} else {
			elseT = t.st(rest, ind+"  ")
		}
		t.env = saved
		return fmt.Sprintf("%sif %s then\n%s\n%selse\n%s", ind, cond, thenT, ind, elseT)
	case *ast.SwitchStmt:
		if x.Tag == nil || x.Init != nil {
			t.fail(s, "tagless switch")
		}
		tag := t.ex(x.Tag)
		if tag.ty != ptInt {
			t.fail(s, "switch on a non-integer")
		}
		out, def := "", ""
		for _, c := range x.Body.List {
			cc := c.(*ast.CaseClause)
			saved := t.copyEnv()
			var body string
			if len(cc.Body) == 0 {
				body = t.st(rest, ind+"  ")
			} else {
				body = t.stOrFall(cc.Body, rest, ind+"  ")
			}
			t.env = saved
			if cc.List == nil {
				def = body
				continue
			}
			conds := []string{}
			for _, e := range cc.List {
				v := t.ex(e)
				if v.ty != ptInt {
					t.fail(e, "case of a non-integer")
				}
				conds = append(conds, fmt.Sprintf("(%s = %s)", tag.lean, v.lean))
			}
			out += fmt.Sprintf("%sif %s then\n%s\n%selse\n", ind, strings.Join(conds, " ∨ "), body, ind)
		}
		if def == "" {
			def = t.st(rest, ind+"  ")
		}
		return out + def
	}
	t.fail(s, fmt.Sprintf("statement %T", s))
	return ""
}

func leanTy(ty pTy) string {
	switch ty {
	case ptInt:
		return "Int"
	case ptBool, ptNil:
		return "Bool"
	}
	return "Option Int"
}

type pParam struct {
	name string
	ty   pTy
}

type pSpec struct {
	file, recv, name string // Go location
	lean             string
	params           []pParam
	env              map[string]pVal // Go text -> parameter (parameters are added automatically under their own name)
	draws            []string
	kind             string
	rets             []pTy
	funcs            map[string]pFunc
	body             func(fd *ast.FuncDecl) []ast.Stmt // statements to translate (default: whole body)
	doc              string
}

type pGen struct {
	fset  *token.FileSet
	repo  string
	files map[string]*ast.File
	sb    strings.Builder
	enums map[string]string // appctlpb.<Const> -> value
}

func (g *pGen) load(rel string) *ast.File {
	if f, ok := g.files[rel]; ok {
		return f
	}
	f, err := parser.ParseFile(g.fset, filepath.Join(g.repo, rel), nil, 0)
	if err != nil {
		f = nil
	}
	g.files[rel] = f
	return f
}

func (g *pGen) find(rel, recv, name string) *ast.FuncDecl {
	f := g.load(rel)
	if f == nil {
		return nil
	}
	want := name
	if recv != "" {
		want = recv + "." + name
	}
	for _, d := range f.Decls {
		if fd, ok := d.(*ast.FuncDecl); ok && fd.Body != nil && funcName(fd) == want {
			return fd
		}
	}
	return nil
}

func (g *pGen) broken(name, why string) {
	fmt.Fprintf(&g.sb, "\n-- BROKEN-TIE %s: %s\n", name, why)
}

// constInt finds an untyped/typed integer constant `name = <int literal>` or an iota member in a file.
func (g *pGen) constInt(rel, name string) (string, bool) {
	f := g.load(rel)
	if f == nil {
		return "", false
	}
	for _, d := range f.Decls {
		gd, ok := d.(*ast.GenDecl)
		if !ok || gd.Tok != token.CONST {
			continue
		}
		iotaBlock := false
		for i, sp := range gd.Specs {
			vs := sp.(*ast.ValueSpec)
			if i == 0 && len(vs.Values) == 1 {
				if id, ok := vs.Values[0].(*ast.Ident); ok && id.Name == "iota" {
					iotaBlock = true
				}
			}
			for j, n := range vs.Names {
				if n.Name != name {
					continue
				}
				if j < len(vs.Values) {
					switch v := vs.Values[j].(type) {
					case *ast.BasicLit:
						if v.Kind == token.INT {
							if x, err := strconv.ParseInt(v.Value, 0, 64); err == nil {
								return fmt.Sprint(x), true
							}
						}
					case *ast.Ident:
						if v.Name == "iota" {
							return fmt.Sprint(i), true
						}
					}
					return "", false
				}
				if iotaBlock && len(vs.Values) == 0 {
					return fmt.Sprint(i), true
				}
			}
		}
	}
	return "", false
}

func (g *pGen) translate(sp pSpec) {
	fd := g.find(sp.file, sp.recv, sp.name)
	if fd == nil {
		g.broken(sp.lean, fmt.Sprintf("function %s not found in %s", sp.name, sp.file))
		return
	}
	t := &ptr{fset: g.fset, repo: g.repo, env: map[string]pVal{}, funcs: sp.funcs, draws: sp.draws, drawIdx: map[token.Pos]int{}, kind: sp.kind, rets: sp.rets, errOrd: map[token.Pos]int{}}
	for k, v := range g.enums {
		t.env[k] = pVal{v, ptInt}
	}
	for _, p := range sp.params {
		t.env[p.name] = pVal{p.name, p.ty}
	}
	for k, v := range sp.env {
		t.env[k] = v
	}
	body := fd.Body.List
	if sp.body != nil {
		body = sp.body(fd)
	}
	if sp.kind == "err" {
		n := 0
		ast.Inspect(fd.Body, func(nd ast.Node) bool {
			if r, ok := nd.(*ast.ReturnStmt); ok && len(r.Results) == 1 && !isNilIdent(r.Results[0]) {
				t.errOrd[r.Pos()] = n
				n++
			}
			return true
		})
	}
	var out string
	func() {
		defer func() {
			if r := recover(); r != nil {
				if u, ok := r.(unsupported); ok {
					g.broken(sp.lean, u.msg)
					out = ""
					return
				}
				panic(r)
			}
		}()
		if body == nil {
			panic(unsupported{"the expected statements were not found in " + sp.name})
		}
		term := t.st(body, "  ")
		if len(t.drawIdx) != len(sp.draws) {
			panic(unsupported{fmt.Sprintf("%d mrand.Intn call(s) found in %s, expected %d", len(t.drawIdx), sp.name, len(sp.draws))})
		}
		ps := []string{}
		for _, p := range sp.params {
			ps = append(ps, fmt.Sprintf("(%s : %s)", p.name, leanTy(p.ty)))
		}
		ret := "Option Nat"
		if sp.kind != "err" {
			rs := []string{}
			for _, r := range sp.rets {
				rs = append(rs, leanTy(r))
			}
			ret = strings.Join(rs, " × ")
		}
		out = fmt.Sprintf("\n/-- %s, %s%s -/\ndef %s %s : %s :=\n%s\n", t.pos(fd), funcName(fd), sp.doc, sp.lean, strings.Join(ps, " "), ret, term)
	}()
	g.sb.WriteString(out)
}

func (g *pGen) fact(doc, name, ty string, rows []string) {
	fmt.Fprintf(&g.sb, "\n/-- %s -/\ndef %s : %s := [", doc, name, ty)
	if len(rows) > 0 {
		g.sb.WriteString("\n  " + strings.Join(rows, ",\n  ") + "\n")
	}
	g.sb.WriteString("]\n")
}

func q(s string) string { return fmt.Sprintf("%q", s) }

func qList(l []string) string { return "[" + quoteList(l) + "]" }

func genPatternGen(repo string, cs []constKV) string {
	g := &pGen{fset: token.NewFileSet(), repo: repo, files: map[string]*ast.File{}, enums: map[string]string{}}
	g.sb.WriteString("import Mieru.Gen.Consts\nimport Mieru.Gen.Arith\n-- GENERATED by tools/goextract (pattern.go) from the repository's current working tree; do not edit\n")
	g.sb.WriteString("-- Go ints → Int; `/` `%` → Int.tdiv / Int.tmod; optional scalars (`*int32`) → Option Int with `x != nil` ↦ `x ≠ none`,\n")
	g.sb.WriteString("-- `*x` ↦ `x.getD 0`; message pointers → a Bool parameter \"is nil\"; `mrand.Intn(k)` ↦ `draw % k` for an explicit draw parameter;\n")
	g.sb.WriteString("-- error results → Option Nat (none = nil, some k = the k-th error return of the function in source order).\n")
	g.sb.WriteString("set_option linter.unusedVariables false\nnamespace Mieru.Gen.PatternGen\n")

	// enum numbers from the generated protobuf code
	const pb = "pkg/appctl/appctlpb/base.pb.go"
	if f := g.load(pb); f != nil {
		for _, d := range f.Decls {
			gd, ok := d.(*ast.GenDecl)
			if !ok || gd.Tok != token.CONST {
				continue
			}
			for _, sp := range gd.Specs {
				vs := sp.(*ast.ValueSpec)
				for j, n := range vs.Names {
					if j < len(vs.Values) && (strings.HasPrefix(n.Name, "LowEntropyMode_") || strings.HasPrefix(n.Name, "LowEntropyMaskRotation_") || strings.HasPrefix(n.Name, "NonceType_")) {
						if bl, ok := vs.Values[j].(*ast.BasicLit); ok && bl.Kind == token.INT {
							g.enums["appctlpb."+n.Name] = bl.Value
						}
					}
				}
			}
		}
	}
	if len(g.enums) == 0 {
		g.broken("enums", "no LowEntropyMode_/LowEntropyMaskRotation_/NonceType_ constants found in "+pb)
	}
	{
		rows := []string{}
		keys := []string{}
		for k := range g.enums {
			keys = append(keys, k)
		}
		sort.Strings(keys)
		for _, k := range keys {
			rows = append(rows, fmt.Sprintf("(%s, %s)", q(strings.TrimPrefix(k, "appctlpb.")), g.enums[k]))
		}
		g.fact("enum constants of "+pb+" the translated functions mention", "enumConsts", "List (String × Int)", rows)
	}

	// ---- (a) nonceRewriteLen
	g.translate(pSpec{file: "pkg/cipher/cipher.go", recv: "aeadBlockCipher", name: "nonceRewriteLen", lean: "nonceRewriteLen",
		params: []pParam{{"minLen0", ptInt}, {"maxLen0", ptInt}, {"nonceSize", ptInt}, {"draw", ptInt}},
		env: map[string]pVal{"c.noncePattern.GetMinLen()": {"minLen0", ptInt}, "c.noncePattern.GetMaxLen()": {"maxLen0", ptInt}, "c.NonceSize()": {"nonceSize", ptInt}},
		draws: []string{"draw"}, kind: "tuple", rets: []pTy{ptInt},
		doc: " (minLen0/maxLen0 = the pattern's getters, nonceSize = c.NonceSize(), draw = what mrand.Intn reduces)"})

	// ---- (d) newNonceTo: decision function
	g.genNewNonceTo()

	// ---- (b) maxPaddingSizeWithTrafficPattern
	mid, okM := g.constInt("pkg/protocol/padding.go", "middlePadding")
	end, okE := g.constInt("pkg/protocol/padding.go", "endPadding")
	if !okM || !okE {
		g.broken("maxPaddingSizeWithTrafficPattern", "cannot evaluate middlePadding / endPadding in pkg/protocol/padding.go")
	} else {
		fmt.Fprintf(&g.sb, "\ndef middlePadding : Int := %s\ndef endPadding : Int := %s\n", mid, end)
		g.translate(pSpec{file: "pkg/protocol/padding.go", name: "maxPaddingSizeWithTrafficPattern", lean: "maxPaddingSizeWithTrafficPattern",
			params: []pParam{{"mtu", ptInt}, {"transport", ptInt}, {"fragmentSize", ptInt}, {"existingPaddingSize", ptInt}, {"tpNil", ptNil}, {"padNil", ptNil}, {"maxMiddle", ptOpt}, {"maxEnd", ptOpt}, {"position", ptInt}},
			env: map[string]pVal{"trafficPattern": {"tpNil", ptNil}, "trafficPattern.Padding": {"padNil", ptNil},
				"trafficPattern.Padding.MaxMiddlePaddingLen": {"maxMiddle", ptOpt}, "trafficPattern.Padding.MaxEndPaddingLen": {"maxEnd", ptOpt},
				"middlePadding": {"middlePadding", ptInt}, "endPadding": {"endPadding", ptInt}},
			funcs: map[string]pFunc{"maxPaddingSize": {lean: "Mieru.Gen.Arith.maxPaddingSize", rets: []pTy{ptInt}}},
			kind:  "tuple", rets: []pTy{ptInt},
			doc:   " (tpNil/padNil: trafficPattern / trafficPattern.Padding is nil; maxMiddle/maxEnd: the optional fields)"})
	}

	// ---- (c) extractLowEntropyConfig, lowEntropySendConfig
	g.translate(pSpec{file: "pkg/protocol/low_entropy.go", name: "extractLowEntropyConfig", lean: "extractLowEntropyConfig",
		params: []pParam{{"patNil", ptNil}, {"leNil", ptNil}, {"mode0", ptInt}, {"rot0", ptInt}},
		env: map[string]pVal{"pattern": {"patNil", ptNil}, "pattern.LowEntropy": {"leNil", ptNil},
			"pattern.LowEntropy.GetMode()": {"mode0", ptInt}, "pattern.LowEntropy.GetMaskRotation()": {"rot0", ptInt}},
		kind: "tuple", rets: []pTy{ptInt, ptInt, ptBool},
		doc:  " (mode0/rot0 = GetMode()/GetMaskRotation(): 0 when unset)"})
	g.translate(pSpec{file: "pkg/protocol/session.go", recv: "Session", name: "lowEntropySendConfig", lean: "lowEntropySendConfig",
		params: []pParam{{"patNil", ptNil}, {"leNil", ptNil}, {"mode0", ptInt}, {"rot0", ptInt}, {"isClient", ptBool}, {"clientUsed", ptBool}},
		env:    map[string]pVal{"s.isClient": {"isClient", ptBool}, "s.clientUseLowEntropy.Load()": {"clientUsed", ptBool}},
		funcs: map[string]pFunc{"extractLowEntropyConfig": {lean: "extractLowEntropyConfig", goArgs: []string{"s.trafficPattern"}, leanArgs: "patNil leNil mode0 rot0", rets: []pTy{ptInt, ptInt, ptBool}}},
		kind:  "tuple", rets: []pTy{ptInt, ptInt, ptBool},
		doc:   " (clientUsed = s.clientUseLowEntropy.Load())"})
	g.genDataProtocol(cs)
	g.genLEFlagFacts()

	// ---- writeWithPossibleFragment
	g.genFragment()

	// ---- apis/trafficpattern: Validate
	g.genValidate()

	// ---- (e) rng.FixedInt call sites
	g.genFixedIntSites()

	// ---- pkg/common/ascii.go
	g.genAscii()

	g.sb.WriteString("\nend Mieru.Gen.PatternGen\n")
	return g.sb.String()
}

// callNames lists, in source order, the names of the calls inside a node.
func (g *pGen) callNames(n ast.Node) []string {
	var out []string
	ast.Inspect(n, func(x ast.Node) bool {
		if c, ok := x.(*ast.CallExpr); ok {
			switch f := c.Fun.(type) {
			case *ast.Ident:
				out = append(out, f.Name)
			case *ast.SelectorExpr:
				out = append(out, nodeString(g.fset, f))
			}
		}
		return true
	})
	return out
}

// genNewNonceTo emits the decision skeleton of aeadBlockCipher.newNonceTo:
//
//	preamble (statements before the nil test, as text) · the nil-pattern early return · the skip test ·
//	the type switch (per case: the calls made) · the flag assignment · return nil
//
// as `newNonceTo patNil enableImplicitNonce applied applyToAll ty : List String × Bool` = (calls made by the
// taken switch case — [] when the function returned before the switch —, noncePatternApplied afterwards).
func (g *pGen) genNewNonceTo() {
	const file = "pkg/cipher/cipher.go"
	fd := g.find(file, "aeadBlockCipher", "newNonceTo")
	if fd == nil {
		g.broken("newNonceTo", "function not found in "+file)
		return
	}
	t := &ptr{fset: g.fset, repo: g.repo, env: map[string]pVal{}, kind: "tuple"}
	for k, v := range g.enums {
		t.env[k] = pVal{v, ptInt}
	}
	t.env["c.noncePattern"] = pVal{"patNil", ptNil}
	t.env["c.enableImplicitNonce"] = pVal{"enableImplicitNonce", ptBool}
	t.env["c.noncePatternApplied"] = pVal{"applied", ptBool}
	t.env["c.noncePattern.GetApplyToAllUDPPacket()"] = pVal{"applyToAll", ptBool}
	t.env["c.noncePattern.GetType()"] = pVal{"ty", ptInt}
	defer func() {
		if r := recover(); r != nil {
			if u, ok := r.(unsupported); ok {
				g.broken("newNonceTo", u.msg)
				return
			}
			panic(r)
		}
	}()
	ss := fd.Body.List
	// preamble: everything before the first statement that mentions c.noncePattern
	i := 0
	var pre []string
	for ; i < len(ss); i++ {
		if strings.Contains(t.text(ss[i]), "c.noncePattern") {
			break
		}
		pre = append(pre, q(t.text(ss[i])))
	}
	var sb strings.Builder
	ind := "  "
	stage := 0 // 0: guards, 1: after switch, 2: after flag, 3: done
	for ; i < len(ss); i++ {
		switch x := ss[i].(type) {
		case *ast.IfStmt:
			if stage != 0 || x.Init != nil || x.Else != nil || len(x.Body.List) != 1 {
				t.fail(x, "unexpected if statement in newNonceTo")
			}
			r, ok := x.Body.List[0].(*ast.ReturnStmt)
			if !ok || len(r.Results) != 1 || !isNilIdent(r.Results[0]) {
				t.fail(x, "guard of newNonceTo does not `return nil`")
			}
			fmt.Fprintf(&sb, "%sif %s then\n%s  ([], applied)\n%selse\n", ind, t.prop(x.Cond), ind, ind)
		case *ast.SwitchStmt:
			if stage != 0 || x.Init != nil || x.Tag == nil {
				t.fail(x, "unexpected switch in newNonceTo")
			}
			tag := t.ex(x.Tag)
			fmt.Fprintf(&sb, "%slet calls : List String :=\n", ind)
			def := "[]"
			for _, c := range x.Body.List {
				cc := c.(*ast.CaseClause)
				var calls []string
				for _, b := range cc.Body {
					if containsReturn(b) {
						t.fail(b, "a case of the type switch returns")
					}
					calls = append(calls, g.callNames(b)...)
				}
				if cc.List == nil {
					def = qList(calls)
					continue
				}
				conds := []string{}
				for _, e := range cc.List {
					v := t.ex(e)
					conds = append(conds, fmt.Sprintf("(%s = %s)", tag.lean, v.lean))
				}
				fmt.Fprintf(&sb, "%s  if %s then %s else\n", ind, strings.Join(conds, " ∨ "), qList(calls))
			}
			fmt.Fprintf(&sb, "%s  %s\n", ind, def)
			stage = 1
		case *ast.AssignStmt:
			if stage != 1 || len(x.Lhs) != 1 || t.text(x.Lhs[0]) != "c.noncePatternApplied" {
				t.fail(x, "unexpected assignment in newNonceTo")
			}
			v := t.ex(x.Rhs[0])
			fmt.Fprintf(&sb, "%slet applied := %s\n", ind, v.lean)
			stage = 2
		case *ast.ReturnStmt:
			if stage < 1 || len(x.Results) != 1 || !isNilIdent(x.Results[0]) || i != len(ss)-1 {
				t.fail(x, "unexpected return in newNonceTo")
			}
			fmt.Fprintf(&sb, "%s(calls, applied)\n", ind)
			stage = 3
		default:
			t.fail(ss[i], "unexpected statement in newNonceTo: "+t.text(ss[i]))
		}
	}
	if stage != 3 {
		panic(unsupported{"newNonceTo does not end with the flag assignment and `return nil`"})
	}
	g.fact("statements of newNonceTo before the first use of c.noncePattern (length check, truncation, crand.Read)", "newNonceToPreamble", "List String", pre)
	fmt.Fprintf(&g.sb, "\n/-- %s, aeadBlockCipher.newNonceTo: (calls made by the taken case of the type switch, noncePatternApplied afterwards) -/\ndef newNonceTo (patNil : Bool) (enableImplicitNonce : Bool) (applied : Bool) (applyToAll : Bool) (ty : Int) : List String × Bool :=\n%s", t.pos(fd), sb.String())
}

func containsReturn(n ast.Node) bool {
	found := false
	ast.Inspect(n, func(x ast.Node) bool {
		if _, ok := x.(*ast.ReturnStmt); ok {
			found = true
		}
		return true
	})
	return found
}

// genDataProtocol: the protocol type Session.writeChunk gives its data segments: the statements
// `var protocol protocolType; if s.isClient {…} else {…}` of its fragment loop, as a function of
// (isClient, sendLowEntropy).
func (g *pGen) genDataProtocol(cs []constKV) {
	const file = "pkg/protocol/session.go"
	fd := g.find(file, "Session", "writeChunk")
	if fd == nil {
		g.broken("dataProtocolOf", "Session.writeChunk not found in "+file)
		return
	}
	var stmts []ast.Stmt
	ast.Inspect(fd.Body, func(n ast.Node) bool {
		b, ok := n.(*ast.BlockStmt)
		if !ok || stmts != nil {
			return true
		}
		for i, s := range b.List {
			if ds, ok := s.(*ast.DeclStmt); ok && nodeString(g.fset, ds) == "var protocol protocolType" && i+1 < len(b.List) {
				if is, ok := b.List[i+1].(*ast.IfStmt); ok {
					stmts = []ast.Stmt{ds, is, &ast.ReturnStmt{Return: is.End(), Results: []ast.Expr{ast.NewIdent("protocol")}}}
				}
			}
		}
		return true
	})
	env := map[string]pVal{"s.isClient": {"isClient", ptBool}, "sendLowEntropy": {"sendLowEntropy", ptBool}}
	have := map[string]bool{}
	for _, c := range cs {
		have[c.k] = true
	}
	for _, k := range []string{"dataClientToServer", "dataServerToClient", "dataClientToServerLowEntropy", "dataServerToClientLowEntropy"} {
		if !have[k] {
			g.broken("dataProtocolOf", "constant "+k+" was not dumped by the compiled repository")
			return
		}
		env[k] = pVal{"Mieru.Gen." + k, ptInt}
	}
	g.translate(pSpec{file: file, recv: "Session", name: "writeChunk", lean: "dataProtocolOf",
		params: []pParam{{"isClient", ptBool}, {"sendLowEntropy", ptBool}}, env: env, kind: "tuple", rets: []pTy{ptInt},
		body: func(*ast.FuncDecl) []ast.Stmt { return stmts },
		doc:  ": the protocol type of the data segments of one chunk (sendLowEntropy = the snapshot taken by lowEntropySendConfig at the top of writeChunk)"})
	// where the snapshot is taken: the statement of writeChunk that calls lowEntropySendConfig, and whether it precedes the loop
	rows := []string{}
	for i, s := range fd.Body.List {
		if strings.Contains(nodeString(g.fset, s), "lowEntropySendConfig") {
			rows = append(rows, fmt.Sprintf("(%d, %s)", i, q(nodeString(g.fset, s))))
		}
	}
	g.fact("(index among the top-level statements of writeChunk, statement) of every statement that calls lowEntropySendConfig", "lowEntropySnapshot", "List (Nat × String)", rows)
}

// genLEFlagFacts: every store to clientUseLowEntropy in pkg/protocol with its enclosing function and the
// condition of the enclosing if, and every read.
func (g *pGen) genLEFlagFacts() {
	var stores, loads []string
	for _, rel := range []string{"pkg/protocol/session.go", "pkg/protocol/underlay_base.go", "pkg/protocol/underlay_stream.go", "pkg/protocol/underlay_packet.go", "pkg/protocol/mux.go", "pkg/protocol/segment.go", "pkg/protocol/low_entropy.go"} {
		f := g.load(rel)
		if f == nil {
			continue
		}
		for _, d := range f.Decls {
			fd, ok := d.(*ast.FuncDecl)
			if !ok || fd.Body == nil {
				continue
			}
			var walk func(n ast.Node, guards []string)
			walk = func(n ast.Node, guards []string) {
				if n == nil {
					return
				}
				if is, ok := n.(*ast.IfStmt); ok {
					c := nodeString(g.fset, is.Cond)
					if is.Init != nil {
						walk(is.Init, guards)
					}
					walk(is.Cond, guards)
					walk(is.Body, append(append([]string{}, guards...), c))
					if is.Else != nil {
						walk(is.Else, append(append([]string{}, guards...), "!("+c+")"))
					}
					return
				}
				if ce, ok := n.(*ast.CallExpr); ok {
					if se, ok := ce.Fun.(*ast.SelectorExpr); ok && strings.HasSuffix(nodeString(g.fset, se.X), "clientUseLowEntropy") {
						inner := ""
						if len(guards) > 0 {
							inner = guards[len(guards)-1]
						}
						row := fmt.Sprintf("(%s, %s, %s)", q(funcName(fd)), q(nodeString(g.fset, ce)), q(inner))
						if se.Sel.Name == "Load" {
							loads = append(loads, row)
						} else {
							stores = append(stores, row)
						}
					}
				}
				// children
				children(n, func(c ast.Node) { walk(c, guards) })
			}
			walk(fd.Body, nil)
		}
	}
	g.fact("(function, call, innermost enclosing if-condition) of every write access to a `clientUseLowEntropy` field in pkg/protocol", "clientUseLowEntropyStores", "List (String × String × String)", stores)
	g.fact("(function, call, innermost enclosing if-condition) of every `clientUseLowEntropy.Load()` in pkg/protocol", "clientUseLowEntropyLoads", "List (String × String × String)", loads)
}

// children calls f on the direct children of n.
func children(n ast.Node, f func(ast.Node)) {
	first := true
	ast.Inspect(n, func(c ast.Node) bool {
		if c == nil {
			return false
		}
		if first {
			first = false
			return true
		}
		f(c)
		return false
	})
}

// genFragment: StreamUnderlay.writeWithPossibleFragment — the "not fragmented" guard as a Bool function, the
// fragment-length arithmetic of one loop iteration as an Int function, the loop/sleep conditions as facts.
func (g *pGen) genFragment() {
	const file = "pkg/protocol/underlay_stream.go"
	fd := g.find(file, "StreamUnderlay", "writeWithPossibleFragment")
	if fd == nil {
		g.broken("writeWithPossibleFragment", "function not found in "+file)
		return
	}
	ss := fd.Body.List
	var loop *ast.ForStmt
	if len(ss) == 4 {
		loop, _ = ss[2].(*ast.ForStmt)
	}
	first, _ := ss[0].(*ast.IfStmt)
	if loop == nil || first == nil || loop.Init != nil || loop.Post != nil || loop.Cond == nil {
		g.broken("writeWithPossibleFragment", "unexpected shape (want: if-disabled-write-once; remaining := data; for len(remaining) > 0 {…}; return nil)")
		return
	}
	// guard
	g.translate(pSpec{file: file, recv: "StreamUnderlay", name: "writeWithPossibleFragment", lean: "fragmentDisabled",
		params: []pParam{{"tpNil", ptNil}, {"fragNil", ptNil}, {"enable", ptBool}},
		env: map[string]pVal{"t.trafficPattern": {"tpNil", ptNil}, "t.trafficPattern.GetTcpFragment()": {"fragNil", ptNil},
			"t.trafficPattern.GetTcpFragment().GetEnable()": {"enable", ptBool}},
		kind: "tuple", rets: []pTy{ptBool},
		body: func(fd *ast.FuncDecl) []ast.Stmt {
			return []ast.Stmt{&ast.ReturnStmt{Return: first.Pos(), Results: []ast.Expr{first.Cond}}}
		},
		doc: ": the condition under which the data is written with ONE Write call"})
	// the arithmetic of one iteration: the statements of the loop body up to the clamp to len(remaining)
	var arith []ast.Stmt
	for _, s := range loop.Body.List {
		if is, ok := s.(*ast.IfStmt); ok && is.Init != nil {
			break // the Write call
		}
		arith = append(arith, s)
	}
	g.translate(pSpec{file: file, recv: "StreamUnderlay", name: "writeWithPossibleFragment", lean: "fragmentLen",
		params: []pParam{{"total", ptInt}, {"remaining", ptInt}, {"sqrtTotal", ptInt}, {"draw", ptInt}},
		env: map[string]pVal{"len(dataToSend)": {"total", ptInt}, "len(remaining)": {"remaining", ptInt},
			"int(math.Sqrt(float64(len(dataToSend))))": {"sqrtTotal", ptInt}},
		draws: []string{"draw"}, kind: "tuple", rets: []pTy{ptInt},
		body: func(fd *ast.FuncDecl) []ast.Stmt {
			return append(append([]ast.Stmt{}, arith...), &ast.ReturnStmt{Return: loop.Pos(), Results: []ast.Expr{ast.NewIdent("lenToSend")}})
		},
		doc: ": the length of the next piece (total = len(dataToSend), remaining = len(remaining), sqrtTotal = int(math.Sqrt(float64(total))))"})
	rest := []string{}
	for _, s := range loop.Body.List[len(arith):] {
		switch x := s.(type) {
		case *ast.IfStmt:
			if x.Init != nil {
				rest = append(rest, q("if "+nodeString(g.fset, x.Init)+"; "+nodeString(g.fset, x.Cond)))
			} else {
				rest = append(rest, q("if "+nodeString(g.fset, x.Cond)))
			}
		default:
			rest = append(rest, q(nodeString(g.fset, s)))
		}
	}
	g.fact("writeWithPossibleFragment: [statement before the loop, loop condition, the statements of the loop body after the length arithmetic (if-heads only), statement after the loop]",
		"fragmentLoopShape", "List String", append([]string{q(nodeString(g.fset, ss[1])), q(nodeString(g.fset, loop.Cond))}, append(rest, q(nodeString(g.fset, ss[3])))...))
	g.fact("the single-write branch of writeWithPossibleFragment: calls made", "fragmentDisabledCalls", "List String", func() []string {
		var r []string
		for _, c := range g.callNames(first.Body) {
			r = append(r, q(c))
		}
		return r
	}())
}

// genValidate: apis/trafficpattern/config.go
func (g *pGen) genValidate() {
	const file = "apis/trafficpattern/config.go"
	mp, ok := g.constInt(file, "maxPaddingLen")
	if !ok {
		g.broken("maxPaddingLen", "constant not found in "+file)
		mp = "0"
	}
	fmt.Fprintf(&g.sb, "\ndef maxPaddingLen : Int := %s\n", mp)
	// order of the checks in Validate
	if fd := g.find(file, "", "Validate"); fd == nil {
		g.broken("Validate", "function not found in "+file)
	} else {
		rows := []string{}
		for _, s := range fd.Body.List {
			switch x := s.(type) {
			case *ast.IfStmt:
				if x.Init != nil {
					as, ok := x.Init.(*ast.AssignStmt)
					if ok && len(as.Rhs) == 1 {
						if c, ok := as.Rhs[0].(*ast.CallExpr); ok && len(c.Args) == 1 {
							rows = append(rows, fmt.Sprintf("(%s, %s)", q(nodeString(g.fset, c.Fun)), q(nodeString(g.fset, c.Args[0]))))
							continue
						}
					}
				}
				rows = append(rows, fmt.Sprintf("(%s, %s)", q("if "+nodeString(g.fset, x.Cond)), q(nodeString(g.fset, x.Body))))
			default:
				rows = append(rows, fmt.Sprintf("(%s, %s)", q(nodeString(g.fset, s)), q("")))
			}
		}
		g.fact("Validate: (callee, argument) of each `if err := f(x); err != nil { return err }` in order; other statements as (text, body)", "validateOrder", "List (String × String)", rows)
	}
	g.translate(pSpec{file: file, name: "validateTCPFragment", lean: "validateTCPFragment",
		params: []pParam{{"fragNil", ptNil}, {"maxSleepMs", ptOpt}},
		env:    map[string]pVal{"fragment": {"fragNil", ptNil}, "fragment.MaxSleepMs": {"maxSleepMs", ptOpt}, "fragment.GetMaxSleepMs()": {"(maxSleepMs.getD 0)", ptInt}},
		kind:   "err"})
	g.translate(pSpec{file: file, name: "validatePaddingPattern", lean: "validatePaddingPattern",
		params: []pParam{{"padNil", ptNil}, {"maxMiddle", ptOpt}, {"maxEnd", ptOpt}},
		env: map[string]pVal{"padding": {"padNil", ptNil}, "padding.MaxMiddlePaddingLen": {"maxMiddle", ptOpt}, "padding.MaxEndPaddingLen": {"maxEnd", ptOpt},
			"padding.GetMaxMiddlePaddingLen()": {"(maxMiddle.getD 0)", ptInt}, "padding.GetMaxEndPaddingLen()": {"(maxEnd.getD 0)", ptInt}, "maxPaddingLen": {"maxPaddingLen", ptInt}},
		kind: "err"})
	// validateNoncePattern: the statements before the loop over the hex strings
	var tail []string
	g.translate(pSpec{file: file, name: "validateNoncePattern", lean: "validateNoncePatternInts",
		params: []pParam{{"nonceNil", ptNil}, {"minLen", ptOpt}, {"maxLen", ptOpt}},
		env: map[string]pVal{"nonce": {"nonceNil", ptNil}, "nonce.MinLen": {"minLen", ptOpt}, "nonce.MaxLen": {"maxLen", ptOpt},
			"nonce.GetMinLen()": {"(minLen.getD 0)", ptInt}, "nonce.GetMaxLen()": {"(maxLen.getD 0)", ptInt}},
		kind: "err",
		body: func(fd *ast.FuncDecl) []ast.Stmt {
			var out []ast.Stmt
			for i, s := range fd.Body.List {
				if rs, ok := s.(*ast.RangeStmt); ok {
					tail = append(tail, q("for "+nodeString(g.fset, rs.Key)+", "+nodeString(g.fset, rs.Value)+" := range "+nodeString(g.fset, rs.X)))
					for _, b := range rs.Body.List {
						switch y := b.(type) {
						case *ast.IfStmt:
							tail = append(tail, q("if "+nodeString(g.fset, y.Cond)))
						default:
							tail = append(tail, q(nodeString(g.fset, b)))
						}
					}
					for _, r := range fd.Body.List[i+1:] {
						tail = append(tail, q(nodeString(g.fset, r)))
					}
					// the integer part ends here without an error
					return append(out, &ast.ReturnStmt{Return: rs.Pos(), Results: []ast.Expr{ast.NewIdent("nil")}})
				}
				out = append(out, s)
			}
			return nil
		},
		doc: ": the checks before the loop over customHexStrings (none = no integer error; the loop follows)"})
	g.fact("validateNoncePattern: the loop over the custom hex strings and what follows it (heads only)", "validateNonceTail", "List String", tail)
	// validateLowEntropyPattern: map-membership tests, as text
	if fd := g.find(file, "", "validateLowEntropyPattern"); fd == nil {
		g.broken("validateLowEntropyPattern", "function not found in "+file)
	} else {
		rows := []string{}
		var walk func(ss []ast.Stmt, depth int)
		walk = func(ss []ast.Stmt, depth int) {
			for _, s := range ss {
				switch x := s.(type) {
				case *ast.IfStmt:
					h := "if "
					if x.Init != nil {
						h += nodeString(g.fset, x.Init) + "; "
					}
					rows = append(rows, q(strings.Repeat("  ", depth)+h+nodeString(g.fset, x.Cond)))
					walk(x.Body.List, depth+1)
				case *ast.ReturnStmt:
					if len(x.Results) == 1 && isNilIdent(x.Results[0]) {
						rows = append(rows, q(strings.Repeat("  ", depth)+"return nil"))
					} else {
						rows = append(rows, q(strings.Repeat("  ", depth)+"return error"))
					}
				default:
					rows = append(rows, q(strings.Repeat("  ", depth)+nodeString(g.fset, s)))
				}
			}
		}
		walk(fd.Body.List, 0)
		g.fact("validateLowEntropyPattern: skeleton (if-heads, returns)", "validateLowEntropyShape", "List String", rows)
	}
}

// genFixedIntSites: every rng.FixedInt(<range>, fmt.Sprintf("<fmt>", seed)) call in config.go with the
// enclosing function, the chain of enclosing if-conditions (else branches as "!(cond)"), the range
// expression (a local defined by `x := e` in the same block is resolved to e), the hint format, the
// statement the call occurs in.
func (g *pGen) genFixedIntSites() {
	const file = "apis/trafficpattern/config.go"
	f := g.load(file)
	if f == nil {
		g.broken("fixedIntSites", "cannot parse "+file)
		return
	}
	rows := []string{}
	other := []string{}
	for _, d := range f.Decls {
		fd, ok := d.(*ast.FuncDecl)
		if !ok || fd.Body == nil {
			continue
		}
		var walk func(ss []ast.Stmt, guards []string, defs map[string]string)
		walk = func(ss []ast.Stmt, guards []string, defs map[string]string) {
			defs2 := map[string]string{}
			for k, v := range defs {
				defs2[k] = v
			}
			for _, s := range ss {
				switch x := s.(type) {
				case *ast.IfStmt:
					c := nodeString(g.fset, x.Cond)
					walk(x.Body.List, append(append([]string{}, guards...), c), defs2)
					switch e := x.Else.(type) {
					case *ast.BlockStmt:
						walk(e.List, append(append([]string{}, guards...), "!("+c+")"), defs2)
					case *ast.IfStmt:
						walk([]ast.Stmt{e}, append(append([]string{}, guards...), "!("+c+")"), defs2)
					}
					continue
				case *ast.AssignStmt:
					if x.Tok == token.DEFINE && len(x.Lhs) == 1 && len(x.Rhs) == 1 {
						if id, ok := x.Lhs[0].(*ast.Ident); ok {
							defs2[id.Name] = nodeString(g.fset, x.Rhs[0])
						}
					}
				}
				ast.Inspect(s, func(n ast.Node) bool {
					ce, ok := n.(*ast.CallExpr)
					if !ok {
						return true
					}
					name := nodeString(g.fset, ce.Fun)
					if !strings.HasPrefix(name, "rng.") {
						return true
					}
					if name != "rng.FixedInt" || len(ce.Args) != 2 {
						other = append(other, fmt.Sprintf("(%s, %s)", q(funcName(fd)), q(nodeString(g.fset, ce))))
						return true
					}
					rangeText := nodeString(g.fset, ce.Args[0])
					if id, ok := ce.Args[0].(*ast.Ident); ok {
						if v, ok := defs2[id.Name]; ok {
							rangeText = v
						}
					}
					hint := nodeString(g.fset, ce.Args[1])
					if hc, ok := ce.Args[1].(*ast.CallExpr); ok && nodeString(g.fset, hc.Fun) == "fmt.Sprintf" && len(hc.Args) == 2 && nodeString(g.fset, hc.Args[1]) == "seed" {
						if bl, ok := hc.Args[0].(*ast.BasicLit); ok && bl.Kind == token.STRING {
							if u, err := strconv.Unquote(bl.Value); err == nil {
								hint = u
							}
						}
					}
					rows = append(rows, fmt.Sprintf("(%s, %s, %s, %s, %s)", q(funcName(fd)), qList(guards), q(rangeText), q(hint), q(nodeString(g.fset, s))))
					return true
				})
			}
		}
		walk(fd.Body.List, nil, map[string]string{})
	}
	g.fact("(function, enclosing if-conditions outermost first, range expression, hint format, statement) of every rng.FixedInt call in "+file,
		"fixedIntSites", "List (String × List String × String × String × String)", rows)
	g.fact("every other call into package rng in "+file, "otherRngCalls", "List (String × String)", other)
	// the full skeleton of every generate* function: if-heads (indented by depth) and the other statements as text
	{
		rows := []string{}
		for _, d := range f.Decls {
			fd, ok := d.(*ast.FuncDecl)
			if !ok || fd.Body == nil || !strings.HasPrefix(fd.Name.Name, "generate") || fd.Name.Name == "generateImplicitTrafficPattern" {
				continue
			}
			lines := []string{}
			var walk func(ss []ast.Stmt, depth int)
			walk = func(ss []ast.Stmt, depth int) {
				pad := strings.Repeat("  ", depth)
				for _, s := range ss {
					switch x := s.(type) {
					case *ast.IfStmt:
						lines = append(lines, q(pad+"if "+nodeString(g.fset, x.Cond)))
						walk(x.Body.List, depth+1)
						switch e := x.Else.(type) {
						case *ast.BlockStmt:
							lines = append(lines, q(pad+"else"))
							walk(e.List, depth+1)
						case *ast.IfStmt:
							lines = append(lines, q(pad+"else"))
							walk([]ast.Stmt{e}, depth+1)
						}
					default:
						lines = append(lines, q(pad+nodeString(g.fset, s)))
					}
				}
			}
			walk(fd.Body.List, 0)
			rows = append(rows, fmt.Sprintf("(%s, [\n    %s])", q(funcName(fd)), strings.Join(lines, ",\n    ")))
		}
		g.fact("(function, skeleton: if-heads and `else` indented by depth, every other statement as text) of every generate* function of "+file,
			"generatorShape", "List (String × List String)", rows)
	}
	// how the seed and unlockAll are obtained
	if fd := g.find(file, "Config", "generateImplicitTrafficPattern"); fd == nil {
		g.broken("generateImplicitTrafficPattern", "function not found in "+file)
	} else {
		rows := []string{}
		for _, s := range fd.Body.List {
			if is, ok := s.(*ast.IfStmt); ok {
				rows = append(rows, q("if "+nodeString(g.fset, is.Cond)+" "+nodeString(g.fset, is.Body)))
			} else {
				rows = append(rows, q(nodeString(g.fset, s)))
			}
		}
		g.fact("statements of generateImplicitTrafficPattern", "generateImplicitShape", "List String", rows)
	}
}

// genAscii: the constants of pkg/common/ascii.go the nonce classes are made of
func (g *pGen) genAscii() {
	const file = "pkg/common/ascii.go"
	f := g.load(file)
	if f == nil {
		g.broken("ascii", "cannot parse "+file)
		return
	}
	sub, ok1 := g.constInt(file, "PrintableCharSub")
	sup, ok2 := g.constInt(file, "PrintableCharSup")
	set := ""
	for _, d := range f.Decls {
		gd, ok := d.(*ast.GenDecl)
		if !ok || gd.Tok != token.CONST {
			continue
		}
		for _, sp := range gd.Specs {
			vs := sp.(*ast.ValueSpec)
			for j, n := range vs.Names {
				if n.Name == "Common64Set" && j < len(vs.Values) {
					if bl, ok := vs.Values[j].(*ast.BasicLit); ok && bl.Kind == token.STRING {
						set, _ = strconv.Unquote(bl.Value)
					}
				}
			}
		}
	}
	if !ok1 || !ok2 || set == "" {
		g.broken("ascii", "PrintableCharSub / PrintableCharSup / Common64Set not found as literals in "+file)
		return
	}
	bs := []string{}
	for _, b := range []byte(set) {
		bs = append(bs, fmt.Sprint(b))
	}
	fmt.Fprintf(&g.sb, "\ndef printableCharSub : Nat := %s\ndef printableCharSup : Nat := %s\n/-- the bytes of common.Common64Set -/\ndef common64Set : List Nat := [%s]\n", sub, sup, strings.Join(bs, ", "))
	// ToCommon64Set's loop body and ToPrintableChar's first loop, as text
	for _, name := range []string{"ToCommon64Set", "ToPrintableChar"} {
		fd := g.find(file, "", name)
		if fd == nil {
			g.broken(name, "function not found in "+file)
			continue
		}
		rows := []string{}
		for _, s := range fd.Body.List {
			if fs, ok := s.(*ast.ForStmt); ok && fs.Init != nil && fs.Cond != nil && fs.Post != nil {
				rows = append(rows, q("for "+nodeString(g.fset, fs.Init)+"; "+nodeString(g.fset, fs.Cond)+"; "+nodeString(g.fset, fs.Post)+" "+nodeString(g.fset, fs.Body)))
				break
			}
		}
		g.fact(name+": its first counted loop, as text", "loopOf"+name, "List String", rows)
	}
}
