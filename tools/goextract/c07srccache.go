package main

// C07, tie (T) for pkg/protocol/serveruser/source_user_cache.go → lean/Mieru/Gen/SrcCache.lean.
//
// Translated statement by statement (Props/C07.lean proves the hand-written model equal to them):
//
//	sourceUserCacheAge, sourceUserCacheExpired            uint32 arithmetic, wrapping subtraction
//	sourceUserCachePackUser, sourceUserCacheUnpackUser    the (user id, tick) slot word
//	selectSourceUserCacheWay                              the three loops, UNROLLED over sourceUserCacheWays
//
// Encoding: a uint32 value is a Nat reduced mod 2^32 wherever it enters a function (parameters, loads
// from an entry); uint32 `-` is (a + 2^32 - b) % 2^32; a `*sourceUserCacheEntry` is `Option Nat` (nil,
// or an entry with that lastActive); `[N]T` locals are N Lean variables; a struct result is the tuple
// of its `way` and `expired` fields. Loops with constant bounds are unrolled at generation time, so a
// change of the constant changes the definition. An `if` without `else` duplicates the rest of the
// function into both branches.
//
// Not translatable here (16-way loops over atomics with CAS): lookup, recordUser,
// recordAuthenticatedInTable. For them STRUCTURAL FACTS are extracted instead: the conditions and the
// order of the cases the model mirrors, as normalised source text, pinned by `decide` in Props/C07.lean.
//
// Anything in the whitelisted functions that this file does not understand makes it emit
// `-- BROKEN-TIE <function>: <why>` (reported by bin/check as a broken tie), never a silent skip.

import (
	"fmt"
	"go/ast"
	"go/parser"
	"go/token"
	"path/filepath"
	"strconv"
	"strings"
)

func init() { register("SrcCache.lean", genSrcCache) }

const c07File = "pkg/protocol/serveruser/source_user_cache.go"

type c07tr struct {
	fset   *token.FileSet
	consts map[string]int
	// per function
	types  map[string]string // local name → "u32" | "u64" | "int" | "bool" | "ptr"
	subst  map[string]string // compile-time bindings of unrolled loop variables: name → Lean term
	arrays map[string]int    // local array name → length
	ways   string            // name of the [N]*entry parameter
}

type c07fail struct{ msg string }

func (t *c07tr) fail(n ast.Node, msg string) {
	panic(c07fail{fmt.Sprintf("%s:%d: %s", c07File, t.fset.Position(n.Pos()).Line, msg)})
}

const c07Mod = "4294967296"

// constInt evaluates an expression that must be a compile-time integer (literal, dumped constant,
// unrolled loop variable)
func (t *c07tr) constInt(e ast.Expr) (int, bool) {
	switch x := e.(type) {
	case *ast.BasicLit:
		if v, err := strconv.Atoi(x.Value); err == nil {
			return v, true
		}
	case *ast.Ident:
		if s, ok := t.subst[x.Name]; ok {
			if v, err := strconv.Atoi(s); err == nil {
				return v, true
			}
		}
		if v, ok := t.consts[x.Name]; ok {
			return v, true
		}
	case *ast.ParenExpr:
		return t.constInt(x.X)
	}
	return 0, false
}

// typeOf is a small type inference over the whitelisted subset
func (t *c07tr) typeOf(e ast.Expr) string {
	switch x := e.(type) {
	case *ast.BasicLit:
		return "lit"
	case *ast.ParenExpr:
		return t.typeOf(x.X)
	case *ast.Ident:
		if _, ok := t.subst[x.Name]; ok {
			return "int"
		}
		if ty, ok := t.types[x.Name]; ok {
			return ty
		}
		if _, ok := t.consts[x.Name]; ok {
			return "lit"
		}
	case *ast.IndexExpr:
		if id, ok := x.X.(*ast.Ident); ok {
			if id.Name == t.ways {
				return "ptr"
			}
			if _, ok := t.arrays[id.Name]; ok {
				return "u32"
			}
		}
	case *ast.CallExpr:
		switch c07CallName(x) {
		case "sourceUserCacheAge", "uint32":
			return "u32"
		case "uint64":
			return "u64"
		case "sourceUserCacheExpired":
			return "bool"
		case ".lastActive.Load":
			return "u32"
		}
	case *ast.BinaryExpr:
		switch x.Op {
		case token.SUB, token.ADD, token.SHL, token.SHR, token.OR:
			a, b := t.typeOf(x.X), t.typeOf(x.Y)
			if a == "lit" {
				return b
			}
			return a
		default:
			return "bool"
		}
	}
	t.fail(e, "cannot type "+nodeString(t.fset, e))
	return ""
}

func c07CallName(c *ast.CallExpr) string {
	switch f := c.Fun.(type) {
	case *ast.Ident:
		return f.Name
	case *ast.SelectorExpr:
		// entry.lastActive.Load
		if inner, ok := f.X.(*ast.SelectorExpr); ok {
			return "." + inner.Sel.Name + "." + f.Sel.Name
		}
	}
	return "?"
}

func (t *c07tr) expr(e ast.Expr) string {
	switch x := e.(type) {
	case *ast.BasicLit:
		if x.Kind == token.INT {
			return x.Value
		}
	case *ast.ParenExpr:
		return "(" + t.expr(x.X) + ")"
	case *ast.Ident:
		if s, ok := t.subst[x.Name]; ok {
			return s
		}
		if _, ok := t.types[x.Name]; ok {
			return c07Name(x.Name)
		}
		if v, ok := t.consts[x.Name]; ok {
			return fmt.Sprintf("%d", v)
		}
		if x.Name == "true" || x.Name == "false" {
			return x.Name
		}
	case *ast.IndexExpr:
		id, ok := x.X.(*ast.Ident)
		i, okc := t.constInt(x.Index)
		if ok && okc {
			if id.Name == t.ways {
				return fmt.Sprintf("(%s.getD %d none)", c07Name(id.Name), i)
			}
			if n, ok := t.arrays[id.Name]; ok && i >= 0 && i < n {
				return fmt.Sprintf("%s_%d", id.Name, i)
			}
		}
		if ok && id.Name == t.ways {
			// index by a run-time variable (`ways[oldest]`): only used for the `entry` result field
			return fmt.Sprintf("(%s.getD %s none)", c07Name(id.Name), t.expr(x.Index))
		}
	case *ast.CallExpr:
		switch c07CallName(x) {
		case "sourceUserCacheAge":
			return fmt.Sprintf("(sourceUserCacheAge %s %s)", t.expr(x.Args[0]), t.expr(x.Args[1]))
		case "sourceUserCacheExpired":
			return fmt.Sprintf("(sourceUserCacheExpired %s %s)", t.expr(x.Args[0]), t.expr(x.Args[1]))
		case "uint64":
			if ty := t.typeOf(x.Args[0]); ty == "u32" {
				return t.expr(x.Args[0]) // widening: exact
			}
		case "uint32":
			if ty := t.typeOf(x.Args[0]); ty == "u64" || ty == "u32" {
				return fmt.Sprintf("(%s %% %s)", t.expr(x.Args[0]), c07Mod) // truncation
			}
		case ".lastActive.Load":
			// a load of a uint32 from the entry the pointer refers to (nil dereference totalised as 0;
			// unreachable: every use follows the loop that returns on a nil way)
			recv := x.Fun.(*ast.SelectorExpr).X.(*ast.SelectorExpr).X
			return fmt.Sprintf("((%s).getD 0 %% %s)", t.expr(recv), c07Mod)
		}
	case *ast.BinaryExpr:
		ty := t.typeOf(x)
		a, b := t.expr(x.X), t.expr(x.Y)
		switch x.Op {
		case token.SUB:
			if ty == "u32" {
				return fmt.Sprintf("((%s + %s - %s) %% %s)", a, c07Mod, b, c07Mod)
			}
		case token.ADD:
			if ty == "u32" {
				return fmt.Sprintf("((%s + %s) %% %s)", a, b, c07Mod)
			}
		case token.SHL:
			if n, ok := t.constInt(x.Y); ok && ty == "u64" && n == 32 && t.typeOf(x.X) == "u64" {
				// the operand is a widened uint32 (< 2^32), so the 64-bit shift loses nothing
				if ce, ok := x.X.(*ast.CallExpr); ok && c07CallName(ce) == "uint64" && t.typeOf(ce.Args[0]) == "u32" {
					return fmt.Sprintf("(%s <<< 32)", a)
				}
			}
		case token.SHR:
			if n, ok := t.constInt(x.Y); ok && ty == "u64" {
				return fmt.Sprintf("(%s >>> %d)", a, n)
			}
		case token.OR:
			if ty == "u64" {
				return fmt.Sprintf("(%s ||| %s)", a, b)
			}
		}
	}
	t.fail(e, "unsupported expression "+nodeString(t.fset, e))
	return ""
}

// prop translates a condition to a decidable Prop
func (t *c07tr) prop(e ast.Expr) string {
	switch x := e.(type) {
	case *ast.ParenExpr:
		return t.prop(x.X)
	case *ast.UnaryExpr:
		if x.Op == token.NOT {
			return "(¬ " + t.prop(x.X) + ")"
		}
	case *ast.CallExpr:
		if c07CallName(x) == "sourceUserCacheExpired" {
			return "(" + t.expr(x) + " = true)"
		}
	case *ast.BinaryExpr:
		switch x.Op {
		case token.LAND:
			return "(" + t.prop(x.X) + " ∧ " + t.prop(x.Y) + ")"
		case token.LOR:
			return "(" + t.prop(x.X) + " ∨ " + t.prop(x.Y) + ")"
		case token.EQL, token.NEQ:
			op := map[token.Token]string{token.EQL: "=", token.NEQ: "≠"}[x.Op]
			if id, ok := x.Y.(*ast.Ident); ok && id.Name == "nil" {
				return fmt.Sprintf("(%s %s none)", t.expr(x.X), op)
			}
			return fmt.Sprintf("(%s %s %s)", t.expr(x.X), op, t.expr(x.Y))
		case token.LSS, token.GTR, token.LEQ, token.GEQ:
			op := map[token.Token]string{token.LSS: "<", token.GTR: ">", token.LEQ: "≤", token.GEQ: "≥"}[x.Op]
			return fmt.Sprintf("(%s %s %s)", t.expr(x.X), op, t.expr(x.Y))
		}
	}
	t.fail(e, "unsupported condition "+nodeString(t.fset, e))
	return ""
}

func c07Name(s string) string {
	if s == "then" {
		return "then_"
	}
	return s
}

// result translates the struct literal of a return into (way, expired)
func (t *c07tr) result(r *ast.ReturnStmt) string {
	if len(r.Results) != 1 {
		t.fail(r, "return arity")
	}
	cl, ok := r.Results[0].(*ast.CompositeLit)
	if !ok {
		t.fail(r, "result is not a struct literal")
	}
	way, expired := "", "false"
	for _, el := range cl.Elts {
		kv, ok := el.(*ast.KeyValueExpr)
		if !ok {
			t.fail(r, "positional struct literal")
		}
		switch kv.Key.(*ast.Ident).Name {
		case "way":
			way = t.expr(kv.Value)
		case "expired":
			expired = t.expr(kv.Value)
		case "entry":
			_ = t.expr(kv.Value) // must be translatable; the field is determined by `way`
		default:
			t.fail(r, "unknown result field "+kv.Key.(*ast.Ident).Name)
		}
	}
	if way == "" {
		t.fail(r, "result without way")
	}
	return fmt.Sprintf("(%s, %s)", way, expired)
}

// stmts translates a statement list followed by the continuation k (nil = must end in a return)
func (t *c07tr) stmts(ss []ast.Stmt, ind string, k func(ind string) string) string {
	if len(ss) == 0 {
		if k == nil {
			panic(c07fail{"fell off the end of the function"})
		}
		return k(ind)
	}
	s, rest := ss[0], ss[1:]
	next := func(ind string) string { return t.stmts(rest, ind, k) }
	switch x := s.(type) {
	case *ast.ReturnStmt:
		return ind + t.result(x)
	case *ast.DeclStmt:
		gd, ok := x.Decl.(*ast.GenDecl)
		if !ok || gd.Tok != token.VAR || len(gd.Specs) != 1 {
			t.fail(s, "declaration")
		}
		vs := gd.Specs[0].(*ast.ValueSpec)
		at, ok := vs.Type.(*ast.ArrayType)
		if !ok || len(vs.Names) != 1 || len(vs.Values) != 0 {
			t.fail(s, "var declaration")
		}
		n, okn := t.constInt(at.Len)
		if el, ok := at.Elt.(*ast.Ident); !ok || el.Name != "uint32" || !okn {
			t.fail(s, "array declaration")
		}
		t.arrays[vs.Names[0].Name] = n
		out := ""
		for i := 0; i < n; i++ {
			out += fmt.Sprintf("%slet %s_%d : Nat := 0\n", ind, vs.Names[0].Name, i)
		}
		return out + next(ind)
	case *ast.AssignStmt:
		if len(x.Lhs) != 1 || len(x.Rhs) != 1 {
			t.fail(s, "assignment arity")
		}
		switch l := x.Lhs[0].(type) {
		case *ast.Ident:
			ty := t.typeOf(x.Rhs[0])
			if ty == "lit" {
				ty = "int"
			}
			if x.Tok == token.DEFINE {
				t.types[l.Name] = ty
			} else if _, ok := t.types[l.Name]; !ok {
				t.fail(s, "assignment to unknown "+l.Name)
			}
			return fmt.Sprintf("%slet %s : Nat := %s\n%s", ind, c07Name(l.Name), t.expr(x.Rhs[0]), next(ind))
		case *ast.IndexExpr:
			id, ok := l.X.(*ast.Ident)
			i, okc := t.constInt(l.Index)
			if !ok || !okc || x.Tok != token.ASSIGN {
				t.fail(s, "indexed assignment")
			}
			if n, ok := t.arrays[id.Name]; !ok || i < 0 || i >= n {
				t.fail(s, "indexed assignment out of the array")
			}
			return fmt.Sprintf("%slet %s_%d : Nat := %s\n%s", ind, id.Name, i, t.expr(x.Rhs[0]), next(ind))
		}
		t.fail(s, "assignment target")
	case *ast.IfStmt:
		if x.Init != nil || x.Else != nil {
			t.fail(s, "if with init / else")
		}
		cond := t.prop(x.Cond)
		saved := t.snapshot()
		thenT := t.stmts(x.Body.List, ind+"  ", next)
		t.restore(saved)
		elseT := next(ind + "  ")
		return fmt.Sprintf("%sif %s then\n%s\n%selse\n%s", ind, cond, thenT, ind, elseT)
	case *ast.RangeStmt:
		// for way, entry := range ways { … }: unrolled over the array parameter
		arr, ok := x.X.(*ast.Ident)
		if !ok || arr.Name != t.ways || x.Tok != token.DEFINE {
			t.fail(s, "range over something else than the ways parameter")
		}
		n := t.consts["sourceUserCacheWays"]
		kn, vn := "", ""
		if id, ok := x.Key.(*ast.Ident); ok {
			kn = id.Name
		}
		if x.Value != nil {
			if id, ok := x.Value.(*ast.Ident); ok {
				vn = id.Name
			}
		}
		var unroll func(i int, ind string) string
		unroll = func(i int, ind string) string {
			if i == n {
				delete(t.subst, kn)
				delete(t.subst, vn)
				return next(ind)
			}
			if kn != "" && kn != "_" {
				t.subst[kn] = strconv.Itoa(i)
			}
			if vn != "" && vn != "_" {
				t.subst[vn] = fmt.Sprintf("(%s.getD %d none)", c07Name(arr.Name), i)
			}
			return t.stmts(x.Body.List, ind, func(ind string) string { return unroll(i+1, ind) })
		}
		return unroll(0, ind)
	case *ast.ForStmt:
		// for way := A; way < N; way++ { … }: unrolled
		init, ok1 := x.Init.(*ast.AssignStmt)
		cond, ok2 := x.Cond.(*ast.BinaryExpr)
		post, ok3 := x.Post.(*ast.IncDecStmt)
		if !ok1 || !ok2 || !ok3 || init.Tok != token.DEFINE || len(init.Lhs) != 1 || cond.Op != token.LSS || post.Tok != token.INC {
			t.fail(s, "for loop shape")
		}
		v := init.Lhs[0].(*ast.Ident).Name
		from, okf := t.constInt(init.Rhs[0])
		to, okt := t.constInt(cond.Y)
		if cv, ok := cond.X.(*ast.Ident); !ok || cv.Name != v || !okf || !okt {
			t.fail(s, "for loop bounds")
		}
		if pv, ok := post.X.(*ast.Ident); !ok || pv.Name != v {
			t.fail(s, "for loop post statement")
		}
		var unroll func(i int, ind string) string
		unroll = func(i int, ind string) string {
			if i >= to {
				delete(t.subst, v)
				return next(ind)
			}
			t.subst[v] = strconv.Itoa(i)
			return t.stmts(x.Body.List, ind, func(ind string) string { return unroll(i+1, ind) })
		}
		return unroll(from, ind)
	}
	t.fail(s, fmt.Sprintf("unsupported statement %T", s))
	return ""
}

type c07snap struct {
	types, subst map[string]string
	arrays       map[string]int
}

func (t *c07tr) snapshot() c07snap {
	s := c07snap{map[string]string{}, map[string]string{}, map[string]int{}}
	for k, v := range t.types {
		s.types[k] = v
	}
	for k, v := range t.subst {
		s.subst[k] = v
	}
	for k, v := range t.arrays {
		s.arrays[k] = v
	}
	return s
}

func (t *c07tr) restore(s c07snap) { t.types, t.subst, t.arrays = s.types, s.subst, s.arrays }

// fn translates one function; sig = Lean binder list and result type
func (t *c07tr) fn(fd *ast.FuncDecl, kind string) (out string) {
	defer func() {
		if p := recover(); p != nil {
			if f, ok := p.(c07fail); ok {
				out = fmt.Sprintf("-- BROKEN-TIE %s: %s\n", fd.Name.Name, f.msg)
				return
			}
			panic(p)
		}
	}()
	t.types, t.subst, t.arrays, t.ways = map[string]string{}, map[string]string{}, map[string]int{}, ""
	var binders []string
	var norm string
	for _, p := range fd.Type.Params.List {
		for _, n := range p.Names {
			switch pt := p.Type.(type) {
			case *ast.Ident:
				switch pt.Name {
				case "uint32":
					t.types[n.Name] = "u32"
					norm += fmt.Sprintf("  let %s := %s %% %s\n", c07Name(n.Name), c07Name(n.Name), c07Mod)
				case "uint64":
					t.types[n.Name] = "u64"
				default:
					t.fail(p, "parameter type "+pt.Name)
				}
				binders = append(binders, fmt.Sprintf("(%s : Nat)", c07Name(n.Name)))
			case *ast.ArrayType:
				if ln, ok := pt.Len.(*ast.Ident); !ok || ln.Name != "sourceUserCacheWays" {
					t.fail(p, "array parameter length")
				}
				if st, ok := pt.Elt.(*ast.StarExpr); !ok || nodeString(t.fset, st.X) != "sourceUserCacheEntry" {
					t.fail(p, "array parameter element type")
				}
				t.ways = n.Name
				t.types[n.Name] = "ways"
				binders = append(binders, fmt.Sprintf("(%s : List (Option Nat))", n.Name))
			default:
				t.fail(p, "parameter type")
			}
		}
	}
	b := strings.Join(binders, " ")
	src := fmt.Sprintf("/-- %s:%d `%s` -/\n", c07File, t.fset.Position(fd.Pos()).Line, fd.Name.Name)
	switch kind {
	case "u32", "bool", "u64":
		if len(fd.Body.List) != 1 {
			t.fail(fd, "body is not a single return")
		}
		r, ok := fd.Body.List[0].(*ast.ReturnStmt)
		if !ok || len(r.Results) != 1 {
			t.fail(fd, "body is not a single return")
		}
		switch kind {
		case "bool":
			return src + fmt.Sprintf("def %s %s : Bool :=\n%s  decide %s\n", fd.Name.Name, b, norm, t.prop(r.Results[0]))
		default:
			if t.typeOf(r.Results[0]) != kind {
				t.fail(r, "result type")
			}
			return src + fmt.Sprintf("def %s %s : Nat :=\n%s  %s\n", fd.Name.Name, b, norm, t.expr(r.Results[0]))
		}
	case "u32pair":
		r, ok := fd.Body.List[0].(*ast.ReturnStmt)
		if len(fd.Body.List) != 1 || !ok || len(r.Results) != 2 {
			t.fail(fd, "body is not a single two-value return")
		}
		return src + fmt.Sprintf("def %s %s : Nat × Nat :=\n%s  (%s, %s)\n", fd.Name.Name, b, norm, t.expr(r.Results[0]), t.expr(r.Results[1]))
	case "selection":
		return src + fmt.Sprintf("def %s %s : Nat × Bool :=\n%s%s\n", fd.Name.Name, b, norm, t.stmts(fd.Body.List, "  ", nil))
	}
	t.fail(fd, "kind")
	return ""
}

// ---- structural facts -------------------------------------------------------------------------

func c07Quote(ss []string) string {
	q := make([]string, len(ss))
	for i, s := range ss {
		q[i] = strconv.Quote(s)
	}
	return "[" + strings.Join(q, ", ") + "]"
}

// c07Conds lists, in source order, the conditions of every `if`, `for` and `switch` case in a function
// body, each prefixed by its kind; plus `break` / `continue` / `return` markers directly inside an if
func c07Conds(fset *token.FileSet, body *ast.BlockStmt) []string {
	var out []string
	ast.Inspect(body, func(n ast.Node) bool {
		switch x := n.(type) {
		case *ast.IfStmt:
			tail := ""
			if len(x.Body.List) > 0 {
				switch b := x.Body.List[len(x.Body.List)-1].(type) {
				case *ast.BranchStmt:
					tail = " => " + b.Tok.String()
				case *ast.ReturnStmt:
					tail = " => return"
				case *ast.AssignStmt:
					if len(x.Body.List) == 1 {
						tail = " => " + nodeString(fset, b)
					}
				}
			}
			out = append(out, "if "+nodeString(fset, x.Cond)+tail)
		case *ast.ForStmt:
			if x.Cond != nil {
				init, post := "", ""
				if x.Init != nil {
					init = nodeString(fset, x.Init)
				}
				if x.Post != nil {
					post = nodeString(fset, x.Post)
				}
				out = append(out, "for "+init+"; "+nodeString(fset, x.Cond)+"; "+post)
			}
		case *ast.CaseClause:
			for _, e := range x.List {
				out = append(out, "case "+nodeString(fset, e))
			}
		}
		return true
	})
	return out
}

// c07Stores lists, in source order, every atomic store / CAS / plain slot write in a function body
func c07Stores(fset *token.FileSet, body *ast.BlockStmt) []string {
	var out []string
	ast.Inspect(body, func(n ast.Node) bool {
		if ce, ok := n.(*ast.CallExpr); ok {
			if se, ok := ce.Fun.(*ast.SelectorExpr); ok {
				switch se.Sel.Name {
				case "Store", "CompareAndSwap", "Swap":
					out = append(out, nodeString(fset, ce))
				}
			}
		}
		return true
	})
	return out
}

// c07AssignsTo lists the statements (plain assignments, or ifs whose body is one) that assign `name`
func c07AssignsTo(fset *token.FileSet, body *ast.BlockStmt, name string) []string {
	var out []string
	assigns := func(s ast.Stmt) bool {
		as, ok := s.(*ast.AssignStmt)
		if !ok || len(as.Lhs) != 1 {
			return false
		}
		id, ok := as.Lhs[0].(*ast.Ident)
		return ok && id.Name == name
	}
	ast.Inspect(body, func(n ast.Node) bool {
		switch x := n.(type) {
		case *ast.IfStmt:
			if len(x.Body.List) == 1 && assigns(x.Body.List[0]) {
				out = append(out, nodeString(fset, x))
				return false
			}
		case *ast.AssignStmt:
			if assigns(x) {
				out = append(out, nodeString(fset, x))
			}
		}
		return true
	})
	return out
}

// c07CallArgs lists argument number `arg` of every call of `fn`, in source order
func c07CallArgs(fset *token.FileSet, body *ast.BlockStmt, fn string, arg int) []string {
	var out []string
	ast.Inspect(body, func(n ast.Node) bool {
		if ce, ok := n.(*ast.CallExpr); ok {
			if id, ok := ce.Fun.(*ast.Ident); ok && id.Name == fn && len(ce.Args) > arg {
				out = append(out, nodeString(fset, ce.Args[arg]))
			}
		}
		return true
	})
	return out
}

func genSrcCache(repo string, consts []constKV) string {
	var sb strings.Builder
	sb.WriteString("-- GENERATED by tools/goextract (c07srccache.go) from " + c07File + " of the current working tree; do not edit\n")
	sb.WriteString("-- uint32 values are Nats reduced mod 2^32 where they enter a function; `*sourceUserCacheEntry` is `Option Nat`\n")
	sb.WriteString("-- (nil / an entry with that lastActive); loops over sourceUserCacheWays are unrolled.\n")
	sb.WriteString("set_option linter.unusedVariables false\nnamespace Mieru.Gen.SrcCache\n\n")
	t := &c07tr{fset: token.NewFileSet(), consts: map[string]int{}}
	for _, c := range consts {
		if strings.HasPrefix(c.k, "sourceUserCache") {
			if v, err := strconv.Atoi(c.v); err == nil {
				t.consts[c.k] = v
			}
		}
	}
	for _, k := range []string{"sourceUserCacheWays", "sourceUserCacheUsers", "sourceUserCacheLifeSeconds"} {
		if _, ok := t.consts[k]; !ok {
			sb.WriteString("-- BROKEN-TIE " + k + ": constant not dumped by the compiled repository\n")
		}
	}
	f, err := parser.ParseFile(t.fset, filepath.Join(repo, c07File), nil, 0)
	if err != nil {
		sb.WriteString("-- BROKEN-TIE source_user_cache.go: " + strings.ReplaceAll(err.Error(), "\n", " ") + "\nend Mieru.Gen.SrcCache\n")
		return sb.String()
	}
	decls := map[string]*ast.FuncDecl{}
	for _, d := range f.Decls {
		if fd, ok := d.(*ast.FuncDecl); ok && fd.Body != nil {
			decls[fd.Name.Name] = fd
		}
	}
	for _, w := range [][2]string{
		{"sourceUserCacheAge", "u32"},
		{"sourceUserCacheExpired", "bool"},
		{"sourceUserCachePackUser", "u64"},
		{"sourceUserCacheUnpackUser", "u32pair"},
		{"selectSourceUserCacheWay", "selection"},
	} {
		fd, ok := decls[w[0]]
		if !ok {
			sb.WriteString("-- BROKEN-TIE " + w[0] + ": function not found in " + c07File + "\n\n")
			continue
		}
		sb.WriteString(t.fn(fd, w[1]) + "\n")
	}
	sb.WriteString("/-! structural facts about the functions that are not translated (see tools/goextract/c07srccache.go) -/\n\n")
	facts := func(file, prefix string, decls map[string]*ast.FuncDecl, names []string) {
		for _, w := range names {
			fd, ok := decls[w]
			if !ok {
				sb.WriteString("-- BROKEN-TIE " + w + ": function not found in " + file + "\n\n")
				continue
			}
			fmt.Fprintf(&sb, "/-- %s:%d `%s`: the conditions of its ifs / loops / switch cases (and how an if ends: return / break / continue / a single assignment), in source order -/\ndef %s%sConds : List String := %s\n\n",
				file, t.fset.Position(fd.Pos()).Line, w, prefix, w, c07Quote(c07Conds(t.fset, fd.Body)))
			fmt.Fprintf(&sb, "/-- `%s`: its atomic loads-free writes (Store / Swap / CompareAndSwap), in source order -/\ndef %s%sStores : List String := %s\n\n",
				w, prefix, w, c07Quote(c07Stores(t.fset, fd.Body)))
		}
	}
	facts(c07File, "", decls, []string{"lookup", "recordUser", "recordAuthenticatedInTable", "recordAuthenticated"})
	if fd, ok := decls["recordUser"]; ok {
		fmt.Fprintf(&sb, "/-- `recordUser`: every statement that assigns the chosen slot, in source order -/\ndef recordUserSlotChoice : List String := %s\n\n", c07Quote(c07AssignsTo(t.fset, fd.Body, "slot")))
	}
	const regFile = "pkg/protocol/serveruser/registry.go"
	if rf, err := parser.ParseFile(t.fset, filepath.Join(repo, regFile), nil, 0); err != nil {
		sb.WriteString("-- BROKEN-TIE registry.go: " + strings.ReplaceAll(err.Error(), "\n", " ") + "\n")
	} else {
		rdecls := map[string]*ast.FuncDecl{}
		for _, d := range rf.Decls {
			if fd, ok := d.(*ast.FuncDecl); ok && fd.Body != nil {
				rdecls[fd.Name.Name] = fd
			}
		}
		facts(regFile, "registry_", rdecls, []string{"retire", "SetUsers", "discoverUser", "tryState", "markUserIDAttempted", "userByID", "recordAuthenticated"})
		if fd, ok := rdecls["tryState"]; ok {
			fmt.Fprintf(&sb, "/-- `tryState`: the origin passed to each `tryUser` call, in source order (= the order of the four phases) -/\ndef tryStatePhases : List String := %s\n\n", c07Quote(c07CallArgs(t.fset, fd.Body, "tryUser", 4)))
		}
	}
	sb.WriteString("end Mieru.Gen.SrcCache\n")
	return sb.String()
}
