package main

// Regenerated definitions and structural facts for C08 (lean/Mieru/Gen/FactsC08.lean, namespace
// Mieru.Gen.FactsC08), used by Props/C08.lean:
//
//   * the time-slot functions of pkg/cipher (cipherKeyEpoch, saltFromTime), the cache-validity test of
//     getCachedCiphers, the refetch test of StatelessDecryptor.tryDecryptAt, the minute counter and the
//     timestamp test of the two Unmarshal functions of pkg/protocol/metadata.go, and mathext.Mid /
//     mathext.WithinRange are TRANSLATED expression by expression (statement by statement for Mid) into
//     Lean definitions over a small fixed vocabulary for time.Time (GoTime: wall reading in Unix
//     nanoseconds + optional monotonic reading; Round / Truncate / Add / Unix / Before / After as the time
//     package defines them).  Props/C08.lean proves `model = generated` for each of them, so replacing
//     Round by Truncate or a truncating division, `!=` by `<`, `Before` by `After`, the margin 1 by 2,
//     dropping an int64 conversion, reordering or dropping a slot offset … breaks a proof at build time.
//   * what cannot be an expression (which list is ranged over, which index the sender takes, which fields
//     the stored entry gets, what is hashed) is emitted as string facts checked by `decide`.
//
// A shape the translator does not understand is reported as `-- BROKEN-TIE <name>: <why>` and replaced by
// a placeholder definition of the right type (so that the module and `mieru-gen` still build and only the
// C08 obligations that mention it fail) — never skipped silently.

import (
	"fmt"
	"go/ast"
	"go/parser"
	"go/token"
	"path/filepath"
	"strconv"
	"strings"
)

func init() { register("FactsC08.lean", genFactsC08) }

type c08Kind int

const (
	c08Int c08Kind = iota // integers and durations (ns)
	c08Time
	c08Prop
	c08Struct // *cachedCiphers
	c08U32    // a uint32 value (wraps)
)

type c08Var struct {
	lean string
	kind c08Kind
}

type c08Tr struct {
	fset   *token.FileSet
	env    map[string]c08Var
	consts map[string]string // Go constant name -> Lean term
	draws  []string          // arguments of mrand.Intn calls met, in order
	err    string
}

func (t *c08Tr) fail(n ast.Node, msg string) string {
	if t.err == "" {
		t.err = fmt.Sprintf("%s: %s", msg, nodeString(t.fset, n))
	}
	return "0"
}

func c08Sel(fset *token.FileSet, e ast.Expr) string {
	if s, ok := e.(*ast.SelectorExpr); ok {
		if x, ok := s.X.(*ast.Ident); ok {
			return x.Name + "." + s.Sel.Name
		}
	}
	return ""
}

// expr translates e and returns (lean term, kind).
func (t *c08Tr) expr(e ast.Expr) (string, c08Kind) {
	switch x := e.(type) {
	case *ast.ParenExpr:
		s, k := t.expr(x.X)
		return "(" + s + ")", k
	case *ast.BasicLit:
		if x.Kind == token.INT {
			v, err := strconv.ParseInt(x.Value, 0, 64)
			if err == nil {
				return fmt.Sprint(v), c08Int
			}
		}
		return t.fail(e, "unsupported literal"), c08Int
	case *ast.Ident:
		if v, ok := t.env[x.Name]; ok {
			return v.lean, v.kind
		}
		if c, ok := t.consts[x.Name]; ok {
			return c, c08Int
		}
		return t.fail(e, "unknown identifier"), c08Int
	case *ast.SelectorExpr:
		name := c08Sel(t.fset, x)
		switch name {
		case "time.Nanosecond":
			return "1", c08Int
		case "time.Microsecond":
			return "1000", c08Int
		case "time.Millisecond":
			return "1000000", c08Int
		case "time.Second":
			return "1000000000", c08Int
		case "time.Minute":
			return "60000000000", c08Int
		case "time.Hour":
			return "3600000000000", c08Int
		}
		if c, ok := t.consts[name]; ok {
			return c, c08Int
		}
		if id, ok := x.X.(*ast.Ident); ok {
			if v, ok := t.env[id.Name]; ok && v.kind == c08Struct {
				switch x.Sel.Name {
				case "epoch":
					return v.lean + "_epoch", c08Int
				case "createTime":
					return v.lean + "_createTime", c08Time
				}
			}
		}
		return t.fail(e, "unsupported selector"), c08Int
	case *ast.UnaryExpr:
		s, k := t.expr(x.X)
		switch x.Op {
		case token.SUB:
			if k == c08Int {
				return "(-" + s + ")", c08Int
			}
		case token.NOT:
			if k == c08Prop {
				return "(¬ " + s + ")", c08Prop
			}
		}
		return t.fail(e, "unsupported unary expression"), k
	case *ast.BinaryExpr:
		// `x == nil` / `x != nil` on a struct pointer
		if id, ok := x.Y.(*ast.Ident); ok && id.Name == "nil" {
			if xi, ok := x.X.(*ast.Ident); ok {
				if v, ok := t.env[xi.Name]; ok && v.kind == c08Struct {
					switch x.Op {
					case token.EQL:
						return "(" + v.lean + "_isNil = true)", c08Prop
					case token.NEQ:
						return "(" + v.lean + "_isNil = false)", c08Prop
					}
				}
			}
			return t.fail(e, "unsupported nil comparison"), c08Prop
		}
		a, ka := t.expr(x.X)
		b, kb := t.expr(x.Y)
		switch x.Op {
		case token.LOR, token.LAND:
			if ka != c08Prop || kb != c08Prop {
				return t.fail(e, "boolean operator on non-boolean operands"), c08Prop
			}
			op := map[token.Token]string{token.LOR: "∨", token.LAND: "∧"}[x.Op]
			return "(" + a + " " + op + " " + b + ")", c08Prop
		case token.EQL, token.NEQ, token.LSS, token.LEQ, token.GTR, token.GEQ:
			if ka != kb || (ka != c08Int && ka != c08U32) {
				return t.fail(e, "comparison of unsupported operand types"), c08Prop
			}
			op := map[token.Token]string{token.EQL: "=", token.NEQ: "≠", token.LSS: "<", token.LEQ: "≤", token.GTR: ">", token.GEQ: "≥"}[x.Op]
			return "(" + a + " " + op + " " + b + ")", c08Prop
		case token.ADD, token.SUB, token.MUL:
			if ka != c08Int || kb != c08Int {
				return t.fail(e, "arithmetic on a type that can wrap or is not an integer"), c08Int
			}
			return "(" + a + " " + x.Op.String() + " " + b + ")", c08Int
		case token.QUO:
			if ka != c08Int || kb != c08Int {
				return t.fail(e, "division on unsupported operand types"), c08Int
			}
			return "(Int.tdiv " + a + " " + b + ")", c08Int
		}
		return t.fail(e, "unsupported binary operator"), c08Int
	case *ast.CallExpr:
		return t.call(x)
	}
	return t.fail(e, "unsupported expression"), c08Int
}

func (t *c08Tr) call(c *ast.CallExpr) (string, c08Kind) {
	// conversions and package-level functions
	switch f := c.Fun.(type) {
	case *ast.Ident:
		if len(c.Args) == 1 {
			switch f.Name {
			case "int64", "int":
				s, k := t.expr(c.Args[0])
				if k == c08Int || k == c08U32 { // widening a uint32 is exact
					return s, c08Int
				}
				return t.fail(c, "conversion of unsupported operand"), c08Int
			case "uint32":
				s, k := t.expr(c.Args[0])
				if k == c08Int {
					return "(" + s + " % 4294967296)", c08U32
				}
				return t.fail(c, "conversion of unsupported operand"), c08U32
			case "cipherKeyEpoch":
				s, k := t.expr(c.Args[0])
				if k == c08Time {
					return "(cipherKeyEpoch " + s + ")", c08Int
				}
				return t.fail(c, "cipherKeyEpoch of a non-time argument"), c08Int
			}
		}
		return t.fail(c, "unsupported call"), c08Int
	case *ast.SelectorExpr:
		name := c08Sel(t.fset, f)
		switch name {
		case "time.Duration":
			if len(c.Args) == 1 {
				s, k := t.expr(c.Args[0])
				if k == c08Int {
					return s, c08Int
				}
			}
			return t.fail(c, "unsupported conversion"), c08Int
		case "time.Now":
			if v, ok := t.env["time.Now()"]; ok && len(c.Args) == 0 {
				return v.lean, c08Time
			}
			return t.fail(c, "time.Now() where no clock parameter is expected"), c08Time
		case "mrand.Intn", "rand.Intn":
			if len(c.Args) == 1 {
				t.draws = append(t.draws, nodeString(t.fset, c.Args[0]))
				return fmt.Sprintf("draw%d", len(t.draws)), c08Int
			}
			return t.fail(c, "unsupported call"), c08Int
		case "mathext.WithinRange":
			if len(c.Args) != 3 {
				return t.fail(c, "WithinRange with other than 3 arguments"), c08Prop
			}
			var as []string
			for _, a := range c.Args {
				// the generic instantiates at the operands' type: only int64 (or an untyped constant) cannot wrap
				okType := false
				if ce, ok := a.(*ast.CallExpr); ok {
					if id, ok := ce.Fun.(*ast.Ident); ok && id.Name == "int64" {
						okType = true
					}
				}
				if _, ok := a.(*ast.BasicLit); ok {
					okType = true
				}
				if !okType {
					return t.fail(a, "WithinRange operand is not an int64 conversion or a constant (the comparison could wrap)"), c08Prop
				}
				s, k := t.expr(a)
				if k != c08Int {
					return t.fail(a, "WithinRange operand of unsupported type"), c08Prop
				}
				as = append(as, s)
			}
			return "(withinRange " + strings.Join(as, " ") + " = true)", c08Prop
		}
		// methods of time.Time
		recv, k := t.expr(f.X)
		if t.err != "" {
			return "0", c08Int
		}
		if k == c08Time {
			arg := func(want c08Kind) string {
				if len(c.Args) != 1 {
					return t.fail(c, "wrong number of arguments")
				}
				s, ka := t.expr(c.Args[0])
				if ka != want {
					return t.fail(c, "argument of unsupported type")
				}
				return s
			}
			switch f.Sel.Name {
			case "Round":
				return "(GoTime.round " + recv + " " + arg(c08Int) + ")", c08Time
			case "Truncate":
				return "(GoTime.truncate " + recv + " " + arg(c08Int) + ")", c08Time
			case "Add":
				return "(GoTime.add " + recv + " " + arg(c08Int) + ")", c08Time
			case "Before":
				return "(GoTime.before " + recv + " " + arg(c08Time) + ")", c08Prop
			case "After":
				return "(GoTime.after " + recv + " " + arg(c08Time) + ")", c08Prop
			case "Unix":
				if len(c.Args) == 0 {
					return "(GoTime.unix " + recv + ")", c08Int
				}
			case "UnixNano":
				if len(c.Args) == 0 {
					return "(GoTime.wall " + recv + ")", c08Int
				}
			}
		}
		return t.fail(c, "unsupported method call"), c08Int
	}
	return t.fail(c, "unsupported call"), c08Int
}

const c08Prelude = `import Mieru.Gen.Consts
-- GENERATED by tools/goextract (c08facts.go) from the repository's current working tree; do not edit
set_option linter.unusedVariables false
namespace Mieru.Gen.FactsC08

/-! Vocabulary for time.Time (package time): a wall reading in Unix nanoseconds and, for values that
come from time.Now(), a monotonic reading.  Round/Truncate are relative to the zero time, which lies a
multiple of every divisor of 24 h before the Unix epoch, so they act on the Unix nanoseconds; both strip
the monotonic reading.  Add moves both readings.  Before/After compare monotonic readings when both
operands have one, wall readings otherwise.  Unix() floors to seconds. -/
structure GoTime where
  wall : Int
  mono : Option Int

def GoTime.round (t : GoTime) (d : Int) : GoTime :=
  ⟨(let r := t.wall % d
    if r + r < d then t.wall - r else t.wall + (d - r)), none⟩
def GoTime.truncate (t : GoTime) (d : Int) : GoTime := ⟨t.wall - t.wall % d, none⟩
def GoTime.add (t : GoTime) (d : Int) : GoTime := ⟨t.wall + d, t.mono.map (· + d)⟩
def GoTime.unix (t : GoTime) : Int := t.wall / 1000000000
def GoTime.before (a b : GoTime) : Prop :=
  match a.mono, b.mono with
  | some x, some y => x < y
  | _, _ => a.wall < b.wall
def GoTime.after (a b : GoTime) : Prop :=
  match a.mono, b.mono with
  | some x, some y => x > y
  | _, _ => a.wall > b.wall
instance (a b : GoTime) : Decidable (a.before b) := by unfold GoTime.before; split <;> infer_instance
instance (a b : GoTime) : Decidable (a.after b) := by unfold GoTime.after; split <;> infer_instance
`

func genFactsC08(repo string, consts []constKV) string {
	fset := token.NewFileSet()
	files := map[string]*ast.File{}
	load := func(rel string) *ast.File {
		if f, ok := files[rel]; ok {
			return f
		}
		f, err := parser.ParseFile(fset, filepath.Join(repo, rel), nil, 0)
		if err != nil {
			f = nil
		}
		files[rel] = f
		return f
	}
	findFunc := func(rel, name string) *ast.FuncDecl {
		f := load(rel)
		if f == nil {
			return nil
		}
		for _, d := range f.Decls {
			if fd, ok := d.(*ast.FuncDecl); ok && fd.Body != nil && funcName(fd) == name {
				return fd
			}
		}
		return nil
	}
	var sb strings.Builder
	sb.WriteString(c08Prelude)
	broken := func(name, why string) {
		fmt.Fprintf(&sb, "\n-- BROKEN-TIE %s: %s\n", name, strings.ReplaceAll(why, "\n", " "))
	}
	cm := map[string]bool{}
	for _, c := range consts {
		cm[leanIdent(c.k)] = true
	}
	goConsts := map[string]string{}
	for goName, lean := range map[string]string{"KeyRefreshInterval": "keyRefreshIntervalNs", "cipher.KeyRefreshInterval": "keyRefreshIntervalNs",
		"cacheValidInterval": "cacheValidIntervalNs", "cacheValidMaxJitterMs": "cacheValidMaxJitterMs"} {
		if cm[lean] {
			goConsts[goName] = "Mieru.Gen." + lean
		} else {
			broken("const "+goName, "constant "+lean+" is not among the constants dumped from the compiled repository")
			goConsts[goName] = "0"
		}
	}
	newTr := func(env map[string]c08Var) *c08Tr {
		return &c08Tr{fset: fset, env: env, consts: goConsts}
	}
	strDef := func(name, doc, val string) {
		fmt.Fprintf(&sb, "\n/-- %s -/\ndef %s : String := %q\n", doc, name, val)
	}
	strList := func(name, doc string, items []string) {
		fmt.Fprintf(&sb, "\n/-- %s -/\ndef %s : List String := [%s]\n", doc, name, quoteList(items))
	}

	// ---- mathext.Mid / mathext.WithinRange (statement by statement) ---------------------------------
	midOK := false
	if fd := findFunc("pkg/mathext/numbers.go", "Mid"); fd == nil {
		broken("mathext.Mid", "function not found in pkg/mathext/numbers.go")
	} else if lean, why := c08TranslateMid(fset, fd); why != "" {
		broken("mathext.Mid", why)
	} else {
		fmt.Fprintf(&sb, "\n/-- pkg/mathext/numbers.go, Mid (on a type that does not overflow) -/\n%s", lean)
		midOK = true
	}
	if !midOK {
		sb.WriteString("def mid (a b c : Int) : Int := 0\n")
	}
	wrOK := false
	if fd := findFunc("pkg/mathext/numbers.go", "WithinRange"); fd == nil {
		broken("mathext.WithinRange", "function not found in pkg/mathext/numbers.go")
	} else {
		why := "body is not a single return of a comparison"
		if len(fd.Body.List) == 1 && fd.Type.Params != nil {
			var params []string
			for _, f := range fd.Type.Params.List {
				for _, n := range f.Names {
					params = append(params, n.Name)
				}
			}
			if rs, ok := fd.Body.List[0].(*ast.ReturnStmt); ok && len(rs.Results) == 1 && len(params) == 3 {
				env := map[string]c08Var{}
				for _, p := range params {
					env[p] = c08Var{p, c08Int}
				}
				t := newTr(env)
				// Mid(...) is the only call allowed here
				var tx func(e ast.Expr) string
				tx = func(e ast.Expr) string {
					if ce, ok := e.(*ast.CallExpr); ok {
						if id, ok := ce.Fun.(*ast.Ident); ok && id.Name == "Mid" && len(ce.Args) == 3 {
							return "(mid " + tx(ce.Args[0]) + " " + tx(ce.Args[1]) + " " + tx(ce.Args[2]) + ")"
						}
					}
					if be, ok := e.(*ast.BinaryExpr); ok && (be.Op == token.EQL || be.Op == token.NEQ) {
						op := map[token.Token]string{token.EQL: "=", token.NEQ: "≠"}[be.Op]
						return "(" + tx(be.X) + " " + op + " " + tx(be.Y) + ")"
					}
					s, k := t.expr(e)
					if k != c08Int {
						t.fail(e, "unsupported operand")
					}
					return s
				}
				body := tx(rs.Results[0])
				if _, isCmp := rs.Results[0].(*ast.BinaryExpr); !isCmp {
					t.fail(rs.Results[0], "result is not a comparison")
				}
				if t.err == "" {
					fmt.Fprintf(&sb, "\n/-- pkg/mathext/numbers.go, WithinRange (on a type that does not overflow) -/\ndef withinRange (%s : Int) : Bool :=\n  decide %s\n", strings.Join(params, " "), body)
					wrOK = true
				} else {
					why = t.err
				}
			}
		}
		if !wrOK {
			broken("mathext.WithinRange", why)
		}
	}
	if !wrOK {
		sb.WriteString("def withinRange (v target margin : Int) : Bool := false\n")
	}

	// ---- cipherKeyEpoch ---------------------------------------------------------------------------
	done := false
	if fd := findFunc("pkg/cipher/api.go", "cipherKeyEpoch"); fd == nil {
		broken("cipherKeyEpoch", "function not found in pkg/cipher/api.go")
	} else if len(fd.Body.List) != 1 {
		broken("cipherKeyEpoch", "body is not a single return statement")
	} else if rs, ok := fd.Body.List[0].(*ast.ReturnStmt); !ok || len(rs.Results) != 1 {
		broken("cipherKeyEpoch", "body is not a single return statement")
	} else {
		p := fd.Type.Params.List[0].Names[0].Name
		t := newTr(map[string]c08Var{p: {p, c08Time}})
		s, k := t.expr(rs.Results[0])
		if t.err != "" || k != c08Int {
			broken("cipherKeyEpoch", "cannot translate the result: "+t.err)
		} else {
			fmt.Fprintf(&sb, "\n/-- pkg/cipher/api.go, cipherKeyEpoch: `%s` -/\ndef cipherKeyEpoch (%s : GoTime) : Int :=\n  %s\n", nodeString(fset, rs.Results[0]), p, s)
			done = true
		}
	}
	if !done {
		sb.WriteString("def cipherKeyEpoch (t : GoTime) : Int := 0\n")
	}

	// ---- saltFromTime -----------------------------------------------------------------------------
	done = false
	var saltLoop []string
	if fd := findFunc("pkg/cipher/keygen.go", "saltFromTime"); fd == nil {
		broken("saltFromTime", "function not found in pkg/cipher/keygen.go")
	} else {
		p := fd.Type.Params.List[0].Names[0].Name
		t := newTr(map[string]c08Var{p: {p, c08Time}})
		var lets, elems []string
		listVar := ""
		why := ""
		var loop *ast.RangeStmt
		for _, st := range fd.Body.List {
			switch x := st.(type) {
			case *ast.DeclStmt:
				gd, ok := x.Decl.(*ast.GenDecl)
				if ok && gd.Tok == token.VAR && len(gd.Specs) == 1 {
					vs := gd.Specs[0].(*ast.ValueSpec)
					if len(vs.Names) == 1 && len(vs.Values) == 0 && nodeString(fset, vs.Type) == "[]time.Time" && listVar == "" {
						listVar = vs.Names[0].Name
					}
				}
			case *ast.AssignStmt:
				if loop != nil || len(x.Lhs) != 1 || len(x.Rhs) != 1 {
					continue
				}
				lhs, ok := x.Lhs[0].(*ast.Ident)
				if !ok {
					continue
				}
				if x.Tok == token.ASSIGN && lhs.Name == listVar {
					ce, ok := x.Rhs[0].(*ast.CallExpr)
					if id, ok2 := ce.Fun.(*ast.Ident); !ok || !ok2 || id.Name != "append" || len(ce.Args) != 2 || nodeString(fset, ce.Args[0]) != listVar {
						why = "the list of times is assigned something other than append(" + listVar + ", x): " + nodeString(fset, x)
						continue
					}
					s, k := t.expr(ce.Args[1])
					if k != c08Time {
						t.fail(ce.Args[1], "appended value is not a time")
					}
					elems = append(elems, s)
				} else if x.Tok == token.DEFINE {
					// a local time value (rounded := t.Round(…)); other locals (b := make(…)) are part of the hash loop
					if ce, ok := x.Rhs[0].(*ast.CallExpr); ok {
						if se, ok := ce.Fun.(*ast.SelectorExpr); ok {
							if _, isTime := map[string]bool{"Round": true, "Truncate": true, "Add": true}[se.Sel.Name]; isTime {
								s, k := t.expr(x.Rhs[0])
								if k == c08Time {
									lets = append(lets, fmt.Sprintf("  let %s := %s\n", lhs.Name, s))
									t.env[lhs.Name] = c08Var{lhs.Name, c08Time}
									continue
								}
							}
						}
					}
					saltLoop = append(saltLoop, nodeString(fset, x))
				}
			case *ast.RangeStmt:
				if loop == nil {
					loop = x
					saltLoop = append(saltLoop, "for "+nodeString(fset, x.Key)+", "+nodeString(fset, x.Value)+" := range "+nodeString(fset, x.X))
					for _, b := range x.Body.List {
						saltLoop = append(saltLoop, nodeString(fset, b))
					}
				} else {
					why = "more than one range loop"
				}
			case *ast.ReturnStmt:
				saltLoop = append(saltLoop, nodeString(fset, x))
			}
		}
		hashed := ""
		if loop == nil {
			why = "no range loop over the list of times"
		} else if nodeString(fset, loop.X) != listVar || loop.Value == nil {
			why = "the hash loop does not range over the values of " + listVar
		} else {
			lv := nodeString(fset, loop.Value)
			for _, st := range loop.Body.List {
				if es, ok := st.(*ast.ExprStmt); ok {
					if ce, ok := es.X.(*ast.CallExpr); ok && strings.HasSuffix(nodeString(fset, ce.Fun), "PutUint64") && len(ce.Args) == 2 {
						// what is hashed: uint64(<int expression of the loop variable>)
						if cv, ok := ce.Args[1].(*ast.CallExpr); ok {
							if id, ok := cv.Fun.(*ast.Ident); ok && id.Name == "uint64" && len(cv.Args) == 1 {
								t2 := newTr(map[string]c08Var{lv: {lv, c08Time}})
								s, k := t2.expr(cv.Args[0])
								if t2.err == "" && k == c08Int {
									hashed = fmt.Sprintf("(fun (%s : GoTime) => %s)", lv, s)
								}
							}
						}
					}
				}
			}
			if hashed == "" {
				why = "cannot find what the loop hashes (binary.BigEndian.PutUint64(b, uint64(<time>.Unix())))"
			}
		}
		if t.err != "" {
			why = t.err
		}
		if why == "" && len(elems) == 0 {
			why = "no times appended"
		}
		if why != "" {
			broken("saltFromTime", why)
		} else {
			fmt.Fprintf(&sb, "\n/-- pkg/cipher/keygen.go, saltFromTime: the integers whose 8-byte big-endian form is hashed, in the order of the result -/\ndef saltFromTime_times (%s : GoTime) : List Int :=\n%s  [%s].map %s\n", p, strings.Join(lets, ""), strings.Join(elems, ",\n   "), hashed)
			done = true
		}
	}
	if !done {
		sb.WriteString("def saltFromTime_times (t : GoTime) : List Int := []\n")
	}
	strList("saltFromTime_hashing", "saltFromTime: every statement that is not one of the translated time computations (buffer, loop header, loop body, return), as written", saltLoop)

	// ---- getCachedCiphers -------------------------------------------------------------------------
	done = false
	var gcFacts []string
	if fd := findFunc("pkg/cipher/cache.go", "getCachedCiphers"); fd == nil {
		broken("getCachedCiphers", "function not found in pkg/cipher/cache.go")
	} else {
		// the expiry test: the only `if` whose body is `ok = false`
		var test *ast.IfStmt
		var jitterDef ast.Expr
		nTests := 0
		ast.Inspect(fd.Body, func(n ast.Node) bool {
			switch x := n.(type) {
			case *ast.IfStmt:
				if len(x.Body.List) == 1 && nodeString(fset, x.Body.List[0]) == "ok = false" && x.Else == nil && x.Init == nil {
					test = x
					nTests++
				}
			case *ast.AssignStmt:
				if len(x.Lhs) == 1 && nodeString(fset, x.Lhs[0]) == "jitter" && x.Tok == token.DEFINE {
					jitterDef = x.Rhs[0]
				}
			}
			return true
		})
		why := ""
		params := []string{}
		for _, f := range fd.Type.Params.List {
			for _, n := range f.Names {
				params = append(params, n.Name+" "+nodeString(fset, f.Type))
			}
		}
		if strings.Join(params, ", ") != "password string, now time.Time" {
			why = "unexpected parameters: " + strings.Join(params, ", ")
		} else if nTests != 1 {
			why = fmt.Sprintf("%d statements of the form `if … { ok = false }` (expected exactly one)", nTests)
		} else {
			t := newTr(map[string]c08Var{"entry": {"entry", c08Struct}, "now": {"now", c08Time}})
			let := ""
			if jitterDef != nil {
				s, k := t.expr(jitterDef)
				if k != c08Int {
					t.fail(jitterDef, "jitter is not a duration")
				}
				let = "  let jitter := " + s + "\n"
				t.env["jitter"] = c08Var{"jitter", c08Int}
			}
			s, k := t.expr(test.Cond)
			if k != c08Prop {
				t.fail(test.Cond, "the expiry test is not a boolean expression")
			}
			if len(t.draws) > 1 {
				t.fail(test.Cond, "more than one random draw")
			}
			if t.err != "" {
				why = t.err
			} else {
				drawParam := ""
				if len(t.draws) == 1 {
					drawParam = " (draw1 : Int)"
				} else {
					drawParam = " (draw1 : Int)" // unused: keeps the type stable
				}
				fmt.Fprintf(&sb, "\n/-- pkg/cipher/cache.go, getCachedCiphers: the cached entry is NOT reused when `%s`; draw1 is the value of mrand.Intn(%s) -/\ndef getCachedCiphers_expired (entry_isNil : Bool) (entry_epoch : Int) (entry_createTime : GoTime) (now : GoTime)%s : Prop :=\n%s  %s\n",
					nodeString(fset, test.Cond), strings.Join(t.draws, ","), drawParam, let, s)
				strList("getCachedCiphers_draws", "arguments of the mrand.Intn calls in the expiry test", t.draws)
				done = true
			}
		}
		if why != "" {
			broken("getCachedCiphers", why)
		}
		// what is stored / derived / returned
		ast.Inspect(fd.Body, func(n ast.Node) bool {
			switch x := n.(type) {
			case *ast.CompositeLit:
				if strings.HasSuffix(nodeString(fset, x.Type), "cachedCiphers") {
					for _, el := range x.Elts {
						gcFacts = append(gcFacts, "field "+nodeString(fset, el))
					}
				}
			case *ast.CallExpr:
				fn := nodeString(fset, x.Fun)
				if fn == "newBlockCipherList" || strings.HasPrefix(fn, "blockCipherCache.") {
					gcFacts = append(gcFacts, "call "+nodeString(fset, x))
				}
			case *ast.ReturnStmt:
				if len(x.Results) > 0 { // the value returned (not the wording of an error message)
					gcFacts = append(gcFacts, "return "+nodeString(fset, x.Results[0]))
				}
			}
			return true
		})
	}
	if !done {
		sb.WriteString("def getCachedCiphers_expired (entry_isNil : Bool) (entry_epoch : Int) (entry_createTime : GoTime) (now : GoTime) (draw1 : Int) : Prop := False\ndef getCachedCiphers_draws : List String := []\n")
	}
	sb.WriteString("instance (a : Bool) (b : Int) (c d : GoTime) (e : Int) : Decidable (getCachedCiphers_expired a b c d e) := by\n  unfold getCachedCiphers_expired; infer_instance\n")
	strList("getCachedCiphers_effects", "getCachedCiphers: cache accesses, key derivation, fields of the stored entry and return statements, in source order", gcFacts)

	// ---- StatelessDecryptor.tryDecryptAt ----------------------------------------------------------
	done = false
	var tdFacts []string
	if fd := findFunc("pkg/cipher/api.go", "StatelessDecryptor.tryDecryptAt"); fd == nil {
		broken("tryDecryptAt", "method not found in pkg/cipher/api.go")
	} else {
		t := newTr(map[string]c08Var{"now": {"now", c08Time}})
		var lets []string
		var test *ast.IfStmt
		why := ""
		for _, st := range fd.Body.List {
			switch x := st.(type) {
			case *ast.AssignStmt:
				if x.Tok == token.DEFINE && len(x.Lhs) == 1 && len(x.Rhs) == 1 {
					name := nodeString(fset, x.Lhs[0])
					rhs := nodeString(fset, x.Rhs[0])
					if rhs == "d.ciphers.Load()" {
						t.env[name] = c08Var{"entry", c08Struct}
						tdFacts = append(tdFacts, nodeString(fset, x))
						continue
					}
					if test == nil {
						s, k := t.expr(x.Rhs[0])
						if t.err == "" && k == c08Int {
							lets = append(lets, fmt.Sprintf("  let %s := %s\n", name, s))
							t.env[name] = c08Var{name, c08Int}
							continue
						}
						t.err = ""
					}
				}
				tdFacts = append(tdFacts, nodeString(fset, x))
			case *ast.IfStmt:
				c := nodeString(fset, x.Cond)
				if strings.Contains(c, "entry") && test == nil {
					test = x
					ast.Inspect(x.Body, func(n ast.Node) bool {
						if ce, ok := n.(*ast.CallExpr); ok {
							fn := nodeString(fset, ce.Fun)
							if fn == "getCachedCiphers" || strings.HasPrefix(fn, "d.ciphers.") {
								tdFacts = append(tdFacts, "refetch: "+nodeString(fset, ce))
							}
						}
						return true
					})
				}
			}
		}
		if test == nil {
			why = "no test on the held entry found"
		} else {
			s, k := t.expr(test.Cond)
			if k != c08Prop {
				t.fail(test.Cond, "the refetch test is not a boolean expression")
			}
			if t.err != "" {
				why = t.err
			} else {
				fmt.Fprintf(&sb, "\n/-- pkg/cipher/api.go, StatelessDecryptor.tryDecryptAt: the decryptor goes back to getCachedCiphers when `%s` -/\ndef tryDecryptAt_refetch (entry_isNil : Bool) (entry_epoch : Int) (now : GoTime) : Prop :=\n%s  %s\n", nodeString(fset, test.Cond), strings.Join(lets, ""), s)
				done = true
			}
		}
		if why != "" {
			broken("tryDecryptAt", why)
		}
	}
	if !done {
		sb.WriteString("def tryDecryptAt_refetch (entry_isNil : Bool) (entry_epoch : Int) (now : GoTime) : Prop := False\n")
	}
	sb.WriteString("instance (a : Bool) (b : Int) (c : GoTime) : Decidable (tryDecryptAt_refetch a b c) := by\n  unfold tryDecryptAt_refetch; infer_instance\n")
	strList("tryDecryptAt_effects", "tryDecryptAt: where the held entry comes from, what the refetch branch calls, and the other assignments (which list is tried), in source order", tdFacts)

	// ---- which keys are tried / used --------------------------------------------------------------
	for _, fn := range []string{"selectDecryptStateless", "selectDecrypt"} {
		var items []string
		if fd := findFunc("pkg/cipher/cipher.go", fn); fd == nil {
			broken(fn, "function not found in pkg/cipher/cipher.go")
		} else {
			for _, st := range fd.Body.List {
				if rs, ok := st.(*ast.RangeStmt); ok {
					items = append(items, "range "+nodeString(fset, rs.X))
					for _, b := range rs.Body.List {
						items = append(items, nodeString(fset, b))
					}
				}
			}
		}
		strList(fn+"_loop", fn+": the list ranged over and the loop body (first key that decrypts wins, in list order)", items)
	}
	{
		var items []string
		if fd := findFunc("pkg/cipher/api.go", "BlockCipherFromPassword"); fd == nil {
			broken("BlockCipherFromPassword", "function not found in pkg/cipher/api.go")
		} else {
			ast.Inspect(fd.Body, func(n ast.Node) bool {
				switch x := n.(type) {
				case *ast.IndexExpr:
					items = append(items, "index "+nodeString(fset, x))
				case *ast.CallExpr:
					if nodeString(fset, x.Fun) == "getCachedCiphers" {
						items = append(items, "call "+nodeString(fset, x))
					}
				}
				return true
			})
		}
		strList("blockCipherFromPassword_key", "BlockCipherFromPassword (the sender's key): the cache lookup and the index taken from the list", items)
	}
	{
		var items []string
		if fd := findFunc("pkg/cipher/cache.go", "newBlockCipherList"); fd == nil {
			broken("newBlockCipherList", "function not found in pkg/cipher/cache.go")
		} else {
			ast.Inspect(fd.Body, func(n ast.Node) bool {
				switch x := n.(type) {
				case *ast.AssignStmt:
					if len(x.Rhs) == 1 && strings.HasPrefix(nodeString(fset, x.Rhs[0]), "saltFromTime(") {
						items = append(items, nodeString(fset, x))
					}
				case *ast.ForStmt:
					items = append(items, "for "+nodeString(fset, x.Init)+"; "+nodeString(fset, x.Cond)+"; "+nodeString(fset, x.Post))
				case *ast.KeyValueExpr:
					items = append(items, nodeString(fset, x))
				}
				return true
			})
		}
		strList("newBlockCipherList_shape", "newBlockCipherList: salts come from saltFromTime(now), key i uses salts[i], i = 0, 1, 2", items)
	}

	// ---- metadata.go: minute counter and timestamp test --------------------------------------------
	type tsFn struct{ goName, lean string }
	var stampExprs []string
	for _, f := range []tsFn{{"sessionStruct.Unmarshal", "sessionUnmarshal"}, {"dataAckStruct.Unmarshal", "dataAckUnmarshal"}} {
		doneCur, doneRej := false, false
		if fd := findFunc("pkg/protocol/metadata.go", f.goName); fd == nil {
			broken(f.goName, "method not found in pkg/protocol/metadata.go")
		} else {
			t := newTr(map[string]c08Var{"time.Now()": {"now", c08Time}})
			nChecks := 0
			for _, st := range fd.Body.List { // top level only: the test must be unconditional
				switch x := st.(type) {
				case *ast.AssignStmt:
					if x.Tok != token.DEFINE || len(x.Lhs) != 1 || len(x.Rhs) != 1 {
						continue
					}
					name := nodeString(fset, x.Lhs[0])
					switch name {
					case "currentTimestamp":
						s, k := t.expr(x.Rhs[0])
						if t.err != "" || k != c08U32 {
							broken(f.goName+" currentTimestamp", "cannot translate `"+nodeString(fset, x.Rhs[0])+"` as a uint32 value: "+t.err)
							t.err = ""
						} else {
							fmt.Fprintf(&sb, "\n/-- pkg/protocol/metadata.go, %s: `currentTimestamp := %s` -/\ndef %s_currentTimestamp (now : GoTime) : Int :=\n  %s\n", f.goName, nodeString(fset, x.Rhs[0]), f.lean, s)
							doneCur = true
						}
						t.env[name] = c08Var{name, c08U32}
					case "originalTimestamp":
						stampExprs = append(stampExprs, f.goName+": originalTimestamp := "+nodeString(fset, x.Rhs[0]))
						t.env[name] = c08Var{name, c08U32}
					}
				case *ast.IfStmt:
					c := nodeString(fset, x.Cond)
					if !strings.Contains(c, "Timestamp") {
						continue
					}
					nChecks++
					rejects := false
					if len(x.Body.List) == 1 {
						if rs, ok := x.Body.List[0].(*ast.ReturnStmt); ok && len(rs.Results) == 1 && nodeString(fset, rs.Results[0]) != "nil" {
							rejects = true
						}
					}
					if !rejects || x.Else != nil || x.Init != nil {
						broken(f.goName+" timestamp test", "the body of `if "+c+"` is not a single return of an error")
						continue
					}
					if _, ok := t.env["currentTimestamp"]; !ok {
						broken(f.goName+" timestamp test", "currentTimestamp is not defined before the test")
						continue
					}
					s, k := t.expr(x.Cond)
					if t.err != "" || k != c08Prop {
						broken(f.goName+" timestamp test", "cannot translate `"+c+"`: "+t.err)
						t.err = ""
						continue
					}
					fmt.Fprintf(&sb, "\n/-- pkg/protocol/metadata.go, %s: the segment is refused when `%s` -/\ndef %s_tsReject (currentTimestamp originalTimestamp : Int) : Prop :=\n  %s\n", f.goName, c, f.lean, s)
					doneRej = true
				}
			}
			if nChecks != 1 {
				broken(f.goName+" timestamp test", fmt.Sprintf("%d top-level tests mention a timestamp (expected exactly one)", nChecks))
			}
		}
		if !doneCur {
			fmt.Fprintf(&sb, "def %s_currentTimestamp (now : GoTime) : Int := 0\n", f.lean)
		}
		if !doneRej {
			fmt.Fprintf(&sb, "def %s_tsReject (currentTimestamp originalTimestamp : Int) : Prop := False\n", f.lean)
		}
		fmt.Fprintf(&sb, "instance (a b : Int) : Decidable (%s_tsReject a b) := by\n  unfold %s_tsReject; infer_instance\n", f.lean, f.lean)
	}
	for _, f := range []tsFn{{"sessionStruct.Marshal", "sessionMarshal"}, {"dataAckStruct.Marshal", "dataAckMarshal"}} {
		doneStamp := false
		if fd := findFunc("pkg/protocol/metadata.go", f.goName); fd == nil {
			broken(f.goName, "method not found in pkg/protocol/metadata.go")
		} else {
			t := newTr(map[string]c08Var{"time.Now()": {"now", c08Time}})
			for _, st := range fd.Body.List {
				x, ok := st.(*ast.AssignStmt)
				if !ok || len(x.Lhs) != 1 || len(x.Rhs) != 1 || !strings.HasSuffix(nodeString(fset, x.Lhs[0]), ".timestamp") {
					continue
				}
				s, k := t.expr(x.Rhs[0])
				if t.err != "" || k != c08U32 {
					broken(f.goName+" stamp", "cannot translate `"+nodeString(fset, x.Rhs[0])+"` as a uint32 value: "+t.err)
					t.err = ""
					continue
				}
				fmt.Fprintf(&sb, "\n/-- pkg/protocol/metadata.go, %s: `%s` -/\ndef %s_stamp (now : GoTime) : Int :=\n  %s\n", f.goName, nodeString(fset, x), f.lean, s)
				doneStamp = true
			}
			if !doneStamp {
				broken(f.goName+" stamp", "no assignment to the timestamp field found")
			}
		}
		if !doneStamp {
			fmt.Fprintf(&sb, "def %s_stamp (now : GoTime) : Int := 0\n", f.lean)
		}
	}
	strList("unmarshal_stamp_sources", "where the two Unmarshal functions read the stamp they test", stampExprs)
	_ = strDef
	sb.WriteString("\nend Mieru.Gen.FactsC08\n")
	return sb.String()
}

// c08TranslateMid translates mathext.Mid statement by statement: a 3-element slice filled from the
// parameters, conditional swaps of two elements, the element returned.
func c08TranslateMid(fset *token.FileSet, fd *ast.FuncDecl) (string, string) {
	var params []string
	for _, f := range fd.Type.Params.List {
		for _, n := range f.Names {
			params = append(params, n.Name)
		}
	}
	if len(params) != 3 {
		return "", "expected three parameters"
	}
	isParam := map[string]bool{}
	for _, p := range params {
		isParam[p] = true
	}
	slice := ""
	idx := func(e ast.Expr) (int, bool) {
		ix, ok := e.(*ast.IndexExpr)
		if !ok || nodeString(fset, ix.X) != slice {
			return 0, false
		}
		lit, ok := ix.Index.(*ast.BasicLit)
		if !ok {
			return 0, false
		}
		v, err := strconv.Atoi(lit.Value)
		if err != nil || v < 0 || v > 2 {
			return 0, false
		}
		return v, true
	}
	var sb strings.Builder
	fmt.Fprintf(&sb, "def mid (%s : Int) : Int :=\n", strings.Join(params, " "))
	returned := false
	for _, st := range fd.Body.List {
		if returned {
			return "", "statement after the return"
		}
		switch x := st.(type) {
		case *ast.AssignStmt:
			if x.Tok == token.DEFINE && len(x.Lhs) == 1 && len(x.Rhs) == 1 && slice == "" {
				if ce, ok := x.Rhs[0].(*ast.CallExpr); ok && nodeString(fset, ce.Fun) == "make" && len(ce.Args) == 2 && nodeString(fset, ce.Args[1]) == "3" {
					slice = nodeString(fset, x.Lhs[0])
					sb.WriteString("  let v0 := 0\n  let v1 := 0\n  let v2 := 0\n")
					continue
				}
			}
			if x.Tok == token.ASSIGN && len(x.Lhs) == 1 && len(x.Rhs) == 1 {
				if i, ok := idx(x.Lhs[0]); ok {
					if id, ok := x.Rhs[0].(*ast.Ident); ok && isParam[id.Name] {
						fmt.Fprintf(&sb, "  let v%d := %s\n", i, id.Name)
						continue
					}
				}
			}
			return "", "unsupported assignment: " + nodeString(fset, x)
		case *ast.IfStmt:
			be, ok := x.Cond.(*ast.BinaryExpr)
			if !ok || x.Else != nil || x.Init != nil || len(x.Body.List) != 1 {
				return "", "unsupported if statement: " + nodeString(fset, x.Cond)
			}
			ops := map[token.Token]string{token.GTR: ">", token.LSS: "<", token.GEQ: "≥", token.LEQ: "≤"}
			op, ok := ops[be.Op]
			i, ok1 := idx(be.X)
			j, ok2 := idx(be.Y)
			if !ok || !ok1 || !ok2 {
				return "", "unsupported condition: " + nodeString(fset, x.Cond)
			}
			sw, ok := x.Body.List[0].(*ast.AssignStmt)
			if !ok || sw.Tok != token.ASSIGN || len(sw.Lhs) != 2 || len(sw.Rhs) != 2 {
				return "", "the body of the if is not a swap: " + nodeString(fset, x.Body.List[0])
			}
			a, oka := idx(sw.Lhs[0])
			b, okb := idx(sw.Lhs[1])
			c, okc := idx(sw.Rhs[0])
			d, okd := idx(sw.Rhs[1])
			if !oka || !okb || !okc || !okd || a == b {
				return "", "the body of the if is not a swap: " + nodeString(fset, sw)
			}
			// parallel assignment values[a], values[b] = values[c], values[d]
			fmt.Fprintf(&sb, "  let p := if v%d %s v%d then (v%d, v%d) else (v%d, v%d)\n  let v%d := p.1\n  let v%d := p.2\n", i, op, j, c, d, a, b, a, b)
		case *ast.ReturnStmt:
			if len(x.Results) != 1 {
				return "", "unsupported return"
			}
			i, ok := idx(x.Results[0])
			if !ok {
				return "", "the result is not an element of the slice: " + nodeString(fset, x.Results[0])
			}
			fmt.Fprintf(&sb, "  v%d\n", i)
			returned = true
		default:
			return "", "unsupported statement: " + nodeString(fset, st)
		}
	}
	if !returned || slice == "" {
		return "", "no slice / no return found"
	}
	return sb.String(), ""
}
