module goextract

go 1.20
