import Mieru.Crypto.SHA256
/-!
# HMAC-SHA256 (RFC 2104) and PBKDF2-HMAC-SHA256 (RFC 8018), executable, core Lean only

Not proved: validated by RFC 4231 / RFC 7914 vectors (`crypto-selftest`) and differentially
against Go's `crypto/hmac` and `x/crypto/pbkdf2` by the C09 harness scenario.

The two padded key blocks are absorbed once (`Keyed`); every HMAC call then costs two
compressions for messages up to 55 bytes, which is what PBKDF2's inner loop needs.
-/
namespace Mieru.Crypto.HMAC
open Mieru.Crypto

structure Keyed where
  inner : SHA256.State
  outer : SHA256.State

def xorPad (key : ByteArray) (c : UInt8) : ByteArray := Id.run do
  let mut o := ByteArray.emptyWithCapacity 64
  for i in [0:64] do
    o := o.push ((if i < key.size then key.get! i else 0) ^^^ c)
  return o

def keyed (key : ByteArray) : Keyed :=
  let k := if key.size > 64 then SHA256.hash key else key
  { inner := SHA256.compress SHA256.init (xorPad k 0x36) 0
    outer := SHA256.compress SHA256.init (xorPad k 0x5c) 0 }

def Keyed.mac (k : Keyed) (msg : ByteArray) : ByteArray :=
  SHA256.finishFrom k.outer 64 (SHA256.finishFrom k.inner 64 msg)

def hmac (key msg : ByteArray) : ByteArray := (keyed key).mac msg

def xorInto (acc u : ByteArray) : ByteArray := Id.run do
  let mut o := ByteArray.emptyWithCapacity acc.size
  for i in [0:acc.size] do
    o := o.push (acc.get! i ^^^ u.get! i)
  return o

def pbkdf2Iter (k : Keyed) : Nat → ByteArray → ByteArray → ByteArray
  | 0, _, acc => acc
  | n + 1, u, acc =>
    let u' := k.mac u
    pbkdf2Iter k n u' (xorInto acc u')

/-- block `i` (1-based) of PBKDF2: U1 = PRF(P, S ‖ INT(i)), Uj = PRF(P, Uj-1), T = U1 ⊕ … ⊕ Uc -/
def pbkdf2Block (k : Keyed) (salt : ByteArray) (iter : Nat) (i : Nat) : ByteArray :=
  let u1 := k.mac (SHA256.push32 salt (UInt32.ofNat i))
  pbkdf2Iter k (iter - 1) u1 u1

/-- PBKDF2-HMAC-SHA256(password, salt, iter, dkLen); `iter ≥ 1` -/
def pbkdf2 (password salt : ByteArray) (iter dkLen : Nat) : ByteArray := Id.run do
  let k := keyed password
  let nblk := (dkLen + 31) / 32
  let mut o := ByteArray.emptyWithCapacity (nblk * 32)
  for i in [1 : nblk + 1] do
    o := o ++ pbkdf2Block k salt iter i
  return o.extract 0 dkLen

end Mieru.Crypto.HMAC
