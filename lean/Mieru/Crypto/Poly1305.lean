import Mieru.Crypto.ChaCha20
/-!
# Poly1305 (RFC 8439 §2.5), executable, core Lean only

Five 26-bit limbs held in `UInt64` (products of two limbs plus carries fit in 64 bits); the final
reduction modulo 2^130 − 5 and the addition of `s` are done once per tag on `Nat`.
Not proved: validated by RFC 8439 vectors and differentially against Go's x/crypto.
-/
namespace Mieru.Crypto.Poly1305
open Mieru.Crypto.ChaCha20 (le32)

def mask26 : UInt64 := 0x3ffffff

structure Acc where
  h0 : UInt64
  h1 : UInt64
  h2 : UInt64
  h3 : UInt64
  h4 : UInt64

/-- absorb `nb` 16-byte blocks of `msg` starting at `off`; `hibit` is 2^24 for full blocks -/
def blocks (r0 r1 r2 r3 r4 s1 s2 s3 s4 hibit : UInt64) (msg : ByteArray) :
    Nat → Nat → (h0 h1 h2 h3 h4 : UInt64) → Acc
  | 0, _, h0, h1, h2, h3, h4 => ⟨h0, h1, h2, h3, h4⟩
  | nb + 1, off, h0, h1, h2, h3, h4 =>
    let h0 := h0 + ((le32 msg off).toUInt64 &&& mask26)
    let h1 := h1 + (((le32 msg (off + 3)).toUInt64 >>> 2) &&& mask26)
    let h2 := h2 + (((le32 msg (off + 6)).toUInt64 >>> 4) &&& mask26)
    let h3 := h3 + (((le32 msg (off + 9)).toUInt64 >>> 6) &&& mask26)
    let h4 := h4 + (((le32 msg (off + 12)).toUInt64 >>> 8) ||| hibit)
    let d0 := h0 * r0 + h1 * s4 + h2 * s3 + h3 * s2 + h4 * s1
    let d1 := h0 * r1 + h1 * r0 + h2 * s4 + h3 * s3 + h4 * s2
    let d2 := h0 * r2 + h1 * r1 + h2 * r0 + h3 * s4 + h4 * s3
    let d3 := h0 * r3 + h1 * r2 + h2 * r1 + h3 * r0 + h4 * s4
    let d4 := h0 * r4 + h1 * r3 + h2 * r2 + h3 * r1 + h4 * r0
    let c := d0 >>> 26
    let h0 := d0 &&& mask26
    let d1 := d1 + c
    let c := d1 >>> 26
    let h1 := d1 &&& mask26
    let d2 := d2 + c
    let c := d2 >>> 26
    let h2 := d2 &&& mask26
    let d3 := d3 + c
    let c := d3 >>> 26
    let h3 := d3 &&& mask26
    let d4 := d4 + c
    let c := d4 >>> 26
    let h4 := d4 &&& mask26
    let h0 := h0 + c * 5
    let c := h0 >>> 26
    let h0 := h0 &&& mask26
    let h1 := h1 + c
    blocks r0 r1 r2 r3 r4 s1 s2 s3 s4 hibit msg nb (off + 16) h0 h1 h2 h3 h4

def leNat (b : ByteArray) (off n : Nat) : Nat := Id.run do
  let mut x := 0
  for i in [0:n] do
    x := x + (b.get! (off + i)).toNat <<< (8 * i)
  return x

def natLE (x n : Nat) : ByteArray := Id.run do
  let mut o := ByteArray.emptyWithCapacity n
  for i in [0:n] do
    o := o.push (UInt8.ofNat ((x >>> (8 * i)) % 256))
  return o

/-- one-time authenticator: 32-byte key (r ‖ s), any message → 16-byte tag -/
def mac (key msg : ByteArray) : ByteArray :=
  let r0 := (le32 key 0).toUInt64 &&& 0x3ffffff
  let r1 := ((le32 key 3).toUInt64 >>> 2) &&& 0x3ffff03
  let r2 := ((le32 key 6).toUInt64 >>> 4) &&& 0x3ffc0ff
  let r3 := ((le32 key 9).toUInt64 >>> 6) &&& 0x3f03fff
  let r4 := ((le32 key 12).toUInt64 >>> 8) &&& 0x00fffff
  let s1 := r1 * 5
  let s2 := r2 * 5
  let s3 := r3 * 5
  let s4 := r4 * 5
  let full := msg.size / 16
  let a := blocks r0 r1 r2 r3 r4 s1 s2 s3 s4 (0x1000000 : UInt64) msg full 0 0 0 0 0 0
  let rem := msg.size - full * 16
  let a :=
    if rem = 0 then a else
      let last := Id.run do
        let mut t := (msg.extract (full * 16) msg.size).push 1
        for _ in [0 : 15 - rem] do
          t := t.push 0
        return t
      blocks r0 r1 r2 r3 r4 s1 s2 s3 s4 0 last 1 0 a.h0 a.h1 a.h2 a.h3 a.h4
  let h := a.h0.toNat + a.h1.toNat <<< 26 + a.h2.toNat <<< 52 + a.h3.toNat <<< 78 + a.h4.toNat <<< 104
  let h := h % (2 ^ 130 - 5)
  natLE ((h + leNat key 16 16) % 2 ^ 128) 16

end Mieru.Crypto.Poly1305
