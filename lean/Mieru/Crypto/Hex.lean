/-!
# Hex ⇄ `ByteArray` on UTF-8 bytes (fast paths for the driver; "-" is the empty string)
-/
namespace Mieru.Crypto.Hex

@[inline] def nibble (c : UInt8) : UInt8 :=
  if 48 ≤ c && c ≤ 57 then c - 48
  else if 97 ≤ c && c ≤ 102 then c - 87
  else if 65 ≤ c && c ≤ 70 then c - 55
  else 255

def decodeLoop (u : ByteArray) : Nat → Nat → ByteArray → Option ByteArray
  | 0, _, out => some out
  | n + 1, i, out =>
    let a := nibble (u.get! i)
    let b := nibble (u.get! (i + 1))
    if a == 255 || b == 255 then none else decodeLoop u n (i + 2) (out.push (a * 16 + b))

def decode (s : String) : Option ByteArray :=
  if s == "-" then some ByteArray.empty else
  let u := s.toUTF8
  if u.size % 2 ≠ 0 then none else decodeLoop u (u.size / 2) 0 (ByteArray.emptyWithCapacity (u.size / 2))

@[inline] def digit (n : UInt8) : UInt8 := if n < 10 then 48 + n else 87 + n

def encode (b : ByteArray) : String :=
  if b.size == 0 then "-" else
  let o := Id.run do
    let mut o := ByteArray.emptyWithCapacity (2 * b.size)
    for x in b do
      o := (o.push (digit (x >>> 4))).push (digit (x &&& 15))
    return o
  String.fromUTF8! o

end Mieru.Crypto.Hex
