/-!
# SHA-256 (FIPS 180-4), executable, core Lean only

Not proved: validated by the NIST/RFC vectors in `Mieru.Crypto.SelfTest` (driver op
`crypto-selftest`) and differentially against Go's `crypto/sha256` by the C09 harness scenario.
Written for speed when compiled: `UInt32` arithmetic in tail-recursive loops with explicit
arguments (unboxed), `ByteArray` input and output.
-/
namespace Mieru.Crypto.SHA256

def K : Array UInt32 := #[
  0x428a2f98, 0x71374491, 0xb5c0fbcf, 0xe9b5dba5, 0x3956c25b, 0x59f111f1, 0x923f82a4, 0xab1c5ed5,
  0xd807aa98, 0x12835b01, 0x243185be, 0x550c7dc3, 0x72be5d74, 0x80deb1fe, 0x9bdc06a7, 0xc19bf174,
  0xe49b69c1, 0xefbe4786, 0x0fc19dc6, 0x240ca1cc, 0x2de92c6f, 0x4a7484aa, 0x5cb0a9dc, 0x76f988da,
  0x983e5152, 0xa831c66d, 0xb00327c8, 0xbf597fc7, 0xc6e00bf3, 0xd5a79147, 0x06ca6351, 0x14292967,
  0x27b70a85, 0x2e1b2138, 0x4d2c6dfc, 0x53380d13, 0x650a7354, 0x766a0abb, 0x81c2c92e, 0x92722c85,
  0xa2bfe8a1, 0xa81a664b, 0xc24b8b70, 0xc76c51a3, 0xd192e819, 0xd6990624, 0xf40e3585, 0x106aa070,
  0x19a4c116, 0x1e376c08, 0x2748774c, 0x34b0bcb5, 0x391c0cb3, 0x4ed8aa4a, 0x5b9cca4f, 0x682e6ff3,
  0x748f82ee, 0x78a5636f, 0x84c87814, 0x8cc70208, 0x90befffa, 0xa4506ceb, 0xbef9a3f7, 0xc67178f2]

structure State where
  a : UInt32
  b : UInt32
  c : UInt32
  d : UInt32
  e : UInt32
  f : UInt32
  g : UInt32
  h : UInt32

def init : State :=
  ⟨0x6a09e667, 0xbb67ae85, 0x3c6ef372, 0xa54ff53a, 0x510e527f, 0x9b05688c, 0x1f83d9ab, 0x5be0cd19⟩

@[inline] def rotr (x : UInt32) (n : UInt32) : UInt32 := (x >>> n) ||| (x <<< (32 - n))

@[inline] def be32 (b : ByteArray) (i : Nat) : UInt32 :=
  ((b.get! i).toUInt32 <<< 24) ||| ((b.get! (i + 1)).toUInt32 <<< 16) |||
  ((b.get! (i + 2)).toUInt32 <<< 8) ||| (b.get! (i + 3)).toUInt32

/-- message schedule: 16 words from the block, then 48 derived words -/
def schedule (blk : ByteArray) (off : Nat) : Array UInt32 := Id.run do
  let mut w : Array UInt32 := Array.mkEmpty 64
  for i in [0:16] do
    w := w.push (be32 blk (off + 4 * i))
  for i in [16:64] do
    let w15 := w[i - 15]!
    let w2 := w[i - 2]!
    let s0 := rotr w15 7 ^^^ rotr w15 18 ^^^ (w15 >>> 3)
    let s1 := rotr w2 17 ^^^ rotr w2 19 ^^^ (w2 >>> 10)
    w := w.push (w[i - 16]! + s0 + w[i - 7]! + s1)
  return w

def rounds (w : Array UInt32) (i : Nat) (a b c d e f g h : UInt32) : State :=
  if i < 64 then
    let s1 := rotr e 6 ^^^ rotr e 11 ^^^ rotr e 25
    let ch := (e &&& f) ^^^ ((~~~ e) &&& g)
    let t1 := h + s1 + ch + K[i]! + w[i]!
    let s0 := rotr a 2 ^^^ rotr a 13 ^^^ rotr a 22
    let mj := (a &&& b) ^^^ (a &&& c) ^^^ (b &&& c)
    let t2 := s0 + mj
    rounds w (i + 1) (t1 + t2) a b c (d + t1) e f g
  else ⟨a, b, c, d, e, f, g, h⟩
termination_by 64 - i

/-- absorb the 64-byte block starting at `off` -/
def compress (s : State) (blk : ByteArray) (off : Nat) : State :=
  let r := rounds (schedule blk off) 0 s.a s.b s.c s.d s.e s.f s.g s.h
  ⟨s.a + r.a, s.b + r.b, s.c + r.c, s.d + r.d, s.e + r.e, s.f + r.f, s.g + r.g, s.h + r.h⟩

def compressAll (s : State) (data : ByteArray) (off nblocks : Nat) : State :=
  match nblocks with
  | 0 => s
  | n + 1 => compressAll (compress s data off) data (off + 64) n

@[inline] def push32 (o : ByteArray) (x : UInt32) : ByteArray :=
  (((o.push (x >>> 24).toUInt8).push (x >>> 16).toUInt8).push (x >>> 8).toUInt8).push x.toUInt8

def State.toBytes (s : State) : ByteArray :=
  push32 (push32 (push32 (push32 (push32 (push32 (push32 (push32 (ByteArray.emptyWithCapacity 32) s.a) s.b) s.c) s.d) s.e) s.f) s.g) s.h

def push64be (o : ByteArray) (x : UInt64) : ByteArray :=
  push32 (push32 o (x >>> 32).toUInt32) x.toUInt32

/-- Finish a hash whose first `absorbed` bytes (a multiple of 64) are already in `s`:
    absorb `data`, then the padding `0x80 00… len64`. -/
def finishFrom (s : State) (absorbed : Nat) (data : ByteArray) : ByteArray :=
  let full := data.size / 64
  let s := compressAll s data 0 full
  let rem := data.size - full * 64
  let tail := data.extract (full * 64) data.size
  let tail := tail.push 0x80
  let padTo := if rem + 1 + 8 ≤ 64 then 64 else 128
  let tail := Id.run do
    let mut t := tail
    for _ in [0 : padTo - 8 - (rem + 1)] do
      t := t.push 0
    return t
  let tail := push64be tail (UInt64.ofNat ((absorbed + data.size) * 8))
  (compressAll s tail 0 (padTo / 64)).toBytes

def hash (data : ByteArray) : ByteArray := finishFrom init 0 data

end Mieru.Crypto.SHA256
